(* C20 — utility kernels: executable Gallina model (definitions only).

   CONVENTIONS
   * Ring Z.  Every tensor the kernels see holds small integers, so the library's float results
     are exact integers and are compared exactly.
   * A tensor is a shape and an index function.  Shapes and multi-indices are stored
     LAST DIMENSION FIRST: a torch tensor of shape (b1, b2, m, n) has `tshape = [n; m; b2; b1]`
     and its entry [x1, x2, i, j] is `tat t [j; i; x2; x1]`.  Torch aligns everything these kernels
     do (matmul, broadcasting, expand, negative dims) from the last dimension, so dim -1 is
     position 0, dim -2 is position 1, and a batch index is simply the tail of the list.
   * torch primitives are modelled by their mathematical meaning as index maps (expand, view /
     reshape (row-major), flip, slicing, slice assignment, unsqueeze / squeeze, mT, index_select,
     gather, scatter_, advanced indexing with broadcast index tensors, elementwise ops, sum,
     sparse COO tensors as entry lists with duplicates summing, torch.dsmm as the sum over entries).
     The FFT pair `ifft(fft(x) * fft(y)).real` is replaced by its mathematical definition, the
     circular convolution (`circ_conv0`); `torch.empty` is a tensor filled with an arbitrary value.
   * `Err` means: the library raises. *)
From Coq Require Import List ZArith Bool Arith Lia.
Import ListNotations.

Inductive result (A : Type) : Type := Ok (a : A) | Err.
Arguments Ok {A} a.
Arguments Err {A}.
Definition bind {A B} (r : result A) (f : A -> result B) : result B :=
  match r with Ok a => f a | Err => Err end.
Notation "x <- r ;; k" := (bind r (fun x => k)) (at level 61, r at next level, right associativity).

(* sum_{k<n} f k *)
Fixpoint zsum (n : nat) (f : nat -> Z) : Z :=
  match n with O => 0%Z | S k => (zsum k f + f k)%Z end.
(* for k in range(n): s = body k s *)
Fixpoint loop {S : Type} (n : nat) (body : nat -> S -> S) (s : S) : S :=
  match n with O => s | S k => body k (loop k body s) end.

(* ------------------------------------------------------------------------------------------ *)
(* shapes, indices, tensors *)

Definition shape := list nat.
Fixpoint numel (s : shape) : nat := match s with [] => 1 | d :: r => d * numel r end.
(* row-major flat position of a multi-index (last dimension first = least significant first) *)
Fixpoint ravel (s : shape) (ix : list nat) : nat :=
  match s, ix with d :: s', i :: ix' => i + d * ravel s' ix' | _, _ => 0 end.
Fixpoint unravel (s : shape) (k : nat) : list nat :=
  match s with [] => [] | d :: s' => (k mod d) :: unravel s' (k / d) end.
Fixpoint valid (ix : list nat) (s : shape) : Prop :=
  match ix, s with [], [] => True | i :: ix', d :: s' => i < d /\ valid ix' s' | _, _ => False end.
Fixpoint validb (ix : list nat) (s : shape) : bool :=
  match ix, s with [], [] => true | i :: ix', d :: s' => (i <? d) && validb ix' s' | _, _ => false end.

Record tensor := mkT { tshape : shape; tat : list nat -> Z }.

Definition of_flat (s : shape) (data : list Z) : tensor := mkT s (fun ix => nth (ravel s ix) data 0%Z).
Definition to_flat (t : tensor) : list Z :=
  map (fun k => tat t (unravel (tshape t) k)) (seq 0 (numel (tshape t))).
Definition ndim (t : tensor) : nat := length (tshape t).
Definition dim0 (t : tensor) : nat := nth 0 (tshape t) 0.      (* size(-1) *)
Definition dim1 (t : tensor) : nat := nth 1 (tshape t) 0.      (* size(-2) *)
Definition idx_at (t : tensor) (ix : list nat) : nat := Z.to_nat (tat t ix).   (* LongTensor entry *)

Fixpoint list_nat_eqb (a b : list nat) : bool :=
  match a, b with [], [] => true | x :: r, y :: s => Nat.eqb x y && list_nat_eqb r s | _, _ => false end.
Fixpoint list_Z_eqb (a b : list Z) : bool :=
  match a, b with [], [] => true | x :: r, y :: s => Z.eqb x y && list_Z_eqb r s | _, _ => false end.

(* torch broadcasting: right-aligned (= head-aligned here); size-1 dimensions are read at index 0 *)
Fixpoint bcast_ix (s : shape) (ix : list nat) : list nat :=
  match s, ix with d :: s', i :: ix' => (if d =? 1 then 0 else i) :: bcast_ix s' ix' | _, _ => [] end.
Fixpoint broadcast_shapes (a b : shape) : option shape :=
  match a, b with
  | [], _ => Some b
  | _, [] => Some a
  | x :: a', y :: b' =>
      match broadcast_shapes a' b' with
      | None => None
      | Some r => if x =? y then Some (x :: r) else if x =? 1 then Some (y :: r)
                  else if y =? 1 then Some (x :: r) else None
      end
  end.
(* t.expand(s) is legal iff the dims of t, right-aligned, are equal to those of s or 1 *)
Fixpoint expandable (from to : shape) : bool :=
  match from, to with
  | [], _ => true
  | _ :: _, [] => false
  | x :: f', y :: t' => ((x =? y) || (x =? 1)) && expandable f' t'
  end.
Definition expand (t : tensor) (s : shape) : tensor := mkT s (fun ix => tat t (bcast_ix (tshape t) ix)).

Definition zeros (s : shape) : tensor := mkT s (fun _ => 0%Z).
Definition full (s : shape) (v : Z) : tensor := mkT s (fun _ => v).     (* torch.empty: v arbitrary *)
Definition tmap2 (f : Z -> Z -> Z) (a b : tensor) : tensor := mkT (tshape a) (fun ix => f (tat a ix) (tat b ix)).
Definition tadd := tmap2 Z.add.
Definition tmul := tmap2 Z.mul.
(* x.unsqueeze(-1), x.unsqueeze(-2), x.squeeze(-1), x.mT *)
Definition unsqueeze0 (t : tensor) : tensor := mkT (1 :: tshape t) (fun ix => tat t (tl ix)).
Definition unsqueeze1 (t : tensor) : tensor :=
  mkT (match tshape t with d :: r => d :: 1 :: r | [] => [] end)
      (fun ix => match ix with j :: _ :: b => tat t (j :: b) | _ => 0%Z end).
Definition squeeze0 (t : tensor) : tensor := mkT (tl (tshape t)) (fun ix => tat t (0 :: ix)).
Definition mT (t : tensor) : tensor :=
  mkT (match tshape t with a :: b :: r => b :: a :: r | s => s end)
      (fun ix => match ix with j :: i :: b => tat t (i :: j :: b) | _ => 0%Z end).
(* x.flip(-1) *)
Definition flip0 (t : tensor) : tensor :=
  mkT (tshape t) (fun ix => match ix with k :: b => tat t ((dim0 t - 1 - k) :: b) | [] => 0%Z end).
(* x[..., start:start+len], x[..., start:start+len, :] *)
Definition narrow0 (t : tensor) (start len : nat) : tensor :=
  mkT (len :: tl (tshape t)) (fun ix => match ix with k :: b => tat t ((start + k) :: b) | [] => 0%Z end).
Definition narrow1 (t : tensor) (start len : nat) : tensor :=
  mkT (match tshape t with a :: _ :: r => a :: len :: r | s => s end)
      (fun ix => match ix with j :: k :: b => tat t (j :: (start + k) :: b) | _ => 0%Z end).
(* t[..., start:start+src.size(-1)] = src ;  t[..., start:start+src.size(-2), :] = src *)
Definition assign0 (t : tensor) (start : nat) (src : tensor) : tensor :=
  mkT (tshape t) (fun ix => match ix with
     | k :: b => if (start <=? k) && (k <? start + dim0 src) then tat src ((k - start) :: b) else tat t ix
     | [] => tat t ix end).
Definition assign1 (t : tensor) (start : nat) (src : tensor) : tensor :=
  mkT (tshape t) (fun ix => match ix with
     | j :: k :: b => if (start <=? k) && (k <? start + dim1 src) then tat src (j :: (k - start) :: b) else tat t ix
     | _ => tat t ix end).
(* x[..., k] ;  t[..., k] = src ;  t[..., k] -= src *)
Definition select0 (t : tensor) (k : nat) : tensor := mkT (tl (tshape t)) (fun ix => tat t (k :: ix)).
Definition set_select0 (t : tensor) (k : nat) (src : tensor) : tensor :=
  mkT (tshape t) (fun ix => match ix with k' :: b => if k' =? k then tat src b else tat t ix | [] => tat t ix end).
Definition sub_select0 (t : tensor) (k : nat) (src : tensor) : tensor :=
  mkT (tshape t) (fun ix => match ix with k' :: b => if k' =? k then (tat t ix - tat src b)%Z else tat t ix | [] => tat t ix end).
(* x.sum(-1), x.sum(-2) *)
Definition sum0 (t : tensor) : tensor := mkT (tl (tshape t)) (fun ix => zsum (dim0 t) (fun k => tat t (k :: ix))).
Definition sum1 (t : tensor) : tensor :=
  mkT (match tshape t with a :: _ :: r => a :: r | s => s end)
      (fun ix => match ix with j :: b => zsum (dim1 t) (fun k => tat t (j :: k :: b)) | [] => 0%Z end).
(* x.view(s) / x.reshape(s) / .contiguous(): same row-major data *)
Definition reshape (t : tensor) (s : shape) : tensor := mkT s (fun ix => tat t (unravel (tshape t) (ravel s ix))).
Definition tequal (a b : tensor) : bool := list_nat_eqb (tshape a) (tshape b) && list_Z_eqb (to_flat a) (to_flat b).
Definition all_lt (t : tensor) (bound : nat) : bool :=        (* every entry of an index tensor is in [0, bound) *)
  forallb (fun v => (0 <=? v)%Z && (v <? Z.of_nat bound)%Z) (to_flat t).

(* ------------------------------------------------------------------------------------------ *)
(* linear_operator/utils/broadcasting.py *)

(* _matmul_broadcast_shape(shape_a, shape_b) *)
Definition matmul_broadcast_shape (a b : shape) : result shape :=
  match a, b with
  | n :: m :: abatch, [p] => if n =? p then Ok (m :: abatch) else Err
  | n :: m :: abatch, p :: n' :: bbatch =>
      if n =? n' then
        match broadcast_shapes abatch bbatch with Some bc => Ok (p :: m :: bc) | None => Err end
      else Err
  | _, _ => Err
  end.

(* _pad_with_singletons(obj, before, after): obj.view([1]*before + shape + [1]*after) *)
Definition pad_with_singletons (t : tensor) (before after : nat) : tensor :=
  reshape t (repeat 1 after ++ tshape t ++ repeat 1 before).

(* ------------------------------------------------------------------------------------------ *)
(* linear_operator/utils/toeplitz.py *)

(* the dense definition: T[i,j] = c[i-j] (i >= j), r[j-i] (i < j) *)
Definition Tspec (c r : nat -> Z) (i j : nat) : Z := if j <=? i then c (i - j) else r (j - i).

(* res[i, j] = v on a matrix stored as tensor of shape [n; n] *)
Definition mset (t : tensor) (i j : nat) (v : Z) : tensor :=
  mkT (tshape t) (fun ix => match ix with
     | [j'; i'] => if (i' =? i) && (j' =? j) then v else tat t ix | _ => tat t ix end).

(* toeplitz(toeplitz_column, toeplitz_row); `g` = contents of torch.empty *)
Definition toeplitz (g : Z) (c r : tensor) : result tensor :=
  if negb (ndim c =? 1) then Err else
  if negb (ndim r =? 1) then Err else
  if (dim0 c =? 0) || (dim0 r =? 0) then Err else                 (* c[0] / r[0]: IndexError *)
  if negb (Z.eqb (tat c [0]) (tat r [0])) then Err else
  if negb (dim0 c =? dim0 r) then Err else
  let n := dim0 c in
  if n =? 1 then Ok (reshape c [1; 1]) else
  let res := full [n; n] g in
  let res := loop n (fun i res => loop (n - i) (fun j res => mset res (j + i) j (tat c [i])) res) res in
  let res := loop (n - 1) (fun i' res => let i := S i' in
                 loop (n - i) (fun j res => mset res j (j + i) (tat r [i])) res) res in
  Ok res.
Definition sym_toeplitz (g : Z) (c : tensor) : result tensor := toeplitz g c c.

(* toeplitz_getitem(c, r, i, j) on Python ints i, j; x[k] with a negative k wraps, out of range raises *)
Definition py_getitem1 (t : tensor) (k : Z) : result Z :=
  let n := Z.of_nat (dim0 t) in
  if (0 <=? k)%Z && (k <? n)%Z then Ok (tat t [Z.to_nat k])
  else if (- n <=? k)%Z && (k <? 0)%Z then Ok (tat t [Z.to_nat (k + n)]) else Err.
Definition toeplitz_getitem (c r : tensor) (i j : Z) : result Z :=
  let index := (i - j)%Z in
  if (index <? 0)%Z then py_getitem1 r (Z.abs index) else py_getitem1 c index.
Definition sym_toeplitz_getitem (c : tensor) (i j : Z) : result Z := toeplitz_getitem c c i j.

(* ifft(fft(x) * fft(y)).real along the last dimension (length L = x.size(-1) = y.size(-1)):
   the circular convolution  out[..., i] = sum_k x[..., (i - k) mod L] * y[..., k] *)
Definition circ_conv0 (x y : tensor) : tensor :=
  let L := dim0 x in
  mkT (tshape x) (fun ix => match ix with
     | i :: b => zsum L (fun k => Z.mul (tat x (((i + L - k) mod L) :: b)) (tat y (k :: b)))
     | [] => 0%Z end).

(* toeplitz_matmul(toeplitz_column, toeplitz_row, tensor).
   `vec_ok` selects how a 1-D right-hand side is treated:
     true  = the repaired code (proposed_fixes/C20-toeplitz-matmul-vector.diff): unsqueeze(-1) BEFORE the shapes are
             computed, multiply as a one-column matrix, squeeze(-1) the result — what the docstring promises;
     false = the pinned code: `output_shape = _matmul_broadcast_shape(toeplitz_shape, tensor.shape)` is computed for the
             1-D tensor (= toeplitz_shape[:-1]), then the tensor is unsqueezed to 2-D and `tensor.expand` to `output_shape`
             is asked to expand a 2-D tensor to rank 1 + len(batch): for an unbatched column that expand ALWAYS raises;
             for batched columns a later size check / slice assignment raises for every shape except all-singleton ones.
             The `false` variant is the over-approximation "raises"; it is only ever evaluated to classify a failure
             of the property as the recorded known finding (harness: K.variants), never to accept an output. *)
Definition toeplitz_matmul_core (c r M : tensor) : result tensor :=     (* M has >= 2 dims *)
  if negb (list_nat_eqb (tshape c) (tshape r)) then Err else
  match tshape r with [] => Err | n :: _ =>
  output_shape <- matmul_broadcast_shape (n :: tshape c) (tshape M) ;;
  let broadcasted_t_shape := tl output_shape in
  if negb (expandable (tshape c) broadcasted_t_shape) then Err else
  let c := expand c broadcasted_t_shape in
  let r := expand r broadcasted_t_shape in
  let M := expand M output_shape in
  if negb (tequal (select0 c 0) (select0 r 0)) then Err else
  match output_shape with
  | num_rhs :: orig_size :: batch_shape =>
    let r_reverse := flip0 (narrow0 r 1 (orig_size - 1)) in
    let c_r_rev := zeros ((orig_size + dim0 r_reverse) :: batch_shape) in
    let c_r_rev := assign0 c_r_rev 0 c in
    let c_r_rev := assign0 c_r_rev orig_size r_reverse in
    let temp_tensor := zeros (num_rhs :: (2 * orig_size - 1) :: batch_shape) in
    let temp_tensor := assign1 temp_tensor 0 M in
    let tempT := mT temp_tensor in
    let cexp := expand (unsqueeze1 c_r_rev) (tshape tempT) in
    let output := mT (circ_conv0 cexp tempT) in
    Ok (narrow1 output 0 orig_size)
  | _ => Err
  end end.
Definition toeplitz_matmul (vec_ok : bool) (c r M : tensor) : result tensor :=
  if ndim M =? 0 then Err else
  if ndim M =? 1 then
    if vec_ok then out <- toeplitz_matmul_core c r (unsqueeze0 M) ;; Ok (squeeze0 out) else Err
  else toeplitz_matmul_core c r M.
Definition sym_toeplitz_matmul (vec_ok : bool) (c M : tensor) : result tensor := toeplitz_matmul vec_ok c c M.

(* sym_toeplitz_derivative_quadratic_form(left_vectors, right_vectors); matrices are (... x m x s):
   s vectors of length m as columns (the convention of LinearOperator._bilinear_derivative) *)
Definition sym_toeplitz_derivative_quadratic_form (left right : tensor) : result tensor :=
  if negb (list_nat_eqb (tshape left) (tshape right)) then Err else
  if ndim left =? 0 then Err else
  let left := if ndim left =? 1 then unsqueeze0 left else left in
  let right := if ndim right =? 1 then unsqueeze0 right else right in
  let batch_shape := skipn 2 (tshape left) in
  let toeplitz_size := dim1 left in
  let num_vectors := dim0 left in
  let left := mT left in
  let right := mT right in
  let columns := zeros (tshape left) in
  let columns := set_select0 columns 0 (select0 left 0) in
  res <- toeplitz_matmul false columns left (unsqueeze0 right) ;;
  let rows := flip0 left in
  let columns := set_select0 columns 0 (select0 rows 0) in
  res2 <- toeplitz_matmul false columns rows (unsqueeze0 (flip0 right)) ;;
  let res := tadd res res2 in
  let res := sum1 (reshape res (toeplitz_size :: num_vectors :: batch_shape)) in
  let corr := sum0 (reshape (tmul left right) ((num_vectors * toeplitz_size) :: batch_shape)) in
  Ok (sub_select0 res 0 corr).

(* ------------------------------------------------------------------------------------------ *)
(* sparse COO tensors: shape + entry list (index tuple LAST DIMENSION FIRST, value); duplicates sum *)

Record sparse := mkS { sshape : shape; sent : list (list nat * Z) }.
Definition sdense (s : sparse) : tensor :=
  mkT (sshape s) (fun ix => fold_right (fun e acc => if list_nat_eqb (fst e) ix then (snd e + acc)%Z else acc) 0%Z (sent s)).
(* torch.sparse_coo_tensor(indices, values, size) raises when an index is out of bounds *)
Definition swf (s : sparse) : bool := forallb (fun e => validb (fst e) (sshape s)) (sent s).
Definition mk_sparse (sh : shape) (ents : list (list nat * Z)) : result sparse :=
  let s := mkS sh ents in if swf s then Ok s else Err.

Fixpoint upd_nth {A} (i : nat) (v : A) (l : list A) : list A :=
  match l, i with [], _ => [] | _ :: r, O => v :: r | x :: r, S k => x :: upd_nth k v r end.
Definition del_nth {A} (i : nat) (l : list A) : list A := firstn i l ++ skipn (S i) l.
Fixpoint map2 {A B C} (f : A -> B -> C) (a : list A) (b : list B) : list C :=
  match a, b with x :: a', y :: b' => f x y :: map2 f a' b' | _, _ => [] end.
Definition arange (n : nat) : tensor := mkT [n] (fun ix => Z.of_nat (hd 0 ix)).

(* ------------------------------------------------------------------------------------------ *)
(* linear_operator/utils/sparse.py *)

(* make_sparse_from_indices_and_values(interp_indices, interp_values, num_rows) *)
Definition make_sparse_from_indices_and_values (idx vals : tensor) (num_rows : nat) : result sparse :=
  match tshape vals with
  | n_coefficients :: n_target_points :: rbatch =>
    let batch_shape := rev rbatch in                      (* in torch order, as the code iterates it *)
    let N := numel (tshape vals) in
    if negb (numel (tshape idx) =? N) then Err else      (* torch.stack: equal lengths *)
    (* batch_tensors[i] = arange(bs_i).unsqueeze(1).repeat(prod(bs[:i]), prod(bs[i+1:]) * nt * nc).view(-1):
       entry p is (p / (prod(bs[i+1:]) * nt * nc)) mod bs_i *)
    let batch_tensor (i p : nat) :=
        (p / (numel (skipn (S i) batch_shape) * n_target_points * n_coefficients)) mod (nth i batch_shape 0) in
    (* row_tensor = arange(nt).unsqueeze(1).repeat(numel(bs), nc).view(-1) *)
    let row_tensor (p : nat) := (p / n_coefficients) mod n_target_points in
    let idx_flat := reshape idx [N] in
    let value_tensor := reshape vals [N] in
    (* column p of index_tensor = stack([*batch_tensors, idx.reshape(-1), row_tensor]) *)
    let column (p : nat) :=
        row_tensor p :: idx_at idx_flat [p] :: rev (map (fun i => batch_tensor i p) (seq 0 (length batch_shape))) in
    let nonzero_indices := filter (fun p => negb (Z.eqb (tat value_tensor [p]) 0)) (seq 0 N) in
    let interp_size := n_target_points :: num_rows :: rbatch in
    let entries := match nonzero_indices with
                   | [] => [(repeat 0 (ndim idx), 0%Z)]
                   | _ => map (fun p => (column p, tat value_tensor [p])) nonzero_indices
                   end in
    mk_sparse interp_size entries
  | _ => Err
  end.

(* sparse_repeat(sparse, *repeat_sizes); `stride sz` is what the k-th copy is shifted by, per unit k, along a
   repeated dimension of size sz: the pinned code adds k (stride = fun _ => 1), the dense definition needs k * sz *)
Definition sparse_repeat_dim (stride : nat -> nat) (s : sparse) (pos rep : nat) : sparse :=
  if 1 <? rep then
    let sz := nth pos (sshape s) 0 in
    mkS (upd_nth pos (rep * sz) (sshape s))
        (flat_map (fun k => map (fun e => (upd_nth pos (nth pos (fst e) 0 + k * stride sz) (fst e), snd e)) (sent s))
                  (seq 0 rep))
  else s.
Definition sparse_repeat (stride : nat -> nat) (s : sparse) (repeat_sizes : list nat) : sparse :=  (* sizes in torch order *)
  let num_new_dims := length repeat_sizes - length (sshape s) in
  let s := if length (sshape s) <? length repeat_sizes
           then mkS (sshape s ++ repeat 1 num_new_dims) (map (fun e => (fst e ++ repeat 0 num_new_dims, snd e)) (sent s))
           else s in
  let nd := length (sshape s) in
  loop (length repeat_sizes) (fun i s => sparse_repeat_dim stride s (nd - 1 - i) (nth i repeat_sizes 0)) s.
(* the calling convention `sparse_repeat(sparse, *repeat_sizes)`: the pinned test
   `len(repeat_sizes) == 1 and isinstance(repeat_sizes, tuple)` is true for EVERY single argument, so a single int r
   becomes `repeat_sizes = r` and `len(r)` raises TypeError; the repaired test looks at `repeat_sizes[0]` *)
Inductive rep_args := RVarargs (l : list nat) | RTuple (l : list nat).
Definition sparse_repeat_call (fixed_call : bool) (stride : nat -> nat) (s : sparse) (a : rep_args) : result sparse :=
  match a with
  | RTuple l => Ok (sparse_repeat stride s l)
  | RVarargs [r] => if fixed_call then Ok (sparse_repeat stride s [r]) else Err
  | RVarargs l => Ok (sparse_repeat stride s l)
  end.
Definition stride_pinned (sz : nat) : nat := 1.
Definition stride_dense (sz : nat) : nat := sz.

(* torch.dsmm(sparse 2-D, dense 2-D) = sum over the entries *)
Definition dsmm2 (s : sparse) (d : tensor) : result tensor :=
  match sshape s, tshape d with
  | [n; m], [p; n'] =>
    if negb (n =? n') then Err else
    Ok (mkT [p; m] (fun ix => match ix with
       | [j; i] => fold_right (fun e acc => match fst e with
                                 | [c; r] => if r =? i then (snd e * tat d [j; c] + acc)%Z else acc
                                 | _ => acc end) 0%Z (sent s)
       | _ => 0%Z end))
  | _, _ => Err
  end.
(* x.transpose(0, 1) of a 3-D tensor *)
Definition swap12 (t : tensor) : tensor :=
  mkT (match tshape t with [a; b; c] => [a; c; b] | s => s end)
      (fun ix => match ix with [j; x; y] => tat t [j; y; x] | _ => 0%Z end).

(* bdsmm(sparse, dense) *)
Definition bdsmm (stride : nat -> nat) (s : sparse) (d : tensor) : result tensor :=
  if 2 <? length (sshape s) then
    output_shape <- matmul_broadcast_shape (sshape s) (tshape d) ;;
    if ndim d <? 2 then Err else
    let out_batch := skipn 2 output_shape in
    let expanded_sparse_shape := firstn 2 (sshape s) ++ out_batch in
    let unsqueezed_sparse_shape := sshape s ++ repeat 1 (length output_shape - length (sshape s)) in
    let repeat_sizes := rev (map2 Nat.div expanded_sparse_shape unsqueezed_sparse_shape) in
    let s := sparse_repeat stride s repeat_sizes in
    let d := expand d (dim0 d :: dim1 d :: out_batch) in
    match sshape s with
    | num_cols :: num_rows :: rbatch =>
      let batch_shape := rev rbatch in
      let batch_size := numel rbatch in
      let batch_multiplication_factor (i : nat) := numel (skipn (S i) batch_shape) in
      (* batch_assignment = indices[:-2].t() @ batch_multiplication_factor *)
      let batch_assignment (e : list nat) :=
          let bidx := rev (skipn 2 e) in
          fold_right Nat.add 0 (map (fun i => nth i bidx 0 * batch_multiplication_factor i) (seq 0 (length batch_shape))) in
      sparse_2d <- mk_sparse [batch_size * num_cols; batch_size * num_rows]
           (map (fun e => ([nth 0 (fst e) 0 + batch_assignment (fst e) * num_cols;
                            nth 1 (fst e) 0 + batch_assignment (fst e) * num_rows], snd e)) (sent s)) ;;
      let out_cols := numel (tshape d) / (batch_size * num_cols) in
      let dense_2d := reshape d [out_cols; batch_size * num_cols] in
      res <- dsmm2 sparse_2d dense_2d ;;
      Ok (reshape res (out_cols :: num_rows :: rbatch))
    | _ => Err
    end
  else if 2 <? ndim d then
    match tshape d with
    | num_cols :: num_rows :: rbatch =>
      let batch_size := numel rbatch in
      let d := reshape d [num_cols; num_rows; batch_size] in
      let x := reshape (swap12 d) [batch_size * num_cols; num_rows] in
      res <- dsmm2 s x ;;
      let m := dim1 res in
      let res := reshape res [num_cols; batch_size; m] in
      Ok (reshape (swap12 res) (num_cols :: m :: rbatch))
    | _ => Err
    end
  else dsmm2 s d.

(* sparse_eye(size) *)
Definition sparse_eye (size : nat) : sparse := mkS [size; size] (map (fun k => ([k; k], 1%Z)) (seq 0 size)).

(* sparse_getitem(sparse, idxs).  Index items: Python ints and slices (None = omitted bound).
   `fixed` = false transcribes the pinned code: a negative int never matches an entry (the result is all zeros);
   `stop < start` after slice.indices gives a negative size, which raises; an empty selection is ONE explicit zero at
   index 0, which is out of bounds in a dimension of size 0 (the result cannot be densified: counted as a raise).
   `fixed` = true transcribes the repaired code (proposed_fixes/C20-sparse-getitem-*.diff): `if idx < 0: idx += size[i]`,
   `stop = max(stop, start)`, and `if 0 in size: indices, values = indices[:, :0], values[:0]` before the constructor. *)
Inductive index := IInt (k : Z) | ISlice (start stop step : option Z).
(* slice.indices(n) for step 1 *)
Definition slice_indices (start stop : option Z) (n : Z) : Z * Z :=
  let clamp v := if (v <? 0)%Z then Z.max (v + n) 0 else Z.min v n in
  (match start with None => 0%Z | Some v => clamp v end, match stop with None => n | Some v => clamp v end).
(* state of the loop: size and entries with index tuples in TORCH order (dims are counted from the front here) *)
Definition getitem_step (fixed : bool) (i : nat) (ix : index) (st : list Z * list (list nat * Z))
  : result (list Z * list (list nat * Z)) :=
  let '(size, ents) := st in
  match ix with
  | IInt k =>
      let k := if fixed && (k <? 0)%Z then (k + nth i size 0)%Z else k in
      let hit := filter (fun e => Z.eqb (Z.of_nat (nth i (fst e) 0)) k) ents in
      let ents' := match hit with
                   | [] => [(repeat 0 (length size - 1), 0%Z)]
                   | _ => map (fun e => (del_nth i (fst e), snd e)) hit end in
      Ok (del_nth i size, ents')
  | ISlice start stop step =>
      let '(a, b) := slice_indices start stop (nth i size 0%Z) in
      let b := if fixed then Z.max b a else b in
      match step with
      | None | Some 1%Z =>
        let hit := filter (fun e => let v := Z.of_nat (nth i (fst e) 0) in (v <? b)%Z && (a <=? v)%Z) ents in
        let ents' := match hit with
                     | [] => [(repeat 0 (length size), 0%Z)]
                     | _ => map (fun e => (upd_nth i (nth i (fst e) 0 - Z.to_nat a) (fst e), snd e)) hit end in
        Ok (upd_nth i (b - a)%Z size, ents')
      | _ => Err
      end
  end.
Fixpoint getitem_loop (fixed : bool) (idxs : list index) (i : nat) (st : list Z * list (list nat * Z)) :=
  (* for i, idx in list(enumerate(idxs))[::-1]: the LAST index item is processed first *)
  match idxs with
  | [] => Ok st
  | ix :: rest => st' <- getitem_loop fixed rest (S i) st ;; getitem_step fixed i ix st'
  end.
Definition sparse_getitem (fixed : bool) (s : sparse) (idxs : list index) : result sparse :=
  if 2 <? length (sshape s) then Err else
  if length (sshape s) <? length idxs then Err else
  st <- getitem_loop fixed idxs 0 (map Z.of_nat (rev (sshape s)), map (fun e => (rev (fst e), snd e)) (sent s)) ;;
  let '(size, ents) := st in
  if existsb (fun d => (d <? 0)%Z) size then Err else
  let ents := if fixed && existsb (fun d => (d =? 0)%Z) size then [] else ents in
  (* `return sum(values)` when no dimension is left: a 0-dim result holding the sum *)
  mk_sparse (rev (map Z.to_nat size)) (map (fun e => (rev (fst e), snd e)) ents).

(* to_sparse(dense) *)
Definition to_sparse (d : tensor) : result sparse :=
  let N := numel (tshape d) in
  let nz := filter (fun p => negb (Z.eqb (tat d (unravel (tshape d) p)) 0)) (seq 0 N) in
  let ents := match nz with
              | [] => [(repeat 0 (ndim d), 0%Z)]
              | _ => map (fun p => (unravel (tshape d) p, tat d (unravel (tshape d) p))) nz end in
  mk_sparse (tshape d) ents.

(* linear_operator/functions/_dsmm.py : DSMM.forward = bdsmm(sparse, dense); DSMM.backward = bdsmm(sparse.mT, grad) *)
Definition swap01 {A} (l : list A) : list A := match l with a :: b :: r => b :: a :: r | _ => l end.
Definition smT (s : sparse) : sparse := mkS (swap01 (sshape s)) (map (fun e => (swap01 (fst e), snd e)) (sent s)).
Definition dsmm_forward (stride : nat -> nat) (s : sparse) (d : tensor) : result tensor := bdsmm stride s d.
Definition dsmm_backward (stride : nat -> nat) (s : sparse) (grad_output : tensor) : result tensor :=
  bdsmm stride (smT s) grad_output.

(* ------------------------------------------------------------------------------------------ *)
(* linear_operator/utils/interpolation.py *)

(* rhs.index_select(0, idx) for 1-D rhs and idx *)
Definition index_select0 (rhs idx : tensor) : tensor := mkT (tshape idx) (fun ix => tat rhs [idx_at idx ix]).
(* src.gather(-3, idx) *)
Definition gather2 (src idx : tensor) : tensor :=
  mkT (tshape idx) (fun ix => match ix with c :: q :: _ :: b => tat src (c :: q :: idx_at idx ix :: b) | _ => 0%Z end).

Definition left_interp (idx vals rhs : tensor) : result tensor :=
  if ndim rhs =? 1 then
    if negb (numel (tshape idx) =? numel (tshape vals)) then Err else
    if negb (all_lt idx (dim0 rhs)) then Err else
    let res := reshape (index_select0 rhs (reshape idx [numel (tshape idx)])) (tshape vals) in
    let res := tmul res vals in
    Ok (sum0 res)
  else
    match tshape idx, tshape rhs with
    | num_interp :: num_rows :: ibatch, num_columns :: num_data :: _ =>
      output_shape <- matmul_broadcast_shape (num_data :: num_rows :: ibatch) (tshape rhs) ;;
      let batch_shape := skipn 2 output_shape in
      let full_shape := num_columns :: num_interp :: num_rows :: batch_shape in
      if negb (expandable (1 :: tshape idx) full_shape && expandable (1 :: tshape vals) full_shape) then Err else
      let idx_e := expand (unsqueeze0 idx) full_shape in
      let val_e := expand (unsqueeze0 vals) full_shape in
      let rhs_e := expand (unsqueeze1 rhs) (num_columns :: num_interp :: num_data :: batch_shape) in
      if negb (all_lt idx num_data) then Err else
      let res := tmul (gather2 rhs_e idx_e) val_e in
      Ok (sum1 res)
    | _, _ => Err
    end.

Definition left_t_interp (stride : nat -> nat) (idx vals rhs : tensor) (output_dim : nat) : result tensor :=
  let is_vector := ndim rhs =? 1 in
  let rhs := if is_vector then unsqueeze0 rhs else rhs in
  match tshape vals, tshape rhs, tshape idx with
  | num_interp :: num_data :: vbatch, num_cols :: rhs_rows :: rbatch, i0 :: i1 :: ibatch =>
    (* values = rhs.unsqueeze(-2) * interp_values.unsqueeze(-1)  (broadcasting multiply) *)
    match broadcast_shapes (num_cols :: 1 :: rhs_rows :: rbatch) (1 :: num_interp :: num_data :: vbatch) with
    | None => Err
    | Some vshape =>
      let values := tmul (expand (unsqueeze1 rhs) vshape) (expand (unsqueeze0 vals) vshape) in
      output_shape <- matmul_broadcast_shape (num_data :: output_dim :: ibatch) (tshape rhs) ;;
      let batch_shape := skipn 2 output_shape in
      let batch_size := numel batch_shape in
      if negb (expandable (tshape idx) (i0 :: i1 :: batch_shape)) then Err else
      let idx := expand idx (i0 :: i1 :: batch_shape) in
      let K := num_data * num_interp in
      if negb (numel (tshape idx) =? batch_size * K) then Err else      (* torch.stack: equal lengths *)
      let idx_flat := reshape idx [batch_size * K] in
      (* summing matrix: entry p = (batch p / K, row idx_flat[p], column p mod K), value 1 *)
      summing_matrix <- mk_sparse [K; output_dim; batch_size]
          (map (fun p => ([p mod K; idx_at idx_flat [p]; p / K], 1%Z)) (seq 0 (batch_size * K))) ;;
      if negb (numel vshape =? batch_size * K * num_cols) then Err else
      let values := reshape values [num_cols; K; batch_size] in
      res <- bdsmm stride summing_matrix values ;;
      let res := reshape res (dim0 res :: dim1 res :: batch_shape) in
      Ok (if is_vector then squeeze0 res else res)
    end
  | _, _, _ => Err
  end.

(* ------------------------------------------------------------------------------------------ *)
(* linear_operator/utils/permutation.py *)

Fixpoint broadcast_all (l : list shape) : option shape :=
  match l with
  | [] => Some []
  | s :: r => match broadcast_all r with None => None | Some b => broadcast_shapes s b end
  end.
(* M[idx_0, ..., idx_k]: every dimension indexed by a LongTensor, the index tensors broadcast against each other.
   `idxs` LAST DIMENSION FIRST: idxs[0] indexes dim -1 *)
Definition adv_index (M : tensor) (idxs : list tensor) : result tensor :=
  if negb (length idxs =? ndim M) then Err else
  match broadcast_all (map tshape idxs) with
  | None => Err
  | Some out_shape =>
    if negb (forallb (fun p => all_lt (fst p) (snd p)) (combine idxs (tshape M))) then Err else
    Ok (mkT out_shape (fun ix => tat M (map (fun I => idx_at I (bcast_ix (tshape I) ix)) idxs)))
  end.

(* apply_permutation(matrix, left_permutation, right_permutation) on a dense tensor *)
Definition apply_permutation (M : tensor) (left right : option tensor) : result tensor :=
  match left, right with
  | None, None => Ok M
  | _, _ =>
    match tshape M with
    | ncols :: nrows :: rbatch =>
      let k := length rbatch in
      (* batch_idx for the batch dimension at position pos (>= 2): arange(size).view(1,..,size,..,1,1,1) *)
      let batch_idx (pos : nat) :=
          mkT (upd_nth pos (nth pos (tshape M) 0) (repeat 1 (k + 2))) (fun ix => Z.of_nat (nth pos ix 0)) in
      let left := match left with Some l => l | None => arange nrows end in
      let right := match right with Some r => r | None => arange ncols end in
      if (ndim left =? 0) || (ndim right =? 0) then Err else
      adv_index M (unsqueeze1 right :: unsqueeze0 left :: map batch_idx (seq 2 k))
    | _ => Err
    end
  end.

(* zeros_like(perm).scatter_(-1, perm, arange.expand_as(perm)): for k = 0..n-1: res[..., perm[..., k]] = k *)
Definition inverse_permutation (perm : tensor) : result tensor :=
  let n := dim0 perm in
  if ndim perm =? 0 then Err else
  if negb (all_lt perm n) then Err else
  Ok (mkT (tshape perm) (fun ix => match ix with
     | i :: b => loop n (fun k (res : nat -> Z) => fun i' => if i' =? idx_at perm (k :: b) then Z.of_nat k else res i')
                        (fun _ => 0%Z) i
     | [] => 0%Z end)).
