(* C17 — executable comparator used by the correspondence shards (gen/cases_*.v). *)
From Coq Require Import List ZArith Bool Arith.
Import ListNotations.
Require Import C17.Generic C17.gen.Settings C17.Laws.

Definition ev' := ev kid.
Definition st' := state cid gs.

Fixpoint vlist_eqb (a b : list val) : bool :=
  match a, b with [], [] => true | x :: r, y :: s => val_eqb x y && vlist_eqb r s | _, _ => false end.
Definition flat (o : option val) : val := match o with Some v => v | None => VTok (-1) end.
Definition obs_c (c : cid) (g : gs) : list val := map flat (observe c (get c g)).

(* sparse observation: (index in all_cids, observer values) for the classes whose observers
   differ from those of the initial store *)
Fixpoint sparse (cs : list cid) (i : nat) (g : gs) : list (nat * list val) :=
  match cs with
  | [] => []
  | c :: r => let o := obs_c c g in
              if vlist_eqb o (obs_c c gs0) then sparse r (S i) g else (i, o) :: sparse r (S i) g
  end.
Fixpoint diff_eqb (a b : list (nat * list val)) : bool :=
  match a, b with
  | [], [] => true
  | (i, x) :: r, (j, y) :: s => Nat.eqb i j && vlist_eqb x y && diff_eqb r s
  | _, _ => false
  end.

Inductive expect := EOk (d : list (nat * list val)) | EErr.

(* run the model event by event; true iff every observation agrees with the implementation's *)
Fixpoint agree (h : list (ev' * expect)) (s : st') : bool :=
  match h with
  | [] => true
  | (e, x) :: r =>
      match step cid gs get set penter pexit kid new s e, x with
      | Some s', EOk d => diff_eqb (sparse all_cids 0 (fst s')) d && agree r s'
      | None, EErr => true        (* the implementation raised, the model is stuck: history ends *)
      | _, _ => false
      end
  end.

Fixpoint bad_cases (cs : list (list (ev' * expect))) (i : nat) : list nat :=
  match cs with
  | [] => []
  | h :: r => if agree h (gs0, []) then bad_cases r (S i) else i :: bad_cases r (S i)
  end.

(* the same observations against the REFERENCE stack semantics (Generic.srun with Laws.spec_new): true iff every
   observation up to the first event outside the specification (exit that does not match the innermost open
   block, wrong arity) agrees with the implementation's *)
Definition sst' := sstate cid gs.
Fixpoint agree_spec (h : list (ev' * expect)) (s : sst') : bool :=
  match h with
  | [] => true
  | (e, x) :: r =>
      match sstep cid gs get set kid kind_of spec_new s e, x with
      | Some s', EOk d => diff_eqb (sparse all_cids 0 (fst (fst s'))) d && agree_spec r s'
      | Some _, EErr => false
      | None, _ => true
      end
  end.
Fixpoint bad_cases_spec (cs : list (list (ev' * expect))) (i : nat) : list nat :=
  match cs with
  | [] => []
  | h :: r => if agree_spec h (gs0, [], []) then bad_cases_spec r (S i) else i :: bad_cases_spec r (S i)
  end.
