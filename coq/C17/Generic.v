(* C17 — generic scoping theorem for settings contexts.
   Hand-written, independent of /repo.  The generated file gen/Settings.v instantiates the
   section variables with the functions translated from linear_operator/settings.py and
   Laws.v discharges the hypotheses for the generated code. *)
From Coq Require Import List Arith Bool ZArith Lia Permutation.
Import ListNotations.

(* values stored in settings slots and context-object fields *)
Inductive val := VNone | VBool (b : bool) | VTok (z : Z) | VList (l : list val).

Definition is_none (v : val) : bool := match v with VNone => true | _ => false end.
Definition vnot (v : val) : val :=
  match v with VBool b => VBool (negb b) | VNone => VBool true | _ => VBool false end.
Definition truthy (v : val) : bool :=
  match v with VNone => false | VBool b => b | VTok z => negb (Z.eqb z 0) | VList l => negb (Nat.eqb (length l) 0) end.
Definition vappend (l x : val) : option val :=
  match l with VList xs => Some (VList (x :: xs)) | _ => None end.     (* stack top = head *)
Definition vpop (l : val) : option (val * val) :=
  match l with VList (x :: xs) => Some (x, VList xs) | _ => None end.

(* the setting slots of one class (class attributes read by on/off/value) *)
Record slotvec := SV { s_state : val; s_gv : val; s_fv : val; s_dv : val; s_hv : val }.

Inductive kind := KFlag | KValue | KDtype.

(* what entering a context with constructor arguments [args] must do to the class slots *)
Definition spec_enter (k : kind) (args : list val) (sv : slotvec) : option slotvec :=
  match k, args with
  | KFlag, [st] => Some (SV st (s_gv sv) (s_fv sv) (s_dv sv) (s_hv sv))
  | KValue, [v] => Some (SV (s_state sv) v (s_fv sv) (s_dv sv) (s_hv sv))
  | KDtype, [f; d; h] =>
      Some (SV (s_state sv) (s_gv sv)
               (if is_none f then s_fv sv else f)
               (if is_none d then s_dv sv else d)
               (if is_none h then s_hv sv else h))
  | _, _ => None
  end.

(* what the observers of a class (on/off | value | value(float/double/half)) must report for given slots;
   d = what on() reports while the flag is unset (its default) *)
Definition spec_observe (k : kind) (d : val) (sv : slotvec) : list (option val) :=
  match k with
  | KFlag => let on := if is_none (s_state sv) then d else s_state sv in [Some on; Some (vnot on)]
  | KValue => [Some (s_gv sv)]
  | KDtype => [Some (s_fv sv); Some (s_dv sv); Some (s_hv sv)]
  end.

Section Generic.
Variable cid : Type.
Variable gs : Type.
Variable get : cid -> gs -> slotvec.
Variable set : cid -> slotvec -> gs -> gs.
Hypothesis get_set_eq : forall c v g, get c (set c v g) = v.
Hypothesis get_set_neq : forall c c' v g, c <> c' -> get c' (set c v g) = get c' g.
Hypothesis set_get : forall c g, set c (get c g) g = g.
Hypothesis set_set : forall c v w g, set c v (set c w g) = set c v g.
Hypothesis set_comm : forall c c' v w g, c <> c' -> set c v (set c' w g) = set c' w (set c v g).

Definition pobj := (cid * list val)%type.
Variable penter pexit : cid -> slotvec -> list val -> option (slotvec * list val).
(* the local law every primitive context class must satisfy *)
Hypothesis restore_law : forall c sv o sv1 o1,
  penter c sv o = Some (sv1, o1) -> pexit c sv1 o1 = Some (sv, o).

Fixpoint walk (f : cid -> slotvec -> list val -> option (slotvec * list val))
         (ps : list pobj) (g : gs) : option (gs * list pobj) :=
  match ps with
  | [] => Some (g, [])
  | (c, o) :: r =>
      match f c (get c g) o with
      | None => None
      | Some (sv1, o1) =>
          match walk f r (set c sv1 g) with
          | None => None
          | Some (g', r') => Some (g', (c, o1) :: r')
          end
      end
  end.
Definition enter_parts := walk penter.
Definition exit_parts := walk pexit.

Lemma walk_classes f ps g g' ps' : walk f ps g = Some (g', ps') -> map fst ps' = map fst ps.
Proof.
  revert g g' ps'. induction ps as [|[c o] r IH]; simpl; intros g g' ps' H.
  - inversion H; reflexivity.
  - destruct (f c (get c g) o) as [[sv1 o1]|]; [|discriminate].
    destruct (walk f r (set c sv1 g)) as [[g2 r2]|] eqn:E; [|discriminate].
    inversion H; subst. simpl. f_equal. eapply IH; eauto.
Qed.

Lemma walk_frame f ps g g' ps' c :
  ~ In c (map fst ps) -> walk f ps g = Some (g', ps') -> get c g' = get c g.
Proof.
  revert g g' ps'. induction ps as [|[c0 o] r IH]; simpl; intros g g' ps' Hn H.
  - inversion H; reflexivity.
  - destruct (f c0 (get c0 g) o) as [[sv1 o1]|]; [|discriminate].
    destruct (walk f r (set c0 sv1 g)) as [[g2 r2]|] eqn:E; [|discriminate].
    inversion H; subst.
    assert (Hn1 : ~ In c (map fst r)) by (intro X; apply Hn; right; exact X).
    rewrite (IH _ _ _ Hn1 E).
    apply get_set_neq. intros ->. apply Hn; left; reflexivity.
Qed.

(* a walk over classes different from c commutes with an update of c *)
Lemma walk_set_comm f ps g g' ps' c v :
  ~ In c (map fst ps) -> walk f ps g = Some (g', ps') ->
  walk f ps (set c v g) = Some (set c v g', ps').
Proof.
  revert g g' ps'. induction ps as [|[c0 o] r IH]; simpl; intros g g' ps' Hn H.
  - inversion H; reflexivity.
  - assert (Hc : c <> c0) by (intros ->; apply Hn; left; reflexivity).
    rewrite (get_set_neq c c0 v g Hc).
    destruct (f c0 (get c0 g) o) as [[sv1 o1]|]; [|discriminate].
    destruct (walk f r (set c0 sv1 g)) as [[g2 r2]|] eqn:E; [|discriminate].
    inversion H; subst.
    rewrite <- (set_comm c c0 v sv1 g Hc).
    rewrite (IH _ _ _ (fun X => Hn (or_intror X)) E). reflexivity.
Qed.

Lemma parts_restore ps : NoDup (map fst ps) -> forall g g1 ps1,
  enter_parts ps g = Some (g1, ps1) -> exit_parts ps1 g1 = Some (g, ps).
Proof.
  unfold enter_parts, exit_parts.
  induction ps as [|[c o] r IH]; simpl; intros Hnd g g1 ps1 H.
  - inversion H; reflexivity.
  - inversion Hnd as [|? ? Hnotin Hnd']; subst.
    destruct (penter c (get c g) o) as [[sv1 o1]|] eqn:Ee; [|discriminate].
    destruct (walk penter r (set c sv1 g)) as [[g2 r2]|] eqn:E; [|discriminate].
    inversion H; subst. simpl.
    assert (Hg : get c g1 = sv1).
    { rewrite (walk_frame _ _ _ _ _ c Hnotin E). apply get_set_eq. }
    rewrite Hg. rewrite (restore_law _ _ _ _ _ Ee).
    specialize (IH Hnd' _ _ _ E).
    assert (Hnotin2 : ~ In c (map fst r2)) by (rewrite (walk_classes _ _ _ _ _ E); exact Hnotin).
    rewrite (walk_set_comm _ _ _ _ _ c (get c g) Hnotin2 IH).
    rewrite set_set, set_get. reflexivity.
Qed.

(* The parts of a composite belong to pairwise different classes, so the ORDER in which a composite enters or
   exits them is irrelevant: walking any permutation of the parts gives the same store and the same (permuted)
   objects.  This is why the model may exit the parts in the order in which they were entered whatever order
   the source uses (fast_computations / linalg_dtypes exit first-entered-first; LIFO would do as well). *)
Lemma walk_perm f ps ps' : Permutation ps ps' -> NoDup (map fst ps) ->
  forall g g1 r, walk f ps g = Some (g1, r) ->
  exists r', walk f ps' g = Some (g1, r') /\ Permutation r r'.
Proof.
  induction 1 as [|[c o] l l' Hp IH|[c2 o2] [c1 o1] l|l l' l'' H1 IH1 H2 IH2]; intros Hnd g g1 r Hw.
  - exists r. split; [exact Hw|apply Permutation_refl].
  - simpl in Hw |- *. inversion Hnd as [|? ? Hn Hnd']; subst.
    destruct (f c (get c g) o) as [[sv1 o1]|]; [|discriminate].
    destruct (walk f l (set c sv1 g)) as [[g2 r2]|] eqn:E; [|discriminate].
    inversion Hw; subst.
    destruct (IH Hnd' _ _ _ E) as [r' [Hr' Hp']]. rewrite Hr'.
    eexists; split; [reflexivity|]. apply perm_skip; exact Hp'.
  - simpl in Hw |- *.
    assert (Hc : c1 <> c2).
    { simpl in Hnd. inversion Hnd as [|? ? Hn _]; subst. intros X. apply Hn. left. symmetry; exact X. }
    destruct (f c1 (get c1 g) o1) as [[sa oa]|] eqn:Ea; [|discriminate].
    rewrite (get_set_neq c1 c2 sa g Hc) in Hw.
    destruct (f c2 (get c2 g) o2) as [[sb ob]|] eqn:Eb; [|discriminate].
    rewrite (get_set_neq c2 c1 sb g (fun X => Hc (eq_sym X))). rewrite Ea.
    rewrite (set_comm c1 c2 sa sb g Hc).
    destruct (walk f l (set c2 sb (set c1 sa g))) as [[g2 r2]|]; [|discriminate].
    inversion Hw; subst. eexists; split; [reflexivity|]. apply perm_swap.
  - destruct (IH1 Hnd _ _ _ Hw) as [r1 [Hr1 Hp1]].
    assert (Hnd' : NoDup (map fst l')).
    { eapply Permutation_NoDup; [|exact Hnd]. apply Permutation_map; exact H1. }
    destruct (IH2 Hnd' _ _ _ Hr1) as [r2 [Hr2 Hp2]].
    exists r2. split; [exact Hr2|]. eapply Permutation_trans; eauto.
Qed.

(* ---- events and histories ---------------------------------------------------------- *)
Variable kid : Type.
Variable new : kid -> list val -> gs -> option (list pobj).
Hypothesis new_nodup : forall k a g ps, new k a g = Some ps -> NoDup (map fst ps).

Inductive ev := New (k : kid) (args : list val) | Enter (i : nat) | Exit (i : nat) | ExitExc (i : nat).

Definition state := (gs * list (list pobj))%type.

Fixpoint replace {A} (i : nat) (x : A) (l : list A) : list A :=
  match l, i with
  | [], _ => []
  | _ :: r, O => x :: r
  | y :: r, S j => y :: replace j x r
  end.

Definition step (s : state) (e : ev) : option state :=
  let (g, objs) := s in
  match e with
  | New k a => match new k a g with Some ps => Some (g, objs ++ [ps]) | None => None end
  | Enter i =>
      match nth_error objs i with
      | Some ps => match enter_parts ps g with
                   | Some (g', ps') => Some (g', replace i ps' objs) | None => None end
      | None => None end
  | Exit i | ExitExc i =>
      match nth_error objs i with
      | Some ps => match exit_parts ps g with
                   | Some (g', ps') => Some (g', replace i ps' objs) | None => None end
      | None => None end
  end.

Fixpoint run (h : list ev) (s : state) : option state :=
  match h with
  | [] => Some s
  | e :: r => match step s e with Some s' => run r s' | None => None end
  end.

Lemma run_app h1 h2 s : run (h1 ++ h2) s = match run h1 s with Some s' => run h2 s' | None => None end.
Proof. revert s; induction h1 as [|e r IH]; simpl; intros s; [reflexivity|]. destruct (step s e); auto. Qed.

(* well-nested histories: every exit (normal or exceptional) matches the innermost open enter *)
Inductive bal : list ev -> Prop :=
| bal_nil : bal []
| bal_new k a : bal [New k a]
| bal_app h1 h2 : bal h1 -> bal h2 -> bal (h1 ++ h2)
| bal_wrap i h : bal h -> bal (Enter i :: h ++ [Exit i])
| bal_wrap_exc i h : bal h -> bal (Enter i :: h ++ [ExitExc i]).

Definition wfobjs (objs : list (list pobj)) := Forall (fun ps => NoDup (map fst ps)) objs.

Lemma replace_length {A} i (x : A) l : length (replace i x l) = length l.
Proof. revert i; induction l; destruct i; simpl; auto. Qed.
Lemma nth_error_replace_eq {A} i (x : A) l : i < length l -> nth_error (replace i x l) i = Some x.
Proof. revert i; induction l; destruct i; simpl; intros; try lia; auto. apply IHl; lia. Qed.
Lemma replace_replace {A} i (x y : A) l : replace i x (replace i y l) = replace i x l.
Proof. revert i; induction l; destruct i; simpl; auto. f_equal; auto. Qed.
Lemma replace_nth {A} i (x : A) l : nth_error l i = Some x -> replace i x l = l.
Proof. revert i; induction l; destruct i; simpl; intros H; try discriminate; auto.
  - inversion H; reflexivity. - f_equal; auto. Qed.
Lemma replace_app {A} i (x : A) l ext : i < length l -> replace i x (l ++ ext) = replace i x l ++ ext.
Proof. revert i; induction l; destruct i; simpl; intros; try lia; auto. f_equal. apply IHl; lia. Qed.
Lemma wfobjs_replace i ps objs : wfobjs objs -> NoDup (map fst ps) -> wfobjs (replace i ps objs).
Proof. unfold wfobjs. revert i; induction objs; destruct i; simpl; intros H1 H2; auto;
  inversion H1; subst; constructor; auto. Qed.

Lemma exit_restores i g objs ps g1 ps1 ext :
  wfobjs objs -> nth_error objs i = Some ps -> enter_parts ps g = Some (g1, ps1) ->
  step (g1, replace i ps1 objs ++ ext) (Exit i) = Some (g, objs ++ ext) /\
  step (g1, replace i ps1 objs ++ ext) (ExitExc i) = Some (g, objs ++ ext).
Proof.
  intros Hwf Hn He.
  assert (Hi : i < length objs) by (apply nth_error_Some; congruence).
  assert (Hnd : NoDup (map fst ps)).
  { unfold wfobjs in Hwf. rewrite Forall_forall in Hwf. apply Hwf. eapply nth_error_In; eauto. }
  unfold step.
  rewrite nth_error_app1 by (rewrite replace_length; exact Hi).
  rewrite nth_error_replace_eq by exact Hi.
  rewrite (parts_restore ps Hnd _ _ _ He).
  rewrite replace_app by (rewrite replace_length; exact Hi).
  rewrite replace_replace, (replace_nth _ _ _ Hn). split; reflexivity.
Qed.

(* THE SCOPING THEOREM: a well-nested history restores the global settings store exactly and
   leaves every pre-existing context object as it was (it may only create new objects). *)
Theorem scoping_generic h : bal h -> forall g objs s',
  wfobjs objs -> run h (g, objs) = Some s' ->
  fst s' = g /\ exists ext, snd s' = objs ++ ext /\ wfobjs (objs ++ ext).
Proof.
  induction 1 as [|k a|h1 h2 H1 IH1 H2 IH2|i h Hb IH|i h Hb IH]; intros g objs s' Hwf Hr.
  - simpl in Hr. inversion Hr; subst. split; [reflexivity|]. exists []. rewrite app_nil_r. auto.
  - simpl in Hr. destruct (new k a g) as [ps|] eqn:En; [|discriminate]. inversion Hr; subst.
    split; [reflexivity|]. exists [ps]. split; [reflexivity|].
    unfold wfobjs in *. apply Forall_app. split; [exact Hwf|]. constructor; [|constructor].
    eapply new_nodup; eauto.
  - rewrite run_app in Hr. destruct (run h1 (g, objs)) as [[g1 o1]|] eqn:E1; [|discriminate].
    destruct (IH1 _ _ _ Hwf E1) as [Hg1 [ext1 [Ho1 Hwf1]]]. simpl in Hg1, Ho1. subst g1 o1.
    destruct (IH2 _ _ _ Hwf1 Hr) as [Hg2 [ext2 [Ho2 Hwf2]]].
    split; [exact Hg2|]. exists (ext1 ++ ext2). rewrite app_assoc. rewrite <- Ho2. split; [reflexivity|].
    rewrite Ho2. exact Hwf2.
  - simpl in Hr.
    destruct (nth_error objs i) as [ps|] eqn:En; [|discriminate].
    destruct (enter_parts ps g) as [[g1 ps1]|] eqn:Ee; [|discriminate].
    rewrite run_app in Hr.
    assert (Hnd : NoDup (map fst ps)).
    { unfold wfobjs in Hwf. rewrite Forall_forall in Hwf. apply Hwf. eapply nth_error_In; eauto. }
    assert (Hwf1 : wfobjs (replace i ps1 objs)).
    { apply wfobjs_replace; [exact Hwf|]. unfold enter_parts in Ee. rewrite (walk_classes _ _ _ _ _ Ee). exact Hnd. }
    destruct (run h (g1, replace i ps1 objs)) as [[g2 o2]|] eqn:E2; [|discriminate].
    destruct (IH _ _ _ Hwf1 E2) as [Hg2 [ext [Ho2 Hwf2]]]. simpl in Hg2, Ho2. subst g2 o2.
    destruct (exit_restores i g objs ps g1 ps1 ext Hwf En Ee) as [Hx _].
    cbn [run] in Hr. rewrite Hx in Hr. inversion Hr; subst. split; [reflexivity|].
    exists ext. split; [reflexivity|].
    unfold wfobjs in *. apply Forall_app. apply Forall_app in Hwf2. tauto.
  - simpl in Hr.
    destruct (nth_error objs i) as [ps|] eqn:En; [|discriminate].
    destruct (enter_parts ps g) as [[g1 ps1]|] eqn:Ee; [|discriminate].
    rewrite run_app in Hr.
    assert (Hnd : NoDup (map fst ps)).
    { unfold wfobjs in Hwf. rewrite Forall_forall in Hwf. apply Hwf. eapply nth_error_In; eauto. }
    assert (Hwf1 : wfobjs (replace i ps1 objs)).
    { apply wfobjs_replace; [exact Hwf|]. unfold enter_parts in Ee. rewrite (walk_classes _ _ _ _ _ Ee). exact Hnd. }
    destruct (run h (g1, replace i ps1 objs)) as [[g2 o2]|] eqn:E2; [|discriminate].
    destruct (IH _ _ _ Hwf1 E2) as [Hg2 [ext [Ho2 Hwf2]]]. simpl in Hg2, Ho2. subst g2 o2.
    destruct (exit_restores i g objs ps g1 ps1 ext Hwf En Ee) as [_ Hx].
    cbn [run] in Hr. rewrite Hx in Hr. inversion Hr; subst. split; [reflexivity|].
    exists ext. split; [reflexivity|].
    unfold wfobjs in *. apply Forall_app. apply Forall_app in Hwf2. tauto.
Qed.

(* ---- what is in force INSIDE the blocks: the model refines a reference stack semantics ------------------ *)
(* specification of a context object: its parts (class, arguments put in force by entering it) *)
Definition sobj := list (cid * list val).
Variable kind_of : cid -> kind.
Variable pinit : cid -> list val -> slotvec -> option (list val).
Hypothesis effect_law : forall c args sv0 o sv sv1 o1,
  pinit c args sv0 = Some o -> penter c sv o = Some (sv1, o1) -> spec_enter (kind_of c) args sv = Some sv1.
(* entering an object does not change what a later enter of the same object (re-entry, re-use) does to the slots *)
Hypothesis reenter_law : forall c sv o sv1 o1 sv' sv2 o2,
  penter c sv o = Some (sv1, o1) -> penter c sv' o1 = Some (sv2, o2) -> exists o2', penter c sv' o = Some (sv2, o2').
Variable spec_new : kid -> list val -> option sobj.
Variable args_ok : kid -> list val -> bool.

(* an object state o of class c "carries" the constructor arguments args: whenever it is entered, the slots
   become what spec_enter prescribes for args *)
Definition carries (c : cid) (args : list val) (o : list val) : Prop :=
  forall sv sv1 o1, penter c sv o = Some (sv1, o1) -> spec_enter (kind_of c) args sv = Some sv1.
Definition carries_ps (sp : sobj) (ps : list pobj) : Prop :=
  Forall2 (fun q p => fst q = fst p /\ carries (fst p) (snd q) (snd p)) sp ps.
Hypothesis new_carries : forall k a g ps, args_ok k a = true -> new k a g = Some ps ->
  exists sp, spec_new k a = Some sp /\ carries_ps sp ps.

Lemma carries_init c args sv0 o : pinit c args sv0 = Some o -> carries c args o.
Proof. intros H sv sv1 o1 He. eapply effect_law; eauto. Qed.
Lemma carries_enter c args o sv sv1 o1 : carries c args o -> penter c sv o = Some (sv1, o1) -> carries c args o1.
Proof.
  intros H He sv' sv2 o2 H2. destruct (reenter_law _ _ _ _ _ _ _ _ He H2) as [o2' H3]. eapply H; eauto.
Qed.

(* the effect the specification ascribes to entering an object *)
Fixpoint spec_parts (sp : sobj) (g : gs) : option gs :=
  match sp with
  | [] => Some g
  | (c, args) :: r => match spec_enter (kind_of c) args (get c g) with
                      | Some sv => spec_parts r (set c sv g)
                      | None => None
                      end
  end.

Lemma enter_parts_spec sp ps : carries_ps sp ps -> forall g g1 ps1,
  enter_parts ps g = Some (g1, ps1) -> spec_parts sp g = Some g1 /\ carries_ps sp ps1.
Proof.
  unfold enter_parts. induction 1 as [|[c' args] [c o] sp' ps' [Hc Hcar] HF IH]; simpl; intros g g1 ps1 He.
  - inversion He; subst. split; [reflexivity|constructor].
  - simpl in Hc, Hcar. subst c'.
    destruct (penter c (get c g) o) as [[sv1 o1]|] eqn:Ee; [|discriminate].
    destruct (walk penter ps' (set c sv1 g)) as [[g2 r2]|] eqn:E; [|discriminate].
    inversion He; subst.
    rewrite (Hcar _ _ _ Ee).
    destruct (IH _ _ _ E) as [Hs Hc2]. split; [exact Hs|].
    constructor; [|exact Hc2]. simpl. split; [reflexivity|]. eapply carries_enter; eauto.
Qed.

(* the reference semantics: a stack of (object index, store in force before its enter) *)
Definition sstate := (gs * list sobj * list (nat * gs))%type.
Definition sstep (s : sstate) (e : ev) : option sstate :=
  let '(g, specs, stk) := s in
  match e with
  | New k a => match spec_new k a with Some sp => Some (g, specs ++ [sp], stk) | None => None end
  | Enter i => match nth_error specs i with
               | Some sp => match spec_parts sp g with Some g' => Some (g', specs, (i, g) :: stk) | None => None end
               | None => None end
  | Exit i | ExitExc i =>
      match stk with
      | (j, g0) :: stk' => if Nat.eqb i j then Some (g0, specs, stk') else None
      | [] => None
      end
  end.
Fixpoint srun (h : list ev) (s : sstate) : option sstate :=
  match h with
  | [] => Some s
  | e :: r => match sstep s e with Some s' => srun r s' | None => None end
  end.
Lemma srun_app h1 h2 s : srun (h1 ++ h2) s = match srun h1 s with Some s' => srun h2 s' | None => None end.
Proof. revert s; induction h1 as [|e r IH]; simpl; intros s; [reflexivity|]. destruct (sstep s e); auto. Qed.

Definition news_ok (h : list ev) := forall k a, In (New k a) h -> args_ok k a = true.
Definition good (specs : list sobj) (objs : list (list pobj)) := Forall2 carries_ps specs objs.

Lemma good_nth specs objs i ps : good specs objs -> nth_error objs i = Some ps ->
  exists sp, nth_error specs i = Some sp /\ carries_ps sp ps.
Proof.
  unfold good. intros H; revert i. induction H as [|sp0 ps0 specs' objs' H0 HF IH]; intros [|i] Hn; simpl in *; try discriminate.
  - inversion Hn; subst. exists sp0; split; [reflexivity|exact H0].
  - apply IH; exact Hn.
Qed.
Lemma good_replace specs objs i sp ps1 : good specs objs -> nth_error specs i = Some sp -> carries_ps sp ps1 ->
  good specs (replace i ps1 objs).
Proof.
  unfold good. intros H; revert i. induction H as [|sp0 ps0 specs' objs' H0 HF IH]; intros [|i] Hn Hc; simpl in *; try discriminate.
  - inversion Hn; subst. constructor; assumption.
  - constructor; [exact H0|]. apply IH; assumption.
Qed.
Lemma Forall2_len {A B} (R : A -> B -> Prop) a b : Forall2 R a b -> length a = length b.
Proof. induction 1; simpl; congruence. Qed.
Lemma Forall2_app_split {A B} (R : A -> B -> Prop) a b c d :
  length a = length c -> Forall2 R (a ++ b) (c ++ d) -> Forall2 R a c /\ Forall2 R b d.
Proof.
  revert c. induction a as [|x a IH]; intros [|y c] Hl H; simpl in *; try discriminate.
  - split; [constructor|exact H].
  - inversion H; subst. destruct (IH c) as [H1 H2]; [congruence|assumption|]. split; [constructor; assumption|exact H2].
Qed.

Lemma bal_refines h : bal h -> news_ok h -> forall g objs specs stk s',
  wfobjs objs -> good specs objs -> run h (g, objs) = Some s' ->
  exists ext spext, s' = (g, objs ++ ext) /\ srun h (g, specs, stk) = Some (g, specs ++ spext, stk) /\
    good (specs ++ spext) (objs ++ ext) /\ wfobjs (objs ++ ext).
Proof.
  induction 1 as [|k a|h1 h2 H1 IH1 H2 IH2|i h Hb IH|i h Hb IH]; intros Hok g objs specs stk s' Hwf Hgood Hr.
  - simpl in Hr. inversion Hr; subst. exists [], []. rewrite !app_nil_r. repeat split; auto.
  - simpl in Hr. destruct (new k a g) as [ps|] eqn:En; [|discriminate]. inversion Hr; subst.
    destruct (new_carries k a g ps (Hok k a (or_introl eq_refl)) En) as [sp [Hsp Hc]].
    exists [ps], [sp]. simpl. rewrite Hsp. repeat split.
    + apply Forall2_app; [exact Hgood|constructor; [exact Hc|constructor]].
    + unfold wfobjs in *. apply Forall_app. split; [exact Hwf|]. constructor; [|constructor]. eapply new_nodup; eauto.
  - rewrite run_app in Hr. destruct (run h1 (g, objs)) as [s1|] eqn:E1; [|discriminate].
    assert (Hok1 : news_ok h1) by (intros k a Hin; apply (Hok k a); apply in_or_app; left; exact Hin).
    assert (Hok2 : news_ok h2) by (intros k a Hin; apply (Hok k a); apply in_or_app; right; exact Hin).
    destruct (IH1 Hok1 _ _ _ stk _ Hwf Hgood E1) as [ext1 [sx1 [Hs1 [Hsr1 [Hg1 Hw1]]]]]. subst s1.
    destruct (IH2 Hok2 _ _ _ stk _ Hw1 Hg1 Hr) as [ext2 [sx2 [Hs2 [Hsr2 [Hg2 Hw2]]]]].
    exists (ext1 ++ ext2), (sx1 ++ sx2). rewrite !app_assoc. repeat split; auto.
    rewrite srun_app, Hsr1. exact Hsr2.
  - assert (Hokh : news_ok h).
    { intros k a Hin. apply (Hok k a). right. apply in_or_app; left; exact Hin. }
    simpl in Hr.
    destruct (nth_error objs i) as [ps|] eqn:En; [|discriminate].
    destruct (enter_parts ps g) as [[g1 ps1]|] eqn:Ee; [|discriminate].
    rewrite run_app in Hr.
    assert (Hnd : NoDup (map fst ps)).
    { unfold wfobjs in Hwf. rewrite Forall_forall in Hwf. apply Hwf. eapply nth_error_In; eauto. }
    assert (Hwf1 : wfobjs (replace i ps1 objs)).
    { apply wfobjs_replace; [exact Hwf|]. unfold enter_parts in Ee. rewrite (walk_classes _ _ _ _ _ Ee). exact Hnd. }
    destruct (good_nth _ _ _ _ Hgood En) as [sp [Hnsp Hcar]].
    destruct (enter_parts_spec _ _ Hcar _ _ _ Ee) as [Hspec Hcar1].
    assert (Hgood1 : good specs (replace i ps1 objs)) by (eapply good_replace; eauto).
    destruct (run h (g1, replace i ps1 objs)) as [s2|] eqn:E2; [|discriminate].
    destruct (IH Hokh _ _ _ ((i, g) :: stk) _ Hwf1 Hgood1 E2) as [ext [sx [Hs2 [Hsr [Hg2 Hw2]]]]]. subst s2.
    destruct (exit_restores i g objs ps g1 ps1 ext Hwf En Ee) as [Hx _].
    cbn [run] in Hr. rewrite Hx in Hr. inversion Hr; subst.
    assert (Hlen : length specs = length (replace i ps1 objs)).
    { rewrite replace_length. eapply Forall2_len; exact Hgood. }
    destruct (Forall2_app_split _ _ _ _ _ Hlen Hg2) as [_ Hgx].
    exists ext, sx. repeat split.
    + simpl. rewrite Hnsp, Hspec. rewrite srun_app, Hsr. simpl. rewrite Nat.eqb_refl. reflexivity.
    + apply Forall2_app; assumption.
    + unfold wfobjs in *. apply Forall_app. apply Forall_app in Hw2. tauto.
  - assert (Hokh : news_ok h).
    { intros k a Hin. apply (Hok k a). right. apply in_or_app; left; exact Hin. }
    simpl in Hr.
    destruct (nth_error objs i) as [ps|] eqn:En; [|discriminate].
    destruct (enter_parts ps g) as [[g1 ps1]|] eqn:Ee; [|discriminate].
    rewrite run_app in Hr.
    assert (Hnd : NoDup (map fst ps)).
    { unfold wfobjs in Hwf. rewrite Forall_forall in Hwf. apply Hwf. eapply nth_error_In; eauto. }
    assert (Hwf1 : wfobjs (replace i ps1 objs)).
    { apply wfobjs_replace; [exact Hwf|]. unfold enter_parts in Ee. rewrite (walk_classes _ _ _ _ _ Ee). exact Hnd. }
    destruct (good_nth _ _ _ _ Hgood En) as [sp [Hnsp Hcar]].
    destruct (enter_parts_spec _ _ Hcar _ _ _ Ee) as [Hspec Hcar1].
    assert (Hgood1 : good specs (replace i ps1 objs)) by (eapply good_replace; eauto).
    destruct (run h (g1, replace i ps1 objs)) as [s2|] eqn:E2; [|discriminate].
    destruct (IH Hokh _ _ _ ((i, g) :: stk) _ Hwf1 Hgood1 E2) as [ext [sx [Hs2 [Hsr [Hg2 Hw2]]]]]. subst s2.
    destruct (exit_restores i g objs ps g1 ps1 ext Hwf En Ee) as [_ Hx].
    cbn [run] in Hr. rewrite Hx in Hr. inversion Hr; subst.
    assert (Hlen : length specs = length (replace i ps1 objs)).
    { rewrite replace_length. eapply Forall2_len; exact Hgood. }
    destruct (Forall2_app_split _ _ _ _ _ Hlen Hg2) as [_ Hgx].
    exists ext, sx. repeat split.
    + simpl. rewrite Hnsp, Hspec. rewrite srun_app, Hsr. simpl. rewrite Nat.eqb_refl. reflexivity.
    + apply Forall2_app; assumption.
    + unfold wfobjs in *. apply Forall_app. apply Forall_app in Hw2. tauto.
Qed.

(* prefixes of well-nested histories: balanced pieces separated by enters that are still open at the end;
   the second index lists the open objects, innermost first *)
Inductive pre : list ev -> list nat -> Prop :=
| pre_bal h : bal h -> pre h []
| pre_open h1 i h2 st : pre h1 st -> bal h2 -> pre (h1 ++ Enter i :: h2) (i :: st).

(* REFINEMENT: at EVERY point of a well-nested history (not only at its end) the stores of the model are those of
   the reference stack semantics: inside a block every slot has the value given by the innermost open context
   that addresses it (dtype contexts: only the slots whose argument was given), every other slot is as outside;
   after an exit everything is as immediately before the matching enter. *)
Theorem refines_spec_generic h st : pre h st -> news_ok h -> forall g objs specs s',
  wfobjs objs -> good specs objs -> run h (g, objs) = Some s' ->
  exists specs' stk', srun h (g, specs, []) = Some (fst s', specs', stk') /\ map fst stk' = st /\
    good specs' (snd s') /\ wfobjs (snd s').
Proof.
  induction 1 as [h Hb|h1 i h2 st Hp IH Hb]; intros Hok g objs specs s' Hwf Hgood Hr.
  - destruct (bal_refines h Hb Hok _ _ _ [] _ Hwf Hgood Hr) as [ext [sx [Hs [Hsr [Hg Hw]]]]]. subst s'.
    exists (specs ++ sx), []. simpl. repeat split; auto.
  - rewrite run_app in Hr. destruct (run h1 (g, objs)) as [[g1 objs1]|] eqn:E1; [|discriminate].
    assert (Hok1 : news_ok h1) by (intros k a Hin; apply (Hok k a); apply in_or_app; left; exact Hin).
    assert (Hok2 : news_ok h2) by (intros k a Hin; apply (Hok k a); apply in_or_app; right; right; exact Hin).
    destruct (IH Hok1 _ _ _ _ Hwf Hgood E1) as [specs1 [stk1 [Hsr1 [Hst1 [Hg1 Hw1]]]]]. simpl in Hsr1, Hg1, Hw1.
    simpl in Hr.
    destruct (nth_error objs1 i) as [ps|] eqn:En; [|discriminate].
    destruct (enter_parts ps g1) as [[g2 ps2]|] eqn:Ee; [|discriminate].
    assert (Hnd : NoDup (map fst ps)).
    { unfold wfobjs in Hw1. rewrite Forall_forall in Hw1. apply Hw1. eapply nth_error_In; eauto. }
    assert (Hwf2 : wfobjs (replace i ps2 objs1)).
    { apply wfobjs_replace; [exact Hw1|]. unfold enter_parts in Ee. rewrite (walk_classes _ _ _ _ _ Ee). exact Hnd. }
    destruct (good_nth _ _ _ _ Hg1 En) as [sp [Hnsp Hcar]].
    destruct (enter_parts_spec _ _ Hcar _ _ _ Ee) as [Hspec Hcar2].
    assert (Hgood2 : good specs1 (replace i ps2 objs1)) by (eapply good_replace; eauto).
    destruct (bal_refines h2 Hb Hok2 _ _ _ ((i, g1) :: stk1) _ Hwf2 Hgood2 Hr) as [ext [sx [Hs [Hsr [Hg Hw]]]]]. subst s'.
    exists (specs1 ++ sx), ((i, g1) :: stk1). simpl. repeat split; auto.
    + rewrite srun_app, Hsr1. simpl. rewrite Hnsp, Hspec. exact Hsr.
    + f_equal. exact Hst1.
Qed.

(* REFUSED ENTER.  The model treats a raising construct / enter as all-or-nothing (step = None: nothing happened);
   the translator guarantees this reading by rejecting every source in which a raise (or a comparison that may raise)
   follows an assignment on the same path.  Python does not run the block nor call __exit__ when __enter__ raised, so a
   history with a refused enter is h1, the refused Enter i, h2: it restores everything like any well-nested history. *)
Theorem refused_enter_generic h1 i h2 : bal h1 -> bal h2 -> forall g objs s1 s2,
  wfobjs objs -> run h1 (g, objs) = Some s1 -> step s1 (Enter i) = None -> run h2 s1 = Some s2 ->
  fst s2 = g /\ exists ext, snd s2 = objs ++ ext.
Proof.
  intros Hb1 Hb2 g objs [g1 o1] s2 Hwf Hr1 _ Hr2.
  destruct (scoping_generic h1 Hb1 _ _ _ Hwf Hr1) as [Hg1 [ext1 [Ho1 Hw1]]]. simpl in Hg1, Ho1. subst g1 o1.
  destruct (scoping_generic h2 Hb2 _ _ _ Hw1 Hr2) as [Hg2 [ext2 [Ho2 _]]].
  split; [exact Hg2|]. exists (ext1 ++ ext2). rewrite Ho2. rewrite app_assoc. reflexivity.
Qed.

(* NO CROSS-TALK: an event on an object touches only the slots of the classes of its parts *)
Theorem no_cross_talk_generic g objs e g' objs' c :
  step (g, objs) e = Some (g', objs') ->
  (forall i ps, (e = Enter i \/ e = Exit i \/ e = ExitExc i) -> nth_error objs i = Some ps -> ~ In c (map fst ps)) ->
  get c g' = get c g.
Proof.
  intros Hs Hc. destruct e as [k a|i|i|i]; simpl in Hs.
  - destruct (new k a g); inversion Hs; reflexivity.
  - destruct (nth_error objs i) as [ps|] eqn:En; [|discriminate].
    destruct (enter_parts ps g) as [[g1 ps1]|] eqn:Ee; [|discriminate]. inversion Hs; subst.
    eapply walk_frame; [|exact Ee]. eapply Hc; eauto.
  - destruct (nth_error objs i) as [ps|] eqn:En; [|discriminate].
    destruct (exit_parts ps g) as [[g1 ps1]|] eqn:Ee; [|discriminate]. inversion Hs; subst.
    eapply walk_frame; [|exact Ee]. eapply Hc; eauto.
  - destruct (nth_error objs i) as [ps|] eqn:En; [|discriminate].
    destruct (exit_parts ps g) as [[g1 ps1]|] eqn:Ee; [|discriminate]. inversion Hs; subst.
    eapply walk_frame; [|exact Ee]. eapply Hc; eauto.
Qed.

End Generic.
