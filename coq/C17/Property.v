(* C17 — Settings contexts are properly scoped and never leak.
   Only theorem statements live here; each is closed by `exact`/`apply` of a lemma proved in
   Generic.v / Laws.v about the model GENERATED from linear_operator/settings.py. *)
From Coq Require Import List ZArith Bool Permutation.
Import ListNotations.
Require Import C17.Generic C17.gen.Settings C17.Laws.

Notation run' := (run cid gs get set penter pexit kid new).
Notation step' := (step cid gs get set penter pexit kid new).
Notation bal' := (bal kid).
Notation wfobjs' := (wfobjs cid).

(* Every well-nested history of construct / enter / exit / exception-exit events over all setting
   classes (objects may be constructed at any time, re-used and re-entered) leaves every slot of
   every setting class exactly as it was, and every pre-existing context object unchanged. *)
Theorem C17_scoping : forall h, bal' h -> forall g objs s',
  wfobjs' objs -> run' h (g, objs) = Some s' ->
  fst s' = g /\ exists ext, snd s' = objs ++ ext /\ wfobjs' (objs ++ ext).
Proof.
  exact (scoping_generic cid gs get set get_set_eq get_set_neq set_get set_set set_comm
           penter pexit restore_law kid new new_nodup).
Qed.

(* An event on a context object changes only the slots of the classes of that object's parts
   (its own class; for fast_computations / linalg_dtypes: their part classes). *)
Theorem C17_no_cross_talk : forall g objs e g' objs' c,
  step' (g, objs) e = Some (g', objs') ->
  (forall i ps, (e = Enter kid i \/ e = Exit kid i \/ e = ExitExc kid i) -> nth_error objs i = Some ps -> ~ In c (map fst ps)) ->
  get c g' = get c g.
Proof.
  exact (no_cross_talk_generic cid gs get set get_set_neq penter pexit kid new).
Qed.

(* Entering takes effect: the class slots become what the constructor arguments ask for
   (dtype contexts: only the slots whose argument is not None), whenever the object was built. *)
Theorem C17_takes_effect : forall c args sv0 o sv sv1 o1,
  pinit c args sv0 = Some o -> penter c sv o = Some (sv1, o1) ->
  spec_enter (kind_of c) args sv = Some sv1.
Proof. exact effect_law. Qed.

(* after a successful enter, the matching exit cannot fail and restores slots and object *)
Theorem C17_exit_restores : forall c sv o sv1 o1,
  penter c sv o = Some (sv1, o1) -> pexit c sv1 o1 = Some (sv, o).
Proof. exact restore_law. Qed.

(* FINITE TABLE (regenerated from the source): every composite context enters each of its parts exactly once and
   exits each of its parts exactly once (the order lists are permutations of the parts) *)
Theorem C17_composite_orders : orders_ok = true.
Proof. exact orders_ok_true. Qed.

(* ... and the order is irrelevant: the parts of a composite belong to pairwise different classes, and walking
   (entering or exiting, f arbitrary) any permutation of such parts yields the same store and the same objects.
   Hence the model, which exits the parts in the order in which they were entered, covers whatever order the
   source uses. *)
Theorem C17_part_order_irrelevant : forall f ps ps', Permutation ps ps' -> NoDup (map fst ps) ->
  forall g g1 r, walk cid gs get set f ps g = Some (g1, r) ->
  exists r', walk cid gs get set f ps' g = Some (g1, r') /\ Permutation r r'.
Proof. exact (walk_perm cid gs get set get_set_neq set_comm). Qed.

(* the observers cls.on()/off()/value()/value(dtype) report exactly the slots of their own kind: a dtype slot is
   never reported for another dtype, off() = not on(), an unset flag reports its default *)
Theorem C17_observers : forall c sv, observe c sv = spec_observe (kind_of c) (default_on c) sv.
Proof. exact observer_law. Qed.

(* FINITE TABLE (regenerated from the source, decided by computation): a class that carries a cache attribute
   (deterministic_probes.probe_vectors) resets it to None on every path of __enter__ and of __exit__, so probe
   vectors drawn under one state of the flag are never seen under another *)
Theorem C17_cache_reset : caches_ok = true.
Proof. exact caches_ok_true. Qed.

(* a composite constructs exactly the part contexts its documentation promises (spec_composite_args,
   hand-written in Laws.v), each from the promised argument — so that, with C17_takes_effect, entering
   it puts those values in force: fast_computations(covar_root_decomposition, log_prob, solves) hands
   flag i to part i; linalg_dtypes(default, symeig, cholesky) hands `symeig or default` to the symeig
   part and `cholesky or default` to the cholesky part.  args_ok: the arguments of linalg_dtypes are torch dtypes or
   None (a dtype is never falsy, so `x or default` and `default if x is None else x` coincide on them) *)
Theorem C17_composite_args : forall k args g ps parts,
  args_ok k args = true ->
  spec_composite_args k args = Some parts -> new k args g = Some ps ->
  map fst ps = map fst parts /\
  Forall2 (fun p q => pinit (fst q) (snd q) (get (fst q) g) = Some (snd p)) ps parts.
Proof. exact composite_args_law. Qed.

(* the hypothesis args_ok of C17_composite_args (linalg_dtypes is given dtypes or None) is satisfiable *)
Example C17_args_ok_sat : args_ok k_linalg_dtypes [VTok 1; VNone; VTok 16] = true /\
                          args_ok k_fast_computations [VBool true; VBool false; VBool true] = true.
Proof. split; reflexivity. Qed.

(* REFINEMENT of the reference stack semantics (srun, Generic.v: Enter pushes the current store and applies
   spec_enter for the arguments the object was constructed with - for composites the documented argument of every
   part -, Exit pops): at EVERY point of a well-nested history - pre h st: balanced pieces separated by the enters
   of the blocks st that are still open - the store of the model is the store of the reference semantics.  So inside
   a block every slot has the value given by the innermost open context that addresses it (per-dtype contexts:
   only the slots whose argument was given, whenever and wherever the object was constructed, also when it is
   re-entered or re-used), every other slot is as outside, and after an exit everything is as before the enter.
   news_ok: linalg_dtypes is constructed with dtypes or None (args_ok). *)
Notation srun' := (srun cid gs get set kid kind_of spec_new).
Theorem C17_refines_spec : forall h st, pre kid h st -> news_ok kid args_ok h ->
  forall g objs specs s', wfobjs' objs -> good cid penter kind_of specs objs -> run' h (g, objs) = Some s' ->
  exists specs' stk', srun' h (g, specs, []) = Some (fst s', specs', stk') /\ map fst stk' = st /\
    good cid penter kind_of specs' (snd s') /\ wfobjs' (snd s').
Proof.
  exact (refines_spec_generic cid gs get set get_set_eq get_set_neq set_get set_set set_comm penter pexit restore_law
           kid new new_nodup kind_of reenter_law spec_new args_ok new_carries).
Qed.

Corollary C17_refines_spec_initial : forall h st, pre kid h st -> news_ok kid args_ok h -> forall s',
  run' h (gs0, []) = Some s' ->
  exists specs' stk', srun' h (gs0, [], []) = Some (fst s', specs', stk') /\ map fst stk' = st.
Proof. exact refines_spec_initial. Qed.

(* a REFUSED enter (the model's step = None; all-or-nothing is enforced by the translator, which rejects any raise that
   follows an assignment on its path): the block is not run and no exit happens, and the history h1; refused Enter i; h2
   still leaves every slot and every pre-existing object exactly as it was *)
Theorem C17_refused_enter : forall h1 i h2, bal' h1 -> bal' h2 -> forall g objs s1 s2,
  wfobjs' objs -> run' h1 (g, objs) = Some s1 -> step' s1 (Enter kid i) = None -> run' h2 s1 = Some s2 ->
  fst s2 = g /\ exists ext, snd s2 = objs ++ ext.
Proof.
  exact (refused_enter_generic cid gs get set get_set_eq get_set_neq set_get set_set set_comm
           penter pexit restore_law kid new new_nodup).
Qed.

(* entering an object leaves its later enters (re-entry while active, re-use after exit) with the same effect *)
Theorem C17_reenter_same_effect : forall c sv o sv1 o1 sv' sv2 o2,
  penter c sv o = Some (sv1, o1) -> penter c sv' o1 = Some (sv2, o2) -> exists o2', penter c sv' o = Some (sv2, o2').
Proof. exact reenter_law. Qed.

(* non-vacuity of C17_refines_spec: a prefix with two open blocks; the float-only context constructed FIRST and
   entered inside the double-only one leaves the double slot of the enclosing block in force *)
Example C17_refines_nonvacuous :
  let h := [New kid k_cholesky_jitter [VTok 1005; VNone; VNone]; New kid k_cholesky_jitter [VNone; VTok 1007; VNone];
            Enter kid 1; Enter kid 0] in
  pre kid h [0; 1] /\ news_ok kid args_ok h /\
  exists s', run' h (gs0, []) = Some s' /\
             get c_cholesky_jitter (fst s') = SV VNone VNone (VTok 1005) (VTok 1007) VNone.
Proof.
  split; [|split].
  - apply (pre_open kid ([New kid k_cholesky_jitter [VTok 1005; VNone; VNone];
                          New kid k_cholesky_jitter [VNone; VTok 1007; VNone]] ++ [Enter kid 1]) 0 [] [1]).
    + apply (pre_open kid [New kid k_cholesky_jitter [VTok 1005; VNone; VNone];
                           New kid k_cholesky_jitter [VNone; VTok 1007; VNone]] 1 [] []).
      * apply pre_bal. apply (bal_app kid [_] [_]); apply bal_new.
      * apply bal_nil.
    + apply bal_nil.
  - intros k a Hin. simpl in Hin. repeat (destruct Hin as [Hin|Hin]; [inversion Hin; reflexivity|]). destruct Hin.
  - eexists; split; vm_compute; reflexivity.
Qed.

(* non-vacuity: a concrete nested, interleaved history with re-use and a context created before
   another one is entered runs without error on the generated model and is well nested *)
Example C17_nonvacuous :
  let h := [New kid k_cholesky_max_tries [VTok 1005]; New kid k_cholesky_max_tries [VTok 1007];
            Enter kid 1; Enter kid 0; Exit kid 0; Enter kid 1; ExitExc kid 1; Exit kid 1;
            New kid k_fast_computations [VBool false; VBool true; VBool false]; Enter kid 2; Exit kid 2] in
  exists s', run' h (gs0, []) = Some s' /\ fst s' = gs0.
Proof. eexists; split; vm_compute; reflexivity. Qed.
