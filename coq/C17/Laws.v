(* C17 — the hypotheses of the generic theorem, discharged for the code generated from
   linear_operator/settings.py.  These lemmas are the obligations a source change can break. *)
From Coq Require Import List ZArith Bool.
Import ListNotations.
Require Import C17.Generic C17.gen.Settings.

Lemma get_set_eq c v g : get c (set c v g) = v.
Proof. destruct c; reflexivity. Qed.
Lemma get_set_neq c c' v g : c <> c' -> get c' (set c v g) = get c' g.
Proof. destruct c, c'; intros H; try reflexivity; exfalso; apply H; reflexivity. Qed.
Lemma set_get c g : set c (get c g) g = g.
Proof. destruct c, g; reflexivity. Qed.
Lemma set_set c v w g : set c v (set c w g) = set c v g.
Proof. destruct c; reflexivity. Qed.
Lemma set_comm c c' v w g : c <> c' -> set c v (set c' w g) = set c' w (set c v g).
Proof. destruct c, c'; intros H; try reflexivity; exfalso; apply H; reflexivity. Qed.

(* symbolic evaluation of the generated method bodies *)
Ltac crunch1 :=
  match goal with
  | H : None = Some _ |- _ => discriminate H
  | H : Some _ = None |- _ => discriminate H
  | H : Some _ = Some _ |- _ => inversion H; clear H; subst
  | H : context [match ?o with [] => _ | _ :: _ => _ end] |- _ => is_var o; destruct o
  | H : context [vappend ?x _] |- _ => is_var x; destruct x
  | H : context [vpop ?x] |- _ => is_var x; destruct x
  | H : context [is_none ?x] |- _ => is_var x; destruct x
  | H : context [truthy ?x] |- _ => is_var x; destruct x
  | H : context [match ?o with VNone => _ | _ => _ end] |- _ => is_var o; destruct o
  | H : context [if ?b then _ else _] |- _ => is_var b; destruct b
  | H : context [Z.eqb ?z _] |- _ => is_var z; destruct z
  | H : context [Nat.eqb (length ?l) _] |- _ => is_var l; destruct l
  | |- context [match ?o with [] => _ | _ :: _ => _ end] => is_var o; destruct o
  | |- context [is_none ?x] => is_var x; destruct x
  end.
Ltac crunch := repeat (cbn in *; crunch1); cbn in *.

Lemma restore_law : forall c sv o sv1 o1,
  penter c sv o = Some (sv1, o1) -> pexit c sv1 o1 = Some (sv, o).
Proof.
  intros c sv o sv1 o1 H; destruct sv as [a b c0 d e]; destruct c; unfold penter, pexit in *;
  match goal with H : ?f _ _ = Some _ |- ?g _ _ = _ => unfold f in H; unfold g end;
  crunch; reflexivity.
Qed.

(* entering takes effect: the class slots become what the constructor arguments ask for *)
Lemma effect_law : forall c args sv0 o sv sv1 o1,
  pinit c args sv0 = Some o -> penter c sv o = Some (sv1, o1) ->
  spec_enter (kind_of c) args sv = Some sv1.
Proof.
  intros c args sv0 o sv sv1 o1 H1 H2; destruct sv as [a b c0 d e]; destruct sv0 as [a0 b0 c1 d0 e0];
  destruct c; unfold pinit, penter in *;
  match goal with H1 : ?f _ _ = Some _, H2 : ?g _ _ = Some _ |- _ => unfold f in H1; unfold g in H2 end;
  crunch; reflexivity.
Qed.

(* exits never fail after a successful enter and exceptions are never swallowed: part of restore_law
   (pexit returns Some) and of the translator's check on the return value of __exit__ *)

Ltac crunch_new :=
  repeat (cbn in *; match goal with
  | H : None = Some _ |- _ => discriminate H
  | H : Some _ = Some _ |- _ => inversion H; clear H; subst
  | H : context [match ?o with [] => _ | _ :: _ => _ end] |- _ => is_var o; destruct o
  | H : context [match ?x with Some _ => _ | None => _ end] |- _ => destruct x eqn:?
  end).

Lemma new_nodup : forall k a g ps, new k a g = Some ps -> NoDup (map fst ps).
Proof.
  intros k a g ps H; destruct k; unfold new in H; crunch_new; cbn;
  repeat constructor; cbn; intuition discriminate.
Qed.

(* the observers read exactly the slots of their own kind (no dtype slot is reported for another one, off = not on,
   an unset flag reports its default) *)
Definition default_on (c : cid) : val :=
  match observe c (SV VNone VNone VNone VNone VNone) with Some d :: _ => d | _ => VNone end.
Lemma observer_law : forall c sv, observe c sv = spec_observe (kind_of c) (default_on c) sv.
Proof. intros c [a b c0 d e]; destruct c; cbn; try reflexivity; destruct a; reflexivity. Qed.

Lemma orders_ok_true : orders_ok = true.
Proof. vm_compute. reflexivity. Qed.

(* FINITE TABLE regenerated from the source: every non-slot class attribute with a constant initial value (a cache
   such as deterministic_probes.probe_vectors) is reset to None on every path of __enter__ and of __exit__ of the
   classes that carry it. *)
Lemma caches_ok_true : caches_ok = true.
Proof. vm_compute. reflexivity. Qed.

(* The documented meaning of the constructor arguments of the two composite contexts (hand-written
   specification; "x or d" = "d if x is None"). *)
Definition spec_composite_args (k : kid) (args : list val) : option (list (cid * list val)) :=
  match k, args with
  | k_fast_computations, [a; b; c] =>
      Some [(c__fast_covar_root_decomposition, [a]); (c__fast_log_prob, [b]); (c__fast_solves, [c])]
  | k_linalg_dtypes, [d; s; c] =>
      Some [(c__linalg_dtype_symeig, [if is_none s then d else s]);
            (c__linalg_dtype_cholesky, [if is_none c then d else c])]
  | _, _ => None
  end.

(* entering an object does not change what a later enter of the same object does to the slots (re-entry, re-use) *)
Lemma reenter_law : forall c sv o sv1 o1 sv' sv2 o2,
  penter c sv o = Some (sv1, o1) -> penter c sv' o1 = Some (sv2, o2) -> exists o2', penter c sv' o = Some (sv2, o2').
Proof.
  intros c sv o sv1 o1 sv' sv2 o2 H1 H2; destruct sv as [a b c0 d e]; destruct sv' as [a' b' c0' d' e'];
  destruct c; unfold penter in *;
  match goal with H1 : ?f _ _ = Some _ |- _ => unfold f in * end;
  crunch; eexists; reflexivity.
Qed.

(* the arguments of linalg_dtypes are torch dtypes or None; a dtype is never falsy (token 0 is numeric zero) *)
Definition dtype_like (v : val) : bool :=
  match v with VNone => true | VTok z => negb (Z.eqb z 0) | _ => false end.
Definition args_ok (k : kid) (args : list val) : bool :=
  match k with k_linalg_dtypes => forallb dtype_like args | _ => true end.

Lemma composite_args_law : forall k args g ps parts,
  args_ok k args = true ->
  spec_composite_args k args = Some parts -> new k args g = Some ps ->
  map fst ps = map fst parts /\
  Forall2 (fun p q => pinit (fst q) (snd q) (get (fst q) g) = Some (snd p)) ps parts.
Proof.
  intros k args g ps parts Hok Hs Hn.
  destruct k; cbn in Hs; try discriminate Hs;
  repeat (destruct args as [|? args]; try discriminate Hs);
  inversion Hs; subst; clear Hs; cbn in Hok;
  repeat match type of Hok with
         | context [dtype_like ?v] => is_var v; destruct v as [| |[| |]|]; cbn in Hok; try discriminate Hok
         end;
  cbn in Hn;
  repeat match type of Hn with
         | match ?x with Some _ => _ | None => _ end = _ => destruct x eqn:?; try discriminate Hn
         end;
  inversion Hn; subst; clear Hn; cbn; (split; [reflexivity|]);
  repeat constructor; cbn; assumption.
Qed.

(* the specification of a freshly constructed context object: a primitive context puts its own arguments in
   force; a composite the documented argument of each part *)
Definition spec_new (k : kid) (a : list val) : option (list (cid * list val)) :=
  match prim_of k with Some c => Some [(c, a)] | None => spec_composite_args k a end.

Lemma inits_carry g : forall ps parts, map fst ps = map fst parts ->
  Forall2 (fun p q => pinit (fst q) (snd q) (get (fst q) g) = Some (snd p)) ps parts ->
  carries_ps cid penter kind_of parts ps.
Proof.
  induction ps as [|[c o] ps IH]; intros [|[c' a'] parts] Hm HF; simpl in Hm; try discriminate Hm;
  inversion HF; subst; [constructor|].
  inversion Hm; subst. constructor; [split; [reflexivity|]|apply IH; assumption].
  intros sv sv1 o1 He. simpl in *. eapply effect_law; eauto.
Qed.

Lemma new_carries : forall k a g ps, args_ok k a = true -> new k a g = Some ps ->
  exists sp, spec_new k a = Some sp /\ carries_ps cid penter kind_of sp ps.
Proof.
  intros k a g ps Hok Hn.
  destruct (prim_of k) as [c|] eqn:Ep.
  - exists [(c, a)]. split; [unfold spec_new; rewrite Ep; reflexivity|].
    destruct k; cbn in Ep; try discriminate Ep; inversion Ep; subst c; cbn in Hn;
    match type of Hn with match ?x with Some _ => _ | None => _ end = _ => destruct x eqn:Ei; [|discriminate Hn] end;
    inversion Hn; subst; (apply Forall2_cons; [|apply Forall2_nil]); (split; [reflexivity|]);
    intros sv sv1 o1 He; (eapply effect_law; [exact Ei|exact He]).
  - destruct (spec_composite_args k a) as [parts|] eqn:Es.
    + exists parts. split; [unfold spec_new; rewrite Ep; exact Es|].
      destruct (composite_args_law k a g ps parts Hok Es Hn) as [Hm HF].
      eapply inits_carry; eauto.
    + exfalso. destruct k; cbn in Ep; try discriminate Ep;
      (destruct a as [|x0 [|x1 [|x2 [|x3 a]]]]; cbn in Hn, Es; try discriminate Hn; try discriminate Es).
Qed.

(* the refinement theorem instantiated for the generated model, from the initial store *)
Lemma refines_spec_initial : forall h st,
  pre kid h st -> news_ok kid args_ok h -> forall s',
  run cid gs get set penter pexit kid new h (gs0, []) = Some s' ->
  exists specs' stk', srun cid gs get set kid kind_of spec_new h (gs0, [], []) = Some (fst s', specs', stk') /\
                      map fst stk' = st.
Proof.
  intros h st Hp Hok s' Hr.
  destruct (refines_spec_generic cid gs get set get_set_eq get_set_neq set_get set_set set_comm penter pexit restore_law
              kid new new_nodup kind_of reenter_law spec_new args_ok new_carries h st Hp Hok gs0 [] [] s'
              (Forall_nil _) (Forall2_nil _) Hr) as [specs' [stk' [H1 [H2 _]]]].
  exists specs', stk'. split; assumption.
Qed.
