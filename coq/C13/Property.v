(* C13 — No operation mutates caller-owned tensors or an existing operator's matrix.
   Only theorem statements live here; each is closed by `exact`/`apply` of a lemma proved in Own.v /
   Proofs.v / Check.v, or by the tables of gen/OwnIR.v, which harness/own_ir.py REGENERATES from the
   linear_operator sources on every run (one ownership-IR program per library function that contains an
   in-place site: trailing-underscore method, out=, subscript / augmented assignment, in-place helper call,
   metadata-in-place method, attribute rebinding on an existing operator).

   Reading guide.  An IR program is a SET of SSA statements; an execution (`exec`) is ANY finite sequence
   of them, each `AliasOf ys b` choosing which operand's storage it returns (or a new one if b): this
   over-approximates every control flow, loop count and early exit of the Python function.  Storage
   identifiers below `ncaller` are the caller's (arguments, self attributes, captured variables, module
   globals); the list `ws` of an execution collects every storage written in place. *)
From Coq Require Import List Arith Bool String.
Import ListNotations.
Require Import C13.Own C13.Proofs C13.Check C13.Slots C13.gen.OwnIR.

(* 1. Soundness of the checker, for every program, every candidate set, every number of caller storages,
      every start state satisfying the invariant and every execution (unbounded length, any order). *)
Theorem C13_checker_sound : forall ncaller mc prog st ws st',
  own_check mc prog = true -> inv ncaller mc st -> exec ncaller prog st ws st' ->
  forall s, In s ws -> ~ caller ncaller s.
Proof. exact own_check_sound. Qed.

(* 2. Every translated library function (storage programs and object-identity programs alike): no execution
      from the initial state (nothing bound yet, the caller's storages allocated) writes a caller storage.
      `all_progs` is the generated table; a source change that lets an in-place target reach caller memory
      makes the site FAILING (it then appears in `refuted_sites`, theorem 3, and the check reports it). *)
Theorem C13_library_functions_owned : forall p, In p all_progs ->
  forall ncaller ws st', exec ncaller (fst p) (init ncaller) ws st' ->
  forall s, In s ws -> ~ caller ncaller s.
Proof.
  intros p Hp ncaller ws st' He.
  pose proof all_owned as H. rewrite forallb_forall in H. specialize (H p Hp).
  exact (own_check_sound_init ncaller (snd p) (fst p) ws st' H He).
Qed.

(* 2a. The same statement restricted to the METHODS OF THE OPERATOR CLASSES (linear_operator/operators/*.py).
      `operator_method_progs` is the regenerated IR of every method of an operator class that contains an in-place
      construct (trailing-underscore / dunder in-place method, augmented assignment `x += y` on a name that is not a
      python container or an int counter = `InPlace x`, subscript assignment, out=, inplace=, metadata-in-place method,
      attribute rebinding on an existing operator -- on `self` outside constructors or on any other object);
      `operator_method_names` lists them (module :: Class.method (program kind)).  In these programs every value
      obtained from `self.<attr>`, from a call on `self` or on a sub-operator (`self._linear_op.svd()`: the result of a
      @cached method is SHARED state held in the callee's memoize cache), from a parameter, a captured variable or module
      state is caller-owned (`SelfAttr` / `Param` / `AliasOf` of such); only results of torch allocations are `Fresh`.
      The theorem quantifies over ALL executions (any statement order, any number of repetitions, any aliasing choice)
      of the regenerated IR of EVERY listed method and over every number of caller storages.  harness/c13_scan.py
      cross-checks on every run, with an independent syntactic scan of the sources, that no in-place construct of the
      package is missing from these tables (each is an IR site or is listed with the reason why it writes no tensor). *)
Theorem C13_operator_methods_owned : forall p, In p operator_method_progs ->
  forall ncaller ws st', exec ncaller (fst p) (init ncaller) ws st' ->
  forall s, In s ws -> ~ caller ncaller s.
Proof.
  intros p Hp. apply C13_library_functions_owned. unfold all_progs. apply in_or_app. left. exact Hp.
Qed.

(* 2b. Allow-listed sites (harness/c13_allow.json) are not simply dropped: for every function with allow-listed
      sites, `allowed_progs` holds the FULL program INCLUDING those sites, in which only the assumption the entry
      states is applied -- "receiver-slot": the `SelfAttr` root of the site's own target is removed (what is rebound is
      an attribute slot of the receiver object itself, no other object and no tensor storage); "fresh_names": the named
      local is declared not to be a tensor (its definitions become Fresh).  Under that assumption no execution writes
      caller memory.  An entry whose assumption does not make its site pass is ignored by the translator (the site is
      then FAILING and reported). *)
Theorem C13_allowlisted_sites_conditional : forall p, In p allowed_progs ->
  forall ncaller ws st', exec ncaller (fst p) (init ncaller) ws st' ->
  forall s, In s ws -> ~ caller ncaller s.
Proof.
  intros p Hp ncaller ws st' He.
  pose proof all_allowed_ok as H. rewrite forallb_forall in H. specialize (H p Hp).
  exact (own_check_sound_init ncaller (snd p) (fst p) ws st' H He).
Qed.

(* 2c. The cache-fill rule.  `self.<a> = v` outside a constructor changes the existing operator object (an in-place site of the
      object-identity program).  The translator permits it without an allow-list entry only if a is private and is not among the
      attributes that the methods observing the matrix or the representation of the operator (_matmul, _t_matmul, _size, to_dense,
      _diagonal, representation, __getitem__, _expand_batch, ... and everything they reach through self.m(..) / super().m(..) in any
      class related by inheritance) may read -- an operator filling its own lazily computed cache does not change the matrix it
      represents.  `cache_fill_sites` is the regenerated side table (attribute, readers of the class family); the conditional
      programs of these sites are part of `allowed_progs` (theorem 2b, assumption "receiver-slot").  Attributes that ARE read by
      such methods (interpolation memos, _args_memo, _dtype) are not covered by the rule and need an explicit allow-list entry. *)
Theorem C13_cache_fills_unread_by_matrix_observers : forall e, In e cache_fill_sites -> ~ In (fst e) (snd e).
Proof.
  intros e He. pose proof all_cache_fills_unread as H. rewrite forallb_forall in H. exact (slot_unread_sound _ _ (H e He)).
Qed.

(* 3. The sites the translator had to leave out of `all_progs` because their target may hold caller memory
      (on the pinned tree: the resize_().zero_() sites of utils/sparse.py, recorded as known findings) are not
      dropped silently: for each, the full program HAS an execution writing a caller storage, hence no
      candidate set could ever pass the checker.  (Empty table on a tree where the defects are repaired.) *)
Theorem C13_excluded_sites_refuted : forall p, In p refuted_sites ->
  (forall ncaller, 0 < ncaller ->
     exists ws st' s, exec ncaller (fst p) (init ncaller) ws st' /\ In s ws /\ caller ncaller s)
  /\ forall mc, own_check mc (fst p) = false.
Proof.
  intros p Hp. pose proof all_refuted as H. rewrite forallb_forall in H. specialize (H p Hp). split.
  - intros ncaller Hn. exact (refute_sound ncaller (fst p) (snd p) Hn H).
  - exact (refuted_never_passes (fst p) (snd p) H).
Qed.

(* 4. Inter-procedural summaries: every module-level library function that the translator treats at its call
      sites as "returns memory of none of its arguments" really binds its returned variables to non-caller
      storage in every execution of its own IR. *)
Theorem C13_return_summaries_sound : forall q, In q summaries ->
  forall ncaller ws st', exec ncaller (snd (fst q)) (init ncaller) ws st' ->
  forall x s, In x (snd q) -> env st' x = Some s -> ~ caller ncaller s.
Proof.
  intros q Hq ncaller ws st' He.
  pose proof all_summaries_ok as H. rewrite forallb_forall in H. specialize (H q Hq).
  exact (ret_fresh_sound ncaller (fst (fst q)) (snd (fst q)) (snd q) ws st' H He).
Qed.

(* 5. The checker is exact for the any-order semantics: a program has an execution writing caller storage
      iff some in-place target is reachable from a Param / SelfAttr through the alias edges. *)
Theorem C13_checker_exact : forall ncaller prog, 0 < ncaller ->
  ((exists x, In (InPlace x) prog /\ reach prog x) <->
   (exists ws st' s, exec ncaller prog (init ncaller) ws st' /\ In s ws /\ caller ncaller s)).
Proof. exact unsafe_iff_reachable_target. Qed.

(* 6. ... and complete: a closed candidate set made of reachable variables passes whenever no target is reachable. *)
Theorem C13_checker_complete : forall mc prog,
  closed_lets mc prog = true -> (forall x, mc x = true -> reach prog x) ->
  (forall x, In (InPlace x) prog -> ~ reach prog x) -> own_check mc prog = true.
Proof. exact own_check_complete. Qed.

(* 7. Meaning of the classification table harness/torch_ops.json that the translator trusts and that the
      correspondence shards validate against the running torch: an observation permitted by a class is a step
      of the IR statement emitted for that class; the receiver's values change only where an InPlace is
      emitted; its version counter (shared with all views of the storage) is bumped only where an InPlace is
      emitted (metadata-in-place methods included) or by detach_/requires_grad_; no other operand is ever written. *)
Theorem C13_table_class_semantics : forall ncaller c o st x recv other sr so,
  permits c o = true -> env st recv = Some sr -> env st other = Some so ->
  (c = KView \/ c = KInPlace \/ c = KMetaInPlace \/ c = KValuePres -> ov_recv o = true) ->
  (exists st', step ncaller st (Let x (rhs_of c recv other)) None st' /\
     match outcome_of o with
     | ORecv => env st' x = Some sr
     | OOther => env st' x = Some so
     | ONew => env st' x = Some (next st)
     end)
  /\ (val_recv o = true -> emits_inplace c = true)
  /\ (bump_recv o = true -> emits_inplace c = true \/ c = KValuePres)
  /\ val_other o = false /\ bump_other o = false.
Proof.
  intros. split; [eapply permits_step; eauto | split; [now apply permits_write | split; [now apply permits_version | now apply (permits_other_quiet c)]]].
Qed.

(* ---- non-vacuity ------------------------------------------------------------------------------- *)

(* the hypotheses of theorem 1 are satisfiable and executions exist: a defensive clone followed by an in-place
   update (the pattern `d = self.diag.clone(); d.scatter_(...)`) passes and has a writing execution *)
Example C13_nonvacuous_safe :
  let prog := [Let 0 SelfAttr; Let 1 (AliasOf [0] false); Let 2 Fresh; InPlace 2] in
  own_check (mem [0; 1]) prog = true /\
  exists ws st', exec 3 prog (init 3) ws st' /\ ws = [3].
Proof.
  split; [vm_compute; reflexivity|].
  eexists. eexists. split.
  - eapply (e_cons 3 _ _ _ _ (Let 2 Fresh) None); [simpl; auto 6 | apply s_fresh |].
    eapply (e_cons 3 _ _ _ _ (InPlace 2) (Some 3)); [simpl; auto 6 | apply s_inplace; reflexivity | apply e_nil].
  - reflexivity.
Qed.

(* deleting the clone (the regression the property names) is caught: refutation witness *)
Example C13_nonvacuous_unsafe :
  let prog := [Let 0 SelfAttr; Let 1 (AliasOf [0] false); InPlace 1] in
  refute_check prog [1; 0] = true /\ forall mc, own_check mc prog = false.
Proof. split; [vm_compute; reflexivity | apply (refuted_never_passes _ [1; 0]); vm_compute; reflexivity]. Qed.

(* the generated tables are not empty *)
Example C13_tables_nonempty : 40 <= List.length all_progs /\ 10 <= List.length summaries /\ 500 <= n_functions_scanned.
Proof. vm_compute. repeat split; repeat constructor. Qed.

(* the operator-method table is not empty, every program in it is named, and it is part of `all_progs` *)
Example C13_operator_table_nonempty :
  20 <= List.length operator_method_progs /\ List.length operator_method_names = List.length operator_method_progs /\
  List.length all_progs = List.length operator_method_progs + List.length other_progs.
Proof. split; [vm_compute; repeat constructor | split; [vm_compute; reflexivity | unfold all_progs; apply app_length]]. Qed.
