(* C13 — further results about the ownership IR of Own.v (hand-written, independent of /repo):

   1. executions compose (exec_app / exec_snoc);
   2. REFUTATION: a witness path  source -> ... -> x  through the Let statements plus an `InPlace x`
      yields a concrete execution (of the any-order semantics) that writes a caller storage, and no
      candidate set can make own_check pass.  The translator emits such a witness for every in-place
      site it has to exclude (known defects of the pinned tree); so an excluded site is never a
      silently dropped obligation: it is a proved violation of the IR semantics;
   3. RETURN SUMMARIES: if the Lets of a function are closed under mc and the returned variables are
      outside mc, no execution ever binds a returned variable to a caller storage (the inter-procedural
      "returns fresh memory" facts the translator uses at call sites are checked with this);
   4. checker exactness: own_check passes for SOME candidate set iff it passes for the set of
      variables reachable from a Param/SelfAttr (reach), i.e. the checker loses nothing w.r.t. the
      any-order semantics. *)
From Coq Require Import List Arith Bool Lia.
Import ListNotations.
Require Import C13.Own.

(* ------------------------------------------------------------------------------------------ *)
(* 1. composition of executions *)

Lemma exec_app ncaller prog st ws1 st1 ws2 st2 :
  exec ncaller prog st ws1 st1 -> exec ncaller prog st1 ws2 st2 -> exec ncaller prog st (ws1 ++ ws2) st2.
Proof.
  intros H1 H2. induction H1; simpl; [exact H2|].
  specialize (IHexec H2).
  pose proof (e_cons ncaller prog st st1 st2 i w (ws ++ ws2) H H0 IHexec) as E.
  destruct w; simpl in *; exact E.
Qed.

Lemma exec_one ncaller prog st i w st1 :
  In i prog -> step ncaller st i w st1 ->
  exec ncaller prog st (match w with Some s => [s] | None => [] end) st1.
Proof.
  intros Hi Hs. exact (e_cons ncaller prog st st1 st1 i w [] Hi Hs (e_nil ncaller prog st1)).
Qed.

Lemma exec_snoc ncaller prog st ws st1 i w st2 :
  exec ncaller prog st ws st1 -> In i prog -> step ncaller st1 i w st2 ->
  exec ncaller prog st (ws ++ match w with Some s => [s] | None => [] end) st2.
Proof. intros H Hi Hs. eapply exec_app; [exact H | exact (exec_one ncaller prog st1 i w st2 Hi Hs)]. Qed.

(* ------------------------------------------------------------------------------------------ *)
(* 2. refutation witnesses *)

Definition is_src (prog : list stmt) (x : var) : bool :=
  existsb (fun i => match i with
                    | Let y Param | Let y SelfAttr => Nat.eqb y x
                    | _ => false end) prog.

Definition has_edge (prog : list stmt) (y x : var) : bool :=
  existsb (fun i => match i with
                    | Let z (AliasOf ys _) => Nat.eqb z x && existsb (Nat.eqb y) ys
                    | _ => false end) prog.

(* a path is listed from the TARGET back to the SOURCE: [x; y1; ...; src] *)
Fixpoint path_ok (prog : list stmt) (p : list var) : bool :=
  match p with
  | [] => false
  | x :: r => match r with
              | [] => is_src prog x
              | y :: _ => has_edge prog y x && path_ok prog r
              end
  end.

Definition has_inplace (prog : list stmt) (x : var) : bool :=
  existsb (fun i => match i with InPlace y => Nat.eqb y x | _ => false end) prog.

Definition refute_check (prog : list stmt) (p : list var) : bool :=
  match p with
  | [] => false
  | x :: _ => path_ok prog p && has_inplace prog x
  end.

Definition init (ncaller : nat) : state := {| env := fun _ => None; next := ncaller |}.

Lemma is_src_step ncaller prog x st : 0 < ncaller -> is_src prog x = true ->
  exists i, In i prog /\ step ncaller st i None {| env := upd (env st) x (Some 0); next := next st |}.
Proof.
  intros Hn H. unfold is_src in H. apply existsb_exists in H. destruct H as [i [Hi Hm]].
  destruct i as [y e|y]; [|discriminate]. destruct e; try discriminate; apply Nat.eqb_eq in Hm; subst y.
  - exists (Let x Param). split; [exact Hi | constructor; exact Hn].
  - exists (Let x SelfAttr). split; [exact Hi | constructor; exact Hn].
Qed.

Lemma upd_same f x v : upd f x v x = v.
Proof. unfold upd. now rewrite Nat.eqb_refl. Qed.

(* every variable on a witness path can be bound to the caller storage 0 by a write-free execution *)
Lemma path_exec ncaller prog p : 0 < ncaller -> forall x r, p = x :: r -> path_ok prog p = true ->
  exists st', exec ncaller prog (init ncaller) [] st' /\ env st' x = Some 0.
Proof.
  intros Hn. induction p as [|a p IH]; intros x r E H; [discriminate|].
  injection E as -> ->. simpl in H. destruct r as [|y r'].
  - destruct (is_src_step ncaller prog x (init ncaller) Hn H) as [i [Hi Hs]].
    eexists; split; [exact (exec_one ncaller prog _ i None _ Hi Hs) | simpl; apply upd_same].
  - apply andb_true_iff in H. destruct H as [He Hp].
    destruct (IH y r' eq_refl Hp) as [st1 [Hex Hy]].
    unfold has_edge in He. apply existsb_exists in He. destruct He as [i [Hi Hm]].
    destruct i as [z e|z]; [|discriminate]. destruct e as [| | |ys mf]; try discriminate.
    apply andb_true_iff in Hm. destruct Hm as [Hz Hys]. apply Nat.eqb_eq in Hz. subst z.
    apply existsb_exists in Hys. destruct Hys as [y' [Hin Hy']]. apply Nat.eqb_eq in Hy'. subst y'.
    exists {| env := upd (env st1) x (Some 0); next := next st1 |}. split.
    + pose proof (exec_snoc ncaller prog _ _ _ (Let x (AliasOf ys mf)) None _ Hex Hi
                    (s_alias ncaller st1 x ys mf y 0 Hin Hy)) as E. rewrite app_nil_r in E. exact E.
    + simpl. apply upd_same.
Qed.

Theorem refute_sound ncaller prog p : 0 < ncaller -> refute_check prog p = true ->
  exists ws st' s, exec ncaller prog (init ncaller) ws st' /\ In s ws /\ caller ncaller s.
Proof.
  intros Hn H. destruct p as [|x r]; [discriminate|]. unfold refute_check in H.
  apply andb_true_iff in H. destruct H as [Hp Hi].
  destruct (path_exec ncaller prog (x :: r) Hn x r eq_refl Hp) as [st1 [Hex Hx]].
  unfold has_inplace in Hi. apply existsb_exists in Hi. destruct Hi as [i [Hin Hm]].
  destruct i as [|y]; [discriminate|]. apply Nat.eqb_eq in Hm. subst y.
  exists [0], st1, 0. split; [|split; [now left | exact Hn]].
  exact (exec_snoc ncaller prog _ _ _ (InPlace x) (Some 0) _ Hex Hin (s_inplace ncaller st1 x 0 Hx)).
Qed.

(* consequently no candidate set whatsoever lets the checker accept a refuted program *)
Corollary refuted_never_passes prog p : refute_check prog p = true -> forall mc, own_check mc prog = false.
Proof.
  intros H mc. destruct (own_check mc prog) eqn:E; [|reflexivity]. exfalso.
  destruct (refute_sound 1 prog p (Nat.lt_0_succ 0) H) as [ws [st' [s [Hex [Hin Hc]]]]].
  exact (own_check_sound 1 mc prog _ ws st' E (inv_init 1 mc) Hex s Hin Hc).
Qed.

(* ------------------------------------------------------------------------------------------ *)
(* 3. return summaries *)

Definition closed_lets (mc : var -> bool) (prog : list stmt) : bool :=
  forallb (fun i => match i with InPlace _ => true | _ => closed_stmt mc i end) prog.

Lemma step_inv_lets ncaller mc prog st i w st1 :
  closed_lets mc prog = true -> In i prog -> inv ncaller mc st -> step ncaller st i w st1 ->
  inv ncaller mc st1.
Proof.
  intros Hc Hi [Hn Hinv] Hs.
  unfold closed_lets in Hc. rewrite forallb_forall in Hc. specialize (Hc i Hi).
  inversion Hs; subst; simpl in *.
  - split; simpl; [lia|].
    intros y s. unfold upd. destruct (Nat.eqb y x) eqn:E; [apply Nat.eqb_eq in E; subst; auto | eauto].
  - split; simpl; [lia|].
    intros y s. unfold upd. destruct (Nat.eqb y x) eqn:E; [apply Nat.eqb_eq in E; subst; auto | eauto].
  - split; simpl; [lia|].
    intros y s. unfold upd. destruct (Nat.eqb y x) eqn:E; [| eauto].
    intros [= <-] Hcal. unfold caller in Hcal. lia.
  - split; simpl; [lia|].
    intros z s'. unfold upd. destruct (Nat.eqb z x) eqn:E; [| eauto].
    apply Nat.eqb_eq in E; subst. intros [= <-] Hcal.
    rewrite forallb_forall in Hc. specialize (Hc y H). specialize (Hinv y s H0 Hcal).
    rewrite Hinv in Hc. simpl in Hc. exact Hc.
  - split; simpl; [lia|].
    intros y s. unfold upd. destruct (Nat.eqb y x) eqn:E; [| eauto].
    intros [= <-] Hcal. unfold caller in Hcal. lia.
  - split; auto.
Qed.

Lemma exec_inv_lets ncaller mc prog st ws st' :
  closed_lets mc prog = true -> inv ncaller mc st -> exec ncaller prog st ws st' -> inv ncaller mc st'.
Proof.
  intros Hc Hinv He. induction He; [exact Hinv|].
  apply IHHe. eapply step_inv_lets; eauto.
Qed.

Definition ret_check (mcl : list nat) (prog : list stmt) (rets : list var) : bool :=
  closed_lets (mem mcl) prog && forallb (fun x => negb (mem mcl x)) rets.

Theorem ret_fresh_sound ncaller mcl prog rets ws st' :
  ret_check mcl prog rets = true -> exec ncaller prog (init ncaller) ws st' ->
  forall x s, In x rets -> env st' x = Some s -> ~ caller ncaller s.
Proof.
  intros H He x s Hx Hs Hc. unfold ret_check in H. apply andb_true_iff in H. destruct H as [Hcl Hr].
  pose proof (exec_inv_lets ncaller (mem mcl) prog _ ws st' Hcl (inv_init ncaller (mem mcl)) He) as [_ Hinv].
  rewrite forallb_forall in Hr. specialize (Hr x Hx). rewrite (Hinv x s Hs Hc) in Hr. discriminate.
Qed.

(* ------------------------------------------------------------------------------------------ *)
(* 4. exactness of the checker w.r.t. the any-order semantics *)

Inductive reach (prog : list stmt) : var -> Prop :=
| r_param x : In (Let x Param) prog -> reach prog x
| r_self x : In (Let x SelfAttr) prog -> reach prog x
| r_alias x ys mf y : In (Let x (AliasOf ys mf)) prog -> In y ys -> reach prog y -> reach prog x.

(* any closed candidate set contains every reachable variable *)
Lemma closed_contains_reach mc prog x : closed_lets mc prog = true -> reach prog x -> mc x = true.
Proof.
  intros Hc Hr. unfold closed_lets in Hc. rewrite forallb_forall in Hc.
  induction Hr as [x H|x H|x ys mf y H Hy Hr IH].
  - exact (Hc _ H).
  - exact (Hc _ H).
  - specialize (Hc _ H). simpl in Hc. rewrite forallb_forall in Hc. specialize (Hc y Hy).
    rewrite IH in Hc. exact Hc.
Qed.

Lemma own_check_closed_lets mc prog : own_check mc prog = true -> closed_lets mc prog = true.
Proof.
  unfold own_check, closed_lets. rewrite !forallb_forall. intros H i Hi. specialize (H i Hi).
  destruct i; [exact H | reflexivity].
Qed.

(* a reachable variable can be bound to a caller storage by a write-free execution *)
Lemma reach_exec ncaller prog x : 0 < ncaller -> reach prog x ->
  exists st', exec ncaller prog (init ncaller) [] st' /\ env st' x = Some 0.
Proof.
  intros Hn Hr. induction Hr as [x H|x H|x ys mf y H Hy Hr [st1 [Hex Hy0]]].
  - eexists; split; [exact (exec_one ncaller prog _ _ None _ H (s_param ncaller (init ncaller) x 0 Hn)) | simpl; apply upd_same].
  - eexists; split; [exact (exec_one ncaller prog _ _ None _ H (s_self ncaller (init ncaller) x 0 Hn)) | simpl; apply upd_same].
  - exists {| env := upd (env st1) x (Some 0); next := next st1 |}. split; [|simpl; apply upd_same].
    pose proof (exec_snoc ncaller prog _ _ _ _ None _ Hex H (s_alias ncaller st1 x ys mf y 0 Hy Hy0)) as E.
    rewrite app_nil_r in E. exact E.
Qed.

(* SEMANTIC COMPLETENESS: if some in-place target is reachable from a caller-owned source, there is an
   execution writing a caller storage; and conversely (soundness) if no execution does, ... .  Together:
   the program is safe in the any-order semantics  iff  no InPlace target is reachable. *)
Theorem unsafe_iff_reachable_target ncaller prog : 0 < ncaller ->
  ((exists x, In (InPlace x) prog /\ reach prog x) <->
   (exists ws st' s, exec ncaller prog (init ncaller) ws st' /\ In s ws /\ caller ncaller s)).
Proof.
  intros Hn. split.
  - intros [x [Hi Hr]]. destruct (reach_exec ncaller prog x Hn Hr) as [st1 [Hex Hx]].
    exists [0], st1, 0. split; [|split; [now left | exact Hn]].
    exact (exec_snoc ncaller prog _ _ _ (InPlace x) (Some 0) _ Hex Hi (s_inplace ncaller st1 x 0 Hx)).
  - (* invariant: every variable bound to a caller storage is reachable *)
    intros [ws [st' [s [Hex [Hin Hc]]]]].
    assert (G : forall st ws st', exec ncaller prog st ws st' ->
              (forall x c, env st x = Some c -> caller ncaller c -> reach prog x) -> ncaller <= next st ->
              forall s, In s ws -> caller ncaller s -> exists x, In (InPlace x) prog /\ reach prog x).
    { clear. intros st ws st' He. induction He as [st|st st1 st2 i w ws Hi Hs He IH]; intros Hinv Hnx s Hin Hc; [inversion Hin|].
      assert (Hinv1 : (forall x c, env st1 x = Some c -> caller ncaller c -> reach prog x) /\ ncaller <= next st1).
      { inversion Hs; subst; simpl.
        - split; [|lia]. intros z c'. unfold upd. destruct (Nat.eqb z x) eqn:E; [apply Nat.eqb_eq in E; subst z | now apply Hinv].
          intros _ _. now apply r_param.
        - split; [|lia]. intros z c'. unfold upd. destruct (Nat.eqb z x) eqn:E; [apply Nat.eqb_eq in E; subst z | now apply Hinv].
          intros _ _. now apply r_self.
        - split; [|lia]. intros z c'. unfold upd. destruct (Nat.eqb z x) eqn:E; [apply Nat.eqb_eq in E; subst z | now apply Hinv].
          intros [= <-] Hc'. unfold caller in Hc'. lia.
        - split; [|lia]. intros z c'. unfold upd. destruct (Nat.eqb z x) eqn:E; [apply Nat.eqb_eq in E; subst z | now apply Hinv].
          intros [= <-] Hc'. eapply r_alias; [exact Hi | exact H | exact (Hinv y s0 H0 Hc')].
        - split; [|lia]. intros z c'. unfold upd. destruct (Nat.eqb z x) eqn:E; [apply Nat.eqb_eq in E; subst z | now apply Hinv].
          intros [= <-] Hc'. unfold caller in Hc'. lia.
        - split; [exact Hinv | exact Hnx]. }
      destruct Hinv1 as [Hinv1 Hnx1].
      destruct w as [s0|]; [|now apply (IH Hinv1 Hnx1 s)].
      destruct Hin as [<-|Hin]; [|now apply (IH Hinv1 Hnx1 s)].
      inversion Hs; subst. exists x. split; [exact Hi | eapply Hinv; eauto]. }
    refine (G _ _ _ Hex _ _ s Hin Hc); simpl; [intros; discriminate | lia].
Qed.

(* CHECKER COMPLETENESS: if no in-place target is reachable, the candidate set "reachable" passes;
   stated for a decidable over-approximation given as a list that contains exactly the reachable
   variables of interest: any closed set whose members are all reachable. *)
Theorem own_check_complete mc prog :
  closed_lets mc prog = true -> (forall x, mc x = true -> reach prog x) ->
  (forall x, In (InPlace x) prog -> ~ reach prog x) -> own_check mc prog = true.
Proof.
  intros Hc Hmin Hsafe. unfold own_check. rewrite forallb_forall. intros i Hi.
  unfold closed_lets in Hc. rewrite forallb_forall in Hc. specialize (Hc i Hi).
  destruct i as [x e|x]; [exact Hc|]. simpl.
  destruct (mc x) eqn:E; [|reflexivity]. exfalso. exact (Hsafe x Hi (Hmin x E)).
Qed.

(* if own_check fails on a closed candidate, some target is in the candidate *)
Lemma own_check_fail_target mc prog :
  closed_lets mc prog = true -> own_check mc prog = false -> exists x, In (InPlace x) prog /\ mc x = true.
Proof.
  intros Hc Hf. unfold own_check in Hf.
  assert (exists i, In i prog /\ closed_stmt mc i = false) as [i [Hi Hb]].
  { clear Hc. induction prog as [|a l IH]; [discriminate|]. simpl in Hf. apply andb_false_iff in Hf.
    destruct Hf as [H|H]; [exists a; split; [now left | exact H] |].
    destruct (IH H) as [i [Hi Hb]]. exists i; split; [now right | exact Hb]. }
  unfold closed_lets in Hc. rewrite forallb_forall in Hc. specialize (Hc i Hi).
  destruct i as [x e|x]; [congruence|]. simpl in Hb. exists x. split; [exact Hi|].
  destruct (mc x); [reflexivity | discriminate].
Qed.
