(* C13 — ownership IR, any-order semantics, checker and its soundness (hand-written, independent of /repo).
   The IR of every library function is regenerated from the source by harness/own_ir.py into gen/OwnIR.v. *)
From Coq Require Import List Arith Bool Lia.
Import ListNotations.
(* SSA IR, control flow abstracted away: an execution is ANY finite sequence of the
   function's statements (over-approximates every real control flow). *)
Definition var := nat.
Inductive rhs := Param | SelfAttr | Fresh | AliasOf (ys : list var) (may_fresh : bool).
   (* View/Alias y        = AliasOf [y] false
      MaybeView y         = AliasOf [y] true
      Phi ys              = AliasOf ys false
      Closure/Unknown ys  = AliasOf ys true *)
Inductive stmt := Let (x : var) (e : rhs) | InPlace (x : var).

Definition sid := nat.
Record state := { env : var -> option sid; next : sid }.
Definition upd (f : var -> option sid) x v := fun y => if Nat.eqb y x then v else f y.

Section Sem.
Variable ncaller : nat.                    (* caller-owned storages are 0 .. ncaller-1 *)
Definition caller (s : sid) := s < ncaller.

(* one nondeterministic step; the label is the storage written, if any *)
Inductive step : state -> stmt -> option sid -> state -> Prop :=
| s_param st x c : caller c -> step st (Let x Param) None {| env := upd (env st) x (Some c); next := next st |}
| s_self  st x c : caller c -> step st (Let x SelfAttr) None {| env := upd (env st) x (Some c); next := next st |}
| s_fresh st x : step st (Let x Fresh) None {| env := upd (env st) x (Some (next st)); next := S (next st) |}
| s_alias st x ys mf y s : In y ys -> env st y = Some s ->
     step st (Let x (AliasOf ys mf)) None {| env := upd (env st) x (Some s); next := next st |}
| s_alias_fresh st x ys : step st (Let x (AliasOf ys true)) None {| env := upd (env st) x (Some (next st)); next := S (next st) |}
| s_inplace st x s : env st x = Some s -> step st (InPlace x) (Some s) st.

Inductive exec (prog : list stmt) : state -> list sid -> state -> Prop :=
| e_nil st : exec prog st [] st
| e_cons st st1 st2 i w ws : In i prog -> step st i w st1 -> exec prog st1 ws st2 ->
     exec prog st (match w with Some s => s :: ws | None => ws end) st2.
End Sem.

(* checker: a candidate set mc of "may hold caller storage" variables must be CLOSED under
   the rules, and no InPlace may target a member. *)
Definition closed_stmt (mc : var -> bool) (i : stmt) : bool :=
  match i with
  | Let x Param | Let x SelfAttr => mc x
  | Let x Fresh => true
  | Let x (AliasOf ys _) => forallb (fun y => implb (mc y) (mc x)) ys
  | InPlace x => negb (mc x)
  end.
Definition own_check (mc : var -> bool) (prog : list stmt) : bool := forallb (closed_stmt mc) prog.

Definition inv ncaller mc (st : state) :=
  ncaller <= next st /\ forall x s, env st x = Some s -> caller ncaller s -> mc x = true.

Lemma step_inv ncaller mc prog st i w st1 :
  own_check mc prog = true -> In i prog -> inv ncaller mc st -> step ncaller st i w st1 ->
  inv ncaller mc st1 /\ (forall s, w = Some s -> ~ caller ncaller s).
Proof.
  intros Hc Hi [Hn Hinv] Hs.
  unfold own_check in Hc. rewrite forallb_forall in Hc. specialize (Hc i Hi).
  inversion Hs; subst; simpl in *.
  - (* param *) split; [split; simpl; [lia|] | intros ? [=]].
    intros y s. unfold upd. destruct (Nat.eqb y x) eqn:E; [apply Nat.eqb_eq in E; subst; auto | eauto].
  - (* self *) split; [split; simpl; [lia|] | intros ? [=]].
    intros y s. unfold upd. destruct (Nat.eqb y x) eqn:E; [apply Nat.eqb_eq in E; subst; auto | eauto].
  - (* fresh *) split; [split; simpl; [lia|] | intros ? [=]].
    intros y s. unfold upd. destruct (Nat.eqb y x) eqn:E; [| eauto].
    intros [= <-] Hcal. unfold caller in Hcal. lia.
  - (* alias *) split; [split; simpl; [lia|] | intros ? [=]].
    intros z s'. unfold upd. destruct (Nat.eqb z x) eqn:E; [| eauto].
    apply Nat.eqb_eq in E; subst. intros [= <-] Hcal.
    rewrite forallb_forall in Hc. specialize (Hc y H). specialize (Hinv y s H0 Hcal).
    rewrite Hinv in Hc. simpl in Hc. exact Hc.
  - (* alias, fresh result *) split; [split; simpl; [lia|] | intros ? [=]].
    intros y s. unfold upd. destruct (Nat.eqb y x) eqn:E; [| eauto].
    intros [= <-] Hcal. unfold caller in Hcal. lia.
  - (* in place *) split; [split; auto |].
    intros s' [= <-] Hcal. specialize (Hinv x s H Hcal). rewrite Hinv in Hc. discriminate.
Qed.

Theorem own_check_sound ncaller mc prog st ws st' :
  own_check mc prog = true -> inv ncaller mc st -> exec ncaller prog st ws st' ->
  forall s, In s ws -> ~ caller ncaller s.
Proof.
  intros Hc Hinv He. induction He; intros s Hin; [inversion Hin|].
  destruct (step_inv _ _ _ _ _ _ _ Hc H Hinv H0) as [Hinv1 Hw].
  destruct w as [s0|]; [destruct Hin as [<-|Hin]; [now apply Hw | now apply IHHe] | now apply IHHe].
Qed.

(* initial state: nothing bound, all caller storages already allocated *)
Lemma inv_init ncaller mc : inv ncaller mc {| env := fun _ => None; next := ncaller |}.
Proof. split; simpl; [lia | intros; discriminate]. Qed.


(* candidate sets are emitted as lists *)
Definition mem (l : list nat) (x : nat) : bool := existsb (Nat.eqb x) l.

(* every execution from the initial state (nothing bound, caller storages allocated) writes no caller storage *)
Corollary own_check_sound_init ncaller mcl prog ws st' :
  own_check (mem mcl) prog = true ->
  exec ncaller prog {| env := fun _ => None; next := ncaller |} ws st' ->
  forall s, In s ws -> ~ caller ncaller s.
Proof. intros Hc He. eapply own_check_sound; [exact Hc | apply inv_init | exact He]. Qed.
