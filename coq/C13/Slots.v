(* C13 — side table of the cache-fill rule of the translator (harness/own_ir.py, cache_fill_rule).
   `self.<a> = v` outside a constructor changes the existing operator OBJECT; it is permitted without an allow-list entry
   iff a is private and NO method that observes the matrix or the representation of the operator (_matmul, _t_matmul, _size,
   to_dense, _diagonal, representation, __getitem__, ... and everything they reach through self.m(..) / super().m(..) in any
   class related by inheritance) may read a.  The translator emits, for every such site, the pair
   (a, attributes those methods may read); `slot_unread` re-checks the disjointness here. *)
From Coq Require Import List Bool String.
Import ListNotations.

Definition slot_unread (a : string) (readers : list string) : bool := negb (existsb (String.eqb a) readers).

Lemma slot_unread_sound a readers : slot_unread a readers = true -> ~ In a readers.
Proof.
  unfold slot_unread. intros H Hin. apply negb_true_iff in H.
  assert (E : existsb (String.eqb a) readers = true) by (apply existsb_exists; exists a; split; [exact Hin | apply String.eqb_refl]).
  rewrite E in H. discriminate.
Qed.
