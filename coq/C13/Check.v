(* C13 — what each classification of harness/torch_ops.json PERMITS a torch call to do, the link of these
   classes to the IR statements the translator emits for them, and the comparator used by the
   generated correspondence shards (gen/cases_*.v): every observation of the running torch (one call of a
   listed method / function on a contiguous / expanded / transposed / sliced receiver) must be permitted
   by the class the translator assumes for it. *)
From Coq Require Import List Arith Bool.
Import ListNotations.
Require Import C13.Own.

Inductive cls :=
| KFresh        (* result never shares memory with receiver / arguments; nothing is written       -> Let x Fresh *)
| KView         (* method: result shares memory with the RECEIVER at most                         -> Let x (AliasOf [recv] false) *)
| KMaybeView    (* method: receiver's memory or new memory                                        -> Let x (AliasOf [recv] true) *)
| KAnyOperand   (* function / unknown: any operand's memory or new memory                         -> Let x (AliasOf operands true) *)
| KInPlace      (* trailing underscore / out=: writes the receiver (only), returns it             -> InPlace recv; alias recv *)
| KMetaInPlace  (* unsqueeze_, resize_, ...: changes the receiver OBJECT's metadata, no stored value, but bumps the version counter the
                   receiver shares with every view of its storage -> object-program InPlace AND storage-program InPlace *)
| KValuePres.   (* detach_, requires_grad_: explicitly allowed by the property, values unchanged *)

(* one observed call *)
Record obs := {
  ov_recv : bool;      (* some result tensor shares storage with the receiver (first tensor operand) *)
  ov_other : bool;     (* some result tensor shares storage with another tensor operand *)
  same_obj : bool;     (* the result IS the receiver object *)
  bump_recv : bool;    (* receiver's _version changed *)
  bump_other : bool;   (* another operand's _version changed *)
  val_recv : bool;     (* bytes of the receiver's underlying buffer changed *)
  val_other : bool;    (* bytes of another operand's buffer changed *)
  meta_recv : bool     (* receiver object's shape / stride / offset changed *)
}.

Definition permits (c : cls) (o : obs) : bool :=
  let quiet_other := negb (bump_other o) && negb (val_other o) in
  let quiet_recv := negb (bump_recv o) && negb (val_recv o) && negb (meta_recv o) in
  match c with
  | KFresh => negb (ov_recv o) && negb (ov_other o) && quiet_recv && quiet_other
  | KView | KMaybeView => negb (ov_other o) && quiet_recv && quiet_other
  | KAnyOperand => quiet_recv && quiet_other
  | KInPlace => negb (ov_other o) && negb (meta_recv o) && quiet_other
  | KMetaInPlace => negb (ov_other o) && negb (val_recv o) && quiet_other
  | KValuePres => negb (ov_other o) && negb (val_recv o) && negb (meta_recv o) && quiet_other
  end.

(* ---- link to the IR ----------------------------------------------------------------------------
   Storage view of an observation: the result lives in the receiver's storage, in another operand's
   storage, or in new storage.  If the class permits the observation, that outcome is a step of the
   statement the translator emits for the class (so the any-order semantics covers what torch did),
   and a write to the receiver is only permitted for the classes for which the translator emits InPlace. *)
Definition rhs_of (c : cls) (recv other : var) : rhs :=
  match c with
  | KFresh => Fresh
  | KView => AliasOf [recv] false
  | KMaybeView => AliasOf [recv] true
  | KAnyOperand => AliasOf [recv; other] true
  | KInPlace | KMetaInPlace | KValuePres => AliasOf [recv] false
  end.

Inductive outcome := ORecv | OOther | ONew.
Definition outcome_of (o : obs) : outcome :=
  if ov_recv o then ORecv else if ov_other o then OOther else ONew.

Definition emits_inplace (c : cls) : bool := match c with KInPlace | KMetaInPlace => true | _ => false end.

Lemma permits_step ncaller c o st x recv other sr so :
  permits c o = true -> env st recv = Some sr -> env st other = Some so ->
  (* a result in new storage is only claimed for classes that may allocate *)
  (c = KView \/ c = KInPlace \/ c = KMetaInPlace \/ c = KValuePres -> ov_recv o = true) ->
  exists st', step ncaller st (Let x (rhs_of c recv other)) None st' /\
    match outcome_of o with
    | ORecv => env st' x = Some sr
    | OOther => env st' x = Some so
    | ONew => env st' x = Some (next st)
    end.
Proof.
  intros Hp Hr Ho Hnew. unfold outcome_of.
  assert (U : forall f v, upd f x v x = v) by (intros; unfold upd; now rewrite Nat.eqb_refl).
  destruct (ov_recv o) eqn:Er.
  - (* result in the receiver's storage: never permitted for KFresh *)
    destruct c; simpl in *; unfold permits in Hp; simpl in Hp; rewrite ?Er in Hp; simpl in Hp; try discriminate;
      (eexists; split; [eapply s_alias; [|exact Hr]; simpl; auto | simpl; apply U]).
  - destruct (ov_other o) eqn:Eo.
    + (* result in another operand's storage: only KAnyOperand permits it *)
      destruct c; unfold permits in Hp; simpl in Hp; rewrite ?Er, ?Eo in Hp; simpl in Hp; try discriminate.
      eexists; split; [eapply s_alias; [|exact Ho]; simpl; auto | simpl; apply U].
    + destruct c; simpl; try (assert (X : false = true) by (apply Hnew; auto 6); discriminate X).
      * eexists; split; [apply s_fresh | simpl; apply U].
      * eexists; split; [apply s_alias_fresh | simpl; apply U].
      * eexists; split; [apply s_alias_fresh | simpl; apply U].
Qed.

(* values of the receiver may only change for the class for which the translator emits InPlace *)
Lemma permits_write c o : permits c o = true -> val_recv o = true -> emits_inplace c = true.
Proof.
  intros Hp Hv. destruct c; unfold permits in Hp; simpl in Hp; rewrite ?Hv in Hp; simpl in Hp;
    rewrite ?andb_false_r in Hp; simpl in Hp; try discriminate; reflexivity.
Qed.

(* the receiver's version counter (shared with every view of its storage) may only be bumped where the translator emits a
   storage-program InPlace, or by the two methods the property explicitly permits (detach_, requires_grad_) *)
Lemma permits_version c o : permits c o = true -> bump_recv o = true -> emits_inplace c = true \/ c = KValuePres.
Proof.
  intros Hp Hv. destruct c; unfold permits in Hp; simpl in Hp; rewrite ?Hv in Hp; simpl in Hp;
    rewrite ?andb_false_r in Hp; simpl in Hp; try discriminate; auto.
Qed.

(* nothing but the receiver is ever written, whatever the class *)
Lemma permits_other_quiet c o : permits c o = true -> val_other o = false /\ bump_other o = false.
Proof.
  intros Hp. destruct c; unfold permits in Hp; simpl in Hp;
    destruct (val_other o), (bump_other o); simpl in Hp; rewrite ?andb_false_r in Hp; simpl in Hp;
    try discriminate; auto.
Qed.

(* ---- comparator for the shards ---- *)
Definition mk (a b c d e f g h : bool) : obs :=
  {| ov_recv := a; ov_other := b; same_obj := c; bump_recv := d; bump_other := e; val_recv := f; val_other := g; meta_recv := h |}.

Fixpoint bad_cases (cs : list (cls * obs)) (i : nat) : list nat :=
  match cs with
  | [] => []
  | (c, o) :: r => if permits c o then bad_cases r (S i) else i :: bad_cases r (S i)
  end.
