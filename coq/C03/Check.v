(* C03 — Gallina comparators used by the generated case shards (gen/cases_*.v). *)
From Coq Require Import List ZArith Bool Arith.
Import ListNotations.
Require Import C03.Model.
Open Scope Z_scope.

Fixpoint lnat_eqb (a b : list nat) : bool :=
  match a, b with [], [] => true | x :: r, y :: s => Nat.eqb x y && lnat_eqb r s | _, _ => false end.
Fixpoint lz_eqb (a b : list Z) : bool :=
  match a, b with [], [] => true | x :: r, y :: s => Z.eqb x y && lz_eqb r s | _, _ => false end.
Definition tensor_eqb (a b : tensor) : bool := lnat_eqb (tshape a) (tshape b) && lz_eqb (tdata a) (tdata b).
Definition otensor_eqb (a b : option tensor) : bool :=
  match a, b with Some x, Some y => tensor_eqb x y | None, None => true | _, _ => false end.

Fixpoint bad {A} (f : A -> bool) (cs : list A) (i : nat) : list nat :=
  match cs with [] => [] | c :: r => if f c then bad f r (S i) else i :: bad f r (S i) end.

(* short constructors for index literals *)
Definition RI (i : Z) : raw := RItem (IInt i).
Definition RS (a b s : option Z) : raw := RItem (ISlice a b s).
Definition RT (sh : list nat) (d : list Z) : raw := RItem (ITensor sh d).
Definition RE : raw := REllipsis.
Definition RL (d : list Z) : raw := RList d.
Definition So (x : Z) : option Z := Some x.
Definition No : option Z := None.

(* ---- L1 / L4: the torch-index SPEC evaluated on a dense tensor vs what was observed
        (L1: observed = real torch on the dense tensor; L4: observed = op[idx] densified) *)
Record spec_case := SC { sc_t : tensor; sc_idx : list raw; sc_obs : option tensor }.
Definition spec_ok (c : spec_case) : bool := otensor_eqb (torch_index (sc_t c) (sc_idx c)) (sc_obs c).
Definition bad_spec (cs : list spec_case) : list nat := bad spec_ok cs 0.

(* ---- diagonal *)
Record diag_case := DC { dc_t : tensor; dc_obs : option tensor }.
Definition diag_ok (c : diag_case) : bool := otensor_eqb (spec_diagonal (dc_t c)) (dc_obs c).
Definition bad_diag (cs : list diag_case) : list nat := bad diag_ok cs 0.
