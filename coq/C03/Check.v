(* C03 — Gallina comparators used by the generated case shards (gen/cases_*.v). *)
From Coq Require Import List ZArith Bool Arith.
Import ListNotations.
Require Import C03.Model C03.ProofsDiag.
Open Scope Z_scope.

Fixpoint lnat_eqb (a b : list nat) : bool :=
  match a, b with [], [] => true | x :: r, y :: s => Nat.eqb x y && lnat_eqb r s | _, _ => false end.
Fixpoint lz_eqb (a b : list Z) : bool :=
  match a, b with [], [] => true | x :: r, y :: s => Z.eqb x y && lz_eqb r s | _, _ => false end.
Definition tensor_eqb (a b : tensor) : bool := lnat_eqb (tshape a) (tshape b) && lz_eqb (tdata a) (tdata b).
Definition otensor_eqb (a b : option tensor) : bool :=
  match a, b with Some x, Some y => tensor_eqb x y | None, None => true | _, _ => false end.

Fixpoint bad {A} (f : A -> bool) (cs : list A) (i : nat) : list nat :=
  match cs with [] => [] | c :: r => if f c then bad f r (S i) else i :: bad f r (S i) end.

(* short constructors for index literals *)
Definition RI (i : Z) : raw := RItem (IInt i).
Definition RS (a b s : option Z) : raw := RItem (ISlice a b s).
Definition RT (sh : list nat) (d : list Z) : raw := RItem (ITensor sh d).
Definition RE : raw := REllipsis.
Definition RL (d : list Z) : raw := RList d.
Definition So (x : Z) : option Z := Some x.
Definition No : option Z := None.

(* ---- L1 / L4: the torch-index SPEC evaluated on a dense tensor vs what was observed
        (L1: observed = real torch on the dense tensor; L4: observed = op[idx] densified) *)
Record spec_case := SC { sc_t : tensor; sc_idx : list raw; sc_obs : option tensor }.
Definition spec_ok (c : spec_case) : bool := otensor_eqb (torch_index (sc_t c) (sc_idx c)) (sc_obs c).
Definition bad_spec (cs : list spec_case) : list nat := bad spec_ok cs 0.

(* ---- diagonal *)
Record diag_case := DC { dc_t : tensor; dc_obs : option tensor }.
Definition diag_ok (c : diag_case) : bool := otensor_eqb (spec_diagonal (dc_t c)) (dc_obs c).
Definition bad_diag (cs : list diag_case) : list nat := bad diag_ok cs 0.

(* ===================================================================================== *)
(* ---- L2: transcriptions of utils/getitem.py and __getitem__ vs the real functions *)

Definition olnat_eqb (a b : option (list nat)) : bool :=
  match a, b with Some x, Some y => lnat_eqb x y | None, None => true | _, _ => false end.

(* short constructors for normalised items *)
Definition NI (i : Z) : item := IInt i.
Definition NS (a b s : option Z) : item := ISlice a b s.
Definition NT (sh : list nat) (d : list Z) : item := ITensor sh d.

(* _compute_getitem_size *)
Record size_case := ZC { zc_debug : bool; zc_shape : list nat; zc_idx : list item; zc_obs : option (list nat) }.
Definition size_ok (c : size_case) : bool :=
  olnat_eqb (compute_getitem_size (zc_debug c) (zc_shape c) (zc_idx c)) (zc_obs c).
Definition bad_size (cs : list size_case) : list nat := bad size_ok cs 0.

(* _is_tensor_index_moved_to_start *)
Record moved_case := MC { mc_idx : list item; mc_obs : bool }.
Definition moved_ok (c : moved_case) : bool := Bool.eqb (is_moved_to_start (mc_idx c)) (mc_obs c).
Definition bad_moved (cs : list moved_case) : list nat := bad moved_ok cs 0.

(* _convert_indices_to_tensors *)
(* leading singleton dimensions of an index tensor are irrelevant (broadcasting aligns shapes on the right): the
   comparison ignores them, so that a rewrite which pads differently on the left does not alarm *)
Fixpoint strip1 (sh : list nat) : list nat :=
  match sh with 1%nat :: r => strip1 r | _ => sh end.
Fixpoint ltens_eqb (a b : list (list nat * list Z)) : bool :=
  match a, b with
  | [], [] => true
  | (s1, d1) :: r, (s2, d2) :: s => lnat_eqb (strip1 s1) (strip1 s2) && lz_eqb d1 d2 && ltens_eqb r s
  | _, _ => false
  end.
Record conv_case := VC { vc_shape : list nat; vc_idx : list item; vc_obs : option (list (list nat * list Z)) }.
Definition conv_ok (c : conv_case) : bool :=
  match convert_indices_to_tensors (vc_shape c) (vc_idx c), vc_obs c with
  | Some x, Some y => ltens_eqb x y
  | None, None => true
  | _, _ => false
  end.
Definition bad_conv (cs : list conv_case) : list nat := bad conv_ok cs 0.

(* DenseLinearOperator.__getitem__: the observation must be what the pinned transcription or what the repaired
   transcription computes (a repaired tree passes as well); code: 0 = neither, 1 = pinned only, 2 = fixed only, 3 = both *)
Record front_case := FC { fc_debug : bool; fc_t : tensor; fc_idx : list raw; fc_obs : option tensor }.
Definition front_code (c : front_case) : nat :=
  ((if otensor_eqb (getitem_model Pinned (fc_debug c) (fc_t c) (fc_idx c)) (fc_obs c) then 1 else 0) +
   (if otensor_eqb (getitem_model Fixed (fc_debug c) (fc_t c) (fc_idx c)) (fc_obs c) then 2 else 0))%nat.
Definition front_codes (cs : list front_case) : list nat := map front_code cs.
(* the repaired transcription against the SPEC (supports the unproved front-end theorem on the grid) *)
Definition front_fixed_is_spec (c : front_case) : bool :=
  otensor_eqb (getitem_model Fixed false (fc_t c) (fc_idx c)) (torch_index (fc_t c) (fc_idx c)).
Definition bad_front_spec (cs : list front_case) : list nat := bad front_fixed_is_spec cs 0.

(* ===================================================================================== *)
(* ---- L3: per-class _get_indices arithmetic vs the real methods (operators over dense children) *)

(* entry (i, j) of a row-major matrix with ncols columns *)
Definition mat_at (ncols : Z) (d : list Z) (i j : Z) : Z := nth (Z.to_nat (i * ncols + j)) d 0.
(* entry (b, i, j) of a row-major stack of m x n matrices *)
Definition stack_at (m n : Z) (d : list Z) (b i j : Z) : Z := nth (Z.to_nat ((b * m + i) * n + j)) d 0.

Record toep_case := TC { tc_col : list Z; tc_rc : list (Z * Z); tc_obs : list Z }.
Definition toep_ok (c : toep_case) : bool :=
  let n := Z.of_nat (length (tc_col c)) in
  lz_eqb (map (fun '(r, k) => nth (Z.to_nat (toeplitz_index n r k)) (tc_col c) 0) (tc_rc c)) (tc_obs c).
Definition bad_toep (cs : list toep_case) : list nat := bad toep_ok cs 0.

(* factors: (rows, cols, row-major data) *)
Record kron_case := KC { kc_f : list (Z * Z * list Z); kc_rc : list (Z * Z); kc_obs : list Z }.
Definition kron_ok (c : kron_case) : bool :=
  let ms := map (fun f => fst (fst f)) (kc_f c) in
  let ns := map (fun f => snd (fst f)) (kc_f c) in
  let fs := map (fun f => mat_at (snd (fst f)) (snd f)) (kc_f c) in
  lz_eqb (map (fun '(r, k) => kron_get_indices ms ns fs r k) (kc_rc c)) (kc_obs c).
Definition bad_kron (cs : list kron_case) : list nat := bad kron_ok cs 0.

(* interleaved = false: BlockDiag, true: BlockInterleaved; k blocks of m x n *)
Record block_case := BC { bc_il : bool; bc_k : Z; bc_m : Z; bc_n : Z; bc_d : list Z; bc_rc : list (Z * Z); bc_obs : list Z }.
Definition block_ok (c : block_case) : bool :=
  let base := stack_at (bc_m c) (bc_n c) (bc_d c) in
  lz_eqb (map (fun '(r, k) => if bc_il c then blockinterleaved_get_indices (bc_k c) base r k
                              else blockdiag_get_indices (bc_m c) (bc_n c) base r k) (bc_rc c)) (bc_obs c).
Definition bad_block (cs : list block_case) : list nat := bad block_ok cs 0.

(* BatchRepeat of a (size, m, n) dense stack: index triples (b, r, c) *)
Record rep_case := RC { rc_size : Z; rc_m : Z; rc_n : Z; rc_d : list Z; rc_brc : list (Z * Z * Z); rc_obs : list Z }.
Definition rep_ok (c : rep_case) : bool :=
  lz_eqb (map (fun '(b, r, k) => stack_at (rc_m c) (rc_n c) (rc_d c) (batchrepeat_index (rc_size c) b) r k) (rc_brc c)) (rc_obs c).
Definition bad_rep (cs : list rep_case) : list nat := bad rep_ok cs 0.

(* Masked over a dense m x n matrix *)
Record mask_case := KM { km_n : Z; km_d : list Z; km_rm : list bool; km_cm : list bool; km_rc : list (Z * Z); km_obs : list Z }.
Definition mask_ok (c : mask_case) : bool :=
  let rp := mask_positions (km_rm c) 0 in let cp := mask_positions (km_cm c) 0 in
  lz_eqb (map (fun '(r, k) => mat_at (km_n c) (km_d c) (nth (Z.to_nat r) rp 0) (nth (Z.to_nat k) cp 0)) (km_rc c)) (km_obs c).
Definition bad_mask (cs : list mask_case) : list nat := bad mask_ok cs 0.

(* Cat along the last dimension of dense pieces (rows, cols_k, data_k): index pairs (r, x) *)
Record cat_case := CC { cc_p : list (Z * list Z); cc_rx : list (Z * Z); cc_obs : list Z }.
Definition cat_ok (c : cat_case) : bool :=
  let sizes := map (fun p => Z.to_nat (fst p)) (cc_p c) in
  lz_eqb (map (fun '(r, x) => let '(k, i) := cat_locate sizes (Z.to_nat x) in
                              let p := nth k (cc_p c) (0, []) in mat_at (fst p) (snd p) r (Z.of_nat i)) (cc_rx c)) (cc_obs c).
Definition bad_cat (cs : list cat_case) : list nat := bad cat_ok cs 0.

(* CatLinearOperator._split_slice: observed pieces (component, start, stop) with None bounds written out *)
Fixpoint ltrip_eqb (a b : list (nat * Z * Z)) : bool :=
  match a, b with
  | [], [] => true
  | (k1, a1, b1) :: r, (k2, a2, b2) :: s => Nat.eqb k1 k2 && Z.eqb a1 a2 && Z.eqb b1 b2 && ltrip_eqb r s
  | _, _ => false
  end.
Record split_case := PC { pc_sizes : list nat; pc_a : option Z; pc_b : option Z; pc_obs : list (nat * Z * Z) }.
Definition split_code (c : split_case) : nat :=
  ((if ltrip_eqb (split_slice Pinned (pc_sizes c) (pc_a c) (pc_b c)) (pc_obs c) then 1 else 0) +
   (if ltrip_eqb (split_slice Fixed (pc_sizes c) (pc_a c) (pc_b c)) (pc_obs c) then 2 else 0))%nat.
Definition split_codes (cs : list split_case) : list nat := map split_code cs.

(* ---- Interpolated._get_indices over a dense base with ncols columns (also the default LinearOperator._get_indices:
        one point per side with weight 1): per queried (row, col) pair the interpolation indices / values of that row
        and that column *)
Record interp_case := IC { ic_n : Z; ic_d : list Z; ic_q : list (list Z * list Z * list Z * list Z); ic_obs : list Z }.
Definition interp_ok (c : interp_case) : bool :=
  lz_eqb (map (fun '(li, lv, ri, rv) => interp_get_indices (mat_at (ic_n c) (ic_d c)) li lv ri rv) (ic_q c)) (ic_obs c).
Definition bad_interp (cs : list interp_case) : list nat := bad interp_ok cs 0.

(* ---- Interpolated._diagonal over Root(dense R with rk columns): per diagonal position the four lists *)
Record idiag_case := IDC { idc_rk : Z; idc_d : list Z; idc_q : list (list Z * list Z * list Z * list Z); idc_obs : list Z }.
Definition idiag_ok (c : idiag_case) : bool :=
  lz_eqb (map (fun '(li, lv, ri, rv) => interp_root_diag (mat_at (idc_rk c) (idc_d c)) (Z.to_nat (idc_rk c)) li lv ri rv) (idc_q c))
         (idc_obs c).
Definition bad_idiag (cs : list idiag_case) : list nat := bad idiag_ok cs 0.

(* ---- _kron_diag of the factor diagonals *)
Record kdiag_case := KD { kd_diags : list (list Z); kd_obs : list Z }.
Definition kdiag_ok (c : kdiag_case) : bool := lz_eqb (kron_diag (kd_diags c)) (kd_obs c).
Definition bad_kdiag (cs : list kdiag_case) : list nat := bad kdiag_ok cs 0.

(* ---- Diag / Root / Matmul / SumBatch _get_indices over dense data *)
Record diagop_case := DG { dg_d : list Z; dg_rc : list (Z * Z); dg_obs : list Z }.
Definition diagop_ok (c : diagop_case) : bool :=
  lz_eqb (map (fun '(r, k) => diag_get_indices (fun i => nth (Z.to_nat i) (dg_d c) 0) r k) (dg_rc c)) (dg_obs c).
Definition bad_diagop (cs : list diagop_case) : list nat := bad diagop_ok cs 0.

Record root_case := RT0 { rt_rk : Z; rt_d : list Z; rt_rc : list (Z * Z); rt_obs : list Z }.
Definition root_ok (c : root_case) : bool :=
  lz_eqb (map (fun '(r, k) => root_get_indices (mat_at (rt_rk c) (rt_d c)) (Z.to_nat (rt_rk c)) r k) (rt_rc c)) (rt_obs c).
Definition bad_root (cs : list root_case) : list nat := bad root_ok cs 0.

(* left: m x k (row-major, k columns), right: k x n *)
Record mm_case := MM { mm_k : Z; mm_n : Z; mm_l : list Z; mm_r : list Z; mm_rc : list (Z * Z); mm_obs : list Z }.
Definition mm_ok (c : mm_case) : bool :=
  lz_eqb (map (fun '(r, k) => matmul_get_indices (mat_at (mm_k c) (mm_l c)) (mat_at (mm_n c) (mm_r c)) (Z.to_nat (mm_k c)) r k) (mm_rc c))
         (mm_obs c).
Definition bad_mm (cs : list mm_case) : list nat := bad mm_ok cs 0.

(* base: nb blocks of m x n *)
Record sb_case := SB { sb_nb : Z; sb_m : Z; sb_n : Z; sb_d : list Z; sb_rc : list (Z * Z); sb_obs : list Z }.
Definition sb_ok (c : sb_case) : bool :=
  lz_eqb (map (fun '(r, k) => sumbatch_get_indices (stack_at (sb_m c) (sb_n c) (sb_d c)) (Z.to_nat (sb_nb c)) r k) (sb_rc c)) (sb_obs c).
Definition bad_sb (cs : list sb_case) : list nat := bad sb_ok cs 0.

(* ===================================================================================== *)
(* ---- L3x: the nested class-level entry formulas of Model.v part 7, evaluated element-wise over index tensors (gi_elem),
        vs the real _get_indices of (nested) operators; leaves are dense tensors *)
Inductive xop :=
| XDense (t : tensor)
| XToeplitz (col : tensor)
| XDiag (d : tensor)
| XKron (fs : list xop)
| XBlockDiag (b : xop)
| XBlockInterleaved (b : xop)
| XBatchRepeat (b : xop) (reps : list nat)
| XRoot (r : xop)
| XMatmul (l r : xop)
| XSumBatch (b : xop)
| XSum (es : list xop)
| XMul (l r : xop)
| XConstMul (c : tensor) (b : xop)
| XMasked (b : xop) (rm cm : list bool)
| XInterp (b : xop) (li lv ri rv : tensor)
| XCat (es : list xop) (dim : nat).

Definition sh_batch (s : list nat) : list nat := firstn (length s - 2) s.
Definition sh_m (s : list nat) : nat := nth (length s - 2) s 0%nat.
Definition sh_n (s : list nat) : nat := nth (length s - 1) s 0%nat.
Definition count_true (l : list bool) : nat := length (filter (fun b => b) l).
Fixpoint map2mul (a b : list nat) : list nat := match a, b with x :: a', y :: b' => (x * y)%nat :: map2mul a' b' | _, _ => [] end.

Fixpoint xshape (e : xop) : list nat :=
  match e with
  | XDense t => tshape t
  | XToeplitz col => tshape col ++ [last (tshape col) 0%nat]
  | XDiag d => tshape d ++ [last (tshape d) 0%nat]
  | XKron fs => match fs with
                | [] => []
                | f :: _ => sh_batch (xshape f) ++ [prod (map (fun g => sh_m (xshape g)) fs); prod (map (fun g => sh_n (xshape g)) fs)]
                end
  | XBlockDiag b => let s := xshape b in let k := nth (length s - 3) s 0%nat in
                    firstn (length s - 3) s ++ [(k * sh_m s)%nat; (k * sh_n s)%nat]
  | XBlockInterleaved b => let s := xshape b in let k := nth (length s - 3) s 0%nat in
                    firstn (length s - 3) s ++ [(sh_m s * k)%nat; (sh_n s * k)%nat]
  | XBatchRepeat b reps => let s := xshape b in
                    map2mul reps (repeat 1%nat (length reps - length (sh_batch s)) ++ sh_batch s) ++ [sh_m s; sh_n s]
  | XRoot r => let s := xshape r in sh_batch s ++ [sh_m s; sh_m s]
  | XMatmul l r => sh_batch (xshape l) ++ [sh_m (xshape l); sh_n (xshape r)]
  | XSumBatch b => let s := xshape b in firstn (length s - 3) s ++ [sh_m s; sh_n s]
  | XSum es => match es with [] => [] | f :: _ => xshape f end
  | XMul l _ => xshape l
  | XConstMul _ b => xshape b
  | XMasked b rm cm => sh_batch (xshape b) ++ [count_true rm; count_true cm]
  | XInterp b li _ ri _ => sh_batch (xshape b) ++ [sh_m (tshape li); sh_m (tshape ri)]
  | XCat es dim => match es with
                   | [] => []
                   | f :: _ => set_nth (xshape f) dim (fold_right Nat.add 0%nat (map (fun g => nth dim (xshape g) 0%nat) es))
                   end
  end.

(* the interpolation indices / values of one (batch, row): the last dimension of the tensor at those coordinates *)
Definition fibre (t : tensor) (y : list nat) : list Z := map (fun a => tget t (y ++ [a])) (seq 0 (sh_n (tshape t))).

Fixpoint xfml (e : xop) : list nat -> Z :=
  match e with
  | XDense t => tget t
  | XToeplitz col => toeplitz_f (tget col) (last (tshape col) 0%nat)
  | XDiag d => diag_f (tget d)
  | XKron fs => kron_f (map (fun g => (sh_m (xshape g), sh_n (xshape g), xfml g)) fs)
  | XBlockDiag b => blockdiag_f (xfml b) (sh_m (xshape b)) (sh_n (xshape b))
  | XBlockInterleaved b => let s := xshape b in blockinterleaved_f (xfml b) (nth (length s - 3) s 0%nat)
  | XBatchRepeat b _ => batchrepeat_f (xfml b) (sh_batch (xshape b))
  | XRoot r => root_f (xfml r) (sh_n (xshape r))
  | XMatmul l r => matmul_f (xfml l) (xfml r) (sh_n (xshape l))
  | XSumBatch b => let s := xshape b in sumbatch_f (xfml b) (nth (length s - 3) s 0%nat)
  | XSum es => sum_f (map xfml es)
  | XMul l r => mul_f (xfml l) (xfml r)
  | XConstMul c b => constmul_f (fun y => tget_b (tshape c) (tdata c) (sh_batch (xshape b)) y) (xfml b)
  | XMasked b rm cm => masked_f (xfml b) rm cm
  | XInterp b li lv ri rv => interp_f (xfml b) (fibre li) (fibre lv) (fibre ri) (fibre rv)
  | XCat es dim => cat_f (map xfml es) (map (fun g => nth dim (xshape g) 0%nat) es) dim
  end.

Record xgi_case := XG { xg_e : xop; xg_ts : list (list nat * list Z); xg_obs : option tensor }.
Definition xgi_ok (c : xgi_case) : bool := otensor_eqb (gi_elem (xfml (xg_e c)) (xshape (xg_e c)) (xg_ts c)) (xg_obs c).
Definition bad_xgi (cs : list xgi_case) : list nat := bad xgi_ok cs 0.

(* ---- L3g: class-level _getitem for basic indices over dense children vs the real _getitem(..).to_dense() *)
Inductive gop :=
| GMatmul (l r : tensor) | GSumBatch (b : tensor) | GSum (a b : tensor) | GConstMul (c b : tensor) | GZero (shape : list nat)
| GRoot (r : tensor) | GDefault (dense : tensor).
Definition gop_getitem (g : gop) : list item -> option tensor :=
  match g with
  | GMatmul l r => matmul_getitem (dense_getitem l) (dense_getitem r)
  | GSumBatch b => sumbatch_getitem (dense_getitem b)
  | GSum a b => sum_getitem (dense_getitem a) (dense_getitem b)
  | GConstMul c b => constmul_getitem c (dense_getitem b)
  | GZero shape => zero_getitem shape
  | GRoot r => root_getitem (dense_getitem r)
  | GDefault d => default_getitem (dense_getitem d)
  end.
Record xgt_case := XT { xt_g : gop; xt_its : list item; xt_obs : option tensor }.
Definition xgt_ok (c : xgt_case) : bool := otensor_eqb (gop_getitem (xt_g c) (xt_its c)) (xt_obs c).
Definition bad_xgt (cs : list xgt_case) : list nat := bad xgt_ok cs 0.

(* ---- L3 large indices: Kronecker product of factors given by a diagonal (is_diag = true: data = the diagonal) or by a
        dense square matrix (data row-major), indexed far beyond 2^24 / 2^31; the digit arithmetic is evaluated in Z *)
Record klarge_case := KLC { kl_f : list (Z * bool * list Z); kl_rc : list (Z * Z); kl_obs : list Z }.
Definition kl_entry (f : Z * bool * list Z) (r c : Z) : Z :=
  let '(n, isd, d) := f in if isd then (if r =? c then nth (Z.to_nat r) d 0 else 0) else mat_at n d r c.
Definition klarge_ok (c : klarge_case) : bool :=
  let ns := map (fun f => fst (fst f)) (kl_f c) in
  lz_eqb (map (fun '(r, k) => kron_get_indices ns ns (map kl_entry (kl_f c)) r k) (kl_rc c)) (kl_obs c).
Definition bad_klarge (cs : list klarge_case) : list nat := bad klarge_ok cs 0.

(* block operators with a diagonal base (value c_b on block b, block size m; interleaved: k blocks) and BatchRepeat of a
   constant-diagonal base with `size` batch entries, at large indices *)
Record blarge_case := BLC { bl_kind : nat; bl_m : Z; bl_c : list Z; bl_rc : list (Z * Z); bl_obs : list Z }.
Definition blarge_ok (c : blarge_case) : bool :=
  let base := fun b i j => if i =? j then nth (Z.to_nat b) (bl_c c) 0 else 0 in
  lz_eqb (map (fun '(r, k) => match bl_kind c with
                              | 0%nat => blockdiag_get_indices (bl_m c) (bl_m c) base r k
                              | 1%nat => blockinterleaved_get_indices (Z.of_nat (length (bl_c c))) base r k
                              | _ => nth (Z.to_nat (batchrepeat_index (Z.of_nat (length (bl_c c))) r)) (bl_c c) 0
                              end) (bl_rc c)) (bl_obs c).
Definition bad_blarge (cs : list blarge_case) : list nat := bad blarge_ok cs 0.
