(* C03 — the PINNED __getitem__ on the absorbed path: where it agrees with the repaired one (hence with torch) *)
From Coq Require Import List ZArith Bool Arith Lia.
Import ListNotations.
Require Import C03.Model C03.Proofs C03.ProofsSlice C03.ProofsSize C03.ProofsFront C03.ProofsFront2 C03.ProofsAbsorbed C03.ProofsLone.
Open Scope nat_scope.

Definition absorbed_res_pinned (t : tensor) (orig : list item) : option tensor :=
  match bcast_all (flat_map (fun it => match it with ITensor sh _ => [sh] | _ => [] end) orig) [] with
  | None => None
  | Some B =>
      let flat := map (flatten_to B) orig in
      match convert_indices_to_tensors (tshape t) flat with
      | None => None
      | Some ts =>
          match gather t ts with
          | None => None
          | Some r =>
              if (1 <? length B)%nat then
                let rs := tshape r in
                if is_moved_to_start orig then view r (B ++ skipn 1 rs)
                else view r (removelast rs ++ B)
              else Some r
          end
      end
  end.

Lemma absorbed_res_pinned_eq t orig :
  (forall B, bcast_all (ishapes orig) [] = Some B -> length B <= 1) \/ is_moved_to_start orig = true ->
  absorbed_res_pinned t orig = absorbed_res t orig.
Proof.
  intros H. unfold absorbed_res_pinned, absorbed_res. fold (ishapes orig).
  destruct (bcast_all (ishapes orig) []) as [B|] eqn:EB; [|reflexivity]. cbv zeta.
  destruct (convert_indices_to_tensors (tshape t) (map (flatten_to B) orig)) as [ts|]; [|reflexivity].
  destruct (gather t ts) as [r|]; [|reflexivity].
  destruct (1 <? length B) eqn:E1; [|reflexivity]. apply Nat.ltb_lt in E1.
  destruct H as [H|H]; [specialize (H B eq_refl); lia|]. rewrite H. reflexivity.
Qed.

Definition is_int (it : item) : bool := match it with IInt _ => true | _ => false end.

Lemma getitem_pinned_absorbed_unfold t idx index : 2 <= length (tshape t) ->
  spec_expand (length (tshape t)) idx = Some index -> length index = length (tshape t) ->
  absorbed_idx (length (tshape t)) index = true ->
  is_int (nth (length (tshape t) - 2) index full) = false -> is_int (nth (length (tshape t) - 1) index full) = false ->
  getitem_model Pinned false t idx = absorbed_res_pinned t index.
Proof.
  intros Hnd Hexp Hlen Habs Hr Hc. unfold getitem_model, getitem_front.
  replace (length (tshape t) <? 2) with false by (symmetry; apply Nat.ltb_ge; lia).
  rewrite Hexp. cbv zeta. unfold absorbed_idx in Habs. cbv zeta in Habs. rewrite Habs.
  cbn [negb andb variant_eqb].
  pose proof (list_split_last2 full index _ Hlen Hnd) as Ei.
  set (batch := firstn (length (tshape t) - 2) index) in *. set (row := nth (length (tshape t) - 2) index full) in *.
  set (col := nth (length (tshape t) - 1) index full) in *.
  destruct row as [i|ra rb rs|rsh rd]; try discriminate; destruct col as [j|ca cb cs|csh cd]; try discriminate;
    cbv iota; rewrite Ei at 1;
    match goal with |- match ?X with Some r => Some r | None => None end = _ => destruct X eqn:EX end;
    rewrite <- EX; reflexivity.
Qed.

Lemma bcast_all_rank1 shapes : forall acc B, Forall (fun sh => length sh <= 1) shapes -> length acc <= 1 ->
  bcast_all shapes acc = Some B -> length B <= 1.
Proof.
  induction shapes as [|sh shapes IH]; intros acc B Hs Ha H.
  - simpl in H. inversion H; subst. assumption.
  - inversion Hs; subst. cbn [bcast_all] in H. destruct (bcast2 acc sh) as [a|] eqn:E; [|discriminate].
    apply bcast2_length in E. apply (IH a B); try assumption. lia.
Qed.

Definition rank1_tensors (its : list item) : Prop :=
  Forall (fun it => match it with ITensor sh _ => length sh <= 1 | _ => True end) its.

Lemma rank1_ishapes its : rank1_tensors its -> Forall (fun sh => length sh <= 1) (ishapes its).
Proof.
  induction 1 as [|it its H _ IH]; [constructor|]. unfold ishapes. cbn [flat_map]. fold (ishapes its).
  destruct it; simpl; try exact IH. constructor; assumption.
Qed.

(* the pinned __getitem__ on the absorbed path returns the torch result whenever neither matrix index is a python int
   and either all tensor indices are 1-d or the advanced-index block moves to the front *)
Theorem getitem_pinned_absorbed_partial : forall debug t idx index r,
  2 <= length (tshape t) -> Forall (fun n => 0 < n) (tshape t) ->
  spec_expand (length (tshape t)) idx = Some index ->
  absorbed_idx (length (tshape t)) index = true ->
  is_int (nth (length (tshape t) - 2) index full) = false -> is_int (nth (length (tshape t) - 1) index full) = false ->
  rank1_tensors index \/ is_moved_to_start index = true ->
  torch_index t idx = Some r ->
  getitem_model Pinned debug t idx = Some r.
Proof.
  intros debug t idx index r Hnd Hpos Hexp Habs Hr Hc Hcond Hspec.
  assert (G : getitem_model Pinned false t idx = Some r).
  { pose proof Hspec as Hspec0. unfold torch_index in Hspec. rewrite Hexp in Hspec. unfold torch_index_norm in Hspec.
    destruct (plans_of (tshape t) index) as [ps|] eqn:Hp; [|discriminate].
    destruct (bcast_all (tshapes ps) []) as [B|] eqn:HB; [|discriminate].
    assert (Er : r = result t ps B) by (inversion Hspec; reflexivity). subst r. clear Hspec.
    pose proof (plans_of_length _ _ _ Hp) as Hlen.
    rewrite (getitem_pinned_absorbed_unfold t idx index Hnd Hexp (eq_sym Hlen) Habs Hr Hc).
    rewrite absorbed_res_pinned_eq.
    - apply absorbed_res_correct; try assumption.
      + apply (absorbed_has_tensor _ _ (eq_sym Hlen) Hnd Habs).
      + eapply block_rank; try eassumption; [eapply spec_expand_no0d; eassumption|].
        apply (absorbed_has_tensor _ _ (eq_sym Hlen) Hnd Habs).
    - destruct Hcond as [H1|H2]; [left|right; exact H2]. intros B' HB'.
      apply (bcast_all_rank1 (ishapes index) [] B' (rank1_ishapes _ H1)); [simpl; lia|exact HB']. }
  destruct debug; [|exact G]. apply getitem_debug_irrelevant; assumption.
Qed.

(* on the NON-absorbed path the pinned and the repaired front end differ only through int -1 in a matrix position *)
Theorem getitem_pinned_nonabsorbed_eq : forall debug t idx index,
  spec_expand (length (tshape t)) idx = Some index ->
  absorbed_idx (length (tshape t)) index = false ->
  not_m1 (nth (length (tshape t) - 2) index full) = true ->
  not_m1 (nth (length (tshape t) - 1) index full) = true ->
  getitem_model Pinned debug t idx = getitem_model Fixed debug t idx.
Proof.
  intros debug t idx index Hexp Habs Hr Hc. unfold getitem_model, getitem_front.
  destruct (length (tshape t) <? 2); [reflexivity|]. rewrite Hexp. cbv zeta.
  unfold absorbed_idx in Habs. cbv zeta in Habs. rewrite Habs. cbn [negb andb variant_eqb].
  set (row := nth (length (tshape t) - 2) index full) in *. set (col := nth (length (tshape t) - 1) index full) in *.
  destruct row as [i|? ? ?|? ?]; destruct col as [j|? ? ?|? ?]; simpl in Hr, Hc;
    try apply negb_true_iff in Hr; try apply negb_true_iff in Hc;
    rewrite ?(int_as_slice_pinned_eq i Hr), ?(int_as_slice_pinned_eq j Hc); reflexivity.
Qed.

(* THE PINNED FRONT END, everything that is right about it: the code as it stands in the repository returns the torch
   result for every index in the quantifier unless (a) a matrix index is the python int -1 on the non-absorbed path,
   (b) a matrix index is a python int on the absorbed path, (c) the absorbed block has rank >= 2 and stays in place *)
Definition pinned_ok (nd : nat) (index : list item) : Prop :=
  let row := nth (nd - 2) index full in let col := nth (nd - 1) index full in
  if absorbed_idx nd index
  then is_int row = false /\ is_int col = false /\ (rank1_tensors index \/ is_moved_to_start index = true)
  else not_m1 row = true /\ not_m1 col = true.

Theorem getitem_pinned_partial : forall debug t idx index r,
  2 <= length (tshape t) -> Forall (fun n => 0 < n) (tshape t) ->
  spec_expand (length (tshape t)) idx = Some index ->
  in_quantifier (length (tshape t)) index = true ->
  pinned_ok (length (tshape t)) index ->
  torch_index t idx = Some r ->
  getitem_model Pinned debug t idx = Some r.
Proof.
  intros debug t idx index r Hnd Hpos Hexp Hq Hok Hspec. unfold pinned_ok in Hok. cbv zeta in Hok.
  destruct (absorbed_idx (length (tshape t)) index) eqn:A.
  - destruct Hok as (H1 & H2 & H3). eapply getitem_pinned_absorbed_partial; eassumption.
  - destruct Hok as (H1 & H2). rewrite (getitem_pinned_nonabsorbed_eq debug t idx index Hexp A H1 H2).
    eapply getitem_fixed_all; eassumption.
Qed.
