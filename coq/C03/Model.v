(* C03 — executable Gallina model (definitions only; everything computes under vm_compute).

   Part 1  Python semantics: floor div/mod, C fmod, slice.indices(n), len(range), negative-index wrap
   Part 2  dense tensors (shape, row-major data in Z), broadcasting, enumeration of multi-indices
   Part 3  SPEC: what torch does for  tensor[index]  on a dense tensor of any rank
   Part 4  transcription of linear_operator/utils/getitem.py
   Part 5  transcription of LinearOperator.__getitem__  (pinned code and repaired code)
   Part 6  per-class index arithmetic of _get_indices / _getitem / _diagonal

   Modelled by their mathematical meaning (not verified): torch.arange, Tensor.expand / reshape / view
   (row-major re-interpretation), Tensor.squeeze, torch.broadcast_shapes, torch.div(rounding_mode="floor"),
   Tensor.fmod (C remainder, sign of the dividend), Tensor.__getitem__ on the index tensors themselves. *)
From Coq Require Import List ZArith Bool Arith Lia.
Import ListNotations.
Open Scope Z_scope.

(* ===================================================================================== *)
(** * Part 1 — Python semantics *)

(* Python's // and % are floor division / modulo with the sign of the divisor: exactly Coq's Z.div / Z.modulo.
   torch.fmod is the C remainder (sign of the dividend): Z.rem. *)
Definition py_div (a b : Z) : Z := a / b.
Definition py_mod (a b : Z) : Z := a mod b.
Definition fmod (a b : Z) : Z := Z.rem a b.

Definition odefault (d : Z) (o : option Z) : Z := match o with Some x => x | None => d end.

(* slice(a, b, s).indices(n)  — CPython PySlice_Unpack + PySlice_AdjustIndices (step <> 0) *)
Definition slice_adjust (n step lo hi x : Z) : Z :=
  if x <? 0 then (if x + n <? 0 then lo else x + n)
  else if x >=? n then hi else x.

Definition slice_indices (a b s : option Z) (n : Z) : Z * Z * Z :=
  let st := odefault 1 s in
  let lo := if st <? 0 then -1 else 0 in
  let hi := if st <? 0 then n - 1 else n in
  let start := match a with None => if st <? 0 then hi else lo | Some x => slice_adjust n st lo hi x end in
  let stop := match b with None => if st <? 0 then lo else hi | Some x => slice_adjust n st lo hi x end in
  (start, stop, st).

(* len(range(a, b, s)) *)
Definition range_len (a b s : Z) : Z :=
  if 0 <? s then (if a <? b then (b - a - 1) / s + 1 else 0)
  else if s <? 0 then (if b <? a then (a - b - 1) / (- s) + 1 else 0)
  else 0.

(* number of elements selected by a slice on a dimension of size n *)
Definition slice_len (a b s : option Z) (n : Z) : Z :=
  let '(lo, hi, st) := slice_indices a b s n in range_len lo hi st.

(* x[i] for a Python int i on a dimension of size n: in range iff -n <= i < n; negative wraps *)
Definition in_range (n i : Z) : bool := (- n <=? i) && (i <? n).
Definition wrap (n i : Z) : Z := if i <? 0 then i + n else i.

(* ===================================================================================== *)
(** * Part 2 — dense tensors *)

Record tensor := mkT { tshape : list nat; tdata : list Z }.

Fixpoint prod (s : list nat) : nat := match s with [] => 1%nat | n :: r => (n * prod r)%nat end.

(* row-major offset of a multi-index *)
Fixpoint ravel (sh idx : list nat) : nat :=
  match sh, idx with
  | _ :: sh', i :: idx' => (i * prod sh' + ravel sh' idx')%nat
  | _, _ => 0%nat
  end.

(* multi-index of a row-major offset *)
Fixpoint unravel (sh : list nat) (k : nat) : list nat :=
  match sh with
  | [] => []
  | _ :: sh' => (k / prod sh')%nat :: unravel sh' (k mod prod sh')%nat
  end.

(* all multi-indices of a shape in row-major order *)
Fixpoint enum (sh : list nat) : list (list nat) :=
  match sh with
  | [] => [[]]
  | n :: r => flat_map (fun i => map (cons i) (enum r)) (seq 0 n)
  end.

(* torch.broadcast_shapes (no zero-size dimensions in the modelled domain) *)
Fixpoint bc_rev (a b : list nat) : option (list nat) :=
  match a, b with
  | [], _ => Some b
  | _, [] => Some a
  | x :: a', y :: b' =>
      match bc_rev a' b' with
      | None => None
      | Some r => if (x =? y)%nat then Some (x :: r)
                  else if (x =? 1)%nat then Some (y :: r)
                  else if (y =? 1)%nat then Some (x :: r) else None
      end
  end.
Definition bcast2 (a b : list nat) : option (list nat) := option_map (@rev nat) (bc_rev (rev a) (rev b)).
Fixpoint bcast_all (l : list (list nat)) (acc : list nat) : option (list nat) :=
  match l with
  | [] => Some acc
  | s :: r => match bcast2 acc s with None => None | Some a => bcast_all r a end
  end.

(* coordinates inside a tensor of shape sh of the element that broadcasting to shape B places at bc *)
Definition bidx (sh B bc : list nat) : list nat :=
  map (fun '(n, i) => if (n =? 1)%nat then 0%nat else i) (combine sh (skipn (length B - length sh) bc)).

Definition tget (t : tensor) (idx : list nat) : Z := nth (ravel (tshape t) idx) (tdata t) 0.
(* element that t contributes at position bc of the broadcast shape B *)
Definition tget_b (sh : list nat) (d : list Z) (B bc : list nat) : Z := nth (ravel sh (bidx sh B bc)) d 0.

Definition ok_tensor (t : tensor) : bool := (length (tdata t) =? prod (tshape t))%nat.

(* ===================================================================================== *)
(** * Part 3 — SPEC of tensor[index] in torch *)

(* normalised index items (one per dimension) *)
Inductive item :=
| IInt (i : Z)
| ISlice (a b s : option Z)
| ITensor (sh : list nat) (d : list Z).

(* what the user writes: items, one Ellipsis, python lists; a 0-d tensor is  RItem (ITensor [] [v]) *)
Inductive raw :=
| RItem (it : item)
| REllipsis
| RList (d : list Z).

Definition full : item := ISlice None None None.

Definition is_ell (r : raw) : bool := match r with REllipsis => true | _ => false end.

(* torch: 0-d integer tensors are applied as `select` (like ints); lists act as 1-d tensors *)
Definition raw_item (r : raw) : item :=
  match r with
  | RItem (ITensor [] [v]) => IInt v
  | RItem it => it
  | RList d => ITensor [length d] d
  | REllipsis => full
  end.

Fixpoint expand_ell (idx : list raw) (fill : nat) : list item :=
  match idx with
  | [] => []
  | REllipsis :: r => repeat full fill ++ expand_ell r fill
  | x :: r => raw_item x :: expand_ell r fill
  end.

(* one Ellipsis stands for as many full slices as needed; missing trailing indices are full slices *)
Definition spec_expand (rank : nat) (idx : list raw) : option (list item) :=
  let n_ell := length (filter is_ell idx) in
  let n_real := (length idx - n_ell)%nat in
  if (1 <? n_ell)%nat then None
  else if (rank <? n_real)%nat then None
  else let l := expand_ell idx (rank - n_real) in
       Some (l ++ repeat full (rank - length l)).

(* per-dimension plan *)
Inductive dplan :=
| PFix (i : nat)                            (* python int: fixed coordinate, no output dimension *)
| PSl (start step : Z) (len : nat)          (* slice: output dimension of size len *)
| PTe (sh : list nat) (d : list Z).         (* tensor index: joins the broadcast block *)

Definition plan_of (n : nat) (it : item) : option dplan :=
  let zn := Z.of_nat n in
  match it with
  | IInt i => if in_range zn i then Some (PFix (Z.to_nat (wrap zn i))) else None
  | ISlice a b s =>
      if odefault 1 s <=? 0 then None   (* torch: "slice step must be positive" *)
      else let '(lo, hi, st) := slice_indices a b s zn in Some (PSl lo st (Z.to_nat (range_len lo hi st)))
  | ITensor sh d =>
      if (length d =? prod sh)%nat && forallb (in_range zn) d then Some (PTe sh d) else None
  end.

Fixpoint plans_of (ns : list nat) (its : list item) : option (list dplan) :=
  match ns, its with
  | [], [] => Some []
  | n :: ns', it :: its' =>
      match plan_of n it, plans_of ns' its' with
      | Some p, Some r => Some (p :: r)
      | _, _ => None
      end
  | _, _ => None
  end.

Definition slens (ps : list dplan) : list nat :=
  flat_map (fun p => match p with PSl _ _ l => [l] | _ => [] end) ps.
Definition tshapes (ps : list dplan) : list (list nat) :=
  flat_map (fun p => match p with PTe sh _ => [sh] | _ => [] end) ps.
(* the index with python ints removed (torch applies them first): false = slice, true = tensor *)
Definition kinds (ps : list dplan) : list bool :=
  flat_map (fun p => match p with PFix _ => [] | PSl _ _ _ => [false] | PTe _ _ => [true] end) ps.

Fixpoint drop_while {A} (f : A -> bool) (l : list A) : list A :=
  match l with [] => [] | x :: r => if f x then drop_while f r else l end.
Fixpoint count_while {A} (f : A -> bool) (l : list A) : nat :=
  match l with [] => 0%nat | x :: r => if f x then S (count_while f r) else 0%nat end.
Definition idb (b : bool) : bool := b.

(* the tensor indices are adjacent: slices* tensors* slices* *)
Definition adjacent (k : list bool) : bool := forallb negb (drop_while idb (drop_while negb k)).
(* position of the broadcast block among the output dimensions: in place if adjacent, else in front *)
Definition block_pos (k : list bool) : nat := if adjacent k then count_while negb k else 0%nat.

Definition out_shape (ps : list dplan) (B : list nat) : list nat :=
  let p := block_pos (kinds ps) in
  let l := slens ps in firstn p l ++ B ++ skipn p l.

(* source coordinates (one per dimension of the indexed tensor) of the output element whose
   block coordinates are bc and whose slice coordinates are sc *)
Fixpoint src (ps : list dplan) (ns : list nat) (B bc sc : list nat) : list nat :=
  match ps, ns with
  | PFix i :: r, _ :: ns' => i :: src r ns' B bc sc
  | PSl st sp _ :: r, _ :: ns' => Z.to_nat (st + sp * Z.of_nat (hd 0%nat sc)) :: src r ns' B bc (tl sc)
  | PTe sh d :: r, n :: ns' => Z.to_nat (wrap (Z.of_nat n) (tget_b sh d B bc)) :: src r ns' B bc sc
  | _, _ => []
  end.

Definition split_out (p nb : nat) (oi : list nat) : list nat * list nat :=
  (firstn nb (skipn p oi), firstn p oi ++ skipn (p + nb) oi).

(* tensor[items] for normalised items (ints / slices / tensors, exactly one per dimension) *)
Definition torch_index_norm (t : tensor) (its : list item) : option tensor :=
  match plans_of (tshape t) its with
  | None => None
  | Some ps =>
      match bcast_all (tshapes ps) [] with
      | None => None
      | Some B =>
          let p := block_pos (kinds ps) in
          let osh := out_shape ps B in
          Some (mkT osh (map (fun oi => let '(bc, sc) := split_out p (length B) oi in
                                        tget t (src ps (tshape t) B bc sc)) (enum osh)))
      end
  end.

Definition torch_index (t : tensor) (idx : list raw) : option tensor :=
  match spec_expand (length (tshape t)) idx with
  | None => None
  | Some its => torch_index_norm t its
  end.

(* main diagonal of the last two dimensions:  torch.diagonal(x, dim1=-2, dim2=-1)  (square) *)
Definition spec_diagonal (t : tensor) : option tensor :=
  match rev (tshape t) with
  | n :: m :: rb =>
      if (n =? m)%nat then
        let osh := rev rb ++ [n] in
        Some (mkT osh (map (fun oi => tget t (oi ++ [last oi 0%nat])) (enum osh)))
      else None
  | _ => None
  end.

(* ===================================================================================== *)
(** * Part 4 — transcription of linear_operator/utils/getitem.py *)

Definition is_noop (it : item) : bool :=
  match it with ISlice None None None => true | _ => false end.
Definition is_tensor (it : item) : bool := match it with ITensor _ _ => true | _ => false end.
Definition is_slice (it : item) : bool := match it with ISlice _ _ _ => true | _ => false end.

(* state of the loop of _compute_getitem_size *)
Record cgs := mkCgs {
  c_final : list nat;            (* final_shape (in order) *)
  c_tidx : option nat;           (* tensor_idx *)
  c_tsh : list nat;              (* tensor_idx_shape (meaningful when c_tidx <> None) *)
  c_sat : bool }.                (* slice_after_tensor_idx *)

(* one iteration:  for i, (size, idx) in enumerate(zip(obj.shape, indices))  *)
Definition cgs_step (debug : bool) (st : cgs) (size : nat) (idx : item) : option cgs :=
  match idx with
  | ISlice a b s =>
      if (negb (is_noop idx)) && (odefault 1 s =? 0) then None     (* slice.indices: ValueError, step 0 *)
      else
      let len := if is_noop idx then size else Z.to_nat (slice_len a b s (Z.of_nat size)) in
      Some (mkCgs (c_final st ++ [len]) (c_tidx st) (c_tsh st)
                  (match c_tidx st with Some _ => true | None => c_sat st end))
  | IInt i =>
      if debug && negb (in_range (Z.of_nat size) i) then None       (* IndexError (debug mode only) *)
      else Some st
  | ITensor sh _ =>
      match c_tidx st with
      | None => Some (mkCgs (c_final st) (Some (length (c_final st))) sh (c_sat st))
      | Some ti =>
          match bcast2 (c_tsh st) sh with
          | None => None                                            (* IndexError: incompatible tensor indices *)
          | Some B => Some (mkCgs (c_final st) (if c_sat st then Some 0%nat else Some ti) B (c_sat st))
          end
      end
  end.

Fixpoint cgs_loop (debug : bool) (st : cgs) (shape : list nat) (idx : list item) : option cgs :=
  match shape, idx with
  | size :: shape', it :: idx' =>
      match cgs_step debug st size it with None => None | Some st' => cgs_loop debug st' shape' idx' end
  | _, _ => Some st          (* zip stops at the shorter one; equal lengths are checked before the loop *)
  end.

Definition compute_getitem_size (debug : bool) (shape : list nat) (idx : list item) : option (list nat) :=
  if negb (length shape =? length idx)%nat then None                (* RuntimeError: dimensionality *)
  else match cgs_loop debug (mkCgs [] None [] false) shape idx with
       | None => None
       | Some st =>
           match c_tidx st with
           | None => Some (c_final st)
           | Some ti => Some (firstn ti (c_final st) ++ c_tsh st ++ skipn ti (c_final st))
           end
       end.

(* _is_tensor_index_moved_to_start *)
Fixpoint mts_loop (has cont : bool) (idx : list item) : bool :=
  match idx with
  | [] => false
  | ITensor _ _ :: r => if negb has then mts_loop true cont r
                        else if negb cont then true else mts_loop has cont r
  | ISlice _ _ _ :: r => mts_loop has (if has then false else cont) r
  | IInt _ :: r => mts_loop has cont r
  end.
Definition is_moved_to_start (idx : list item) : bool :=
  match idx with
  | [] => false                              (* Python: IndexError on indices[0]; never called with () *)
  | it :: r => if is_tensor it then true else mts_loop false true r
  end.

(* _pad_with_singletons(t, before, after): shape (1,)*before + t.shape + (1,)*after, same data *)
Definition pad1 (sh : list nat) (before after : nat) : list nat := repeat 1%nat before ++ sh ++ repeat 1%nat after.

(* torch.arange(0, size)[slice]  as data *)
Definition arange_slice (a b s : option Z) (size : nat) : list Z :=
  let '(lo, hi, st) := slice_indices a b s (Z.of_nat size) in
  map (fun k => lo + Z.of_nat k * st) (seq 0 (Z.to_nat (range_len lo hi st))).

(* state of the loop of _convert_indices_to_tensors *)
Record cit := mkCit {
  k_before : nat; k_after : nat;                    (* num_singletons_before / _after *)
  k_bt : option nat; k_at : option nat }.           (* num_singletons_before_tensor / _after_tensor (None = Python None) *)

Definition odefault_nat (d : nat) (o : option nat) : nat := match o with Some x => x | None => d end.

Definition cit_step (nb : nat) (st : cit) (size : nat) (idx : item) : (list nat * list Z) * cit :=
  match idx with
  | ISlice a b s =>
      let after := (k_after st - 1)%nat in
      let d := arange_slice a b s size in
      ((pad1 [length d] (k_before st) after, d), mkCit (S (k_before st)) after (k_bt st) (k_at st))
  | IInt i => ((pad1 [] (k_before st) (k_after st), [i]), st)
  | ITensor sh d =>
      let st' := match k_bt st with
                 | None => let after := (k_after st - nb)%nat in
                           mkCit (k_before st + nb) after (Some (k_before st)) (Some after)
                 | Some _ => st
                 end in
      ((pad1 sh (odefault_nat 0 (k_bt st')) (odefault_nat 0 (k_at st')), d), st')
  end.

Fixpoint cit_loop (nb : nat) (st : cit) (shape : list nat) (idx : list item) : list (list nat * list Z) :=
  match shape, idx with
  | size :: shape', it :: idx' => let '(t, st') := cit_step nb st size it in t :: cit_loop nb st' shape' idx'
  | _, _ => []
  end.

Definition convert_indices_to_tensors (shape : list nat) (idx : list item) : option (list (list nat * list Z)) :=
  match bcast_all (flat_map (fun it => match it with ITensor sh _ => [sh] | _ => [] end) idx) [] with
  | None => None
  | Some tsh =>
      let nb := length tsh in
      let nfinal := (length (filter is_slice idx) + nb)%nat in
      let moved := is_moved_to_start idx in
      let st0 := if moved then mkCit nb (nfinal - nb) (Some 0%nat) (Some (nfinal - nb)%nat)
                 else mkCit 0 nfinal None None in
      Some (cit_loop nb st0 shape idx)
  end.

(* ===================================================================================== *)
(** * Part 5 — transcription of LinearOperator.__getitem__  (on an operator whose _getitem / _get_indices are
      those of DenseLinearOperator:  self.tensor[batch_indices + (row_index, col_index)]).

      v = Pinned : the code as it stands      v = Fixed : the repaired front end (proposed_fixes/C03-getitem-frontend) *)

Inductive variant := Pinned | Fixed.

Definition variant_eqb (a b : variant) : bool :=
  match a, b with Pinned, Pinned => true | Fixed, Fixed => true | _, _ => false end.

(* slice(i, i + 1, None)   /   slice(i, i + 1 or None, None) *)
Definition int_as_slice (v : variant) (i : Z) : item :=
  match v with
  | Pinned => ISlice (Some i) (Some (i + 1)) None
  | Fixed => ISlice (Some i) (if i + 1 =? 0 then None else Some (i + 1)) None
  end.

(* Tensor.squeeze(dim) for dim = -2 / -1 : removes that dimension iff it has size 1 (otherwise a no-op) *)
Definition squeeze_back (k : nat) (t : tensor) : tensor :=
  let sh := tshape t in
  let n := length sh in
  if (n <? k)%nat then t
  else let pos := (n - k)%nat in
       if (nth pos sh 0 =? 1)%nat then mkT (firstn pos sh ++ skipn (S pos) sh) (tdata t) else t.

(* idx.expand(B).reshape(-1) *)
Definition flatten_to (B : list nat) (it : item) : item :=
  match it with
  | ITensor sh d => ITensor [prod B] (map (fun bc => tget_b sh d B bc) (enum B))
  | _ => it
  end.

(* tensor[(t_1, ..., t_n)] with one (mutually broadcasting) index tensor per dimension — the all-tensor case
   of torch indexing, which is what DenseLinearOperator._get_indices evaluates *)
Definition gather (t : tensor) (ts : list (list nat * list Z)) : option tensor :=
  match bcast_all (map fst ts) [] with
  | None => None
  | Some B =>
      if forallb (fun '(n, (sh, d)) => (length d =? prod sh)%nat && forallb (in_range (Z.of_nat n)) d)
                 (combine (tshape t) ts) && (length ts =? length (tshape t))%nat
      then Some (mkT B (map (fun bc => tget t (map (fun '(n, (sh, d)) => Z.to_nat (wrap (Z.of_nat n) (tget_b sh d B bc)))
                                                  (combine (tshape t) ts))) (enum B)))
      else None
  end.

(* Tensor.view(new_shape): legal iff the element counts agree (tensors here are contiguous) *)
Definition view (t : tensor) (sh : list nat) : option tensor :=
  if (prod sh =? prod (tshape t))%nat then Some (mkT sh (tdata t)) else None.

Definition lnat_eqb' := fix f (a b : list nat) : bool :=
  match a, b with [], [] => true | x :: r, y :: s => Nat.eqb x y && f r s | _, _ => false end.

(* the front end, abstracted over the operator: its shape and the two methods __getitem__ calls —
   m_getitem     : self._getitem(row, col, *batch)  followed by to_dense (given the index list batch ++ [row; col]),
   m_get_indices : self._get_indices(row, col, *batch) (given one index tensor per dimension, batch first) *)
Definition getitem_front (v : variant) (debug : bool) (shape : list nat)
    (m_getitem : list item -> option tensor) (m_get_indices : list (list nat * list Z) -> option tensor)
    (raw_idx : list raw) : option tensor :=
  let nd := length (shape) in
  if (nd <? 2)%nat then None else
  (* ellipsis fill + padding (debug mode: more than one ellipsis is an error; without debug it is outside the domain) *)
  match spec_expand nd raw_idx with
  | None => None
  | Some index =>
      let batch := firstn (nd - 2) index in
      let row := nth (nd - 2) index full in
      let col := nth (nd - 1) index full in
      let bt := existsb is_tensor batch in
      let rt := is_tensor row in
      let ct := is_tensor col in
      let absorbed := (bt && (rt || ct)) || (negb bt && (rt && ct)) in
      let to_slice := match v with Pinned => true | Fixed => negb absorbed end in
      let sq_row := to_slice && match row with IInt _ => true | _ => false end in
      let sq_col := to_slice && match col with IInt _ => true | _ => false end in
      let row' := match row with IInt i => if to_slice then int_as_slice v i else row | _ => row end in
      let col' := match col with IInt i => if to_slice then int_as_slice v i else col | _ => col end in
      (* Fixed, absorbed: int indices stay ints and are made non-negative:  idx + size if idx < 0 *)
      let nonneg := fun (ns : list nat) (l : list item) =>
        map (fun '(n, it) => match it with IInt i => IInt (if i <? 0 then i + Z.of_nat n else i) | _ => it end) (combine ns l) in
      let orig := if absorbed && variant_eqb v Fixed then nonneg (shape) (batch ++ [row'; col']) else batch ++ [row'; col'] in
      let res :=
        if absorbed then
          match bcast_all (flat_map (fun it => match it with ITensor sh _ => [sh] | _ => [] end) orig) [] with
          | None => None
          | Some B =>
              let flat := map (flatten_to B) orig in
              match convert_indices_to_tensors (shape) flat with
              | None => None
              | Some ts =>
                  match m_get_indices ts with
                  | None => None
                  | Some r =>
                      if (1 <? length B)%nat then
                        let rs := tshape r in
                        if is_moved_to_start orig then view r (B ++ skipn 1 rs)
                        else match v with
                             | Pinned => view r (removelast rs ++ B)
                             | Fixed => let p := count_while is_slice
                                                   (filter (fun it => negb (match it with IInt _ => true | _ => false end)) orig) in
                                        view r (firstn p rs ++ B ++ skipn (S p) rs)
                             end
                      else Some r
                  end
              end
          end
        else m_getitem orig in
      match res with
      | None => None
      | Some r =>
          let r1 := if sq_row then squeeze_back 2 r else r in
          let r2 := if sq_col then squeeze_back 1 r1 else r1 in
          if debug then
            match compute_getitem_size debug (shape) index with
            | None => None
            | Some expected => if lnat_eqb' expected (tshape r2) then Some r2 else None
            end
          else Some r2
      end
  end.

(* ... over an operator whose _getitem / _get_indices are DenseLinearOperator's: torch indexing of its tensor *)
Definition getitem_model (v : variant) (debug : bool) (t : tensor) (raw_idx : list raw) : option tensor :=
  getitem_front v debug (tshape t) (torch_index_norm t) (gather t) raw_idx.

(* ===================================================================================== *)
(** * Part 6 — per-class index arithmetic of _get_indices / _getitem (element level: one (row, col) pair;
      the library applies the same arithmetic element-wise to index tensors) *)

(* --- ToeplitzLinearOperator._get_indices:  (row_index - col_index).fmod(self.size(-1)).abs() *)
Definition toeplitz_index (n r c : Z) : Z := Z.abs (fmod (r - c) n).

(* --- KroneckerProductLinearOperator._get_indices: running factor,  floor_div(idx, factor).fmod(sub_size) *)
Fixpoint kron_digits (sizes : list Z) (factor x : Z) : list Z :=
  match sizes with
  | [] => []
  | s :: r => let f := py_div factor s in fmod (py_div x f) s :: kron_digits r f x
  end.
Fixpoint zprod (l : list Z) : Z := match l with [] => 1 | x :: r => x * zprod r end.
(* factors are given by their entry functions; res = prod_k factor_k[row digit k, col digit k] *)
Fixpoint prod_entries (fs : list (Z -> Z -> Z)) (rd cd : list Z) : Z :=
  match fs, rd, cd with
  | f :: fs', r :: rd', c :: cd' => f r c * prod_entries fs' rd' cd'
  | _, _, _ => 1
  end.
Definition kron_get_indices (ms ns : list Z) (fs : list (Z -> Z -> Z)) (r c : Z) : Z :=
  prod_entries fs (kron_digits ms (zprod ms) r) (kron_digits ns (zprod ns) c).

(* --- BlockDiagLinearOperator._get_indices (base block size m x n; base b i j = entry (i, j) of block b) *)
Definition blockdiag_get_indices (m n : Z) (base : Z -> Z -> Z -> Z) (r c : Z) : Z :=
  let rb := py_div r m in let cb := py_div c n in
  base rb (fmod r m) (fmod c n) * (if rb =? cb then 1 else 0).

(* --- BlockInterleavedLinearOperator._get_indices (k = number of blocks) *)
Definition blockinterleaved_get_indices (k : Z) (base : Z -> Z -> Z -> Z) (r c : Z) : Z :=
  let rb := fmod r k in let cb := fmod c k in
  base rb (py_div r k) (py_div c k) * (if rb =? cb then 1 else 0).

(* --- BatchRepeatLinearOperator._get_indices:  batch_index.fmod(size)  *)
Definition batchrepeat_index (size b : Z) : Z := fmod b size.

(* --- DiagLinearOperator._get_indices:  diag[row] * (row == col) *)
Definition diag_get_indices (d : Z -> Z) (r c : Z) : Z := d r * (if r =? c then 1 else 0).

(* --- MaskedLinearOperator._get_indices:  torch.arange(n)[mask]  (positions of the True entries) *)
Fixpoint mask_positions (mask : list bool) (i : Z) : list Z :=
  match mask with [] => [] | b :: r => (if b then [i] else []) ++ mask_positions r (i + 1) end.

(* --- CatLinearOperator.__init__: cat_dim_cum_sizes, idx_to_tensor_idx *)
Fixpoint cum_sizes (sizes : list nat) (acc : nat) : list nat :=
  match sizes with [] => [acc] | s :: r => acc :: cum_sizes r (acc + s) end.
Fixpoint idx_table (sizes : list nat) (k : nat) : list nat :=
  match sizes with [] => [] | s :: r => repeat k s ++ idx_table r (S k) end.

(* CatLinearOperator._get_indices on the concatenated dimension: (component, index inside the component) *)
Definition cat_locate (sizes : list nat) (x : nat) : nat * nat :=
  let k := nth x (idx_table sizes 0) 0%nat in (k, (x - nth k (cum_sizes sizes 0) 0)%nat).

(* the run splitting of _get_indices / _getitem with a 1-d tensor on the concatenated dimension:
   maximal runs of consecutive entries that hit the same component *)
Fixpoint runs_aux (tbl : nat -> nat) (cur : nat) (acc : list nat) (l : list nat) : list (nat * list nat) :=
  match l with
  | [] => [(cur, rev acc)]
  | x :: r => if (tbl x =? cur)%nat then runs_aux tbl cur (x :: acc) r
              else (cur, rev acc) :: runs_aux tbl (tbl x) [x] r
  end.
Definition runs (tbl : nat -> nat) (l : list nat) : list (nat * list nat) :=
  match l with [] => [] | x :: r => runs_aux tbl (tbl x) [x] r end.

(* CatLinearOperator._split_slice for a step-less slice: the (component, local start, local stop) pieces.
   Pinned: start % cat_size, stop % cat_size.   Fixed: slice.indices(cat_size). *)
Definition split_bounds (v : variant) (a b : option Z) (size : Z) : Z * Z :=
  match v with
  | Pinned => (match a with Some x => py_mod x size | None => 0 end,
               match b with Some x => py_mod x size | None => size end)
  | Fixed => let '(lo, hi, _) := slice_indices a b None size in (lo, hi)
  end.

(* Python list indexing with a possibly negative int (torch tensor indexing of the 1-d helper tables) *)
Definition nth_py (l : list nat) (i : Z) : nat :=
  nth (Z.to_nat (wrap (Z.of_nat (length l)) i)) l 0%nat.

Definition split_slice (v : variant) (sizes : list nat) (a b : option Z) : list (nat * Z * Z) :=
  let total := Z.of_nat (fold_right Nat.add 0%nat sizes) in
  let '(start, stop) := split_bounds v a b total in
  let tbl := idx_table sizes 0 in
  let cum := cum_sizes sizes 0 in
  let first := nth_py tbl start in
  let last := nth_py tbl (stop - 1) in
  let fstart := start - Z.of_nat (nth first cum 0%nat) in
  let lstop := stop - Z.of_nat (nth last cum 0%nat) in
  if (last <? first)%nat then []        (* zip(range(first, last + 1), ...) is empty *)
  else if (first =? last)%nat then [(first, fstart, lstop)]
  else (first, fstart, Z.of_nat (nth first sizes 0%nat))
       :: map (fun k => (k, 0, Z.of_nat (nth k sizes 0%nat))) (seq (S first) (last - first - 1))
       ++ [(last, 0, lstop)].

(* --- InterpolatedLinearOperator._get_indices (element level, one (row, col) pair): with li / lv = left_interp_indices /
       _values[row] (length k), ri / rv = right_interp_indices / _values[col]:
         base_vals[b][a] = base[li[a], ri[b]],  interp_values[b][a] = lv[a] * rv[b],  res = (interp_values * base_vals).sum(-1).sum(-1).
       LinearOperator._get_indices (the default) is the instance k = 1, li = [row], ri = [col], lv = rv = [1]. *)
Fixpoint zsum_list (l : list Z) : Z := match l with [] => 0 | x :: r => x + zsum_list r end.
Fixpoint zsum_upto (n : nat) (f : Z -> Z) : Z :=
  match n with O => 0 | S k => zsum_upto k f + f (Z.of_nat k) end.
Definition interp_get_indices (K : Z -> Z -> Z) (li lv ri rv : list Z) : Z :=
  zsum_list (map (fun '(b, vb) => zsum_list (map (fun '(a, va) => va * vb * K a b) (combine li lv))) (combine ri rv)).

(* --- InterpolatedLinearOperator._diagonal, special case of a RootLinearOperator base with a dense root R (rank rk):
       left_interp(indices, values, R)[i, k] = sum_a values[i, a] * R[indices[i, a], k];
       diag[i] = (left_interp(left...) * left_interp(right...)).sum(-1) *)
Definition left_interp_row (R : Z -> Z -> Z) (idx vals : list Z) (k : Z) : Z :=
  zsum_list (map (fun '(a, va) => va * R a k) (combine idx vals)).
Definition interp_root_diag (R : Z -> Z -> Z) (rk : nat) (li lv ri rv : list Z) : Z :=
  zsum_upto rk (fun k => left_interp_row R li lv k * left_interp_row R ri rv k).
(* RootLinearOperator._get_indices: (root[row, :] * root[col, :]).sum(-1) *)
Definition root_get_indices (R : Z -> Z -> Z) (rk : nat) (r c : Z) : Z := zsum_upto rk (fun k => R r k * R c k).

(* --- MatmulLinearOperator._get_indices: (left[row, :] * right[:, col]).sum(-1), inner dimension of size k *)
Definition matmul_get_indices (L R : Z -> Z -> Z) (k : nat) (r c : Z) : Z := zsum_upto k (fun j => L r j * R j c).
(* --- SumBatchLinearOperator._get_indices: base._get_indices(row, col, *batch, block_index).sum(-1) over nb blocks *)
Definition sumbatch_get_indices (base : Z -> Z -> Z -> Z) (nb : nat) (r c : Z) : Z := zsum_upto nb (fun b => base b r c).

(* ===================================================================================== *)
(** * Part 7 — operators as dense denotations; what the front end needs from a class *)

(* the dense tensor of shape sh whose entry at coordinates x is f x *)
Definition tab (sh : list nat) (f : list nat -> Z) : tensor := mkT sh (map f (enum sh)).

(* a class's _get_indices that evaluates an entry formula f element-wise over the (broadcasting) index tensors:
   same validity checks and same broadcast shape as the gather of DenseLinearOperator._get_indices *)
Definition gi_elem (f : list nat -> Z) (ns : list nat) (ts : list (list nat * list Z)) : option tensor :=
  match bcast_all (map fst ts) [] with
  | None => None
  | Some B =>
      if forallb (fun '(n, (sh, d)) => (length d =? prod sh)%nat && forallb (in_range (Z.of_nat n)) d)
                 (combine ns ts) && (length ts =? length ns)%nat
      then Some (mkT B (map (fun bc => f (map (fun '(n, (sh, d)) => Z.to_nat (wrap (Z.of_nat n) (tget_b sh d B bc)))
                                              (combine ns ts))) (enum B)))
      else None
  end.

(* coordinates: batch part, row, column *)
Definition cb (x : list nat) : list nat := firstn (length x - 2) x.
Definition cr (x : list nat) : nat := nth (length x - 2) x 0%nat.
Definition cc (x : list nat) : nat := nth (length x - 1) x 0%nat.

(** class-level entry formulas of _get_indices over a full coordinate list x = batch ++ [row; col]; children are given by their
    own entry formulas (functions of THEIR coordinate lists), so the definitions nest exactly as the operators do *)
Definition zr (x : list nat) : Z := Z.of_nat (cr x).
Definition zc (x : list nat) : Z := Z.of_nat (cc x).

(* ToeplitzLinearOperator: self.column[( *batch_indices, (row - col).fmod(n).abs())] *)
Definition toeplitz_f (column : list nat -> Z) (n : nat) (x : list nat) : Z :=
  column (cb x ++ [Z.to_nat (toeplitz_index (Z.of_nat n) (zr x) (zc x))]).

(* KroneckerProductLinearOperator: factors (rows, cols, entry formula); running factor //= size, floor_div(.).fmod(size),
   the sub-results multiplied up *)
Definition kron_f (fs : list (nat * nat * (list nat -> Z))) (x : list nat) : Z :=
  let ms := map (fun f => Z.of_nat (fst (fst f))) fs in
  let ns := map (fun f => Z.of_nat (snd (fst f))) fs in
  let rd := kron_digits ms (zprod ms) (zr x) in
  let cd := kron_digits ns (zprod ns) (zc x) in
  fold_right Z.mul 1 (map (fun '(f, (r, c)) => snd f (cb x ++ [Z.to_nat r; Z.to_nat c])) (combine fs (combine rd cd))).

(* BlockDiagLinearOperator over a base of shape batch ++ [k; m; n]: base._get_indices(row.fmod(m), col.fmod(n), *batch, row // m) * (row // m == col // n) *)
Definition blockdiag_f (base : list nat -> Z) (m n : nat) (x : list nat) : Z :=
  let rb := py_div (zr x) (Z.of_nat m) in let cbk := py_div (zc x) (Z.of_nat n) in
  base (cb x ++ [Z.to_nat rb; Z.to_nat (fmod (zr x) (Z.of_nat m)); Z.to_nat (fmod (zc x) (Z.of_nat n))]) * (if rb =? cbk then 1 else 0).

(* BlockInterleavedLinearOperator (k blocks): base._get_indices(row // k, col // k, *batch, row.fmod(k)) * (row.fmod(k) == col.fmod(k)) *)
Definition blockinterleaved_f (base : list nat -> Z) (k : nat) (x : list nat) : Z :=
  let rb := fmod (zr x) (Z.of_nat k) in let cbk := fmod (zc x) (Z.of_nat k) in
  base (cb x ++ [Z.to_nat rb; Z.to_nat (py_div (zr x) (Z.of_nat k)); Z.to_nat (py_div (zc x) (Z.of_nat k))]) * (if rb =? cbk then 1 else 0).

(* BatchRepeatLinearOperator over a base with batch shape bbs: the LAST len(bbs) batch indices, each .fmod(size) *)
Definition batchrepeat_f (base : list nat -> Z) (bbs : list nat) (x : list nat) : Z :=
  let b := skipn (length (cb x) - length bbs) (cb x) in
  base (map (fun '(i, s) => Z.to_nat (fmod (Z.of_nat i) (Z.of_nat s))) (combine b bbs) ++ [cr x; cc x]).

(* DiagLinearOperator: self._diag[( *batch, row)] * (row == col) *)
Definition diag_f (d : list nat -> Z) (x : list nat) : Z := d (cb x ++ [cr x]) * (if zr x =? zc x then 1 else 0).

(* MaskedLinearOperator: base._get_indices(arange[row_mask][row], arange[col_mask][col], *batch) *)
Definition masked_f (base : list nat -> Z) (rmask cmask : list bool) (x : list nat) : Z :=
  base (cb x ++ [Z.to_nat (nth (cr x) (mask_positions rmask 0) 0); Z.to_nat (nth (cc x) (mask_positions cmask 0) 0)]).

(* Root / Matmul / SumBatch: an inner index arange(k) is appended, the children are read at (row, inner) / (inner, col) /
   (row, col, ..., block) and the last dimension is summed *)
Definition root_f (R : list nat -> Z) (k : nat) (x : list nat) : Z :=
  zsum_upto k (fun j => R (cb x ++ [cr x; Z.to_nat j]) * R (cb x ++ [cc x; Z.to_nat j])).
Definition matmul_f (L R : list nat -> Z) (k : nat) (x : list nat) : Z :=
  zsum_upto k (fun j => L (cb x ++ [cr x; Z.to_nat j]) * R (cb x ++ [Z.to_nat j; cc x])).
Definition sumbatch_f (base : list nat -> Z) (nb : nat) (x : list nat) : Z :=
  zsum_upto nb (fun b => base (cb x ++ [Z.to_nat b; cr x; cc x])).

(* Sum / Mul / ConstantMul (constant expanded to the batch shape and indexed with the batch indices) / Zero / Triangular *)
Definition sum_f (fs : list (list nat -> Z)) (x : list nat) : Z := fold_right Z.add 0 (map (fun f => f x) fs).
Definition mul_f (f g : list nat -> Z) (x : list nat) : Z := f x * g x.
Definition constmul_f (c base : list nat -> Z) (x : list nat) : Z := base x * c (cb x).
Definition zero_f (x : list nat) : Z := 0.

(* InterpolatedLinearOperator: li / lv / ri / rv give the interpolation indices / values of a (batch, row) resp. (batch, col) *)
Definition interp_f (base : list nat -> Z) (li lv ri rv : list nat -> list Z) (x : list nat) : Z :=
  interp_get_indices (fun a b => base (cb x ++ [Z.to_nat a; Z.to_nat b]))
    (li (cb x ++ [cr x])) (lv (cb x ++ [cr x])) (ri (cb x ++ [cc x])) (rv (cb x ++ [cc x])).

(* CatLinearOperator concatenated along dimension number dim (0-based, batch dimensions first) of components with sizes
   `sizes` there: component and local index from the idx_to_tensor_idx / cat_dim_cum_sizes tables *)
Definition set_nth {A} (l : list A) (k : nat) (v : A) : list A := firstn k l ++ v :: skipn (S k) l.
Definition cat_f (pieces : list (list nat -> Z)) (sizes : list nat) (dim : nat) (x : list nat) : Z :=
  let '(k, i) := cat_locate sizes (nth dim x 0%nat) in
  nth k pieces (fun _ => 0) (set_nth x dim i).

(** class-level formulas of _diagonal over a coordinate list y = batch ++ [i] *)
Definition db (y : list nat) : list nat := removelast y.
Definition di (y : list nat) : nat := last y 0%nat.
(* Toeplitz: column[..., 0] expanded *)
Definition toeplitz_dg (column : list nat -> Z) (y : list nat) : Z := column (db y ++ [0%nat]).
(* BlockDiag: base._diagonal() of shape batch ++ [k; m] viewed as batch ++ [k * m] *)
Definition blockdiag_dg (based : list nat -> Z) (m : nat) (y : list nat) : Z := based (db y ++ [(di y / m)%nat; (di y mod m)%nat]).
(* BlockInterleaved: base._diagonal().mT flattened *)
Definition blockinterleaved_dg (based : list nat -> Z) (k : nat) (y : list nat) : Z := based (db y ++ [(di y mod k)%nat; (di y / k)%nat]).
(* Root with a dense root: (root ** 2).sum(-1);  Matmul of two dense operators: (left * right.mT).sum(-1);
   Matmul with a Diag factor: left._diagonal() * right._diagonal();  SumBatch: base._diagonal().sum(-2) *)
Definition root_dg (R : list nat -> Z) (k : nat) (y : list nat) : Z :=
  zsum_upto k (fun j => R (db y ++ [di y; Z.to_nat j]) * R (db y ++ [di y; Z.to_nat j])).
Definition matmul_dense_dg (L R : list nat -> Z) (k : nat) (y : list nat) : Z :=
  zsum_upto k (fun j => L (db y ++ [di y; Z.to_nat j]) * R (db y ++ [Z.to_nat j; di y])).
Definition matmul_diag_dg (ld rd : list nat -> Z) (y : list nat) : Z := ld y * rd y.
Definition sumbatch_dg (based : list nat -> Z) (nb : nat) (y : list nat) : Z :=
  zsum_upto nb (fun b => based (db y ++ [Z.to_nat b; di y])).

(** tensor-level operations (executable) and class-level _getitem for basic indices: the index list is batch ++ [row; col]
    with slices in the two matrix positions; children are given by THEIR _getitem (followed by to_dense) *)
Definition tzip (f : Z -> Z -> Z) (a b : tensor) : option tensor :=
  if lnat_eqb' (tshape a) (tshape b) then Some (tab (tshape a) (fun x => f (tget a x) (tget b x))) else None.
(* a : bs ++ [m; k],  b : bs ++ [k; n]  (same batch shape) *)
Definition tmatmul (a b : tensor) : option tensor :=
  let sa := tshape a in let sb := tshape b in
  let bs := firstn (length sa - 2) sa in
  let m := nth (length sa - 2) sa 0%nat in let k := nth (length sa - 1) sa 0%nat in let n := nth (length sb - 1) sb 0%nat in
  if lnat_eqb' sb (bs ++ [k; n]) && (2 <=? length sa)%nat
  then Some (tab (bs ++ [m; n]) (matmul_f (tget a) (tget b) k)) else None.
(* a : bs ++ [nb; m; n]  summed over the block dimension *)
Definition tsumbatch (a : tensor) : option tensor :=
  let s := tshape a in
  if (3 <=? length s)%nat
  then Some (tab (firstn (length s - 3) s ++ skipn (length s - 2) s) (sumbatch_f (tget a) (nth (length s - 3) s 0%nat)))
  else None.
(* r : bs ++ [m; n] scaled by c : bs *)
Definition tconstmul (c r : tensor) : option tensor :=
  if lnat_eqb' (tshape c) (firstn (length (tshape r) - 2) (tshape r))
  then Some (tab (tshape r) (constmul_f (tget c) (tget r))) else None.

Definition ibatch (its : list item) : list item := firstn (length its - 2) its.
Definition irow (its : list item) : item := nth (length its - 2) its full.
Definition icol (its : list item) : item := nth (length its - 1) its full.

(* DenseLinearOperator._getitem: self.tensor[( *batch, row, col)] *)
Definition dense_getitem (t : tensor) (its : list item) : option tensor := torch_index_norm t its.
(* SumLinearOperator._getitem (two summands): SumLinearOperator(a._getitem(..), b._getitem(..)) *)
Definition sum_getitem (ga gb : list item -> option tensor) (its : list item) : option tensor :=
  match ga its, gb its with Some a, Some b => tzip Z.add a b | _, _ => None end.
(* MatmulLinearOperator._getitem: Matmul(left._getitem(row, :, *batch), right._getitem(:, col, *batch)) *)
Definition matmul_getitem (gl gr : list item -> option tensor) (its : list item) : option tensor :=
  match gl (ibatch its ++ [irow its; full]), gr (ibatch its ++ [full; icol its]) with
  | Some l, Some r => tmatmul l r | _, _ => None end.
(* SumBatchLinearOperator._getitem: SumBatch(base._getitem(row, col, *batch, :)) *)
Definition sumbatch_getitem (g : list item -> option tensor) (its : list item) : option tensor :=
  match g (ibatch its ++ [full; irow its; icol its]) with Some r => tsumbatch r | None => None end.
(* ConstantMulLinearOperator._getitem: base._getitem(..) with constant.expand(batch_shape)[batch_indices] *)
Definition constmul_getitem (c : tensor) (g : list item -> option tensor) (its : list item) : option tensor :=
  match g its, torch_index_norm c (ibatch its) with Some r, Some c' => tconstmul c' r | _, _ => None end.
(* ZeroLinearOperator._getitem: ZeroLinearOperator( *_compute_getitem_size(self, indices)) *)
Definition zero_getitem (shape : list nat) (its : list item) : option tensor :=
  option_map (fun sh => tab sh zero_f) (compute_getitem_size false shape its).

(* LinearOperator._getitem (the default, inherited by Toeplitz, Kronecker*, Diag, Triangular, Permutation, ...): unless both matrix
   indices are noop slices, it builds  InterpolatedLinearOperator(self, arange(m)[:, None], 1, arange(n)[:, None], 1)  and calls its
   _getitem: the base becomes  self._getitem(:, :, *batch)  (batch-only indexing: every component tensor indexed with the batch
   indices) and the unit-weight interpolation indices arange(m)[batch.., row] / arange(n)[batch.., col] select rows and columns of
   it, i.e. the batch-indexed operator indexed with full batch slices and (row, col).  g_batch_only is the class's batch-only _getitem. *)
Definition default_getitem (g_batch_only : list item -> option tensor) (its : list item) : option tensor :=
  match g_batch_only (ibatch its ++ [full; full]) with
  | None => None
  | Some t' => torch_index_norm t' (repeat full (length (tshape t') - 2) ++ [irow its; icol its])
  end.

(* RootLinearOperator._getitem (also Chol, LowRankRoot): Root(root._getitem(row, :, *batch)) when row == col, else
   Matmul(root._getitem(row, :, *batch), root._getitem(col, :, *batch).mT) — in both branches the dense result is  l @ r^T *)
Definition tmatmul_nt (a b : tensor) : option tensor :=
  let sa := tshape a in let sb := tshape b in
  let bs := firstn (length sa - 2) sa in
  let m := nth (length sa - 2) sa 0%nat in let k := nth (length sa - 1) sa 0%nat in let n := nth (length sb - 2) sb 0%nat in
  if lnat_eqb' sb (bs ++ [n; k]) && (2 <=? length sa)%nat
  then Some (tab (bs ++ [m; n]) (fun x => zsum_upto k (fun q => tget a (cb x ++ [cr x; Z.to_nat q]) * tget b (cb x ++ [cc x; Z.to_nat q]))))
  else None.
Definition root_getitem (g : list item -> option tensor) (its : list item) : option tensor :=
  match g (ibatch its ++ [irow its; full]), g (ibatch its ++ [icol its; full]) with
  | Some l, Some r => tmatmul_nt l r | _, _ => None end.
