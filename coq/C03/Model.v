(* C03 — executable Gallina model (definitions only; everything computes under vm_compute).

   Part 1  Python semantics: floor div/mod, C fmod, slice.indices(n), len(range), negative-index wrap
   Part 2  dense tensors (shape, row-major data in Z), broadcasting, enumeration of multi-indices
   Part 3  SPEC: what torch does for  tensor[index]  on a dense tensor of any rank
   Part 4  transcription of linear_operator/utils/getitem.py
   Part 5  transcription of LinearOperator.__getitem__  (pinned code and repaired code)
   Part 6  per-class index arithmetic of _get_indices / _getitem / _diagonal

   Modelled by their mathematical meaning (not verified): torch.arange, Tensor.expand / reshape / view
   (row-major re-interpretation), Tensor.squeeze, torch.broadcast_shapes, torch.div(rounding_mode="floor"),
   Tensor.fmod (C remainder, sign of the dividend), Tensor.__getitem__ on the index tensors themselves. *)
From Coq Require Import List ZArith Bool Arith Lia.
Import ListNotations.
Open Scope Z_scope.

(* ===================================================================================== *)
(** * Part 1 — Python semantics *)

(* Python's // and % are floor division / modulo with the sign of the divisor: exactly Coq's Z.div / Z.modulo.
   torch.fmod is the C remainder (sign of the dividend): Z.rem. *)
Definition py_div (a b : Z) : Z := a / b.
Definition py_mod (a b : Z) : Z := a mod b.
Definition fmod (a b : Z) : Z := Z.rem a b.

Definition odefault (d : Z) (o : option Z) : Z := match o with Some x => x | None => d end.

(* slice(a, b, s).indices(n)  — CPython PySlice_Unpack + PySlice_AdjustIndices (step <> 0) *)
Definition slice_adjust (n step lo hi x : Z) : Z :=
  if x <? 0 then (if x + n <? 0 then lo else x + n)
  else if x >=? n then hi else x.

Definition slice_indices (a b s : option Z) (n : Z) : Z * Z * Z :=
  let st := odefault 1 s in
  let lo := if st <? 0 then -1 else 0 in
  let hi := if st <? 0 then n - 1 else n in
  let start := match a with None => if st <? 0 then hi else lo | Some x => slice_adjust n st lo hi x end in
  let stop := match b with None => if st <? 0 then lo else hi | Some x => slice_adjust n st lo hi x end in
  (start, stop, st).

(* len(range(a, b, s)) *)
Definition range_len (a b s : Z) : Z :=
  if 0 <? s then (if a <? b then (b - a - 1) / s + 1 else 0)
  else if s <? 0 then (if b <? a then (a - b - 1) / (- s) + 1 else 0)
  else 0.

(* number of elements selected by a slice on a dimension of size n *)
Definition slice_len (a b s : option Z) (n : Z) : Z :=
  let '(lo, hi, st) := slice_indices a b s n in range_len lo hi st.

(* x[i] for a Python int i on a dimension of size n: in range iff -n <= i < n; negative wraps *)
Definition in_range (n i : Z) : bool := (- n <=? i) && (i <? n).
Definition wrap (n i : Z) : Z := if i <? 0 then i + n else i.

(* ===================================================================================== *)
(** * Part 2 — dense tensors *)

Record tensor := mkT { tshape : list nat; tdata : list Z }.

Fixpoint prod (s : list nat) : nat := match s with [] => 1%nat | n :: r => (n * prod r)%nat end.

(* row-major offset of a multi-index *)
Fixpoint ravel (sh idx : list nat) : nat :=
  match sh, idx with
  | _ :: sh', i :: idx' => (i * prod sh' + ravel sh' idx')%nat
  | _, _ => 0%nat
  end.

(* multi-index of a row-major offset *)
Fixpoint unravel (sh : list nat) (k : nat) : list nat :=
  match sh with
  | [] => []
  | _ :: sh' => (k / prod sh')%nat :: unravel sh' (k mod prod sh')%nat
  end.

(* all multi-indices of a shape in row-major order *)
Fixpoint enum (sh : list nat) : list (list nat) :=
  match sh with
  | [] => [[]]
  | n :: r => flat_map (fun i => map (cons i) (enum r)) (seq 0 n)
  end.

(* torch.broadcast_shapes (no zero-size dimensions in the modelled domain) *)
Fixpoint bc_rev (a b : list nat) : option (list nat) :=
  match a, b with
  | [], _ => Some b
  | _, [] => Some a
  | x :: a', y :: b' =>
      match bc_rev a' b' with
      | None => None
      | Some r => if (x =? y)%nat then Some (x :: r)
                  else if (x =? 1)%nat then Some (y :: r)
                  else if (y =? 1)%nat then Some (x :: r) else None
      end
  end.
Definition bcast2 (a b : list nat) : option (list nat) := option_map (@rev nat) (bc_rev (rev a) (rev b)).
Fixpoint bcast_all (l : list (list nat)) (acc : list nat) : option (list nat) :=
  match l with
  | [] => Some acc
  | s :: r => match bcast2 acc s with None => None | Some a => bcast_all r a end
  end.

(* coordinates inside a tensor of shape sh of the element that broadcasting to shape B places at bc *)
Definition bidx (sh B bc : list nat) : list nat :=
  map (fun '(n, i) => if (n =? 1)%nat then 0%nat else i) (combine sh (skipn (length B - length sh) bc)).

Definition tget (t : tensor) (idx : list nat) : Z := nth (ravel (tshape t) idx) (tdata t) 0.
(* element that t contributes at position bc of the broadcast shape B *)
Definition tget_b (sh : list nat) (d : list Z) (B bc : list nat) : Z := nth (ravel sh (bidx sh B bc)) d 0.

Definition ok_tensor (t : tensor) : bool := (length (tdata t) =? prod (tshape t))%nat.

(* ===================================================================================== *)
(** * Part 3 — SPEC of tensor[index] in torch *)

(* normalised index items (one per dimension) *)
Inductive item :=
| IInt (i : Z)
| ISlice (a b s : option Z)
| ITensor (sh : list nat) (d : list Z).

(* what the user writes: items, one Ellipsis, python lists; a 0-d tensor is  RItem (ITensor [] [v]) *)
Inductive raw :=
| RItem (it : item)
| REllipsis
| RList (d : list Z).

Definition full : item := ISlice None None None.

Definition is_ell (r : raw) : bool := match r with REllipsis => true | _ => false end.

(* torch: 0-d integer tensors are applied as `select` (like ints); lists act as 1-d tensors *)
Definition raw_item (r : raw) : item :=
  match r with
  | RItem (ITensor [] [v]) => IInt v
  | RItem it => it
  | RList d => ITensor [length d] d
  | REllipsis => full
  end.

Fixpoint expand_ell (idx : list raw) (fill : nat) : list item :=
  match idx with
  | [] => []
  | REllipsis :: r => repeat full fill ++ expand_ell r fill
  | x :: r => raw_item x :: expand_ell r fill
  end.

(* one Ellipsis stands for as many full slices as needed; missing trailing indices are full slices *)
Definition spec_expand (rank : nat) (idx : list raw) : option (list item) :=
  let n_ell := length (filter is_ell idx) in
  let n_real := (length idx - n_ell)%nat in
  if (1 <? n_ell)%nat then None
  else if (rank <? n_real)%nat then None
  else let l := expand_ell idx (rank - n_real) in
       Some (l ++ repeat full (rank - length l)).

(* per-dimension plan *)
Inductive dplan :=
| PFix (i : nat)                            (* python int: fixed coordinate, no output dimension *)
| PSl (start step : Z) (len : nat)          (* slice: output dimension of size len *)
| PTe (sh : list nat) (d : list Z).         (* tensor index: joins the broadcast block *)

Definition plan_of (n : nat) (it : item) : option dplan :=
  let zn := Z.of_nat n in
  match it with
  | IInt i => if in_range zn i then Some (PFix (Z.to_nat (wrap zn i))) else None
  | ISlice a b s =>
      if odefault 1 s <=? 0 then None   (* torch: "slice step must be positive" *)
      else let '(lo, hi, st) := slice_indices a b s zn in Some (PSl lo st (Z.to_nat (range_len lo hi st)))
  | ITensor sh d =>
      if (length d =? prod sh)%nat && forallb (in_range zn) d then Some (PTe sh d) else None
  end.

Fixpoint plans_of (ns : list nat) (its : list item) : option (list dplan) :=
  match ns, its with
  | [], [] => Some []
  | n :: ns', it :: its' =>
      match plan_of n it, plans_of ns' its' with
      | Some p, Some r => Some (p :: r)
      | _, _ => None
      end
  | _, _ => None
  end.

Definition slens (ps : list dplan) : list nat :=
  flat_map (fun p => match p with PSl _ _ l => [l] | _ => [] end) ps.
Definition tshapes (ps : list dplan) : list (list nat) :=
  flat_map (fun p => match p with PTe sh _ => [sh] | _ => [] end) ps.
(* the index with python ints removed (torch applies them first): false = slice, true = tensor *)
Definition kinds (ps : list dplan) : list bool :=
  flat_map (fun p => match p with PFix _ => [] | PSl _ _ _ => [false] | PTe _ _ => [true] end) ps.

Fixpoint drop_while {A} (f : A -> bool) (l : list A) : list A :=
  match l with [] => [] | x :: r => if f x then drop_while f r else l end.
Fixpoint count_while {A} (f : A -> bool) (l : list A) : nat :=
  match l with [] => 0%nat | x :: r => if f x then S (count_while f r) else 0%nat end.
Definition idb (b : bool) : bool := b.

(* the tensor indices are adjacent: slices* tensors* slices* *)
Definition adjacent (k : list bool) : bool := forallb negb (drop_while idb (drop_while negb k)).
(* position of the broadcast block among the output dimensions: in place if adjacent, else in front *)
Definition block_pos (k : list bool) : nat := if adjacent k then count_while negb k else 0%nat.

Definition out_shape (ps : list dplan) (B : list nat) : list nat :=
  let p := block_pos (kinds ps) in
  let l := slens ps in firstn p l ++ B ++ skipn p l.

(* source coordinates (one per dimension of the indexed tensor) of the output element whose
   block coordinates are bc and whose slice coordinates are sc *)
Fixpoint src (ps : list dplan) (ns : list nat) (B bc sc : list nat) : list nat :=
  match ps, ns with
  | PFix i :: r, _ :: ns' => i :: src r ns' B bc sc
  | PSl st sp _ :: r, _ :: ns' => Z.to_nat (st + sp * Z.of_nat (hd 0%nat sc)) :: src r ns' B bc (tl sc)
  | PTe sh d :: r, n :: ns' => Z.to_nat (wrap (Z.of_nat n) (tget_b sh d B bc)) :: src r ns' B bc sc
  | _, _ => []
  end.

Definition split_out (p nb : nat) (oi : list nat) : list nat * list nat :=
  (firstn nb (skipn p oi), firstn p oi ++ skipn (p + nb) oi).

(* tensor[items] for normalised items (ints / slices / tensors, exactly one per dimension) *)
Definition torch_index_norm (t : tensor) (its : list item) : option tensor :=
  match plans_of (tshape t) its with
  | None => None
  | Some ps =>
      match bcast_all (tshapes ps) [] with
      | None => None
      | Some B =>
          let p := block_pos (kinds ps) in
          let osh := out_shape ps B in
          Some (mkT osh (map (fun oi => let '(bc, sc) := split_out p (length B) oi in
                                        tget t (src ps (tshape t) B bc sc)) (enum osh)))
      end
  end.

Definition torch_index (t : tensor) (idx : list raw) : option tensor :=
  match spec_expand (length (tshape t)) idx with
  | None => None
  | Some its => torch_index_norm t its
  end.

(* main diagonal of the last two dimensions:  torch.diagonal(x, dim1=-2, dim2=-1)  (square) *)
Definition spec_diagonal (t : tensor) : option tensor :=
  match rev (tshape t) with
  | n :: m :: rb =>
      if (n =? m)%nat then
        let osh := rev rb ++ [n] in
        Some (mkT osh (map (fun oi => tget t (oi ++ [last oi 0%nat])) (enum osh)))
      else None
  | _ => None
  end.
