(* C03 — LinearOperator.__getitem__ (repaired front end) with BASIC indices (ints, slices, one Ellipsis; no tensor
   index) on an operator whose _getitem is torch indexing: the result is the torch result, for all ranks >= 2 *)
From Coq Require Import List ZArith Bool Arith Lia.
Import ListNotations.
Require Import C03.Model C03.Proofs C03.ProofsSlice C03.ProofsSize.
Open Scope nat_scope.

Definition basic (it : item) : bool := negb (is_tensor it).

(* ------------------------------------------------------------------------------------- *)
(** enumeration of multi-indices *)

Lemma flat_map_flat_map {A B C} (F : B -> list C) (G : A -> list B) s :
  flat_map F (flat_map G s) = flat_map (fun i => flat_map F (G i)) s.
Proof. induction s as [|i s IH]; [reflexivity|]. simpl. rewrite flat_map_app, IH. reflexivity. Qed.

Lemma flat_map_map {A B C} (F : B -> list C) (g : A -> B) l : flat_map F (map g l) = flat_map (fun x => F (g x)) l.
Proof. induction l as [|x l IH]; [reflexivity|]. simpl. rewrite IH. reflexivity. Qed.

Lemma map_flat_map {A B C} (h : B -> C) (F : A -> list B) l : map h (flat_map F l) = flat_map (fun x => map h (F x)) l.
Proof. induction l as [|x l IH]; [reflexivity|]. simpl. rewrite map_app, IH. reflexivity. Qed.

Lemma enum_app a b : enum (a ++ b) = flat_map (fun x => map (app x) (enum b)) (enum a).
Proof.
  induction a as [|n a IH].
  - simpl. rewrite app_nil_r. symmetry. apply (map_id (enum b)).
  - cbn [app enum]. rewrite IH. rewrite flat_map_flat_map.
    apply flat_map_ext. intros i. rewrite map_flat_map, flat_map_map.
    apply flat_map_ext. intros x. rewrite map_map. reflexivity.
Qed.

(* ------------------------------------------------------------------------------------- *)
(** plans over a split shape *)

Lemma plans_of_app ns1 : forall ns2 its1 its2, length ns1 = length its1 ->
  plans_of (ns1 ++ ns2) (its1 ++ its2) =
  match plans_of ns1 its1, plans_of ns2 its2 with Some a, Some b => Some (a ++ b) | _, _ => None end.
Proof.
  induction ns1 as [|n ns1 IH]; intros ns2 its1 its2 H; destruct its1 as [|it its1]; try discriminate.
  - simpl. destruct (plans_of ns2 its2); reflexivity.
  - simpl. destruct (plan_of n it); [|reflexivity]. rewrite IH by (simpl in H; lia).
    destruct (plans_of ns1 its1); [|reflexivity]. destruct (plans_of ns2 its2); reflexivity.
Qed.

Lemma slens_app a b : slens (a ++ b) = slens a ++ slens b.
Proof. unfold slens. apply flat_map_app. Qed.
Lemma tshapes_app a b : tshapes (a ++ b) = tshapes a ++ tshapes b.
Proof. unfold tshapes. apply flat_map_app. Qed.
Lemma kinds_app a b : kinds (a ++ b) = kinds a ++ kinds b.
Proof. unfold kinds. apply flat_map_app. Qed.

Definition no_te (p : dplan) : bool := match p with PTe _ _ => false | _ => true end.

Lemma basic_plans ns : forall its ps, plans_of ns its = Some ps -> forallb basic its = true -> forallb no_te ps = true.
Proof.
  induction ns as [|n ns IH]; destruct its as [|it its]; intros ps H Hb; simpl in H; try discriminate.
  - inversion H. reflexivity.
  - destruct (plan_of n it) as [p|] eqn:Ep; [|discriminate].
    destruct (plans_of ns its) as [r|] eqn:Er; [|discriminate]. inversion H; subst.
    simpl in Hb. apply andb_true_iff in Hb as [Hb1 Hb2]. simpl. rewrite (IH _ _ Er Hb2), andb_true_r.
    destruct it as [i|a b s|sh d]; simpl in Ep; try discriminate.
    + destruct (in_range (Z.of_nat n) i); inversion Ep; reflexivity.
    + destruct (odefault 1 s <=? 0)%Z; [discriminate|].
      destruct (slice_indices a b s (Z.of_nat n)) as [[lo hi] st]. inversion Ep; reflexivity.
Qed.

Lemma no_te_tshapes ps : forallb no_te ps = true -> tshapes ps = [].
Proof.
  induction ps as [|p r IH]; [reflexivity|]. simpl. intros H. apply andb_true_iff in H as [H1 H2].
  destruct p; try discriminate; simpl; apply IH; assumption.
Qed.

Lemma no_te_block_pos ps : forallb no_te ps = true -> block_pos (kinds ps) = length (slens ps).
Proof.
  intros H. unfold block_pos.
  assert (K : forall ps, forallb no_te ps = true -> forallb negb (kinds ps) = true /\ count_while negb (kinds ps) = length (slens ps)).
  { clear. induction ps as [|p r IH]; [split; reflexivity|]. simpl. intros H. apply andb_true_iff in H as [H1 H2].
    destruct (IH H2) as [I1 I2]. destruct p; try discriminate; simpl; auto. }
  destruct (K ps H) as [K1 K2].
  assert (A : adjacent (kinds ps) = true).
  { unfold adjacent. clear K2. induction (kinds ps) as [|b k IHk]; [reflexivity|].
    simpl in K1. apply andb_true_iff in K1 as [Kb Kk]. destruct b; [discriminate|]. simpl. apply IHk. assumption. }
  rewrite A. exact K2.
Qed.

(* with basic indices the result is: shape = slice lengths, element oi = source element at src ps oi *)
Definition basic_result (t : tensor) (ps : list dplan) : tensor :=
  mkT (slens ps) (map (fun oi => tget t (src ps (tshape t) [] [] oi)) (enum (slens ps))).

Lemma torch_index_norm_basic t its ps : plans_of (tshape t) its = Some ps -> forallb no_te ps = true ->
  torch_index_norm t its = Some (basic_result t ps).
Proof.
  intros Hp Hn. unfold torch_index_norm. rewrite Hp. rewrite (no_te_tshapes ps Hn). simpl bcast_all. cbv iota beta.
  unfold out_shape. rewrite (no_te_block_pos ps Hn). simpl app.
  rewrite firstn_all, skipn_all, app_nil_r. unfold basic_result. f_equal. f_equal.
  apply map_ext_in. intros oi Hin. unfold split_out. simpl firstn. rewrite Nat.add_0_r.
  assert (L : length oi = length (slens ps)).
  { clear -Hin. revert oi Hin. induction (slens ps) as [|n l IH]; intros oi Hin.
    - simpl in Hin. destruct Hin as [<-|[]]. reflexivity.
    - simpl in Hin. apply in_flat_map in Hin as [i [_ Hin]]. apply in_map_iff in Hin as [x [<- Hx]].
      simpl. f_equal. apply IH. assumption. }
  rewrite <- L, firstn_all, skipn_all, app_nil_r. reflexivity.
Qed.

(* ------------------------------------------------------------------------------------- *)
(** source coordinates over a split plan list *)

Lemma src_app psA : forall nsA psB nsB B bc sc, length psA = length nsA ->
  src (psA ++ psB) (nsA ++ nsB) B bc sc =
  src psA nsA B bc sc ++ src psB nsB B bc (skipn (length (slens psA)) sc).
Proof.
  induction psA as [|p psA IH]; intros nsA psB nsB B bc sc H; destruct nsA as [|n nsA]; try discriminate.
  - reflexivity.
  - simpl in H. injection H as H. destruct p as [i|st sp len|sh d]; simpl.
    + f_equal. apply IH. assumption.
    + f_equal. rewrite IH by assumption. f_equal. f_equal. destruct sc; [rewrite !skipn_nil; reflexivity|reflexivity].
    + f_equal. apply IH. assumption.
Qed.

Lemma enum_length l : forall oi, In oi (enum l) -> length oi = length l.
Proof.
  induction l as [|n l IH]; intros oi Hin.
  - simpl in Hin. destruct Hin as [<-|[]]. reflexivity.
  - simpl in Hin. apply in_flat_map in Hin as [i [_ Hin]]. apply in_map_iff in Hin as [x [<- Hx]].
    simpl. f_equal. apply IH. assumption.
Qed.

(* the plans of a prefix only consume as many slice coordinates as they have slices *)
Lemma src_prefix psA : forall nsA B bc x y, length x = length (slens psA) ->
  src psA nsA B bc (x ++ y) = src psA nsA B bc x.
Proof.
  induction psA as [|p psA IH]; intros nsA B bc x y H; [reflexivity|].
  destruct nsA as [|n nsA]; [destruct p; reflexivity|].
  destruct p as [i|st sp len|sh d]; simpl in *.
  - f_equal. apply IH. assumption.
  - destruct x as [|x0 x]; [discriminate|]. simpl in *. f_equal. apply IH. lia.
  - f_equal. apply IH. assumption.
Qed.

Lemma flat_map_ext_in' {A B} (f g : A -> list B) l : (forall x, In x l -> f x = g x) -> flat_map f l = flat_map g l.
Proof.
  induction l as [|x l IH]; intros H; [reflexivity|]. simpl. rewrite (H x (or_introl eq_refl)).
  f_equal. apply IH. intros y Hy. apply H. right. assumption.
Qed.

Lemma src_enum_tail (psB : list dplan) nsB tail tail' nsT : length psB = length nsB ->
  map (fun y => src tail' nsT [] [] y) (enum (slens tail')) = map (fun y => src tail nsT [] [] y) (enum (slens tail)) ->
  map (fun oi => src (psB ++ tail') (nsB ++ nsT) [] [] oi) (enum (slens (psB ++ tail'))) =
  map (fun oi => src (psB ++ tail) (nsB ++ nsT) [] [] oi) (enum (slens (psB ++ tail))).
Proof.
  intros Hlen Ht. rewrite !slens_app, !enum_app, !map_flat_map.
  apply flat_map_ext_in'. intros x Hx. pose proof (enum_length _ _ Hx) as Lx.
  rewrite !map_map.
  assert (E : forall tl (y : list nat), src (psB ++ tl) (nsB ++ nsT) [] [] (x ++ y) =
                                        src psB nsB [] [] x ++ src tl nsT [] [] y).
  { intros tl y. rewrite src_app by assumption. rewrite src_prefix by assumption.
    f_equal. f_equal. rewrite skipn_app, <- Lx, skipn_all, Nat.sub_diag. reflexivity. }
  rewrite (map_ext _ _ (E tail')), (map_ext _ _ (E tail)).
  rewrite <- (map_map (fun y => src tail' nsT [] [] y) (app (src psB nsB [] [] x))).
  rewrite <- (map_map (fun y => src tail nsT [] [] y) (app (src psB nsB [] [] x))).
  rewrite Ht. reflexivity.
Qed.

(* ------------------------------------------------------------------------------------- *)
(** the last two plans: an int plan vs the unit-slice plan __getitem__ turns it into *)

Definition unit_slice (p : dplan) : dplan := match p with PFix i => PSl (Z.of_nat i) 1 1 | _ => p end.

Lemma enum_single n : enum [n] = map (fun i => [i]) (seq 0 n).
Proof. simpl. induction (seq 0 n) as [|i s IH]; [reflexivity|]. simpl. rewrite IH. reflexivity. Qed.

Lemma enum_pair_unit n : enum [n; 1] = map (fun i => [i; 0]) (seq 0 n).
Proof. simpl. induction (seq 0 n) as [|i s IH]; [reflexivity|]. simpl. rewrite IH. reflexivity. Qed.

Lemma tail_unit pr pc nr nc : no_te pr = true -> no_te pc = true ->
  map (fun y => src [unit_slice pr; unit_slice pc] [nr; nc] [] [] y) (enum (slens [unit_slice pr; unit_slice pc])) =
  map (fun y => src [pr; pc] [nr; nc] [] [] y) (enum (slens [pr; pc])).
Proof.
  intros Hr Hc. destruct pr as [i|rs rp rl|? ?]; try discriminate; destruct pc as [j|cs cp cl|? ?]; try discriminate.
  - (* int, int *) simpl. rewrite ?Z.mul_0_r, !Z.add_0_r, !Nat2Z.id. reflexivity.
  - (* int, slice *)
    change (slens [unit_slice (PFix i); unit_slice (PSl cs cp cl)]) with [1; cl].
    change (slens [PFix i; PSl cs cp cl]) with [cl].
    change (enum [1; cl]) with (map (cons 0) (enum [cl]) ++ []). rewrite app_nil_r, map_map.
    apply map_ext. intros y. simpl. rewrite ?Z.mul_0_r, ?Z.add_0_r, Nat2Z.id. reflexivity.
  - (* slice, int *)
    change (slens [unit_slice (PSl rs rp rl); unit_slice (PFix j)]) with [rl; 1].
    change (slens [PSl rs rp rl; PFix j]) with [rl].
    rewrite enum_pair_unit, enum_single, !map_map. apply map_ext. intros y. simpl.
    rewrite ?Z.mul_0_r, ?Z.add_0_r, Nat2Z.id. reflexivity.
  - reflexivity.
Qed.

Lemma list_split_last2 {A} (d : A) (l : list A) n : length l = n -> 2 <= n ->
  l = firstn (n - 2) l ++ [nth (n - 2) l d; nth (n - 1) l d].
Proof.
  intros H Hn. rewrite <- (firstn_skipn (n - 2) l) at 1. f_equal.
  assert (L : length (skipn (n - 2) l) = 2) by (rewrite skipn_length; lia).
  destruct (skipn (n - 2) l) as [|a [|b [|c r]]] eqn:E; try discriminate.
  assert (Ha : nth (n - 2) l d = a).
  { rewrite <- (firstn_skipn (n - 2) l) at 1. rewrite app_nth2 by (rewrite firstn_length; lia).
    rewrite firstn_length, Nat.min_l by lia. rewrite Nat.sub_diag, E. reflexivity. }
  assert (Hb : nth (n - 1) l d = b).
  { rewrite <- (firstn_skipn (n - 2) l) at 1. rewrite app_nth2 by (rewrite firstn_length; lia).
    rewrite firstn_length, Nat.min_l by lia. replace (n - 1 - (n - 2)) with 1 by lia. rewrite E. reflexivity. }
  rewrite Ha, Hb. reflexivity.
Qed.

(* what the repaired __getitem__ does to a row / column item *)
Definition to_slice_item (it : item) : item := match it with IInt i => int_as_slice Fixed i | _ => it end.

Lemma plan_to_slice n it p : basic it = true -> plan_of n it = Some p ->
  plan_of n (to_slice_item it) = Some (unit_slice p).
Proof.
  intros Hb Hp. destruct it as [i|a b s|sh d]; try discriminate.
  - simpl in Hp. destruct (in_range (Z.of_nat n) i) eqn:E; [|discriminate]. inversion Hp; subst.
    destruct (plan_int_as_slice_fixed n i E) as [_ H]. unfold to_slice_item. rewrite H. simpl.
    pose proof (wrap_in_range _ _ E). rewrite Z2Nat.id by lia. reflexivity.
  - simpl to_slice_item. rewrite Hp. f_equal.
    simpl in Hp. destruct (odefault 1 s <=? 0)%Z; [discriminate|].
    destruct (slice_indices a b s (Z.of_nat n)) as [[lo hi] st]. inversion Hp. reflexivity.
Qed.

(* ------------------------------------------------------------------------------------- *)
(** squeeze(-2) / squeeze(-1) on the shapes that occur *)

Lemma firstn_app_exact {A} (l r : list A) : firstn (length l) (l ++ r) = l.
Proof. rewrite firstn_app, firstn_all, Nat.sub_diag. simpl. apply app_nil_r. Qed.
Lemma skipn_app_exact {A} (l r : list A) k : skipn (length l + k) (l ++ r) = skipn k r.
Proof. rewrite skipn_app. rewrite skipn_all2 by lia. simpl. f_equal. lia. Qed.

Lemma squeeze_back_unit2 l x d : squeeze_back 2 (mkT (l ++ [1; x]) d) = mkT (l ++ [x]) d.
Proof.
  unfold squeeze_back. simpl tshape. simpl tdata. rewrite app_length. simpl length.
  replace (length l + 2 <? 2) with false by (symmetry; apply Nat.ltb_ge; lia).
  replace (length l + 2 - 2) with (length l) by lia.
  rewrite app_nth2 by lia. rewrite Nat.sub_diag. simpl nth. simpl Nat.eqb. cbv iota.
  rewrite firstn_app_exact. replace (S (length l)) with (length l + 1) by lia. rewrite skipn_app_exact. reflexivity.
Qed.

Lemma squeeze_back_unit1 l d : squeeze_back 1 (mkT (l ++ [1]) d) = mkT l d.
Proof.
  unfold squeeze_back. simpl tshape. simpl tdata. rewrite app_length. simpl length.
  replace (length l + 1 <? 1) with false by (symmetry; apply Nat.ltb_ge; lia).
  replace (length l + 1 - 1) with (length l) by lia.
  rewrite app_nth2 by lia. rewrite Nat.sub_diag. simpl nth. simpl Nat.eqb. cbv iota.
  rewrite firstn_app_exact. replace (S (length l)) with (length l + 1) by lia. rewrite skipn_app_exact.
  simpl. rewrite app_nil_r. reflexivity.
Qed.

Lemma squeeze_back_unit1' l y d : squeeze_back 1 (mkT (l ++ [y; 1]) d) = mkT (l ++ [y]) d.
Proof.
  replace (l ++ [y; 1]) with ((l ++ [y]) ++ [1]) by (rewrite <- app_assoc; reflexivity).
  apply squeeze_back_unit1.
Qed.

(* ------------------------------------------------------------------------------------- *)
(** main theorem *)

Lemma basic_existsb l : forallb basic l = true -> existsb is_tensor l = false.
Proof.
  induction l as [|x l IH]; [reflexivity|]. simpl. intros H. apply andb_true_iff in H as [H1 H2].
  unfold basic in H1. apply negb_true_iff in H1. rewrite H1, (IH H2). reflexivity.
Qed.

Lemma plans_of_length_ps ns : forall its ps, plans_of ns its = Some ps -> length ps = length ns.
Proof.
  induction ns as [|n l IH]; destruct its as [|it its]; simpl; intros ps H; try discriminate.
  - inversion H. reflexivity.
  - destruct (plan_of n it); [|discriminate]. destruct (plans_of l its) eqn:E; [|discriminate].
    inversion H. simpl. f_equal. eapply IH. exact E.
Qed.

Theorem getitem_fixed_basic : forall t idx index r,
  2 <= length (tshape t) ->
  spec_expand (length (tshape t)) idx = Some index ->
  forallb basic index = true ->
  torch_index t idx = Some r ->
  getitem_model Fixed false t idx = Some r.
Proof.
  intros t idx index r Hnd Hexp Hbasic Hspec.
  unfold torch_index in Hspec. rewrite Hexp in Hspec.
  destruct (plans_of (tshape t) index) as [ps|] eqn:Hp; [|unfold torch_index_norm in Hspec; rewrite Hp in Hspec; discriminate].
  pose proof (plans_of_length _ _ _ Hp) as Hlen.
  pose proof (basic_plans _ _ _ Hp Hbasic) as Hnte.
  rewrite (torch_index_norm_basic t index ps Hp Hnte) in Hspec. injection Hspec as <-.
  set (nd := length (tshape t)) in *.
  (* split shape and index into batch part and (row, col) *)
  pose proof (list_split_last2 full index nd (eq_sym Hlen) Hnd) as Di.
  pose proof (list_split_last2 0 (tshape t) nd eq_refl Hnd) as Ds.
  set (batch := firstn (nd - 2) index) in *. set (row := nth (nd - 2) index full) in *. set (col := nth (nd - 1) index full) in *.
  set (nsB := firstn (nd - 2) (tshape t)) in *. set (nr := nth (nd - 2) (tshape t) 0) in *. set (nc := nth (nd - 1) (tshape t) 0) in *.
  assert (LB : length nsB = length batch).
  { unfold nsB, batch. rewrite !firstn_length. fold nd. rewrite <- Hlen. reflexivity. }
  rewrite Ds, Di in Hp. rewrite plans_of_app in Hp by assumption.
  destruct (plans_of nsB batch) as [psB|] eqn:HpB; [|discriminate].
  simpl plans_of in Hp.
  destruct (plan_of nr row) as [pr|] eqn:Hpr; [|discriminate].
  destruct (plan_of nc col) as [pc|] eqn:Hpc; [|discriminate]. injection Hp as <-.
  rewrite Di in Hbasic. rewrite forallb_app in Hbasic. apply andb_true_iff in Hbasic as [HbB Hbrc].
  simpl in Hbrc. apply andb_true_iff in Hbrc as [Hbr Hbc]. rewrite andb_true_r in Hbc.
  rewrite forallb_app in Hnte. apply andb_true_iff in Hnte as [HnB Hnrc].
  simpl in Hnrc. apply andb_true_iff in Hnrc as [Hnr Hnc]. rewrite andb_true_r in Hnc.
  (* the library side *)
  unfold getitem_model, getitem_front. fold nd. replace (nd <? 2) with false by (symmetry; apply Nat.ltb_ge; lia).
  rewrite Hexp. fold batch row col.
  rewrite (basic_existsb batch HbB).
  assert (Er : is_tensor row = false) by (unfold basic in Hbr; apply negb_true_iff in Hbr; exact Hbr).
  assert (Ec : is_tensor col = false) by (unfold basic in Hbc; apply negb_true_iff in Hbc; exact Hbc).
  rewrite Er, Ec. simpl orb. simpl andb. simpl negb. cbv iota.
  change (match row with IInt i => int_as_slice Fixed i | _ => row end) with (to_slice_item row).
  change (match col with IInt i => int_as_slice Fixed i | _ => col end) with (to_slice_item col).
  (* plans of the rewritten index *)
  assert (Hp' : plans_of (tshape t) (batch ++ [to_slice_item row; to_slice_item col]) =
                Some (psB ++ [unit_slice pr; unit_slice pc])).
  { rewrite Ds at 1. rewrite plans_of_app by assumption. rewrite HpB. simpl plans_of.
    rewrite (plan_to_slice nr row pr Hbr Hpr), (plan_to_slice nc col pc Hbc Hpc). reflexivity. }
  assert (Hn' : forallb no_te (psB ++ [unit_slice pr; unit_slice pc]) = true).
  { rewrite forallb_app, HnB. simpl. destruct pr, pc; try discriminate; reflexivity. }
  rewrite (torch_index_norm_basic t _ _ Hp' Hn').
  (* same data *)
  pose proof (plans_of_length_ps _ _ _ HpB) as LpB.
  assert (Data : map (fun oi => tget t (src (psB ++ [unit_slice pr; unit_slice pc]) (tshape t) [] [] oi))
                     (enum (slens (psB ++ [unit_slice pr; unit_slice pc]))) =
                 map (fun oi => tget t (src (psB ++ [pr; pc]) (tshape t) [] [] oi)) (enum (slens (psB ++ [pr; pc])))).
  { rewrite <- (map_map (fun oi => src (psB ++ [unit_slice pr; unit_slice pc]) (tshape t) [] [] oi) (tget t)).
    rewrite <- (map_map (fun oi => src (psB ++ [pr; pc]) (tshape t) [] [] oi) (tget t)).
    f_equal. rewrite Ds. apply src_enum_tail; [assumption|]. apply tail_unit; assumption. }
  unfold basic_result. rewrite Data. rewrite !slens_app.
  (* shapes and squeezes, by cases on row / col being ints *)
  destruct row as [i|ra rb rs|? ?]; try discriminate; destruct col as [j|ca cb cs|? ?]; try discriminate;
    simpl in Hpr, Hpc.
  - destruct (in_range (Z.of_nat nr) i); [|discriminate]. destruct (in_range (Z.of_nat nc) j); [|discriminate].
    injection Hpr as <-. injection Hpc as <-. simpl slens. simpl andb. cbv iota.
    rewrite squeeze_back_unit2, squeeze_back_unit1, app_nil_r. reflexivity.
  - destruct (in_range (Z.of_nat nr) i); [|discriminate]. injection Hpr as <-.
    destruct (odefault 1 cs <=? 0)%Z; [discriminate|].
    destruct (slice_indices ca cb cs (Z.of_nat nc)) as [[lo hi] st]. injection Hpc as <-.
    simpl slens. simpl andb. cbv iota. rewrite squeeze_back_unit2. reflexivity.
  - destruct (in_range (Z.of_nat nc) j); [|discriminate]. injection Hpc as <-.
    destruct (odefault 1 rs <=? 0)%Z; [discriminate|].
    destruct (slice_indices ra rb rs (Z.of_nat nr)) as [[lo hi] st]. injection Hpr as <-.
    simpl slens. simpl andb. cbv iota.
    rewrite squeeze_back_unit1'. reflexivity.
  - destruct (odefault 1 rs <=? 0)%Z; [discriminate|].
    destruct (slice_indices ra rb rs (Z.of_nat nr)) as [[lo hi] st]. injection Hpr as <-.
    destruct (odefault 1 cs <=? 0)%Z; [discriminate|].
    destruct (slice_indices ca cb cs (Z.of_nat nc)) as [[lo' hi'] st']. injection Hpc as <-.
    simpl. reflexivity.
Qed.

(* the pinned front end differs from the repaired one, on basic indices, only through an int -1 in a matrix position *)
Definition not_m1 (it : item) : bool := match it with IInt i => negb (i =? -1)%Z | _ => true end.

Lemma int_as_slice_pinned_eq i : (i =? -1)%Z = false -> int_as_slice Pinned i = int_as_slice Fixed i.
Proof.
  intros H. unfold int_as_slice. apply Z.eqb_neq in H.
  destruct (i + 1 =? 0)%Z eqn:E; [apply Z.eqb_eq in E; lia|reflexivity].
Qed.

Theorem getitem_pinned_basic_partial : forall t idx index r,
  2 <= length (tshape t) ->
  spec_expand (length (tshape t)) idx = Some index ->
  forallb basic index = true ->
  not_m1 (nth (length (tshape t) - 2) index full) = true ->
  not_m1 (nth (length (tshape t) - 1) index full) = true ->
  torch_index t idx = Some r ->
  getitem_model Pinned false t idx = Some r.
Proof.
  intros t idx index r Hnd Hexp Hbasic Hr Hc Hspec.
  rewrite <- (getitem_fixed_basic t idx index r Hnd Hexp Hbasic Hspec).
  unfold getitem_model, getitem_front. set (nd := length (tshape t)) in *.
  destruct (nd <? 2); [reflexivity|]. rewrite Hexp.
  set (batch := firstn (nd - 2) index). set (row := nth (nd - 2) index full) in *. set (col := nth (nd - 1) index full) in *.
  assert (HbB : forallb basic batch = true).
  { unfold batch. clear -Hbasic. revert Hbasic. generalize (nd - 2). intros k. revert k.
    induction index as [|x l IH]; intros k H; destruct k; simpl; auto.
    simpl in H. apply andb_true_iff in H as [H1 H2]. rewrite H1. simpl. apply IH. assumption. }
  assert (Hrow : basic row = true /\ basic col = true).
  { assert (G : forall k, basic (nth k index full) = true).
    { clear -Hbasic. induction index as [|x l IH]; intros k; destruct k; simpl; auto.
      - simpl in Hbasic. apply andb_true_iff in Hbasic as [H _]. exact H.
      - apply IH. simpl in Hbasic. apply andb_true_iff in Hbasic as [_ H]. exact H. }
    split; apply G. }
  destruct Hrow as [Hbr Hbc].
  rewrite (basic_existsb batch HbB).
  assert (Er : is_tensor row = false) by (unfold basic in Hbr; apply negb_true_iff in Hbr; exact Hbr).
  assert (Ec : is_tensor col = false) by (unfold basic in Hbc; apply negb_true_iff in Hbc; exact Hbc).
  rewrite Er, Ec. simpl orb. simpl andb. simpl negb. cbv iota.
  destruct row as [i|? ? ?|? ?]; try discriminate; destruct col as [j|? ? ?|? ?]; try discriminate;
    simpl in Hr, Hc; try apply negb_true_iff in Hr; try apply negb_true_iff in Hc;
    rewrite ?(int_as_slice_pinned_eq i Hr), ?(int_as_slice_pinned_eq j Hc); reflexivity.
Qed.
