(* C03 — the contract between LinearOperator.__getitem__ and an operator class, and its composition with the front-end theorems:
     _getitem(row, col, *batch)      must denote torch indexing of the dense matrix with  batch ++ [row; col]
     _get_indices(row, col, *batch)  must be the gather of the dense matrix
   A class meeting the contract for a dense matrix t gets  op[index] = t[index]  from C03_getitem_fixed. *)
From Coq Require Import List ZArith Bool Arith Lia.
Import ListNotations.
Require Import C03.Model C03.Proofs C03.ProofsSlice C03.ProofsSize C03.ProofsFront C03.ProofsFront2 C03.ProofsGather
  C03.ProofsAbsorbed C03.ProofsLone C03.ProofsPinned.
Open Scope nat_scope.

(* ------------------------------------------------------------------------------------- *)
(** tabulated tensors *)

Lemma in_enum ns : forall x, Forall2 (fun i n => i < n) x ns -> In x (enum ns).
Proof.
  induction ns as [|n ns IH]; intros x H; inversion H; subst; [left; reflexivity|].
  simpl. apply in_flat_map. exists x0. split; [apply in_seq; lia|]. apply in_map. apply IH. assumption.
Qed.

Lemma enum_forall2 ns : forall x, In x (enum ns) -> Forall2 (fun i n => i < n) x ns.
Proof.
  induction ns as [|n ns IH]; intros x H.
  - simpl in H. destruct H as [<-|[]]. constructor.
  - simpl in H. apply in_flat_map in H as [i [Hi H]]. apply in_map_iff in H as [y [<- Hy]]. apply in_seq in Hi.
    constructor; [lia|]. apply IH. assumption.
Qed.

Lemma tget_tab sh f x : In x (enum sh) -> tget (tab sh f) x = f x.
Proof. intros H. unfold tget, tab. simpl. apply (nth_ravel_enum f sh x 0%Z H). Qed.

Lemma tab_ext sh f g : (forall x, In x (enum sh) -> f x = g x) -> tab sh f = tab sh g.
Proof. intros H. unfold tab. f_equal. apply map_ext_in. exact H. Qed.

Lemma map_nth_seq {A} (l : list A) d : map (fun k => nth k l d) (seq 0 (length l)) = l.
Proof.
  induction l as [|a l IH]; [reflexivity|]. simpl. f_equal. rewrite <- seq_shift, map_map. exact IH.
Qed.

(* every well-formed tensor is the tabulation of its own entries *)
Lemma tab_tget t : ok_tensor t = true -> tab (tshape t) (tget t) = t.
Proof.
  destruct t as [sh d]. unfold ok_tensor, tab, tget. simpl. intros H. apply Nat.eqb_eq in H. f_equal.
  rewrite <- (map_map (ravel sh) (fun k => nth k d 0%Z)), ravel_enum, <- H. apply map_nth_seq.
Qed.

(* ------------------------------------------------------------------------------------- *)
(** _get_indices: an element-wise entry formula is the gather of the tabulated matrix *)

Lemma coords_valid ns : forall ts B bc, Forall (fun n => 0 < n) ns -> length ts = length ns ->
  forallb (fun '(n, (sh, d)) => (length d =? prod sh) && forallb (in_range (Z.of_nat n)) d) (combine ns ts) = true ->
  In (map (fun '(n, (sh, d)) => Z.to_nat (wrap (Z.of_nat n) (tget_b sh d B bc))) (combine ns ts)) (enum ns).
Proof.
  intros ts B bc Hpos Hl Hv. apply in_enum. revert ts Hl Hv.
  induction Hpos as [|n ns Hn Hpos IH]; intros [|[sh d] ts] Hl Hv; try discriminate; [constructor|].
  cbn [combine map forallb] in *. apply andb_true_iff in Hv as [Hv1 Hv2]. apply andb_true_iff in Hv1 as [_ Hd].
  constructor; [|apply IH; [simpl in Hl; lia|exact Hv2]].
  assert (R : in_range (Z.of_nat n) (tget_b sh d B bc) = true).
  { unfold tget_b. destruct (Nat.lt_ge_cases (ravel sh (bidx sh B bc)) (length d)) as [Hlt|Hge].
    - rewrite forallb_forall in Hd. apply Hd. apply nth_In. assumption.
    - rewrite nth_overflow by assumption. unfold in_range. apply andb_true_iff. split; [apply Z.leb_le|apply Z.ltb_lt]; lia. }
  pose proof (wrap_in_range _ _ R). lia.
Qed.

Theorem gi_elem_is_gather : forall (f ent : list nat -> Z) ns ts,
  Forall (fun n => 0 < n) ns -> (forall x, In x (enum ns) -> f x = ent x) ->
  gi_elem f ns ts = gather (tab ns ent) ts.
Proof.
  intros f ent ns ts Hpos Hf. unfold gi_elem, gather. simpl tshape.
  destruct (bcast_all (map fst ts) []) as [B|]; [|reflexivity].
  destruct (forallb (fun '(n, (sh, d)) => (length d =? prod sh) && forallb (in_range (Z.of_nat n)) d) (combine ns ts)) eqn:Hv; [|reflexivity].
  destruct (length ts =? length ns) eqn:Hl; [|reflexivity]. apply Nat.eqb_eq in Hl. simpl andb. cbv iota.
  f_equal. f_equal. apply map_ext. intros bc.
  pose proof (coords_valid ns ts B bc Hpos Hl Hv) as V. rewrite (tget_tab ns ent _ V). apply Hf. exact V.
Qed.

(* ------------------------------------------------------------------------------------- *)
(** composition with the front end *)

(* the front end calls m_getitem once (non-absorbed path) or m_get_indices once (absorbed path): two operators whose
   methods agree on those calls give the same result *)
Lemma front_ext v debug shape g1 g2 gi1 gi2 idx :
  (forall its, g1 its = g2 its) -> (forall ts, gi1 ts = gi2 ts) ->
  getitem_front v debug shape g1 gi1 idx = getitem_front v debug shape g2 gi2 idx.
Proof.
  intros Hg Hgi. unfold getitem_front. destruct (length shape <? 2); [reflexivity|].
  destruct (spec_expand (length shape) idx) as [index|]; [|reflexivity]. cbv zeta.
  destruct ((existsb is_tensor (firstn (length shape - 2) index) &&
            (is_tensor (nth (length shape - 2) index full) || is_tensor (nth (length shape - 1) index full))) ||
           (negb (existsb is_tensor (firstn (length shape - 2) index)) &&
            (is_tensor (nth (length shape - 2) index full) && is_tensor (nth (length shape - 1) index full)))).
  - match goal with |- context [bcast_all ?X []] => destruct (bcast_all X []) as [B|]; [|reflexivity] end.
    match goal with |- context [convert_indices_to_tensors ?S ?F] => destruct (convert_indices_to_tensors S F) as [ts|]; [|reflexivity] end.
    rewrite Hgi. reflexivity.
  - rewrite Hg. reflexivity.
Qed.

Lemma front_absorbed_ext v debug shape g1 g2 gi1 gi2 idx index :
  spec_expand (length shape) idx = Some index -> absorbed_idx (length shape) index = true ->
  (forall ts, gi1 ts = gi2 ts) ->
  getitem_front v debug shape g1 gi1 idx = getitem_front v debug shape g2 gi2 idx.
Proof.
  intros Hexp Habs Hgi. unfold getitem_front. destruct (length shape <? 2); [reflexivity|]. rewrite Hexp. cbv zeta.
  unfold absorbed_idx in Habs. cbv zeta in Habs. rewrite Habs.
  match goal with |- context [bcast_all ?X []] => destruct (bcast_all X []) as [B|]; [|reflexivity] end.
  match goal with |- context [convert_indices_to_tensors ?S ?F] => destruct (convert_indices_to_tensors S F) as [ts|]; [|reflexivity] end.
  rewrite Hgi. reflexivity.
Qed.

(* what _getitem receives on the non-absorbed path with basic indices: ints / slices in the batch positions, slices in
   the two matrix positions (python ints have been rewritten as unit slices) *)
Definition getitem_input (nd : nat) (its : list item) : Prop :=
  length its = nd /\ forallb basic its = true /\ is_slice (nth (nd - 2) its full) = true /\ is_slice (nth (nd - 1) its full) = true.

Lemma basic_firstn k : forall l, forallb basic l = true -> forallb basic (firstn k l) = true.
Proof.
  induction k as [|k IH]; intros [|x l] H; try reflexivity. simpl in *. apply andb_true_iff in H as [H1 H2].
  rewrite H1. apply IH. assumption.
Qed.
Lemma basic_nth k : forall l, forallb basic l = true -> basic (nth k l full) = true.
Proof.
  induction k as [|k IH]; intros [|x l] H; try reflexivity; simpl in *; apply andb_true_iff in H as [H1 H2]; auto.
Qed.

Lemma front_basic_ext v debug shape g1 g2 gi1 gi2 idx index r :
  2 <= length shape -> spec_expand (length shape) idx = Some index -> length index = length shape ->
  forallb basic index = true ->
  (forall its r0, getitem_input (length shape) its -> g2 its = Some r0 -> g1 its = Some r0) ->
  getitem_front v debug shape g2 gi2 idx = Some r ->
  getitem_front v debug shape g1 gi1 idx = Some r.
Proof.
  intros Hnd Hexp Hlen Hb Hg. unfold getitem_front. replace (length shape <? 2) with false by (symmetry; apply Nat.ltb_ge; lia).
  rewrite Hexp. cbv zeta.
  set (nd := length shape) in *.
  set (batch := firstn (nd - 2) index). set (row := nth (nd - 2) index full). set (col := nth (nd - 1) index full).
  assert (HbB : forallb basic batch = true) by (apply basic_firstn; assumption).
  assert (Hbr : basic row = true) by (apply basic_nth; assumption).
  assert (Hbc : basic col = true) by (apply basic_nth; assumption).
  rewrite (basic_existsb batch HbB).
  assert (Er : is_tensor row = false) by (unfold basic in Hbr; apply negb_true_iff in Hbr; exact Hbr).
  assert (Ec : is_tensor col = false) by (unfold basic in Hbc; apply negb_true_iff in Hbc; exact Hbc).
  rewrite Er, Ec. cbn [orb andb negb].
  assert (TS : match v with Pinned => true | Fixed => true end = true) by (destruct v; reflexivity). rewrite TS. cbn [andb].
  match goal with |- context [g2 ?O] => set (orig := O) end.
  assert (GI : getitem_input nd orig).
  { assert (LB : length batch = nd - 2) by (unfold batch; rewrite firstn_length; lia).
    unfold getitem_input, orig. split; [rewrite app_length, LB; simpl; lia|].
    rewrite forallb_app, HbB. rewrite app_nth2 by lia. rewrite app_nth2 by lia. rewrite LB.
    replace (nd - 2 - (nd - 2)) with 0 by lia. replace (nd - 1 - (nd - 2)) with 1 by lia. cbn [nth forallb andb].
    destruct row as [i|? ? ?|? ?]; try discriminate; destruct col as [j|? ? ?|? ?]; try discriminate; destruct v; repeat split; reflexivity. }
  destruct (g2 orig) as [r0|] eqn:E2; [|discriminate]. rewrite (Hg orig r0 GI E2). intros H; exact H.
Qed.

(* ------------------------------------------------------------------------------------- *)
(** the contract, and what it buys *)

Definition getitem_contract (t : tensor) (g : list item -> option tensor) : Prop :=
  forall its r, getitem_input (length (tshape t)) its -> torch_index_norm t its = Some r -> g its = Some r.
Definition get_indices_contract (t : tensor) (gi : list (list nat * list Z) -> option tensor) : Prop :=
  forall ts, gi ts = gather t ts.

(* BASIC indices (ints incl. negative, slices, Ellipsis, missing trailing dims): a class whose _getitem meets the contract
   for the dense matrix t returns t[index] through the repaired front end, debug on or off *)
Theorem e2e_basic : forall debug t g gi idx index r,
  2 <= length (tshape t) -> Forall (fun n => 0 < n) (tshape t) -> getitem_contract t g ->
  spec_expand (length (tshape t)) idx = Some index -> forallb basic index = true ->
  torch_index t idx = Some r ->
  getitem_front Fixed debug (tshape t) g gi idx = Some r.
Proof.
  intros debug t g gi idx index r Hnd Hpos Hc Hexp Hb Hspec.
  assert (Hlen : length index = length (tshape t)).
  { unfold torch_index in Hspec. rewrite Hexp in Hspec. unfold torch_index_norm in Hspec.
    destruct (plans_of (tshape t) index) as [ps|] eqn:Hp; [|discriminate]. symmetry. eapply plans_of_length. exact Hp. }
  apply (front_basic_ext Fixed debug (tshape t) g (torch_index_norm t) gi (gather t) idx index r Hnd Hexp Hlen Hb Hc).
  change (getitem_model Fixed debug t idx = Some r). eapply getitem_fixed_all; try eassumption.
  unfold in_quantifier, lone_ok.
  pose proof (basic_nth (length (tshape t) - 1) index Hb) as B1. unfold basic in B1. apply negb_true_iff in B1.
  destruct (nth (length (tshape t) - 1) index full); try discriminate;
    destruct (nth (length (tshape t) - 2) index full); rewrite ?orb_true_r; reflexivity.
Qed.

(* the ABSORBED path (tensor indices consuming a matrix dimension): a class whose _get_indices meets the contract *)
Theorem e2e_absorbed : forall debug t g gi idx index r,
  2 <= length (tshape t) -> Forall (fun n => 0 < n) (tshape t) -> get_indices_contract t gi ->
  spec_expand (length (tshape t)) idx = Some index -> absorbed_idx (length (tshape t)) index = true ->
  torch_index t idx = Some r ->
  getitem_front Fixed debug (tshape t) g gi idx = Some r.
Proof.
  intros debug t g gi idx index r Hnd Hpos Hc Hexp Habs Hspec.
  rewrite (front_absorbed_ext Fixed debug (tshape t) g (torch_index_norm t) gi (gather t) idx index Hexp Habs Hc).
  change (getitem_model Fixed debug t idx = Some r). eapply getitem_fixed_all; try eassumption.
  unfold in_quantifier, lone_ok. unfold absorbed_idx in Habs. cbv zeta in Habs.
  destruct (existsb is_tensor (firstn (length (tshape t) - 2) index)); [reflexivity|]. simpl in *.
  destruct (nth (length (tshape t) - 2) index full); try discriminate. reflexivity.
Qed.

(* an element-wise entry formula that is the entry of the denoted matrix meets the _get_indices contract *)
Corollary elementwise_contract : forall f ent ns, Forall (fun n => 0 < n) ns ->
  (forall x, In x (enum ns) -> f x = ent x) -> get_indices_contract (tab ns ent) (gi_elem f ns).
Proof. intros f ent ns Hpos Hf ts. apply gi_elem_is_gather; assumption. Qed.
