(* C03 — LinearOperator.__getitem__ (repaired front end), NON-ABSORBED path with a LONE tensor index in a matrix position
   (no tensor index in the batch positions, exactly one of row / column is a tensor).  Result = torch result. *)
From Coq Require Import List ZArith Bool Arith Lia.
Import ListNotations.
Require Import C03.Model C03.Proofs C03.ProofsSlice C03.ProofsSize C03.ProofsFront C03.ProofsFront2 C03.ProofsAbsorbed.
Open Scope nat_scope.

(* ------------------------------------------------------------------------------------- *)
(** position of the block when all slices come first / a unit slice follows *)

Lemma drop_while_falses q rest : drop_while negb (repeat false q ++ true :: rest) = true :: rest.
Proof. induction q; simpl; auto. Qed.
Lemma count_while_falses q rest : count_while negb (repeat false q ++ true :: rest) = q.
Proof. induction q; simpl; auto. Qed.

Lemma block_pos_falses_true q rest : forallb negb rest = true -> block_pos (repeat false q ++ true :: rest) = q.
Proof.
  intros H. unfold block_pos, adjacent. rewrite drop_while_falses, count_while_falses. cbn [drop_while idb].
  replace (forallb negb (drop_while idb rest)) with true; [reflexivity|].
  symmetry. destruct rest as [|b rest]; [reflexivity|]. simpl in H. destruct b; [discriminate|]. simpl. exact H.
Qed.

Lemma repeat_snoc_false q rest : repeat false q ++ false :: rest = repeat false (S q) ++ rest.
Proof. induction q as [|q IH]; [reflexivity|]. simpl. f_equal. exact IH. Qed.

Lemma flat_map_singleton {A B} (f : A -> B) l : flat_map (fun x => [f x]) l = map f l.
Proof. induction l as [|x l IH]; [reflexivity|]. simpl. rewrite IH. reflexivity. Qed.

Lemma enum_snoc1 W : enum (W ++ [1]) = map (fun x => x ++ [0]) (enum W).
Proof. rewrite enum_app. change (enum [1]) with [[0]]. cbn [map]. apply flat_map_singleton. Qed.

Lemma split_out_snoc p nb (oi y : list nat) : length oi = p + nb ->
  split_out p nb (oi ++ y) = (fst (split_out p nb oi), snd (split_out p nb oi) ++ y) /\
  length (snd (split_out p nb oi)) = p.
Proof.
  intros H. unfold split_out. cbn [fst snd]. split.
  - f_equal.
    + rewrite skipn_app, firstn_app, skipn_length. replace (nb - (length oi - p)) with 0 by lia.
      cbn [firstn]. rewrite app_nil_r. reflexivity.
    + rewrite firstn_app, skipn_app. replace (p - length oi) with 0 by lia. replace (p + nb - length oi) with 0 by lia.
      cbn [firstn skipn]. rewrite app_nil_r, app_assoc. reflexivity.
  - rewrite app_length, firstn_length, skipn_length. lia.
Qed.

(* ------------------------------------------------------------------------------------- *)
(** row = tensor, column = python int:  [.., T, j]  becomes  [.., T, j:j+1]  followed by squeeze(-1) *)

Section Lone.
Variables (t : tensor) (psB : list dplan) (nsB : list nat) (nr nc : nat).
Hypothesis Hshape : tshape t = nsB ++ [nr; nc].
Hypothesis HlenB : length psB = length nsB.
Hypothesis HnB : forallb no_te psB = true.

Let lB := slens psB.
Let q := length lB.

Lemma kinds_psB : kinds psB = repeat false q.
Proof. apply kinds_no_te. exact HnB. Qed.

Lemma lone_col_int sh d j :
  squeeze_back 1 (result t (psB ++ [PTe sh d; PSl (Z.of_nat j) 1 1]) sh) = result t (psB ++ [PTe sh d; PFix j]) sh.
Proof.
  unfold result, out_shape. rewrite !kinds_app, !slens_app, kinds_psB. fold lB.
  change (kinds [PTe sh d; PSl (Z.of_nat j) 1 1]) with [true; false]. change (kinds [PTe sh d; PFix j]) with [true].
  change (slens [PTe sh d; PSl (Z.of_nat j) 1 1]) with [1]. change (slens [PTe sh d; PFix j]) with (@nil nat).
  rewrite !block_pos_falses_true by reflexivity. rewrite app_nil_r.
  unfold q. rewrite firstn_app_len, firstn_all, skipn_app_len, skipn_all. rewrite app_nil_r.
  replace (lB ++ sh ++ [1]) with ((lB ++ sh) ++ [1]) by (rewrite <- app_assoc; reflexivity).
  rewrite squeeze_back_unit1. f_equal.
  rewrite enum_snoc1, map_map. apply map_ext_in. intros oi Hin.
  pose proof (enum_length _ _ Hin) as Lo. rewrite app_length in Lo.
  destruct (split_out_snoc (length lB) (length sh) oi [0] Lo) as [S1 S2]. rewrite S1.
  destruct (split_out (length lB) (length sh) oi) as [bc sc]. cbn [fst snd] in *.
  rewrite Hshape. rewrite !src_app by assumption. fold lB. rewrite src_prefix by (fold lB; assumption).
  rewrite <- S2. rewrite skipn_app_len. f_equal. f_equal. cbn [src hd tl]. f_equal. f_equal.
  rewrite Z.mul_1_l, Z.add_0_r, Nat2Z.id. reflexivity.
Qed.

Lemma lone_row_int L d i :
  squeeze_back 2 (result t (psB ++ [PSl (Z.of_nat i) 1 1; PTe [L] d]) [L]) = result t (psB ++ [PFix i; PTe [L] d]) [L].
Proof.
  unfold result, out_shape. rewrite !kinds_app, !slens_app, kinds_psB. fold lB.
  change (kinds [PSl (Z.of_nat i) 1 1; PTe [L] d]) with [false; true]. change (kinds [PFix i; PTe [L] d]) with [true].
  change (slens [PSl (Z.of_nat i) 1 1; PTe [L] d]) with [1]. change (slens [PFix i; PTe [L] d]) with (@nil nat).
  rewrite repeat_snoc_false.
  rewrite !block_pos_falses_true by reflexivity. rewrite app_nil_r.
  replace (S q) with (length (lB ++ [1])) by (rewrite app_length; simpl; unfold q; lia).
  unfold q. rewrite !firstn_all, !skipn_all. rewrite !app_nil_r.
  replace ((lB ++ [1]) ++ [L]) with (lB ++ [1; L]) by (rewrite <- app_assoc; reflexivity).
  rewrite squeeze_back_unit2. f_equal.
  replace (lB ++ [1; L]) with (lB ++ [1] ++ [L]) by reflexivity. rewrite enum_mid. rewrite enum_app.
  rewrite !map_flat_map. apply flat_map_ext_in'. intros x Hx. pose proof (enum_length _ _ Hx) as Lx.
  change (enum [1]) with [[0]]. cbn [flat_map]. rewrite app_nil_r, !map_map. apply map_ext_in. intros y Hy.
  pose proof (enum_length _ _ Hy) as Ly. cbn [length] in Ly.
  replace (x ++ [0] ++ y) with ((x ++ [0]) ++ y ++ []) by (rewrite app_nil_r, <- app_assoc; reflexivity).
  replace (length (lB ++ [1])) with (length (x ++ [0])) by (rewrite !app_length, Lx; reflexivity).
  change 1 with (length [L]) at 1. rewrite <- Ly at 1. rewrite split_out_mid.
  replace (x ++ y) with (x ++ y ++ []) by (rewrite app_nil_r; reflexivity).
  rewrite <- Lx. change (length [L]) with 1. rewrite <- Ly. rewrite split_out_mid. rewrite !app_nil_r.
  rewrite Hshape. rewrite !src_app by assumption. fold lB. rewrite src_prefix by (fold lB; assumption).
  rewrite <- Lx. rewrite skipn_app_len. f_equal. f_equal. cbn [src hd tl]. f_equal.
  rewrite Z.mul_1_l, Z.add_0_r, Nat2Z.id. reflexivity.
Qed.
End Lone.

(* ------------------------------------------------------------------------------------- *)
(** main theorem *)

Definition lone_ok (row col : item) : bool :=
  match row, col with IInt _, ITensor sh _ => (length sh =? 1) | _, _ => true end.

Lemma bcast_single sh : bcast_all [sh] [] = Some sh.
Proof. cbn [bcast_all]. rewrite bcast2_nil_l. reflexivity. Qed.

Theorem getitem_fixed_lone : forall t idx index r,
  2 <= length (tshape t) ->
  spec_expand (length (tshape t)) idx = Some index ->
  existsb is_tensor (firstn (length (tshape t) - 2) index) = false ->
  xorb (is_tensor (nth (length (tshape t) - 2) index full)) (is_tensor (nth (length (tshape t) - 1) index full)) = true ->
  lone_ok (nth (length (tshape t) - 2) index full) (nth (length (tshape t) - 1) index full) = true ->
  torch_index t idx = Some r ->
  getitem_model Fixed false t idx = Some r.
Proof.
  intros t idx index r Hnd Hexp HbT Hx Hok Hspec.
  unfold torch_index in Hspec. rewrite Hexp in Hspec.
  destruct (plans_of (tshape t) index) as [ps|] eqn:Hp; [|unfold torch_index_norm in Hspec; rewrite Hp in Hspec; discriminate].
  pose proof (plans_of_length _ _ _ Hp) as Hlen.
  set (nd := length (tshape t)) in *.
  pose proof (list_split_last2 full index nd (eq_sym Hlen) Hnd) as Di.
  pose proof (list_split_last2 0 (tshape t) nd eq_refl Hnd) as Ds.
  set (batch := firstn (nd - 2) index) in *. set (row := nth (nd - 2) index full) in *. set (col := nth (nd - 1) index full) in *.
  set (nsB := firstn (nd - 2) (tshape t)) in *. set (nr := nth (nd - 2) (tshape t) 0) in *. set (nc := nth (nd - 1) (tshape t) 0) in *.
  assert (LB : length nsB = length batch).
  { unfold nsB, batch. rewrite !firstn_length. fold nd. rewrite <- Hlen. reflexivity. }
  pose proof Hp as Hp0. rewrite Ds, Di in Hp. rewrite plans_of_app in Hp by assumption.
  destruct (plans_of nsB batch) as [psB|] eqn:HpB; [|discriminate].
  simpl plans_of in Hp.
  destruct (plan_of nr row) as [pr|] eqn:Hpr; [|discriminate].
  destruct (plan_of nc col) as [pc|] eqn:Hpc; [|discriminate]. injection Hp as <-.
  pose proof (basic_plans _ _ _ HpB (not_existsb_basic _ HbT)) as HnB.
  pose proof (plans_of_length_ps _ _ _ HpB) as LpB.
  assert (TS : forall tl, tshapes (psB ++ tl) = tshapes tl) by (intros tl; rewrite tshapes_app, (no_te_tshapes _ HnB); reflexivity).
  unfold getitem_model, getitem_front. fold nd. replace (nd <? 2) with false by (symmetry; apply Nat.ltb_ge; lia).
  rewrite Hexp. fold batch row col. rewrite HbT.
  destruct row as [i|ra rb rs|rsh rd]; destruct col as [j|ca cb cs|csh cd]; try discriminate;
    cbn [is_tensor orb andb negb variant_eqb]; cbv iota.
  - (* row int, column tensor *)
    simpl in Hok. apply Nat.eqb_eq in Hok. destruct csh as [|L [|? ?]]; try discriminate.
    destruct (plan_int_inv _ _ _ Hpr) as [Ei ->]. destruct (plan_tensor_inv _ _ _ _ Hpc) as (-> & _).
    assert (Hp' : plans_of (tshape t) (batch ++ [int_as_slice Fixed i; ITensor [L] cd]) =
                  Some (psB ++ [unit_slice (PFix (Z.to_nat (wrap (Z.of_nat nr) i))); PTe [L] cd])).
    { rewrite Ds at 1. rewrite plans_of_app by assumption. rewrite HpB. cbn [plans_of].
      pose proof (plan_to_slice nr (IInt i) _ eq_refl Hpr) as Q. cbn [to_slice_item] in Q. rewrite Q, Hpc. reflexivity. }
    rewrite (torch_index_norm_result t _ _ [L] Hp') by (rewrite TS; apply bcast_single).
    rewrite (torch_index_norm_result t _ _ [L] Hp0) in Hspec by (rewrite TS; apply bcast_single).
    injection Hspec as <-. cbn [unit_slice].
    rewrite (lone_row_int t psB nsB nr nc Ds LpB HnB). reflexivity.
  - (* row slice, column tensor: nothing is rewritten *)
    rewrite <- Di. rewrite Hspec. reflexivity.
  - (* row tensor, column int *)
    destruct (plan_int_inv _ _ _ Hpc) as [Ei ->]. destruct (plan_tensor_inv _ _ _ _ Hpr) as (-> & _).
    assert (Hp' : plans_of (tshape t) (batch ++ [ITensor rsh rd; int_as_slice Fixed j]) =
                  Some (psB ++ [PTe rsh rd; unit_slice (PFix (Z.to_nat (wrap (Z.of_nat nc) j)))])).
    { rewrite Ds at 1. rewrite plans_of_app by assumption. rewrite HpB. cbn [plans_of].
      pose proof (plan_to_slice nc (IInt j) _ eq_refl Hpc) as Q. cbn [to_slice_item] in Q. rewrite Hpr, Q. reflexivity. }
    rewrite (torch_index_norm_result t _ _ rsh Hp') by (rewrite TS; apply bcast_single).
    rewrite (torch_index_norm_result t _ _ rsh Hp0) in Hspec by (rewrite TS; apply bcast_single).
    injection Hspec as <-. cbn [unit_slice].
    rewrite (lone_col_int t psB nsB nr nc Ds LpB HnB). reflexivity.
  - (* row tensor, column slice *)
    rewrite <- Di. rewrite Hspec. reflexivity.
Qed.

(* ------------------------------------------------------------------------------------- *)
(** ALL index kinds together: the repaired __getitem__ is torch indexing *)

(* the only index shape excluded: NO tensor index in a batch position, a python int in the row position and a tensor of
   rank other than 1 in the column position (a lone rank >= 2 tensor index; outside the property's quantifier: there the
   library's squeeze(-2) addresses a dimension of the broadcast block instead of the unit row dimension) *)
Definition in_quantifier (nd : nat) (index : list item) : bool :=
  existsb is_tensor (firstn (nd - 2) index) || lone_ok (nth (nd - 2) index full) (nth (nd - 1) index full).

Theorem getitem_fixed_all : forall debug t idx index r,
  2 <= length (tshape t) -> Forall (fun n => 0 < n) (tshape t) ->
  spec_expand (length (tshape t)) idx = Some index ->
  in_quantifier (length (tshape t)) index = true ->
  torch_index t idx = Some r ->
  getitem_model Fixed debug t idx = Some r.
Proof.
  intros debug t idx index r Hnd Hpos Hexp Hq Hspec.
  assert (G : getitem_model Fixed false t idx = Some r).
  { destruct (absorbed_idx (length (tshape t)) index) eqn:A.
    - eapply getitem_fixed_absorbed; eassumption.
    - unfold absorbed_idx in A. cbv zeta in A. unfold in_quantifier in Hq.
      destruct (is_tensor (nth (length (tshape t) - 2) index full)) eqn:Er;
      destruct (is_tensor (nth (length (tshape t) - 1) index full)) eqn:Ec;
      destruct (existsb is_tensor (firstn (length (tshape t) - 2) index)) eqn:Eb; try discriminate.
      + eapply getitem_fixed_lone; try eassumption. rewrite Er, Ec. reflexivity.
      + eapply getitem_fixed_lone; try eassumption. rewrite Er, Ec. reflexivity.
      + eapply getitem_fixed_matrix_basic; try eassumption; unfold basic; [rewrite Er|rewrite Ec]; reflexivity.
      + eapply getitem_fixed_matrix_basic; try eassumption; unfold basic; [rewrite Er|rewrite Ec]; reflexivity. }
  destruct debug; [|exact G]. apply getitem_debug_irrelevant; assumption.
Qed.
