(* C03 — diagonal extraction: the class-specific _diagonal methods against the entry arithmetic of _get_indices *)
From Coq Require Import List ZArith Bool Arith Lia.
Import ListNotations.
Require Import C03.Model C03.Proofs C03.ProofsSlice C03.ProofsClass.
Open Scope Z_scope.

(* Toeplitz._diagonal: column[..., 0] expanded — every diagonal entry reads column[0] *)
Theorem toeplitz_diagonal n r : 0 <= r < n -> toeplitz_index n r r = 0.
Proof. intros H. destruct (toeplitz_index_correct n r r H H) as [E _]. rewrite E. rewrite Z.sub_diag. reflexivity. Qed.

(* BlockDiag._diagonal: base._diagonal() of shape (k, m) viewed as (k*m): flat position b*m + i holds base[b][i, i] *)
Theorem blockdiag_diagonal m base b i : 0 <= b -> 0 <= i < m ->
  blockdiag_get_indices m m base (b * m + i) (b * m + i) = base b i i.
Proof. intros Hb Hi. rewrite blockdiag_get_indices_correct by lia. rewrite Z.eqb_refl. reflexivity. Qed.

(* BlockInterleaved._diagonal: base._diagonal() (k, m) transposed to (m, k) and flattened: position i*k + b *)
Theorem blockinterleaved_diagonal k base b i : 0 <= b < k -> 0 <= i ->
  blockinterleaved_get_indices k base (i * k + b) (i * k + b) = base b i i.
Proof. intros Hb Hi. rewrite blockinterleaved_get_indices_correct by lia. rewrite Z.eqb_refl. reflexivity. Qed.

(* _kron_diag: lead.unsqueeze(-2) * trail.unsqueeze(-1), transposed and flattened, recursively *)
Fixpoint kron_diag (diags : list (list Z)) : list Z :=
  match diags with
  | [] => [1]
  | lead :: rest => flat_map (fun a => map (fun b => a * b) (kron_diag rest)) lead
  end.

Fixpoint prod_diag (diags : list (list Z)) (ds : list Z) : Z :=
  match diags, ds with
  | l :: diags', d :: ds' => nth (Z.to_nat d) l 0 * prod_diag diags' ds'
  | _, _ => 1
  end.

Lemma kron_diag_length diags : Z.of_nat (length (kron_diag diags)) = zprod (map (fun l => Z.of_nat (length l)) diags).
Proof.
  induction diags as [|l r IH]; [reflexivity|]. cbn [kron_diag map zprod]. rewrite <- IH.
  generalize (kron_diag r). intros t. induction l as [|a l IHl]; [simpl; lia|].
  cbn [flat_map length]. rewrite app_length, map_length. lia.
Qed.

Lemma nth_flat_map_const (l : list Z) (f : Z -> list Z) (T : nat) : (forall a, length (f a) = T) ->
  forall i t, (i < length l)%nat -> (t < T)%nat -> nth (i * T + t) (flat_map f l) 0 = nth t (f (nth i l 0)) 0.
Proof.
  intros HT. induction l as [|a l IH]; intros i t Hi Ht; [simpl in Hi; lia|].
  cbn [flat_map]. destruct i as [|i].
  - simpl. rewrite app_nth1 by (rewrite HT; assumption). reflexivity.
  - rewrite app_nth2 by (rewrite HT; nia). rewrite HT.
    replace (S i * T + t - T)%nat with (i * T + t)%nat by nia. apply IH; [simpl in Hi; lia|assumption].
Qed.

(* entry compose(ds) of the Kronecker diagonal is the product of the factor diagonals at the digits *)
Theorem kron_diag_correct diags ds :
  digits_ok (map (fun l => Z.of_nat (length l)) diags) ds ->
  nth (Z.to_nat (compose (map (fun l => Z.of_nat (length l)) diags) ds)) (kron_diag diags) 0 = prod_diag diags ds.
Proof.
  revert ds. induction diags as [|l r IH]; intros ds H; inversion H; subst; [reflexivity|].
  cbn [map compose kron_diag prod_diag].
  pose proof (compose_bound _ _ H4) as Hb. pose proof (kron_diag_length r) as HL.
  set (sizes := map (fun l0 : list Z => Z.of_nat (length l0)) r) in *.
  set (T := length (kron_diag r)) in *.
  replace (Z.to_nat (d * zprod sizes + compose sizes ds0)) with (Z.to_nat d * T + Z.to_nat (compose sizes ds0))%nat by nia.
  rewrite nth_flat_map_const with (T := T); try (intros; apply map_length); try lia.
  rewrite (nth_indep _ 0 ((fun b => nth (Z.to_nat d) l 0 * b) 0)) by (rewrite map_length; fold T; lia).
  rewrite (map_nth (fun b => nth (Z.to_nat d) l 0 * b)). rewrite IH by assumption. reflexivity.
Qed.
