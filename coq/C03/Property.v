(* C03 — Indexing and diagonal extraction match torch indexing of the dense matrix.
   Only theorem statements live here; each is closed by `exact` of a lemma proved in Proofs*.v. *)
From Coq Require Import List ZArith Bool Arith Lia.
Import ListNotations.
Require Import C03.Model C03.Proofs.
Open Scope Z_scope.

(* slice.indices(n) for a positive step: the k-th selected position start + k*step lies inside the
   dimension, for every k below len(range(start, stop, step)); all sizes, all bounds, all steps > 0 *)
Theorem C03_slice_in_range : forall a b s n k,
  0 <= n -> 0 < odefault 1 s -> 0 <= k < slice_len a b s n ->
  let '(lo, hi, st) := slice_indices a b s n in 0 <= lo + k * st < n.
Proof. exact slice_in_range. Qed.
