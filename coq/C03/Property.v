(* C03 — Indexing and diagonal extraction match torch indexing of the dense matrix.
   Only theorem statements live here; each is closed by `exact` of a lemma proved in Proofs*.v.
   Model.v holds (1) Python int/slice semantics, (2) the SPEC of torch indexing on dense tensors of any rank
   (validated against the running torch on every run), (3) transcriptions of linear_operator/utils/getitem.py,
   LinearOperator.__getitem__ and the per-class index arithmetic of _get_indices / _getitem. *)
From Coq Require Import List ZArith Bool Arith Lia.
Import ListNotations.
Require Import C03.Model C03.Proofs C03.ProofsSlice C03.ProofsSize C03.ProofsClass C03.ProofsCat C03.ProofsDiag C03.ProofsFront C03.ProofsFront2 C03.ProofsGather
  C03.ProofsAbsorbed C03.ProofsLone C03.ProofsPinned C03.ProofsInterp C03.ProofsContract C03.ProofsClassContract C03.ProofsGetitem.
Open Scope Z_scope.

(* ===================================================================================== *)
(** Python index normalisation *)

(* slice.indices(n) for a positive step: the k-th selected position start + k*step lies inside the
   dimension, for every k below len(range(start, stop, step)); all sizes, all bounds, all steps > 0 *)
Theorem C03_slice_in_range : forall a b s n k,
  0 <= n -> 0 < odefault 1 s -> 0 <= k < slice_len a b s n ->
  let '(lo, hi, st) := slice_indices a b s n in 0 <= lo + k * st < n.
Proof. exact slice_in_range. Qed.

(* ... and every position of [start, stop) on the stride is selected (nothing is skipped) *)
Theorem C03_slice_complete : forall a b s n x, 0 <= n -> 0 < odefault 1 s ->
  let '(lo, hi, st) := slice_indices a b s n in
  lo <= x < hi -> (x - lo) mod st = 0 -> exists k, 0 <= k < slice_len a b s n /\ x = lo + k * st.
Proof. exact slice_complete. Qed.

(* an in-range (possibly negative) int addresses a position of the dimension, congruent to it mod n *)
Theorem C03_wrap_in_range : forall n i, in_range n i = true -> 0 <= wrap n i < n /\ (wrap n i) mod n = i mod n.
Proof. intros n i H. split; [exact (wrap_in_range n i H)|exact (wrap_congr n i H)]. Qed.

(* ===================================================================================== *)
(** __getitem__: python ints in the row / column position are rewritten as slices and squeezed *)

(* pinned code, slice(i, i + 1): selects exactly the element the int selects for every in-range i EXCEPT -1 *)
Theorem C03_int_as_slice_pinned_partial : forall n i, in_range n i = true -> i <> -1 ->
  slice_sel (int_as_slice Pinned i) n = Some (wrap n i, 1).
Proof. exact int_as_slice_pinned_sel. Qed.

(* ... and for i = -1 it is the empty slice -1:0, for every size (known finding C03-int-m1-matrix) *)
Theorem C03_int_as_slice_pinned_refuted : forall n, 0 < n ->
  in_range n (-1) = true /\ slice_sel (int_as_slice Pinned (-1)) n = Some (n - 1, 0).
Proof.
  intros n Hn. split; [|exact (int_as_slice_pinned_m1 n Hn)].
  unfold in_range. apply andb_true_iff. split; [apply Z.leb_le|apply Z.ltb_lt]; lia.
Qed.

(* repaired code, slice(i, i + 1 or None): one element at the normalised position, for all sizes and all in-range i;
   at plan level the slice plan reads the same source coordinate as the int plan *)
Theorem C03_int_as_slice_fixed : forall n i, in_range (Z.of_nat n) i = true ->
  slice_sel (int_as_slice Fixed i) (Z.of_nat n) = Some (wrap (Z.of_nat n) i, 1) /\
  plan_of n (IInt i) = Some (PFix (Z.to_nat (wrap (Z.of_nat n) i))) /\
  plan_of n (int_as_slice Fixed i) = Some (PSl (wrap (Z.of_nat n) i) 1 1).
Proof.
  intros n i H. split; [exact (int_as_slice_fixed_sel _ _ H)|exact (plan_int_as_slice_fixed n i H)].
Qed.

(* THE FRONT END ON BASIC INDICES.  For every rank >= 2, every tensor and every index made of ints (negative ones
   included), slices (any bounds, positive steps), one Ellipsis and missing trailing dimensions — no tensor index —
   that torch accepts: the repaired __getitem__ (ellipsis fill, padding, int -> slice(i, i+1 or None), _getitem,
   squeeze(-2) / squeeze(-1)) over an operator whose _getitem is torch indexing returns exactly the torch result *)
Theorem C03_getitem_basic_fixed : forall t idx index r,
  (2 <= length (tshape t))%nat ->
  spec_expand (length (tshape t)) idx = Some index ->
  forallb basic index = true ->
  torch_index t idx = Some r ->
  getitem_model Fixed false t idx = Some r.
Proof. exact getitem_fixed_basic. Qed.

(* THE WHOLE NON-ABSORBED PATH with ints / slices in the two matrix positions: the batch positions may in addition carry
   tensor indices — any number, any rank, mutually broadcasting, adjacent (block stays in place) or separated by slices
   (block moves to the front), ints in between transparent — every rank >= 2: the repaired __getitem__ returns exactly
   the torch result (the unit slices that replace matrix ints add trailing dimensions only, never move the block) *)
Theorem C03_getitem_matrix_basic_fixed : forall t idx index r,
  (2 <= length (tshape t))%nat ->
  spec_expand (length (tshape t)) idx = Some index ->
  basic (nth (length (tshape t) - 2) index full) = true ->
  basic (nth (length (tshape t) - 1) index full) = true ->
  torch_index t idx = Some r ->
  getitem_model Fixed false t idx = Some r.
Proof. exact getitem_fixed_matrix_basic. Qed.

(* the pinned __getitem__ does so whenever neither the row nor the column index is the int -1 *)
Theorem C03_getitem_basic_pinned_partial : forall t idx index r,
  (2 <= length (tshape t))%nat ->
  spec_expand (length (tshape t)) idx = Some index ->
  forallb basic index = true ->
  not_m1 (nth (length (tshape t) - 2) index full) = true ->
  not_m1 (nth (length (tshape t) - 1) index full) = true ->
  torch_index t idx = Some r ->
  getitem_model Pinned false t idx = Some r.
Proof. exact getitem_pinned_basic_partial. Qed.

(* ... and returns an EMPTY tensor of the wrong shape for op[-1, :] (debug off), e.g. on a 3 x 4 matrix *)
Theorem C03_getitem_basic_pinned_refuted :
  let t := mkT [3; 4]%nat [0;1;2;3;4;5;6;7;8;9;10;11] in
  let idx := [RItem (IInt (-1)); RItem full] in
  torch_index t idx = Some (mkT [4]%nat [8;9;10;11]) /\
  getitem_model Pinned false t idx = Some (mkT [0; 4]%nat []) /\
  getitem_model Pinned true t idx = None /\
  getitem_model Fixed true t idx = Some (mkT [4]%nat [8;9;10;11]).
Proof. vm_compute. repeat split; reflexivity. Qed.

(* DenseLinearOperator._get_indices, i.e. tensor[(t_1, ..., t_n)] with one broadcasting index tensor per dimension (what
   the absorbed path of __getitem__ ends in): the element-wise gather of the model is torch indexing, every rank *)
Theorem C03_gather_is_torch_index : forall t ts r,
  gather t ts = Some r -> torch_index_norm t (titems ts) = Some r.
Proof. exact gather_is_torch_index. Qed.


(* ===================================================================================== *)
(** __getitem__ with tensor indices in the matrix positions *)

(* _convert_indices_to_tensors followed by _get_indices (gather): for every rank and every index list whose tensor items
   are 1-d of one common length L (what __getitem__ hands over after expand + reshape(-1)) and that is valid for the shape,
   turning the slices into padded aranges, the ints into padded 0-d tensors and gathering IS torch indexing with the
   original mixed index (shape: slices in order, the block of length L at the position torch puts it; every element) *)
Theorem C03_convert_gather_is_torch_index : forall t its ps L,
  plans_of (tshape t) its = Some ps -> flat1 L its -> existsb is_tensor its = true ->
  match convert_indices_to_tensors (tshape t) its with Some ts => gather t ts | None => None end =
  Some (result t ps [L]).
Proof. exact convert_gather_flat. Qed.

(* THE ABSORBED PATH (a tensor index in a batch position and one in a matrix position, or tensors in both matrix
   positions): broadcast + flatten, _convert_indices_to_tensors, _get_indices, view back — for every rank >= 2, any number of
   mutually broadcasting tensor indices of any rank, ints (negative ones included) and slices in the other positions,
   operators without an empty dimension: the repaired __getitem__ returns exactly the torch result *)
Theorem C03_getitem_absorbed_fixed : forall t idx index r,
  (2 <= length (tshape t))%nat -> Forall (fun n => (0 < n)%nat) (tshape t) ->
  spec_expand (length (tshape t)) idx = Some index ->
  absorbed_idx (length (tshape t)) index = true ->
  torch_index t idx = Some r ->
  getitem_model Fixed false t idx = Some r.
Proof. exact getitem_fixed_absorbed. Qed.

(* a LONE tensor index in the row or the column position (no tensor in the batch positions; the other matrix index an int
   or a slice): the non-absorbed path with int -> unit slice + squeeze returns the torch result; for `op[.., i, T]` the
   tensor must be 1-d (lone_ok), because squeeze(-2) would otherwise address a dimension of the block *)
Theorem C03_getitem_lone_tensor_fixed : forall t idx index r,
  (2 <= length (tshape t))%nat ->
  spec_expand (length (tshape t)) idx = Some index ->
  existsb is_tensor (firstn (length (tshape t) - 2) index) = false ->
  xorb (is_tensor (nth (length (tshape t) - 2) index full)) (is_tensor (nth (length (tshape t) - 1) index full)) = true ->
  lone_ok (nth (length (tshape t) - 2) index full) (nth (length (tshape t) - 1) index full) = true ->
  torch_index t idx = Some r ->
  getitem_model Fixed false t idx = Some r.
Proof. exact getitem_fixed_lone. Qed.

(* ALL INDEX KINDS TOGETHER, debug setting on or off: for every rank >= 2, every tensor without an empty dimension and
   every index tuple (ints incl. negative, slices with any bounds and positive step, one Ellipsis, missing trailing
   dimensions, lists, 0-d / 1-d / higher-rank mutually broadcasting tensor indices in any positions) that torch accepts
   and that is not `int in the row position + a lone tensor of rank <> 1 in the column position` (in_quantifier), the
   repaired LinearOperator.__getitem__ over an operator whose _getitem / _get_indices are torch indexing returns exactly
   the torch result: same shape, same placement of the advanced-index block, same elements; in debug mode the shape
   assertion against _compute_getitem_size passes *)
Theorem C03_getitem_fixed : forall debug t idx index r,
  (2 <= length (tshape t))%nat -> Forall (fun n => (0 < n)%nat) (tshape t) ->
  spec_expand (length (tshape t)) idx = Some index ->
  in_quantifier (length (tshape t)) index = true ->
  torch_index t idx = Some r ->
  getitem_model Fixed debug t idx = Some r.
Proof. exact getitem_fixed_all. Qed.

(* debug mode never changes a result that is the torch result (either variant of the front end) *)
Theorem C03_getitem_debug_irrelevant : forall v t idx r,
  torch_index t idx = Some r -> getitem_model v false t idx = Some r -> getitem_model v true t idx = Some r.
Proof. exact getitem_debug_irrelevant. Qed.

(* the PINNED __getitem__ on the absorbed path returns the torch result whenever neither matrix index is a python int
   and either all tensor indices are 1-d or the advanced-index block moves to the front *)
Theorem C03_getitem_absorbed_pinned_partial : forall debug t idx index r,
  (2 <= length (tshape t))%nat -> Forall (fun n => (0 < n)%nat) (tshape t) ->
  spec_expand (length (tshape t)) idx = Some index ->
  absorbed_idx (length (tshape t)) index = true ->
  is_int (nth (length (tshape t) - 2) index full) = false -> is_int (nth (length (tshape t) - 1) index full) = false ->
  rank1_tensors index \/ is_moved_to_start index = true ->
  torch_index t idx = Some r ->
  getitem_model Pinned debug t idx = Some r.
Proof. exact getitem_pinned_absorbed_partial. Qed.

(* THE PINNED FRONT END (the code as it stands in the repository), everything that is right about it: for every index in
   the quantifier it returns the torch result unless (a) a matrix index is the python int -1 on the non-absorbed path,
   (b) a matrix index is a python int on the absorbed path, (c) the absorbed block has rank >= 2 and stays in place
   (pinned_ok excludes exactly these; they are the known findings C03-int-m1-matrix, C03-absorbed-int-row,
   C03-absorbed-rank2-trailing-dim, refuted above / below) *)
Theorem C03_getitem_pinned_partial : forall debug t idx index r,
  (2 <= length (tshape t))%nat -> Forall (fun n => (0 < n)%nat) (tshape t) ->
  spec_expand (length (tshape t)) idx = Some index ->
  in_quantifier (length (tshape t)) index = true ->
  pinned_ok (length (tshape t)) index ->
  torch_index t idx = Some r ->
  getitem_model Pinned debug t idx = Some r.
Proof. exact getitem_pinned_partial. Qed.

(* ... and the two pinned defects outside that domain (known findings C03-absorbed-int-row, C03-absorbed-rank2-trailing-dim):
   op[[1,0], 1, [2,3]] on a 2 x 3 x 4 operator has shape (2,1) instead of (2,) (debug on: error);
   op[:, R, C, :] with rank-2 index tensors on a 2 x 2 x 3 x 2 operator raises a view error; the repaired code is right *)
Theorem C03_getitem_absorbed_pinned_refuted :
  let t1 := mkT [2;3;4]%nat (map Z.of_nat (seq 0 24)) in
  let i1 := [RList [1;0]; RItem (IInt 1); RList [2;3]] in
  let t2 := mkT [2;2;3;2]%nat (map Z.of_nat (seq 0 24)) in
  let i2 := [RItem full; RItem (ITensor [2;1]%nat [0;1]); RItem (ITensor [1;2]%nat [1;2]); RItem full] in
  (torch_index t1 i1 = Some (mkT [2]%nat [18;7]) /\
   getitem_model Pinned false t1 i1 = Some (mkT [2;1]%nat [18;7]) /\ getitem_model Pinned true t1 i1 = None /\
   getitem_model Fixed true t1 i1 = Some (mkT [2]%nat [18;7])) /\
  (torch_index t2 i2 = Some (mkT [2;2;2;2]%nat [2;3;4;5;8;9;10;11;14;15;16;17;20;21;22;23]) /\
   getitem_model Pinned false t2 i2 = None /\ getitem_model Fixed true t2 i2 = torch_index t2 i2).
Proof. vm_compute. repeat split; reflexivity. Qed.

(* ===================================================================================== *)
(** utils/getitem.py *)

(* _compute_getitem_size returns the shape of torch indexing — all ranks, all index tuples of ints / slices /
   tensors (any number, any rank, adjacent or not), debug on or off — whenever the index is valid for the shape *)
Theorem C03_compute_getitem_size : forall debug shape its ps,
  plans_of shape its = Some ps ->
  compute_getitem_size debug shape its = option_map (out_shape ps) (bcast_all (tshapes ps) []).
Proof. exact compute_getitem_size_correct. Qed.

Corollary C03_compute_getitem_size_torch : forall debug t its r,
  torch_index_norm t its = Some r -> compute_getitem_size debug (tshape t) its = Some (tshape r).
Proof. exact compute_getitem_size_torch. Qed.

(* _is_tensor_index_moved_to_start decides where torch puts the broadcast block of the advanced indices:
   true -> in front; false -> in place, after the slices that precede the first tensor (ints are transparent) *)
Theorem C03_moved_to_start : forall its,
  (is_moved_to_start its = true -> block_pos (ikinds its) = 0%nat) /\
  (is_moved_to_start its = false -> block_pos (ikinds its) = count_while negb (ikinds its)).
Proof. exact moved_to_start_correct. Qed.

(* ===================================================================================== *)
(** per-class index arithmetic of _get_indices *)

(* Toeplitz: (r - c).fmod(n).abs() is |r - c| and addresses the stored column *)
Theorem C03_toeplitz : forall n r c, 0 <= r < n -> 0 <= c < n ->
  toeplitz_index n r c = Z.abs (r - c) /\ 0 <= toeplitz_index n r c < n.
Proof. exact toeplitz_index_correct. Qed.

Theorem C03_toeplitz_diagonal : forall n r, 0 <= r < n -> toeplitz_index n r r = 0.
Proof. exact toeplitz_diagonal. Qed.

(* Kronecker product of ANY number of factors of any sizes: the running floor-div / fmod digit extraction inverts
   the composition of a Kronecker index, so entry (compose rd, compose cd) is the product of the factor entries *)
Theorem C03_kron_digits : forall sizes ds, digits_ok sizes ds ->
  kron_digits sizes (zprod sizes) (compose sizes ds) = ds.
Proof. exact kron_digits_compose. Qed.

Theorem C03_kron_get_indices : forall ms ns fs rd cd, digits_ok ms rd -> digits_ok ns cd ->
  kron_get_indices ms ns fs (compose ms rd) (compose ns cd) = prod_entries fs rd cd.
Proof. exact kron_get_indices_correct. Qed.

(* ... and every in-range index is such a composition, so all entries are covered *)
Theorem C03_kron_all_entries : forall sizes, Forall (fun s => 0 < s) sizes -> forall x, 0 <= x < zprod sizes ->
  exists ds, digits_ok sizes ds /\ compose sizes ds = x.
Proof. exact compose_surjective. Qed.

(* EXACTNESS of the factor-index decomposition for ALL in-range indices, of any magnitude (the arithmetic is over Z: floor
   division and remainder, no rounding): the digits the code extracts from x are valid factor indices and recompose to x.
   A floating-point quotient violates exactly this as soon as an index exceeds 2^24 (float32) / 2^53 (float64). *)
Theorem C03_kron_digits_exact : forall sizes, Forall (fun s => 0 < s) sizes -> forall x, 0 <= x < zprod sizes ->
  digits_ok sizes (kron_digits sizes (zprod sizes) x) /\ compose sizes (kron_digits sizes (zprod sizes) x) = x.
Proof.
  intros sizes H x Hx. destruct (compose_surjective sizes H x Hx) as [ds [Hok Hc]].
  rewrite <- Hc. rewrite (kron_digits_compose sizes ds Hok). split; [assumption|reflexivity].
Qed.

(* _kron_diag (recursive unsqueeze / transpose / reshape): position compose(ds) of the Kronecker diagonal is the
   product of the factor diagonals at the digits — any number of factors *)
Theorem C03_kron_diagonal : forall diags ds,
  digits_ok (map (fun l => Z.of_nat (length l)) diags) ds ->
  nth (Z.to_nat (compose (map (fun l => Z.of_nat (length l)) diags) ds)) (kron_diag diags) 0 = prod_diag diags ds.
Proof. exact kron_diag_correct. Qed.

(* BlockDiag (blocks m x n): entry (bi*m + i, bj*n + j) is base[bi][i, j] on the diagonal blocks, 0 elsewhere *)
Theorem C03_blockdiag : forall m n base bi i bj j, 0 <= bi -> 0 <= i < m -> 0 <= bj -> 0 <= j < n ->
  blockdiag_get_indices m n base (bi * m + i) (bj * n + j) = if bi =? bj then base bi i j else 0.
Proof. exact blockdiag_get_indices_correct. Qed.

(* BlockInterleaved (k blocks): entry (i*k + bi, j*k + bj) is base[bi][i, j] if bi = bj, 0 elsewhere *)
Theorem C03_blockinterleaved : forall k base bi i bj j, 0 <= bi < k -> 0 <= i -> 0 <= bj < k -> 0 <= j ->
  blockinterleaved_get_indices k base (i * k + bi) (j * k + bj) = if bi =? bj then base bi i j else 0.
Proof. exact blockinterleaved_get_indices_correct. Qed.

(* BlockDiag._diagonal (base diagonals (k, m) viewed as k*m) and BlockInterleaved._diagonal (transposed, then flattened):
   the flat positions b*m + i resp. i*k + b hold base[b][i, i], which is the diagonal entry of the block operator *)
Theorem C03_blockdiag_diagonal : forall m base b i, 0 <= b -> 0 <= i < m ->
  blockdiag_get_indices m m base (b * m + i) (b * m + i) = base b i i.
Proof. exact blockdiag_diagonal. Qed.

Theorem C03_blockinterleaved_diagonal : forall k base b i, 0 <= b < k -> 0 <= i ->
  blockinterleaved_get_indices k base (i * k + b) (i * k + b) = base b i i.
Proof. exact blockinterleaved_diagonal. Qed.

(* BlockLinearOperator._getitem, fast path for step-less slices whose bounds are multiples of num_blocks, as repaired by
   proposed_fixes/C03-block-aligned-slice (interleaved layout only; block dimension of the base not indexed): the result
   is the same class over the base sliced from row a = start // k, column c = start // k, and its entry (x, y) is entry
   (a*k + x, c*k + y) of the original operator (the pinned fast path is the known finding C03-block-aligned-slice) *)
Theorem C03_blockinterleaved_aligned_slice_fixed : forall k (base : Z -> Z -> Z -> Z) a c x y,
  0 < k -> 0 <= a -> 0 <= c -> 0 <= x -> 0 <= y ->
  blockinterleaved_get_indices k base (a * k + x) (c * k + y) =
  blockinterleaved_get_indices k (fun b i j => base b (a + i) (c + j)) x y.
Proof. exact blockinterleaved_aligned_slice. Qed.

(* BatchRepeat: entry b of a batch dimension repeated `rep` times is entry b.fmod(size) of the base *)
Theorem C03_batchrepeat : forall (l : list Z) rep b, (b < rep * length l)%nat ->
  nth b (concat (repeat l rep)) 0 = nth (Z.to_nat (batchrepeat_index (Z.of_nat (length l)) (Z.of_nat b))) l 0.
Proof. intros. apply batchrepeat_index_correct. assumption. Qed.

(* Masked: arange(n)[mask] maps the i-th kept row/column to its position in the base operator *)
Theorem C03_masked : forall mask (l : list Z) i, length mask = length l -> (i < length (select mask l))%nat ->
  nth i (select mask l) 0 = nth (Z.to_nat (nth i (mask_positions mask 0) 0)) l 0.
Proof. intros. apply masked_get_indices_correct; assumption. Qed.

(* Cat: idx_to_tensor_idx / cat_dim_cum_sizes locate every index of the concatenated dimension in the right
   component at the right local index — any number of components of any sizes (also empty ones) *)
Theorem C03_cat_locate : forall (pieces : list (list Z)) x, (x < length (concat pieces))%nat ->
  let '(k, i) := cat_locate (map (@length Z) pieces) x in
  (k < length pieces)%nat /\ (i < length (nth k pieces []))%nat /\ nth x (concat pieces) 0 = nth i (nth k pieces []) 0.
Proof. intros. apply cat_locate_correct. assumption. Qed.

(* Cat, tensor index on the concatenated dimension: evaluating maximal runs per component and concatenating
   equals the element-wise lookup, and every run addresses one component only *)
Theorem C03_cat_runs : forall (tbl : nat -> nat) (g : nat -> nat -> Z) l,
  concat (map (eval_run g) (runs tbl l)) = map (fun x => g (tbl x) x) l /\
  Forall (fun r => Forall (fun x => tbl x = fst r) (snd r)) (runs tbl l).
Proof. intros. split; [apply runs_correct|apply runs_same_component]. Qed.

(* Cat, step-less slice on the concatenated dimension, repaired _split_slice (slice.indices): the per-component
   slices concatenate to the slice of the concatenation, for every non-empty slice incl. stop == size,
   negative and over-long bounds *)
Theorem C03_cat_split_slice_fixed : forall (pieces : list (list Z)) a b,
  let total := Z.of_nat (length (concat pieces)) in
  let '(lo, hi, _) := slice_indices a b None total in
  lo < hi ->
  concat (map (piece_segZ pieces) (split_slice Fixed (map (@length Z) pieces) a b)) =
  seg (concat pieces) (Z.to_nat lo) (Z.to_nat hi).
Proof. intros. apply split_slice_fixed_correct. Qed.

(* pinned _split_slice (x % cat_size): the same bounds — hence the same result — exactly when -size <= x < size *)
Theorem C03_cat_split_slice_pinned_partial : forall a b n, 0 < n ->
  (forall x, a = Some x -> - n <= x < n) -> (forall x, b = Some x -> - n <= x < n) ->
  split_bounds Pinned a b n = split_bounds Fixed a b n.
Proof. exact split_bounds_pinned_ok. Qed.

(* ... and wrong at stop == size (known finding C03-cat-slice-bounds) *)
Theorem C03_cat_split_slice_pinned_refuted :
  exists (pieces : list (list Z)) a b,
    let total := Z.of_nat (length (concat pieces)) in
    let '(lo, hi, _) := slice_indices a b None total in
    lo < hi /\
    concat (map (piece_segZ pieces) (split_slice Pinned (map (@length Z) pieces) a b)) <>
    seg (concat pieces) (Z.to_nat lo) (Z.to_nat hi).
Proof. exact split_slice_pinned_refuted. Qed.


(* InterpolatedLinearOperator._get_indices: the double sum over the interpolation points of the row and of the column is
   entry (row, col) of  W_left K W_right^T  (W[x] = sum of the weights whose index is x; any number of points, duplicates
   allowed; indices inside the base operator) *)
Theorem C03_interp_get_indices : forall (K : Z -> Z -> Z) li lv ri rv m n,
  Forall (fun a => 0 <= a < Z.of_nat m) li -> Forall (fun b => 0 <= b < Z.of_nat n) ri ->
  interp_get_indices K li lv ri rv =
  zsum_upto m (fun x => zsum_upto n (fun y => interp_w li lv x * K x y * interp_w ri rv y)).
Proof. exact interp_get_indices_correct. Qed.

(* the default LinearOperator._get_indices (one interpolation point per side, weight 1) selects entry (row, col) *)
Corollary C03_default_get_indices : forall (K : Z -> Z -> Z) r c, interp_get_indices K [r] [1] [c] [1] = K r c.
Proof. exact default_get_indices_correct. Qed.

(* DiagLinearOperator._get_indices: diag[row] * (row == col) is the entry of the diagonal matrix *)
Theorem C03_diag : forall (d : Z -> Z) r c, diag_get_indices d r c = if r =? c then d r else 0.
Proof. exact diag_get_indices_correct. Qed.

(* InterpolatedLinearOperator._diagonal over a RootLinearOperator with dense root R: the shortcut
   (left_interp(W_l, R) * left_interp(W_r, R)).sum(-1) is the interpolated entry of K = R R^T (RootLinearOperator._get_indices)
   taken with the LEFT points for the row and the RIGHT points for the column *)
Theorem C03_interp_root_diagonal : forall (R : Z -> Z -> Z) rk li lv ri rv,
  interp_root_diag R rk li lv ri rv = interp_get_indices (root_get_indices R rk) li lv ri rv.
Proof. exact interp_root_diag_correct. Qed.


(* ===================================================================================== *)
(** THE CONTRACT between __getitem__ and an operator class, and per-class proofs of it
    (Model.v part 7: getitem_front = the front end abstracted over the class's two methods; getitem_model is its instance
     for DenseLinearOperator.  tab sh ent = the dense matrix with entries ent.) *)

(* a class whose _getitem meets the contract for the dense matrix t (on the inputs the front end produces for basic
   indices: ints / slices in the batch positions, slices in the matrix positions) returns t[index] for every basic index *)
Theorem C03_e2e_basic : forall debug t g gi idx index r,
  (2 <= length (tshape t))%nat -> Forall (fun n => (0 < n)%nat) (tshape t) -> getitem_contract t g ->
  spec_expand (length (tshape t)) idx = Some index -> forallb basic index = true ->
  torch_index t idx = Some r ->
  getitem_front Fixed debug (tshape t) g gi idx = Some r.
Proof. exact e2e_basic. Qed.

(* a class whose _get_indices is the gather of the dense matrix returns t[index] on the absorbed path *)
Theorem C03_e2e_absorbed : forall debug t g gi idx index r,
  (2 <= length (tshape t))%nat -> Forall (fun n => (0 < n)%nat) (tshape t) -> get_indices_contract t gi ->
  spec_expand (length (tshape t)) idx = Some index -> absorbed_idx (length (tshape t)) index = true ->
  torch_index t idx = Some r ->
  getitem_front Fixed debug (tshape t) g gi idx = Some r.
Proof. exact e2e_absorbed. Qed.

(* an entry formula evaluated element-wise over the broadcasting index tensors is the gather of the tabulated matrix
   whenever the formula is the entry on all in-range coordinates; hence ... *)
Theorem C03_get_indices_elementwise : forall (f ent : list nat -> Z) ns ts,
  Forall (fun n => (0 < n)%nat) ns -> (forall x, In x (enum ns) -> f x = ent x) ->
  gi_elem f ns ts = gather (tab ns ent) ts.
Proof. exact gi_elem_is_gather. Qed.

(* ... every class whose (nested) entry formula REALIZES the entries of its denotation is indexed correctly on the absorbed path *)
Theorem C03_e2e_absorbed_realizes : forall debug f ent ns g idx index r,
  (2 <= length ns)%nat -> Forall (fun n => (0 < n)%nat) ns -> realizes f ent ns ->
  spec_expand (length ns) idx = Some index -> absorbed_idx (length ns) index = true ->
  torch_index (tab ns ent) idx = Some r ->
  getitem_front Fixed debug ns g (gi_elem f ns) idx = Some r.
Proof. exact e2e_absorbed_realizes. Qed.

(** _get_indices, class by class: the formula the class computes (nested over the children's formulas) realizes the entry
    function of the matrix it denotes (nested over the children's entry functions), all sizes and batch shapes *)

Theorem C03_gi_toeplitz : forall column n bs, realizes (toeplitz_f column n) (toeplitz_ent column) (bs ++ [n; n])%list.
Proof. exact toeplitz_realizes. Qed.

Theorem C03_gi_kron : forall bs fs es, Forall2 (kagree bs) fs es -> kpos fs ->
  realizes (kron_f fs) (kron_ent es) (bs ++ [prod (map (fun f => fst (fst f)) fs); prod (map (fun f => snd (fst f)) fs)])%list.
Proof. exact kron_realizes. Qed.

Theorem C03_gi_blockdiag : forall base_f base_e m n k bs, (0 < m)%nat -> (0 < n)%nat -> realizes base_f base_e (bs ++ [k; m; n])%list ->
  realizes (blockdiag_f base_f m n) (blockdiag_ent base_e m n) (bs ++ [k * m; k * n])%nat%list.
Proof. exact blockdiag_realizes. Qed.

Theorem C03_gi_blockinterleaved : forall base_f base_e k m n bs, (0 < k)%nat -> realizes base_f base_e (bs ++ [k; m; n])%list ->
  realizes (blockinterleaved_f base_f k) (blockinterleaved_ent base_e k) (bs ++ [m * k; n * k])%nat%list.
Proof. exact blockinterleaved_realizes. Qed.

Theorem C03_gi_batchrepeat : forall base_f base_e bbs reps lead m n, length reps = length bbs -> Forall (fun s => (0 < s)%nat) bbs ->
  realizes base_f base_e (bbs ++ [m; n])%list ->
  realizes (batchrepeat_f base_f bbs) (batchrepeat_ent base_e bbs)
           ((lead ++ map (fun '(r, s) => (r * s)%nat) (combine reps bbs)) ++ [m; n])%list.
Proof. exact batchrepeat_realizes. Qed.

Theorem C03_gi_diag : forall d ns, realizes (diag_f d) (diag_ent d) ns.
Proof. exact diag_realizes. Qed.

Theorem C03_gi_masked : forall base_f base_e rmask cmask bs, realizes base_f base_e (bs ++ [length rmask; length cmask])%list ->
  realizes (masked_f base_f rmask cmask) (masked_f base_e rmask cmask)
           (bs ++ [length (mask_positions rmask 0); length (mask_positions cmask 0)])%list.
Proof. exact masked_realizes. Qed.

Theorem C03_gi_interp : forall base_f base_e li lv ri rv bs m n M N, realizes base_f base_e (bs ++ [m; n])%list ->
  (forall y, In y (enum (bs ++ [M])) -> Forall (fun a => 0 <= a < Z.of_nat m) (li y)) ->
  (forall y, In y (enum (bs ++ [N])) -> Forall (fun a => 0 <= a < Z.of_nat n) (ri y)) ->
  realizes (interp_f base_f li lv ri rv) (interp_ent base_e li lv ri rv m n) (bs ++ [M; N])%list.
Proof. exact interp_realizes. Qed.

Theorem C03_gi_cat : forall pieces_f pieces_e sizes dim ns, length pieces_f = length sizes -> (dim < length ns)%nat ->
  nth dim ns 0%nat = fold_right Nat.add 0%nat sizes ->
  (forall k, (k < length sizes)%nat ->
     realizes (nth k pieces_f (fun _ => 0)) (nth k pieces_e (fun _ => 0)) (set_nth ns dim (nth k sizes 0%nat))) ->
  length pieces_e = length sizes ->
  realizes (cat_f pieces_f sizes dim) (cat_ent pieces_e sizes dim) ns.
Proof. exact cat_realizes. Qed.

Theorem C03_gi_matmul : forall Lf Le Rf Re bs m k n, realizes Lf Le (bs ++ [m; k])%list -> realizes Rf Re (bs ++ [k; n])%list ->
  realizes (matmul_f Lf Rf k) (matmul_f Le Re k) (bs ++ [m; n])%list.
Proof. exact matmul_realizes. Qed.

Theorem C03_gi_root : forall Rf Re bs m k, realizes Rf Re (bs ++ [m; k])%list -> realizes (root_f Rf k) (root_f Re k) (bs ++ [m; m])%list.
Proof. exact root_realizes. Qed.

Theorem C03_gi_sumbatch : forall base_f base_e bs nb m n, realizes base_f base_e (bs ++ [nb; m; n])%list ->
  realizes (sumbatch_f base_f nb) (sumbatch_f base_e nb) (bs ++ [m; n])%list.
Proof. exact sumbatch_realizes. Qed.

Theorem C03_gi_sum : forall fs es ns, Forall2 (fun f e => realizes f e ns) fs es -> realizes (sum_f fs) (sum_f es) ns.
Proof. exact sum_realizes. Qed.

Theorem C03_gi_mul : forall f1 e1 f2 e2 ns, realizes f1 e1 ns -> realizes f2 e2 ns -> realizes (mul_f f1 f2) (mul_f e1 e2) ns.
Proof. exact mul_realizes. Qed.

Theorem C03_gi_constmul : forall c f e ns, realizes f e ns -> realizes (constmul_f c f) (constmul_f c e) ns.
Proof. exact constmul_realizes. Qed.

(** _getitem for basic indices, class by class: the class meets the contract for its dense matrix whenever its children do *)

Theorem C03_getitem_dense : forall t, getitem_contract t (dense_getitem t).
Proof. exact dense_getitem_contract. Qed.

Theorem C03_getitem_zero : forall shape, getitem_contract (tab shape zero_f) (zero_getitem shape).
Proof. exact zero_getitem_contract. Qed.

Theorem C03_getitem_sum : forall ta tb ga gb D, ok_tensor ta = true -> ok_tensor tb = true ->
  getitem_contract ta ga -> getitem_contract tb gb -> tzip Z.add ta tb = Some D ->
  getitem_contract D (sum_getitem ga gb).
Proof. exact sum_getitem_contract. Qed.

Theorem C03_getitem_matmul : forall L R gl gr D bs m k n, ok_tensor L = true -> ok_tensor R = true ->
  tshape L = (bs ++ [m; k])%list -> tshape R = (bs ++ [k; n])%list ->
  getitem_contract L gl -> getitem_contract R gr -> tmatmul L R = Some D ->
  getitem_contract D (matmul_getitem gl gr).
Proof. exact matmul_getitem_contract. Qed.

Theorem C03_getitem_sumbatch : forall T g D bs nb m n, ok_tensor T = true -> tshape T = (bs ++ [nb; m; n])%list ->
  getitem_contract T g -> tsumbatch T = Some D -> getitem_contract D (sumbatch_getitem g).
Proof. exact sumbatch_getitem_contract. Qed.

Theorem C03_getitem_constmul : forall c T g D bs m n, ok_tensor c = true -> ok_tensor T = true ->
  tshape c = bs -> tshape T = (bs ++ [m; n])%list -> getitem_contract T g -> tconstmul c T = Some D ->
  getitem_contract D (constmul_getitem c g).
Proof. exact constmul_getitem_contract. Qed.

(* Root / Chol / LowRankRoot: root._getitem(row, :) @ root._getitem(col, :)^T in both branches of the code *)
Theorem C03_getitem_root : forall Rt g D bs m k, ok_tensor Rt = true -> tshape Rt = (bs ++ [m; k])%list ->
  getitem_contract Rt g -> tmatmul_nt Rt Rt = Some D -> getitem_contract D (root_getitem g).
Proof. exact root_getitem_contract. Qed.

(* THE DEFAULT LinearOperator._getitem (inherited by Toeplitz, Kronecker*, Diag / ConstantDiag / Identity, Triangular, Permutation,
   Interpolated bases, ...): batch-only indexing of the operator followed by the unit-weight interpolation that selects rows
   and columns meets the contract for EVERY basic index as soon as the class's batch-only indexing (every component tensor
   indexed with the batch indices) meets it *)
Theorem C03_getitem_default : forall t gb bs m n, ok_tensor t = true -> tshape t = (bs ++ [m; n])%list ->
  batch_only_contract t bs gb -> getitem_contract t (default_getitem gb).
Proof. exact default_getitem_contract. Qed.

(* composed: a Matmul of two operators meeting the contracts, basic indices and the absorbed path *)
Theorem C03_e2e_matmul : forall debug L R gl gr fl fr D bs m k n idx index r,
  ok_tensor L = true -> ok_tensor R = true -> tshape L = (bs ++ [m; k])%list -> tshape R = (bs ++ [k; n])%list ->
  Forall (fun x => (0 < x)%nat) (bs ++ [m; n]) ->
  getitem_contract L gl -> getitem_contract R gr ->
  realizes fl (tget L) (bs ++ [m; k])%list -> realizes fr (tget R) (bs ++ [k; n])%list ->
  tmatmul L R = Some D ->
  spec_expand (length (bs ++ [m; n])) idx = Some index ->
  forallb basic index = true \/ absorbed_idx (length (bs ++ [m; n])) index = true ->
  torch_index D idx = Some r ->
  getitem_front Fixed debug (bs ++ [m; n]) (matmul_getitem gl gr) (gi_elem (matmul_f fl fr k) (bs ++ [m; n])) idx = Some r.
Proof. exact e2e_matmul. Qed.

(** _diagonal, class by class: the formula at batch ++ [i] is the entry of the denoted matrix at batch ++ [i; i] *)

Theorem C03_diagonal_toeplitz : forall column b i, toeplitz_dg column (b ++ [i]) = toeplitz_ent column (b ++ [i; i]).
Proof. exact toeplitz_diagonal_contract. Qed.
Theorem C03_diagonal_diag : forall d b i, d (b ++ [i])%list = diag_ent d (b ++ [i; i]).
Proof. exact diag_diagonal_contract. Qed.
Theorem C03_diagonal_blockdiag_batch : forall base m b i,
  blockdiag_dg (fun y => base (db y ++ [di y; di y])%list) m (b ++ [i]) = blockdiag_ent base m m (b ++ [i; i]).
Proof. exact blockdiag_diagonal_contract. Qed.
Theorem C03_diagonal_blockinterleaved_batch : forall base k b i,
  blockinterleaved_dg (fun y => base (db y ++ [di y; di y])%list) k (b ++ [i]) = blockinterleaved_ent base k (b ++ [i; i]).
Proof. exact blockinterleaved_diagonal_contract. Qed.
Theorem C03_diagonal_root : forall R k b i, root_dg R k (b ++ [i]) = root_f R k (b ++ [i; i]).
Proof. exact root_diagonal_contract. Qed.
Theorem C03_diagonal_matmul_dense : forall L R k b i, matmul_dense_dg L R k (b ++ [i]) = matmul_f L R k (b ++ [i; i]).
Proof. exact matmul_dense_diagonal_contract. Qed.
Theorem C03_diagonal_matmul_diag_left : forall ld R n b i, (i < n)%nat ->
  matmul_diag_dg ld (fun y => R (db y ++ [di y; di y])%list) (b ++ [i]) = matmul_f (diag_ent ld) R n (b ++ [i; i]).
Proof. exact matmul_diag_left_diagonal_contract. Qed.
Theorem C03_diagonal_matmul_diag_right : forall L rd n b i, (i < n)%nat ->
  matmul_diag_dg (fun y => L (db y ++ [di y; di y])%list) rd (b ++ [i]) = matmul_f L (diag_ent rd) n (b ++ [i; i]).
Proof. exact matmul_diag_right_diagonal_contract. Qed.
Theorem C03_diagonal_sumbatch : forall base nb b i,
  sumbatch_dg (fun y => base (db y ++ [di y; di y])%list) nb (b ++ [i]) = sumbatch_f base nb (b ++ [i; i]).
Proof. exact sumbatch_diagonal_contract. Qed.

(* ===================================================================================== *)
(** non-vacuity: the hypotheses are satisfiable on concrete non-trivial inputs *)

Example C03_ex_size :       (* x[:, 0, :, idx] on a (2,3,4,5) tensor: python int applied first, block stays in place *)
  compute_getitem_size true [2;3;4;5]%nat [full; IInt 0; full; ITensor [3]%nat [0;1;4]] = Some [2;4;3]%nat
  /\ exists ps, plans_of [2;3;4;5]%nat [full; IInt 0; full; ITensor [3]%nat [0;1;4]] = Some ps.
Proof. split; [vm_compute; reflexivity|eexists; vm_compute; reflexivity]. Qed.

Example C03_ex_size_front : (* non-adjacent tensor indices: block moves to the front *)
  compute_getitem_size false [2;3;4]%nat [ITensor [2;1]%nat [0;1]; ISlice (Some 1) None (Some 2); ITensor [2]%nat [3;0]]
  = Some [2;2;1]%nat.
Proof. vm_compute. reflexivity. Qed.

Example C03_ex_kron : digits_ok [2;3;2] [1;2;0] /\ compose [2;3;2] [1;2;0] = 10 /\
  kron_digits [2;3;2] 12 10 = [1;2;0].
Proof. split; [repeat constructor; lia|split; vm_compute; reflexivity]. Qed.

Example C03_ex_cat : (* three components of sizes 2, 0, 3: index 3 is local index 1 of component 2 *)
  cat_locate [2;0;3]%nat 3 = (2, 1)%nat /\
  split_slice Fixed [2;2;2]%nat (Some 1) (Some 6) = [(0%nat, 1, 2); (1%nat, 0, 2); (2%nat, 0, 2)].
Proof. split; vm_compute; reflexivity. Qed.

Example C03_ex_front : (* x[-1, 1::2] and x[..., 0] on a 2 x 3 x 4 tensor satisfy the hypotheses of C03_getitem_basic_fixed *)
  let t := mkT [2;3;4]%nat (map Z.of_nat (seq 0 24)) in
  (exists index r, spec_expand 3 [RItem (IInt (-1)); RItem (ISlice (Some 1) None (Some 2))] = Some index /\
     forallb basic index = true /\ torch_index t [RItem (IInt (-1)); RItem (ISlice (Some 1) None (Some 2))] = Some r /\ tshape r = [1; 4]%nat) /\
  getitem_model Fixed true t [REllipsis; RItem (IInt 0)] = Some (mkT [2;3]%nat [0;4;8;12;16;20]).
Proof. vm_compute. split; [eexists; eexists; repeat split; reflexivity|reflexivity]. Qed.

Example C03_ex_front_batch_tensor : (* x[[1,0], :, -1] on a 2 x 3 x 4 tensor: hypotheses of C03_getitem_matrix_basic_fixed hold *)
  let t := mkT [2;3;4]%nat (map Z.of_nat (seq 0 24)) in
  let idx := [RList [1;0]; RItem full; RItem (IInt (-1))] in
  (exists index, spec_expand 3 idx = Some index /\ basic (nth 1 index full) = true /\ basic (nth 2 index full) = true) /\
  torch_index t idx = Some (mkT [2;3]%nat [15;19;23;3;7;11]) /\
  getitem_model Fixed true t idx = Some (mkT [2;3]%nat [15;19;23;3;7;11]) /\
  getitem_model Pinned false t idx = Some (mkT [2;3;0]%nat []).
Proof. vm_compute. repeat split; try reflexivity. eexists. repeat split; reflexivity. Qed.

Example C03_ex_gather : (* x[[0,1],[2,0]] on a 2 x 3 matrix *)
  gather (mkT [2;3]%nat [10;11;12;13;14;15]) [([2]%nat, [0;1]); ([2]%nat, [2;0])] = Some (mkT [2]%nat [12;13]).
Proof. vm_compute. reflexivity. Qed.

Example C03_ex_int_slice : in_range 4 (-4) = true /\ slice_sel (int_as_slice Pinned (-4)) 4 = Some (0, 1).
Proof. split; vm_compute; reflexivity. Qed.

Example C03_ex_absorbed : (* x[[1,0], -2:, [2,3]] on a 2 x 3 x 4 tensor satisfies the hypotheses of C03_getitem_fixed (absorbed path) *)
  let t := mkT [2;3;4]%nat (map Z.of_nat (seq 0 24)) in
  let idx := [RList [1;0]; RItem (ISlice (Some (-2)) None None); RList [2;3]] in
  Forall (fun n => (0 < n)%nat) (tshape t) /\
  (exists index, spec_expand 3 idx = Some index /\ absorbed_idx 3 index = true /\ in_quantifier 3 index = true /\
                 is_int (nth 1 index full) = false /\ is_int (nth 2 index full) = false /\ rank1_tensors index) /\
  torch_index t idx = Some (mkT [2;2]%nat [18;22;7;11]) /\
  getitem_model Pinned true t idx = Some (mkT [2;2]%nat [18;22;7;11]).
Proof.
  split; [repeat constructor|]. split; [eexists; vm_compute; repeat split; try reflexivity; repeat constructor|].
  vm_compute. split; reflexivity.
Qed.

Example C03_ex_lone : (* x[:, 1, [2,0]] on a 2 x 3 x 4 tensor: a lone 1-d tensor in the column position, python int in the row position *)
  let t := mkT [2;3;4]%nat (map Z.of_nat (seq 0 24)) in
  let idx := [RItem full; RItem (IInt 1); RList [2;0]] in
  (exists index, spec_expand 3 idx = Some index /\ in_quantifier 3 index = true /\ absorbed_idx 3 index = false) /\
  torch_index t idx = Some (mkT [2;2]%nat [6;4;18;16]) /\ getitem_model Fixed true t idx = torch_index t idx.
Proof. vm_compute. split; [eexists; repeat split; reflexivity|split; reflexivity]. Qed.

Example C03_ex_interp : (* two interpolation points per side, a duplicate index on the left *)
  interp_get_indices (fun x y => 10 * x + y) [1;1] [2;3] [0;2] [1;-1] = (2 + 3) * (10 - 12) /\
  interp_w [1;1] [2;3] 1 = 5.
Proof. split; vm_compute; reflexivity. Qed.

Example C03_ex_e2e_matmul : (* (L @ R)[1, -1:] and (L @ R)[[1,0],[0,1]] for dense 2x3 / 3x2 factors through the class-level methods *)
  let L := mkT [2;3]%nat [1;2;3;4;5;6] in let R := mkT [3;2]%nat [1;0;0;1;2;2] in
  let g := matmul_getitem (dense_getitem L) (dense_getitem R) in
  let gi := gi_elem (matmul_f (tget L) (tget R) 3) [2;2]%nat in
  tmatmul L R = Some (mkT [2;2]%nat [7;8;16;17]) /\
  getitem_front Fixed true [2;2]%nat g gi [RItem (IInt 1); RItem (ISlice (Some (-1)) None None)] = Some (mkT [1]%nat [17]) /\
  getitem_front Fixed true [2;2]%nat g gi [RList [1;0]; RList [0;1]] = Some (mkT [2]%nat [16;8]).
Proof. vm_compute. repeat split; reflexivity. Qed.

Example C03_ex_realizes_nested : (* the formulas nest: Kron(Toeplitz, BlockDiag(dense)) realizes its entry function *)
  forall (column base : list nat -> Z),
  realizes (kron_f [(3%nat, 3%nat, toeplitz_f column 3); (4%nat, 6%nat, blockdiag_f base 2 3)])
           (kron_ent [(3%nat, 3%nat, toeplitz_ent column); (4%nat, 6%nat, blockdiag_ent base 2 3)]) ([] ++ [12; 18])%nat%list.
Proof.
  intros column base. apply (kron_realizes []).
  - constructor; [split; [reflexivity|apply (toeplitz_realizes column 3 [])]|].
    constructor; [split; [reflexivity|apply (blockdiag_realizes base base 2 3 2 []); [lia|lia|apply realizes_refl]]|constructor].
  - repeat constructor.
Qed.
