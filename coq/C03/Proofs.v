(* C03 — lemmas about the model: Python slice semantics, size computation, index arithmetic *)
From Coq Require Import List ZArith Bool Arith Lia.
Import ListNotations.
Require Import C03.Model.
Open Scope Z_scope.

(* ===================================================================================== *)
(** * slice.indices / range laws *)

Lemma slice_adjust_bounds n st x : 0 <= n -> 0 < st ->
  0 <= slice_adjust n st 0 n x <= n.
Proof.
  intros Hn Hs. unfold slice_adjust.
  destruct (x <? 0) eqn:E1; [destruct (x + n <? 0) eqn:E2|destruct (x >=? n) eqn:E3];
  rewrite ?Z.ltb_lt, ?Z.ltb_ge, ?Z.geb_leb, ?Z.leb_le, ?Z.leb_gt in *; lia.
Qed.

Lemma slice_indices_pos a b s n : 0 <= n -> 0 < odefault 1 s ->
  let '(lo, hi, st) := slice_indices a b s n in 0 <= lo <= n /\ 0 <= hi <= n /\ st = odefault 1 s.
Proof.
  intros Hn Hs. unfold slice_indices.
  assert (E : (odefault 1 s <? 0) = false) by (apply Z.ltb_ge; lia). rewrite E.
  repeat split; destruct a, b; try apply slice_adjust_bounds; try lia.
Qed.

Lemma range_len_pos_spec lo hi st k : 0 < st -> 0 <= k < range_len lo hi st -> lo + k * st < hi.
Proof.
  intros Hs [Hk0 Hk]. unfold range_len in Hk.
  assert (E : (0 <? st) = true) by (apply Z.ltb_lt; lia). rewrite E in Hk.
  destruct (lo <? hi) eqn:E1; [|lia]. apply Z.ltb_lt in E1.
  assert (k <= (hi - lo - 1) / st) by lia.
  assert (k * st <= (hi - lo - 1)).
  { etransitivity; [apply Z.mul_le_mono_nonneg_r; [lia|eassumption]|].
    rewrite Z.mul_comm. apply Z.mul_div_le. lia. }
  lia.
Qed.

Lemma range_len_nonneg lo hi st : 0 <= range_len lo hi st.
Proof.
  unfold range_len. destruct (0 <? st) eqn:E.
  - apply Z.ltb_lt in E. destruct (lo <? hi) eqn:E1; [|lia]. apply Z.ltb_lt in E1.
    assert (0 <= (hi - lo - 1) / st) by (apply Z.div_pos; lia). lia.
  - destruct (st <? 0) eqn:E2; [|lia]. apply Z.ltb_lt in E2.
    destruct (hi <? lo) eqn:E1; [|lia]. apply Z.ltb_lt in E1.
    assert (0 <= (lo - hi - 1) / (- st)) by (apply Z.div_pos; lia). lia.
Qed.

Theorem slice_in_range : forall a b s n k,
  0 <= n -> 0 < odefault 1 s -> 0 <= k < slice_len a b s n ->
  let '(lo, hi, st) := slice_indices a b s n in 0 <= lo + k * st < n.
Proof.
  intros a b s n k Hn Hs Hk. unfold slice_len in Hk.
  pose proof (slice_indices_pos a b s n Hn Hs) as H.
  destruct (slice_indices a b s n) as [[lo hi] st]. destruct H as (Hlo & Hhi & Hst). subst st.
  pose proof (range_len_pos_spec lo hi _ k Hs Hk). split; [|lia].
  assert (0 <= k * odefault 1 s) by (apply Z.mul_nonneg_nonneg; lia). lia.
Qed.
