(* C03 — class-level _getitem for BASIC indices (ints / slices in the batch positions, slices in the matrix positions):
   the transcriptions of Model.v part 7 meet the _getitem contract whenever the children do *)
From Coq Require Import List ZArith Bool Arith Lia.
Import ListNotations.
Require Import C03.Model C03.Proofs C03.ProofsSlice C03.ProofsSize C03.ProofsFront C03.ProofsFront2 C03.ProofsAbsorbed
  C03.ProofsContract C03.ProofsClassContract.
Open Scope nat_scope.

(* ------------------------------------------------------------------------------------- *)
(** basic indexing of a tensor, written with tab *)

Lemma lnat_eqb'_refl l : lnat_eqb' l l = true.
Proof. induction l as [|x l IH]; [reflexivity|]. simpl. rewrite Nat.eqb_refl. exact IH. Qed.
Lemma lnat_eqb'_eq a : forall b, lnat_eqb' a b = true -> a = b.
Proof.
  induction a as [|x a IH]; intros [|y b] H; try discriminate; [reflexivity|]. simpl in H. apply andb_true_iff in H as [H1 H2].
  apply Nat.eqb_eq in H1. f_equal; [assumption|apply IH; assumption].
Qed.

(* the source coordinates of an output position are valid coordinates of the indexed tensor *)
Lemma src_in_enum ns : forall its ps oi, plans_of ns its = Some ps -> forallb no_te ps = true ->
  In oi (enum (slens ps)) -> In (src ps ns [] [] oi) (enum ns).
Proof.
  induction ns as [|n ns IH]; intros [|it its] ps oi H Hn Hoi; simpl in H; try discriminate.
  - inversion H; subst. left. reflexivity.
  - destruct (plan_of n it) as [pl|] eqn:Ep; [|discriminate]. destruct (plans_of ns its) as [r|] eqn:Er; [|discriminate].
    inversion H; subst. simpl in Hn. apply andb_true_iff in Hn as [Hn1 Hn2]. apply in_enum.
    destruct it as [i|a b s|sh d].
    + destruct (plan_int_inv _ _ _ Ep) as [Ei ->]. cbn [src]. constructor.
      * pose proof (wrap_in_range _ _ Ei). lia.
      * apply enum_forall2. apply (IH its r oi Er Hn2). exact Hoi.
    + destruct (plan_slice_inv _ _ _ _ _ Ep) as (lo & st & len & ->).
      destruct (arange_slice_plan _ _ _ _ _ _ _ Ep) as [_ A2].
      rewrite slens_cons in Hoi. cbn [app] in Hoi. cbn [enum] in Hoi.
      apply in_flat_map in Hoi as [k [Hk Hoi]]. apply in_map_iff in Hoi as [oi' [<- Hoi']]. apply in_seq in Hk.
      cbn [src hd tl]. constructor.
      * specialize (A2 k ltac:(lia)). lia.
      * apply enum_forall2. apply (IH its r oi' Er Hn2). exact Hoi'.
    + destruct (plan_tensor_inv _ _ _ _ Ep) as (-> & _). discriminate.
Qed.

Theorem index_tab_basic : forall sh f its ps, plans_of sh its = Some ps -> forallb no_te ps = true ->
  torch_index_norm (tab sh f) its = Some (tab (slens ps) (fun oi => f (src ps sh [] [] oi))).
Proof.
  intros sh f its ps Hp Hn. rewrite (torch_index_norm_basic (tab sh f) its ps Hp Hn). unfold basic_result, tab. simpl tshape.
  f_equal. f_equal. apply map_ext_in. intros oi Hoi. apply (tget_tab sh f). eapply src_in_enum; eassumption.
Qed.

(* indexing any well-formed tensor *)
Corollary index_basic : forall t its ps, ok_tensor t = true -> plans_of (tshape t) its = Some ps -> forallb no_te ps = true ->
  torch_index_norm t its = Some (tab (slens ps) (fun oi => tget t (src ps (tshape t) [] [] oi))).
Proof. intros t its ps Hok Hp Hn. rewrite <- (tab_tget t Hok) at 1. apply index_tab_basic; assumption. Qed.

Lemma ok_tab sh f : ok_tensor (tab sh f) = true.
Proof. unfold ok_tensor, tab. simpl. rewrite map_length, enum_count. apply Nat.eqb_refl. Qed.

(* ------------------------------------------------------------------------------------- *)
(** what a _getitem input looks like *)

Lemma input_split nd its : getitem_input nd its -> 2 <= nd ->
  its = ibatch its ++ [irow its; icol its] /\ forallb basic (ibatch its) = true /\
  is_slice (irow its) = true /\ is_slice (icol its) = true /\ length (ibatch its) = nd - 2.
Proof.
  intros (Hl & Hb & Hr & Hc) Hnd. unfold ibatch, irow, icol. rewrite Hl. repeat split; try assumption.
  - apply (list_split_last2 full its nd Hl Hnd).
  - apply basic_firstn. assumption.
  - rewrite firstn_length. lia.
Qed.

Lemma input_no_te nd its sh ps : getitem_input nd its -> plans_of sh its = Some ps -> forallb no_te ps = true.
Proof. intros (_ & Hb & _) Hp. eapply basic_plans; eassumption. Qed.

Lemma index_some_plans t its r : torch_index_norm t its = Some r -> exists ps, plans_of (tshape t) its = Some ps.
Proof. unfold torch_index_norm. destruct (plans_of (tshape t) its) as [ps|]; [eauto|discriminate]. Qed.

(* ------------------------------------------------------------------------------------- *)
(** Zero: the size computed by _compute_getitem_size, entries 0 *)

Theorem zero_getitem_contract : forall shape, getitem_contract (tab shape zero_f) (zero_getitem shape).
Proof.
  intros shape its r GI H. unfold zero_getitem.
  pose proof (compute_getitem_size_torch false _ its r H) as CS. simpl tshape in CS. rewrite CS. simpl option_map. f_equal.
  destruct (index_some_plans _ _ _ H) as [ps Hp]. simpl tshape in Hp.
  rewrite (index_tab_basic shape zero_f its ps Hp (input_no_te _ _ _ _ GI Hp)) in H. inversion H. reflexivity.
Qed.

(* ------------------------------------------------------------------------------------- *)
(** Sum of two operators *)

Theorem sum_getitem_contract : forall ta tb ga gb D, ok_tensor ta = true -> ok_tensor tb = true ->
  getitem_contract ta ga -> getitem_contract tb gb -> tzip Z.add ta tb = Some D ->
  getitem_contract D (sum_getitem ga gb).
Proof.
  intros ta tb ga gb D Oa Ob Ca Cb HD its r GI H. unfold tzip in HD.
  destruct (lnat_eqb' (tshape ta) (tshape tb)) eqn:E; [|discriminate]. apply lnat_eqb'_eq in E. inversion HD; subst D. clear HD.
  destruct (index_some_plans _ _ _ H) as [ps Hp]. simpl tshape in Hp, GI.
  pose proof (input_no_te _ _ _ _ GI Hp) as Hn.
  rewrite (index_tab_basic _ _ its ps Hp Hn) in H. inversion H; subst r. clear H.
  unfold sum_getitem.
  rewrite (Ca its _ GI (index_basic ta its ps Oa Hp Hn)).
  assert (Hpb : plans_of (tshape tb) its = Some ps) by (rewrite <- E; exact Hp).
  assert (GIb : getitem_input (length (tshape tb)) its) by (rewrite <- E; exact GI).
  rewrite (Cb its _ GIb (index_basic tb its ps Ob Hpb Hn)).
  unfold tzip. simpl tshape. rewrite lnat_eqb'_refl. f_equal. apply tab_ext. intros x Hx.
  rewrite !tget_tab by assumption. rewrite E. reflexivity.
Qed.

(* ------------------------------------------------------------------------------------- *)
(** Matmul:  Matmul(left._getitem(row, :, batch), right._getitem(:, col, batch)) *)

Lemma plan_full k : plan_of k full = Some (PSl 0 1 k).
Proof.
  unfold plan_of, full. cbv zeta. simpl odefault. change (1 <=? 0)%Z with false. cbv iota.
  unfold slice_indices. simpl odefault. change (1 <? 0)%Z with false. cbv iota. f_equal. f_equal.
  unfold range_len. change (0 <? 1)%Z with true. cbv iota. destruct (0 <? Z.of_nat k)%Z eqn:E.
  - apply Z.ltb_lt in E. rewrite Z.div_1_r. lia.
  - apply Z.ltb_ge in E. lia.
Qed.

Lemma src_split psB : forall bs tl tlns ob y, length psB = length bs -> length ob = length (slens psB) ->
  src (psB ++ tl) (bs ++ tlns) [] [] (ob ++ y) = src psB bs [] [] ob ++ src tl tlns [] [] y.
Proof.
  intros bs tl tlns ob y Hl Ho. rewrite src_app by assumption. rewrite src_prefix by assumption.
  rewrite <- Ho, skipn_app_len. reflexivity.
Qed.

Lemma slice_plan n it : is_slice it = true -> forall p, plan_of n it = Some p -> exists lo st len, p = PSl lo st len.
Proof. intros H p Hp. destruct it as [i|a b s|sh d]; try discriminate. eapply plan_slice_inv. exact Hp. Qed.

Lemma plans_split bs m n its ps : getitem_input (length (bs ++ [m; n])) its -> plans_of (bs ++ [m; n]) its = Some ps ->
  exists psB lr sr lenr lc sc lenc,
    plans_of bs (ibatch its) = Some psB /\ plan_of m (irow its) = Some (PSl lr sr lenr) /\ plan_of n (icol its) = Some (PSl lc sc lenc) /\
    ps = psB ++ [PSl lr sr lenr; PSl lc sc lenc] /\ forallb no_te psB = true /\ length psB = length bs /\
    length (ibatch its) = length bs.
Proof.
  intros GI Hp. rewrite app_length in GI. simpl length in GI.
  destruct (input_split _ _ GI ltac:(lia)) as (E & HbB & Hr & Hc & LB). replace (length bs + 2 - 2) with (length bs) in LB by lia.
  rewrite E in Hp. rewrite plans_of_app in Hp by lia.
  destruct (plans_of bs (ibatch its)) as [psB|] eqn:HpB; [|discriminate]. simpl plans_of in Hp.
  destruct (plan_of m (irow its)) as [pr|] eqn:Hpr; [|discriminate].
  destruct (plan_of n (icol its)) as [pc|] eqn:Hpc; [|discriminate]. inversion Hp; subst ps.
  destruct (slice_plan _ _ Hr _ Hpr) as (lr & sr & lenr & ->). destruct (slice_plan _ _ Hc _ Hpc) as (lc & sc & lenc & ->).
  exists psB, lr, sr, lenr, lc, sc, lenc. repeat split; try reflexivity; try assumption.
  - eapply basic_plans; eassumption.
  - eapply plans_of_length_ps. exact HpB.
Qed.

Lemma input_mk (bs : list nat) (m n : nat) (B : list item) row col : length B = length bs -> forallb basic B = true -> is_slice row = true -> is_slice col = true ->
  getitem_input (length (bs ++ [m; n])) (B ++ [row; col]) /\
  ibatch (B ++ [row; col]) = B /\ irow (B ++ [row; col]) = row /\ icol (B ++ [row; col]) = col.
Proof.
  intros LB HbB Hr Hc. unfold getitem_input, ibatch, irow, icol. rewrite !app_length. simpl length.
  replace (length B + 2 - 2) with (length B) by lia. replace (length B + 2 - 1) with (length B + 1) by lia.
  replace (length bs + 2 - 2) with (length B) by lia. replace (length bs + 2 - 1) with (length B + 1) by lia.
  rewrite firstn_app_len, forallb_app, HbB. rewrite !app_nth2 by lia.
  rewrite Nat.sub_diag. replace (length B + 1 - length B) with 1 by lia. cbn [nth forallb].
  destruct row; try discriminate; destruct col; try discriminate. repeat split; lia.
Qed.

Lemma matmul_f_app A B k b r c : matmul_f A B k (b ++ [r; c]) =
  zsum_upto k (fun q => A (b ++ [r; Z.to_nat q]) * B (b ++ [Z.to_nat q; c]))%Z.
Proof. unfold matmul_f. rewrite cb_app, cr_app, cc_app. reflexivity. Qed.

Theorem matmul_getitem_contract : forall L R gl gr D bs m k n, ok_tensor L = true -> ok_tensor R = true ->
  tshape L = bs ++ [m; k] -> tshape R = bs ++ [k; n] ->
  getitem_contract L gl -> getitem_contract R gr -> tmatmul L R = Some D ->
  getitem_contract D (matmul_getitem gl gr).
Proof.
  intros L R gl gr D bs m k n OL OR SL SR CL CR HD its r GI H.
  assert (ED : D = tab (bs ++ [m; n]) (matmul_f (tget L) (tget R) k)).
  { unfold tmatmul in HD. rewrite SL, SR in HD. rewrite !app_length in HD. simpl length in HD.
    replace (length bs + 2 - 2) with (length bs) in HD by lia. replace (length bs + 2 - 1) with (length bs + 1) in HD by lia.
    rewrite firstn_app_len in HD. rewrite !app_nth2 in HD by lia. rewrite Nat.sub_diag in HD.
    replace (length bs + 1 - length bs) with 1 in HD by lia. cbn [nth] in HD. rewrite lnat_eqb'_refl in HD.
    replace (2 <=? length bs + 2) with true in HD by (symmetry; apply Nat.leb_le; lia). simpl andb in HD. inversion HD. reflexivity. }
  subst D. simpl tshape in GI. destruct (index_some_plans _ _ _ H) as [ps Hp]. simpl tshape in Hp.
  destruct (plans_split bs m n its ps GI Hp) as (psB & lr & sr & lenr & lc & sc & lenc & HpB & Hpr & Hpc & -> & HnB & LpB & LB).
  assert (Hn : forallb no_te (psB ++ [PSl lr sr lenr; PSl lc sc lenc]) = true) by (rewrite forallb_app, HnB; reflexivity).
  rewrite (index_tab_basic _ _ its _ Hp Hn) in H. inversion H; subst r. clear H.
  destruct GI as (GL & GB & GR & GC). rewrite <- GL in GR, GC. change (is_slice (irow its) = true) in GR. change (is_slice (icol its) = true) in GC.
  assert (HbB : forallb basic (ibatch its) = true) by (apply basic_firstn; assumption).
  (* the two children *)
  destruct (input_mk bs m k (ibatch its) (irow its) full LB HbB GR eq_refl) as (GIL & _).
  destruct (input_mk bs k n (ibatch its) full (icol its) LB HbB eq_refl GC) as (GIR & _).
  assert (HpL : plans_of (tshape L) (ibatch its ++ [irow its; full]) = Some (psB ++ [PSl lr sr lenr; PSl 0 1 k])).
  { rewrite SL, plans_of_app by lia. rewrite HpB. cbn [plans_of]. rewrite Hpr, plan_full. reflexivity. }
  assert (HpR : plans_of (tshape R) (ibatch its ++ [full; icol its]) = Some (psB ++ [PSl 0 1 k; PSl lc sc lenc])).
  { rewrite SR, plans_of_app by lia. rewrite HpB. cbn [plans_of]. rewrite Hpc, plan_full. reflexivity. }
  assert (HnL : forallb no_te (psB ++ [PSl lr sr lenr; PSl 0 1 k]) = true) by (rewrite forallb_app, HnB; reflexivity).
  assert (HnR : forallb no_te (psB ++ [PSl 0 1 k; PSl lc sc lenc]) = true) by (rewrite forallb_app, HnB; reflexivity).
  unfold matmul_getitem. rewrite <- SL in GIL. rewrite <- SR in GIR.
  rewrite (CL _ _ GIL (index_basic L _ _ OL HpL HnL)). rewrite (CR _ _ GIR (index_basic R _ _ OR HpR HnR)).
  rewrite !slens_app. set (lB := slens psB).
  change (slens [PSl lr sr lenr; PSl 0 1 k]) with [lenr; k]. change (slens [PSl 0 1 k; PSl lc sc lenc]) with [k; lenc].
  change (slens [PSl lr sr lenr; PSl lc sc lenc]) with [lenr; lenc].
  unfold tmatmul. simpl tshape. rewrite !app_length. simpl length.
  replace (length lB + 2 - 2) with (length lB) by lia. replace (length lB + 2 - 1) with (length lB + 1) by lia.
  rewrite firstn_app_len. rewrite !app_nth2 by lia. rewrite Nat.sub_diag. replace (length lB + 1 - length lB) with 1 by lia.
  cbn [nth]. rewrite lnat_eqb'_refl. replace (2 <=? length lB + 2) with true by (symmetry; apply Nat.leb_le; lia). simpl andb. cbv iota.
  f_equal. apply tab_ext. intros x Hx. destruct (enum_last2 _ _ _ _ Hx) as (ob & i & j & -> & Hob & Hi & Hj).
  pose proof (enum_length _ _ Hob) as Lob. fold lB in Lob.
  rewrite SL, SR.
  rewrite (src_split psB bs _ [m; n] ob [i; j] LpB Lob). cbn [src hd tl]. rewrite !matmul_f_app.
  apply zsum_upto_ext_nat. intros q Hq. rewrite Nat2Z.id.
  rewrite !tget_tab by (apply in_enum_app; [assumption|apply in_enum; repeat constructor; assumption]).
  rewrite (src_split psB bs _ [m; k] ob [i; q] LpB Lob). rewrite (src_split psB bs _ [k; n] ob [q; j] LpB Lob).
  cbn [src hd tl]. rewrite !Z.mul_1_l, !Z.add_0_l, !Nat2Z.id. reflexivity.
Qed.

(* ------------------------------------------------------------------------------------- *)
(** SumBatch:  SumBatch(base._getitem(row, col, batch, :)) — the block dimension of the base is kept whole and summed *)

Lemma sumbatch_f_app A nb b r c : sumbatch_f A nb (b ++ [r; c]) = zsum_upto nb (fun q => A (b ++ [Z.to_nat q; r; c])).
Proof. unfold sumbatch_f. rewrite cb_app, cr_app, cc_app. reflexivity. Qed.

Theorem sumbatch_getitem_contract : forall T g D bs nb m n, ok_tensor T = true -> tshape T = bs ++ [nb; m; n] ->
  getitem_contract T g -> tsumbatch T = Some D -> getitem_contract D (sumbatch_getitem g).
Proof.
  intros T g D bs nb m n OT ST CT HD its r GI H.
  assert (ED : D = tab (bs ++ [m; n]) (sumbatch_f (tget T) nb)).
  { unfold tsumbatch in HD. rewrite ST in HD. rewrite !app_length in HD. simpl length in HD.
    replace (3 <=? length bs + 3) with true in HD by (symmetry; apply Nat.leb_le; lia).
    replace (length bs + 3 - 3) with (length bs) in HD by lia. replace (length bs + 3 - 2) with (length bs + 1) in HD by lia.
    rewrite firstn_app_len in HD. rewrite app_nth2 in HD by lia. rewrite Nat.sub_diag in HD. cbn [nth] in HD.
    replace (skipn (length bs + 1) (bs ++ [nb; m; n])) with [m; n] in HD; [inversion HD; reflexivity|].
    rewrite skipn_app, skipn_all2 by lia. replace (length bs + 1 - length bs) with 1 by lia. reflexivity. }
  subst D. simpl tshape in GI. destruct (index_some_plans _ _ _ H) as [ps Hp]. simpl tshape in Hp.
  destruct (plans_split bs m n its ps GI Hp) as (psB & lr & sr & lenr & lc & sc & lenc & HpB & Hpr & Hpc & -> & HnB & LpB & LB).
  assert (Hn : forallb no_te (psB ++ [PSl lr sr lenr; PSl lc sc lenc]) = true) by (rewrite forallb_app, HnB; reflexivity).
  rewrite (index_tab_basic _ _ its _ Hp Hn) in H. inversion H; subst r. clear H.
  destruct GI as (GL & GB & GR & GC). rewrite <- GL in GR, GC. change (is_slice (irow its) = true) in GR. change (is_slice (icol its) = true) in GC.
  assert (HbB : forallb basic (ibatch its) = true) by (apply basic_firstn; assumption).
  assert (HbB' : forallb basic (ibatch its ++ [full]) = true) by (rewrite forallb_app, HbB; reflexivity).
  assert (LB' : length (ibatch its ++ [full]) = length (bs ++ [nb])) by (rewrite !app_length; simpl; lia).
  destruct (input_mk (bs ++ [nb]) m n (ibatch its ++ [full]) (irow its) (icol its) LB' HbB' GR GC) as (GIT & _).
  rewrite <- !app_assoc in GIT. cbn [app] in GIT. rewrite <- ST in GIT.
  set (psB' := psB ++ [PSl 0 1 nb]).
  assert (HpT : plans_of (tshape T) (ibatch its ++ [full; irow its; icol its]) = Some (psB' ++ [PSl lr sr lenr; PSl lc sc lenc])).
  { rewrite ST. replace (bs ++ [nb; m; n]) with ((bs ++ [nb]) ++ [m; n]) by (rewrite <- app_assoc; reflexivity).
    replace (ibatch its ++ [full; irow its; icol its]) with ((ibatch its ++ [full]) ++ [irow its; icol its]) by (rewrite <- app_assoc; reflexivity).
    rewrite plans_of_app by (rewrite !app_length; simpl; lia). rewrite plans_of_app by lia. rewrite HpB. cbn [plans_of].
    rewrite plan_full, Hpr, Hpc. reflexivity. }
  assert (HnT : forallb no_te (psB' ++ [PSl lr sr lenr; PSl lc sc lenc]) = true) by (unfold psB'; rewrite !forallb_app, HnB; reflexivity).
  unfold sumbatch_getitem. rewrite (CT _ _ GIT (index_basic T _ _ OT HpT HnT)).
  unfold psB'. rewrite !slens_app. set (lB := slens psB).
  change (slens [PSl 0 1 nb]) with [nb]. change (slens [PSl lr sr lenr; PSl lc sc lenc]) with [lenr; lenc].
  unfold tsumbatch. simpl tshape. rewrite !app_length. simpl length.
  replace (3 <=? length lB + 1 + 2) with true by (symmetry; apply Nat.leb_le; lia).
  replace (length lB + 1 + 2 - 3) with (length lB) by lia. replace (length lB + 1 + 2 - 2) with (length (lB ++ [nb])) by (rewrite app_length; simpl; lia).
  rewrite skipn_app_len. rewrite <- app_assoc. rewrite firstn_app_len. rewrite app_nth2 by lia. rewrite Nat.sub_diag. cbn [nth app].
  f_equal. apply tab_ext. intros x Hx. destruct (enum_last2 _ _ _ _ Hx) as (ob & i & j & -> & Hob & Hi & Hj).
  pose proof (enum_length _ _ Hob) as Lob. fold lB in Lob.
  rewrite (src_split psB bs _ [m; n] ob [i; j] LpB Lob). cbn [src hd tl]. rewrite !sumbatch_f_app.
  apply zsum_upto_ext_nat. intros q Hq. rewrite Nat2Z.id.
  rewrite tget_tab.
  2:{ replace (ob ++ [q; i; j]) with (ob ++ [q] ++ [i; j]) by reflexivity.
      apply in_enum_app; [assumption|]. apply in_enum. repeat constructor; assumption. }
  rewrite ST. replace (bs ++ [nb; m; n]) with ((bs ++ [nb]) ++ [m; n]) by (rewrite <- app_assoc; reflexivity).
  replace (ob ++ [q; i; j]) with ((ob ++ [q]) ++ [i; j]) by (rewrite <- app_assoc; reflexivity).
  rewrite (src_split (psB ++ [PSl 0 1 nb]) (bs ++ [nb]) _ [m; n] (ob ++ [q]) [i; j]).
  - rewrite (src_split psB bs _ [nb] ob [q] LpB Lob). cbn [src hd tl]. rewrite Z.mul_1_l, Z.add_0_l, Nat2Z.id.
    rewrite <- app_assoc. reflexivity.
  - rewrite !app_length. simpl. lia.
  - rewrite slens_app, !app_length. simpl. fold lB. lia.
Qed.

(* ------------------------------------------------------------------------------------- *)
(** ConstantMul:  base._getitem(..) scaled by constant.expand(batch_shape)[batch_indices] *)

Theorem constmul_getitem_contract : forall c T g D bs m n, ok_tensor c = true -> ok_tensor T = true ->
  tshape c = bs -> tshape T = bs ++ [m; n] -> getitem_contract T g -> tconstmul c T = Some D ->
  getitem_contract D (constmul_getitem c g).
Proof.
  intros c T g D bs m n Oc OT Sc ST CT HD its r GI H.
  assert (ED : D = tab (bs ++ [m; n]) (constmul_f (tget c) (tget T))).
  { unfold tconstmul in HD. rewrite ST, Sc in HD. rewrite app_length in HD. simpl length in HD.
    replace (length bs + 2 - 2) with (length bs) in HD by lia. rewrite firstn_app_len, lnat_eqb'_refl in HD. inversion HD. reflexivity. }
  subst D. simpl tshape in GI. destruct (index_some_plans _ _ _ H) as [ps Hp]. simpl tshape in Hp.
  destruct (plans_split bs m n its ps GI Hp) as (psB & lr & sr & lenr & lc & sc & lenc & HpB & Hpr & Hpc & -> & HnB & LpB & LB).
  assert (Hn : forallb no_te (psB ++ [PSl lr sr lenr; PSl lc sc lenc]) = true) by (rewrite forallb_app, HnB; reflexivity).
  rewrite (index_tab_basic _ _ its _ Hp Hn) in H. inversion H; subst r. clear H.
  unfold constmul_getitem. rewrite <- ST in GI, Hp.
  rewrite (CT _ _ GI (index_basic T _ _ OT Hp Hn)).
  rewrite <- Sc in HpB. rewrite (index_basic c _ _ Oc HpB HnB).
  rewrite slens_app. set (lB := slens psB). change (slens [PSl lr sr lenr; PSl lc sc lenc]) with [lenr; lenc].
  unfold tconstmul. simpl tshape. rewrite app_length. simpl length. replace (length lB + 2 - 2) with (length lB) by lia.
  rewrite firstn_app_len, lnat_eqb'_refl. f_equal. apply tab_ext. intros x Hx.
  destruct (enum_last2 _ _ _ _ Hx) as (ob & i & j & -> & Hob & Hi & Hj).
  pose proof (enum_length _ _ Hob) as Lob. fold lB in Lob.
  unfold constmul_f. rewrite cb_app. rewrite !tget_tab by (first [assumption | apply in_enum_app; [assumption|apply in_enum; repeat constructor; assumption]]).
  rewrite ST, Sc. rewrite (src_split psB bs _ [m; n] ob [i; j] LpB Lob). cbn [src hd tl]. rewrite cb_app. reflexivity.
Qed.

(* ------------------------------------------------------------------------------------- *)
(** Dense *)

Theorem dense_getitem_contract : forall t, getitem_contract t (dense_getitem t).
Proof. intros t its r _ H. exact H. Qed.

(* ------------------------------------------------------------------------------------- *)
(** the DEFAULT LinearOperator._getitem: batch-only indexing of the operator, then unit-weight interpolation = selection of
    rows and columns.  It meets the contract for every basic index as soon as the class's batch-only indexing does. *)

Definition fullp (n : nat) : dplan := PSl 0 1 n.

Lemma plans_fulls l : plans_of l (repeat full (length l)) = Some (map fullp l).
Proof. induction l as [|n l IH]; [reflexivity|]. cbn [length repeat plans_of map]. rewrite plan_full, IH. reflexivity. Qed.
Lemma slens_fulls l : slens (map fullp l) = l.
Proof. induction l as [|n l IH]; [reflexivity|]. cbn [map]. rewrite slens_cons, IH. reflexivity. Qed.
Lemma no_te_fulls l : forallb no_te (map fullp l) = true.
Proof. induction l; simpl; auto. Qed.
Lemma src_fulls l : forall ob, length ob = length l -> src (map fullp l) l [] [] ob = ob.
Proof.
  induction l as [|n l IH]; intros [|k ob] H; try discriminate; [reflexivity|]. cbn [map src hd tl fullp].
  rewrite Z.mul_1_l, Z.add_0_l, Nat2Z.id. f_equal. apply IH. simpl in H. lia.
Qed.

Definition batch_only_contract (t : tensor) (bs : list nat) (gb : list item -> option tensor) : Prop :=
  forall B r0, length B = length bs -> forallb basic B = true ->
    torch_index_norm t (B ++ [full; full]) = Some r0 -> gb (B ++ [full; full]) = Some r0.

Theorem default_getitem_contract : forall t gb bs m n, ok_tensor t = true -> tshape t = bs ++ [m; n] ->
  batch_only_contract t bs gb -> getitem_contract t (default_getitem gb).
Proof.
  intros t gb bs m n Ot St Cb its r GI H. rewrite St in GI.
  destruct (index_some_plans _ _ _ H) as [ps Hp]. rewrite St in Hp.
  destruct (plans_split bs m n its ps GI Hp) as (psB & lr & sr & lenr & lc & sc & lenc & HpB & Hpr & Hpc & -> & HnB & LpB & LB).
  assert (Hn : forallb no_te (psB ++ [PSl lr sr lenr; PSl lc sc lenc]) = true) by (rewrite forallb_app, HnB; reflexivity).
  rewrite <- St in Hp. rewrite (index_basic t its _ Ot Hp Hn) in H. inversion H; subst r. clear H.
  destruct GI as (GL & GB & GR & GC). rewrite <- GL in GR, GC. change (is_slice (irow its) = true) in GR. change (is_slice (icol its) = true) in GC.
  assert (HbB : forallb basic (ibatch its) = true) by (apply basic_firstn; assumption).
  assert (HpF : plans_of (tshape t) (ibatch its ++ [full; full]) = Some (psB ++ [fullp m; fullp n])).
  { rewrite St, plans_of_app by lia. rewrite HpB. cbn [plans_of]. rewrite !plan_full. reflexivity. }
  assert (HnF : forallb no_te (psB ++ [fullp m; fullp n]) = true) by (rewrite forallb_app, HnB; reflexivity).
  unfold default_getitem. rewrite (Cb _ _ LB HbB (index_basic t _ _ Ot HpF HnF)).
  rewrite !slens_app. set (lB := slens psB). change (slens [fullp m; fullp n]) with [m; n].
  change (slens [PSl lr sr lenr; PSl lc sc lenc]) with [lenr; lenc].
  simpl tshape. rewrite app_length. simpl length. replace (length lB + 2 - 2) with (length lB) by lia.
  assert (Hp2 : plans_of (lB ++ [m; n]) (repeat full (length lB) ++ [irow its; icol its]) =
                Some (map fullp lB ++ [PSl lr sr lenr; PSl lc sc lenc])).
  { rewrite plans_of_app by (rewrite repeat_length; reflexivity). rewrite plans_fulls. cbn [plans_of]. rewrite Hpr, Hpc. reflexivity. }
  assert (Hn2 : forallb no_te (map fullp lB ++ [PSl lr sr lenr; PSl lc sc lenc]) = true) by (rewrite forallb_app, no_te_fulls; reflexivity).
  rewrite (index_tab_basic _ _ _ _ Hp2 Hn2). rewrite slens_app, slens_fulls.
  change (slens [PSl lr sr lenr; PSl lc sc lenc]) with [lenr; lenc]. f_equal. apply tab_ext. intros x Hx.
  destruct (enum_last2 _ _ _ _ Hx) as (ob & i & j & -> & Hob & Hi & Hj).
  pose proof (enum_length _ _ Hob) as Lob.
  rewrite (src_split (map fullp lB) lB _ [m; n] ob [i; j]) by (rewrite ?map_length, ?slens_fulls; assumption || reflexivity).
  rewrite src_fulls by assumption. cbn [src hd tl].
  rewrite St. fold lB in Lob. rewrite (src_split psB bs _ [m; n] ob _ LpB Lob).
  rewrite (src_split psB bs _ [m; n] ob [i; j] LpB Lob). cbn [src hd tl fullp].
  rewrite !Z.mul_1_l, !Z.add_0_l, !Nat2Z.id. reflexivity.
Qed.

(* ------------------------------------------------------------------------------------- *)
(** Root (also Chol, LowRankRoot):  root._getitem(row, :, batch) @ root._getitem(col, :, batch)^T  in both branches *)

Theorem root_getitem_contract : forall Rt g D bs m k, ok_tensor Rt = true -> tshape Rt = bs ++ [m; k] ->
  getitem_contract Rt g -> tmatmul_nt Rt Rt = Some D -> getitem_contract D (root_getitem g).
Proof.
  intros Rt g D bs m k OR SR CR HD its r GI H.
  assert (ED : D = tab (bs ++ [m; m]) (fun x => zsum_upto k (fun q => tget Rt (cb x ++ [cr x; Z.to_nat q]) * tget Rt (cb x ++ [cc x; Z.to_nat q])))%Z).
  { unfold tmatmul_nt in HD. rewrite SR in HD. rewrite !app_length in HD. simpl length in HD.
    replace (length bs + 2 - 2) with (length bs) in HD by lia. replace (length bs + 2 - 1) with (length bs + 1) in HD by lia.
    rewrite firstn_app_len in HD. rewrite !app_nth2 in HD by lia. rewrite Nat.sub_diag in HD.
    replace (length bs + 1 - length bs) with 1 in HD by lia. cbn [nth] in HD. rewrite lnat_eqb'_refl in HD.
    replace (2 <=? length bs + 2) with true in HD by (symmetry; apply Nat.leb_le; lia). simpl andb in HD. inversion HD. reflexivity. }
  subst D. simpl tshape in GI. destruct (index_some_plans _ _ _ H) as [ps Hp]. simpl tshape in Hp.
  destruct (plans_split bs m m its ps GI Hp) as (psB & lr & sr & lenr & lc & sc & lenc & HpB & Hpr & Hpc & -> & HnB & LpB & LB).
  assert (Hn : forallb no_te (psB ++ [PSl lr sr lenr; PSl lc sc lenc]) = true) by (rewrite forallb_app, HnB; reflexivity).
  rewrite (index_tab_basic _ _ its _ Hp Hn) in H. inversion H; subst r. clear H.
  destruct GI as (GL & GB & GR & GC). rewrite <- GL in GR, GC. change (is_slice (irow its) = true) in GR. change (is_slice (icol its) = true) in GC.
  assert (HbB : forallb basic (ibatch its) = true) by (apply basic_firstn; assumption).
  destruct (input_mk bs m k (ibatch its) (irow its) full LB HbB GR eq_refl) as (GIL & _).
  destruct (input_mk bs m k (ibatch its) (icol its) full LB HbB GC eq_refl) as (GIR & _).
  assert (HpL : plans_of (tshape Rt) (ibatch its ++ [irow its; full]) = Some (psB ++ [PSl lr sr lenr; PSl 0 1 k])).
  { rewrite SR, plans_of_app by lia. rewrite HpB. cbn [plans_of]. rewrite Hpr, plan_full. reflexivity. }
  assert (HpR : plans_of (tshape Rt) (ibatch its ++ [icol its; full]) = Some (psB ++ [PSl lc sc lenc; PSl 0 1 k])).
  { rewrite SR, plans_of_app by lia. rewrite HpB. cbn [plans_of]. rewrite Hpc, plan_full. reflexivity. }
  assert (HnL : forallb no_te (psB ++ [PSl lr sr lenr; PSl 0 1 k]) = true) by (rewrite forallb_app, HnB; reflexivity).
  assert (HnR : forallb no_te (psB ++ [PSl lc sc lenc; PSl 0 1 k]) = true) by (rewrite forallb_app, HnB; reflexivity).
  unfold root_getitem. rewrite <- SR in GIL, GIR.
  rewrite (CR _ _ GIL (index_basic Rt _ _ OR HpL HnL)). rewrite (CR _ _ GIR (index_basic Rt _ _ OR HpR HnR)).
  rewrite !slens_app. set (lB := slens psB).
  change (slens [PSl lr sr lenr; PSl 0 1 k]) with [lenr; k]. change (slens [PSl lc sc lenc; PSl 0 1 k]) with [lenc; k].
  change (slens [PSl lr sr lenr; PSl lc sc lenc]) with [lenr; lenc].
  unfold tmatmul_nt. simpl tshape. rewrite !app_length. simpl length.
  replace (length lB + 2 - 2) with (length lB) by lia. replace (length lB + 2 - 1) with (length lB + 1) by lia.
  rewrite firstn_app_len. rewrite !app_nth2 by lia. rewrite Nat.sub_diag. replace (length lB + 1 - length lB) with 1 by lia.
  cbn [nth]. rewrite lnat_eqb'_refl. replace (2 <=? length lB + 2) with true by (symmetry; apply Nat.leb_le; lia). simpl andb. cbv iota.
  f_equal. apply tab_ext. intros x Hx. destruct (enum_last2 _ _ _ _ Hx) as (ob & i & j & -> & Hob & Hi & Hj).
  pose proof (enum_length _ _ Hob) as Lob. fold lB in Lob.
  rewrite SR. rewrite (src_split psB bs _ [m; m] ob [i; j] LpB Lob). cbn [src hd tl]. rewrite !cb_app, !cr_app, !cc_app.
  apply zsum_upto_ext_nat. intros q Hq. rewrite Nat2Z.id.
  rewrite !tget_tab by (apply in_enum_app; [assumption|apply in_enum; repeat constructor; assumption]).
  rewrite (src_split psB bs _ [m; k] ob [i; q] LpB Lob). rewrite (src_split psB bs _ [m; k] ob [j; q] LpB Lob).
  cbn [src hd tl]. rewrite !Z.mul_1_l, !Z.add_0_l, !Nat2Z.id. reflexivity.
Qed.

(* ------------------------------------------------------------------------------------- *)
(** per-class END-TO-END theorems: operator[index] = dense[index] through the repaired front end *)

Lemma tshape_tab sh f : tshape (tab sh f) = sh.
Proof. reflexivity. Qed.

(* any class whose entry formula realizes the entries: absorbed path *)
Theorem e2e_absorbed_realizes : forall debug f ent ns g idx index r,
  2 <= length ns -> Forall (fun n => 0 < n) ns -> realizes f ent ns ->
  spec_expand (length ns) idx = Some index -> absorbed_idx (length ns) index = true ->
  torch_index (tab ns ent) idx = Some r ->
  getitem_front Fixed debug ns g (gi_elem f ns) idx = Some r.
Proof.
  intros debug f ent ns g idx index r Hnd Hpos Hr Hexp Habs Hspec.
  apply (e2e_absorbed debug (tab ns ent) g (gi_elem f ns) idx index r); try assumption.
  apply realizes_contract; assumption.
Qed.

(* Matmul of two operators that meet the contracts (e.g. dense ones): both paths *)
Theorem e2e_matmul : forall debug L R gl gr fl fr D bs m k n idx index r,
  ok_tensor L = true -> ok_tensor R = true -> tshape L = bs ++ [m; k] -> tshape R = bs ++ [k; n] ->
  Forall (fun x => 0 < x) (bs ++ [m; n]) ->
  getitem_contract L gl -> getitem_contract R gr ->
  realizes fl (tget L) (bs ++ [m; k]) -> realizes fr (tget R) (bs ++ [k; n]) ->
  tmatmul L R = Some D ->
  spec_expand (length (bs ++ [m; n])) idx = Some index ->
  forallb basic index = true \/ absorbed_idx (length (bs ++ [m; n])) index = true ->
  torch_index D idx = Some r ->
  getitem_front Fixed debug (bs ++ [m; n]) (matmul_getitem gl gr) (gi_elem (matmul_f fl fr k) (bs ++ [m; n])) idx = Some r.
Proof.
  intros debug L R gl gr fl fr D bs m k n idx index r OL OR SL SR Hpos CL CR RL RR HD Hexp Hcase Hspec.
  pose proof (matmul_getitem_contract L R gl gr D bs m k n OL OR SL SR CL CR HD) as CD.
  assert (ED : D = tab (bs ++ [m; n]) (matmul_f (tget L) (tget R) k)).
  { unfold tmatmul in HD. rewrite SL, SR in HD. rewrite !app_length in HD. simpl length in HD.
    replace (length bs + 2 - 2) with (length bs) in HD by lia. replace (length bs + 2 - 1) with (length bs + 1) in HD by lia.
    rewrite firstn_app_len in HD. rewrite !app_nth2 in HD by lia. rewrite Nat.sub_diag in HD.
    replace (length bs + 1 - length bs) with 1 in HD by lia. cbn [nth] in HD. rewrite lnat_eqb'_refl in HD.
    replace (2 <=? length bs + 2) with true in HD by (symmetry; apply Nat.leb_le; lia). simpl andb in HD. inversion HD. reflexivity. }
  assert (Hnd : 2 <= length (bs ++ [m; n])) by (rewrite app_length; simpl; lia).
  subst D. destruct Hcase as [Hb|Habs].
  - apply (e2e_basic debug (tab (bs ++ [m; n]) (matmul_f (tget L) (tget R) k)) _ _ idx index r); assumption.
  - eapply e2e_absorbed_realizes; try eassumption. eapply matmul_realizes; eassumption.
Qed.
