(* C03 — LinearOperator.__getitem__ (repaired front end), ABSORBED path: tensor indices consume a matrix dimension.
   flatten (expand + reshape(-1)) -> _convert_indices_to_tensors -> _get_indices (gather) -> view  =  torch indexing *)
From Coq Require Import List ZArith Bool Arith Lia.
Import ListNotations.
Require Import C03.Model C03.Proofs C03.ProofsSlice C03.ProofsSize C03.ProofsFront C03.ProofsFront2 C03.ProofsGather.
Open Scope nat_scope.

(* ------------------------------------------------------------------------------------- *)
(** broadcasting of equal-length shapes is pointwise *)

Definition bmax (x y : nat) : option nat :=
  if x =? y then Some x else if x =? 1 then Some y else if y =? 1 then Some x else None.

Fixpoint bc_pt (a b : list nat) : option (list nat) :=
  match a, b with
  | [], [] => Some []
  | x :: a', y :: b' => match bc_pt a' b' with
                        | None => None
                        | Some r => match bmax x y with Some z => Some (z :: r) | None => None end
                        end
  | _, _ => None
  end.

Lemma bc_rev_eqlen a : forall b, length a = length b -> bc_rev a b = bc_pt a b.
Proof.
  induction a as [|x a IH]; intros [|y b] H; try discriminate; [reflexivity|].
  simpl. rewrite IH by (simpl in H; lia). destruct (bc_pt a b); [|reflexivity].
  unfold bmax. destruct (x =? y); [reflexivity|]. destruct (x =? 1); [reflexivity|]. destruct (y =? 1); reflexivity.
Qed.

Lemma bc_pt_snoc a : forall b x y, length a = length b ->
  bc_pt (a ++ [x]) (b ++ [y]) =
  match bc_pt a b with None => None | Some r => match bmax x y with Some z => Some (r ++ [z]) | None => None end end.
Proof.
  induction a as [|u a IH]; intros [|v b] x y H; try discriminate.
  - simpl. destruct (bmax x y); reflexivity.
  - simpl. rewrite IH by (simpl in H; lia). destruct (bc_pt a b); [|reflexivity].
    destruct (bmax x y); destruct (bmax u v); reflexivity.
Qed.

Lemma bc_pt_rev a : forall b, length a = length b -> bc_pt (rev a) (rev b) = option_map (@rev nat) (bc_pt a b).
Proof.
  induction a as [|x a IH]; intros [|y b] H; try discriminate; [reflexivity|].
  simpl. rewrite bc_pt_snoc by (rewrite !rev_length; simpl in H; lia).
  rewrite IH by (simpl in H; lia). destruct (bc_pt a b); [|reflexivity]. simpl.
  destruct (bmax x y); reflexivity.
Qed.

Lemma bcast2_eqlen a b : length a = length b -> bcast2 a b = bc_pt a b.
Proof.
  intros H. unfold bcast2. rewrite bc_rev_eqlen by (rewrite !rev_length; assumption).
  rewrite bc_pt_rev by assumption. destruct (bc_pt a b); [|reflexivity]. simpl. rewrite rev_involutive. reflexivity.
Qed.

Lemma bc_pt_length a : forall b r, bc_pt a b = Some r -> length a = length b /\ length r = length a.
Proof.
  induction a as [|x a IH]; intros [|y b] r H; simpl in H; try discriminate.
  - inversion H. split; reflexivity.
  - destruct (bc_pt a b) as [r'|] eqn:E; [|discriminate]. destruct (bmax x y); [|discriminate]. inversion H; subst.
    destruct (IH _ _ E) as [H1 H2]. simpl. split; lia.
Qed.

(* ------------------------------------------------------------------------------------- *)
(** shapes that fit a target shape W (entry-wise equal to it or 1) *)

Definition fit1 (x y : nat) : Prop := x = y \/ x = 1.
Definition fits (W a : list nat) : Prop := Forall2 fit1 a W.
Definition hit (W : list nat) (s : nat) (a : list nat) : Prop := nth s a 1 = nth s W 1.

Lemma bc_pt_fits W : forall a b, fits W a -> fits W b ->
  exists r, bc_pt a b = Some r /\ fits W r /\ forall s, hit W s a \/ hit W s b -> hit W s r.
Proof.
  induction W as [|v W IH]; intros a b Ha Hb; inversion Ha; subst; inversion Hb; subst.
  - exists []. split; [reflexivity|]. split; [constructor|]. intros s [H|H]; exact H.
  - destruct (IH _ _ H3 H5) as [r [E [F C]]]. simpl. rewrite E.
    assert (M : exists z, bmax x x0 = Some z /\ fit1 z v /\ (x = v \/ x0 = v -> z = v)).
    { unfold bmax, fit1 in *. destruct (x =? x0) eqn:E1.
      - apply Nat.eqb_eq in E1. subst. exists x0. split; [reflexivity|]. split; [assumption|]. intros [K|K]; exact K.
      - destruct (x =? 1) eqn:E2.
        + apply Nat.eqb_eq in E2. subst. exists x0. split; [reflexivity|]. split; [assumption|].
          intros [K|K]; [|exact K]. subst. destruct H4 as [K|K]; [exact K|]. subst. apply Nat.eqb_neq in E1. lia.
        + destruct (x0 =? 1) eqn:E3.
          * apply Nat.eqb_eq in E3. subst. exists x. split; [reflexivity|]. split; [assumption|].
            intros [K|K]; [exact K|]. subst. destruct H2 as [K|K]; [exact K|]. apply Nat.eqb_neq in E2. lia.
          * apply Nat.eqb_neq in E1, E2, E3. destruct H2, H4; lia. }
    destruct M as [z [Ez [Fz Cz]]]. rewrite Ez. exists (z :: r). split; [reflexivity|]. split; [constructor; assumption|].
    intros s Hs. unfold hit in *. destruct s as [|s]; simpl in *.
    + apply Cz. exact Hs.
    + apply C. exact Hs.
Qed.

Lemma fits_length W a : fits W a -> length a = length W.
Proof. intros H. induction H; simpl; auto. Qed.

Lemma bcast_all_fits W : forall shapes acc, Forall (fits W) shapes -> fits W acc ->
  exists acc', bcast_all shapes acc = Some acc' /\ fits W acc' /\
               forall s, (hit W s acc \/ exists sh, In sh shapes /\ hit W s sh) -> hit W s acc'.
Proof.
  induction shapes as [|sh shapes IH]; intros acc Hs Ha.
  - exists acc. split; [reflexivity|]. split; [assumption|]. intros s [H|[sh [[] _]]]. exact H.
  - inversion Hs; subst. simpl. rewrite bcast2_eqlen by (rewrite (fits_length _ _ Ha), (fits_length _ _ H1); reflexivity).
    destruct (bc_pt_fits W acc sh Ha H1) as [r [E [F C]]]. rewrite E.
    destruct (IH r H2 F) as [acc' [E' [F' C']]]. exists acc'. split; [exact E'|]. split; [exact F'|].
    intros s [H|[sh' [[<-|Hin] H]]].
    + apply C'. left. apply C. left. exact H.
    + apply C'. left. apply C. right. exact H.
    + apply C'. right. exists sh'. split; assumption.
Qed.

Lemma fits_all_hit W a : fits W a -> (forall s, s < length W -> hit W s a) -> a = W.
Proof.
  intros F. induction F as [|x y a W0 Hxy F IH]; intros H; [reflexivity|].
  f_equal.
  - apply (H 0). simpl. lia.
  - apply IH. intros s Hs. apply (H (S s)). simpl. lia.
Qed.

(* ------------------------------------------------------------------------------------- *)
(** one-hot shapes: what _pad_with_singletons produces for a 1-d tensor *)

Definition onehot (R s m : nat) : list nat := repeat 1 s ++ [m] ++ repeat 1 (R - s - 1).

Lemma prod_ones k : prod (repeat 1 k) = 1.
Proof. induction k; simpl; [reflexivity|]. rewrite IHk. reflexivity. Qed.

Lemma prod_app a b : prod (a ++ b) = prod a * prod b.
Proof. induction a as [|x a IH]; simpl; [lia|]. rewrite IH. lia. Qed.

Lemma prod_onehot R s m : prod (onehot R s m) = m.
Proof. unfold onehot. rewrite !prod_app, !prod_ones. simpl. lia. Qed.

Lemma onehot_length R s m : s < R -> length (onehot R s m) = R.
Proof. intros H. unfold onehot. rewrite !app_length, !repeat_length. simpl. lia. Qed.

Definition bf (p : nat * nat) : nat := let '(n, i) := p in if n =? 1 then 0 else i.

Lemma bidx_bf sh B bc : bidx sh B bc = map bf (combine sh (skipn (length B - length sh) bc)).
Proof. unfold bidx. apply map_ext. intros [n i]. reflexivity. Qed.

Lemma ravel_ones k : forall oi, ravel (repeat 1 k) (map bf (combine (repeat 1 k) oi)) = 0.
Proof. induction k as [|k IH]; intros [|x oi]; simpl; auto. Qed.

Lemma ravel_onehot s : forall m rest oi, length oi = s + 1 + rest ->
  ravel (repeat 1 s ++ m :: repeat 1 rest) (map bf (combine (repeat 1 s ++ m :: repeat 1 rest) oi)) =
  if m =? 1 then 0 else nth s oi 0.
Proof.
  induction s as [|s IH]; intros m rest [|x oi] H; simpl in H; try lia.
  - simpl. rewrite prod_ones, ravel_ones. destruct (m =? 1); lia.
  - simpl. rewrite IH by lia. reflexivity.
Qed.

Lemma tget_b_onehot R s m d W oi : s < R -> length oi = R -> length W = R ->
  tget_b (onehot R s m) d W oi = nth (if m =? 1 then 0 else nth s oi 0) d 0%Z.
Proof.
  intros Hs Ho HW. unfold tget_b. rewrite bidx_bf, onehot_length, HW, Nat.sub_diag by assumption. simpl skipn.
  unfold onehot. simpl app. rewrite ravel_onehot by lia. reflexivity.
Qed.

Lemma tget_b_ones R d W oi : length W = R -> tget_b (repeat 1 R) d W oi = nth 0 d 0%Z.
Proof.
  intros HW. unfold tget_b. rewrite bidx_bf, repeat_length, HW, Nat.sub_diag. simpl skipn. rewrite ravel_ones. reflexivity.
Qed.

Lemma tget_b_1d L d k : tget_b [L] d [L] [k] = nth (if L =? 1 then 0 else k) d 0%Z.
Proof. unfold tget_b. rewrite bidx_bf. simpl. f_equal. destruct (L =? 1); lia. Qed.

Lemma fits_onehot W R s : length W = R -> s < R -> fits W (onehot R s (nth s W 1)).
Proof.
  intros HW Hs. unfold fits, onehot. subst R. revert s Hs. induction W as [|v W IH]; intros s Hs; [simpl in Hs; lia|].
  destruct s as [|s]; simpl.
  - constructor; [left; reflexivity|]. rewrite Nat.sub_0_r. clear. induction W; simpl; constructor; [right; reflexivity|assumption].
  - constructor; [right; reflexivity|]. apply IH. simpl in Hs. lia.
Qed.

Lemma fits_ones W : fits W (repeat 1 (length W)).
Proof. unfold fits. induction W; simpl; constructor; [right; reflexivity|assumption]. Qed.

Lemma hit_onehot W R s : length W = R -> s < R -> hit W s (onehot R s (nth s W 1)).
Proof.
  intros HW Hs. unfold hit, onehot. rewrite app_nth2 by (rewrite repeat_length; lia).
  rewrite repeat_length, Nat.sub_diag. reflexivity.
Qed.

(* ------------------------------------------------------------------------------------- *)
(** _convert_indices_to_tensors with 1-d tensor indices (nb = 1): every produced index tensor is one-hot shaped;
    the j-th slice occupies output dimension  sl p j , the tensor indices dimension p = position of the block *)

Definition sl (p j : nat) : nat := if j <? p then j else S j.
Definition nsl (its : list item) : nat := length (filter is_slice its).
Definition ishapes (its : list item) : list (list nat) :=
  flat_map (fun it => match it with ITensor sh _ => [sh] | _ => [] end) its.

Fixpoint cspec (R p j : nat) (ns : list nat) (its : list item) : list (list nat * list Z) :=
  match ns, its with
  | n :: ns', it :: r =>
      match it with
      | ISlice a b s => let d := arange_slice a b s n in (onehot R (sl p j) (length d), d) :: cspec R p (S j) ns' r
      | IInt i => (repeat 1 R, [i]) :: cspec R p j ns' r
      | ITensor sh d => (pad1 sh p (R - p - 1), d) :: cspec R p j ns' r
      end
  | _, _ => []
  end.

Lemma nsl_cons it r : nsl (it :: r) = (if is_slice it then 1 else 0) + nsl r.
Proof. unfold nsl. simpl. destruct (is_slice it); reflexivity. Qed.

Lemma pad1_nil b a : pad1 [] b a = repeat 1 (b + a).
Proof. unfold pad1. simpl app. symmetry. apply repeat_app. Qed.

Lemma cit_phase1 ns : forall its R b j, b <= j -> R = S j + nsl its ->
  cit_loop 1 (mkCit (S j) (nsl its) (Some b) (Some (R - b - 1))) ns its = cspec R b j ns its.
Proof.
  induction ns as [|n ns IH]; intros [|it its] R b j Hb HR; try reflexivity.
  rewrite nsl_cons in *. destruct it as [i|a b0 s|sh d]; simpl is_slice in *; cbv iota in *.
  - cbn [cit_loop cit_step k_after k_before cspec]. f_equal.
    + rewrite pad1_nil. f_equal. f_equal. lia.
    + apply IH; assumption.
  - cbn [cit_loop cit_step k_after k_before k_bt k_at cspec]. cbv zeta.
    replace (1 + nsl its - 1) with (nsl its) by lia. f_equal.
    + unfold pad1, onehot, sl. replace (j <? b) with false by (symmetry; apply Nat.ltb_ge; lia).
      f_equal. f_equal. f_equal. f_equal. lia.
    + apply IH; lia.
  - cbn [cit_loop cit_step k_after k_before k_bt k_at cspec odefault_nat]. f_equal. apply IH; assumption.
Qed.

Lemma cit_phase0 ns : forall its R j, R = j + nsl its + 1 ->
  cit_loop 1 (mkCit j (nsl its + 1) None None) ns its = cspec R (j + count_while negb (ikinds its)) j ns its.
Proof.
  induction ns as [|n ns IH]; intros [|it its] R j HR; try reflexivity.
  rewrite nsl_cons, ikinds_cons in *. destruct it as [i|a b0 s|sh d]; simpl is_slice in *; cbv iota in *.
  - simpl app. cbn [cit_loop cit_step k_after k_before cspec]. f_equal.
    + rewrite pad1_nil. f_equal. f_equal. lia.
    + apply IH; assumption.
  - simpl app. cbn [cit_loop cit_step k_after k_before k_bt k_at cspec count_while negb]. cbv zeta.
    replace (1 + nsl its + 1 - 1) with (nsl its + 1) by lia. f_equal.
    + unfold pad1, onehot, sl. replace (j <? j + S (count_while negb (ikinds its))) with true by (symmetry; apply Nat.ltb_lt; lia).
      f_equal. f_equal. f_equal. f_equal. lia.
    + replace (j + S (count_while negb (ikinds its))) with (S j + count_while negb (ikinds its)) by lia. apply IH. lia.
  - simpl app. cbn [cit_loop cit_step k_after k_before k_bt k_at cspec count_while negb odefault_nat]. cbv zeta.
    rewrite Nat.add_0_r. replace (0 + nsl its + 1 - 1) with (nsl its) by lia. f_equal.
    + f_equal. f_equal. lia.
    + replace (j + 1) with (S j) by lia. replace (nsl its) with (R - j - 1) at 2 by lia. apply cit_phase1; lia.
Qed.

Lemma convert_cspec ns its L : bcast_all (ishapes its) [] = Some [L] ->
  convert_indices_to_tensors ns its = Some (cspec (nsl its + 1) (block_pos (ikinds its)) 0 ns its).
Proof.
  intros HB. unfold convert_indices_to_tensors. fold (ishapes its). rewrite HB. cbn [length]. fold (nsl its). f_equal.
  destruct (moved_to_start_correct its) as [M1 M2]. destruct (is_moved_to_start its) eqn:E.
  - rewrite (M1 eq_refl). replace (nsl its + 1 - 1) with (nsl its) by lia.
    replace (nsl its) with (nsl its + 1 - 0 - 1) at 2 by lia. apply cit_phase1; lia.
  - rewrite (M2 eq_refl). apply (cit_phase0 ns its (nsl its + 1) 0). lia.
Qed.

(* ------------------------------------------------------------------------------------- *)
(** list bookkeeping: inserting the block dimension at p / removing it *)

Lemma sl_SS p j : sl (S p) (S j) = S (sl p j).
Proof. unfold sl. change (S j <? S p) with (j <? p). destruct (j <? p); reflexivity. Qed.
Lemma sl_S0 p : sl (S p) 0 = 0.
Proof. reflexivity. Qed.
Lemma sl_0 j : sl 0 j = S j.
Proof. reflexivity. Qed.

Lemma nth_insert {A} (l : list A) : forall p i x d, p <= length l ->
  nth (sl p i) (firstn p l ++ x :: skipn p l) d = nth i l d.
Proof.
  induction l as [|a l IH]; intros [|p] i x d H; simpl in H; try lia.
  - rewrite sl_0. reflexivity.
  - rewrite sl_0. reflexivity.
  - destruct i as [|i]; [reflexivity|]. rewrite sl_SS. simpl. apply IH. lia.
Qed.

Lemma nth_insert_p {A} (l : list A) p x d : p <= length l -> nth p (firstn p l ++ x :: skipn p l) d = x.
Proof.
  intros H. rewrite app_nth2 by (rewrite firstn_length; lia). rewrite firstn_length, Nat.min_l by lia.
  rewrite Nat.sub_diag. reflexivity.
Qed.

Lemma nth_remove {A} (oi : list A) : forall p j d, nth j (firstn p oi ++ skipn (S p) oi) d = nth (sl p j) oi d.
Proof.
  induction oi as [|a oi IH]; intros p j d.
  - rewrite firstn_nil, skipn_nil. simpl. destruct (sl p j); destruct j; reflexivity.
  - destruct p as [|p].
    + reflexivity.
    + destruct j as [|j]; [reflexivity|]. rewrite sl_SS. simpl. apply IH.
Qed.

Lemma hd_skipn {A} (l : list A) j d : hd d (skipn j l) = nth j l d.
Proof. revert j. induction l as [|a l IH]; intros [|j]; simpl; auto. Qed.
Lemma tl_skipn {A} (l : list A) j : tl (skipn j l) = skipn (S j) l.
Proof.
  revert l. induction j as [|j IH]; intros l; [destruct l; reflexivity|].
  destruct l as [|a l]; [reflexivity|]. exact (IH l).
Qed.

Lemma firstn1_skipn {A} (l : list A) p d : p < length l -> firstn 1 (skipn p l) = [nth p l d].
Proof.
  revert p. induction l as [|a l IH]; intros [|p] H; simpl in H; try lia; [reflexivity|].
  simpl skipn. simpl nth. apply IH. lia.
Qed.

Lemma sl_cover p s : s <> p -> exists i, sl p i = s /\ (s < p -> i = s) /\ (p < s -> S i = s).
Proof.
  intros H. destruct (Nat.ltb_spec s p).
  - exists s. unfold sl. replace (s <? p) with true by (symmetry; apply Nat.ltb_lt; lia). repeat split; lia.
  - destruct s as [|s]; [lia|]. exists s. unfold sl. replace (s <? p) with false by (symmetry; apply Nat.ltb_ge; lia).
    repeat split; lia.
Qed.

Lemma sl_lt p i n : i < n -> sl p i < S n.
Proof. unfold sl. destruct (i <? p); lia. Qed.

Lemma enum_bound W : forall oi, In oi (enum W) -> forall s, s < length W -> nth s oi 0 < nth s W 1.
Proof.
  induction W as [|n W IH]; intros oi Hin s Hs; [simpl in Hs; lia|].
  simpl in Hin. apply in_flat_map in Hin as [i [Hi Hin]]. apply in_map_iff in Hin as [x [<- Hx]].
  apply in_seq in Hi. destruct s as [|s]; simpl; [lia|]. apply IH; [assumption|simpl in Hs; lia].
Qed.

(* ------------------------------------------------------------------------------------- *)
(** the converted index tensors: validity, broadcast shape, values *)

Definition flat1 (L : nat) (its : list item) : Prop :=
  Forall (fun it => match it with ITensor sh _ => sh = [L] | _ => True end) its.

Lemma prod_pad1 sh b a : prod (pad1 sh b a) = prod sh.
Proof. unfold pad1. rewrite !prod_app, !prod_ones. lia. Qed.

Lemma nth_map_seq {A} (f : nat -> A) len k d : k < len -> nth k (map f (seq 0 len)) d = f k.
Proof.
  intros H. rewrite (nth_indep _ d (f 0)) by (rewrite map_length, seq_length; assumption).
  rewrite map_nth, seq_nth by assumption. reflexivity.
Qed.

Lemma arange_slice_plan n a b s lo st len : plan_of n (ISlice a b s) = Some (PSl lo st len) ->
  arange_slice a b s n = map (fun k => (lo + Z.of_nat k * st)%Z) (seq 0 len) /\
  forall k, k < len -> (0 <= lo + Z.of_nat k * st < Z.of_nat n)%Z.
Proof.
  unfold plan_of. cbv zeta. destruct (odefault 1 s <=? 0)%Z eqn:E; [discriminate|]. apply Z.leb_gt in E.
  unfold arange_slice. destruct (slice_indices a b s (Z.of_nat n)) as [[lo' hi] st'] eqn:Ei. intros H; inversion H; subst.
  split; [reflexivity|]. intros k Hk.
  pose proof (slice_in_range a b s (Z.of_nat n) (Z.of_nat k) ltac:(lia) E) as Q. unfold slice_len in Q. rewrite Ei in Q.
  apply Q. lia.
Qed.

Lemma plan_slice_inv n a b s pl : plan_of n (ISlice a b s) = Some pl -> exists lo st len, pl = PSl lo st len.
Proof.
  unfold plan_of. cbv zeta. destruct (odefault 1 s <=? 0)%Z; [discriminate|].
  destruct (slice_indices a b s (Z.of_nat n)) as [[lo hi] st]. intros H; inversion H. eauto.
Qed.

Lemma plan_int_inv n i pl : plan_of n (IInt i) = Some pl ->
  in_range (Z.of_nat n) i = true /\ pl = PFix (Z.to_nat (wrap (Z.of_nat n) i)).
Proof. unfold plan_of. cbv zeta. destruct (in_range (Z.of_nat n) i); [|discriminate]. intros H; inversion H. split; reflexivity. Qed.

Lemma plan_tensor_inv n sh d pl : plan_of n (ITensor sh d) = Some pl ->
  pl = PTe sh d /\ (length d =? prod sh) = true /\ forallb (in_range (Z.of_nat n)) d = true.
Proof.
  unfold plan_of. cbv zeta. destruct (length d =? prod sh); [|discriminate].
  destruct (forallb (in_range (Z.of_nat n)) d); [|discriminate]. intros H; inversion H. repeat split; reflexivity.
Qed.

Lemma cspec_valid L R p ns : forall its ps j, plans_of ns its = Some ps -> flat1 L its ->
  forallb (fun '(n, (sh, d)) => (length d =? prod sh) && forallb (in_range (Z.of_nat n)) d)
          (combine ns (cspec R p j ns its)) = true /\ length (cspec R p j ns its) = length ns.
Proof.
  induction ns as [|n ns IH]; intros [|it its] ps j H Hf; simpl in H; try discriminate; [split; reflexivity|].
  destruct (plan_of n it) as [pl|] eqn:Ep; [|discriminate]. destruct (plans_of ns its) as [r|] eqn:Er; [|discriminate].
  inversion H; subst. inversion Hf as [|? ? Hf1 Hf2]; subst.
  destruct it as [i|a b s|sh d].
  - destruct (IH its r j Er Hf2) as [I1 I2]. cbn [cspec combine forallb length]. rewrite I1, I2. split; [|reflexivity].
    rewrite prod_ones. destruct (plan_int_inv _ _ _ Ep) as [Ei _]. rewrite Ei. reflexivity.
  - destruct (IH its r (S j) Er Hf2) as [I1 I2]. cbn [cspec combine forallb length]. cbv zeta. rewrite I1, I2. split; [|reflexivity].
    rewrite prod_onehot, Nat.eqb_refl, andb_true_r. simpl andb.
    destruct (plan_slice_inv _ _ _ _ _ Ep) as (lo & st & len & ->).
    destruct (arange_slice_plan _ _ _ _ _ _ _ Ep) as [A1 A2]. rewrite A1.
    apply forallb_forall. intros x Hx. apply in_map_iff in Hx as [k [<- Hk]]. apply in_seq in Hk.
    specialize (A2 k ltac:(lia)). unfold in_range. apply andb_true_iff. split; [apply Z.leb_le|apply Z.ltb_lt]; lia.
  - destruct (IH its r j Er Hf2) as [I1 I2]. cbn [cspec combine forallb length]. rewrite I1, I2. split; [|reflexivity].
    rewrite prod_pad1, andb_true_r. destruct (plan_tensor_inv _ _ _ _ Ep) as (_ & T1 & T2). rewrite T1, T2. reflexivity.
Qed.

Lemma cspec_fits W p ns : forall its ps j, p < length W ->
  plans_of ns its = Some ps -> flat1 (nth p W 1) its ->
  (forall i, i < length (slens ps) -> sl p (j + i) < length W /\ nth (sl p (j + i)) W 1 = nth i (slens ps) 1) ->
  Forall (fits W) (map fst (cspec (length W) p j ns its)).
Proof.
  induction ns as [|n ns IH]; intros [|it its] ps j Hp H Hf Hs; simpl in H; try discriminate; try (constructor; fail).
  destruct (plan_of n it) as [pl|] eqn:Ep; [|discriminate]. destruct (plans_of ns its) as [r|] eqn:Er; [|discriminate].
  inversion H; subst ps. inversion Hf as [|? ? Hf1 Hf2]; subst.
  destruct it as [i|a b s|sh d].
  - cbn [cspec map fst]. constructor; [apply fits_ones|].
    destruct (plan_int_inv _ _ _ Ep) as [_ ->].
    apply (IH its r j Hp Er Hf2). intros k Hk. apply (Hs k). exact Hk.
  - destruct (plan_slice_inv _ _ _ _ _ Ep) as (lo & st & len & ->).
    destruct (arange_slice_plan _ _ _ _ _ _ _ Ep) as [A1 A2].
    cbn [cspec map fst]. cbv zeta. rewrite A1, map_length, seq_length.
    rewrite slens_cons in Hs. cbn [app length] in Hs.
    destruct (Hs 0 ltac:(lia)) as [S1 S2]. rewrite Nat.add_0_r in S1, S2. simpl nth in S2.
    constructor.
    + rewrite <- S2. apply fits_onehot; [reflexivity|assumption].
    + apply (IH its r (S j) Hp Er Hf2). intros k Hk.
      replace (S j + k) with (j + S k) by lia. apply (Hs (S k)). lia.
  - simpl in Hf1. subst sh. cbn [cspec map fst]. constructor.
    + change (pad1 [nth p W 1] p (length W - p - 1)) with (onehot (length W) p (nth p W 1)). apply fits_onehot; [reflexivity|assumption].
    + destruct (plan_tensor_inv _ _ _ _ Ep) as (-> & _).
      apply (IH its r j Hp Er Hf2). intros k Hk. apply (Hs k). exact Hk.
Qed.

Lemma cspec_cover_slice R p ns : forall its ps j i, plans_of ns its = Some ps -> i < length (slens ps) ->
  In (onehot R (sl p (j + i)) (nth i (slens ps) 1)) (map fst (cspec R p j ns its)).
Proof.
  induction ns as [|n ns IH]; intros [|it its] ps j i H Hi; simpl in H; try discriminate.
  - inversion H; subst. simpl in Hi. lia.
  - destruct (plan_of n it) as [pl|] eqn:Ep; [|discriminate]. destruct (plans_of ns its) as [r|] eqn:Er; [|discriminate].
    inversion H; subst ps. destruct it as [k|a b s|sh d].
    + destruct (plan_int_inv _ _ _ Ep) as [_ ->]. cbn [cspec map]. right. exact (IH its r j i Er Hi).
    + destruct (plan_slice_inv _ _ _ _ _ Ep) as (lo & st & len & ->).
      destruct (arange_slice_plan _ _ _ _ _ _ _ Ep) as [A1 A2].
      cbn [cspec map fst]. cbv zeta. rewrite A1, map_length, seq_length.
      rewrite slens_cons in *. cbn [app length] in Hi. destruct i as [|i].
      * left. rewrite Nat.add_0_r. reflexivity.
      * right. replace (j + S i) with (S j + i) by lia. simpl nth. apply (IH its r (S j) i Er). lia.
    + destruct (plan_tensor_inv _ _ _ _ Ep) as (-> & _).
      cbn [cspec map]. right. exact (IH its r j i Er Hi).
Qed.

Lemma cspec_cover_tensor L R p ns : forall its ps j, plans_of ns its = Some ps -> flat1 L its ->
  existsb is_tensor its = true -> In (onehot R p L) (map fst (cspec R p j ns its)).
Proof.
  induction ns as [|n ns IH]; intros [|it its] ps j H Hf He; simpl in H; try discriminate.
  destruct (plan_of n it) as [pl|] eqn:Ep; [|discriminate]. destruct (plans_of ns its) as [r|] eqn:Er; [|discriminate].
  inversion Hf as [|? ? Hf1 Hf2]; subst. simpl in He.
  destruct it as [k|a b s|sh d]; simpl in He.
  - cbn [cspec map]. right. eapply IH; eassumption.
  - cbn [cspec map]. right. eapply IH; eassumption.
  - simpl in Hf1. subst sh. left. reflexivity.
Qed.

Lemma nsl_slens ns : forall its ps, plans_of ns its = Some ps -> nsl its = length (slens ps).
Proof.
  induction ns as [|n ns IH]; intros [|it its] ps H; simpl in H; try discriminate.
  - inversion H. reflexivity.
  - destruct (plan_of n it) as [pl|] eqn:Ep; [|discriminate]. destruct (plans_of ns its) as [r|] eqn:Er; [|discriminate].
    inversion H; subst. rewrite nsl_cons, slens_cons, app_length, (IH _ _ Er). f_equal.
    destruct it as [k|a b s|sh d].
    + destruct (plan_int_inv _ _ _ Ep) as [_ ->]. reflexivity.
    + destruct (plan_slice_inv _ _ _ _ _ Ep) as (lo & st & len & ->). reflexivity.
    + destruct (plan_tensor_inv _ _ _ _ Ep) as (-> & _). reflexivity.
Qed.

Lemma bcast_all_fits_nil W shapes : shapes <> [] -> Forall (fits W) shapes ->
  (forall s, s < length W -> exists sh, In sh shapes /\ hit W s sh) -> bcast_all shapes [] = Some W.
Proof.
  intros Hne Hf Hc. destruct shapes as [|sh0 rest]; [congruence|]. inversion Hf; subst.
  cbn [bcast_all]. rewrite bcast2_nil_l.
  destruct (bcast_all_fits W rest sh0 H2 H1) as [acc' [E [F C]]]. rewrite E. f_equal.
  apply fits_all_hit; [assumption|]. intros s Hs. apply C. destruct (Hc s Hs) as [sh [[<-|Hin] Hh]].
  - left. exact Hh.
  - right. exists sh. split; assumption.
Qed.

Lemma cspec_vals L W p ns : forall its ps j oi,
  length oi = length W -> p < length W -> nth p oi 0 < L ->
  plans_of ns its = Some ps -> flat1 L its ->
  (forall i, i < length (slens ps) -> sl p (j + i) < length W /\ nth (sl p (j + i)) oi 0 < nth i (slens ps) 1) ->
  map (fun '(n, (sh, d)) => Z.to_nat (wrap (Z.of_nat n) (tget_b sh d W oi))) (combine ns (cspec (length W) p j ns its)) =
  src ps ns [L] [nth p oi 0] (skipn j (firstn p oi ++ skipn (S p) oi)).
Proof.
  induction ns as [|n ns IH]; intros [|it its] ps j oi Ho Hp HL H Hf Hs; simpl in H; try discriminate.
  - inversion H. reflexivity.
  - destruct (plan_of n it) as [pl|] eqn:Ep; [|discriminate]. destruct (plans_of ns its) as [r|] eqn:Er; [|discriminate].
    inversion H; subst ps. inversion Hf as [|? ? Hf1 Hf2]; subst.
    destruct it as [i|a b s|sh d].
    + destruct (plan_int_inv _ _ _ Ep) as [_ ->]. cbn [cspec combine map src]. f_equal.
      * rewrite tget_b_ones by reflexivity. reflexivity.
      * apply (IH its r j oi Ho Hp HL Er Hf2). intros k Hk. apply (Hs k). exact Hk.
    + destruct (plan_slice_inv _ _ _ _ _ Ep) as (lo & st & len & ->).
      destruct (arange_slice_plan _ _ _ _ _ _ _ Ep) as [A1 A2].
      rewrite slens_cons in Hs. cbn [app length] in Hs.
      destruct (Hs 0 ltac:(lia)) as [S1 S2]. rewrite Nat.add_0_r in S1, S2. simpl nth in S2.
      cbn [cspec combine map src]. cbv zeta. rewrite hd_skipn, tl_skipn, nth_remove. f_equal.
      * rewrite tget_b_onehot by (try assumption; reflexivity).
        rewrite A1, map_length, seq_length.
        set (k := nth (sl p j) oi 0) in *.
        assert (Ek : (if len =? 1 then 0 else k) = k).
        { destruct (len =? 1) eqn:E1; [apply Nat.eqb_eq in E1; lia|reflexivity]. }
        rewrite Ek, nth_map_seq by assumption. specialize (A2 k S2).
        unfold wrap. replace (lo + Z.of_nat k * st <? 0)%Z with false by (symmetry; apply Z.ltb_ge; lia).
        f_equal. lia.
      * apply (IH its r (S j) oi Ho Hp HL Er Hf2). intros i Hi.
        replace (S j + i) with (j + S i) by lia. apply (Hs (S i)). lia.
    + simpl in Hf1. subst sh. destruct (plan_tensor_inv _ _ _ _ Ep) as (-> & _).
      cbn [cspec combine map src]. f_equal.
      * change (pad1 [L] p (length W - p - 1)) with (onehot (length W) p L).
        rewrite tget_b_onehot by (try assumption; reflexivity). rewrite tget_b_1d. reflexivity.
      * apply (IH its r j oi Ho Hp HL Er Hf2). intros k Hk. apply (Hs k). exact Hk.
Qed.

(* ------------------------------------------------------------------------------------- *)
(** convert + gather = torch indexing, for indices whose tensor items are 1-d of one common length L *)

Lemma ishapes_tshapes ns : forall its ps, plans_of ns its = Some ps -> ishapes its = tshapes ps.
Proof.
  induction ns as [|n ns IH]; intros [|it its] ps H; simpl in H; try discriminate.
  - inversion H. reflexivity.
  - destruct (plan_of n it) as [pl|] eqn:Ep; [|discriminate]. destruct (plans_of ns its) as [r|] eqn:Er; [|discriminate].
    inversion H; subst. rewrite tshapes_cons. unfold ishapes. cbn [flat_map]. fold (ishapes its). rewrite (IH _ _ Er). f_equal.
    destruct it as [k|a b s|sh d].
    + destruct (plan_int_inv _ _ _ Ep) as [_ ->]. reflexivity.
    + destruct (plan_slice_inv _ _ _ _ _ Ep) as (lo & st & len & ->). reflexivity.
    + destruct (plan_tensor_inv _ _ _ _ Ep) as (-> & _). reflexivity.
Qed.

Lemma bcast_all_same L shapes : Forall (eq [L]) shapes -> bcast_all shapes [L] = Some [L].
Proof.
  induction 1 as [|sh shapes <- _ IH]; [reflexivity|]. cbn [bcast_all]. rewrite bcast2_eqlen by reflexivity.
  simpl. unfold bmax. rewrite Nat.eqb_refl. exact IH.
Qed.

Lemma bcast_all_flat1 its L : flat1 L its -> existsb is_tensor its = true -> bcast_all (ishapes its) [] = Some [L].
Proof.
  intros Hf He. assert (F : Forall (eq [L]) (ishapes its)).
  { clear He. induction Hf as [|it its H _ IH]; [constructor|]. unfold ishapes. cbn [flat_map]. fold (ishapes its).
    destruct it; simpl; try exact IH. constructor; [symmetry; exact H|exact IH]. }
  assert (N : ishapes its <> []).
  { clear -He. induction its as [|it its IH]; [discriminate|]. unfold ishapes. cbn [flat_map]. fold (ishapes its).
    destruct it; simpl in *; try (apply IH; assumption). discriminate. }
  destruct (ishapes its) as [|sh rest]; [congruence|]. inversion F; subst. cbn [bcast_all]. rewrite bcast2_nil_l.
  apply bcast_all_same. assumption.
Qed.

Theorem convert_gather_flat : forall t its ps L,
  plans_of (tshape t) its = Some ps -> flat1 L its -> existsb is_tensor its = true ->
  match convert_indices_to_tensors (tshape t) its with Some ts => gather t ts | None => None end = Some (result t ps [L]).
Proof.
  intros t its ps L Hp Hf He.
  rewrite (convert_cspec _ _ L (bcast_all_flat1 _ _ Hf He)).
  rewrite (nsl_slens _ _ _ Hp), <- (kinds_ikinds _ _ _ Hp).
  set (l := slens ps). set (p := block_pos (kinds ps)).
  assert (Pl : p <= length l) by apply block_pos_le.
  set (W := firstn p l ++ L :: skipn p l).
  assert (LW : length W = length l + 1).
  { unfold W. rewrite app_length, firstn_length. simpl. rewrite skipn_length. lia. }
  assert (WP : nth p W 1 = L) by (apply nth_insert_p; assumption).
  assert (PW : p < length W) by lia.
  rewrite <- LW.
  assert (Hf' : flat1 (nth p W 1) its) by (rewrite WP; assumption).
  assert (CT : In (onehot (length W) p L) (map fst (cspec (length W) p 0 (tshape t) its))).
  { eapply cspec_cover_tensor; eassumption. }
  assert (BC : bcast_all (map fst (cspec (length W) p 0 (tshape t) its)) [] = Some W).
  { apply bcast_all_fits_nil.
    - intros E. rewrite E in CT. destruct CT.
    - apply (cspec_fits W p _ its ps 0 PW Hp Hf'). intros i Hi. simpl. split.
      + rewrite LW. replace (length l + 1) with (S (length l)) by lia. apply sl_lt. exact Hi.
      + apply nth_insert. assumption.
    - intros s Hs. destruct (Nat.eq_dec s p) as [->|Hne].
      + exists (onehot (length W) p L). split; [exact CT|]. rewrite <- WP. apply hit_onehot; [reflexivity|assumption].
      + destruct (sl_cover p s Hne) as [i [Ei [E1 E2]]].
        assert (Hi : i < length l) by (destruct (Nat.lt_ge_cases s p); [rewrite E1; lia|assert (p < s) by lia; lia]).
        exists (onehot (length W) (sl p (0 + i)) (nth i (slens ps) 1)). split; [apply cspec_cover_slice; assumption|].
        simpl. rewrite Ei. fold l. rewrite <- (nth_insert l p i L 1 Pl). fold W. rewrite Ei.
        apply hit_onehot; [reflexivity|assumption]. }
  unfold gather. rewrite BC.
  destruct (cspec_valid L (length W) p (tshape t) its ps 0 Hp Hf) as [V1 V2]. rewrite V1, V2, Nat.eqb_refl. simpl andb. cbv iota.
  unfold result. unfold out_shape. fold p l. change (firstn p l ++ [L] ++ skipn p l) with W. f_equal. f_equal.
  apply map_ext_in. intros oi Hin.
  pose proof (enum_length _ _ Hin) as Lo. pose proof (enum_bound _ _ Hin) as Bo.
  rewrite (cspec_vals L W p (tshape t) its ps 0 oi Lo PW).
  - unfold split_out. simpl length. simpl skipn at 1. rewrite (firstn1_skipn oi p 0) by lia.
    replace (p + 1) with (S p) by lia. reflexivity.
  - rewrite <- WP. apply Bo. assumption.
  - assumption.
  - assumption.
  - intros i Hi. simpl. split.
    + rewrite LW. replace (length l + 1) with (S (length l)) by lia. apply sl_lt. exact Hi.
    + fold l. rewrite <- (nth_insert l p i L 1 Pl). fold W. apply Bo.
      rewrite LW. replace (length l + 1) with (S (length l)) by lia. apply sl_lt. exact Hi.
Qed.

(* ------------------------------------------------------------------------------------- *)
(** flattening the broadcast block:  idx.expand(B).reshape(-1)  and the final  view  *)

Lemma length_flat_map_const {A B} (f : A -> list B) c l : (forall x, length (f x) = c) -> length (flat_map f l) = length l * c.
Proof. intros H. induction l as [|x l IH]; [reflexivity|]. simpl. rewrite app_length, H, IH. reflexivity. Qed.

Lemma enum_count B : length (enum B) = prod B.
Proof.
  induction B as [|n B IH]; [reflexivity|]. simpl.
  rewrite (length_flat_map_const _ (prod B)) by (intros x; rewrite map_length; exact IH). rewrite seq_length. reflexivity.
Qed.

Lemma map_add_seq c P : forall s, map (fun k => c + k) (seq s P) = seq (c + s) P.
Proof. induction P as [|P IH]; intros s; [reflexivity|]. simpl. rewrite IH. f_equal. f_equal. lia. Qed.

Lemma seq_blocks P : forall n a, flat_map (fun i => map (fun k => i * P + k) (seq 0 P)) (seq a n) = seq (a * P) (n * P).
Proof.
  induction n as [|n IH]; intros a; [reflexivity|]. cbn [seq flat_map]. rewrite IH, map_add_seq, Nat.add_0_r.
  replace (S n * P) with (P + n * P) by lia. rewrite seq_app. f_equal. f_equal. lia.
Qed.

Lemma ravel_enum B : map (ravel B) (enum B) = seq 0 (prod B).
Proof.
  induction B as [|n B IH]; [reflexivity|]. cbn [enum]. rewrite map_flat_map.
  rewrite (flat_map_ext _ (fun i => map (fun k => i * prod B + k) (seq 0 (prod B)))).
  - rewrite seq_blocks. reflexivity.
  - intros i. rewrite map_map. rewrite <- IH, map_map. reflexivity.
Qed.

Lemma nth_ravel_enum {A} (g : list nat -> A) B bc d : In bc (enum B) ->
  nth (ravel B bc) (map g (enum B)) d = g bc /\ ravel B bc < prod B.
Proof.
  intros Hin. destruct (In_nth _ _ [] Hin) as [i [Hi E]]. rewrite enum_count in Hi.
  assert (R : ravel B bc = i).
  { rewrite <- E. rewrite <- (map_nth (ravel B)). rewrite ravel_enum.
    rewrite (nth_indep _ (ravel B []) 0) by (rewrite seq_length; assumption). rewrite seq_nth by assumption. reflexivity. }
  rewrite R. split; [|assumption].
  rewrite (nth_indep _ d (g [])) by (rewrite map_length, enum_count; assumption). rewrite map_nth, E. reflexivity.
Qed.

Definition flat_plan (B : list nat) (pl : dplan) : dplan :=
  match pl with PTe sh d => PTe [prod B] (map (fun bc => tget_b sh d B bc) (enum B)) | _ => pl end.

Lemma kinds_flat B ps : kinds (map (flat_plan B) ps) = kinds ps.
Proof. induction ps as [|pl ps IH]; [reflexivity|]. cbn [map]. rewrite !kinds_cons, IH. destruct pl; reflexivity. Qed.
Lemma slens_flat B ps : slens (map (flat_plan B) ps) = slens ps.
Proof. induction ps as [|pl ps IH]; [reflexivity|]. cbn [map]. rewrite !slens_cons, IH. destruct pl; reflexivity. Qed.

Lemma plans_flatten B ns : forall its ps, plans_of ns its = Some ps -> Forall (fun n => 0 < n) ns ->
  plans_of ns (map (flatten_to B) its) = Some (map (flat_plan B) ps).
Proof.
  induction ns as [|n ns IH]; intros [|it its] ps H Hn; simpl in H; try discriminate.
  - inversion H. reflexivity.
  - destruct (plan_of n it) as [pl|] eqn:Ep; [|discriminate]. destruct (plans_of ns its) as [r|] eqn:Er; [|discriminate].
    inversion H; subst. inversion Hn; subst. cbn [map plans_of]. rewrite (IH _ _ Er) by assumption.
    destruct it as [k|a b s|sh d].
    + cbn [flatten_to]. rewrite Ep. destruct (plan_int_inv _ _ _ Ep) as [_ ->]. reflexivity.
    + cbn [flatten_to]. rewrite Ep. destruct (plan_slice_inv _ _ _ _ _ Ep) as (lo & st & len & ->). reflexivity.
    + destruct (plan_tensor_inv _ _ _ _ Ep) as (-> & T1 & T2). cbn [flatten_to flat_plan].
      unfold plan_of. cbv zeta. rewrite map_length, enum_count. simpl prod. rewrite Nat.mul_1_r, Nat.eqb_refl. simpl andb.
      replace (forallb (in_range (Z.of_nat n)) (map (fun bc => tget_b sh d B bc) (enum B))) with true; [reflexivity|].
      symmetry. apply forallb_forall. intros x Hx. apply in_map_iff in Hx as [bc [<- _]]. unfold tget_b.
      destruct (Nat.lt_ge_cases (ravel sh (bidx sh B bc)) (length d)) as [Hl|Hl].
      * rewrite forallb_forall in T2. apply T2. apply nth_In. assumption.
      * rewrite nth_overflow by assumption. unfold in_range. apply andb_true_iff. split; [apply Z.leb_le|apply Z.ltb_lt]; lia.
Qed.

Lemma flat1_flatten B its : flat1 (prod B) (map (flatten_to B) its).
Proof. unfold flat1. induction its as [|it its IH]; [constructor|]. cbn [map]. constructor; [destruct it; simpl; auto|exact IH]. Qed.

Lemma existsb_flatten B its : existsb is_tensor (map (flatten_to B) its) = existsb is_tensor its.
Proof. induction its as [|it its IH]; [reflexivity|]. cbn [map existsb]. rewrite IH. destruct it; reflexivity. Qed.

Lemma src_flat B bc ps : forall ns sc, In bc (enum B) ->
  src (map (flat_plan B) ps) ns [prod B] [ravel B bc] sc = src ps ns B bc sc.
Proof.
  induction ps as [|pl ps IH]; intros ns sc Hin; [reflexivity|].
  destruct ns as [|n ns]; [destruct pl; reflexivity|].
  destruct pl as [i|lo st len|sh d]; cbn [map flat_plan src]; f_equal; try (apply IH; assumption).
  rewrite tget_b_1d.
  destruct (nth_ravel_enum (fun bc => tget_b sh d B bc) B bc 0%Z Hin) as [N1 N2].
  assert (E : (if prod B =? 1 then 0 else ravel B bc) = ravel B bc).
  { destruct (prod B =? 1) eqn:E1; [apply Nat.eqb_eq in E1; lia|reflexivity]. }
  rewrite E, N1. reflexivity.
Qed.

Lemma skipn_app_len {A} (x r : list A) : skipn (length x) (x ++ r) = r.
Proof. induction x; simpl; auto. Qed.
Lemma firstn_app_len {A} (x r : list A) : firstn (length x) (x ++ r) = x.
Proof. induction x; simpl; [reflexivity|]. f_equal. assumption. Qed.

Lemma split_out_mid (x m y : list nat) : split_out (length x) (length m) (x ++ m ++ y) = (m, x ++ y).
Proof.
  unfold split_out. rewrite skipn_app_len, !firstn_app_len. f_equal. f_equal.
  rewrite app_assoc. rewrite <- app_length. apply skipn_app_len.
Qed.

Lemma enum_mid a X c : enum (a ++ X ++ c) =
  flat_map (fun x => flat_map (fun m => map (fun y => x ++ m ++ y) (enum c)) (enum X)) (enum a).
Proof.
  rewrite enum_app. apply flat_map_ext. intros x. rewrite enum_app, map_flat_map. apply flat_map_ext. intros m.
  rewrite map_map. reflexivity.
Qed.

Lemma flatten_data t ps B : block_pos (kinds ps) <= length (slens ps) ->
  let p := block_pos (kinds ps) in let l := slens ps in
  map (fun oi => let '(bc, sc) := split_out p 1 oi in tget t (src (map (flat_plan B) ps) (tshape t) [prod B] bc sc))
      (enum (firstn p l ++ [prod B] ++ skipn p l)) =
  map (fun oi => let '(bc, sc) := split_out p (length B) oi in tget t (src ps (tshape t) B bc sc))
      (enum (firstn p l ++ B ++ skipn p l)).
Proof.
  intros Hp p l. rewrite !enum_mid, !map_flat_map. apply flat_map_ext_in'. intros x Hx.
  assert (Lx : length x = p) by (rewrite (enum_length _ _ Hx), firstn_length; unfold p, l; lia).
  rewrite !map_flat_map. rewrite enum_single, <- ravel_enum, map_map, flat_map_map.
  apply flat_map_ext_in'. intros bc Hbc. rewrite !map_map. apply map_ext. intros y.
  rewrite <- Lx. change 1 with (length [ravel B bc]). rewrite split_out_mid.
  rewrite <- (enum_length _ _ Hbc). rewrite split_out_mid. rewrite src_flat by assumption. reflexivity.
Qed.

(* ------------------------------------------------------------------------------------- *)
(** rank of a broadcast *)

Lemma bc_rev_length a : forall b c, bc_rev a b = Some c -> length c = Nat.max (length a) (length b).
Proof.
  induction a as [|x a IH]; intros b c H.
  - simpl in H. inversion H. reflexivity.
  - destruct b as [|y b]; [simpl in H; inversion H; reflexivity|]. simpl in H.
    destruct (bc_rev a b) as [r|] eqn:E; [|discriminate]. apply IH in E.
    destruct (x =? y); [inversion H; simpl; lia|]. destruct (x =? 1); [inversion H; simpl; lia|].
    destruct (y =? 1); [inversion H; simpl; lia|discriminate].
Qed.

Lemma bcast2_length a b c : bcast2 a b = Some c -> length c = Nat.max (length a) (length b).
Proof.
  unfold bcast2. destruct (bc_rev (rev a) (rev b)) as [r|] eqn:E; [|discriminate]. intros H; inversion H.
  rewrite rev_length, (bc_rev_length _ _ _ E), !rev_length. reflexivity.
Qed.

Lemma bcast_all_length shapes : forall acc B, bcast_all shapes acc = Some B ->
  length acc <= length B /\ Forall (fun sh => length sh <= length B) shapes.
Proof.
  induction shapes as [|sh shapes IH]; intros acc B H.
  - simpl in H. inversion H. split; [lia|constructor].
  - cbn [bcast_all] in H. destruct (bcast2 acc sh) as [a|] eqn:E; [|discriminate].
    apply bcast2_length in E. destruct (IH _ _ H) as [I1 I2]. split; [lia|]. constructor; [lia|assumption].
Qed.

(* ------------------------------------------------------------------------------------- *)
(** the absorbed branch of __getitem__ (repaired variant), as a function of the index list handed to it *)

Definition absorbed_res (t : tensor) (orig : list item) : option tensor :=
  match bcast_all (flat_map (fun it => match it with ITensor sh _ => [sh] | _ => [] end) orig) [] with
  | None => None
  | Some B =>
      let flat := map (flatten_to B) orig in
      match convert_indices_to_tensors (tshape t) flat with
      | None => None
      | Some ts =>
          match gather t ts with
          | None => None
          | Some r =>
              if (1 <? length B)%nat then
                let rs := tshape r in
                if is_moved_to_start orig then view r (B ++ skipn 1 rs)
                else let p := count_while is_slice (filter (fun it => negb (match it with IInt _ => true | _ => false end)) orig) in
                     view r (firstn p rs ++ B ++ skipn (S p) rs)
              else Some r
          end
      end
  end.

Lemma count_while_slices its :
  count_while is_slice (filter (fun it => negb (match it with IInt _ => true | _ => false end)) its) = count_while negb (ikinds its).
Proof.
  induction its as [|it its IH]; [reflexivity|]. rewrite ikinds_cons. destruct it; simpl; auto.
Qed.

Lemma view_block (d : list Z) A x C B : prod B = x -> view (mkT (A ++ [x] ++ C) d) (A ++ B ++ C) = Some (mkT (A ++ B ++ C) d).
Proof.
  intros H. subst x. unfold view. cbn [tshape tdata].
  replace (prod (A ++ B ++ C) =? prod (A ++ [prod B] ++ C)) with true; [reflexivity|].
  symmetry. apply Nat.eqb_eq. rewrite !prod_app. cbn [prod]. rewrite Nat.mul_1_r. reflexivity.
Qed.

Theorem absorbed_res_correct : forall t orig ps B,
  plans_of (tshape t) orig = Some ps -> bcast_all (tshapes ps) [] = Some B ->
  existsb is_tensor orig = true -> Forall (fun n => 0 < n) (tshape t) -> 1 <= length B ->
  absorbed_res t orig = Some (result t ps B).
Proof.
  intros t orig ps B Hp HB He Hpos HlB. unfold absorbed_res. fold (ishapes orig).
  rewrite (ishapes_tshapes _ _ _ Hp), HB. cbv zeta.
  pose proof (convert_gather_flat t (map (flatten_to B) orig) (map (flat_plan B) ps) (prod B)
                (plans_flatten B _ _ _ Hp Hpos) (flat1_flatten B orig)) as CG.
  rewrite existsb_flatten in CG. specialize (CG He).
  destruct (convert_indices_to_tensors (tshape t) (map (flatten_to B) orig)) as [ts|]; [|discriminate]. rewrite CG.
  pose proof (block_pos_le ps) as Pl.
  pose proof (flatten_data t ps B Pl) as FD. cbv zeta in FD.
  set (p := block_pos (kinds ps)) in *. set (l := slens ps) in *.
  set (dF := map (fun oi => let '(bc, sc) := split_out p 1 oi in tget t (src (map (flat_plan B) ps) (tshape t) [prod B] bc sc))
                 (enum (firstn p l ++ [prod B] ++ skipn p l))) in *.
  assert (RF : result t (map (flat_plan B) ps) [prod B] = mkT (firstn p l ++ [prod B] ++ skipn p l) dF).
  { unfold result, out_shape. rewrite kinds_flat, slens_flat. reflexivity. }
  assert (RES : result t ps B = mkT (firstn p l ++ B ++ skipn p l) dF).
  { unfold result, out_shape. fold p l. rewrite <- FD. reflexivity. }
  rewrite RF, RES. cbn [tshape]. clear RF RES FD CG.
  set (A := firstn p l) in *. set (C := skipn p l) in *.
  assert (LA : length A = p) by (unfold A; rewrite firstn_length; lia).
  destruct (1 <? length B) eqn:E1.
  - destruct (moved_to_start_correct orig) as [M1 M2].
    rewrite <- (kinds_ikinds _ _ _ Hp) in M1, M2. fold p in M1, M2.
    destruct (is_moved_to_start orig) eqn:EM.
    + specialize (M1 eq_refl).
      assert (EA : A = []) by (unfold A; rewrite M1; reflexivity). rewrite EA.
      exact (view_block dF [] (prod B) C B eq_refl).
    + specialize (M2 eq_refl). rewrite count_while_slices, <- (kinds_ikinds _ _ _ Hp), <- M2.
      assert (F1 : firstn p (A ++ [prod B] ++ C) = A) by (rewrite <- LA; apply firstn_app_len).
      assert (F2 : skipn (S p) (A ++ [prod B] ++ C) = C).
      { replace (S p) with (length (A ++ [prod B])) by (rewrite app_length; simpl; lia).
        rewrite app_assoc. apply skipn_app_len. }
      rewrite F1, F2. apply view_block. reflexivity.
  - apply Nat.ltb_ge in E1. destruct B as [|b [|b' B']]; simpl in HlB, E1; try lia.
    cbn [prod]. rewrite Nat.mul_1_r. reflexivity.
Qed.

(* ------------------------------------------------------------------------------------- *)
(** the pieces of __getitem__ around the absorbed branch *)

Definition nonneg (ns : list nat) (l : list item) : list item :=
  map (fun '(n, it) => match it with IInt i => IInt (if (i <? 0)%Z then (i + Z.of_nat n)%Z else i) | _ => it end) (combine ns l).

Lemma plans_nonneg ns : forall its ps, plans_of ns its = Some ps -> plans_of ns (nonneg ns its) = Some ps.
Proof.
  induction ns as [|n ns IH]; intros [|it its] ps H; simpl in H; try discriminate.
  - inversion H. reflexivity.
  - destruct (plan_of n it) as [pl|] eqn:Ep; [|discriminate]. destruct (plans_of ns its) as [r|] eqn:Er; [|discriminate].
    inversion H; subst. unfold nonneg. cbn [combine map plans_of]. fold (nonneg ns its). rewrite (IH _ _ Er).
    destruct it as [i|a b s|sh d]; try (rewrite Ep; reflexivity).
    destruct (plan_int_inv _ _ _ Ep) as [Ei ->]. unfold plan_of. cbv zeta.
    unfold in_range in Ei. apply andb_true_iff in Ei as [E1 E2]. apply Z.leb_le in E1. apply Z.ltb_lt in E2.
    destruct (i <? 0)%Z eqn:E0; [apply Z.ltb_lt in E0|apply Z.ltb_ge in E0].
    + replace (in_range (Z.of_nat n) (i + Z.of_nat n)) with true
        by (symmetry; unfold in_range; apply andb_true_iff; split; [apply Z.leb_le|apply Z.ltb_lt]; lia).
      unfold wrap. replace (i <? 0)%Z with true by (symmetry; apply Z.ltb_lt; lia).
      replace (i + Z.of_nat n <? 0)%Z with false by (symmetry; apply Z.ltb_ge; lia). reflexivity.
    + replace (in_range (Z.of_nat n) i) with true
        by (symmetry; unfold in_range; apply andb_true_iff; split; [apply Z.leb_le|apply Z.ltb_lt]; lia).
      reflexivity.
Qed.

Lemma existsb_nonneg ns : forall its, length ns = length its -> existsb is_tensor (nonneg ns its) = existsb is_tensor its.
Proof.
  induction ns as [|n ns IH]; intros [|it its] H; try discriminate; [reflexivity|].
  unfold nonneg. cbn [combine map existsb]. fold (nonneg ns its). rewrite IH by (simpl in H; lia). destruct it; reflexivity.
Qed.

(* 0-d tensor indices never reach the normalised index: __getitem__ (and torch) turn them into python ints *)
Definition no0d (it : item) : Prop := match it with ITensor [] [_] => False | _ => True end.

Lemma spec_expand_no0d rank idx index : spec_expand rank idx = Some index -> Forall no0d index.
Proof.
  unfold spec_expand. destruct (1 <? length (filter is_ell idx)); [discriminate|].
  destruct (rank <? length idx - length (filter is_ell idx)); [discriminate|]. intros H; inversion H. clear.
  apply Forall_app. split.
  - generalize (rank - (length idx - length (filter is_ell idx))). intros fill.
    induction idx as [|x idx IH]; [constructor|]. destruct x as [it| |d]; cbn [expand_ell].
    + constructor; [|exact IH]. destruct it as [i|a b s|sh d]; try exact I. destruct sh; [|exact I]. destruct d as [|v [|w d]]; exact I.
    + apply Forall_app. split; [|exact IH]. clear. induction fill; simpl; constructor; [exact I|assumption].
    + constructor; [exact I|exact IH].
  - generalize (rank - length (expand_ell idx (rank - (length idx - length (filter is_ell idx))))). intros k.
    induction k; simpl; constructor; [exact I|assumption].
Qed.

Lemma plans_no0d ns : forall its ps, plans_of ns its = Some ps -> Forall no0d its ->
  Forall (fun sh => 1 <= length sh) (tshapes ps).
Proof.
  induction ns as [|n ns IH]; intros [|it its] ps H Hn; simpl in H; try discriminate.
  - inversion H. constructor.
  - destruct (plan_of n it) as [pl|] eqn:Ep; [|discriminate]. destruct (plans_of ns its) as [r|] eqn:Er; [|discriminate].
    inversion H; subst. inversion Hn; subst. rewrite tshapes_cons. apply Forall_app. split; [|eapply IH; eassumption].
    destruct it as [k|a b s|sh d].
    + destruct (plan_int_inv _ _ _ Ep) as [_ ->]. constructor.
    + destruct (plan_slice_inv _ _ _ _ _ Ep) as (lo & st & len & ->). constructor.
    + destruct (plan_tensor_inv _ _ _ _ Ep) as (-> & T1 & _). constructor; [|constructor].
      destruct sh; [|simpl; lia]. simpl in T1. apply Nat.eqb_eq in T1. destruct d as [|v [|w d]]; try discriminate.
      simpl in H2. destruct H2.
Qed.

Lemma tshapes_nonempty ns : forall its ps, plans_of ns its = Some ps -> existsb is_tensor its = true -> tshapes ps <> [].
Proof.
  induction ns as [|n ns IH]; intros [|it its] ps H He; simpl in H; try discriminate.
  destruct (plan_of n it) as [pl|] eqn:Ep; [|discriminate]. destruct (plans_of ns its) as [r|] eqn:Er; [|discriminate].
  inversion H; subst. rewrite tshapes_cons. simpl in He. destruct it as [k|a b s|sh d]; simpl in He.
  - destruct (plan_int_inv _ _ _ Ep) as [_ ->]. simpl. eapply IH; eassumption.
  - destruct (plan_slice_inv _ _ _ _ _ Ep) as (lo & st & len & ->). simpl. eapply IH; eassumption.
  - destruct (plan_tensor_inv _ _ _ _ Ep) as (-> & _). discriminate.
Qed.

Lemma block_rank ns its ps B : plans_of ns its = Some ps -> Forall no0d its -> existsb is_tensor its = true ->
  bcast_all (tshapes ps) [] = Some B -> 1 <= length B.
Proof.
  intros Hp Hn He HB. pose proof (plans_no0d _ _ _ Hp Hn) as F1. pose proof (tshapes_nonempty _ _ _ Hp He) as N.
  destruct (bcast_all_length _ _ _ HB) as [_ F2]. destruct (tshapes ps) as [|sh rest]; [congruence|].
  inversion F1; subst. inversion F2; subst. lia.
Qed.

(* ------------------------------------------------------------------------------------- *)
(** main theorem: the absorbed path of the repaired __getitem__ returns the torch result *)

Definition absorbed_idx (nd : nat) (index : list item) : bool :=
  let bt := existsb is_tensor (firstn (nd - 2) index) in
  let rt := is_tensor (nth (nd - 2) index full) in
  let ct := is_tensor (nth (nd - 1) index full) in
  (bt && (rt || ct)) || (negb bt && (rt && ct)).

Lemma absorbed_has_tensor nd index : length index = nd -> 2 <= nd -> absorbed_idx nd index = true -> existsb is_tensor index = true.
Proof.
  intros Hl Hn H. rewrite (list_split_last2 full index nd Hl Hn). rewrite existsb_app. unfold absorbed_idx in H. cbv zeta in H.
  destruct (existsb is_tensor (firstn (nd - 2) index)); [reflexivity|]. simpl in *.
  destruct (is_tensor (nth (nd - 2) index full)); [reflexivity|discriminate].
Qed.

Lemma getitem_absorbed_unfold t idx index : 2 <= length (tshape t) ->
  spec_expand (length (tshape t)) idx = Some index -> length index = length (tshape t) ->
  absorbed_idx (length (tshape t)) index = true ->
  getitem_model Fixed false t idx = absorbed_res t (nonneg (tshape t) index).
Proof.
  intros Hnd Hexp Hlen Habs. unfold getitem_model, getitem_front.
  replace (length (tshape t) <? 2) with false by (symmetry; apply Nat.ltb_ge; lia).
  rewrite Hexp. cbv zeta. unfold absorbed_idx in Habs. cbv zeta in Habs. rewrite Habs.
  cbn [negb andb variant_eqb].
  pose proof (list_split_last2 full index _ Hlen Hnd) as Ei.
  set (batch := firstn (length (tshape t) - 2) index) in *. set (row := nth (length (tshape t) - 2) index full) in *.
  set (col := nth (length (tshape t) - 1) index full) in *.
  assert (Er : match row with IInt _ => row | _ => row end = row) by (destruct row; reflexivity).
  assert (Ec : match col with IInt _ => col | _ => col end = col) by (destruct col; reflexivity).
  rewrite Er, Ec. rewrite Ei at 1.
  match goal with |- match ?X with Some r => Some r | None => None end = _ => destruct X eqn:EX end;
    rewrite <- EX; reflexivity.
Qed.

Theorem getitem_fixed_absorbed : forall t idx index r,
  2 <= length (tshape t) -> Forall (fun n => 0 < n) (tshape t) ->
  spec_expand (length (tshape t)) idx = Some index ->
  absorbed_idx (length (tshape t)) index = true ->
  torch_index t idx = Some r ->
  getitem_model Fixed false t idx = Some r.
Proof.
  intros t idx index r Hnd Hpos Hexp Habs Hspec.
  unfold torch_index in Hspec. rewrite Hexp in Hspec. unfold torch_index_norm in Hspec.
  destruct (plans_of (tshape t) index) as [ps|] eqn:Hp; [|discriminate].
  destruct (bcast_all (tshapes ps) []) as [B|] eqn:HB; [|discriminate].
  assert (Hr : r = result t ps B) by (inversion Hspec; reflexivity). subst r. clear Hspec.
  pose proof (plans_of_length _ _ _ Hp) as Hlen.
  rewrite (getitem_absorbed_unfold t idx index Hnd Hexp (eq_sym Hlen) Habs).
  pose proof (absorbed_has_tensor _ _ (eq_sym Hlen) Hnd Habs) as He.
  apply absorbed_res_correct.
  - apply plans_nonneg. assumption.
  - assumption.
  - rewrite existsb_nonneg by assumption. assumption.
  - assumption.
  - eapply block_rank; try eassumption. eapply spec_expand_no0d. eassumption.
Qed.

(* debug mode only adds the shape assertion against _compute_getitem_size, which holds whenever the result is the torch result *)
Theorem getitem_debug_irrelevant : forall v t idx r,
  torch_index t idx = Some r -> getitem_model v false t idx = Some r -> getitem_model v true t idx = Some r.
Proof.
  intros v t idx r Hspec H. unfold getitem_model, getitem_front in *.
  destruct (length (tshape t) <? 2); [discriminate|].
  unfold torch_index in Hspec.
  destruct (spec_expand (length (tshape t)) idx) as [index|] eqn:Hexp; [|discriminate]. cbv zeta in *.
  match type of H with match ?X with Some _ => _ | None => None end = _ => destruct X as [r0|]; [|discriminate] end.
  injection H as H. rewrite H. rewrite (compute_getitem_size_torch true t index r Hspec).
  replace (lnat_eqb' (tshape r) (tshape r)) with true; [reflexivity|].
  symmetry. clear. induction (tshape r) as [|x l IH]; [reflexivity|]. simpl. rewrite Nat.eqb_refl. exact IH.
Qed.
