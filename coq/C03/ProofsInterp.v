(* C03 — InterpolatedLinearOperator._get_indices (and the default LinearOperator._get_indices built on it):
   the double sum over interpolation points is entry (row, col) of  W_left K W_right^T *)
From Coq Require Import List ZArith Bool Arith Lia.
Import ListNotations.
Require Import C03.Model.
Open Scope Z_scope.

(* row of the (dense) interpolation matrix W: W[x] = sum of the weights whose index is x (duplicates add up, as in
   the sparse interpolation matrix the library densifies) *)
Definition interp_w (idx vals : list Z) (x : Z) : Z :=
  zsum_list (map (fun '(a, va) => if a =? x then va else 0) (combine idx vals)).

Lemma zsum_upto_ext n f g : (forall x, 0 <= x < Z.of_nat n -> f x = g x) -> zsum_upto n f = zsum_upto n g.
Proof. induction n as [|n IH]; intros H; [reflexivity|]. simpl. rewrite IH by (intros; apply H; lia). rewrite H by lia. reflexivity. Qed.

Lemma zsum_upto_add n f g : zsum_upto n (fun x => f x + g x) = zsum_upto n f + zsum_upto n g.
Proof. induction n as [|n IH]; [reflexivity|]. simpl. rewrite IH. ring. Qed.

Lemma zsum_upto_scal n c f : zsum_upto n (fun x => c * f x) = c * zsum_upto n f.
Proof. induction n as [|n IH]; [simpl; ring|]. simpl. rewrite IH. ring. Qed.

Lemma zsum_upto_zero n : zsum_upto n (fun _ => 0) = 0.
Proof. induction n as [|n IH]; [reflexivity|]. simpl. rewrite IH. reflexivity. Qed.

Lemma zsum_upto_delta n a v g : 0 <= a < Z.of_nat n ->
  zsum_upto n (fun x => (if a =? x then v else 0) * g x) = v * g a.
Proof.
  induction n as [|n IH]; intros H; [simpl in H; lia|]. simpl.
  destruct (Z.eq_dec a (Z.of_nat n)) as [->|Hne].
  - rewrite Z.eqb_refl. rewrite (zsum_upto_ext n _ (fun _ => 0)).
    + rewrite zsum_upto_zero. ring.
    + intros x Hx. replace (Z.of_nat n =? x) with false by (symmetry; apply Z.eqb_neq; lia). ring.
  - replace (a =? Z.of_nat n) with false by (symmetry; apply Z.eqb_neq; lia). rewrite IH by lia. ring.
Qed.

(* sum_x W[x] * g x  collapses to the sum over the interpolation points *)
Lemma interp_w_collapse n idx : forall vals g, Forall (fun a => 0 <= a < Z.of_nat n) idx ->
  zsum_upto n (fun x => interp_w idx vals x * g x) = zsum_list (map (fun '(a, va) => va * g a) (combine idx vals)).
Proof.
  induction idx as [|a idx IH]; intros vals g H.
  - unfold interp_w. simpl. first [apply zsum_upto_zero | rewrite (zsum_upto_ext n _ (fun _ => 0)) by (intros; ring); apply zsum_upto_zero].
  - destruct vals as [|v vals].
    + unfold interp_w. simpl. first [apply zsum_upto_zero | rewrite (zsum_upto_ext n _ (fun _ => 0)) by (intros; ring); apply zsum_upto_zero].
    + inversion H; subst. unfold interp_w. cbn [combine map zsum_list]. fold (interp_w idx vals).
      rewrite (zsum_upto_ext n _ (fun x => (if a =? x then v else 0) * g x + interp_w idx vals x * g x)) by (intros; unfold interp_w; ring).
      rewrite zsum_upto_add, zsum_upto_delta by assumption. rewrite IH by assumption. reflexivity.
Qed.

Lemma zsum_list_scal c l : zsum_list (map (fun x => c * x) l) = c * zsum_list l.
Proof. induction l as [|x l IH]; [simpl; ring|]. simpl. rewrite IH. ring. Qed.

Lemma zsum_list_map_ext {A} (f g : A -> Z) l : (forall x, f x = g x) -> zsum_list (map f l) = zsum_list (map g l).
Proof. intros H. induction l as [|x l IH]; [reflexivity|]. simpl. rewrite H, IH. reflexivity. Qed.

Lemma zsum_list_add {A} (f g : A -> Z) l : zsum_list (map (fun x => f x + g x) l) = zsum_list (map f l) + zsum_list (map g l).
Proof. induction l as [|x l IH]; [reflexivity|]. simpl. rewrite IH. ring. Qed.

Lemma zsum_list_swap {A B} (f : A -> B -> Z) la lb :
  zsum_list (map (fun a => zsum_list (map (fun b => f a b) lb)) la) =
  zsum_list (map (fun b => zsum_list (map (fun a => f a b) la)) lb).
Proof.
  induction la as [|a la IH].
  - simpl. induction lb as [|b lb IHb]; [reflexivity|]. simpl. rewrite <- IHb. reflexivity.
  - simpl. rewrite IH. rewrite <- zsum_list_add. reflexivity.
Qed.

Theorem interp_get_indices_correct : forall (K : Z -> Z -> Z) li lv ri rv m n,
  Forall (fun a => 0 <= a < Z.of_nat m) li -> Forall (fun b => 0 <= b < Z.of_nat n) ri ->
  interp_get_indices K li lv ri rv =
  zsum_upto m (fun x => zsum_upto n (fun y => interp_w li lv x * K x y * interp_w ri rv y)).
Proof.
  intros K li lv ri rv m n Hl Hr.
  rewrite (zsum_upto_ext m _ (fun x => interp_w li lv x * zsum_upto n (fun y => interp_w ri rv y * K x y))).
  2:{ intros x _. rewrite <- zsum_upto_scal. apply zsum_upto_ext. intros y _. ring. }
  rewrite (interp_w_collapse m li lv _ Hl).
  rewrite (zsum_list_map_ext _ (fun p : Z * Z => zsum_list (map (fun q : Z * Z => snd p * snd q * K (fst p) (fst q)) (combine ri rv)))).
  2:{ intros [a va]. rewrite (interp_w_collapse n ri rv _ Hr). rewrite <- zsum_list_scal. cbn [fst snd].
      rewrite map_map. apply zsum_list_map_ext. intros [b vb]. cbn [fst snd]. ring. }
  rewrite (zsum_list_swap (fun (p q : Z * Z) => snd p * snd q * K (fst p) (fst q))).
  unfold interp_get_indices. apply zsum_list_map_ext. intros [b vb]. apply zsum_list_map_ext. intros [a va]. reflexivity.
Qed.

(* the default LinearOperator._get_indices: interpolation with the single point (row, col) and weight 1 selects the entry *)
Corollary default_get_indices_correct : forall (K : Z -> Z -> Z) r c,
  interp_get_indices K [r] [1] [c] [1] = K r c.
Proof. intros. unfold interp_get_indices. cbn [combine map zsum_list]. ring. Qed.

(* ------------------------------------------------------------------------------------- *)
(** Interpolated._diagonal over a Root base with dense root: the shortcut is the diagonal entry of W_l (R R^T) W_r^T *)

Lemma zsum_list_mul_r {A} (f : A -> Z) l c : zsum_list (map f l) * c = zsum_list (map (fun x => f x * c) l).
Proof. induction l as [|x l IH]; [reflexivity|]. simpl. rewrite <- IH. ring. Qed.

Lemma zsum_upto_list {A} n (f : Z -> A -> Z) l :
  zsum_upto n (fun k => zsum_list (map (f k) l)) = zsum_list (map (fun x => zsum_upto n (fun k => f k x)) l).
Proof.
  induction l as [|x l IH]; [simpl; apply zsum_upto_zero|]. simpl. rewrite zsum_upto_add, IH. reflexivity.
Qed.

Theorem interp_root_diag_correct : forall (R : Z -> Z -> Z) rk li lv ri rv,
  interp_root_diag R rk li lv ri rv = interp_get_indices (root_get_indices R rk) li lv ri rv.
Proof.
  intros R rk li lv ri rv. unfold interp_root_diag, interp_get_indices, left_interp_row, root_get_indices.
  rewrite (zsum_upto_ext rk _ (fun k => zsum_list (map (fun q : Z * Z =>
             zsum_list (map (fun p : Z * Z => snd p * snd q * (R (fst p) k * R (fst q) k)) (combine li lv))) (combine ri rv)))).
  2:{ intros k _. rewrite Z.mul_comm, zsum_list_mul_r. apply zsum_list_map_ext. intros [b vb].
      rewrite Z.mul_comm, zsum_list_mul_r. apply zsum_list_map_ext. intros [a va]. cbn [fst snd]. ring. }
  rewrite zsum_upto_list. apply zsum_list_map_ext. intros [b vb]. rewrite zsum_upto_list.
  apply zsum_list_map_ext. intros [a va]. cbn [fst snd]. rewrite <- zsum_upto_scal. apply zsum_upto_ext. intros k _. ring.
Qed.

(* DiagLinearOperator._get_indices: diag[row] * (row == col) *)
Theorem diag_get_indices_correct : forall (d : Z -> Z) r c, diag_get_indices d r c = if r =? c then d r else 0.
Proof. intros. unfold diag_get_indices. destruct (r =? c); ring. Qed.

(* ------------------------------------------------------------------------------------- *)
(** BlockLinearOperator._getitem, fast path for slices whose bounds are multiples of num_blocks (interleaved layout; as
    repaired by proposed_fixes/C03-block-aligned-slice: the block dimension of the base is not indexed): the result is
    the SAME class over the base sliced at row a = start // k, column c = start // k.  Its entry (x, y) is the entry
    (a*k + x, c*k + y) of the original operator. *)
Require Import C03.ProofsClass.

Theorem blockinterleaved_aligned_slice : forall k (base : Z -> Z -> Z -> Z) a c x y,
  0 < k -> 0 <= a -> 0 <= c -> 0 <= x -> 0 <= y ->
  blockinterleaved_get_indices k base (a * k + x) (c * k + y) =
  blockinterleaved_get_indices k (fun b i j => base b (a + i) (c + j)) x y.
Proof.
  intros k base a c x y Hk Ha Hc Hx Hy. unfold blockinterleaved_get_indices, py_div.
  rewrite !Z.div_add_l by lia.
  rewrite !fmod_nonneg by nia.
  rewrite (Z.add_comm (a * k)), (Z.add_comm (c * k)), !Z.mod_add by lia. reflexivity.
Qed.
