(* C03 — per-class index arithmetic of _get_indices: Toeplitz, Kronecker (any number of factors),
   BlockDiag, BlockInterleaved, BatchRepeat, Diag, Masked — for all sizes *)
From Coq Require Import List ZArith Bool Arith Lia.
Import ListNotations.
Require Import C03.Model C03.Proofs C03.ProofsSlice.
Open Scope Z_scope.

(* torch.fmod on non-negative operands is Python's % *)
Lemma fmod_nonneg a b : 0 <= a -> 0 < b -> fmod a b = a mod b.
Proof. intros. unfold fmod. apply Z.rem_mod_nonneg; lia. Qed.

(* ------------------------------------------------------------------------------------- *)
(** Toeplitz: (r - c).fmod(n).abs() = |r - c| and stays inside the column *)

Theorem toeplitz_index_correct n r c : 0 <= r < n -> 0 <= c < n ->
  toeplitz_index n r c = Z.abs (r - c) /\ 0 <= toeplitz_index n r c < n.
Proof.
  intros Hr Hc. unfold toeplitz_index, fmod.
  assert (E : Z.rem (r - c) n = r - c).
  { destruct (Z_le_gt_dec 0 (r - c)).
    - apply Z.rem_small. lia.
    - replace (r - c) with (- (c - r)) by lia. rewrite Z.rem_opp_l by lia.
      rewrite Z.rem_small by lia. reflexivity. }
  rewrite E. split; lia.
Qed.

(* ------------------------------------------------------------------------------------- *)
(** Kronecker product of any number of factors *)

Fixpoint compose (sizes ds : list Z) : Z :=
  match sizes, ds with
  | _ :: r, d :: ds' => d * zprod r + compose r ds'
  | _, _ => 0
  end.

Inductive digits_ok : list Z -> list Z -> Prop :=
| dok_nil : digits_ok [] []
| dok_cons s d r ds : 0 <= d < s -> digits_ok r ds -> digits_ok (s :: r) (d :: ds).

Lemma zprod_pos sizes : Forall (fun s => 0 < s) sizes -> 0 < zprod sizes.
Proof. induction 1; simpl; [lia|]. apply Z.mul_pos_pos; assumption. Qed.

Lemma digits_ok_pos sizes ds : digits_ok sizes ds -> Forall (fun s => 0 < s) sizes.
Proof. induction 1; constructor; [lia|assumption]. Qed.

Lemma compose_bound sizes ds : digits_ok sizes ds -> 0 <= compose sizes ds < zprod sizes.
Proof.
  induction 1 as [|s d r ds Hd Hok IH]; simpl; [lia|].
  pose proof (zprod_pos r (digits_ok_pos _ _ Hok)) as Hp. nia.
Qed.

(* the digits of an index do not change when a multiple of the total size is added *)
Lemma kron_digits_shift sizes : Forall (fun s => 0 < s) sizes -> forall x y, 0 <= x -> 0 <= y ->
  kron_digits sizes (zprod sizes) (x + y * zprod sizes) = kron_digits sizes (zprod sizes) x.
Proof.
  induction 1 as [|s r Hs Hr IH]; intros x y Hx Hy; [reflexivity|].
  pose proof (zprod_pos r Hr) as Hp. cbn [kron_digits zprod]. unfold py_div.
  assert (F : s * zprod r / s = zprod r) by (rewrite Z.mul_comm; apply Z.div_mul; lia). rewrite F.
  f_equal.
  - replace (x + y * (s * zprod r)) with (x + (y * s) * zprod r) by ring.
    rewrite Z.div_add by lia.
    assert (0 <= x / zprod r) by (apply Z.div_pos; lia).
    rewrite !fmod_nonneg by nia. apply Z.mod_add. lia.
  - replace (x + y * (s * zprod r)) with (x + (y * s) * zprod r) by ring. apply IH; nia.
Qed.

(* digit extraction inverts the composition of a Kronecker index, for every list of factor sizes *)
Theorem kron_digits_compose sizes ds : digits_ok sizes ds ->
  kron_digits sizes (zprod sizes) (compose sizes ds) = ds.
Proof.
  induction 1 as [|s d r ds Hd Hok IH]; [reflexivity|].
  pose proof (digits_ok_pos _ _ Hok) as Hr. pose proof (zprod_pos r Hr) as Hp.
  pose proof (compose_bound _ _ Hok) as Hb.
  cbn [kron_digits zprod compose]. unfold py_div.
  assert (F : s * zprod r / s = zprod r) by (rewrite Z.mul_comm; apply Z.div_mul; lia). rewrite F.
  f_equal.
  - rewrite Z.div_add_l by lia. rewrite (Z.div_small (compose r ds)) by lia.
    rewrite fmod_nonneg by lia. rewrite Z.add_0_r. apply Z.mod_small. lia.
  - rewrite Z.add_comm. rewrite kron_digits_shift by (try assumption; lia). exact IH.
Qed.

(* entry (compose rd, compose cd) of  A_1 (x) ... (x) A_k  is  prod_i A_i[rd_i, cd_i] *)
Theorem kron_get_indices_correct ms ns fs rd cd : digits_ok ms rd -> digits_ok ns cd ->
  kron_get_indices ms ns fs (compose ms rd) (compose ns cd) = prod_entries fs rd cd.
Proof.
  intros Hr Hc. unfold kron_get_indices. rewrite !kron_digits_compose by assumption. reflexivity.
Qed.

(* every in-range index is the composition of its digits (the theorem above covers all entries) *)
Theorem compose_surjective sizes : Forall (fun s => 0 < s) sizes -> forall x, 0 <= x < zprod sizes ->
  exists ds, digits_ok sizes ds /\ compose sizes ds = x.
Proof.
  induction 1 as [|s r Hs Hr IH]; intros x Hx; simpl in Hx.
  - exists []. split; [constructor|simpl; lia].
  - pose proof (zprod_pos r Hr) as Hp.
    destruct (IH (x mod zprod r)) as [ds [Hok Hc]]; [apply Z.mod_pos_bound; lia|].
    exists (x / zprod r :: ds). split.
    + constructor; [|assumption]. split; [apply Z.div_pos; lia|].
      apply Z.div_lt_upper_bound; lia.
    + simpl. rewrite Hc. rewrite Z.mul_comm. symmetry. apply Z.div_mod. lia.
Qed.

(* ------------------------------------------------------------------------------------- *)
(** BlockDiag / BlockInterleaved *)

Theorem blockdiag_get_indices_correct m n base bi i bj j :
  0 <= bi -> 0 <= i < m -> 0 <= bj -> 0 <= j < n ->
  blockdiag_get_indices m n base (bi * m + i) (bj * n + j) = if bi =? bj then base bi i j else 0.
Proof.
  intros Hbi Hi Hbj Hj. unfold blockdiag_get_indices, py_div.
  rewrite !Z.div_add_l by lia. rewrite !Z.div_small by lia. rewrite !Z.add_0_r.
  rewrite !fmod_nonneg by nia.
  rewrite (Z.add_comm (bi * m)), (Z.add_comm (bj * n)), !Z.mod_add by lia.
  rewrite !Z.mod_small by lia. destruct (bi =? bj); ring.
Qed.

Theorem blockinterleaved_get_indices_correct k base bi i bj j :
  0 <= bi < k -> 0 <= i -> 0 <= bj < k -> 0 <= j ->
  blockinterleaved_get_indices k base (i * k + bi) (j * k + bj) = if bi =? bj then base bi i j else 0.
Proof.
  intros Hbi Hi Hbj Hj. unfold blockinterleaved_get_indices, py_div.
  rewrite !Z.div_add_l by lia. rewrite !Z.div_small by lia. rewrite !Z.add_0_r.
  rewrite !fmod_nonneg by nia.
  rewrite (Z.add_comm (i * k)), (Z.add_comm (j * k)), !Z.mod_add by lia.
  rewrite !Z.mod_small by lia. destruct (bi =? bj); ring.
Qed.

(* every row / column index of the block operators has that form *)
Lemma block_index_decompose m x : 0 < m -> 0 <= x -> exists b i, 0 <= b /\ 0 <= i < m /\ x = b * m + i.
Proof.
  intros Hm Hx. exists (x / m), (x mod m). split; [apply Z.div_pos; lia|].
  split; [apply Z.mod_pos_bound; lia|]. rewrite Z.mul_comm. apply Z.div_mod. lia.
Qed.

(* ------------------------------------------------------------------------------------- *)
(** BatchRepeat: entry b of a tensor repeated along a batch dimension is entry (b fmod size) of the base *)

Lemma nth_concat_repeat {A} (l : list A) (d : A) : forall rep b, (b < rep * length l)%nat ->
  nth b (concat (repeat l rep)) d = nth (b mod length l)%nat l d.
Proof.
  induction rep as [|rep IH]; intros b Hb; [simpl in Hb; lia|].
  simpl. destruct (Nat.lt_ge_cases b (length l)) as [Hlt|Hge].
  - rewrite app_nth1 by assumption. rewrite Nat.mod_small by assumption. reflexivity.
  - rewrite app_nth2 by assumption. rewrite IH by (simpl in Hb; lia).
    assert (length l <> 0)%nat by (simpl in Hb; lia).
    replace b with ((b - length l) + 1 * length l)%nat at 2 by lia.
    rewrite Nat.mod_add by assumption. reflexivity.
Qed.

Theorem batchrepeat_index_correct {A} (l : list A) (d : A) rep b : (b < rep * length l)%nat ->
  nth b (concat (repeat l rep)) d =
  nth (Z.to_nat (batchrepeat_index (Z.of_nat (length l)) (Z.of_nat b))) l d.
Proof.
  intros Hb. rewrite nth_concat_repeat by assumption. f_equal.
  assert (length l <> 0)%nat by lia.
  unfold batchrepeat_index. rewrite fmod_nonneg by lia.
  rewrite <- Nat2Z.inj_mod. rewrite Nat2Z.id. reflexivity.
Qed.

(* ------------------------------------------------------------------------------------- *)
(** Diag:  diag[r] * (r == c)  is the diagonal matrix *)

Theorem diag_get_indices_correct d r c : diag_get_indices d r c = if r =? c then d r else 0.
Proof. unfold diag_get_indices. destruct (r =? c); ring. Qed.

(* ------------------------------------------------------------------------------------- *)
(** Masked: arange(n)[mask] lists the kept positions in order; boolean-mask indexing keeps those rows *)

Fixpoint select {A} (mask : list bool) (l : list A) : list A :=
  match mask, l with
  | b :: m, x :: r => (if b then [x] else []) ++ select m r
  | _, _ => []
  end.

Lemma mask_positions_correct {A} (d : A) : forall mask (l : list A) off i,
  length mask = length l -> (i < length (select mask l))%nat ->
  let p := nth i (mask_positions mask off) 0 in
  off <= p /\ nth i (select mask l) d = nth (Z.to_nat (p - off)) l d.
Proof.
  induction mask as [|b m IH]; intros l off i Hl Hi; destruct l as [|x r]; simpl in *; try lia.
  injection Hl as Hl. destruct b; simpl in *.
  - destruct i as [|i]; [split; [lia|]; rewrite Z.sub_diag; reflexivity|].
    destruct (IH r (off + 1) i Hl ltac:(lia)) as [H1 H2]. split; [lia|].
    rewrite H2. replace (nth i (mask_positions m (off + 1)) 0 - off) with
      (Z.succ (nth i (mask_positions m (off + 1)) 0 - (off + 1))) by lia.
    rewrite Z2Nat.inj_succ by lia. reflexivity.
  - destruct (IH r (off + 1) i Hl Hi) as [H1 H2]. split; [lia|].
    rewrite H2. replace (nth i (mask_positions m (off + 1)) 0 - off) with
      (Z.succ (nth i (mask_positions m (off + 1)) 0 - (off + 1))) by lia.
    rewrite Z2Nat.inj_succ by lia. reflexivity.
Qed.

Theorem masked_get_indices_correct {A} (d : A) mask (l : list A) i :
  length mask = length l -> (i < length (select mask l))%nat ->
  nth i (select mask l) d = nth (Z.to_nat (nth i (mask_positions mask 0) 0)) l d.
Proof.
  intros Hl Hi. destruct (mask_positions_correct d mask l 0 i Hl Hi) as [_ H].
  rewrite H. rewrite Z.sub_0_r. reflexivity.
Qed.
