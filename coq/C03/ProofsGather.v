(* C03 — DenseLinearOperator._get_indices (tensor[(t_1, ..., t_n)] with one broadcasting index tensor per dimension):
   the element-wise gather of the model IS torch indexing with an all-tensor index, for every rank *)
From Coq Require Import List ZArith Bool Arith Lia.
Import ListNotations.
Require Import C03.Model C03.Proofs C03.ProofsSlice C03.ProofsSize.
Open Scope nat_scope.

Definition titems (ts : list (list nat * list Z)) : list item := map (fun '(sh, d) => ITensor sh d) ts.
Definition tplans (ts : list (list nat * list Z)) : list dplan := map (fun '(sh, d) => PTe sh d) ts.

Definition tvalid (n : nat) (t : list nat * list Z) : bool :=
  let '(sh, d) := t in (length d =? prod sh) && forallb (in_range (Z.of_nat n)) d.

Lemma plans_all_tensors ns : forall ts, length ts = length ns ->
  forallb (fun '(n, t) => tvalid n t) (combine ns ts) = true ->
  plans_of ns (titems ts) = Some (tplans ts).
Proof.
  induction ns as [|n ns IH]; intros ts Hl Hv; destruct ts as [|[sh d] ts]; try discriminate; [reflexivity|].
  simpl in Hv. apply andb_true_iff in Hv as [Hv1 Hv2]. simpl. rewrite Hv1.
  rewrite IH by (try assumption; simpl in Hl; lia). reflexivity.
Qed.

Lemma tshapes_tplans ts : tshapes (tplans ts) = map fst ts.
Proof. induction ts as [|[sh d] ts IH]; [reflexivity|]. simpl. rewrite IH. reflexivity. Qed.
Lemma slens_tplans ts : slens (tplans ts) = [].
Proof. induction ts as [|[sh d] ts IH]; [reflexivity|]. simpl. exact IH. Qed.
Lemma kinds_tplans ts : kinds (tplans ts) = repeat true (length ts).
Proof. induction ts as [|[sh d] ts IH]; [reflexivity|]. simpl. rewrite IH. reflexivity. Qed.

Lemma block_pos_all_true k : block_pos (repeat true k) = 0.
Proof. unfold block_pos. destruct k; [reflexivity|]. simpl. destruct (adjacent (true :: repeat true k)); reflexivity. Qed.

Lemma src_tplans ns : forall ts B bc sc, length ts = length ns ->
  src (tplans ts) ns B bc sc =
  map (fun '(n, (sh, d)) => Z.to_nat (wrap (Z.of_nat n) (tget_b sh d B bc))) (combine ns ts).
Proof.
  induction ns as [|n ns IH]; intros ts B bc sc Hl; destruct ts as [|[sh d] ts]; try discriminate; [reflexivity|].
  simpl. f_equal. apply IH. simpl in Hl. lia.
Qed.

Theorem gather_is_torch_index : forall t ts r,
  gather t ts = Some r -> torch_index_norm t (titems ts) = Some r.
Proof.
  intros t ts r H. unfold gather in H.
  destruct (bcast_all (map fst ts) []) as [B|] eqn:EB; [|discriminate].
  destruct (forallb (fun '(n, (sh, d)) => (length d =? prod sh) && forallb (in_range (Z.of_nat n)) d)
                    (combine (tshape t) ts) && (length ts =? length (tshape t))) eqn:EV; [|discriminate].
  apply andb_true_iff in EV as [EV1 EV2]. apply Nat.eqb_eq in EV2. injection H as <-.
  unfold torch_index_norm.
  rewrite (plans_all_tensors (tshape t) ts EV2).
  2:{ rewrite <- EV1. clear. generalize (combine (tshape t) ts). intros l.
      induction l as [|[n [sh d]] l IH]; [reflexivity|]. simpl. rewrite IH. reflexivity. }
  rewrite tshapes_tplans, EB. unfold out_shape.
  rewrite kinds_tplans, block_pos_all_true, slens_tplans. simpl firstn. simpl skipn. rewrite app_nil_r.
  f_equal. f_equal. apply map_ext_in. intros oi Hin. unfold split_out. simpl skipn. simpl firstn.
  assert (L : length oi = length B).
  { clear -Hin. revert oi Hin. induction B as [|n l IH]; intros oi Hin.
    - simpl in Hin. destruct Hin as [<-|[]]. reflexivity.
    - simpl in Hin. apply in_flat_map in Hin as [i [_ Hin]]. apply in_map_iff in Hin as [x [<- Hx]].
      simpl. f_equal. apply IH. assumption. }
  rewrite <- L, firstn_all. rewrite src_tplans by assumption. reflexivity.
Qed.
