(* C03 — Python int / slice normalisation laws and the int -> slice rewriting of __getitem__ *)
From Coq Require Import List ZArith Bool Arith Lia.
Import ListNotations.
Require Import C03.Model C03.Proofs.
Open Scope Z_scope.

Ltac zb := rewrite ?Z.ltb_lt, ?Z.ltb_ge, ?Z.leb_le, ?Z.leb_gt, ?Z.geb_leb, ?Z.eqb_eq, ?Z.eqb_neq,
                   ?andb_true_iff, ?andb_false_iff, ?orb_true_iff in *.

(** negative-index normalisation *)
Lemma wrap_in_range n i : in_range n i = true -> 0 <= wrap n i < n.
Proof.
  unfold in_range, wrap. intros H. zb. destruct H as [H1 H2].
  destruct (i <? 0) eqn:E; zb; lia.
Qed.

Lemma wrap_congr n i : in_range n i = true -> (wrap n i) mod n = i mod n.
Proof.
  intros H. pose proof (wrap_in_range n i H) as W. unfold wrap in *.
  destruct (i <? 0) eqn:E; [|reflexivity].
  replace (i + n) with (i + 1 * n) by lia. apply Z.mod_add. lia.
Qed.

(** the full slice selects everything *)
Lemma slice_len_noop n : 0 <= n -> slice_len None None None n = n.
Proof.
  intros Hn. unfold slice_len, slice_indices, range_len. simpl.
  destruct (0 <? n) eqn:E; zb; [|lia].
  rewrite Z.div_1_r. lia.
Qed.

(** completeness: every position of the dimension that lies in [start, stop) on the stride is selected *)
Lemma range_len_complete lo hi st x : 0 < st -> lo <= x < hi -> (x - lo) mod st = 0 ->
  exists k, 0 <= k < range_len lo hi st /\ x = lo + k * st.
Proof.
  intros Hs [H1 H2] Hm. exists ((x - lo) / st).
  assert (Hx : x - lo = st * ((x - lo) / st)) by (apply Z.div_exact; lia).
  assert (0 <= (x - lo) / st) by (apply Z.div_pos; lia).
  unfold range_len. assert (E : (0 <? st) = true) by (apply Z.ltb_lt; lia). rewrite E.
  assert (E1 : (lo <? hi) = true) by (apply Z.ltb_lt; lia). rewrite E1.
  split; [|lia]. split; [lia|].
  assert ((x - lo) / st <= (hi - lo - 1) / st) by (apply Z.div_le_mono; lia). lia.
Qed.

Theorem slice_complete a b s n x : 0 <= n -> 0 < odefault 1 s ->
  let '(lo, hi, st) := slice_indices a b s n in
  lo <= x < hi -> (x - lo) mod st = 0 -> exists k, 0 <= k < slice_len a b s n /\ x = lo + k * st.
Proof.
  intros Hn Hs. unfold slice_len.
  pose proof (slice_indices_pos a b s n Hn Hs) as H.
  destruct (slice_indices a b s n) as [[lo hi] st]. destruct H as (_ & _ & Hst). subst st.
  intros. apply range_len_complete; assumption.
Qed.

(** a slice never selects more than the dimension holds *)
Theorem slice_len_le a b s n : 0 <= n -> 0 < odefault 1 s -> 0 <= slice_len a b s n <= n.
Proof.
  intros Hn Hs. split; [unfold slice_len; destruct (slice_indices a b s n) as [[lo hi] st]; apply range_len_nonneg|].
  destruct (Z_le_gt_dec (slice_len a b s n) 0) as [|Hpos]; [lia|].
  pose proof (slice_in_range a b s n (slice_len a b s n - 1) Hn Hs ltac:(lia)) as H.
  pose proof (slice_in_range a b s n 0 Hn Hs ltac:(lia)) as H0.
  pose proof (slice_indices_pos a b s n Hn Hs) as Hp.
  destruct (slice_indices a b s n) as [[lo hi] st]. destruct Hp as (Hlo & _ & Hst).
  assert (1 <= st) by lia.
  assert ((slice_len a b s n - 1) * 1 <= (slice_len a b s n - 1) * st) by (apply Z.mul_le_mono_nonneg_l; lia).
  lia.
Qed.

(* ------------------------------------------------------------------------------------- *)
(** the int -> slice rewriting of __getitem__ (rows and columns) *)

(* what the rewritten int selects: start and number of elements *)
Definition slice_sel (it : item) (n : Z) : option (Z * Z) :=
  match it with
  | ISlice a b s => let '(lo, hi, st) := slice_indices a b s n in Some (lo, range_len lo hi st)
  | _ => None
  end.

Lemma slice_indices_step1 a b n :
  slice_indices a b None n =
  (match a with None => 0 | Some x => slice_adjust n 1 0 n x end,
   match b with None => n | Some x => slice_adjust n 1 0 n x end, 1).
Proof. reflexivity. Qed.

Lemma range_len_1 lo hi : range_len lo hi 1 = if lo <? hi then hi - lo else 0.
Proof.
  unfold range_len. change (0 <? 1) with true. cbv iota.
  destruct (lo <? hi); [|reflexivity]. rewrite Z.div_1_r. lia.
Qed.

Lemma slice_adjust_spec n x : 0 <= n ->
  slice_adjust n 1 0 n x = Z.max 0 (Z.min n (if x <? 0 then x + n else x)).
Proof.
  intros Hn. unfold slice_adjust.
  destruct (x <? 0) eqn:E; [destruct (x + n <? 0) eqn:E1|destruct (x >=? n) eqn:E1]; zb; lia.
Qed.

Lemma int_as_slice_fixed_sel n i : in_range n i = true -> slice_sel (int_as_slice Fixed i) n = Some (wrap n i, 1).
Proof.
  intros H. pose proof (wrap_in_range n i H) as W. unfold in_range in H. zb. destruct H as [H1 H2].
  assert (Hn : 0 <= n) by lia.
  unfold int_as_slice, slice_sel. rewrite slice_indices_step1, range_len_1, slice_adjust_spec by assumption.
  unfold wrap in *.
  destruct (i + 1 =? 0) eqn:E0; zb.
  - assert (i = -1) by lia. subst i. change (-1 <? 0) with true in *. cbv iota in *.
    replace (Z.max 0 (Z.min n (-1 + n))) with (-1 + n) by lia.
    destruct (-1 + n <? n) eqn:E; zb; [|lia]. f_equal. f_equal. lia.
  - rewrite slice_adjust_spec by assumption.
    destruct (i <? 0) eqn:Ei; zb.
    + destruct (i + 1 <? 0) eqn:E2; zb; [|lia].
      replace (Z.max 0 (Z.min n (i + n))) with (i + n) by lia.
      replace (Z.max 0 (Z.min n (i + 1 + n))) with (i + 1 + n) by lia.
      destruct (i + n <? i + 1 + n) eqn:E; zb; [|lia]. f_equal. f_equal. lia.
    + destruct (i + 1 <? 0) eqn:E2; zb; [lia|].
      replace (Z.max 0 (Z.min n i)) with i by lia.
      replace (Z.max 0 (Z.min n (i + 1))) with (i + 1) by lia.
      destruct (i <? i + 1) eqn:E; zb; [|lia]. f_equal. f_equal. lia.
Qed.

Lemma int_as_slice_pinned_sel n i : in_range n i = true -> i <> -1 ->
  slice_sel (int_as_slice Pinned i) n = Some (wrap n i, 1).
Proof.
  intros H Hne. rewrite <- (int_as_slice_fixed_sel n i H). unfold int_as_slice.
  destruct (i + 1 =? 0) eqn:E; zb; [lia|reflexivity].
Qed.

(* the defect of the pinned code: the last element addressed as -1 becomes the empty slice -1:0 *)
Lemma int_as_slice_pinned_m1 n : 0 < n -> slice_sel (int_as_slice Pinned (-1)) n = Some (n - 1, 0).
Proof.
  intros Hn. unfold int_as_slice, slice_sel. change (-1 + 1) with 0.
  rewrite slice_indices_step1, range_len_1, !slice_adjust_spec by lia.
  change (-1 <? 0) with true. change (0 <? 0) with false. cbv iota.
  replace (Z.max 0 (Z.min n (-1 + n))) with (n - 1) by lia.
  replace (Z.max 0 (Z.min n 0)) with 0 by lia.
  destruct (n - 1 <? 0) eqn:E; zb; [lia|reflexivity].
Qed.

(* at plan level: the rewritten int is a slice plan of length one starting at the normalised position,
   so the selected source coordinate is the one the int selects *)
Lemma plan_int_as_slice_fixed n i : in_range (Z.of_nat n) i = true ->
  plan_of n (IInt i) = Some (PFix (Z.to_nat (wrap (Z.of_nat n) i))) /\
  plan_of n (int_as_slice Fixed i) = Some (PSl (wrap (Z.of_nat n) i) 1 1).
Proof.
  intros H. split; [simpl; rewrite H; reflexivity|].
  pose proof (int_as_slice_fixed_sel _ _ H) as S.
  unfold int_as_slice in *. unfold plan_of. cbv zeta. change (odefault 1 None <=? 0) with false. cbv iota.
  unfold slice_sel in S. rewrite slice_indices_step1 in *.
  injection S as S1 S2. cbv beta iota zeta. rewrite S2, S1. reflexivity.
Qed.
