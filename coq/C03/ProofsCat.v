(* C03 — CatLinearOperator: the helper tables built by __init__ locate every index of the concatenated dimension,
   the run splitting of tensor indices is the element-wise lookup, and _split_slice (repaired) covers the slice *)
From Coq Require Import List ZArith Bool Arith Lia.
Import ListNotations.
Require Import C03.Model C03.Proofs C03.ProofsSlice.
Open Scope nat_scope.

Lemma nth_repeat_lt {A} (a d : A) n x : x < n -> nth x (repeat a n) d = a.
Proof. revert x; induction n as [|n IH]; intros x H; [lia|]. destruct x; simpl; [reflexivity|apply IH; lia]. Qed.

Section Locate.
Context {A : Type} (d : A).

Lemma cat_loc_gen : forall (pieces : list (list A)) k0 acc x, x < length (concat pieces) ->
  let sizes := map (@length A) pieces in
  let k := nth x (idx_table sizes k0) 0 in
  let c := nth (k - k0) (cum_sizes sizes acc) 0 in
  k0 <= k < k0 + length pieces /\ c <= acc + x /\ acc + x - c < length (nth (k - k0) pieces []) /\
  nth x (concat pieces) d = nth (acc + x - c) (nth (k - k0) pieces []) d.
Proof.
  induction pieces as [|p ps IH]; intros k0 acc x Hx; [simpl in Hx; lia|].
  cbn [map idx_table cum_sizes concat]. cbn [concat] in Hx. rewrite app_length in Hx.
  destruct (Nat.lt_ge_cases x (length p)) as [Hlt|Hge].
  - rewrite app_nth1 by (rewrite repeat_length; assumption).
    rewrite nth_repeat_lt by assumption. rewrite Nat.sub_diag. cbn [nth length].
    rewrite app_nth1 by assumption.
    replace (acc + x - acc) with x by lia. repeat split; try lia.
  - rewrite (app_nth2 (repeat k0 (length p))) by (rewrite repeat_length; assumption). rewrite repeat_length.
    assert (Hx' : x - length p < length (concat ps)) by lia.
    destruct (IH (S k0) (acc + length p) (x - length p) Hx') as (H1 & H2 & H3 & H4).
    set (k := nth (x - length p) (idx_table (map (@length A) ps) (S k0)) 0) in *.
    replace (k - k0) with (S (k - S k0)) by lia. cbn [nth length].
    replace (acc + length p + (x - length p)) with (acc + x) in * by lia.
    rewrite app_nth2 by assumption. repeat split; try lia; assumption.
Qed.

(* _get_indices on the concatenated dimension: component idx_to_tensor_idx[x], local index x - cum_sizes[component] *)
Theorem cat_locate_correct : forall (pieces : list (list A)) x, x < length (concat pieces) ->
  let '(k, i) := cat_locate (map (@length A) pieces) x in
  k < length pieces /\ i < length (nth k pieces []) /\ nth x (concat pieces) d = nth i (nth k pieces []) d.
Proof.
  intros pieces x Hx. unfold cat_locate.
  destruct (cat_loc_gen pieces 0 0 x Hx) as (H1 & H2 & H3 & H4). rewrite Nat.sub_0_r in *. simpl in *.
  repeat split; try lia; assumption.
Qed.
End Locate.

(* ------------------------------------------------------------------------------------- *)
(** run splitting (does_switch_tensor / split): evaluating each maximal run on its component and concatenating
    the results is the element-wise evaluation *)

Section Runs.
Context {B : Type} (tbl : nat -> nat) (g : nat -> nat -> B).

Definition eval_run (r : nat * list nat) : list B := map (g (fst r)) (snd r).

Lemma runs_aux_correct : forall l cur acc,
  concat (map eval_run (runs_aux tbl cur acc l)) = map (g cur) (rev acc) ++ map (fun x => g (tbl x) x) l.
Proof.
  induction l as [|x r IH]; intros cur acc.
  - simpl. rewrite !app_nil_r. reflexivity.
  - cbn [runs_aux]. destruct (tbl x =? cur) eqn:E.
    + apply Nat.eqb_eq in E. rewrite IH. cbn [rev]. rewrite map_app, <- app_assoc. simpl. rewrite E. reflexivity.
    + cbn [map concat]. rewrite IH. unfold eval_run at 1. simpl. reflexivity.
Qed.

Theorem runs_correct : forall l,
  concat (map eval_run (runs tbl l)) = map (fun x => g (tbl x) x) l.
Proof.
  destruct l as [|x r]; [reflexivity|]. unfold runs. rewrite runs_aux_correct. reflexivity.
Qed.

Lemma runs_aux_same : forall l cur acc, Forall (fun x => tbl x = cur) acc ->
  Forall (fun r => Forall (fun x => tbl x = fst r) (snd r)) (runs_aux tbl cur acc l).
Proof.
  induction l as [|x r IH]; intros cur acc Hacc; cbn [runs_aux].
  - constructor; [|constructor]. simpl. apply Forall_rev. assumption.
  - destruct (tbl x =? cur) eqn:E.
    + apply Nat.eqb_eq in E. apply IH. constructor; assumption.
    + constructor; [simpl; apply Forall_rev; assumption|]. apply IH. constructor; [reflexivity|constructor].
Qed.

(* every run really hits one component only *)
Theorem runs_same_component : forall l,
  Forall (fun r => Forall (fun x => tbl x = fst r) (snd r)) (runs tbl l).
Proof.
  destruct l as [|x r]; [constructor|]. unfold runs. apply runs_aux_same. constructor; [reflexivity|constructor].
Qed.
End Runs.

(* ------------------------------------------------------------------------------------- *)
(** _split_slice: a step-less slice of the concatenated dimension, cut into per-component slices *)

Section Split.
Context {A : Type}.

Definition seg (l : list A) (a b : nat) : list A := firstn (b - a) (skipn a l).

Lemma seg_app_r X Y a b : length X <= a -> seg (X ++ Y) a b = seg Y (a - length X) (b - length X).
Proof.
  intros H. unfold seg. rewrite skipn_app. rewrite (skipn_all2 X) by assumption. simpl.
  f_equal. lia.
Qed.

Lemma seg_app_l X Y a b : b <= length X -> seg (X ++ Y) a b = seg X a b.
Proof.
  intros H. unfold seg. rewrite skipn_app, firstn_app. rewrite skipn_length.
  replace (b - a - (length X - a)) with 0 by lia. rewrite firstn_O, app_nil_r. reflexivity.
Qed.

Lemma seg_app_mid X Y a b : a <= length X <= b -> seg (X ++ Y) a b = seg X a (length X) ++ seg Y 0 (b - length X).
Proof.
  intros [H1 H2]. unfold seg. rewrite skipn_app, firstn_app. rewrite skipn_length.
  replace (a - length X) with 0 by lia. simpl skipn.
  rewrite !(firstn_all2 (skipn a X)) by (rewrite skipn_length; lia).
  f_equal. f_equal. lia.
Qed.

Lemma seg_all X : seg X 0 (length X) = X.
Proof. unfold seg. simpl. rewrite Nat.sub_0_r. apply firstn_all. Qed.

Definition pre (pieces : list (list A)) (j : nat) : nat := length (concat (firstn j pieces)).

Lemma cum_nth : forall (pieces : list (list A)) acc j, j <= length pieces ->
  nth j (cum_sizes (map (@length A) pieces) acc) 0 = acc + pre pieces j.
Proof.
  induction pieces as [|p ps IH]; intros acc j Hj.
  - simpl in Hj. assert (j = 0) by lia. subst. unfold pre. simpl. lia.
  - destruct j as [|j]; [unfold pre; simpl; lia|].
    cbn [map cum_sizes nth]. rewrite IH by (simpl in Hj; lia).
    unfold pre. cbn [firstn concat]. rewrite app_length. lia.
Qed.

Lemma pre_mono (pieces : list (list A)) j j' : j <= j' -> pre pieces j <= pre pieces j'.
Proof.
  revert j j'. induction pieces as [|p ps IH]; intros j j' H; unfold pre in *.
  - rewrite !firstn_nil. lia.
  - destruct j as [|j], j' as [|j']; cbn [firstn concat]; rewrite ?app_length; try (simpl; lia).
    specialize (IH j j' ltac:(lia)). lia.
Qed.

Lemma pre_succ (pieces : list (list A)) j : j < length pieces ->
  pre pieces (S j) = pre pieces j + length (nth j pieces []).
Proof.
  revert j. induction pieces as [|p ps IH]; intros j H; [simpl in H; lia|].
  destruct j as [|j]; unfold pre in *.
  - cbn [firstn concat nth]. rewrite app_length. simpl. lia.
  - specialize (IH j ltac:(simpl in H; lia)).
    change (firstn (S (S j)) (p :: ps)) with (p :: firstn (S j) ps).
    change (firstn (S j) (p :: ps)) with (p :: firstn j ps).
    cbn [concat nth]. rewrite !app_length. lia.
Qed.

Lemma skipn_nth_cons (l : list (list A)) k : k < length l -> skipn k l = nth k l [] :: skipn (S k) l.
Proof.
  revert k. induction l as [|x r IH]; intros k H; [simpl in H; lia|].
  destruct k; [reflexivity|]. simpl. apply IH. simpl in H. lia.
Qed.

Lemma skipn_skipn' {B} (l : list B) : forall a b, skipn a (skipn b l) = skipn (a + b) l.
Proof.
  intros a b. revert l. induction b as [|b IH]; intros l; [rewrite Nat.add_0_r; reflexivity|].
  destruct l as [|x r]; [rewrite !skipn_nil; reflexivity|].
  rewrite Nat.add_succ_r. simpl. apply IH.
Qed.

Lemma split_at (l : list (list A)) k : k < length l -> l = firstn k l ++ nth k l [] :: skipn (S k) l.
Proof. intros H. rewrite <- skipn_nth_cons by assumption. symmetry. apply firstn_skipn. Qed.

Lemma map_nth_seq (l : list (list A)) : forall a m, a + m <= length l ->
  map (fun k => nth k l []) (seq a m) = firstn m (skipn a l).
Proof.
  intros a m. revert a. induction m as [|m IH]; intros a H; [reflexivity|].
  cbn [seq map]. rewrite (skipn_nth_cons l a) by lia. cbn [firstn]. f_equal.
  rewrite IH by lia. reflexivity.
Qed.

Lemma sum_sizes (pieces : list (list A)) : fold_right Nat.add 0 (map (@length A) pieces) = length (concat pieces).
Proof. induction pieces as [|p ps IH]; [reflexivity|]. simpl. rewrite app_length, IH. reflexivity. Qed.

(* a per-component slice, applied *)
Definition piece_seg (pieces : list (list A)) (t : nat * nat * nat) : list A :=
  let '(k, a, b) := t in seg (nth k pieces []) a b.

Definition split_nat (pieces : list (list A)) (lo hi : nat) : list (nat * nat * nat) :=
  let sizes := map (@length A) pieces in
  let tbl := idx_table sizes 0 in
  let cum := cum_sizes sizes 0 in
  let f := nth lo tbl 0 in
  let l := nth (hi - 1) tbl 0 in
  if l <? f then []
  else if f =? l then [(f, lo - nth f cum 0, hi - nth l cum 0)]
  else (f, lo - nth f cum 0, nth f sizes 0)
       :: map (fun k => (k, 0, nth k sizes 0)) (seq (S f) (l - f - 1))
       ++ [(l, 0, hi - nth l cum 0)].

Lemma split_nat_correct (pieces : list (list A)) lo hi : lo < hi <= length (concat pieces) ->
  concat (map (piece_seg pieces) (split_nat pieces lo hi)) = seg (concat pieces) lo hi.
Proof.
  intros [Hlt Hhi]. unfold split_nat.
  assert (exists d : A, True) as [d _].
  { destruct (concat pieces) as [|d r] eqn:E; [simpl in Hhi; lia|exists d; exact I]. }
  pose proof (cat_loc_gen d pieces 0 0 lo ltac:(lia)) as Hf.
  pose proof (cat_loc_gen d pieces 0 0 (hi - 1) ltac:(lia)) as Hl.
  cbv zeta in Hf, Hl.
  set (sizes := map (@length A) pieces) in *.
  set (f := nth lo (idx_table sizes 0) 0) in *.
  set (l := nth (hi - 1) (idx_table sizes 0) 0) in *.
  destruct Hf as (F1 & F2 & F3 & _). destruct Hl as (L1 & L2 & L3 & _).
  rewrite Nat.sub_0_r in *. simpl Nat.add in *.
  unfold sizes in F2, F3, L2, L3. rewrite cum_nth in F2, F3, L2, L3 by lia. simpl Nat.add in *.
  assert (Bf : f < length pieces /\ pre pieces f <= lo /\ lo - pre pieces f < length (nth f pieces [])) by (repeat split; lia).
  assert (Bl : l < length pieces /\ pre pieces l <= hi - 1 /\ hi - 1 - pre pieces l < length (nth l pieces [])) by (repeat split; lia).
  clear F1 F2 F3 L1 L2 L3.
  destruct Bf as (Bf1 & Bf2 & Bf3). destruct Bl as (Bl1 & Bl2 & Bl3).
  assert (Hc : forall j, j <= length pieces -> nth j (cum_sizes sizes 0) 0 = pre pieces j)
    by (intros; unfold sizes; rewrite cum_nth by assumption; reflexivity).
  rewrite !Hc by lia.
  assert (Hnth : forall k, nth k sizes 0 = length (nth k pieces [])).
  { intros k. unfold sizes. change 0 with (length (@nil A)). apply map_nth. }
  assert (Hfl : f <= l).
  { destruct (Nat.le_gt_cases f l) as [|Hgt]; [assumption|].
    pose proof (pre_mono pieces (S l) f ltac:(lia)). rewrite pre_succ in H by assumption. lia. }
  destruct (l <? f) eqn:Elf; [apply Nat.ltb_lt in Elf; lia|clear Elf].
  destruct (f =? l) eqn:E.
  - apply Nat.eqb_eq in E. rewrite <- E in *. cbn [map concat piece_seg]. rewrite app_nil_r.
    assert (D : concat pieces = concat (firstn f pieces) ++ nth f pieces [] ++ concat (skipn (S f) pieces)).
    { rewrite (split_at pieces f Bf1) at 1. rewrite concat_app. reflexivity. }
    rewrite D. change (length (concat (firstn f pieces))) with (pre pieces f) in *.
    rewrite seg_app_r by (change (length (concat (firstn f pieces))) with (pre pieces f); lia).
    change (length (concat (firstn f pieces))) with (pre pieces f).
    rewrite seg_app_l by lia. reflexivity.
  - apply Nat.eqb_neq in E. assert (Hlt' : f < l) by lia.
    cbn [map concat]. rewrite map_app, concat_app. cbn [map concat piece_seg]. rewrite app_nil_r.
    rewrite map_map. unfold piece_seg at 1.
    assert (Mid : concat (map (fun k => seg (nth k pieces []) 0 (nth k sizes 0)) (seq (S f) (l - f - 1))) =
                  concat (firstn (l - f - 1) (skipn (S f) pieces))).
    { rewrite <- map_nth_seq by lia. f_equal. apply map_ext. intros k. rewrite Hnth. apply seg_all. }
    rewrite Mid. rewrite Hnth.
    (* decompose the list of components around f and l *)
    set (S1 := skipn (S f) pieces).
    assert (D1 : pieces = firstn f pieces ++ nth f pieces [] :: S1) by (apply split_at; assumption).
    assert (D2 : S1 = firstn (l - f - 1) S1 ++ nth l pieces [] :: skipn (S l) pieces).
    { rewrite <- (firstn_skipn (l - f - 1) S1) at 1. f_equal. unfold S1. rewrite skipn_skipn'.
      replace (l - f - 1 + S f) with l by lia. apply skipn_nth_cons. assumption. }
    set (M := firstn (l - f - 1) S1) in *.
    assert (PL : pre pieces l = pre pieces f + length (nth f pieces []) + length (concat M)).
    { unfold pre at 1. rewrite D1 at 1. rewrite firstn_app, firstn_length_le by lia.
      rewrite (firstn_all2 (firstn f pieces)) by (rewrite firstn_length_le; lia).
      replace (l - f) with (S (l - f - 1)) by lia. cbn [firstn]. fold M.
      rewrite concat_app. cbn [concat]. rewrite !app_length. unfold pre. lia. }
    assert (D : concat pieces = concat (firstn f pieces) ++ nth f pieces [] ++ concat M ++
                                nth l pieces [] ++ concat (skipn (S l) pieces)).
    { rewrite D1 at 1. rewrite concat_app. cbn [concat]. rewrite D2 at 1. rewrite concat_app. reflexivity. }
    rewrite D.
    rewrite seg_app_r by (change (length (concat (firstn f pieces))) with (pre pieces f); lia).
    change (length (concat (firstn f pieces))) with (pre pieces f).
    rewrite seg_app_mid by lia. f_equal.
    rewrite seg_app_mid by lia. rewrite seg_all. f_equal.
    rewrite seg_app_l by lia. f_equal. lia.
Qed.
End Split.

(* ------------------------------------------------------------------------------------- *)
(** the transcription of _split_slice (Model.split_slice) against the list-level statement *)

Open Scope Z_scope.

Definition triple_nat (t : nat * Z * Z) : nat * nat * nat := let '(k, a, b) := t in (k, Z.to_nat a, Z.to_nat b).

Lemma nth_py_nonneg l i : 0 <= i -> nth_py l i = nth (Z.to_nat i) l 0%nat.
Proof. intros H. unfold nth_py, wrap. destruct (i <? 0) eqn:E; [apply Z.ltb_lt in E; lia|reflexivity]. Qed.

Theorem split_slice_fixed_nat {A} (pieces : list (list A)) a b :
  let total := Z.of_nat (length (concat pieces)) in
  let '(lo, hi, _) := slice_indices a b None total in
  lo < hi ->
  map triple_nat (split_slice Fixed (map (@length A) pieces) a b) = split_nat pieces (Z.to_nat lo) (Z.to_nat hi).
Proof.
  cbv zeta. pose proof (slice_indices_pos a b None (Z.of_nat (length (concat pieces))) ltac:(lia) ltac:(simpl; lia)) as P.
  destruct (slice_indices a b None (Z.of_nat (length (concat pieces)))) as [[lo hi] st] eqn:E.
  destruct P as (Plo & Phi & _). intros Hlt.
  unfold split_slice, split_bounds. rewrite sum_sizes, E.
  rewrite !nth_py_nonneg by lia.
  replace (Z.to_nat (hi - 1)) with (Z.to_nat hi - 1)%nat by lia.
  unfold split_nat.
  set (sizes := map (@length A) pieces).
  set (f := nth (Z.to_nat lo) (idx_table sizes 0) 0%nat).
  set (l := nth (Z.to_nat hi - 1) (idx_table sizes 0) 0%nat).
  destruct (l <? f)%nat; [reflexivity|].
  destruct (f =? l)%nat.
  - cbn [map triple_nat]. repeat f_equal; lia.
  - cbn [map triple_nat]. rewrite map_app, map_map. cbn [map triple_nat].
    f_equal; [repeat f_equal; lia|]. f_equal.
    + apply map_ext. intros k. rewrite Nat2Z.id. reflexivity.
    + repeat f_equal; lia.
Qed.

Definition piece_segZ {A} (pieces : list (list A)) (t : nat * Z * Z) : list A := piece_seg pieces (triple_nat t).

(* the repaired _split_slice cuts every non-empty step-less slice (None / negative / over-long bounds, stop == size)
   into per-component slices whose concatenation is the slice of the concatenation — any number of components *)
Theorem split_slice_fixed_correct {A} (pieces : list (list A)) a b :
  let total := Z.of_nat (length (concat pieces)) in
  let '(lo, hi, _) := slice_indices a b None total in
  lo < hi ->
  concat (map (piece_segZ pieces) (split_slice Fixed (map (@length A) pieces) a b)) =
  seg (concat pieces) (Z.to_nat lo) (Z.to_nat hi).
Proof.
  cbv zeta. pose proof (split_slice_fixed_nat pieces a b) as H. cbv zeta in H.
  pose proof (slice_indices_pos a b None (Z.of_nat (length (concat pieces))) ltac:(lia) ltac:(simpl; lia)) as P.
  destruct (slice_indices a b None (Z.of_nat (length (concat pieces)))) as [[lo hi] st].
  destruct P as (Plo & Phi & _). intros Hlt. specialize (H Hlt).
  unfold piece_segZ. rewrite <- map_map, H. apply split_nat_correct. lia.
Qed.

(* the pinned normalisation  x % cat_size  agrees with slice.indices exactly for  -size <= x < size *)
Theorem split_bounds_pinned_ok a b n : 0 < n ->
  (forall x, a = Some x -> - n <= x < n) -> (forall x, b = Some x -> - n <= x < n) ->
  split_bounds Pinned a b n = split_bounds Fixed a b n.
Proof.
  intros Hn Ha Hb. unfold split_bounds. rewrite slice_indices_step1.
  assert (M : forall x, - n <= x < n -> py_mod x n = slice_adjust n 1 0 n x).
  { intros x Hx. rewrite slice_adjust_spec by lia. unfold py_mod.
    destruct (x <? 0) eqn:E; [apply Z.ltb_lt in E|apply Z.ltb_ge in E].
    - replace (x mod n) with ((x + 1 * n) mod n) by (apply Z.mod_add; lia).
      rewrite Z.mod_small by lia. lia.
    - rewrite Z.mod_small by lia. lia. }
  f_equal.
  - destruct a as [x|]; [apply M, Ha; reflexivity|reflexivity].
  - destruct b as [x|]; [apply M, Hb; reflexivity|reflexivity].
Qed.

(* ... and fails at stop == size (also produced by the int index size-1, rewritten as slice(size-1, size)) *)
Theorem split_slice_pinned_refuted :
  exists (pieces : list (list Z)) a b,
    let total := Z.of_nat (length (concat pieces)) in
    let '(lo, hi, _) := slice_indices a b None total in
    lo < hi /\
    concat (map (piece_segZ pieces) (split_slice Pinned (map (@length Z) pieces) a b)) <>
    seg (concat pieces) (Z.to_nat lo) (Z.to_nat hi).
Proof.
  exists [[10; 11]; [20; 21]; [30; 31]], (Some 2), (Some 6). vm_compute. split; [reflexivity|discriminate].
Qed.
