(* C03 — per class: the entry formula of _get_indices (Model.v part 7, nested over the children's formulas) is the entry of
   the matrix the operator denotes, for all sizes, batch shapes and in-range coordinates; hence (ProofsContract.v) the class
   meets the _get_indices contract and  op[index] = dense[index]  on the absorbed path *)
From Coq Require Import List ZArith Bool Arith Lia.
Import ListNotations.
Require Import C03.Model C03.Proofs C03.ProofsSlice C03.ProofsSize C03.ProofsClass C03.ProofsCat C03.ProofsFront C03.ProofsAbsorbed
  C03.ProofsInterp C03.ProofsContract.
Open Scope nat_scope.

(* ------------------------------------------------------------------------------------- *)
(** coordinates *)

Lemma in_enum_app a A : forall b B, In a (enum A) -> In b (enum B) -> In (a ++ b) (enum (A ++ B)).
Proof.
  intros b B Ha Hb. rewrite enum_app. apply in_flat_map. exists a. split; [assumption|]. apply in_map. assumption.
Qed.

Lemma enum_app_inv A B x : In x (enum (A ++ B)) -> exists a b, x = a ++ b /\ In a (enum A) /\ In b (enum B).
Proof.
  rewrite enum_app. intros H. apply in_flat_map in H as [a [Ha H]]. apply in_map_iff in H as [b [<- Hb]]. eauto.
Qed.

Lemma cb_app b r c : cb (b ++ [r; c]) = b.
Proof. unfold cb. rewrite app_length. simpl. replace (length b + 2 - 2) with (length b) by lia. apply firstn_app_len. Qed.
Lemma cr_app b r c : cr (b ++ [r; c]) = r.
Proof. unfold cr. rewrite app_length. simpl. replace (length b + 2 - 2) with (length b) by lia. rewrite app_nth2 by lia. rewrite Nat.sub_diag. reflexivity. Qed.
Lemma cc_app b r c : cc (b ++ [r; c]) = c.
Proof. unfold cc. rewrite app_length. simpl. replace (length b + 2 - 1) with (length b + 1) by lia. rewrite app_nth2 by lia.
  replace (length b + 1 - length b) with 1 by lia. reflexivity. Qed.

Lemma enum_last2 bs m n x : In x (enum (bs ++ [m; n])) ->
  exists b r c, x = b ++ [r; c] /\ In b (enum bs) /\ r < m /\ c < n.
Proof.
  intros H. destruct (enum_app_inv _ _ _ H) as [b [y [-> [Hb Hy]]]]. apply enum_forall2 in Hy.
  inversion Hy as [|r m' y1 l1 Hr Hy1]; subst. inversion Hy1 as [|c n' y2 l2 Hc Hy2]; subst. inversion Hy2; subst.
  exists b, r, c. repeat split; assumption.
Qed.

Lemma in_enum_single k n : k < n -> In [k] (enum [n]).
Proof. intros H. apply in_enum. repeat constructor. assumption. Qed.

(* ------------------------------------------------------------------------------------- *)
(** Toeplitz: the denoted matrix has T[r, c] = column[|r - c|] *)

Definition toeplitz_ent (column : list nat -> Z) (x : list nat) : Z :=
  column (cb x ++ [if cc x <=? cr x then cr x - cc x else cc x - cr x]).

Theorem toeplitz_contract : forall column n bs x, In x (enum (bs ++ [n; n])) ->
  toeplitz_f column n x = toeplitz_ent column x /\
  In (cb x ++ [if cc x <=? cr x then cr x - cc x else cc x - cr x]) (enum (bs ++ [n])).
Proof.
  intros column n bs x Hx. destruct (enum_last2 _ _ _ _ Hx) as (b & r & c & -> & Hb & Hr & Hc).
  unfold toeplitz_f, toeplitz_ent, zr, zc. rewrite cb_app, cr_app, cc_app.
  destruct (toeplitz_index_correct (Z.of_nat n) (Z.of_nat r) (Z.of_nat c) ltac:(lia) ltac:(lia)) as [E _]. rewrite E.
  assert (A : Z.to_nat (Z.abs (Z.of_nat r - Z.of_nat c)) = if c <=? r then r - c else c - r).
  { destruct (c <=? r) eqn:L; [apply Nat.leb_le in L|apply Nat.leb_gt in L]; lia. }
  rewrite A. split; [reflexivity|]. apply in_enum_app; [assumption|]. apply in_enum_single.
  destruct (c <=? r) eqn:L; [apply Nat.leb_le in L|apply Nat.leb_gt in L]; lia.
Qed.

(* ------------------------------------------------------------------------------------- *)
(** Kronecker product of any number of factors: (A (x) Rest)[r, c] = A[r / M', c / N'] * Rest[r mod M', c mod N'] *)

Definition kms (fs : list (nat * nat * (list nat -> Z))) : list Z := map (fun f => Z.of_nat (fst (fst f))) fs.
Definition kns (fs : list (nat * nat * (list nat -> Z))) : list Z := map (fun f => Z.of_nat (snd (fst f))) fs.

Fixpoint kron_entZ (fs : list (nat * nat * (list nat -> Z))) (b : list nat) (r c : Z) : Z :=
  match fs with
  | [] => 1
  | f :: rest => let M := zprod (kms rest) in let N := zprod (kns rest) in
                 (snd f (b ++ [Z.to_nat (r / M); Z.to_nat (c / N)]) * kron_entZ rest b (r mod M) (c mod N))%Z
  end.
Definition kron_ent (fs : list (nat * nat * (list nat -> Z))) (x : list nat) : Z := kron_entZ fs (cb x) (zr x) (zc x).

Lemma kron_digits_block s r x : (0 < s)%Z -> Forall (fun s => (0 < s)%Z) r -> (0 <= x < s * zprod r)%Z ->
  kron_digits (s :: r) (s * zprod r) x = (x / zprod r)%Z :: kron_digits r (zprod r) (x mod zprod r).
Proof.
  intros Hs Hr Hx. pose proof (zprod_pos r Hr) as Hp. cbn [kron_digits]. unfold py_div.
  assert (F : (s * zprod r / s = zprod r)%Z) by (rewrite Z.mul_comm; apply Z.div_mul; lia). rewrite F. f_equal.
  - assert (0 <= x / zprod r < s)%Z by (split; [apply Z.div_pos; lia|apply Z.div_lt_upper_bound; lia]).
    rewrite fmod_nonneg by lia. apply Z.mod_small. lia.
  - rewrite (Z.div_mod x (zprod r)) at 1 by lia.
    replace (zprod r * (x / zprod r) + x mod zprod r)%Z with (x mod zprod r + (x / zprod r) * zprod r)%Z by ring.
    apply kron_digits_shift; [assumption| |].
    + apply Z.mod_pos_bound. lia.
    + apply Z.div_pos; lia.
Qed.

Definition kron_fZ (fs : list (nat * nat * (list nat -> Z))) (b : list nat) (r c : Z) : Z :=
  let rd := kron_digits (kms fs) (zprod (kms fs)) r in
  let cd := kron_digits (kns fs) (zprod (kns fs)) c in
  fold_right Z.mul 1%Z (map (fun '(f, (r, c)) => snd f (b ++ [Z.to_nat r; Z.to_nat c])) (combine fs (combine rd cd))).

Lemma kron_f_fZ fs x : kron_f fs x = kron_fZ fs (cb x) (zr x) (zc x).
Proof. reflexivity. Qed.

Definition kpos (fs : list (nat * nat * (list nat -> Z))) : Prop := Forall (fun f => 0 < fst (fst f) /\ 0 < snd (fst f)) fs.

Lemma kpos_kms fs : kpos fs -> Forall (fun s => (0 < s)%Z) (kms fs) /\ Forall (fun s => (0 < s)%Z) (kns fs).
Proof. induction 1 as [|f fs [H1 H2] _ [I1 I2]]; simpl; split; constructor; try assumption; lia. Qed.

Theorem kron_fZ_correct fs : kpos fs -> forall b r c, (0 <= r < zprod (kms fs))%Z -> (0 <= c < zprod (kns fs))%Z ->
  kron_fZ fs b r c = kron_entZ fs b r c.
Proof.
  induction 1 as [|f fs [Hm Hn] Hpos IH]; intros b r c Hr Hc; [reflexivity|].
  destruct (kpos_kms fs Hpos) as [Pm Pn]. pose proof (zprod_pos _ Pm) as PM. pose proof (zprod_pos _ Pn) as PN.
  unfold kron_fZ. cbn [kms kns map zprod] in *. fold (kms fs) (kns fs) in *.
  rewrite (kron_digits_block _ _ r) by (try assumption; lia). rewrite (kron_digits_block _ _ c) by (try assumption; lia).
  cbn [combine map fold_right kron_entZ]. f_equal. apply (IH b); apply Z.mod_pos_bound; lia.
Qed.

Lemma zprod_of_nat (l : list nat) : zprod (map Z.of_nat l) = Z.of_nat (prod l).
Proof. induction l as [|a l IH]; [reflexivity|]. simpl. rewrite IH. lia. Qed.

Theorem kron_contract : forall fs bs x, kpos fs ->
  In x (enum (bs ++ [prod (map (fun f => fst (fst f)) fs); prod (map (fun f => snd (fst f)) fs)])) ->
  kron_f fs x = kron_ent fs x.
Proof.
  intros fs bs x Hpos Hx. destruct (enum_last2 _ _ _ _ Hx) as (b & r & c & -> & Hb & Hr & Hc).
  rewrite kron_f_fZ. unfold kron_ent, zr, zc. rewrite cb_app, cr_app, cc_app.
  apply kron_fZ_correct; [assumption| |]; unfold kms, kns.
  - rewrite <- (map_map (fun f => fst (fst f)) Z.of_nat), zprod_of_nat. lia.
  - rewrite <- (map_map (fun f => snd (fst f)) Z.of_nat), zprod_of_nat. lia.
Qed.

(* ------------------------------------------------------------------------------------- *)
(** BlockDiag / BlockInterleaved over a base of shape batch ++ [k; m; n] *)

Definition blockdiag_ent (base : list nat -> Z) (m n : nat) (x : list nat) : Z :=
  if cr x / m =? cc x / n then base (cb x ++ [cr x / m; cr x mod m; cc x mod n]) else 0%Z.
Definition blockinterleaved_ent (base : list nat -> Z) (k : nat) (x : list nat) : Z :=
  if cr x mod k =? cc x mod k then base (cb x ++ [cr x mod k; cr x / k; cc x / k]) else 0%Z.

Lemma to_nat_div a b : Z.to_nat (Z.of_nat a / Z.of_nat b) = a / b.
Proof. rewrite <- Nat2Z.inj_div. apply Nat2Z.id. Qed.
Lemma to_nat_fmod a b : 0 < b -> Z.to_nat (fmod (Z.of_nat a) (Z.of_nat b)) = a mod b.
Proof. intros H. rewrite fmod_nonneg by lia. rewrite <- Nat2Z.inj_mod. apply Nat2Z.id. Qed.
Lemma eqb_div a b c d : (Z.of_nat a / Z.of_nat b =? Z.of_nat c / Z.of_nat d)%Z = (a / b =? c / d).
Proof.
  rewrite <- !Nat2Z.inj_div. destruct (a / b =? c / d) eqn:E.
  - apply Nat.eqb_eq in E. rewrite E. apply Z.eqb_refl.
  - apply Nat.eqb_neq in E. apply Z.eqb_neq. lia.
Qed.
Lemma eqb_fmod a c k : 0 < k -> (fmod (Z.of_nat a) (Z.of_nat k) =? fmod (Z.of_nat c) (Z.of_nat k))%Z = (a mod k =? c mod k).
Proof.
  intros H. rewrite !fmod_nonneg by lia. rewrite <- !Nat2Z.inj_mod. destruct (a mod k =? c mod k) eqn:E.
  - apply Nat.eqb_eq in E. rewrite E. apply Z.eqb_refl.
  - apply Nat.eqb_neq in E. apply Z.eqb_neq. lia.
Qed.

Theorem blockdiag_contract : forall base m n k bs x, 0 < m -> 0 < n -> In x (enum (bs ++ [k * m; k * n])) ->
  blockdiag_f base m n x = blockdiag_ent base m n x /\
  In (cb x ++ [cr x / m; cr x mod m; cc x mod n]) (enum (bs ++ [k; m; n])).
Proof.
  intros base m n k bs x Hm Hn Hx. destruct (enum_last2 _ _ _ _ Hx) as (b & r & c & -> & Hb & Hr & Hc).
  unfold blockdiag_f, blockdiag_ent, zr, zc, py_div. rewrite cb_app, cr_app, cc_app.
  rewrite !to_nat_div, !to_nat_fmod, eqb_div by assumption. split.
  - destruct (r / m =? c / n); ring.
  - apply in_enum_app; [assumption|]. apply in_enum. repeat constructor.
    + apply Nat.div_lt_upper_bound; lia.
    + apply Nat.mod_upper_bound. lia.
    + apply Nat.mod_upper_bound. lia.
Qed.

Theorem blockinterleaved_contract : forall base k m n bs x, 0 < k -> In x (enum (bs ++ [m * k; n * k])) ->
  blockinterleaved_f base k x = blockinterleaved_ent base k x /\
  In (cb x ++ [cr x mod k; cr x / k; cc x / k]) (enum (bs ++ [k; m; n])).
Proof.
  intros base k m n bs x Hk Hx. destruct (enum_last2 _ _ _ _ Hx) as (b & r & c & -> & Hb & Hr & Hc).
  unfold blockinterleaved_f, blockinterleaved_ent, zr, zc, py_div. rewrite cb_app, cr_app, cc_app.
  rewrite !to_nat_div, !to_nat_fmod, eqb_fmod by assumption. split.
  - destruct (r mod k =? c mod k); ring.
  - apply in_enum_app; [assumption|]. apply in_enum. repeat constructor.
    + apply Nat.mod_upper_bound. lia.
    + apply Nat.div_lt_upper_bound; lia.
    + apply Nat.div_lt_upper_bound; lia.
Qed.

(* ------------------------------------------------------------------------------------- *)
(** BatchRepeat: batch shape  lead ++ (rep_i * bbs_i)_i ; entry = base entry at the batch coordinates taken mod the base sizes *)

Definition batchrepeat_ent (base : list nat -> Z) (bbs : list nat) (x : list nat) : Z :=
  base (map (fun '(i, s) => i mod s) (combine (skipn (length (cb x) - length bbs) (cb x)) bbs) ++ [cr x; cc x]).

Theorem batchrepeat_contract : forall base bbs x, Forall (fun s => 0 < s) bbs ->
  batchrepeat_f base bbs x = batchrepeat_ent base bbs x.
Proof.
  intros base bbs x Hpos. unfold batchrepeat_f, batchrepeat_ent. f_equal. f_equal.
  generalize (skipn (length (cb x) - length bbs) (cb x)). intros l. revert l.
  induction Hpos as [|s bbs Hs _ IH]; intros [|i l]; try reflexivity. cbn [combine map]. rewrite to_nat_fmod by assumption.
  f_equal. apply IH.
Qed.

(* the coordinates handed to the base are valid: op batch shape = lead ++ map2 mul reps bbs *)
Lemma batchrepeat_coords_valid : forall bbs reps lead m n x, length reps = length bbs -> Forall (fun s => 0 < s) bbs ->
  In x (enum ((lead ++ map (fun '(r, s) => r * s) (combine reps bbs)) ++ [m; n])) ->
  In (map (fun '(i, s) => i mod s) (combine (skipn (length (cb x) - length bbs) (cb x)) bbs) ++ [cr x; cc x]) (enum (bbs ++ [m; n])).
Proof.
  intros bbs reps lead m n x Hl Hpos Hx. destruct (enum_last2 _ _ _ _ Hx) as (b & r & c & -> & Hb & Hr & Hc).
  rewrite cb_app, cr_app, cc_app. apply in_enum_app; [|apply in_enum; repeat constructor; assumption].
  destruct (enum_app_inv _ _ _ Hb) as (b1 & b2 & -> & H1 & H2).
  pose proof (enum_length _ _ H2) as L2. rewrite map_length, combine_length, Hl, Nat.min_id in L2.
  rewrite app_length, L2. replace (length b1 + length bbs - length bbs) with (length b1) by lia. rewrite skipn_app_len.
  apply in_enum. apply enum_forall2 in H2. clear -H2 Hl Hpos. revert reps b2 Hl H2.
  induction Hpos as [|s bbs Hs _ IH]; intros [|rp reps] b2 Hl H2; try discriminate.
  - inversion H2. constructor.
  - cbn [combine map] in H2. inversion H2; subst. cbn [combine map]. constructor; [apply Nat.mod_upper_bound; lia|].
    apply (IH reps); [simpl in Hl; lia|assumption].
Qed.

(* ------------------------------------------------------------------------------------- *)
(** Diag *)

Definition diag_ent (d : list nat -> Z) (x : list nat) : Z := if cr x =? cc x then d (cb x ++ [cr x]) else 0%Z.

Theorem diag_contract : forall d x, diag_f d x = diag_ent d x.
Proof.
  intros d x. unfold diag_f, diag_ent, zr, zc. destruct (cr x =? cc x) eqn:E.
  - apply Nat.eqb_eq in E. rewrite E, Z.eqb_refl. ring.
  - apply Nat.eqb_neq in E. replace (Z.of_nat (cr x) =? Z.of_nat (cc x))%Z with false by (symmetry; apply Z.eqb_neq; lia). ring.
Qed.

(* ------------------------------------------------------------------------------------- *)
(** Interpolated: entry of W_left K W_right^T *)

Definition interp_ent (base : list nat -> Z) (li lv ri rv : list nat -> list Z) (m n : nat) (x : list nat) : Z :=
  zsum_upto m (fun p => zsum_upto n (fun q =>
    interp_w (li (cb x ++ [cr x])) (lv (cb x ++ [cr x])) p * base (cb x ++ [Z.to_nat p; Z.to_nat q]) *
    interp_w (ri (cb x ++ [cc x])) (rv (cb x ++ [cc x])) q))%Z.

Theorem interp_contract : forall base li lv ri rv m n x,
  Forall (fun a => 0 <= a < Z.of_nat m)%Z (li (cb x ++ [cr x])) -> Forall (fun b => 0 <= b < Z.of_nat n)%Z (ri (cb x ++ [cc x])) ->
  interp_f base li lv ri rv x = interp_ent base li lv ri rv m n x.
Proof. intros. unfold interp_f, interp_ent. apply interp_get_indices_correct; assumption. Qed.

(* ------------------------------------------------------------------------------------- *)
(** Cat along any dimension: the entry at x is the x_dim-th element of the concatenation of the components' fibres through x *)

Definition cat_ent (pieces : list (list nat -> Z)) (sizes : list nat) (dim : nat) (x : list nat) : Z :=
  nth (nth dim x 0) (concat (map (fun '(p, s) => map (fun i => p (set_nth x dim i)) (seq 0 s)) (combine pieces sizes))) 0%Z.

Theorem cat_contract : forall pieces sizes dim x, length pieces = length sizes ->
  nth dim x 0 < fold_right Nat.add 0 sizes ->
  cat_f pieces sizes dim x = cat_ent pieces sizes dim x /\
  fst (cat_locate sizes (nth dim x 0)) < length pieces /\
  snd (cat_locate sizes (nth dim x 0)) < nth (fst (cat_locate sizes (nth dim x 0))) sizes 0.
Proof.
  intros pieces sizes dim x Hl Hx. unfold cat_f, cat_ent.
  set (fib := map (fun '(p, s) => map (fun i => p (set_nth x dim i)) (seq 0 s)) (combine pieces sizes)).
  assert (Lf : map (@length Z) fib = sizes).
  { unfold fib. clear -Hl. revert sizes Hl. induction pieces as [|p ps IH]; intros [|s ss] Hl; try discriminate; [reflexivity|].
    cbn [combine map]. rewrite map_length, seq_length. f_equal. apply IH. simpl in Hl. lia. }
  assert (Lc : nth dim x 0 < length (concat fib)) by (rewrite <- sum_sizes, Lf; assumption).
  pose proof (cat_locate_correct 0%Z fib (nth dim x 0) Lc) as H. rewrite Lf in H.
  destruct (cat_locate sizes (nth dim x 0)) as [k i]. destruct H as (H1 & H2 & H3). cbn [fst snd].
  assert (Lfib : length fib = length pieces).
  { unfold fib. rewrite map_length, combine_length, Hl, Nat.min_id. reflexivity. }
  assert (Nk : nth k fib [] = map (fun i => nth k pieces (fun _ => 0%Z) (set_nth x dim i)) (seq 0 (nth k sizes 0))).
  { unfold fib. clear -Hl. revert sizes k Hl. induction pieces as [|p ps IH]; intros [|s ss] k Hl; try discriminate.
    - destruct k; reflexivity.
    - destruct k as [|k]; [reflexivity|]. cbn [combine map nth]. apply IH. simpl in Hl. lia. }
  rewrite Nk, map_length, seq_length in H2. split; [|split; [lia|assumption]].
  rewrite H3, Nk. rewrite (nth_map_seq _ _ _ _ H2). reflexivity.
Qed.

(* ===================================================================================== *)
(** * Compositional form: a formula REALIZES an entry function on a shape; every class preserves it *)

Definition realizes (f ent : list nat -> Z) (ns : list nat) : Prop := forall x, In x (enum ns) -> f x = ent x.

Lemma realizes_refl f ns : realizes f f ns.
Proof. intros x _. reflexivity. Qed.

(* a class whose formula realizes the entries of the denoted matrix meets the _get_indices contract *)
Theorem realizes_contract f ent ns : Forall (fun n => 0 < n) ns -> realizes f ent ns ->
  get_indices_contract (tab ns ent) (gi_elem f ns).
Proof. intros Hpos H. apply elementwise_contract; assumption. Qed.

Theorem toeplitz_realizes column n bs : realizes (toeplitz_f column n) (toeplitz_ent column) (bs ++ [n; n]).
Proof. intros x Hx. apply (toeplitz_contract column n bs x Hx). Qed.

Theorem diag_realizes d ns : realizes (diag_f d) (diag_ent d) ns.
Proof. intros x _. apply diag_contract. Qed.

Theorem blockdiag_realizes base_f base_e m n k bs : 0 < m -> 0 < n -> realizes base_f base_e (bs ++ [k; m; n]) ->
  realizes (blockdiag_f base_f m n) (blockdiag_ent base_e m n) (bs ++ [k * m; k * n]).
Proof.
  intros Hm Hn Hb x Hx. destruct (blockdiag_contract base_f m n k bs x Hm Hn Hx) as [E V]. rewrite E.
  unfold blockdiag_ent. destruct (cr x / m =? cc x / n); [apply Hb; exact V|reflexivity].
Qed.

Theorem blockinterleaved_realizes base_f base_e k m n bs : 0 < k -> realizes base_f base_e (bs ++ [k; m; n]) ->
  realizes (blockinterleaved_f base_f k) (blockinterleaved_ent base_e k) (bs ++ [m * k; n * k]).
Proof.
  intros Hk Hb x Hx. destruct (blockinterleaved_contract base_f k m n bs x Hk Hx) as [E V]. rewrite E.
  unfold blockinterleaved_ent. destruct (cr x mod k =? cc x mod k); [apply Hb; exact V|reflexivity].
Qed.

Theorem batchrepeat_realizes base_f base_e bbs reps lead m n : length reps = length bbs -> Forall (fun s => 0 < s) bbs ->
  realizes base_f base_e (bbs ++ [m; n]) ->
  realizes (batchrepeat_f base_f bbs) (batchrepeat_ent base_e bbs) ((lead ++ map (fun '(r, s) => r * s) (combine reps bbs)) ++ [m; n]).
Proof.
  intros Hl Hpos Hb x Hx. rewrite batchrepeat_contract by assumption. unfold batchrepeat_ent. apply Hb.
  eapply batchrepeat_coords_valid; eassumption.
Qed.

(* inner sums: Root, Matmul, SumBatch *)
Lemma zsum_upto_ext_nat k f g : (forall j, j < k -> f (Z.of_nat j) = g (Z.of_nat j)) -> zsum_upto k f = zsum_upto k g.
Proof. induction k as [|k IH]; intros H; [reflexivity|]. simpl. rewrite IH by (intros; apply H; lia). rewrite H by lia. reflexivity. Qed.

Theorem matmul_realizes Lf Le Rf Re bs m k n : realizes Lf Le (bs ++ [m; k]) -> realizes Rf Re (bs ++ [k; n]) ->
  realizes (matmul_f Lf Rf k) (matmul_f Le Re k) (bs ++ [m; n]).
Proof.
  intros HL HR x Hx. destruct (enum_last2 _ _ _ _ Hx) as (b & r & c & -> & Hb & Hr & Hc).
  unfold matmul_f. rewrite cb_app, cr_app, cc_app. apply zsum_upto_ext_nat. intros j Hj. rewrite Nat2Z.id.
  rewrite HL, HR; [reflexivity| |]; (apply in_enum_app; [assumption|apply in_enum; repeat constructor; assumption]).
Qed.

Theorem root_realizes Rf Re bs m k : realizes Rf Re (bs ++ [m; k]) -> realizes (root_f Rf k) (root_f Re k) (bs ++ [m; m]).
Proof.
  intros HR x Hx. destruct (enum_last2 _ _ _ _ Hx) as (b & r & c & -> & Hb & Hr & Hc).
  unfold root_f. rewrite cb_app, cr_app, cc_app. apply zsum_upto_ext_nat. intros j Hj. rewrite Nat2Z.id.
  rewrite !HR; [reflexivity| |]; (apply in_enum_app; [assumption|apply in_enum; repeat constructor; assumption]).
Qed.

Theorem sumbatch_realizes base_f base_e bs nb m n : realizes base_f base_e (bs ++ [nb; m; n]) ->
  realizes (sumbatch_f base_f nb) (sumbatch_f base_e nb) (bs ++ [m; n]).
Proof.
  intros HB x Hx. destruct (enum_last2 _ _ _ _ Hx) as (b & r & c & -> & Hb & Hr & Hc).
  unfold sumbatch_f. rewrite cb_app, cr_app, cc_app. apply zsum_upto_ext_nat. intros j Hj. rewrite Nat2Z.id.
  apply HB. apply in_enum_app; [assumption|apply in_enum; repeat constructor; assumption].
Qed.

(* element-wise classes *)
Theorem sum_realizes fs es ns : Forall2 (fun f e => realizes f e ns) fs es -> realizes (sum_f fs) (sum_f es) ns.
Proof.
  intros H x Hx. unfold sum_f. induction H as [|f e fs es Hfe _ IH]; [reflexivity|]. simpl. rewrite (Hfe x Hx), IH. reflexivity.
Qed.

Theorem mul_realizes f1 e1 f2 e2 ns : realizes f1 e1 ns -> realizes f2 e2 ns -> realizes (mul_f f1 f2) (mul_f e1 e2) ns.
Proof. intros H1 H2 x Hx. unfold mul_f. rewrite (H1 x Hx), (H2 x Hx). reflexivity. Qed.

Theorem constmul_realizes c f e ns : realizes f e ns -> realizes (constmul_f c f) (constmul_f c e) ns.
Proof. intros H x Hx. unfold constmul_f. rewrite (H x Hx). reflexivity. Qed.

(* Kronecker: factors given twice (formula / denotation), same sizes, each realizing *)
Definition kagree (bs : list nat) (a b : nat * nat * (list nat -> Z)) : Prop :=
  fst a = fst b /\ realizes (snd a) (snd b) (bs ++ [fst (fst a); snd (fst a)]).

Lemma kagree_sizes bs fs es : Forall2 (kagree bs) fs es -> kms fs = kms es /\ kns fs = kns es.
Proof.
  induction 1 as [|a b fs es [E _] _ [I1 I2]]; [split; reflexivity|]. unfold kms, kns in *. simpl. rewrite E, I1, I2. split; reflexivity.
Qed.

Lemma kron_entZ_ext bs fs es : Forall2 (kagree bs) fs es -> kpos fs -> forall b r c, In b (enum bs) ->
  (0 <= r < zprod (kms fs))%Z -> (0 <= c < zprod (kns fs))%Z -> kron_entZ fs b r c = kron_entZ es b r c.
Proof.
  induction 1 as [|a e fs es [E Hr] Hrest IH]; intros Hpos b r c Hb Hrr Hcc; [reflexivity|].
  inversion Hpos as [|? ? [Pm Pn] Hpos']; subst. destruct (kagree_sizes _ _ _ Hrest) as [S1 S2].
  destruct (kpos_kms fs Hpos') as [Qm Qn]. pose proof (zprod_pos _ Qm) as PM. pose proof (zprod_pos _ Qn) as PN.
  cbn [kron_entZ]. rewrite <- S1, <- S2. cbn [kms kns map zprod] in Hrr, Hcc. fold (kms fs) (kns fs) in Hrr, Hcc.
  rewrite (IH Hpos' b) by (try assumption; apply Z.mod_pos_bound; lia). f_equal.
  apply Hr. apply in_enum_app; [assumption|]. apply in_enum. repeat constructor.
  - assert (0 <= r / zprod (kms fs) < Z.of_nat (fst (fst a)))%Z by (split; [apply Z.div_pos; lia|apply Z.div_lt_upper_bound; lia]). lia.
  - assert (0 <= c / zprod (kns fs) < Z.of_nat (snd (fst a)))%Z by (split; [apply Z.div_pos; lia|apply Z.div_lt_upper_bound; lia]). lia.
Qed.

Theorem kron_realizes bs fs es : Forall2 (kagree bs) fs es -> kpos fs ->
  realizes (kron_f fs) (kron_ent es) (bs ++ [prod (map (fun f => fst (fst f)) fs); prod (map (fun f => snd (fst f)) fs)]).
Proof.
  intros Ha Hpos x Hx. rewrite (kron_contract fs bs x Hpos Hx).
  destruct (enum_last2 _ _ _ _ Hx) as (b & r & c & -> & Hb & Hr & Hc).
  unfold kron_ent, zr, zc. rewrite cb_app, cr_app, cc_app. apply (kron_entZ_ext bs); try assumption; unfold kms, kns.
  - rewrite <- (map_map (fun f => fst (fst f)) Z.of_nat), zprod_of_nat. lia.
  - rewrite <- (map_map (fun f => snd (fst f)) Z.of_nat), zprod_of_nat. lia.
Qed.

(* Masked: the i-th kept row / column sits at position arange[mask][i] of the base *)
Lemma mask_positions_bound mask : forall s i, i < length (mask_positions mask s) ->
  (s <= nth i (mask_positions mask s) 0 < s + Z.of_nat (length mask))%Z.
Proof.
  induction mask as [|b mask IH]; intros s i Hi; [simpl in Hi; lia|]. cbn [mask_positions] in *. destruct b.
  - destruct i as [|i]; [simpl; lia|]. simpl in Hi. simpl nth. specialize (IH (s + 1)%Z i ltac:(lia)). simpl length. lia.
  - simpl in Hi. simpl app. specialize (IH (s + 1)%Z i Hi). simpl length. lia.
Qed.

Theorem masked_realizes base_f base_e rmask cmask bs : realizes base_f base_e (bs ++ [length rmask; length cmask]) ->
  realizes (masked_f base_f rmask cmask) (masked_f base_e rmask cmask)
           (bs ++ [length (mask_positions rmask 0); length (mask_positions cmask 0)]).
Proof.
  intros Hb x Hx. destruct (enum_last2 _ _ _ _ Hx) as (b & r & c & -> & Hbb & Hr & Hc).
  unfold masked_f. rewrite cb_app, cr_app, cc_app. apply Hb. apply in_enum_app; [assumption|]. apply in_enum.
  pose proof (mask_positions_bound rmask 0 r Hr). pose proof (mask_positions_bound cmask 0 c Hc). repeat constructor; lia.
Qed.

(* Interpolated over a base of shape bs ++ [m; n]: M x N result, interpolation indices inside the base *)
Theorem interp_realizes base_f base_e li lv ri rv bs m n M N : realizes base_f base_e (bs ++ [m; n]) ->
  (forall y, In y (enum (bs ++ [M])) -> Forall (fun a => 0 <= a < Z.of_nat m)%Z (li y)) ->
  (forall y, In y (enum (bs ++ [N])) -> Forall (fun a => 0 <= a < Z.of_nat n)%Z (ri y)) ->
  realizes (interp_f base_f li lv ri rv) (interp_ent base_e li lv ri rv m n) (bs ++ [M; N]).
Proof.
  intros Hb Hl Hr x Hx. destruct (enum_last2 _ _ _ _ Hx) as (b & r & c & E & Hbb & Hrr & Hcc).
  assert (Vl : In (cb x ++ [cr x]) (enum (bs ++ [M]))) by (subst x; rewrite cb_app, cr_app; apply in_enum_app; [assumption|apply in_enum_single; assumption]).
  assert (Vr : In (cb x ++ [cc x]) (enum (bs ++ [N]))) by (subst x; rewrite cb_app, cc_app; apply in_enum_app; [assumption|apply in_enum_single; assumption]).
  rewrite (interp_contract base_f li lv ri rv m n x (Hl _ Vl) (Hr _ Vr)). unfold interp_ent.
  apply zsum_upto_ext_nat. intros p Hp. apply zsum_upto_ext_nat. intros q Hq. rewrite !Nat2Z.id. f_equal. f_equal.
  apply Hb. subst x. rewrite cb_app. apply in_enum_app; [assumption|apply in_enum; repeat constructor; assumption].
Qed.

(* Cat along dimension dim (0-based over batch ++ [rows; cols]); component k has size sizes[k] there *)
Lemma set_nth_valid dim : forall (x ns : list nat) i s, In x (enum ns) -> dim < length ns -> i < s ->
  In (set_nth x dim i) (enum (set_nth ns dim s)).
Proof.
  induction dim as [|dim IH]; intros x ns i s Hx Hd Hi; apply enum_forall2 in Hx; destruct Hx as [|a n x ns Ha Hx]; simpl in Hd; try lia;
    unfold set_nth; cbn [firstn skipn app]; apply in_enum.
  - constructor; assumption.
  - constructor; [assumption|]. apply enum_forall2. apply (IH x ns i s); [apply in_enum; assumption|lia|assumption].
Qed.

Theorem cat_realizes pieces_f pieces_e sizes dim ns : length pieces_f = length sizes -> dim < length ns ->
  nth dim ns 0 = fold_right Nat.add 0 sizes ->
  (forall k, k < length sizes -> realizes (nth k pieces_f (fun _ => 0%Z)) (nth k pieces_e (fun _ => 0%Z)) (set_nth ns dim (nth k sizes 0))) ->
  length pieces_e = length sizes ->
  realizes (cat_f pieces_f sizes dim) (cat_ent pieces_e sizes dim) ns.
Proof.
  intros Lf Hd Hs Hk Le x Hx.
  assert (Hb : nth dim x 0 < fold_right Nat.add 0 sizes).
  { rewrite <- Hs. pose proof (enum_bound _ _ Hx dim Hd) as B. rewrite (nth_indep ns 0 1 Hd). exact B. }
  destruct (cat_contract pieces_e sizes dim x Le Hb) as (E & K1 & K2). rewrite <- E.
  destruct (cat_contract pieces_f sizes dim x Lf Hb) as (_ & K1' & _).
  unfold cat_f. destruct (cat_locate sizes (nth dim x 0)) as [k i]. cbn [fst snd] in *.
  apply Hk; [lia|]. apply set_nth_valid; assumption.
Qed.

(* ===================================================================================== *)
(** * _diagonal: the class formula at  batch ++ [i]  is the entry of the denoted matrix at  batch ++ [i; i] *)

Lemma db_app b i : db (b ++ [i]) = b.
Proof. unfold db. apply removelast_last. Qed.
Lemma di_app b i : di (b ++ [i]) = i.
Proof. unfold di. apply last_last. Qed.

Theorem toeplitz_diagonal_contract column b i : toeplitz_dg column (b ++ [i]) = toeplitz_ent column (b ++ [i; i]).
Proof. unfold toeplitz_dg, toeplitz_ent. rewrite db_app, cb_app, cr_app, cc_app, Nat.leb_refl, Nat.sub_diag. reflexivity. Qed.

Theorem diag_diagonal_contract d b i : d (b ++ [i]) = diag_ent d (b ++ [i; i]).
Proof. unfold diag_ent. rewrite cb_app, cr_app, cc_app, Nat.eqb_refl. reflexivity. Qed.

(* square blocks: the base diagonal is read at (block, position inside the block) *)
Theorem blockdiag_diagonal_contract base m b i :
  blockdiag_dg (fun y => base (db y ++ [di y; di y])) m (b ++ [i]) = blockdiag_ent base m m (b ++ [i; i]).
Proof.
  unfold blockdiag_dg, blockdiag_ent. rewrite db_app, di_app, cb_app, cr_app, cc_app, Nat.eqb_refl.
  replace (b ++ [i / m; i mod m]) with ((b ++ [i / m]) ++ [i mod m]) by (rewrite <- app_assoc; reflexivity).
  rewrite db_app, di_app, <- app_assoc. reflexivity.
Qed.

Theorem blockinterleaved_diagonal_contract base k b i :
  blockinterleaved_dg (fun y => base (db y ++ [di y; di y])) k (b ++ [i]) = blockinterleaved_ent base k (b ++ [i; i]).
Proof.
  unfold blockinterleaved_dg, blockinterleaved_ent. rewrite db_app, di_app, cb_app, cr_app, cc_app, Nat.eqb_refl.
  replace (b ++ [i mod k; i / k]) with ((b ++ [i mod k]) ++ [i / k]) by (rewrite <- app_assoc; reflexivity).
  rewrite db_app, di_app, <- app_assoc. reflexivity.
Qed.

Theorem root_diagonal_contract R k b i : root_dg R k (b ++ [i]) = root_f R k (b ++ [i; i]).
Proof. unfold root_dg, root_f. rewrite db_app, di_app, cb_app, cr_app, cc_app. reflexivity. Qed.

Theorem matmul_dense_diagonal_contract L R k b i : matmul_dense_dg L R k (b ++ [i]) = matmul_f L R k (b ++ [i; i]).
Proof. unfold matmul_dense_dg, matmul_f. rewrite db_app, di_app, cb_app, cr_app, cc_app. reflexivity. Qed.

(* a Diag factor on the left (n x n, diagonal ld) resp. on the right: the product of the two diagonals *)
Lemma zsum_upto_delta_nat n i (g : Z -> Z) : i < n ->
  zsum_upto n (fun j => (if Z.of_nat i =? j then 1 else 0) * g j)%Z = g (Z.of_nat i).
Proof. intros H. rewrite zsum_upto_delta by lia. ring. Qed.

Theorem matmul_diag_left_diagonal_contract ld R n b i : i < n ->
  matmul_diag_dg ld (fun y => R (db y ++ [di y; di y])) (b ++ [i]) = matmul_f (diag_ent ld) R n (b ++ [i; i]).
Proof.
  intros Hi. unfold matmul_diag_dg, matmul_f. rewrite db_app, di_app, cb_app, cr_app, cc_app.
  rewrite (zsum_upto_ext_nat n _ (fun j => (if Z.of_nat i =? j then 1 else 0) * (ld (b ++ [i]) * R (b ++ [Z.to_nat j; i])))%Z).
  - rewrite zsum_upto_delta_nat by assumption. rewrite Nat2Z.id. reflexivity.
  - intros j Hj. rewrite Nat2Z.id. unfold diag_ent. rewrite cb_app, cr_app, cc_app.
    destruct (i =? j) eqn:E.
    + apply Nat.eqb_eq in E. subst j. rewrite Z.eqb_refl. ring.
    + apply Nat.eqb_neq in E. replace (Z.of_nat i =? Z.of_nat j)%Z with false by (symmetry; apply Z.eqb_neq; lia). ring.
Qed.

Theorem matmul_diag_right_diagonal_contract L rd n b i : i < n ->
  matmul_diag_dg (fun y => L (db y ++ [di y; di y])) rd (b ++ [i]) = matmul_f L (diag_ent rd) n (b ++ [i; i]).
Proof.
  intros Hi. unfold matmul_diag_dg, matmul_f. rewrite db_app, di_app, cb_app, cr_app, cc_app.
  rewrite (zsum_upto_ext_nat n _ (fun j => (if Z.of_nat i =? j then 1 else 0) * (L (b ++ [i; Z.to_nat j]) * rd (b ++ [i])))%Z).
  - rewrite zsum_upto_delta_nat by assumption. rewrite Nat2Z.id. reflexivity.
  - intros j Hj. rewrite Nat2Z.id. unfold diag_ent. rewrite cb_app, cr_app, cc_app.
    destruct (i =? j) eqn:E.
    + apply Nat.eqb_eq in E. subst j. rewrite Z.eqb_refl, Nat.eqb_refl. ring.
    + apply Nat.eqb_neq in E. replace (Z.of_nat i =? Z.of_nat j)%Z with false by (symmetry; apply Z.eqb_neq; lia).
      replace (j =? i) with false by (symmetry; apply Nat.eqb_neq; lia). ring.
Qed.

Theorem sumbatch_diagonal_contract base nb b i :
  sumbatch_dg (fun y => base (db y ++ [di y; di y])) nb (b ++ [i]) = sumbatch_f base nb (b ++ [i; i]).
Proof.
  unfold sumbatch_dg, sumbatch_f. rewrite db_app, di_app, cb_app, cr_app, cc_app. apply zsum_upto_ext_nat. intros j Hj.
  replace (b ++ [Z.to_nat (Z.of_nat j); i]) with ((b ++ [Z.to_nat (Z.of_nat j)]) ++ [i]) by (rewrite <- app_assoc; reflexivity).
  rewrite db_app, di_app, <- app_assoc. reflexivity.
Qed.
