(* C03 — LinearOperator.__getitem__ (repaired front end), NON-ABSORBED path in general: tensor indices (any number, any
   rank, adjacent or not) in batch positions, ints / slices in the two matrix positions.  Result = torch result. *)
From Coq Require Import List ZArith Bool Arith Lia.
Import ListNotations.
Require Import C03.Model C03.Proofs C03.ProofsSlice C03.ProofsSize C03.ProofsFront.
Open Scope nat_scope.

(* the result of torch indexing, written out *)
Definition result (t : tensor) (ps : list dplan) (B : list nat) : tensor :=
  let p := block_pos (kinds ps) in
  let osh := out_shape ps B in
  mkT osh (map (fun oi => let '(bc, sc) := split_out p (length B) oi in tget t (src ps (tshape t) B bc sc)) (enum osh)).

Lemma torch_index_norm_result t its ps B : plans_of (tshape t) its = Some ps -> bcast_all (tshapes ps) [] = Some B ->
  torch_index_norm t its = Some (result t ps B).
Proof. intros Hp HB. unfold torch_index_norm. rewrite Hp, HB. reflexivity. Qed.

(* ------------------------------------------------------------------------------------- *)
(** position of the block is not affected by trailing slices *)

Lemma drop_while_app_false (k : list bool) j : existsb idb k = true ->
  drop_while negb (k ++ repeat false j) = drop_while negb k ++ repeat false j.
Proof.
  induction k as [|b k IH]; intros H; [discriminate|]. destruct b; simpl in *; [reflexivity|]. apply IH. assumption.
Qed.

Lemma forallb_negb_falses j : forallb negb (repeat false j) = true.
Proof. induction j; [reflexivity|simpl; assumption]. Qed.

Lemma adj_t_app_false (k : list bool) j : adj_t (k ++ repeat false j) = adj_t k.
Proof.
  unfold adj_t. induction k as [|b k IH].
  - simpl. destruct j; [reflexivity|]. simpl. apply forallb_negb_falses.
  - destruct b; simpl; [exact IH|]. rewrite forallb_app, forallb_negb_falses, andb_true_r. reflexivity.
Qed.

Lemma count_while_app_false (k : list bool) j : existsb idb k = true ->
  count_while negb (k ++ repeat false j) = count_while negb k.
Proof.
  induction k as [|b k IH]; intros H; [discriminate|]. destruct b; simpl in *; [reflexivity|]. f_equal. apply IH. assumption.
Qed.

Lemma block_pos_app_false (k : list bool) j : existsb idb k = true ->
  block_pos (k ++ repeat false j) = block_pos k.
Proof.
  intros H. unfold block_pos, adjacent. rewrite drop_while_app_false by assumption.
  fold (adj_t (drop_while negb k ++ repeat false j)). fold (adj_t (drop_while negb k)).
  rewrite adj_t_app_false, count_while_app_false by assumption. reflexivity.
Qed.

Lemma count_while_le ps : count_while negb (kinds ps) <= length (slens ps).
Proof.
  induction ps as [|p r IH]; [apply Nat.le_refl|].
  rewrite kinds_cons, slens_cons. destruct p; cbn [app count_while negb length]; lia.
Qed.

Lemma block_pos_le ps : block_pos (kinds ps) <= length (slens ps).
Proof. unfold block_pos. destruct (adjacent (kinds ps)); [apply count_while_le|lia]. Qed.

Lemma kinds_no_te tl : forallb no_te tl = true -> kinds tl = repeat false (length (slens tl)).
Proof.
  induction tl as [|p r IH]; [reflexivity|]. simpl. intros H. apply andb_true_iff in H as [H1 H2].
  destruct p; try discriminate; simpl; rewrite IH by assumption; reflexivity.
Qed.

Lemma has_te_kinds ps : existsb (fun p => negb (no_te p)) ps = true -> existsb idb (kinds ps) = true.
Proof.
  induction ps as [|p r IH]; [discriminate|]. destruct p; simpl; auto.
Qed.

(* ------------------------------------------------------------------------------------- *)
(** source coordinates of the tail do not depend on the block *)

Lemma tail_unit_B pr pc nr nc B bc : no_te pr = true -> no_te pc = true ->
  map (fun y => src [unit_slice pr; unit_slice pc] [nr; nc] B bc y) (enum (slens [unit_slice pr; unit_slice pc])) =
  map (fun y => src [pr; pc] [nr; nc] B bc y) (enum (slens [pr; pc])).
Proof.
  intros Hr Hc. pose proof (tail_unit pr pc nr nc Hr Hc) as H.
  assert (E : forall tl y, forallb no_te tl = true -> src tl [nr; nc] B bc y = src tl [nr; nc] [] [] y).
  { clear. intros tl. generalize [nr; nc]. induction tl as [|p r IH]; intros ns y Hn; [reflexivity|].
    simpl in Hn. apply andb_true_iff in Hn as [H1 H2]. destruct ns as [|n ns]; [destruct p; reflexivity|].
    destruct p; try discriminate; simpl; f_equal; apply IH; assumption. }
  rewrite (map_ext (fun y => src [unit_slice pr; unit_slice pc] [nr; nc] B bc y) (fun y => src [unit_slice pr; unit_slice pc] [nr; nc] [] [] y)).
  2:{ intros y. apply E. simpl. destruct pr, pc; try discriminate; reflexivity. }
  rewrite (map_ext (fun y => src [pr; pc] [nr; nc] B bc y) (fun y => src [pr; pc] [nr; nc] [] [] y)).
  2:{ intros y. apply E. simpl. rewrite Hr, Hc. reflexivity. }
  exact H.
Qed.

(* ------------------------------------------------------------------------------------- *)
(** the result with unit slices at the end is the result with ints, up to the trailing unit dimensions *)

Section Tail.
Variables (t : tensor) (psB : list dplan) (nsB : list nat) (nr nc : nat) (pr pc : dplan) (B : list nat).
Hypothesis Hshape : tshape t = nsB ++ [nr; nc].
Hypothesis HlenB : length psB = length nsB.
Hypothesis Hte : existsb (fun p => negb (no_te p)) psB = true.
Hypothesis Hr : no_te pr = true.
Hypothesis Hc : no_te pc = true.

Let p := block_pos (kinds psB).
Let lB := slens psB.
Let outA := firstn p lB ++ B ++ skipn p lB.

Lemma p_le : p <= length lB.
Proof. apply block_pos_le. Qed.

Lemma block_pos_tail tl : forallb no_te tl = true -> block_pos (kinds (psB ++ tl)) = p.
Proof.
  intros H. rewrite kinds_app, (kinds_no_te tl H). apply block_pos_app_false. apply has_te_kinds. exact Hte.
Qed.

Lemma out_shape_tail tl : forallb no_te tl = true -> out_shape (psB ++ tl) B = outA ++ slens tl.
Proof.
  intros H. unfold out_shape. rewrite (block_pos_tail tl H), slens_app. fold lB.
  pose proof p_le. rewrite firstn_app, skipn_app.
  replace (p - length lB) with 0 by lia. simpl firstn. simpl skipn. rewrite app_nil_r.
  unfold outA. rewrite <- !app_assoc. reflexivity.
Qed.

Lemma outA_length : length outA = p + length B + (length lB - p).
Proof. unfold outA. pose proof p_le. rewrite !app_length, firstn_length, skipn_length. lia. Qed.

Lemma split_out_app x y : length x = length outA ->
  split_out p (length B) (x ++ y) =
  (fst (split_out p (length B) x), snd (split_out p (length B) x) ++ y) /\
  length (snd (split_out p (length B) x)) = length lB.
Proof.
  intros Lx. rewrite outA_length in Lx. pose proof p_le. unfold split_out. simpl fst. simpl snd. split.
  - f_equal.
    + rewrite skipn_app, firstn_app. rewrite skipn_length.
      replace (length B - (length x - p)) with 0 by lia. simpl firstn. rewrite app_nil_r. reflexivity.
    + rewrite firstn_app, skipn_app. replace (p - length x) with 0 by lia.
      replace (p + length B - length x) with 0 by lia. simpl. rewrite app_nil_r, <- app_assoc. reflexivity.
  - rewrite app_length, firstn_length, skipn_length. lia.
Qed.

Lemma data_tail :
  map (fun oi => let '(bc, sc) := split_out p (length B) oi in
                 tget t (src (psB ++ [unit_slice pr; unit_slice pc]) (tshape t) B bc sc))
      (enum (outA ++ slens [unit_slice pr; unit_slice pc])) =
  map (fun oi => let '(bc, sc) := split_out p (length B) oi in
                 tget t (src (psB ++ [pr; pc]) (tshape t) B bc sc))
      (enum (outA ++ slens [pr; pc])).
Proof.
  rewrite !enum_app, !map_flat_map. apply flat_map_ext_in'. intros x Hx.
  pose proof (enum_length _ _ Hx) as Lx. rewrite !map_map.
  assert (E : forall tl (y : list nat),
             (let '(bc, sc) := split_out p (length B) (x ++ y) in tget t (src (psB ++ tl) (tshape t) B bc sc)) =
             tget t (src psB nsB B (fst (split_out p (length B) x)) (snd (split_out p (length B) x)) ++
                     src tl [nr; nc] B (fst (split_out p (length B) x)) y)).
  { intros tl y. destruct (split_out_app x y Lx) as [S1 S2]. rewrite S1. rewrite Hshape.
    rewrite src_app by assumption. rewrite src_prefix by (fold lB; assumption).
    f_equal. f_equal. f_equal. rewrite skipn_app. fold lB. rewrite <- S2, skipn_all, Nat.sub_diag. reflexivity. }
  rewrite (map_ext _ _ (E [unit_slice pr; unit_slice pc])), (map_ext _ _ (E [pr; pc])).
  set (bc := fst (split_out p (length B) x)). set (P := src psB nsB B bc (snd (split_out p (length B) x))).
  rewrite <- (map_map (fun y => src [unit_slice pr; unit_slice pc] [nr; nc] B bc y) (fun s => tget t (P ++ s))).
  rewrite <- (map_map (fun y => src [pr; pc] [nr; nc] B bc y) (fun s => tget t (P ++ s))).
  rewrite (tail_unit_B pr pc nr nc B bc Hr Hc). reflexivity.
Qed.

Lemma result_tail_shape_data :
  result t (psB ++ [unit_slice pr; unit_slice pc]) B =
  mkT (outA ++ slens [unit_slice pr; unit_slice pc]) (tdata (result t (psB ++ [pr; pc]) B)) /\
  tshape (result t (psB ++ [pr; pc]) B) = outA ++ slens [pr; pc].
Proof.
  assert (N' : forallb no_te [unit_slice pr; unit_slice pc] = true) by (simpl; destruct pr, pc; try discriminate; reflexivity).
  assert (N : forallb no_te [pr; pc] = true) by (simpl; rewrite Hr, Hc; reflexivity).
  unfold result. rewrite (block_pos_tail _ N'), (block_pos_tail _ N), (out_shape_tail _ N'), (out_shape_tail _ N).
  simpl tdata. simpl tshape. split; [|reflexivity]. f_equal. apply data_tail.
Qed.
End Tail.

(* ------------------------------------------------------------------------------------- *)
(** main theorem: non-absorbed path with tensor indices in batch positions *)

Lemma has_te_plans ns : forall its ps, plans_of ns its = Some ps -> existsb is_tensor its = true ->
  existsb (fun p => negb (no_te p)) ps = true.
Proof.
  induction ns as [|n ns IH]; destruct its as [|it its]; intros ps H He; simpl in H; try discriminate.
  destruct (plan_of n it) as [p|] eqn:Ep; [|discriminate].
  destruct (plans_of ns its) as [r|] eqn:Er; [|discriminate]. inversion H; subst.
  simpl in He. apply orb_true_iff in He as [He|He].
  - destruct it as [i|a b s|sh d]; try discriminate. simpl in Ep.
    destruct ((length d =? prod sh) && forallb (in_range (Z.of_nat n)) d); [|discriminate]. inversion Ep. reflexivity.
  - simpl. rewrite (IH _ _ Er He). apply orb_true_r.
Qed.

Lemma no_te_tail_tshapes (psB tl : list dplan) : forallb no_te tl = true -> tshapes (psB ++ tl) = tshapes psB.
Proof. intros H. rewrite tshapes_app, (no_te_tshapes tl H). apply app_nil_r. Qed.

Lemma basic_plan_no_te n it p : basic it = true -> plan_of n it = Some p -> no_te p = true.
Proof.
  intros Hb Hp. destruct it as [i|a b s|sh d]; try discriminate; simpl in Hp.
  - destruct (in_range (Z.of_nat n) i); inversion Hp; reflexivity.
  - destruct (odefault 1 s <=? 0)%Z; [discriminate|].
    destruct (slice_indices a b s (Z.of_nat n)) as [[lo hi] st]. inversion Hp; reflexivity.
Qed.

Theorem getitem_fixed_batch_tensors : forall t idx index r,
  2 <= length (tshape t) ->
  spec_expand (length (tshape t)) idx = Some index ->
  existsb is_tensor (firstn (length (tshape t) - 2) index) = true ->
  basic (nth (length (tshape t) - 2) index full) = true ->
  basic (nth (length (tshape t) - 1) index full) = true ->
  torch_index t idx = Some r ->
  getitem_model Fixed false t idx = Some r.
Proof.
  intros t idx index r Hnd Hexp HbT Hbr Hbc Hspec.
  unfold torch_index in Hspec. rewrite Hexp in Hspec.
  destruct (plans_of (tshape t) index) as [ps|] eqn:Hp; [|unfold torch_index_norm in Hspec; rewrite Hp in Hspec; discriminate].
  pose proof (plans_of_length _ _ _ Hp) as Hlen.
  set (nd := length (tshape t)) in *.
  pose proof (list_split_last2 full index nd (eq_sym Hlen) Hnd) as Di.
  pose proof (list_split_last2 0 (tshape t) nd eq_refl Hnd) as Ds.
  set (batch := firstn (nd - 2) index) in *. set (row := nth (nd - 2) index full) in *. set (col := nth (nd - 1) index full) in *.
  set (nsB := firstn (nd - 2) (tshape t)) in *. set (nr := nth (nd - 2) (tshape t) 0) in *. set (nc := nth (nd - 1) (tshape t) 0) in *.
  assert (LB : length nsB = length batch).
  { unfold nsB, batch. rewrite !firstn_length. fold nd. rewrite <- Hlen. reflexivity. }
  pose proof Hp as Hp0. rewrite Ds, Di in Hp. rewrite plans_of_app in Hp by assumption.
  destruct (plans_of nsB batch) as [psB|] eqn:HpB; [|discriminate].
  simpl plans_of in Hp.
  destruct (plan_of nr row) as [pr|] eqn:Hpr; [|discriminate].
  destruct (plan_of nc col) as [pc|] eqn:Hpc; [|discriminate]. injection Hp as <-.
  pose proof (basic_plan_no_te _ _ _ Hbr Hpr) as Hnr. pose proof (basic_plan_no_te _ _ _ Hbc Hpc) as Hnc.
  assert (N : forallb no_te [pr; pc] = true) by (simpl; rewrite Hnr, Hnc; reflexivity).
  assert (N' : forallb no_te [unit_slice pr; unit_slice pc] = true) by (simpl; destruct pr, pc; try discriminate; reflexivity).
  pose proof (has_te_plans _ _ _ HpB HbT) as Hte.
  pose proof (plans_of_length_ps _ _ _ HpB) as LpB.
  (* the spec side *)
  unfold torch_index_norm in Hspec. rewrite Hp0 in Hspec. rewrite (no_te_tail_tshapes psB _ N) in Hspec.
  destruct (bcast_all (tshapes psB) []) as [B|] eqn:HB; [|discriminate].
  assert (Hr_eq : r = result t (psB ++ [pr; pc]) B) by (injection Hspec as <-; reflexivity). clear Hspec.
  (* the library side *)
  unfold getitem_model, getitem_front. fold nd. replace (nd <? 2) with false by (symmetry; apply Nat.ltb_ge; lia).
  rewrite Hexp. fold batch row col. rewrite HbT.
  assert (Er : is_tensor row = false) by (unfold basic in Hbr; apply negb_true_iff in Hbr; exact Hbr).
  assert (Ec : is_tensor col = false) by (unfold basic in Hbc; apply negb_true_iff in Hbc; exact Hbc).
  rewrite Er, Ec. simpl orb. simpl andb. simpl negb. cbv iota.
  change (match row with IInt i => int_as_slice Fixed i | _ => row end) with (to_slice_item row).
  change (match col with IInt i => int_as_slice Fixed i | _ => col end) with (to_slice_item col).
  assert (Hp' : plans_of (tshape t) (batch ++ [to_slice_item row; to_slice_item col]) =
                Some (psB ++ [unit_slice pr; unit_slice pc])).
  { rewrite Ds at 1. rewrite plans_of_app by assumption. rewrite HpB. simpl plans_of.
    rewrite (plan_to_slice nr row pr Hbr Hpr), (plan_to_slice nc col pc Hbc Hpc). reflexivity. }
  rewrite (torch_index_norm_result t _ _ B Hp') by (rewrite (no_te_tail_tshapes psB _ N'); exact HB).
  destruct (result_tail_shape_data t psB nsB nr nc pr pc B Ds LpB Hte Hnr Hnc) as [R1 R2].
  rewrite R1. rewrite Hr_eq.
  set (rs := result t (psB ++ [pr; pc]) B) in *.
  set (outA := firstn (block_pos (kinds psB)) (slens psB) ++ B ++ skipn (block_pos (kinds psB)) (slens psB)) in *.
  assert (Rs : rs = mkT (outA ++ slens [pr; pc]) (tdata rs)) by (rewrite <- R2; destruct rs; reflexivity).
  replace (Some rs) with (Some (mkT (outA ++ slens [pr; pc]) (tdata rs))) by (f_equal; symmetry; exact Rs). clear R1 R2 Rs.
  destruct row as [i|ra rb rs'|? ?]; try discriminate; destruct col as [j|ca cb cs|? ?]; try discriminate;
    simpl in Hpr, Hpc.
  - destruct (in_range (Z.of_nat nr) i); [|discriminate]. destruct (in_range (Z.of_nat nc) j); [|discriminate].
    injection Hpr as <-. injection Hpc as <-. simpl slens. simpl andb. cbv iota.
    rewrite squeeze_back_unit2, squeeze_back_unit1, app_nil_r. reflexivity.
  - destruct (in_range (Z.of_nat nr) i); [|discriminate]. injection Hpr as <-.
    destruct (odefault 1 cs <=? 0)%Z; [discriminate|].
    destruct (slice_indices ca cb cs (Z.of_nat nc)) as [[lo hi] st]. injection Hpc as <-.
    simpl slens. simpl andb. cbv iota. rewrite squeeze_back_unit2. reflexivity.
  - destruct (in_range (Z.of_nat nc) j); [|discriminate]. injection Hpc as <-.
    destruct (odefault 1 rs' <=? 0)%Z; [discriminate|].
    destruct (slice_indices ra rb rs' (Z.of_nat nr)) as [[lo hi] st]. injection Hpr as <-.
    simpl slens. simpl andb. cbv iota. rewrite squeeze_back_unit1'. reflexivity.
  - destruct (odefault 1 rs' <=? 0)%Z; [discriminate|].
    destruct (slice_indices ra rb rs' (Z.of_nat nr)) as [[lo hi] st]. injection Hpr as <-.
    destruct (odefault 1 cs <=? 0)%Z; [discriminate|].
    destruct (slice_indices ca cb cs (Z.of_nat nc)) as [[lo' hi'] st']. injection Hpc as <-.
    simpl. reflexivity.
Qed.

(* ------------------------------------------------------------------------------------- *)
(** both cases together: every index whose two matrix entries are ints / slices (any batch indices) *)

Lemma not_existsb_basic l : existsb is_tensor l = false -> forallb basic l = true.
Proof.
  induction l as [|x l IH]; [reflexivity|]. simpl. intros H. apply orb_false_iff in H as [H1 H2].
  unfold basic at 1. rewrite H1. simpl. apply IH. assumption.
Qed.

Theorem getitem_fixed_matrix_basic : forall t idx index r,
  2 <= length (tshape t) ->
  spec_expand (length (tshape t)) idx = Some index ->
  basic (nth (length (tshape t) - 2) index full) = true ->
  basic (nth (length (tshape t) - 1) index full) = true ->
  torch_index t idx = Some r ->
  getitem_model Fixed false t idx = Some r.
Proof.
  intros t idx index r Hnd Hexp Hbr Hbc Hspec.
  destruct (existsb is_tensor (firstn (length (tshape t) - 2) index)) eqn:E.
  - eapply getitem_fixed_batch_tensors; eassumption.
  - eapply getitem_fixed_basic; try eassumption.
    assert (Hlen : length index = length (tshape t)).
    { unfold torch_index in Hspec. rewrite Hexp in Hspec. unfold torch_index_norm in Hspec.
      destruct (plans_of (tshape t) index) as [ps|] eqn:Hp; [|discriminate].
      symmetry. eapply plans_of_length. exact Hp. }
    rewrite (list_split_last2 full index _ Hlen Hnd). rewrite forallb_app. rewrite (not_existsb_basic _ E).
    simpl. rewrite Hbr, Hbc. reflexivity.
Qed.
