(* C03 — _compute_getitem_size and _is_tensor_index_moved_to_start agree with the torch-index SPEC
   (shape of the result, placement of the advanced-index block) for all ranks and all index tuples *)
From Coq Require Import List ZArith Bool Arith Lia.
Import ListNotations.
Require Import C03.Model C03.Proofs C03.ProofsSlice.
Open Scope nat_scope.

(* ------------------------------------------------------------------------------------- *)
(** small facts about the SPEC's helper functions *)

Lemma bc_rev_nil_r a : bc_rev a [] = Some a.
Proof. destruct a; reflexivity. Qed.

Lemma bcast2_nil_l s : bcast2 [] s = Some s.
Proof. unfold bcast2. simpl. rewrite rev_involutive. reflexivity. Qed.

Lemma forallb_negb_existsb (k : list bool) : forallb negb k = negb (existsb idb k).
Proof. induction k as [|b k IH]; simpl; [reflexivity|]. rewrite IH. destruct b; reflexivity. Qed.

Lemma firstn_skipn_len {A} (l : list A) : firstn (length l) l ++ [] ++ skipn (length l) l = l.
Proof. simpl. rewrite firstn_all, skipn_all. apply app_nil_r. Qed.

(* ------------------------------------------------------------------------------------- *)
(** the loop of _compute_getitem_size, re-expressed over the per-dimension plans of the SPEC *)

Definition astep (st : cgs) (p : dplan) : option cgs :=
  match p with
  | PFix _ => Some st
  | PSl _ _ len => Some (mkCgs (c_final st ++ [len]) (c_tidx st) (c_tsh st)
                               (match c_tidx st with Some _ => true | None => c_sat st end))
  | PTe sh _ =>
      match c_tidx st with
      | None => Some (mkCgs (c_final st) (Some (length (c_final st))) sh (c_sat st))
      | Some ti => match bcast2 (c_tsh st) sh with
                   | None => None
                   | Some B => Some (mkCgs (c_final st) (if c_sat st then Some 0 else Some ti) B (c_sat st))
                   end
      end
  end.

Fixpoint aloop (st : cgs) (ps : list dplan) : option cgs :=
  match ps with
  | [] => Some st
  | p :: r => match astep st p with None => None | Some st' => aloop st' r end
  end.

Definition afinish (st : cgs) : list nat :=
  match c_tidx st with
  | None => c_final st
  | Some ti => firstn ti (c_final st) ++ c_tsh st ++ skipn ti (c_final st)
  end.

Lemma plans_of_length shape its ps : plans_of shape its = Some ps -> length shape = length its.
Proof.
  revert its ps. induction shape as [|n sh IH]; destruct its as [|it its]; simpl; intros ps H; try discriminate; auto.
  destruct (plan_of n it); [|discriminate]. destruct (plans_of sh its) eqn:E; [|discriminate].
  f_equal. eapply IH. exact E.
Qed.

Lemma cgs_step_plan dbg st n it p : plan_of n it = Some p -> cgs_step dbg st n it = astep st p.
Proof.
  destruct it as [i|a b s|sh d]; intros H.
  - unfold plan_of in H. cbv zeta in H.
    destruct (in_range (Z.of_nat n) i) eqn:E; [|discriminate]. inversion H; subst.
    unfold cgs_step. rewrite E. simpl negb. rewrite andb_false_r. reflexivity.
  - unfold plan_of in H. cbv zeta in H.
    destruct (odefault 1 s <=? 0)%Z eqn:Es; [discriminate|].
    apply Z.leb_gt in Es.
    assert (E0 : (odefault 1 s =? 0)%Z = false) by (apply Z.eqb_neq; lia).
    destruct (slice_indices a b s (Z.of_nat n)) as [[lo hi] stp] eqn:Ei. inversion H; subst.
    assert (L : (if is_noop (ISlice a b s) then n else Z.to_nat (slice_len a b s (Z.of_nat n))) =
                Z.to_nat (range_len lo hi stp)).
    { destruct (is_noop (ISlice a b s)) eqn:En.
      - destruct a, b, s; try discriminate.
        pose proof (slice_len_noop (Z.of_nat n) ltac:(lia)) as Hn. unfold slice_len in Hn. rewrite Ei in Hn.
        rewrite Hn, Nat2Z.id. reflexivity.
      - unfold slice_len. rewrite Ei. reflexivity. }
    unfold cgs_step. rewrite E0, andb_false_r. cbv zeta. rewrite L. reflexivity.
  - unfold plan_of in H. cbv zeta in H.
    destruct ((length d =? prod sh) && forallb (in_range (Z.of_nat n)) d); [|discriminate].
    inversion H; subst. reflexivity.
Qed.

Lemma cgs_loop_plans dbg shape : forall its ps st,
  plans_of shape its = Some ps -> cgs_loop dbg st shape its = aloop st ps.
Proof.
  induction shape as [|n sh IH]; destruct its as [|it its]; simpl; intros ps st H; try discriminate.
  - inversion H. reflexivity.
  - destruct (plan_of n it) as [p|] eqn:Ep; [|discriminate].
    destruct (plans_of sh its) as [r|] eqn:Er; [|discriminate]. inversion H; subst. simpl.
    rewrite (cgs_step_plan dbg st n it p Ep). destruct (astep st p); [|reflexivity]. apply IH. assumption.
Qed.

(* ------------------------------------------------------------------------------------- *)
(** the three phases of the loop *)

Local Arguments bcast2 : simpl never.

Definition adj_t (k : list bool) : bool := forallb negb (drop_while idb k).

Lemma slens_cons p r : slens (p :: r) = match p with PSl _ _ l => [l] | _ => [] end ++ slens r.
Proof. reflexivity. Qed.
Lemma tshapes_cons p r : tshapes (p :: r) = match p with PTe sh _ => [sh] | _ => [] end ++ tshapes r.
Proof. reflexivity. Qed.
Lemma kinds_cons p r : kinds (p :: r) = match p with PFix _ => [] | PSl _ _ _ => [false] | PTe _ _ => [true] end ++ kinds r.
Proof. reflexivity. Qed.

(* phase 2/3: a slice has been seen after a tensor index *)
Lemma phase2 ps : forall fs p0 tsh,
  option_map afinish (aloop (mkCgs fs (Some p0) tsh true) ps) =
  match bcast_all (tshapes ps) tsh with
  | None => None
  | Some B => let l := fs ++ slens ps in let p := if existsb idb (kinds ps) then 0 else p0 in
              Some (firstn p l ++ B ++ skipn p l)
  end.
Proof.
  induction ps as [|p r IH]; intros fs p0 tsh.
  - simpl. unfold afinish. simpl. rewrite app_nil_r. reflexivity.
  - rewrite slens_cons, tshapes_cons, kinds_cons. destruct p as [i|lo stp len|sh d]; simpl.
    + apply IH.
    + rewrite IH. rewrite <- app_assoc. reflexivity.
    + destruct (bcast2 tsh sh) as [B'|]; [|reflexivity]. simpl. rewrite IH.
      destruct (bcast_all (tshapes r) B'); [|reflexivity].
      destruct (existsb idb (kinds r)); reflexivity.
Qed.

(* phase 1: inside the (so far contiguous) run of tensor indices *)
Lemma phase1 ps : forall fs p0 tsh,
  option_map afinish (aloop (mkCgs fs (Some p0) tsh false) ps) =
  match bcast_all (tshapes ps) tsh with
  | None => None
  | Some B => let l := fs ++ slens ps in let p := if adj_t (kinds ps) then p0 else 0 in
              Some (firstn p l ++ B ++ skipn p l)
  end.
Proof.
  induction ps as [|p r IH]; intros fs p0 tsh.
  - simpl. unfold afinish. simpl. rewrite app_nil_r. reflexivity.
  - rewrite slens_cons, tshapes_cons, kinds_cons. destruct p as [i|lo stp len|sh d]; simpl.
    + apply IH.
    + rewrite phase2. rewrite <- app_assoc. unfold adj_t. simpl.
      rewrite forallb_negb_existsb.
      destruct (bcast_all (tshapes r) tsh); [|reflexivity].
      destruct (existsb idb (kinds r)); reflexivity.
    + destruct (bcast2 tsh sh) as [B'|]; [|reflexivity]. simpl. rewrite IH.
      unfold adj_t. simpl. reflexivity.
Qed.

(* phase 0: no tensor index seen yet *)
Lemma phase0 ps : forall fs tsh0,
  option_map afinish (aloop (mkCgs fs None tsh0 false) ps) =
  match bcast_all (tshapes ps) [] with
  | None => None
  | Some B => let l := fs ++ slens ps in
              let p := if adjacent (kinds ps) then length fs + count_while negb (kinds ps) else 0 in
              Some (firstn p l ++ B ++ skipn p l)
  end.
Proof.
  induction ps as [|p r IH]; intros fs tsh0.
  - simpl. unfold afinish. simpl. rewrite app_nil_r, Nat.add_0_r, firstn_all, skipn_all. rewrite app_nil_r. reflexivity.
  - rewrite slens_cons, tshapes_cons, kinds_cons. destruct p as [i|lo stp len|sh d]; simpl.
    + apply IH.
    + rewrite IH. rewrite <- app_assoc. rewrite app_length. simpl.
      destruct (bcast_all (tshapes r) []); [|reflexivity].
      unfold adjacent. simpl. replace (length fs + 1 + count_while negb (kinds r)) with
        (length fs + S (count_while negb (kinds r))) by lia. reflexivity.
    + rewrite phase1. rewrite ?bcast2_nil_l, ?rev_involutive.
      destruct (bcast_all (tshapes r) sh); [|reflexivity].
      unfold adjacent, adj_t. simpl. rewrite Nat.add_0_r. reflexivity.
Qed.

(* ------------------------------------------------------------------------------------- *)
(** main theorem *)

Theorem compute_getitem_size_correct : forall debug shape its ps,
  plans_of shape its = Some ps ->
  compute_getitem_size debug shape its = option_map (out_shape ps) (bcast_all (tshapes ps) []).
Proof.
  intros debug shape its ps H. unfold compute_getitem_size.
  rewrite (plans_of_length _ _ _ H), Nat.eqb_refl. simpl negb. cbv iota.
  rewrite (cgs_loop_plans debug shape its ps _ H).
  pose proof (phase0 ps [] []) as P. simpl in P.
  destruct (aloop (mkCgs [] None [] false) ps) as [st|]; simpl in P.
  - destruct (bcast_all (tshapes ps) []) as [B|]; [|discriminate]. simpl.
    inversion P as [P1]. unfold afinish in P1. unfold out_shape, block_pos.
    destruct (c_tidx st); rewrite P1; reflexivity.
  - destruct (bcast_all (tshapes ps) []); [discriminate|reflexivity].
Qed.

(* the result of torch indexing has exactly that shape *)
Corollary compute_getitem_size_torch : forall debug t its r,
  torch_index_norm t its = Some r ->
  compute_getitem_size debug (tshape t) its = Some (tshape r).
Proof.
  intros debug t its r H. unfold torch_index_norm in H.
  destruct (plans_of (tshape t) its) as [ps|] eqn:Ep; [|discriminate].
  rewrite (compute_getitem_size_correct debug _ _ _ Ep).
  destruct (bcast_all (tshapes ps) []) as [B|]; [|discriminate]. inversion H. reflexivity.
Qed.

(* ------------------------------------------------------------------------------------- *)
(** _is_tensor_index_moved_to_start *)

Definition ikinds (its : list item) : list bool :=
  flat_map (fun it => match it with IInt _ => [] | ISlice _ _ _ => [false] | ITensor _ _ => [true] end) its.

Lemma ikinds_cons it r : ikinds (it :: r) =
  match it with IInt _ => [] | ISlice _ _ _ => [false] | ITensor _ _ => [true] end ++ ikinds r.
Proof. reflexivity. Qed.

Lemma kinds_ikinds shape : forall its ps, plans_of shape its = Some ps -> kinds ps = ikinds its.
Proof.
  induction shape as [|n sh IH]; destruct its as [|it its]; intros ps H; simpl in H; try discriminate.
  - inversion H. reflexivity.
  - destruct (plan_of n it) as [p|] eqn:Ep; [|discriminate].
    destruct (plans_of sh its) as [r|] eqn:Er; [|discriminate]. inversion H; subst.
    rewrite kinds_cons, ikinds_cons, (IH _ _ Er). f_equal.
    destruct it as [i|a b s|sh' d]; simpl in Ep.
    + destruct (in_range (Z.of_nat n) i); inversion Ep; reflexivity.
    + destruct (odefault 1 s <=? 0)%Z; [discriminate|].
      destruct (slice_indices a b s (Z.of_nat n)) as [[lo hi] stp]. inversion Ep; reflexivity.
    + destruct ((length d =? prod sh') && forallb (in_range (Z.of_nat n)) d); inversion Ep; reflexivity.
Qed.

Lemma mts2 its : mts_loop true false its = existsb idb (ikinds its).
Proof.
  induction its as [|it r IH]; [reflexivity|]. rewrite ikinds_cons. destruct it; simpl; auto.
Qed.

Lemma mts1 its : mts_loop true true its = negb (adj_t (ikinds its)).
Proof.
  induction its as [|it r IH]; [reflexivity|]. rewrite ikinds_cons. destruct it; simpl; auto.
  rewrite mts2. unfold adj_t. simpl. rewrite forallb_negb_existsb, negb_involutive. reflexivity.
Qed.

Lemma mts0 its : mts_loop false true its = negb (adjacent (ikinds its)).
Proof.
  induction its as [|it r IH]; [reflexivity|]. rewrite ikinds_cons. destruct it; simpl; auto.
  rewrite mts1. reflexivity.
Qed.

Theorem moved_to_start_spec : forall its,
  is_moved_to_start its = (match its with it :: _ => is_tensor it | [] => false end) || negb (adjacent (ikinds its)).
Proof.
  destruct its as [|it r]; [reflexivity|]. unfold is_moved_to_start.
  destruct it as [i|a b s|sh d]; simpl is_tensor; cbv iota.
  - rewrite mts0, ikinds_cons. reflexivity.
  - rewrite mts0, ikinds_cons. reflexivity.
  - reflexivity.
Qed.

(* the flag decides exactly where torch puts the broadcast block *)
Theorem moved_to_start_correct : forall its,
  (is_moved_to_start its = true -> block_pos (ikinds its) = 0) /\
  (is_moved_to_start its = false -> block_pos (ikinds its) = count_while negb (ikinds its)).
Proof.
  intros its. rewrite moved_to_start_spec. unfold block_pos. split; intros H.
  - destruct (adjacent (ikinds its)) eqn:A; [|reflexivity].
    rewrite orb_false_r in H. destruct its as [|it r]; [discriminate|].
    destruct it; try discriminate. reflexivity.
  - apply orb_false_iff in H as [_ H]. apply negb_false_iff in H. rewrite H. reflexivity.
Qed.
