(* C05 — logdet and inverse quadratic forms equal the dense values or their quadrature.
   Only theorem statements live here (the proof obligations the harness counts); each is closed by
   [exact] of a lemma proved in ProofsAlg.v / ProofsLog.v / ProofsBridge.v / ProofsConv.v.

   Conventions.  F : fieldType / realFieldType / rcfType is universally quantified (the reals are an
   instance); sizes n, k, t, m, p are arbitrary naturals.  log does not exist in an rcfType: identities about
   log-determinants are stated in product form and, where the code sums logs, for an arbitrary function [ln]
   with  ln (x y) = ln x + ln y  on positive arguments (a hypothesis of the theorem, so no axiom).
   [ArR ln] is the exact-arithmetic instance of the model's arithmetic record; mx_of / cv_of / cols_mx read a
   list matrix / vector / list of columns of the executable model as a MathComp matrix. *)
From mathcomp Require Import all_ssreflect all_fingroup all_algebra.
From mathcomp Require Import mxtens.
Require Import C05.ModelBase C05.ModelCG C05.Model.
Require Import C05.ProofsAlg C05.ProofsLog C05.ProofsBridge C05.ProofsConv.
Set Implicit Arguments. Unset Strict Implicit. Unset Printing Implicit Defensive.
Import GRing.Theory Num.Theory.
Local Open Scope ring_scope.

(* ============================ determinant identities (product form), all sizes ============================ *)

(* Cholesky: det (L L^T) = prod_i l_ii^2 for every lower-triangular L. *)
Theorem C05_det_chol : forall (F : fieldType) (n : nat) (L : 'M[F]_n),
  is_trig_mx L -> \det (L *m L^T) = \prod_i (L i i) ^+ 2.
Proof. exact det_LLt. Qed.

(* ... and the summed-log form CholLinearOperator computes: sum_i ln l_ii^2 = ln det (L L^T). *)
Theorem C05_logdet_chol : forall (F : realFieldType) (ln : F -> F),
  (forall x y, 0 < x -> 0 < y -> ln (x * y) = ln x + ln y) ->
  forall (n : nat) (L : 'M[F]_n), is_trig_mx L -> (forall i, L i i != 0) ->
  \sum_i ln ((L i i) ^+ 2) = ln (\det (L *m L^T)).
Proof. exact logdet_chol. Qed.

(* Matrix determinant lemma (LowRankRootAddedDiagLinearOperator._logdet):
   det (D + U U^T) = det D * det (I + U^T D^-1 U), any invertible D, any n x k root U. *)
Theorem C05_det_lemma : forall (F : fieldType) (n k : nat) (D : 'M[F]_n) (U : 'M[F]_(n, k)),
  D \in unitmx -> \det (D + U *m U^T) = \det D * \det (1%:M + U^T *m invmx D *m U).
Proof. exact det_lemma. Qed.

Theorem C05_logdet_lemma : forall (F : realFieldType) (ln : F -> F),
  (forall x y, 0 < x -> 0 < y -> ln (x * y) = ln x + ln y) ->
  forall (n k : nat) (D : 'M[F]_n) (U : 'M[F]_(n, k)),
  D \in unitmx -> 0 < \det D -> 0 < \det (1%:M + U^T *m invmx D *m U) ->
  ln (\det (D + U *m U^T)) = ln (\det (1%:M + U^T *m invmx D *m U)) + ln (\det D).
Proof. exact logdet_lemma. Qed.

(* Woodbury: the solve LowRankRootAddedDiagLinearOperator._solve applies is the inverse of D + U U^T. *)
Theorem C05_woodbury : forall (F : fieldType) (n k : nat) (D : 'M[F]_n) (U : 'M[F]_(n, k)),
  D \in unitmx -> (1%:M + U^T *m invmx D *m U) \in unitmx ->
  (D + U *m U^T) *m (invmx D - invmx D *m U *m invmx (1%:M + U^T *m invmx D *m U) *m U^T *m invmx D) = 1%:M.
Proof. exact woodbury. Qed.

(* Kronecker eigenvalue form: if A V_A = V_A diag a and B V_B = V_B diag b then A (x) B is diagonalised by
   V_A (x) V_B with the Kronecker product of the eigenvalue vectors, and det (A (x) B) = prod_ij a_i b_j. *)
Theorem C05_kron_eig : forall (F : fieldType) (m p : nat) (A VA : 'M[F]_m) (B VB : 'M[F]_p)
    (a : 'rV[F]_m) (b : 'rV[F]_p),
  A *m VA = VA *m diag_mx a -> B *m VB = VB *m diag_mx b ->
  (A *t B) *m (VA *t VB) = (VA *t VB) *m diag_mx (kron_row a b).
Proof. exact kron_eig. Qed.

Theorem C05_det_kron : forall (F : fieldType) (m p : nat) (A VA : 'M[F]_m) (B VB : 'M[F]_p)
    (a : 'rV[F]_m) (b : 'rV[F]_p),
  VA \in unitmx -> VB \in unitmx -> A *m VA = VA *m diag_mx a -> B *m VB = VB *m diag_mx b ->
  \det (A *t B) = \prod_i \prod_j (a 0 i * b 0 j).
Proof. exact det_kron. Qed.

Theorem C05_logdet_kron : forall (F : realFieldType) (ln : F -> F),
  (forall x y, 0 < x -> 0 < y -> ln (x * y) = ln x + ln y) ->
  forall (m p : nat) (A VA : 'M[F]_m) (B VB : 'M[F]_p) (a : 'rV[F]_m) (b : 'rV[F]_p),
  VA \in unitmx -> VB \in unitmx -> A *m VA = VA *m diag_mx a -> B *m VB = VB *m diag_mx b ->
  (forall i, 0 < a 0 i) -> (forall j, 0 < b 0 j) ->
  \sum_k ln (kron_row a b 0 k) = ln (\det (A *t B)).
Proof. exact logdet_kron. Qed.

(* Any number of Kronecker factors, on the eigenvalue LISTS the model manipulates (_kron_diag / kron_vecs):
   the product of all Kronecker eigenvalues is  prod_f (prod evals_f)^(N / n_f)  (recursive form kron_prod),
   and KroneckerProductLinearOperator._logdet (clamp inactive) is its logarithm. *)
Theorem C05_kron_evals_prod : forall (F : rcfType) (ln : F -> F) (xs : seq (vec F)),
  \prod_(z <- kron_vecs (ArR ln) xs) z = kron_prod ln xs.
Proof. exact prod_kron_vecs. Qed.

Theorem C05_kron_logdet_model : forall (F : rcfType) (ln : F -> F) (S : settings F)
    (eigh : nat -> mat F -> vec F * mat F) (fs : seq (nat * mat F)),
  (forall x y, 0 < x -> 0 < y -> ln (x * y) = ln x + ln y) ->
  0 < k_clamp S -> all (fun x => k_clamp S <= x) (kron_evals (ArR ln) eigh fs) ->
  kron_logdet (ArR ln) eigh S fs = ln (kron_prod ln [seq factor_evals (ArR ln) eigh f | f <- fs]).
Proof. exact kron_logdet_correct. Qed.

(* Constant-diagonal shift (KroneckerProductAddedDiag with a ConstantDiag, AddedDiag._symeig):
   det (A + s I) = prod_i (lambda_i + s). *)
Theorem C05_det_shift : forall (F : fieldType) (n : nat) (A V : 'M[F]_n) (a : 'rV[F]_n) (s : F),
  V \in unitmx -> A *m V = V *m diag_mx a -> \det (A + s%:M) = \prod_i (a 0 i + s).
Proof. exact det_shift. Qed.

Theorem C05_logdet_shift : forall (F : realFieldType) (ln : F -> F),
  (forall x y, 0 < x -> 0 < y -> ln (x * y) = ln x + ln y) ->
  forall (n : nat) (A V : 'M[F]_n) (a : 'rV[F]_n) (s : F),
  V \in unitmx -> A *m V = V *m diag_mx a -> (forall i, 0 < a 0 i + s) ->
  \sum_i ln (a 0 i + s) = ln (\det (A + s%:M)).
Proof. exact logdet_shift. Qed.

(* Symmetrised branch of KroneckerProductAddedDiag._logdet: with D = S^-1 S^-1 (S = D^{-1/2}),
   det (K + D) = det D * det (S K S + I). *)
Theorem C05_det_symmetrize : forall (F : fieldType) (n : nat) (K S : 'M[F]_n), S \in unitmx ->
  \det (K + invmx S *m invmx S) = \det (invmx S *m invmx S) * \det (S *m K *m S + 1%:M).
Proof. exact det_symmetrize. Qed.

(* Block operators: determinant of a block-diagonal matrix of any number of blocks of any sizes is the product
   of the block determinants; conjugation by a permutation (the interleaved layout) does not change it. *)
Theorem C05_det_blocks : forall (F : fieldType) (l : seq (blk F)),
  \det (bdiag l) = \prod_(B <- l) \det (projT2 B).
Proof. exact det_bdiag. Qed.

Theorem C05_det_perm_conj : forall (F : fieldType) (n : nat) (s : {perm 'I_n}) (M : 'M[F]_n),
  \det (perm_mx s *m M *m (perm_mx s)^T) = \det M.
Proof. exact det_perm_conj. Qed.

Theorem C05_logdet_blocks : forall (F : realFieldType) (ln : F -> F),
  (forall x y, 0 < x -> 0 < y -> ln (x * y) = ln x + ln y) ->
  forall (l : seq (blk F)), (forall B, B \in l -> 0 < \det (projT2 B)) ->
  ln (\det (bdiag l)) = \sum_(B <- l) ln (\det (projT2 B)).
Proof. exact logdet_blocks. Qed.

(* ============================ inverse quadratic forms ============================ *)

(* column sums of R o (A^-1 R) are the diagonal of R^T A^-1 R; reduce_inv_quad=True is its trace. *)
Theorem C05_inv_quad_colsum : forall (F : fieldType) (n t : nat) (Ai : 'M[F]_n) (R : 'M[F]_(n, t)) (j : 'I_t),
  \sum_i R i j * (Ai *m R) i j = (R^T *m Ai *m R) j j.
Proof. exact colsum_hadamard. Qed.

Theorem C05_inv_quad_reduce_is_trace : forall (F : fieldType) (n t : nat) (Ai : 'M[F]_n) (R : 'M[F]_(n, t)),
  \sum_j \sum_i R i j * (Ai *m R) i j = \tr (R^T *m Ai *m R).
Proof. exact reduce_is_trace. Qed.

(* Cholesky form: diag (R^T (L L^T)^-1 R) = column sums of squares of L^-1 R. *)
Theorem C05_inv_quad_chol_form : forall (F : fieldType) (n t : nat) (L : 'M[F]_n) (R : 'M[F]_(n, t)) (j : 'I_t),
  L \in unitmx -> (R^T *m invmx (L *m L^T) *m R) j j = \sum_i ((invmx L *m R) i j) ^+ 2.
Proof. exact chol_inv_quad. Qed.

(* The EXECUTABLE model (forward substitution on lists, sequential sums) computes exactly that, for all n, t:
   lower factor (the Cholesky shortcut of every operator without an override, CholLinearOperator) ... *)
Theorem C05_chol_inv_quad_model : forall (F : rcfType) (ln : F -> F) (n t : nat) (T : mat F) (R : cols F) (j : 'I_t),
  lower ln n T -> diag_nz ln n T ->
  chol_iq_col (ArR ln) false n T (nth [::] R j) =
  ((cols_mx ln n t R)^T *m invmx (mx_of ln n n T *m (mx_of ln n n T)^T) *m cols_mx ln n t R) j j.
Proof. exact chol_iq_col_correct. Qed.

(* ... upper factor (CholLinearOperator(upper=True), A = U^T U) ... *)
Theorem C05_chol_inv_quad_model_upper : forall (F : rcfType) (ln : F -> F) (n t : nat) (T : mat F) (R : cols F) (j : 'I_t),
  upper ln n T -> diag_nz ln n T ->
  chol_iq_col (ArR ln) true n T (nth [::] R j) =
  ((cols_mx ln n t R)^T *m invmx ((mx_of ln n n T)^T *m mx_of ln n n T) *m cols_mx ln n t R) j j.
Proof. exact chol_iq_col_upper_correct. Qed.

(* ... and its log-determinant is ln det (L L^T). *)
Theorem C05_chol_logdet_model : forall (F : rcfType) (ln : F -> F) (n : nat) (T : mat F),
  (forall x y, 0 < x -> 0 < y -> ln (x * y) = ln x + ln y) ->
  lower ln n T -> diag_nz ln n T ->
  chol_logdet (ArR ln) n T = ln (\det (mx_of ln n n T *m (mx_of ln n n T)^T)).
Proof. exact chol_logdet_correct. Qed.

(* Triangular (lower) and diagonal / identity closed forms of the model. *)
Theorem C05_tri_inv_quad_model : forall (F : rcfType) (ln : F -> F) (n t : nat) (T : mat F) (R : cols F) (j : 'I_t),
  lower ln n T -> diag_nz ln n T ->
  tri_iq_col (ArR ln) false n T (nth [::] R j) =
  ((cols_mx ln n t R)^T *m invmx (mx_of ln n n T) *m cols_mx ln n t R) j j.
Proof. exact tri_iq_col_lower_correct. Qed.

Theorem C05_diag_inv_quad_model : forall (F : rcfType) (ln : F -> F) (d r : vec F),
  (forall i, (i < size d)%N -> vget (ArR ln) d i != 0) ->
  diag_iq_col (ArR ln) d r =
  ((cv_of ln (size d) r)^T *m invmx (diag_mx (cv_of ln (size d) d)^T) *m cv_of ln (size d) r) 0 0.
Proof. exact diag_iq_col_correct. Qed.

Theorem C05_ident_inv_quad_model : forall (F : rcfType) (ln : F -> F) (n : nat) (r : vec F),
  ident_iq_col (ArR ln) n r = ((cv_of ln n r)^T *m cv_of ln n r) 0 0.
Proof. exact ident_iq_col_correct. Qed.

(* ============================ stochastic Lanczos quadrature ============================ *)

(* slq_is_gauss_quadrature: StochasticLQ.to_dense (model: slq_to_dense, accumulating probe by probe) returns
   (n/m) sum_i e_1^T f(T_i) e_1  with  f(T) := V f(Lambda) V^T  for the eigendecomposition (Lambda_i, V_i) it is
   given -- whatever eigendecomposition that is; all probe counts m, all tridiagonal sizes k+1. *)
Theorem C05_slq_is_gauss_quadrature : forall (F : rcfType) (ln : F -> F) (n : nat) (evs : seq (vec F * mat F)),
  slq_to_dense (ArR ln) n evs = \sum_(ev <- evs) n%:R / (size evs)%:R * slq_probe (ArR ln) ev.
Proof. exact slq_to_dense_sum. Qed.

Theorem C05_slq_probe_is_spectral : forall (F : rcfType) (ln : F -> F) (k : nat) (w : vec F) (V : mat F),
  size w = k.+1 ->
  slq_probe (ArR ln) (w, V) =
  (mx_of ln k.+1 k.+1 V *m diag_mx (map_mx ln (cv_of ln k.+1 w)^T) *m (mx_of ln k.+1 k.+1 V)^T) 0 0.
Proof. exact slq_probe_spectral. Qed.

(* the general algebraic fact: e_1^T (V f(Lambda) V^T) e_1 = sum_j V_1j^2 f(lambda_j), any f *)
Theorem C05_spectral_e1 : forall (F : fieldType) (k : nat) (V : 'M[F]_k.+1) (lam : 'rV[F]_k.+1) (f : F -> F),
  (V *m diag_mx (map_mx f lam) *m V^T) 0 0 = \sum_j (V 0 j) ^+ 2 * f (lam 0 j).
Proof. exact spectral_e1. Qed.

(* for polynomial f the matrix function is independent of the eigendecomposition: p(T) = V p(Lambda) V^-1
   whenever T = V Lambda V^-1  (PARTIAL: for f = log this independence needs an interpolation argument that is
   not proved here; the quadrature identity above holds for the decomposition the code is given). *)
Theorem C05_spectral_poly_partial : forall (F : fieldType) (k : nat) (V T : 'M[F]_k.+1) (lam : 'rV[F]_k.+1) (p : {poly F}),
  V \in unitmx -> T = V *m diag_mx lam *m invmx V ->
  horner_mx T p = V *m diag_mx (map_mx (horner p) lam) *m invmx V.
Proof. exact horner_eig. Qed.

(* lanczos_tridiag_to_diag: on a non-negative spectrum the negative-eigenvalue mask changes nothing *)
Theorem C05_tridiag_mask_identity : forall (F : rcfType) (ln : F -> F)
    (eigh : nat -> mat F -> vec F * mat F) (k : nat) (T : mat F),
  all (fun x => 0 <= x) (eigh k T).1 -> size (eigh k T).1 = k ->
  (tridiag_to_diag (ArR ln) eigh k T).1 = (eigh k T).1 /\
  forall i j, (i < k)%N -> (j < k)%N ->
    mget (ArR ln) (tridiag_to_diag (ArR ln) eigh k T).2 i j = mget (ArR ln) (eigh k T).2 i j.
Proof. exact tridiag_to_diag_nonneg. Qed.

(* ============================ routing and output conventions of the model ============================ *)

(* The base class takes the Cholesky shortcut iff fast_computations.log_prob is off or n <= max_cholesky_size;
   the result then does not depend on the probes nor on any other setting. *)
Theorem C05_cholesky_route : forall (F : Type) (A : Arith F) (eigh : nat -> mat F -> vec F * mat F)
    (S : settings F) (bs : seq nat) (n : nat) (gs : seq (gmember F)) (R : rhs_in F) (logdet reduce : bool)
    (probes : cols F),
  (~~ s_log_prob S || (n <= s_max_cholesky_size S)%N) ->
  generic_iql A eigh S bs n gs R logdet reduce probes =
  ROk (chol_iql A bs [seq (false, n, cholesky A n (g_M g)) | g <- gs] R logdet reduce).
Proof. exact cholesky_route. Qed.

(* shape_conventions: for every class, batch shape and flag combination, a successful run of the model on a
   leaf batch returns the documented shapes (or None / empty / zero placeholders for what was not asked). *)
Theorem C05_shape_conventions_leaf : forall (F : Type) (A : Arith F) (eigh : nat -> mat F -> vec F * mat F),
  (forall x, aeqb A x x) ->
  forall (S : settings F) (bs : seq nat) (ms : seq (op F)) (R : rhs_in F) (logdet reduce : bool)
         (probes : cols F) (iq ld : out F),
  leaf_iql A eigh S bs ms R logdet reduce probes = ROk (iq, ld) ->
  ok_iq bs R reduce iq /\ ok_ld bs logdet ld.
Proof. exact leaf_shape_conventions. Qed.

(* non-vacuity of the hypotheses used above *)
Example C05_hyp_satisfiable_trig : is_trig_mx (1%:M : 'M[rat]_3).
Proof. by apply/is_trig_mxP => i j ij; rewrite mxE; case: eqP ij => // ->; rewrite ltnn. Qed.
