(* C05 — logdet and inverse quadratic forms equal the dense values or their quadrature.
   Only theorem statements live here (the proof obligations the harness counts); each is closed by
   [exact] of a lemma proved in ProofsAlg.v / ProofsLog.v / ProofsBridge.v / ProofsConv.v.

   Conventions.  F : fieldType / realFieldType / rcfType is universally quantified (the reals are an
   instance); sizes n, k, t, m, p are arbitrary naturals.  log does not exist in an rcfType: identities about
   log-determinants are stated in product form and, where the code sums logs, for an arbitrary function [ln]
   with  ln (x y) = ln x + ln y  on positive arguments (a hypothesis of the theorem, so no axiom).
   [ArR ln] is the exact-arithmetic instance of the model's arithmetic record; mx_of / cv_of / cols_mx read a
   list matrix / vector / list of columns of the executable model as a MathComp matrix. *)
From mathcomp Require Import all_ssreflect all_fingroup all_algebra.
From mathcomp Require Import mxtens.
Require Import C05.ModelBase C05.ModelCG C05.Model.
Require Import C05.ProofsAlg C05.ProofsLog C05.ProofsBridge C05.ProofsLRRAD C05.ProofsKron C05.ProofsConv.
Require Import C05.ModelLayout C05.ProofsLayout C05.ProofsBlockQuad C05.ProofsCache C05.ProofsExpand.
Set Implicit Arguments. Unset Strict Implicit. Unset Printing Implicit Defensive.
Import GRing.Theory Num.Theory.
Local Open Scope ring_scope.

(* ============================ determinant identities (product form), all sizes ============================ *)

(* Cholesky: det (L L^T) = prod_i l_ii^2 for every lower-triangular L. *)
Theorem C05_det_chol : forall (F : fieldType) (n : nat) (L : 'M[F]_n),
  is_trig_mx L -> \det (L *m L^T) = \prod_i (L i i) ^+ 2.
Proof. exact det_LLt. Qed.

(* ... and the summed-log form CholLinearOperator computes: sum_i ln l_ii^2 = ln det (L L^T). *)
Theorem C05_logdet_chol : forall (F : realFieldType) (ln : F -> F),
  (forall x y, 0 < x -> 0 < y -> ln (x * y) = ln x + ln y) ->
  forall (n : nat) (L : 'M[F]_n), is_trig_mx L -> (forall i, L i i != 0) ->
  \sum_i ln ((L i i) ^+ 2) = ln (\det (L *m L^T)).
Proof. exact logdet_chol. Qed.

(* Matrix determinant lemma (LowRankRootAddedDiagLinearOperator._logdet):
   det (D + U U^T) = det D * det (I + U^T D^-1 U), any invertible D, any n x k root U. *)
Theorem C05_det_lemma : forall (F : fieldType) (n k : nat) (D : 'M[F]_n) (U : 'M[F]_(n, k)),
  D \in unitmx -> \det (D + U *m U^T) = \det D * \det (1%:M + U^T *m invmx D *m U).
Proof. exact det_lemma. Qed.

Theorem C05_logdet_lemma : forall (F : realFieldType) (ln : F -> F),
  (forall x y, 0 < x -> 0 < y -> ln (x * y) = ln x + ln y) ->
  forall (n k : nat) (D : 'M[F]_n) (U : 'M[F]_(n, k)),
  D \in unitmx -> 0 < \det D -> 0 < \det (1%:M + U^T *m invmx D *m U) ->
  ln (\det (D + U *m U^T)) = ln (\det (1%:M + U^T *m invmx D *m U)) + ln (\det D).
Proof. exact logdet_lemma. Qed.

(* Woodbury: the solve LowRankRootAddedDiagLinearOperator._solve applies is the inverse of D + U U^T. *)
Theorem C05_woodbury : forall (F : fieldType) (n k : nat) (D : 'M[F]_n) (U : 'M[F]_(n, k)),
  D \in unitmx -> (1%:M + U^T *m invmx D *m U) \in unitmx ->
  (D + U *m U^T) *m (invmx D - invmx D *m U *m invmx (1%:M + U^T *m invmx D *m U) *m U^T *m invmx D) = 1%:M.
Proof. exact woodbury. Qed.

(* Kronecker eigenvalue form: if A V_A = V_A diag a and B V_B = V_B diag b then A (x) B is diagonalised by
   V_A (x) V_B with the Kronecker product of the eigenvalue vectors, and det (A (x) B) = prod_ij a_i b_j. *)
Theorem C05_kron_eig : forall (F : fieldType) (m p : nat) (A VA : 'M[F]_m) (B VB : 'M[F]_p)
    (a : 'rV[F]_m) (b : 'rV[F]_p),
  A *m VA = VA *m diag_mx a -> B *m VB = VB *m diag_mx b ->
  (A *t B) *m (VA *t VB) = (VA *t VB) *m diag_mx (kron_row a b).
Proof. exact kron_eig. Qed.

Theorem C05_det_kron : forall (F : fieldType) (m p : nat) (A VA : 'M[F]_m) (B VB : 'M[F]_p)
    (a : 'rV[F]_m) (b : 'rV[F]_p),
  VA \in unitmx -> VB \in unitmx -> A *m VA = VA *m diag_mx a -> B *m VB = VB *m diag_mx b ->
  \det (A *t B) = \prod_i \prod_j (a 0 i * b 0 j).
Proof. exact det_kron. Qed.

Theorem C05_logdet_kron : forall (F : realFieldType) (ln : F -> F),
  (forall x y, 0 < x -> 0 < y -> ln (x * y) = ln x + ln y) ->
  forall (m p : nat) (A VA : 'M[F]_m) (B VB : 'M[F]_p) (a : 'rV[F]_m) (b : 'rV[F]_p),
  VA \in unitmx -> VB \in unitmx -> A *m VA = VA *m diag_mx a -> B *m VB = VB *m diag_mx b ->
  (forall i, 0 < a 0 i) -> (forall j, 0 < b 0 j) ->
  \sum_k ln (kron_row a b 0 k) = ln (\det (A *t B)).
Proof. exact logdet_kron. Qed.

(* Any number of Kronecker factors, on the eigenvalue LISTS the model manipulates (_kron_diag / kron_vecs):
   the product of all Kronecker eigenvalues is  prod_f (prod evals_f)^(N / n_f)  (recursive form kron_prod),
   and KroneckerProductLinearOperator._logdet (clamp inactive) is its logarithm. *)
Theorem C05_kron_evals_prod : forall (F : rcfType) (ln : F -> F) (xs : seq (vec F)),
  \prod_(z <- kron_vecs (ArR ln) xs) z = kron_prod ln xs.
Proof. exact prod_kron_vecs. Qed.

Theorem C05_kron_logdet_model : forall (F : rcfType) (ln : F -> F) (S : settings F)
    (eigh : nat -> mat F -> vec F * mat F) (fs : seq (nat * mat F)),
  (forall x y, 0 < x -> 0 < y -> ln (x * y) = ln x + ln y) ->
  0 < k_clamp S -> all (fun x => k_clamp S <= x) (kron_evals (ArR ln) eigh fs) ->
  kron_logdet (ArR ln) eigh S fs = ln (kron_prod ln [seq factor_evals (ArR ln) eigh f | f <- fs]).
Proof. exact kron_logdet_correct. Qed.

(* Two factors, end to end on the model: the dense Kronecker product the model denotes is mathcomp's tensor product, and
   KroneckerProductLinearOperator._logdet (per-factor eigh, Kronecker product of the eigenvalue lists, clamp, log, sum)
   equals ln det of it, provided eigh returns eigendecompositions (eigh_ok) and no eigenvalue product is below the clamp. *)
Theorem C05_kron_dense_is_tensor : forall (F : rcfType) (ln : F -> F) (m p : nat) (X Y : mat F),
  mx_of ln (m * p) (m * p) (kron2 (ArR ln) m p X Y) = mx_of ln m m X *t mx_of ln p p Y.
Proof. exact kron2_tens. Qed.

Theorem C05_kron_logdet_end_to_end : forall (F : rcfType) (ln : F -> F) (S : settings F)
    (eigh : nat -> mat F -> vec F * mat F) (m p : nat) (X Y : mat F),
  (forall x y, 0 < x -> 0 < y -> ln (x * y) = ln x + ln y) ->
  0 < k_clamp S ->
  eigh_ok ln eigh (m, X) -> eigh_ok ln eigh (p, Y) ->
  all (fun x => k_clamp S <= x) (kron_evals (ArR ln) eigh [:: (m, X); (p, Y)]) ->
  kron_logdet (ArR ln) eigh S [:: (m, X); (p, Y)] =
  ln (\det (mx_of ln (m * p) (m * p) (kron_dense (ArR ln) [:: (m, X); (p, Y)]))).
Proof. exact kron2_logdet_end_to_end. Qed.

(* Constant-diagonal shift (KroneckerProductAddedDiag with a ConstantDiag, AddedDiag._symeig):
   det (A + s I) = prod_i (lambda_i + s). *)
Theorem C05_det_shift : forall (F : fieldType) (n : nat) (A V : 'M[F]_n) (a : 'rV[F]_n) (s : F),
  V \in unitmx -> A *m V = V *m diag_mx a -> \det (A + s%:M) = \prod_i (a 0 i + s).
Proof. exact det_shift. Qed.

Theorem C05_logdet_shift : forall (F : realFieldType) (ln : F -> F),
  (forall x y, 0 < x -> 0 < y -> ln (x * y) = ln x + ln y) ->
  forall (n : nat) (A V : 'M[F]_n) (a : 'rV[F]_n) (s : F),
  V \in unitmx -> A *m V = V *m diag_mx a -> (forall i, 0 < a 0 i + s) ->
  \sum_i ln (a 0 i + s) = ln (\det (A + s%:M)).
Proof. exact logdet_shift. Qed.

(* Symmetrised branch of KroneckerProductAddedDiag._logdet: with D = S^-1 S^-1 (S = D^{-1/2}),
   det (K + D) = det D * det (S K S + I). *)
Theorem C05_det_symmetrize : forall (F : fieldType) (n : nat) (K S : 'M[F]_n), S \in unitmx ->
  \det (K + invmx S *m invmx S) = \det (invmx S *m invmx S) * \det (S *m K *m S + 1%:M).
Proof. exact det_symmetrize. Qed.

(* Block operators: determinant of a block-diagonal matrix of any number of blocks of any sizes is the product
   of the block determinants; conjugation by a permutation (the interleaved layout) does not change it. *)
Theorem C05_det_blocks : forall (F : fieldType) (l : seq (blk F)),
  \det (bdiag l) = \prod_(B <- l) \det (projT2 B).
Proof. exact det_bdiag. Qed.

Theorem C05_det_perm_conj : forall (F : fieldType) (n : nat) (s : {perm 'I_n}) (M : 'M[F]_n),
  \det (perm_mx s *m M *m (perm_mx s)^T) = \det M.
Proof. exact det_perm_conj. Qed.

Theorem C05_logdet_blocks : forall (F : realFieldType) (ln : F -> F),
  (forall x y, 0 < x -> 0 < y -> ln (x * y) = ln x + ln y) ->
  forall (l : seq (blk F)), (forall B, B \in l -> 0 < \det (projT2 B)) ->
  ln (\det (bdiag l)) = \sum_(B <- l) ln (\det (projT2 B)).
Proof. exact logdet_blocks. Qed.

(* ... and the inverse quadratic form of a block-diagonal matrix is the SUM over the blocks of the blocks' inverse quadratic
   forms on the conformal pieces of the vector (what Block*.inv_quad_logdet's sum over the block dimension computes), any
   number of blocks of any sizes; the interleaved layout is a permutation conjugate acting on the permuted vector. *)
Theorem C05_inv_quad_blocks : forall (F : fieldType) (l : seq (blk F)) (v : 'cV[F]_(bdim l)),
  (forall B, B \in l -> projT2 B \in unitmx) ->
  (v^T *m invmx (bdiag l) *m v) 0 0 = bquad v.
Proof. exact inv_quad_bdiag. Qed.

Theorem C05_inv_quad_perm_conj : forall (F : fieldType) (n : nat) (s : {perm 'I_n}) (M : 'M[F]_n) (v : 'cV[F]_n),
  M \in unitmx ->
  (v^T *m invmx (perm_mx s *m M *m (perm_mx s)^T) *m v) 0 0
  = (((perm_mx s)^T *m v)^T *m invmx M *m ((perm_mx s)^T *m v)) 0 0.
Proof. exact inv_quad_perm_conj. Qed.

(* ============================ inverse quadratic forms ============================ *)

(* column sums of R o (A^-1 R) are the diagonal of R^T A^-1 R; reduce_inv_quad=True is its trace. *)
Theorem C05_inv_quad_colsum : forall (F : fieldType) (n t : nat) (Ai : 'M[F]_n) (R : 'M[F]_(n, t)) (j : 'I_t),
  \sum_i R i j * (Ai *m R) i j = (R^T *m Ai *m R) j j.
Proof. exact colsum_hadamard. Qed.

Theorem C05_inv_quad_reduce_is_trace : forall (F : fieldType) (n t : nat) (Ai : 'M[F]_n) (R : 'M[F]_(n, t)),
  \sum_j \sum_i R i j * (Ai *m R) i j = \tr (R^T *m Ai *m R).
Proof. exact reduce_is_trace. Qed.

(* Cholesky form: diag (R^T (L L^T)^-1 R) = column sums of squares of L^-1 R. *)
Theorem C05_inv_quad_chol_form : forall (F : fieldType) (n t : nat) (L : 'M[F]_n) (R : 'M[F]_(n, t)) (j : 'I_t),
  L \in unitmx -> (R^T *m invmx (L *m L^T) *m R) j j = \sum_i ((invmx L *m R) i j) ^+ 2.
Proof. exact chol_inv_quad. Qed.

(* The EXECUTABLE model (forward substitution on lists, sequential sums) computes exactly that, for all n, t:
   lower factor (the Cholesky shortcut of every operator without an override, CholLinearOperator) ... *)
Theorem C05_chol_inv_quad_model : forall (F : rcfType) (ln : F -> F) (n t : nat) (T : mat F) (R : cols F) (j : 'I_t),
  lower ln n T -> diag_nz ln n T ->
  chol_iq_col (ArR ln) false n T (nth [::] R j) =
  ((cols_mx ln n t R)^T *m invmx (mx_of ln n n T *m (mx_of ln n n T)^T) *m cols_mx ln n t R) j j.
Proof. exact chol_iq_col_correct. Qed.

(* ... upper factor (CholLinearOperator(upper=True), A = U^T U) ... *)
Theorem C05_chol_inv_quad_model_upper : forall (F : rcfType) (ln : F -> F) (n t : nat) (T : mat F) (R : cols F) (j : 'I_t),
  upper ln n T -> diag_nz ln n T ->
  chol_iq_col (ArR ln) true n T (nth [::] R j) =
  ((cols_mx ln n t R)^T *m invmx ((mx_of ln n n T)^T *m mx_of ln n n T) *m cols_mx ln n t R) j j.
Proof. exact chol_iq_col_upper_correct. Qed.

(* ... and its log-determinant is ln det (L L^T). *)
Theorem C05_chol_logdet_model : forall (F : rcfType) (ln : F -> F) (n : nat) (T : mat F),
  (forall x y, 0 < x -> 0 < y -> ln (x * y) = ln x + ln y) ->
  lower ln n T -> diag_nz ln n T ->
  chol_logdet (ArR ln) n T = ln (\det (mx_of ln n n T *m (mx_of ln n n T)^T)).
Proof. exact chol_logdet_correct. Qed.

(* The Cholesky shortcut end to end for one batch member (the default route of every operator without an override):
   if the factor the model computes is a Cholesky factor of M (chol_ok: lower triangular, non-zero diagonal, L L^T = M -
   the contract of torch.linalg.cholesky, C06/C16), the model returns the DENSE values diag(R^T M^-1 R) and ln det M. *)
Theorem C05_dense_route_inv_quad : forall (F : rcfType) (ln : F -> F) (n t : nat) (M : mat F) (R : cols F) (j : 'I_t),
  chol_ok ln n M ->
  dense_iq_col (ArR ln) n M (nth [::] R j) =
  ((cols_mx ln n t R)^T *m invmx (mx_of ln n n M) *m cols_mx ln n t R) j j.
Proof. exact dense_iq_col_correct. Qed.

Theorem C05_dense_route_logdet : forall (F : rcfType) (ln : F -> F) (n : nat) (M : mat F),
  (forall x y, 0 < x -> 0 < y -> ln (x * y) = ln x + ln y) -> chol_ok ln n M ->
  dense_chol_logdet (ArR ln) n M = ln (\det (mx_of ln n n M)).
Proof. exact dense_chol_logdet_correct. Qed.

(* TriangularLinearOperator's sign rule: with a positive determinant the model returns sum ln|t_ii| = ln det T (never
   the NaN placeholder); with a negative determinant it returns the placeholder (anan, = 0 in the exact instance). *)
Theorem C05_tri_logdet_model : forall (F : rcfType) (ln : F -> F) (n : nat) (T : mat F),
  (forall x y, 0 < x -> 0 < y -> ln (x * y) = ln x + ln y) ->
  lower ln n T -> diag_nz ln n T -> 0 < \det (mx_of ln n n T) ->
  tri_logdet (ArR ln) n T = ln (\det (mx_of ln n n T)).
Proof. exact tri_logdet_correct. Qed.

Theorem C05_tri_logdet_model_negative : forall (F : rcfType) (ln : F -> F) (n : nat) (T : mat F),
  lower ln n T -> \det (mx_of ln n n T) < 0 -> tri_logdet (ArR ln) n T = anan (ArR ln).
Proof. exact tri_logdet_negative. Qed.

(* LowRankRootAddedDiagLinearOperator end to end: the model's capacitance matrix is I + U^T D^-1 U and its _logdet
   (2 sum log diag chol(cap) + sum log d) is ln det (D + U U^T). *)
Theorem C05_lrrad_cap_model : forall (F : rcfType) (ln : F -> F) (n k : nat) (U : mat F) (d : vec F),
  (forall i, (i < n)%N -> vget (ArR ln) d i != 0) ->
  mx_of ln k k (lrrad_cap (ArR ln) n k U d) =
  1%:M + (mx_of ln n k U)^T *m invmx (diag_mx (cv_of ln n d)^T) *m mx_of ln n k U.
Proof. exact lrrad_cap_mx. Qed.

Theorem C05_lrrad_logdet_model : forall (F : rcfType) (ln : F -> F) (n k : nat) (U : mat F) (d : vec F),
  (forall x y, 0 < x -> 0 < y -> ln (x * y) = ln x + ln y) ->
  size d = n -> (forall i, (i < n)%N -> 0 < vget (ArR ln) d i) ->
  chol_ok ln k (lrrad_cap (ArR ln) n k U d) ->
  (forall i, (i < k)%N -> 0 < mget (ArR ln) (cholesky (ArR ln) k (lrrad_cap (ArR ln) n k U d)) i i) ->
  lrrad_logdet (ArR ln) n k U d =
  ln (\det (diag_mx (cv_of ln n d)^T + mx_of ln n k U *m (mx_of ln n k U)^T)).
Proof. exact lrrad_logdet_correct. Qed.

(* Triangular (lower) and diagonal / identity closed forms of the model. *)
Theorem C05_tri_inv_quad_model : forall (F : rcfType) (ln : F -> F) (n t : nat) (T : mat F) (R : cols F) (j : 'I_t),
  lower ln n T -> diag_nz ln n T ->
  tri_iq_col (ArR ln) false n T (nth [::] R j) =
  ((cols_mx ln n t R)^T *m invmx (mx_of ln n n T) *m cols_mx ln n t R) j j.
Proof. exact tri_iq_col_lower_correct. Qed.

Theorem C05_diag_inv_quad_model : forall (F : rcfType) (ln : F -> F) (d r : vec F),
  (forall i, (i < size d)%N -> vget (ArR ln) d i != 0) ->
  diag_iq_col (ArR ln) d r =
  ((cv_of ln (size d) r)^T *m invmx (diag_mx (cv_of ln (size d) d)^T) *m cv_of ln (size d) r) 0 0.
Proof. exact diag_iq_col_correct. Qed.

Theorem C05_ident_inv_quad_model : forall (F : rcfType) (ln : F -> F) (n : nat) (r : vec F),
  ident_iq_col (ArR ln) n r = ((cv_of ln n r)^T *m cv_of ln n r) 0 0.
Proof. exact ident_iq_col_correct. Qed.

(* ============================ stochastic Lanczos quadrature ============================ *)

(* slq_is_gauss_quadrature: StochasticLQ.to_dense (model: slq_to_dense, accumulating probe by probe) returns
   (n/m) sum_i e_1^T f(T_i) e_1  with  f(T) := V f(Lambda) V^T  for the eigendecomposition (Lambda_i, V_i) it is
   given -- whatever eigendecomposition that is; all probe counts m, all tridiagonal sizes k+1. *)
Theorem C05_slq_is_gauss_quadrature : forall (F : rcfType) (ln : F -> F) (n : nat) (evs : seq (vec F * mat F)),
  slq_to_dense (ArR ln) n evs = \sum_(ev <- evs) n%:R / (size evs)%:R * slq_probe (ArR ln) ev.
Proof. exact slq_to_dense_sum. Qed.

Theorem C05_slq_probe_is_spectral : forall (F : rcfType) (ln : F -> F) (k : nat) (w : vec F) (V : mat F),
  size w = k.+1 ->
  slq_probe (ArR ln) (w, V) =
  (mx_of ln k.+1 k.+1 V *m diag_mx (map_mx ln (cv_of ln k.+1 w)^T) *m (mx_of ln k.+1 k.+1 V)^T) 0 0.
Proof. exact slq_probe_spectral. Qed.

(* the general algebraic fact: e_1^T (V f(Lambda) V^T) e_1 = sum_j V_1j^2 f(lambda_j), any f *)
Theorem C05_spectral_e1 : forall (F : fieldType) (k : nat) (V : 'M[F]_k.+1) (lam : 'rV[F]_k.+1) (f : F -> F),
  (V *m diag_mx (map_mx f lam) *m V^T) 0 0 = \sum_j (V 0 j) ^+ 2 * f (lam 0 j).
Proof. exact spectral_e1. Qed.

(* for polynomial f the matrix function is independent of the eigendecomposition: p(T) = V p(Lambda) V^-1
   whenever T = V Lambda V^-1  (PARTIAL: for f = log this independence needs an interpolation argument that is
   not proved here; the quadrature identity above holds for the decomposition the code is given). *)
Theorem C05_spectral_poly_partial : forall (F : fieldType) (k : nat) (V T : 'M[F]_k.+1) (lam : 'rV[F]_k.+1) (p : {poly F}),
  V \in unitmx -> T = V *m diag_mx lam *m invmx V ->
  horner_mx T p = V *m diag_mx (map_mx (horner p) lam) *m invmx V.
Proof. exact horner_eig. Qed.

(* slq_full_dimension (PARTIAL, polynomial f): if the tridiagonal matrix is T = Q^T At Q for an orthogonal n x n matrix Q
   whose first column is the probe u (the hypothesis is C08's "the CG tridiagonal is the Lanczos matrix", not proved
   here), then e_1^T p(T) e_1 = u^T p(At) u: once the budget reaches n the quadrature is the quadratic form of f(At). *)
Theorem C05_slq_full_dimension_poly_partial : forall (F : fieldType) (k : nat) (Q At : 'M[F]_k.+1) (p : {poly F}),
  Q^T *m Q = 1%:M ->
  (horner_mx (Q^T *m At *m Q) p) 0 0 = ((col 0 Q)^T *m horner_mx At p *m col 0 Q) 0 0.
Proof. exact poly_full_dimension. Qed.

(* The model of InvQuadLogdet.forward + the preconditioner correction: whenever the forward pass succeeds (logdet forward
   not skipped) the returned log-determinant of batch member b is
       log|P_b| + sum over the m tridiagonal matrices T of that member of (n/m) sum_k V_T[0,k]^2 ln(lambda_T[k]),
   (lambda_T, V_T) = lanczos_tridiag_to_diag(T), T the matrices the model of linear_cg returned for the probe columns. *)
Theorem C05_stochastic_logdet_formula : forall (F : rcfType) (ln : F -> F) (S : settings F)
    (eigh : nat -> mat F -> vec F * mat F) (bs : seq nat) (n : nat) (gs : seq (gmember F)) (R : rhs_in F)
    (reduce : bool) (probes : cols F) (iq ld : out F),
  ~~ s_skip_logdet_forward S ->
  iql_forward (ArR ln) eigh S bs n gs R reduce probes = ROk (iq, ld) ->
  exists o : cg_output F,
    let m := s_num_trace_samples S in
    let tm := odflt [::] (o_tmat o) in
    let ldp := [seq if P is Some L then chol_logdet (ArR ln) n L else 0
               | P <- [seq member_precond (ArR ln) S g | g <- gs]] in
    ld = OVal bs (mkseq (fun b =>
           let Ts := take m (drop (b * m) tm) in
           \sum_(T <- Ts) n%:R / (size Ts)%:R * slq_probe (ArR ln) (tridiag_to_diag (ArR ln) eigh (size T) T)
           + nth 0 ldp b)
         (size gs)).
Proof. exact iql_forward_logdet. Qed.

(* lanczos_tridiag_to_diag: on a non-negative spectrum the negative-eigenvalue mask changes nothing *)
Theorem C05_tridiag_mask_identity : forall (F : rcfType) (ln : F -> F)
    (eigh : nat -> mat F -> vec F * mat F) (k : nat) (T : mat F),
  all (fun x => 0 <= x) (eigh k T).1 -> size (eigh k T).1 = k ->
  (tridiag_to_diag (ArR ln) eigh k T).1 = (eigh k T).1 /\
  forall i j, (i < k)%N -> (j < k)%N ->
    mget (ArR ln) (tridiag_to_diag (ArR ln) eigh k T).2 i j = mget (ArR ln) (eigh k T).2 i j.
Proof. exact tridiag_to_diag_nonneg. Qed.

(* ============================ routing and output conventions of the model ============================ *)

(* The base class takes the Cholesky shortcut iff fast_computations.log_prob is off or n <= max_cholesky_size;
   the result then does not depend on the probes nor on any other setting. *)
Theorem C05_cholesky_route : forall (F : Type) (A : Arith F) (eigh : nat -> mat F -> vec F * mat F)
    (S : settings F) (bs : seq nat) (n : nat) (gs : seq (gmember F)) (R : rhs_in F) (logdet reduce : bool)
    (probes : cols F),
  (~~ s_log_prob S || (n <= s_max_cholesky_size S)%N) ->
  generic_iql A eigh S bs n gs R logdet reduce probes =
  ROk (chol_iql A bs [seq (false, n, shortcut_root A n g) | g <- gs] R logdet reduce).
Proof. exact cholesky_route. Qed.

(* The stand-alone entry point LinearOperator.inv_quad / linear_operator.inv_quad goes through InvQuad, whose OWN selector
   (functions/_inv_quad.py _solve) takes the Cholesky solve iff fast_computations.solves is off, or fast_computations.log_prob
   is off, or n <= max_cholesky_size - the values are then the dense ones whatever the CG settings are.  It is the selector
   of Solve (functions/_solve.py) plus the log_prob clause: the two differ exactly when log_prob is off (seeded regression C05/10
   swapped one for the other). *)
Theorem C05_invquad_route : forall (F : Type) (A : Arith F) (S : settings F) (n : nat) (gs : seq (gmember F)) (Rs : seq (cols F)),
  [|| ~~ s_solves S, ~~ s_log_prob S | (n <= s_max_cholesky_size S)%N] ->
  invquad_forward A S n gs Rs = ROk [seq [seq dense_iq_col A n (g_M gr.1) r | r <- gr.2] | gr <- zip gs Rs].
Proof. exact invquad_route. Qed.

Theorem C05_invquad_selector_vs_solve : forall (F : Type) (S : settings F) (n : nat),
  invquad_chol_solve S n = solve_chol_solve S n || ~~ s_log_prob S.
Proof. exact invquad_selector_vs_solve. Qed.

(* The cached-triangular-root shortcut (inv_quad_logdet lines 1700-1708): on the Cholesky route the factor handed to
   CholLinearOperator is the cached root_decomposition entry when the cache holds a (lower) TriangularLinearOperator root -
   transplanted by cat_rows / add_low_rank or left by an earlier root_decomposition() - and self.cholesky() otherwise. *)
Theorem C05_shortcut_root_choice : forall (F : Type) (A : Arith F) (n : nat) (g : gmember F),
  (forall L, g_root g = Some L -> shortcut_root A n g = L) /\
  (g_root g = None -> shortcut_root A n g = cholesky A n (g_M g)).
Proof. by move=> F A n g; split=> [L|]; [exact: shortcut_root_cached | exact: shortcut_root_fresh]. Qed.

(* A VALID transplanted root (lower triangular, non-zero diagonal, L L^T = M: root_valid - an explicit hypothesis, nothing in
   the code checks it; the harness checks it numerically on every case and names it when the predicate fails) gives the
   dense values: diag(R^T M^-1 R) and ln det M, in product form for any ln with ln(xy) = ln x + ln y. *)
Theorem C05_cached_root_inv_quad : forall (F : rcfType) (ln : F -> F) (n t : nat) (M L : mat F) (R : cols F) (j : 'I_t),
  root_valid ln n M L ->
  chol_iq_col (ArR ln) false n L (nth [::] R j)
  = ((cols_mx ln n t R)^T *m invmx (mx_of ln n n M) *m cols_mx ln n t R) j j.
Proof. exact cached_root_iq. Qed.

Theorem C05_cached_root_logdet : forall (F : rcfType) (ln : F -> F) (n : nat) (M L : mat F),
  (forall x y, 0 < x -> 0 < y -> ln (x * y) = ln x + ln y) -> root_valid ln n M L ->
  chol_logdet (ArR ln) n L = ln (\det (mx_of ln n n M)).
Proof. exact cached_root_logdet. Qed.

(* ... end to end on the model: logdet() of a batch of operators that all arrive with a valid cached triangular root, on the
   Cholesky route, is the batch of dense log-determinants - independent of settings, probes and of the matrices' own factors *)
Theorem C05_cached_root_shortcut_logdet : forall (F : rcfType) (ln : F -> F) (eigh : nat -> mat F -> vec F * mat F)
    (S : settings F) (bs : seq nat) (n : nat) (M0 L0 : mat F) (mls : seq (mat F * mat F)) (reduce : bool) (probes : cols F),
  (forall x y, 0 < x -> 0 < y -> ln (x * y) = ln x + ln y) ->
  (~~ s_log_prob S || (n <= s_max_cholesky_size S)%N) ->
  (forall ML, ML \in (M0, L0) :: mls -> root_valid ln n ML.1 ML.2) ->
  leaf_iql (ArR ln) eigh S bs [seq Cached n ML.1 ML.2 | ML <- (M0, L0) :: mls] None true reduce probes
  = ROk (ONone, OVal bs [seq ln (\det (mx_of ln n n ML.1)) | ML <- (M0, L0) :: mls]).
Proof. exact cached_leaf_logdet. Qed.

(* shape_conventions: for every class, batch shape and flag combination, a successful run of the model on a
   leaf batch returns the documented shapes (or None / empty / zero placeholders for what was not asked). *)
Theorem C05_shape_conventions_leaf : forall (F : Type) (A : Arith F) (eigh : nat -> mat F -> vec F * mat F),
  (forall x, aeqb A x x) ->
  forall (S : settings F) (bs : seq nat) (ms : seq (op F)) (R : rhs_in F) (logdet reduce : bool)
         (probes : cols F) (iq ld : out F),
  leaf_iql A eigh S bs ms R logdet reduce probes = ROk (iq, ld) ->
  ok_iq bs R reduce iq /\ ok_ld bs logdet ld.
Proof. exact leaf_shape_conventions. Qed.

(* ... and through the BlockDiag / BlockInterleaved / BatchRepeat wrappers, by induction over any nesting of them
   (tensors without elements are passed on unchanged, as by the numel() guards of the code). *)
Theorem C05_shape_conventions : forall (F : Type) (A : Arith F) (eigh : nat -> mat F -> vec F * mat F),
  (forall x, aeqb A x x) ->
  forall (S : settings F) (o : bop F) (R : rhs_in F) (logdet reduce : bool) (probes : cols F) (iq ld : out F),
  balg A eigh S o R logdet reduce probes = ROk (iq, ld) ->
  ok_iq' (bshape o) R reduce iq /\ ok_ld' (bshape o) logdet ld.
Proof. exact shape_conventions. Qed.

(* non-vacuity of the hypotheses used above *)
Example C05_hyp_satisfiable_trig : is_trig_mx (1%:M : 'M[rat]_3).
Proof. by apply/is_trig_mxP => i j ij; rewrite mxE; case: eqP ij => // ->; rewrite ltnn. Qed.

(* a lower-triangular list matrix with non-zero diagonal; ln_mul is satisfied e.g. by the zero function (and by the real
   logarithm); an orthogonal Q: the identity *)
Example C05_hyp_satisfiable_lower (F : rcfType) (ln : F -> F) :
  lower ln 2 [:: [:: 2; 0]; [:: 1; 3]] /\ diag_nz ln 2 [:: [:: 2; 0]; [:: 1; 3]].
Proof.
split.
- by move=> [|[|i]] [|[|j]] //=.
- by move=> [|[|i]] //= _; rewrite /mget /ModelBase.mget /= ?pnatr_eq0.
Qed.

Example C05_hyp_satisfiable_ln (F : realFieldType) :
  forall x y : F, 0 < x -> 0 < y -> (fun _ : F => 0 : F) (x * y) = (fun _ => 0) x + (fun _ => 0) y.
Proof. by move=> x y _ _; rewrite addr0. Qed.

Example C05_hyp_satisfiable_orth (F : fieldType) (k : nat) : (1%:M : 'M[F]_k.+1)^T *m 1%:M = 1%:M.
Proof. by rewrite trmx1 mulmx1. Qed.

(* chol_ok is satisfiable: the 2 x 2 matrix [[4,2],[2,5]] = L L^T with L = [[2,0],[1,2]]; the model's Cholesky kernel
   computes exactly this L in any real closed field *)
Example C05_hyp_satisfiable_chol_ok (F : rcfType) (ln : F -> F) :
  chol_ok ln 2 [:: [:: 4%:R; 2%:R]; [:: 2%:R; 5%:R]].
Proof.
have s4 : Num.sqrt (4%:R : F) = 2%:R.
  by rewrite -[4%:R]/((2 * 2)%:R) natrM -expr2 sqrtr_sqr ger0_norm ?ler0n.
have cE : cholesky (ArR ln) 2 [:: [:: 4%:R; 2%:R]; [:: 2%:R; 5%:R]] = [:: [:: 2%:R; 0]; [:: 1; 2%:R]] :> mat F.
  rewrite /cholesky /chol_rows /chol_next /chol_row /= /ModelBase.mget /ModelBase.vget /ModelBase.sq /=.
  rewrite !subr0 !add0r s4 divff ?pnatr_eq0 // mul1r.
  have -> : (5%:R - 1 : F) = 4%:R by rewrite -[5%:R]/((4 + 1)%:R) natrD addrK.
  by rewrite s4.
rewrite /chol_ok cE /=; split.
- by move=> [|[|i]] [|[|j]] //=.
- move=> i i2; have [->|->] : i = 0%N \/ i = 1%N by case: i i2 => [|[|i]] //; [left|right].
  + by rewrite /ModelBase.mget /= pnatr_eq0.
  + by rewrite /ModelBase.mget /= pnatr_eq0.
- apply/matrixP => i j; rewrite !mxE !big_ord_recl big_ord0 !mxE /ModelBase.mget /=.
  case: i => [[|[|i]] //= hi]; case: j => [[|[|j]] //= hj]; rewrite ?mulr0 ?mul0r ?addr0 ?add0r ?mulr1 ?mul1r -?natrM //.
Qed.

(* root_valid is satisfiable: the factor above is a valid root of that matrix *)
Example C05_hyp_satisfiable_root_valid (F : rcfType) (ln : F -> F) :
  root_valid ln 2 [:: [:: 4%:R; 2%:R]; [:: 2%:R; 5%:R]] (cholesky (ArR ln) 2 [:: [:: 4%:R; 2%:R]; [:: 2%:R; 5%:R]]).
Proof. exact: C05_hyp_satisfiable_chol_ok. Qed.

(* eigh_ok is satisfiable: the 1 x 1 matrix [[2]] with eigenvalue 2 and eigenvector 1 *)
Example C05_hyp_satisfiable_eigh_ok (F : rcfType) (ln : F -> F) :
  eigh_ok ln (fun _ _ => ([:: 2%:R], [:: [:: 1]])) (1%N, [:: [:: 2%:R]]).
Proof.
rewrite /eigh_ok /=; split => //.
- by rewrite unitmxE unitfE (_ : mx_of ln 1 1 [:: [:: 1]] = 1%:M) ?det1 ?oner_eq0 //; apply/matrixP => i j; rewrite !mxE !ord1.
- by apply/matrixP => i j; rewrite !mxE !big_ord_recl !big_ord0 !mxE !ord1 /ModelBase.mget /= mulr1 mul1r mulr1n !addr0.
- by rewrite ltr0n.
Qed.

(* ============================ batch layouts: BatchRepeat fold / unfold, Block* reshape + sum ============================ *)
(* Index arithmetic on naturals.  Tensors are row-major flat lists with a shape; [flat sh idx] is the flat position of a
   multi-index, [unflat sh i] its inverse; [valid sh idx]: same length and every component below its dimension.
   ModelLayout.v transcribes torch's view / permute(..).contiguous() and, line by line, the code of
   BatchRepeatLinearOperator._move_repeat_batches_to_columns / _move_repeat_batches_back for ANY number k = size rep of batch
   dimensions: rep = batch_repeat, pb = base batch shape (left-padded with 1s), output batch shape (r_i * p_i)_i. *)
Local Close Scope ring_scope.
Local Open Scope nat_scope.

Theorem C05_flat_index_roundtrip : forall (sh : seq nat),
  (forall i, i < prodn sh -> flat sh (unflat sh i) = i) /\
  (forall idx, valid sh idx -> unflat sh (flat sh idx) = idx /\ flat sh idx < prodn sh).
Proof. by move=> sh; split=> [i|idx v]; [exact: flat_unflat | split; [exact: unflat_flat | exact: flat_lt]]. Qed.

(* _move_repeat_batches_to_columns: entry (b_1..b_k, row, j, r_1..r_k) of its result - which the code then views as
   (base batch, n, t * nrep), i.e. column j * nrep + r of base member b - is entry (r_1 p_1 + b_1, .., r_k p_k + b_k, row, j)
   of the input: the repeat index of every batch dimension is interleaved with the base index of THAT dimension. *)
Theorem C05_move_to_columns_denotation : forall (T : Type) (x0 : T) (rep pb : seq nat) (n t : nat) (x : seq T)
    (r b : seq nat) (row j : nat),
  size rep = size pb -> valid rep r -> valid pb b -> row < n -> j < t ->
  nth x0 (move_to_columns x0 rep pb n t x) (flat (pb ++ [:: n; t] ++ rep) (b ++ [:: row; j] ++ r))
  = nth x0 x (flat (repeat_obs rep pb ++ [:: n; t]) (merged r b pb ++ [:: row; j])).
Proof. exact move_to_columns_nth. Qed.

Theorem C05_move_back_denotation : forall (T : Type) (x0 : T) (rep pb : seq nat) (n t : nat) (y : seq T)
    (r b : seq nat) (row j : nat),
  size rep = size pb -> valid rep r -> valid pb b -> row < n -> j < t ->
  nth x0 (move_back x0 rep pb n t y) (flat (repeat_obs rep pb ++ [:: n; t]) (merged r b pb ++ [:: row; j]))
  = nth x0 y (flat (pb ++ [:: n; t] ++ rep) (b ++ [:: row; j] ++ r)).
Proof. exact move_back_nth. Qed.

(* round trip: _move_repeat_batches_back undoes _move_repeat_batches_to_columns, any rank, any sizes (also empty) *)
Theorem C05_move_repeat_roundtrip : forall (T : Type) (x0 : T) (rep pb : seq nat) (n t : nat) (x : seq T),
  size rep = size pb -> size x = prodn (repeat_obs rep pb ++ [:: n; t]) ->
  move_back x0 rep pb n t (move_to_columns x0 rep pb n t x) = x.
Proof. exact move_back_to_columns. Qed.

(* The closed-form index maps the EXECUTABLE model runs in the case shards (Model.v: repeat_member / repeat_rf / repeat_bf,
   repeat_rhs, repeat_iq_vals) are exactly these transcribed pipelines ... *)
Theorem C05_move_to_columns_model : forall (T : Type) (x0 : T) (rep pb : seq nat) (n t : nat) (x : seq T)
    (rf bf row j : nat),
  size rep = size pb -> rf < prodn rep -> bf < prodn pb -> row < n -> j < t ->
  nth x0 (move_to_columns x0 rep pb n t x) ((bf * n + row) * (t * prodn rep) + (j * prodn rep + rf))
  = nth x0 x ((repeat_member rep pb rf bf * n + row) * t + j).
Proof. exact move_to_columns_flat. Qed.

Theorem C05_move_back_model : forall (T : Type) (x0 : T) (rep pb : seq nat) (t : nat) (d : seq T) (of_ j : nat),
  size rep = size pb -> of_ < prodn (repeat_obs rep pb) -> j < t ->
  nth x0 (move_back x0 rep pb 1 t d) (of_ * t + j)
  = nth x0 d (repeat_bf rep pb of_ * (t * prodn rep) + j * prodn rep + repeat_rf rep pb of_).
Proof. exact move_back_flat. Qed.

Theorem C05_repeat_rhs_is_move_to_columns : forall (F : Type) (A : Arith F) (rep pb : seq nat) (n t : nat)
    (Rs : seq (cols F)) (x : seq F),
  size rep = size pb ->
  (forall o row j, o < prodn (repeat_obs rep pb) -> row < n -> j < t ->
     nth (a0 A) x ((o * n + row) * t + j) = vget A (nth [::] (nth [::] Rs o) j) row) ->
  forall bf row c, bf < prodn pb -> row < n -> c < t * prodn rep ->
  nth (a0 A) (move_to_columns (a0 A) rep pb n t x) ((bf * n + row) * (t * prodn rep) + c)
  = vget A (nth [::] (nth [::] (repeat_rhs rep pb t Rs) bf) c) row.
Proof. exact repeat_rhs_is_move_to_columns. Qed.

Theorem C05_repeat_iq_vals_is_move_back : forall (F : Type) (A : Arith F) (rep pb : seq nat) (t : nat) (d : seq F)
    (of_ j : nat),
  size rep = size pb -> of_ < prodn (repeat_obs rep pb) -> j < t ->
  nth (a0 A) (nth [::] (repeat_iq_vals A rep pb t d) of_) j = nth (a0 A) (move_back (a0 A) rep pb 1 t d) (of_ * t + j).
Proof. exact repeat_iq_vals_is_move_back. Qed.

(* ... the three index maps are mutually consistent ... *)
Theorem C05_repeat_index_maps_inverse : forall (rep pb : seq nat) (of_ : nat),
  size rep = size pb -> of_ < prodn (repeat_obs rep pb) ->
  [/\ repeat_member rep pb (repeat_rf rep pb of_) (repeat_bf rep pb of_) = of_,
      repeat_rf rep pb of_ < prodn rep & repeat_bf rep pb of_ < prodn pb].
Proof. exact repeat_member_rf_bf. Qed.

(* ... and DENOTE the right thing, for every batch rank: if the base operator returns, for its member bf and every
   right-hand-side column, a value q bf column depending on that member and column only (diag(R^T A_bf^-1 R)), then entry
   (of_, j) of the BatchRepeat result is q on the tiled member repeat_bf of_ (= multi-index of_ mod base batch shape, the
   semantics of Tensor.repeat and of the dense oracle) and on column j of output member of_'s OWN right-hand side. *)
Theorem C05_brepeat_inv_quad_denotation : forall (F : Type) (A : Arith F) (q : nat -> vec F -> F) (rep pb : seq nat)
    (t : nat) (Rs : seq (cols F)) (d : seq F),
  size rep = size pb ->
  (forall bf c, bf < prodn pb -> c < t * prodn rep ->
     nth (a0 A) d (bf * (t * prodn rep) + c) = q bf (nth [::] (nth [::] (repeat_rhs rep pb t Rs) bf) c)) ->
  forall of_ j, of_ < prodn (repeat_obs rep pb) -> j < t ->
  nth (a0 A) (nth [::] (repeat_iq_vals A rep pb t d) of_) j = q (repeat_bf rep pb of_) (nth [::] (nth [::] Rs of_) j).
Proof. exact brepeat_inv_quad_denotation. Qed.

(* Block* wrappers (reduce_inv_quad = False): entry (g, j) of the result is the sequential sum over the k blocks i of the
   base value on base member g*k+i and on the rows of column j of member g's right-hand side that belong to block i
   (rows i*m .. i*m+m-1: BlockDiag; rows i, i+k, ..: BlockInterleaved); any outer batch, any k. *)
Theorem C05_bblock_inv_quad_denotation : forall (F : Type) (A : Arith F) (q : nat -> vec F -> F) (il : bool)
    (k m t : nat) (Rs : seq (cols F)) (d : seq F),
  (forall g, g < size Rs -> size (nth [::] Rs g) = t) ->
  (forall b j, b < size Rs * k -> j < t ->
     nth (a0 A) d (b * t + j) = q b (nth [::] (nth [::] (block_rhs A il k m Rs) b) j)) ->
  forall g j, g < size Rs -> j < t ->
  nth (a0 A) (block_iq_vals A k t (size Rs) d) (g * t + j)
  = sumn_ A (fun i => q (g * k + i) ((if il then rows_inter A else rows_block A) k m i (nth [::] (nth [::] Rs g) j))) k.
Proof. exact bblock_inv_quad_denotation. Qed.

(* Batch expansion (LinearOperator.expand / _expand_batch, explicit or implicit as a factor of a Kronecker product / summand /
   block next to a batched operand) of a leaf batch, any rank: member o of the expanded batch is the SAME operator - class,
   Cholesky orientation flag and data - as base member (o mod base batch shape); hence it denotes the same matrix, for the
   lower (L L^T) and the upper (R^T R) orientation alike.  This is CholLinearOperator._expand_batch, which forwards
   upper=self.upper; the case shards build expanded batches with this function. *)
Theorem C05_expand_preserves_members : forall (F : Type) (rep pb : seq nat) (ms : seq (op F)) (o : nat),
  o < prodn (repeat_obs rep pb) ->
  nth (Ident 0) (chol_expand_batch rep pb ms) o = nth (Ident 0) ms (repeat_bf rep pb o).
Proof. exact chol_expand_nth. Qed.

Theorem C05_expand_preserves_dense : forall (F : Type) (A : Arith F) (rep pb : seq nat) (ms : seq (op F)) (o : nat),
  o < prodn (repeat_obs rep pb) ->
  dense_of A (nth (Ident 0) (chol_expand_batch rep pb ms) o) = dense_of A (nth (Ident 0) ms (repeat_bf rep pb o)).
Proof. exact chol_expand_dense. Qed.

(* the inherited RootLinearOperator._expand_batch (no upper keyword: seeded regression C05/9) does NOT: an upper factor
   R = [[1,1],[0,1]] expanded to a batch of three denotes R R^T (entry (0,0) = 2) instead of R^T R (entry (0,0) = 1) *)
Theorem C05_root_expand_refuted : forall (F : rcfType) (ln : F -> F),
  mget (ArR ln) (dense_of (ArR ln) (nth (Ident 0) (root_expand_batch [:: 3] [:: 1] [:: Chol true 2 (Rex F)]) 1)) 0 0
  != mget (ArR ln) (dense_of (ArR ln) (nth (Ident 0) (chol_expand_batch [:: 3] [:: 1] [:: Chol true 2 (Rex F)]) 1)) 0 0.
Proof. exact root_expand_refuted. Qed.

(* The regression seeded as C05/1 (all repeat dimensions in front of all base batch dimensions) in this model: identical to
   the code's layout for ONE batch dimension (everything the repo's tests exercise), different for two. *)
Theorem C05_blocked_layout_one_dim : forall (T : Type) (x0 : T) (rep pb : seq nat) (n t : nat) (y : seq T),
  size rep = 1 -> move_back_blocked x0 rep pb n t y = move_back x0 rep pb n t y.
Proof. exact move_back_blocked_one_dim. Qed.

Theorem C05_blocked_layout_refuted :
  move_back_blocked 0 [:: 1; 3] [:: 2; 1] 1 1 (iota 0 6) <> move_back 0 [:: 1; 3] [:: 2; 1] 1 1 (iota 0 6).
Proof. exact move_back_blocked_refuted. Qed.

(* the hypotheses are satisfiable: base batch (2, 1), repeat (1, 3) *)
Example C05_hyp_satisfiable_layout :
  size [:: 1; 3] = size [:: 2; 1] /\ valid [:: 1; 3] [:: 0; 2] /\ valid [:: 2; 1] [:: 1; 0] /\
  repeat_member [:: 1; 3] [:: 2; 1] 2 1 = 5 /\ repeat_bf [:: 1; 3] [:: 2; 1] 5 = 1 /\ repeat_rf [:: 1; 3] [:: 2; 1] 5 = 2.
Proof. by []. Qed.
