(* C05 — executable Gallina model of  LinearOperator.inv_quad_logdet / inv_quad / logdet :
   the routing of linear_operator/operators/_linear_operator.py (Cholesky shortcut vs. InvQuad /
   InvQuadLogdet), the per-class overrides (Chol, Triangular, Diag/ConstantDiag, Identity, Kronecker
   product, KroneckerProductAddedDiag, LowRankRootAddedDiag, BlockDiag / BlockInterleaved, BatchRepeat),
   InvQuad.forward, InvQuadLogdet.forward (linear_cg with n_tridiag, lanczos_tridiag_to_diag,
   StochasticLQ.to_dense, preconditioner log-determinant correction) and the OUTPUT CONVENTIONS
   (None / torch.empty(0) / zero placeholders, shapes under reduce_inv_quad).

   Definitions only; generic over [Arith F] (ModelBase).  Executed on PrimFloat in Check.v.

   What is a parameter of the model (torch / other properties' primitives, by mathematical meaning):
     [eigh]   torch.linalg.eigh of a symmetric matrix: (eigenvalues, matrix whose COLUMNS are the
              eigenvectors).  Executed by cyclic Jacobi in Check.v; the theorems assume V diag(w) V^T = T.
     solves of structured classes (Kronecker._solve, cholesky()._cholesky_solve, the Woodbury closure of
              AddedDiagLinearOperator._preconditioner) are modelled as A^{-1} r through a dense Cholesky
              factorisation; that they act so is the subject of C04 / C10.
     the random draw: the probe vectors are an INPUT of the model (read back from the autograd node).
     the pivoted Cholesky factor L_k of the preconditioner P = L_k L_k^T + D is an input (C10).

   Batches.  A batched operator is its batch shape plus the row-major list of its members, all of the
   same class ([BLeaf]); BlockDiag / BlockInterleaved / BatchRepeat are batch-level wrappers.
   Operator classes without an override (Dense, Sum, Toeplitz, Root, ConstantMul, AddedDiag, ...) take the
   base-class path, which sees the operator only through its dense matrix (C01): [Generic]. *)
From mathcomp Require Import ssreflect ssrfun ssrbool eqtype ssrnat seq div.
Require Import C05.ModelBase C05.ModelCG.
Set Implicit Arguments.
Unset Strict Implicit.
Unset Printing Implicit Defensive.

(* the part of the global settings the code reads *)
Record settings (F : Type) := MkSet {
  s_max_cholesky_size : nat;            (* settings.max_cholesky_size.value() *)
  s_log_prob : bool;                    (* settings.fast_computations.log_prob.on() *)
  s_solves : bool;                      (* settings.fast_computations.solves.on() *)
  s_num_trace_samples : nat;            (* settings.num_trace_samples.value() *)
  s_max_lq_iter : nat;                  (* settings.max_lanczos_quadrature_iterations.value() *)
  s_max_cg_iter : nat;                  (* settings.max_cg_iterations.value() *)
  s_cg_tol : F;                         (* settings.cg_tolerance.value() *)
  s_terminate_by_size : bool;           (* settings.terminate_cg_by_size.on() *)
  s_skip_logdet_forward : bool;         (* settings.skip_logdet_forward.on() *)
  s_max_precond_size : nat;             (* settings.max_preconditioner_size.value() *)
  s_min_precond_size : nat;             (* settings.min_preconditioning_size.value() *)
  (* literals of the code *)
  k_eps : F;                            (* 1e-10  (linear_cg eps and stop_updating_after) *)
  k_tri_thresh : F;                     (* 1e-6   (linear_cg line 326) *)
  k_clamp : F                           (* 1e-7   (Kronecker _logdet clamp) *)
}.

Inductive out (F : Type) :=
  | ONone                               (* Python None *)
  | OEmpty                              (* torch.empty(0) *)
  | OVal (shape : seq nat) (data : seq F).
Arguments ONone {F}.
Arguments OEmpty {F}.

Inductive err := ENoRhsNoLogdet | ENotImplemented | ECG (e : cg_err) | EProbes.
Inductive result (T : Type) := ROk (x : T) | RErr (e : err).
Arguments RErr {T} e.

Section Model.
Variable F : Type.
Variable A : Arith F.
Variable eigh : nat -> mat F -> vec F * mat F.
Notation vec := (vec F).
Notation cols := (cols F).
Notation mat := (mat F).
Notation vget := (vget A).
Notation mget := (mget A).
Notation sumn_ := (sumn_ A).
Notation out := (out F).
Notation settings := (settings F).

(* diagonal part of a KroneckerProductAddedDiagLinearOperator *)
Inductive kdiag :=
  | KConst (c : F)                      (* ConstantDiagLinearOperator *)
  | KDiag (d : vec)                     (* DiagLinearOperator *)
  | KKron (consts : bool) (ds : seq vec). (* KroneckerProductDiagLinearOperator; consts: every factor is a ConstantDiag *)

(* one (non-batch) member *)
Inductive op :=
  | Generic (n : nat) (M : mat) (pc : option (nat * mat * vec))
        (* no override; pc = Some (k, L_k, d): the operator is an AddedDiagLinearOperator whose
           preconditioner (if the settings enable it) is P = L_k L_k^T + diag d *)
  | Diag (d : vec)                      (* DiagLinearOperator, ConstantDiagLinearOperator *)
  | Ident (n : nat)
  | Tri (up : bool) (n : nat) (T : mat)
  | Chol (up : bool) (n : nat) (T : mat)
  | Kron (fs : seq (nat * mat))
  | KPAD (fs : seq (nat * mat)) (dk : kdiag)
  | LRRAD (n k : nat) (U : mat) (d : vec)
  | Exact (n : nat) (M : mat)
        (* classes whose override computes both terms by exact structured solves / eigendecompositions
           (SumKroneckerLinearOperator): modelled by meaning through the dense Cholesky factor; None placeholders *)
  | Cached (n : nat) (M : mat) (L : mat).
        (* a class without an override (as [Generic], no preconditioner) that ARRIVES with a pre-filled cache: its
           "root_decomposition" cache entry holds a lower TriangularLinearOperator root L (transplanted by cat_rows /
           add_low_rank, or left by an earlier root_decomposition() call).  The Cholesky shortcut of inv_quad_logdet
           re-uses exactly such an entry (_is_in_cache_ignore_all_args(self, "root_decomposition") and
           isinstance(root, TriangularLinearOperator)) instead of computing self.cholesky(); a cached root of any
           other class is ignored ([Generic]).  L is an INPUT of the model (read back from the cache before the
           call): nothing in the code checks that L L^T = M. *)

Inductive bop :=
  | BLeaf (bs : seq nat) (ms : seq op)
  | BBlock (interleaved : bool) (base : bop)
  | BRepeat (base : bop) (rep : seq nat).

Definition prodn (s : seq nat) : nat := foldr muln 1 s.

Definition kron_size (fs : seq (nat * mat)) : nat := (kron_mats A fs).1.
Definition kron_dense (fs : seq (nat * mat)) : mat := (kron_mats A fs).2.
Definition kdiag_vec (n : nat) (dk : kdiag) : vec :=
  match dk with
  | KConst c => nseq n c
  | KDiag d => d
  | KKron _ ds => kron_vecs A ds
  end.

Definition op_size (o : op) : nat :=
  match o with
  | Generic n _ _ => n | Diag d => size d | Ident n => n | Tri _ n _ => n | Chol _ n _ => n
  | Kron fs => kron_size fs | KPAD fs _ => kron_size fs | LRRAD n _ _ _ => n | Exact n _ => n
  | Cached n _ _ => n
  end.

(* the dense matrix a member denotes (used by the base-class paths of Kron / KPAD / LRRAD) *)
Definition kpad_dense (fs : seq (nat * mat)) (dk : kdiag) : mat :=
  let n := kron_size fs in madd A n n (kron_dense fs) (diag_mat A n (kdiag_vec n dk)).

(* ------------------------------------------------------------------------------------------ *)
(* routing (inv_quad_logdet, lines 1695-1696; InvQuad._solve)                                   *)
Definition chol_route (S : settings) (n : nat) : bool :=
  ~~ s_log_prob S || (n <= s_max_cholesky_size S).
Definition invquad_chol_solve (S : settings) (n : nat) : bool :=
  [|| ~~ s_solves S, ~~ s_log_prob S | n <= s_max_cholesky_size S].
(* the selector of functions/_solve.py (Solve.forward, used by LinearOperator.solve): it has NO log_prob clause - InvQuad's
   own helper above differs from it exactly when fast_computations.log_prob is off, solves are on and n > max_cholesky_size *)
Definition solve_chol_solve (S : settings) (n : nat) : bool :=
  ~~ s_solves S || (n <= s_max_cholesky_size S).
(* AddedDiagLinearOperator._preconditioner: no preconditioner when
   max_preconditioner_size == 0 or n < min_preconditioning_size *)
Definition use_precond (S : settings) (n : nat) : bool :=
  ~~ ((s_max_precond_size S == 0) || (n < s_min_precond_size S)).

(* ------------------------------------------------------------------------------------------ *)
(* member-level closed forms.  inv_quad values are per rhs COLUMN (before reduce_inv_quad).     *)

(* CholLinearOperator.inv_quad: R = root.solve(rhs) (lower) / root^T.solve(rhs) (upper); (R**2).sum(-2) *)
Definition chol_iq_col (up : bool) (n : nat) (T : mat) (r : vec) : F :=
  let x := if up then tri_solve_t A n true T r else tri_solve A n false T r in
  sumn_ (fun i => sq A (vget x i)) n.
(* CholLinearOperator.inv_quad_logdet: self._chol_diag.pow(2).log().sum(-1) *)
Definition chol_logdet (n : nat) (T : mat) : F := sumn_ (fun i => aln A (sq A (mget T i i))) n.

(* TriangularLinearOperator.inv_quad_logdet *)
Definition tri_iq_col (up : bool) (n : nat) (T : mat) (r : vec) : F :=
  let x := tri_solve A n up T r in sumn_ (fun i => amul A (vget r i) (vget x i)) n.
Definition asign (x : F) : F :=
  if altb A x (a0 A) then aopp A (a1 A) else if altb A (a0 A) x then a1 A else a0 A.
Definition tri_logdet (n : nat) (T : mat) : F :=
  let ld := sumn_ (fun i => aln A (aabs A (mget T i i))) n in
  if altb A (prodn_ A (fun i => asign (mget T i i)) n) (a0 A) then anan A else ld.

(* DiagLinearOperator.inv_quad_logdet: rhs.div(diag).mul(rhs).sum(-2) ; diag.log().sum(-1) *)
Definition diag_iq_col (d : vec) (r : vec) : F :=
  sumn_ (fun i => amul A (adiv A (vget r i) (vget d i)) (vget r i)) (size d).
Definition diag_logdet (d : vec) : F := sumn_ (fun i => aln A (vget d i)) (size d).
(* IdentityLinearOperator.inv_quad_logdet *)
Definition ident_iq_col (n : nat) (r : vec) : F := sumn_ (fun i => amul A (vget r i) (vget r i)) n.

(* exact quadratic form r^T M^{-1} r through the dense Cholesky factor (meaning of the structured solves) *)
Definition dense_iq_col (n : nat) (M : mat) (r : vec) : F := chol_iq_col false n (cholesky A n M) r.
Definition dense_chol_logdet (n : nat) (M : mat) : F := chol_logdet n (cholesky A n M).

(* KroneckerProductLinearOperator._symeig / diagonalization: per-factor eigenvalues (clamp_min(0)),
   Kronecker product of the eigenvalue vectors *)
Definition factor_evals (f : nat * mat) : vec :=
  [seq amax A x (a0 A) | x <- (eigh f.1 f.2).1].
Definition kron_evals (fs : seq (nat * mat)) : vec := kron_vecs A [seq factor_evals f | f <- fs].
(* KroneckerProductLinearOperator._logdet: evals.clamp(min=1e-7).log().sum(-1) *)
Definition kron_logdet (S : settings) (fs : seq (nat * mat)) : F :=
  let ev := kron_evals fs in sumn_ (fun i => aln A (amax A (vget ev i) (k_clamp S))) (size ev).

(* LowRankRootAddedDiagLinearOperator: capacitance matrix  I_k + U^T D^{-1} U  and its Cholesky factor *)
Definition lrrad_cap (n k : nat) (U : mat) (d : vec) : mat :=
  mtab k k (fun a b => aadd A (if a == b then a1 A else a0 A)
                              (sumn_ (fun i => amul A (mget U i a) (amul A (adiv A (a1 A) (vget d i)) (mget U i b))) n)).
Definition lrrad_logdet (n k : nat) (U : mat) (d : vec) : F :=
  let L := cholesky A k (lrrad_cap n k U d) in
  (* 2 * diagonal(chol_cap_mat).log().sum(-1) + diag.logdet() *)
  aadd A (amul A (aadd A (a1 A) (a1 A)) (sumn_ (fun i => aln A (mget L i i)) k)) (diag_logdet d).
(* _solve: A_inv rhs - A_inv U cholesky_solve(U^T A_inv rhs) ; inv_quad = (rhs * solve).sum(-2) *)
Definition lrrad_iq_col (n k : nat) (U : mat) (d : vec) (r : vec) : F :=
  let L := cholesky A k (lrrad_cap n k U d) in
  let dr := vtab n (fun i => amul A (adiv A (a1 A) (vget d i)) (vget r i)) in
  let v := vtab k (fun a => sumn_ (fun i => amul A (mget U i a) (vget dr i)) n) in
  let w := chol_solve A k L v in
  let uw := vtab n (fun i => amul A (adiv A (a1 A) (vget d i)) (sumn_ (fun a => amul A (mget U i a) (vget w a)) k)) in
  sumn_ (fun i => amul A (vget r i) (asub A (vget dr i) (vget uw i))) n.

(* KroneckerProductAddedDiagLinearOperator._logdet, the closed-form branches.
   None = "return super().inv_quad_logdet(logdet=True)[1]" (base-class path on the dense operator). *)
Definition kpad_logdet_closed (S : settings) (fs : seq (nat * mat)) (dk : kdiag) : option F :=
  let n := kron_size fs in
  match dk with
  | KConst c =>
      (* evals + diag ; log ; sum *)
      let ev := kron_evals fs in
      Some (sumn_ (fun i => aln A (aadd A (vget ev i) c)) (size ev))
  | KKron consts ds =>
      if s_max_cholesky_size S <= n then
        if (size fs == size ds) && consts then
          (* |D + K| = |D| |I + D^{-1} K| with D = (x) c_i I :
             diag_term = D.clamp(min=1e-7).log().sum ; first_term = ((x) evals_i / c_i + 1).log().sum
             (SPECIFIED behaviour; the pinned code raises AttributeError here and multiplies instead of
              dividing: known finding C05-kpad-kronconst-logdet) *)
          let dv := kron_vecs A ds in
          let diag_term := sumn_ (fun i => aln A (amax A (vget dv i) (k_clamp S))) (size dv) in
          let sev := kron_vecs A [seq [seq adiv A x (vget fd.2 0) | x <- factor_evals fd.1] | fd <- zip fs ds] in
          Some (aadd A diag_term (sumn_ (fun i => aln A (aadd A (vget sev i) (a1 A))) (size sev)))
        else
          (* _symmetrize_kpadlt_constructor: factors D_i^{-1/2} K_i D_i^{-1/2}, eigenvalues + 1 *)
          let sfs := [seq (fd.1.1, mtab fd.1.1 fd.1.1 (fun i j =>
                         amul A (amul A (adiv A (a1 A) (asqrt A (vget fd.2 i))) (mget fd.1.2 i j))
                                (adiv A (a1 A) (asqrt A (vget fd.2 j))))) | fd <- zip fs ds] in
          let ev := kron_evals sfs in
          Some (aadd A (diag_logdet (kron_vecs A ds))
                       (sumn_ (fun i => aln A (aadd A (vget ev i) (a1 A))) (size ev)))
      else None
  | KDiag _ => None
  end.

(* ------------------------------------------------------------------------------------------ *)
(* StochasticLQ / lanczos_tridiag_to_diag                                                       *)

(* lanczos_tridiag_to_diag: eigh, then  mask = evals >= 0; evecs * mask (columns); evals[~mask] = 1 *)
Definition tridiag_to_diag (k : nat) (T : mat) : vec * mat :=
  let '(w, V) := eigh k T in
  let mask := [seq aleb A (a0 A) x | x <- w] in
  ([seq if aleb A (a0 A) x then x else a1 A | x <- w],
   mtab k k (fun i j => if nth false mask j then mget V i j else a0 A)).

(* StochasticLQ.to_dense for one batch member and funcs = [log]:
   sum over probes j of  n / m * sum_k evecs_j[0, k]^2 * log(evals_j[k])   (accumulated probe by probe) *)
Definition slq_probe (ev : vec * mat) : F :=
  sumn_ (fun k => amul A (sq A (mget ev.2 0 k)) (aln A (vget ev.1 k))) (size ev.1).
Definition slq_to_dense (n : nat) (evs : seq (vec * mat)) : F :=
  let m := size evs in
  foldl (fun acc ev => aadd A acc (amul A (adiv A (ofnat A n) (ofnat A m)) (slq_probe ev))) (a0 A) evs.

(* ------------------------------------------------------------------------------------------ *)
(* the base-class paths on a batch of dense members                                            *)

Definition rhs_in := option (bool * seq cols).   (* (inv_quad_rhs.ndim == 1, columns per member) *)
Definition rhs_ncols (R : rhs_in) : nat := if R is Some (_, Rs) then size (head [::] Rs) else 0.

Definition mk_iq (bs : seq nat) (t : nat) (reduce : bool) (vals : seq (seq F)) : out :=
  if reduce then OVal bs [seq sumv A v | v <- vals] else OVal (bs ++ [:: t]) (flatten vals).

Definition zeros (k : nat) : seq F := nseq k (a0 A).

(* preconditioner of member (n, M, pc): closure P^{-1}, log|P| *)
Definition precond_mat (n : nat) (pc : nat * mat * vec) : mat :=
  let '(k, L, d) := pc in
  mtab n n (fun i j => aadd A (sumn_ (fun a => amul A (mget L i a) (mget L j a)) k)
                              (if i == j then vget d i else a0 A)).

Record gmember := MkG { g_n : nat; g_M : mat; g_pc : option (nat * mat * vec);
                        g_root : option mat (* cached lower-triangular root_decomposition entry, if any *) }.
(* the factor the Cholesky shortcut hands to CholLinearOperator: the cached triangular root if there is one
   (will_need_cholesky = False), else TriangularLinearOperator(self.cholesky()) *)
Definition shortcut_root (n : nat) (g : gmember) : mat :=
  if g_root g is Some L then L else cholesky A n (g_M g).

Definition cg_settings_of (S : settings) : cg_settings F :=
  MkSettings (s_max_cg_iter S) (s_max_lq_iter S) (s_cg_tol S) (s_terminate_by_size S) (k_tri_thresh S).

Definition member_precond (S : settings) (g : gmember) : option mat :=
  if g_pc g is Some pc then
    if use_precond S (g_n g) then Some (cholesky A (g_n g) (precond_mat (g_n g) pc)) else None
  else None.

(* LinearOperator._solve = linear_cg(self._matmul, rhs, n_tridiag, max_iter=max_cg_iterations,
   max_tridiag_iter=max_lanczos_quadrature_iterations, preconditioner) on the flat columns of all members *)
Definition run_cg (S : settings) (n nc : nat) (gs : seq gmember) (X : cols) (n_tridiag : nat) : res (cg_output F) :=
  let Ms := [seq g_M g | g <- gs] in
  let Ps := [seq member_precond S g | g <- gs] in
  let pre := if head None Ps is Some _ then
               Some (fun Y : cols => mkseq (fun j => let P := nth None Ps (j %/ nc) in
                                        if P is Some L then chol_solve A n L (nth [::] Y j) else nth [::] Y j) (size Y))
             else None in
  linear_cg A (cg_settings_of S)
    (MkArgs (ClTensor Ms) n nc false X n_tridiag None (k_eps S) (k_eps S)
            (Some (s_max_cg_iter S)) (Some (s_max_lq_iter S)) None pre).

(* InvQuad.forward (functions/_inv_quad.py): Cholesky solve or linear_cg solve; (solves * rhs).sum(-2) *)
Definition invquad_forward (S : settings) (n : nat) (gs : seq gmember) (Rs : seq cols) : result (seq (seq F)) :=
  let t := size (head [::] Rs) in
  if invquad_chol_solve S n then
    ROk [seq [seq dense_iq_col n (g_M gr.1) r | r <- gr.2] | gr <- zip gs Rs]
  else
    match run_cg S n t gs (flatten Rs) 0 with
    | Err e => RErr (ECG e)
    | Ok o =>
        ROk (mkseq (fun b => mkseq (fun j =>
               let x := nth [::] (o_res o) (b * t + j) in
               let r := nth [::] (nth [::] Rs b) j in
               sumn_ (fun i => amul A (vget x i) (vget r i)) n) t) (size gs))
    end.

Definition is_nanb (x : F) : bool := ~~ aeqb A x x.

(* InvQuadLogdet.forward + the tail of inv_quad_logdet (lines 1752-1787).
   probes: |batch| * m flat columns (member-major), the unit-norm probe vectors the run drew. *)
Definition iql_forward (S : settings) (bs : seq nat) (n : nat) (gs : seq gmember) (R : rhs_in)
           (reduce : bool) (probes : cols) : result (out * out) :=
  let B := size gs in
  let m := s_num_trace_samples S in
  if size probes != B * m then RErr EProbes else
  let t := rhs_ncols R in
  let Rs := if R is Some (_, Rs) then Rs else nseq B [::] in
  let nc := m + t in
  (* rhs = cat([probe_vectors, inv_quad_rhs], -1) *)
  let X := flatten (mkseq (fun b => take m (drop (b * m) probes) ++ nth [::] Rs b) B) in
  match run_cg S n nc gs X m with
  | Err e => RErr (ECG e)
  | Ok o =>
    let Ps := [seq member_precond S g | g <- gs] in
    let has_p := if head None Ps is Some _ then true else false in
    (* logdet_p = log|P| per member (0.0 without a preconditioner) *)
    let logdet_p := [seq if P is Some L then chol_logdet n L else a0 A | P <- Ps] in
    let tm := odflt [::] (o_tmat o) in
    let ld :=
      if s_skip_logdet_forward S then OVal bs [seq aadd A (a0 A) p | p <- logdet_p]
      else if has (fun T : mat => has (has is_nanb) T) tm then
        (* torch.tensor(nan) + logdet_p *)
        (if has_p then OVal bs [seq aadd A (anan A) p | p <- logdet_p] else OVal [::] [:: aadd A (anan A) (a0 A)])
      else
        OVal bs (mkseq (fun b =>
          let Ts := take m (drop (b * m) tm) in
          aadd A (slq_to_dense n [seq tridiag_to_diag (size T) T | T <- Ts]) (nth (a0 A) logdet_p b)) B) in
    let iq :=
      if R is Some _ then
        mk_iq bs t reduce (mkseq (fun b => mkseq (fun j =>
               let x := nth [::] (o_res o) (b * nc + m + j) in
               let r := nth [::] (nth [::] Rs b) j in
               sumn_ (fun i => amul A (vget x i) (vget r i)) n) t) B)
      else
        (* torch.zeros(batch_shape); "if inv_quad_term.numel() and reduce_inv_quad: .sum(-1)" *)
        (if reduce && (0 < B) then OVal (belast (head 0 bs) (behead bs)) (zeros (prodn (belast (head 0 bs) (behead bs))))
         else OVal bs (zeros B)) in
    ROk (iq, ld)
  end.

(* CholLinearOperator.inv_quad_logdet on per-member factors: None placeholders *)
Definition chol_iql (bs : seq nat) (fs : seq (bool * nat * mat)) (R : rhs_in) (logdet reduce : bool) : out * out :=
  let t := rhs_ncols R in
  ((if R is Some (_, Rs) then
      mk_iq bs t reduce [seq [seq chol_iq_col fr.1.1.1 fr.1.1.2 fr.1.2 r | r <- fr.2] | fr <- zip fs Rs]
    else ONone),
   (if logdet then OVal bs [seq chol_logdet f.1.2 f.2 | f <- fs] else ONone)).

(* LinearOperator.inv_quad_logdet (the base class), on a batch of dense members *)
Definition generic_iql (S : settings) (bs : seq nat) (n : nat) (gs : seq gmember) (R : rhs_in)
           (logdet reduce : bool) (probes : cols) : result (out * out) :=
  if chol_route S n then
    (* CholLinearOperator(root).inv_quad_logdet(...), root = the cached triangular root_decomposition entry if the
       cache holds one, else TriangularLinearOperator(self.cholesky()) *)
    ROk (chol_iql bs [seq (false, n, shortcut_root n g) | g <- gs] R logdet reduce)
  else if ~~ logdet then
    match R with
    | None => RErr ENoRhsNoLogdet
    | Some (_, Rs) =>
        (* self.inv_quad(rhs, reduce), torch.zeros([]) *)
        match invquad_forward S n gs Rs with
        | RErr e => RErr e
        | ROk vals => ROk (mk_iq bs (rhs_ncols R) reduce vals, OVal [::] [:: a0 A])
        end
    end
  else iql_forward S bs n gs R reduce probes.

(* ------------------------------------------------------------------------------------------ *)
(* per-class dispatch on a leaf batch (all members of the class of the first one)               *)

Definition gmember_of (o : op) : gmember :=
  match o with
  | Generic n M pc => MkG n M pc None
  | Cached n M L => MkG n M None (Some L)
  | Kron fs => MkG (kron_size fs) (kron_dense fs) None None
  | KPAD fs dk => MkG (kron_size fs) (kpad_dense fs dk) None None
  | _ => MkG 0 [::] None None
  end.

Definition map_rhs (f : op -> vec -> F) (ms : seq op) (Rs : seq cols) : seq (seq F) :=
  [seq [seq f orr.1 r | r <- orr.2] | orr <- zip ms Rs].

(* conventions with torch.empty(0) placeholders (Diag / Identity / Triangular) *)
Definition empty_conv (bs : seq nat) (ms : seq op) (R : rhs_in) (logdet reduce : bool)
           (vec_scalar : bool) (iqf : op -> vec -> F) (ldf : op -> F) : out * out :=
  ((if R is Some (isv, Rs) then
      (if isv && vec_scalar then OVal bs [seq sumv A v | v <- map_rhs iqf ms Rs]
       else mk_iq bs (rhs_ncols R) reduce (map_rhs iqf ms Rs))
    else OEmpty),
   (if logdet then OVal bs [seq ldf o | o <- ms] else OEmpty)).

(* KroneckerProductAddedDiagLinearOperator.inv_quad_logdet.
   inv_quad part: super().inv_quad_logdet(rhs, logdet=False).  The Kronecker / constant-diagonal _solve overrides
   are exact; with a plain DiagLinearOperator the solve is LinearOperator._solve (CG without preconditioner) *)
Definition kpad_iq (S : settings) (bs : seq nat) (n : nat) (gs : seq gmember) (dk0 : kdiag) (R : rhs_in)
           (reduce : bool) : result out :=
  let exact_solve := match dk0 with KDiag _ => false | _ => true end in
  match R with
  | None => ROk ONone
  | Some (_, Rs) =>
      if chol_route S n || exact_solve then
        ROk (mk_iq bs (rhs_ncols R) reduce [seq [seq dense_iq_col n (g_M gr.1) r | r <- gr.2] | gr <- zip gs Rs])
      else
        match invquad_forward S n gs Rs with
        | RErr e => RErr e
        | ROk vals => ROk (mk_iq bs (rhs_ncols R) reduce vals)
        end
  end.
(* logdet part: self._logdet() *)
Definition kpad_finish (S : settings) (bs : seq nat) (n : nat) (ms : seq op) (gs : seq gmember)
           (fs0 : seq (nat * mat)) (dk0 : kdiag) (logdet : bool) (probes : cols) (iq : out) : result (out * out) :=
  if ~~ logdet then ROk (iq, ONone) else
  match kpad_logdet_closed S fs0 dk0 with
  | Some _ =>
      ROk (iq, OVal bs [seq (if o is KPAD fs dk then odflt (a0 A) (kpad_logdet_closed S fs dk) else a0 A) | o <- ms])
  | None =>
      (* super().inv_quad_logdet(logdet=True)[1] *)
      match generic_iql S bs n gs None true true probes with
      | ROk (_, ld) => ROk (iq, ld)
      | RErr e => RErr e
      end
  end.

Definition leaf_iql (S : settings) (bs : seq nat) (ms : seq op) (R : rhs_in) (logdet reduce : bool)
           (probes : cols) : result (out * out) :=
  let n := op_size (head (Ident 0) ms) in
  match head (Ident 0) ms with
  | Generic _ _ _ => generic_iql S bs n [seq gmember_of o | o <- ms] R logdet reduce probes
  | Cached _ _ _ => generic_iql S bs n [seq gmember_of o | o <- ms] R logdet reduce probes
  | Diag _ =>
      ROk (empty_conv bs ms R logdet reduce true
             (fun o r => if o is Diag d then diag_iq_col d r else a0 A)
             (fun o => if o is Diag d then diag_logdet d else a0 A))
  | Ident _ =>
      ROk (empty_conv bs ms R logdet reduce true
             (fun o r => if o is Ident k then ident_iq_col k r else a0 A)
             (fun o => a0 A))
  | Tri _ _ _ =>
      ROk (empty_conv bs ms R logdet reduce false
             (fun o r => if o is Tri up k T then tri_iq_col up k T r else a0 A)
             (fun o => if o is Tri up k T then tri_logdet k T else a0 A))
  | Chol _ _ _ =>
      ROk (chol_iql bs [seq (if o is Chol up k T then (up, k, T) else (false, 0, [::])) | o <- ms] R logdet reduce)
  | Kron _ =>
      (* inv_quad through super().inv_quad_logdet(rhs, logdet=False): every branch is an exact solve;
         logdet = self._logdet() ; missing terms are None *)
      let iq := match R with
                | None => ROk ONone
                | Some _ =>
                    match generic_iql S bs n [seq gmember_of o | o <- ms] R false reduce [::] with
                    | ROk (iq, _) => ROk iq
                    | RErr e => RErr e
                    end
                end in
      match iq with
      | RErr e => RErr e
      | ROk iq =>
          ROk (iq, if logdet then OVal bs [seq (if o is Kron fs then kron_logdet S fs else a0 A) | o <- ms] else ONone)
      end
  | KPAD fs0 dk0 =>
      match kpad_iq S bs n [seq gmember_of o | o <- ms] dk0 R reduce with
      | RErr e => RErr e
      | ROk iq => kpad_finish S bs n ms [seq gmember_of o | o <- ms] fs0 dk0 logdet probes iq
      end
  | LRRAD _ _ _ _ =>
      ROk ((if R is Some (_, Rs) then
              mk_iq bs (rhs_ncols R) reduce
                    (map_rhs (fun o r => if o is LRRAD k1 k2 U d then lrrad_iq_col k1 k2 U d r else a0 A) ms Rs)
            else ONone),
           (if logdet then OVal bs [seq (if o is LRRAD k1 k2 U d then lrrad_logdet k1 k2 U d else a0 A) | o <- ms]
            else ONone))
  | Exact _ _ =>
      ROk ((if R is Some (_, Rs) then
              mk_iq bs (rhs_ncols R) reduce
                    (map_rhs (fun o r => if o is Exact k M then dense_iq_col k M r else a0 A) ms Rs)
            else ONone),
           (if logdet then OVal bs [seq (if o is Exact k M then dense_chol_logdet k M else a0 A) | o <- ms]
            else ONone))
  end.

(* ------------------------------------------------------------------------------------------ *)
(* batch-level wrappers                                                                        *)

Fixpoint bshape (o : bop) : seq nat :=
  match o with
  | BLeaf bs _ => bs
  | BBlock _ base => belast (head 0 (bshape base)) (behead (bshape base))
  | BRepeat base rep =>
      let bb := bshape base in
      let pb := nseq (size rep - size bb) 1 ++ bb in
      [seq rb.1 * rb.2 | rb <- zip rep pb]
  end.
Fixpoint bsize (o : bop) : nat :=
  match o with
  | BLeaf _ ms => op_size (head (Ident 0) ms)
  | BBlock _ base => last 1 (bshape base) * bsize base
  | BRepeat base _ => bsize base
  end.

(* rows of a column *)
Definition rows_block (k m i : nat) (r : vec) : vec := vtab m (fun a => vget r (i * m + a)).     (* BlockDiag._add_batch_dim *)
Definition rows_inter (k m i : nat) (r : vec) : vec := vtab m (fun a => vget r (a * k + i)).     (* BlockInterleaved._add_batch_dim *)

(* sum groups of k consecutive entries / vectors *)
Definition sum_groups (k : nat) (v : seq F) : seq F :=
  mkseq (fun g => sumn_ (fun i => nth (a0 A) v (g * k + i)) k) (size v %/ k).

Definition out_numel (o : out) : nat := if o is OVal _ d then size d else 0.

(* flat index decomposition for BatchRepeat: output member o -> (repeat index, base member) *)
Fixpoint unflat (shape : seq nat) (i : nat) : seq nat :=
  if shape is d :: r then (i %/ prodn r) %% d :: unflat r i else [::].
Fixpoint flat (shape idx : seq nat) : nat :=
  match shape, idx with
  | d :: r, x :: xs => x * prodn r + flat r xs
  | _, _ => 0
  end.

(* BatchRepeat index maps, any number k of batch dimensions.  rep = batch_repeat, pb = base batch shape left-padded with 1s
   to the length of rep; the output batch shape is obs = [r_i * pb_i].  Row-major flat member indices:
     rf : repeat index  (flat over rep),  bf : base member (flat over pb),  of_ : output member (flat over obs).
   [repeat_member rf bf] is the output member with multi-index (r_i * pb_i + b_i)_i -- the element that the
   view / permute / view of _move_repeat_batches_to_columns places in base member bf at column block rf
   (transcription of the code and the proof of this reading: ModelLayout.v / ProofsLayout.v). *)
Definition repeat_obs (rep pb : seq nat) : seq nat := [seq rb.1 * rb.2 | rb <- zip rep pb].
Definition repeat_member (rep pb : seq nat) (rf bf : nat) : nat :=
  flat (repeat_obs rep pb) [seq x.1.1 * x.2 + x.1.2 | x <- zip (zip (unflat rep rf) (unflat pb bf)) pb].
Definition repeat_rf (rep pb : seq nat) (of_ : nat) : nat :=
  flat rep [seq x.1 %/ x.2 | x <- zip (unflat (repeat_obs rep pb) of_) pb].
Definition repeat_bf (rep pb : seq nat) (of_ : nat) : nat :=
  flat pb [seq x.1 %% x.2 | x <- zip (unflat (repeat_obs rep pb) of_) pb].
(* _move_repeat_batches_to_columns on the right-hand side (t columns per output member):
   base member bf gets t * nrep columns, column j * nrep + rf = column j of output member (rf, bf) *)
Definition repeat_rhs (rep pb : seq nat) (t : nat) (Rs : seq cols) : seq cols :=
  mkseq (fun bf => flatten (mkseq (fun j => mkseq (fun rf => nth [::] (nth [::] Rs (repeat_member rep pb rf bf)) j)
                                                  (prodn rep)) t)) (prodn pb).
(* inv_quad_term.view(.., -1, 1, nrep) ; _move_repeat_batches_back(.., output_shape[-2] = 1).squeeze(-2):
   value (of_, j) = base value (bf, j * nrep + rf) *)
Definition repeat_iq_vals (rep pb : seq nat) (t : nat) (d : seq F) : seq (seq F) :=
  mkseq (fun of_ => mkseq (fun j => nth (a0 A) d (repeat_bf rep pb of_ * (t * prodn rep) + j * prodn rep
                                                   + repeat_rf rep pb of_)) t)
        (prodn (repeat_obs rep pb)).

(* LinearOperator.expand / _expand_batch on a leaf batch (rep_i = expanded size / base size, pb = base batch shape left-padded
   with 1s): member o of the expanded batch is base member (o mod base batch shape) - the broadcasting of Tensor.expand.
   What happens to the member's ATTRIBUTES is per class:
     CholLinearOperator._expand_batch:  self.__class__(self.root._expand_batch(batch_shape), upper=self.upper)   - keeps upper
     RootLinearOperator._expand_batch:  self.__class__(self.root._expand_batch(batch_shape))                     - what a Chol
        operator WITHOUT the override would inherit: the keyword falls back to upper=False while the root stays upper *)
Definition expand_members (rep pb : seq nat) (ms : seq op) : seq op :=
  mkseq (fun o => nth (Ident 0) ms (repeat_bf rep pb o)) (prodn (repeat_obs rep pb)).
Definition chol_expand_batch (rep pb : seq nat) (ms : seq op) : seq op :=
  [seq (if o is Chol up n T then Chol up n T else o) | o <- expand_members rep pb ms].
Definition root_expand_batch (rep pb : seq nat) (ms : seq op) : seq op :=
  [seq (if o is Chol up n T then Chol false n T else o) | o <- expand_members rep pb ms].

(* Block wrappers: _add_batch_dim on the rhs (member g -> members g*k .. g*k+k-1) and the sum over the block dimension *)
Definition block_rhs (il : bool) (k m : nat) (Rs : seq cols) : seq cols :=
  flatten [seq mkseq (fun i => [seq (if il then rows_inter else rows_block) k m i r | r <- Rb]) k | Rb <- Rs].
Definition block_iq_vals (k t nout : nat) (d : seq F) : seq F :=
  flatten (mkseq (fun g => mkseq (fun j => sumn_ (fun i => nth (a0 A) d ((g * k + i) * t + j)) k) t) nout).

Fixpoint balg (S : settings) (o : bop) (R : rhs_in) (logdet reduce : bool) (probes : cols)
  : result (out * out) :=
  match o with
  | BLeaf bs ms => leaf_iql S bs ms R logdet reduce probes
  | BBlock il base =>
      let bb := bshape base in
      let k := last 1 bb in
      let m := bsize base in
      let bs := belast (head 0 bb) (behead bb) in
      let R' := if R is Some (isv, Rs) then
                  Some (isv, block_rhs il k m Rs)
                else None in
      match balg S base R' logdet reduce probes with
      | RErr e => RErr e
      | ROk (iq, ld) =>
          let t := rhs_ncols R in
          let iq' :=
            match iq with
            | OVal _ d =>
                if d is [::] then iq else
                if R is Some _ then
                  if reduce then OVal bs (sum_groups k d)                       (* view( *base.batch_shape).sum(-1) *)
                  else OVal (bs ++ [:: t])                                         (* view( *base.batch_shape, t).sum(-2) *)
                         (block_iq_vals k t (prodn bs) d)
                else OVal bs (zeros (prodn bs))   (* SPECIFIED placeholder; pinned code: view error (C05-block-cg-norhs) *)
            | _ => iq
            end in
          let ld' :=
            match ld with
            | OVal sh d =>
                if d is [::] then ld else
                if sh is [::] then ld       (* the 0-d zero of the CG route with logdet=False.  SPECIFIED: passed on;
                                               pinned code: view() TypeError (C05-block-cg-nologdet) *)
                else OVal (belast (head 0 sh) (behead sh)) (sum_groups (last 1 sh) d)      (* .sum(-1) *)
            | _ => ld
            end in
          ROk (iq', ld')
      end
  | BRepeat base rep =>
      let bb := bshape base in
      let pb := nseq (size rep - size bb) 1 ++ bb in
      let obs := repeat_obs rep pb in
      let t := rhs_ncols R in
      (* _move_repeat_batches_to_columns *)
      let R' := if R is Some (isv, Rs) then Some (isv, repeat_rhs rep pb t Rs) else None in
      match balg S base R' logdet false probes with
      | RErr e => RErr e
      | ROk (iq, ld) =>
          let iq' :=
            match iq with
            | OVal _ d =>
                if d is [::] then iq else
                if R is Some _ then
                  mk_iq obs t reduce (repeat_iq_vals rep pb t d)
                else OVal obs (zeros (prodn obs))  (* SPECIFIED placeholder; pinned code: view error (C05-repeat-cg-norhs) *)
            | _ => iq
            end in
          let ld' :=
            match ld with
            | OVal sh d =>
                if d is [::] then ld else
                (* logdet_term.repeat( *batch_repeat): also applied to the 0-d zero returned when logdet=False *)
                let psh := nseq (size rep - size sh) 1 ++ sh in
                let rsh := repeat_obs rep psh in
                OVal rsh (mkseq (fun of_ => nth (a0 A) d (repeat_bf rep psh of_)) (prodn rsh))
            | _ => ld
            end in
          ROk (iq', ld')
      end
  end.

(* the dense matrix a member denotes (meaning of the exact solves behind LinearOperator.inv_quad) *)
Definition dense_of (o : op) : mat :=
  match o with
  | Generic _ M _ => M
  | Diag d => diag_mat A (size d) d
  | Ident n => eye A n
  | Tri _ _ T => T
  | Chol up n T => if up then mmul A n n n (mtr A n T) T else mmul A n n n T (mtr A n T)
  | Kron fs => kron_dense fs
  | KPAD fs dk => kpad_dense fs dk
  | LRRAD n k U d => madd A n n (mtab n n (fun i j => sumn_ (fun a => amul A (mget U i a) (mget U j a)) k)) (diag_mat A n d)
  | Exact _ M => M
  | Cached _ M _ => M
  end.

(* LinearOperator.inv_quad on a leaf batch: InvQuad.apply (Cholesky solve, or the class's _solve: linear_cg for the classes
   without a structured _solve, an exact structured solve otherwise), then .sum(-1) if reduce_inv_quad.
   CholLinearOperator overrides inv_quad. *)
Definition leaf_inv_quad (S : settings) (bs : seq nat) (ms : seq op) (R : bool * seq cols) (reduce : bool) : result out :=
  let n := op_size (head (Ident 0) ms) in
  let t := size (head [::] R.2) in
  match head (Ident 0) ms with
  | Chol _ _ _ =>
      ROk (chol_iql bs [seq (if o is Chol up k T then (up, k, T) else (false, 0, [::])) | o <- ms] (Some R) false reduce).1
  | hd =>
      (* InvQuad uses self.cholesky() / self._solve: a cached root_decomposition entry plays no role here *)
      let cg_class := match hd with Generic _ _ _ => true | Cached _ _ _ => true | KPAD _ (KDiag _) => true | _ => false end in
      let gs := [seq MkG n (dense_of o) (if o is Generic _ _ pc then pc else None) None | o <- ms] in
      if cg_class then
        match invquad_forward S n gs R.2 with
        | RErr e => RErr e
        | ROk vals => ROk (mk_iq bs t reduce vals)
        end
      else ROk (mk_iq bs t reduce [seq [seq dense_iq_col n (g_M gr.1) r | r <- gr.2] | gr <- zip gs R.2])
  end.

(* the three public entry points *)
Definition inv_quad_logdet := balg.
Definition inv_quad (S : settings) (o : bop) (R : bool * seq cols) (reduce : bool) : result out :=
  match o with
  | BLeaf bs ms => leaf_inv_quad S bs ms R reduce
  | _ => RErr ENotImplemented      (* wrappers: covered by the direct predicate only *)
  end.
(* LinearOperator.logdet:  _, res = self.inv_quad_logdet(inv_quad_rhs=None, logdet=True) *)
Definition logdet (S : settings) (o : bop) (probes : cols) : result out :=
  match balg S o None true true probes with ROk (_, ld) => ROk ld | RErr e => RErr e end.

End Model.
Arguments Ident {F} n.
