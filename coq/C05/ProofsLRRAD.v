(* C05 — LowRankRootAddedDiagLinearOperator: the model's capacitance matrix and log-determinant, end to end. *)
From mathcomp Require Import all_ssreflect all_fingroup all_algebra.
Require Import C05.ModelBase C05.ModelCG C05.Model C05.ProofsAlg C05.ProofsLog C05.ProofsBridge.
Set Implicit Arguments. Unset Strict Implicit. Unset Printing Implicit Defensive.
Import Order.TTheory GRing.Theory Num.Theory.
Local Open Scope ring_scope.

Section LRRAD.
Variable F : rcfType.
Variable ln : F -> F.
Notation ArR := (ArR ln).
Notation vget := (vget ArR).
Notation mget := (mget ArR).
Notation mx_of := (mx_of ln).
Notation cv_of := (cv_of ln).

Lemma mget_mtab m n (f : nat -> nat -> F) i j : (i < m)%N -> (j < n)%N -> mget (mtab m n f) i j = f i j.
Proof. by move=> im jn; rewrite /ModelBase.mget /mtab (nth_mkseq _ _ im) (nth_mkseq _ _ jn). Qed.

Lemma invmx_diag n (d : 'rV[F]_n) : (forall i, d 0 i != 0) -> invmx (diag_mx d) = diag_mx (\row_i (d 0 i)^-1).
Proof.
move=> nz.
have ud : diag_mx d \in unitmx by rewrite unitmxE det_diag unitfE; apply/prodf_neq0 => i _.
rewrite -[RHS]mul1mx -(mulVmx ud) -mulmxA mulmx_diag.
have -> : diag_mx (\row_i (d 0 i * (\row_i0 (d 0 i0)^-1) 0 i)) = 1%:M.
  apply/matrixP => i k; rewrite !mxE; case: (i == k) => //; rewrite ?mulr0n // mulr1n.
  by rewrite mulfV.
by rewrite mulmx1.
Qed.

(* the capacitance matrix of the model is  I + U^T D^-1 U *)
Lemma lrrad_cap_mx n k U (d : vec F) : (forall i, (i < n)%N -> vget d i != 0) ->
  mx_of k k (lrrad_cap ArR n k U d) =
  1%:M + (mx_of n k U)^T *m invmx (diag_mx (cv_of n d)^T) *m mx_of n k U.
Proof.
move=> nz; rewrite invmx_diag; last by move=> i; rewrite !mxE nz.
apply/matrixP => a b; rewrite mxE mget_mtab // [RHS]mxE sumn_big.
congr (_ + _).
  by rewrite mxE -val_eqE /=; case: (val a == val b).
rewrite -mulmxA mxE; apply: eq_bigr => i _.
by rewrite mul_diag_mx !mxE /= div1r mulrA.
Qed.

(* _logdet: 2 sum log diag(chol(cap)) + sum log d  =  ln det (D + U U^T)   (matrix determinant lemma) *)
Lemma lrrad_logdet_correct n k U (d : vec F) :
  (forall x y, 0 < x -> 0 < y -> ln (x * y) = ln x + ln y) ->
  size d = n -> (forall i, (i < n)%N -> 0 < vget d i) ->
  chol_ok ln k (lrrad_cap ArR n k U d) ->
  (forall i, (i < k)%N -> 0 < mget (cholesky ArR k (lrrad_cap ArR n k U d)) i i) ->
  lrrad_logdet ArR n k U d = ln (\det (diag_mx (cv_of n d)^T + mx_of n k U *m (mx_of n k U)^T)).
Proof.
move=> ln_mul sd dpos [lo nz E] Lpos.
have dnz i : (i < n)%N -> vget d i != 0 by move=> /dpos /lt0r_neq0.
set D := diag_mx _.
have uD : D \in unitmx.
  by rewrite unitmxE det_diag unitfE; apply/prodf_neq0 => i _; rewrite !mxE dnz.
have detD : 0 < \det D by rewrite det_diag prodr_gt0 // => i _; rewrite !mxE dpos.
have capE := lrrad_cap_mx k U dnz.
have detC : 0 < \det (1%:M + (mx_of n k U)^T *m invmx D *m mx_of n k U).
  rewrite -capE -E det_mulmx det_tr -expr2 exprn_even_gt0 //=.
  rewrite -mxf_mget (det_trig (lowerf_trig lo)); apply/prodf_neq0 => i _; by rewrite mxE nz.
rewrite (logdet_lemma ln_mul uD detD detC) -capE -E -(chol_logdet_correct ln_mul lo nz).
rewrite /lrrad_logdet /= /diag_logdet sd; congr (_ + _).
  rewrite chol_logdet_sum !sumn_big mulr_sumr; apply: eq_bigr => i _.
  by rewrite mxE expr2 ln_mul ?Lpos // mulrDl mul1r.
rewrite sumn_big -(logdet_diag ln_mul); last by move=> i; rewrite !mxE dpos.
by apply: eq_bigr => i _; rewrite !mxE.
Qed.
End LRRAD.
