(* C05 — batch expansion of leaf operators: the denoted matrices are preserved member by member, for BOTH Cholesky
   orientations, by CholLinearOperator._expand_batch (which forwards upper=self.upper); the inherited
   RootLinearOperator._expand_batch would turn an upper factor's R^T R into R R^T. *)
From mathcomp Require Import all_ssreflect all_fingroup all_algebra.
Require Import C05.ModelBase C05.ModelCG C05.Model C05.ModelLayout C05.ProofsLayout C05.ProofsBridge.
Set Implicit Arguments. Unset Strict Implicit. Unset Printing Implicit Defensive.

Section ExpandAny.
Variable F : Type.
Variable A : Arith F.

Lemma expand_members_nth rep pb (ms : seq (op F)) o : o < prodn (repeat_obs rep pb) ->
  nth (Ident 0) (expand_members rep pb ms) o = nth (Ident 0) ms (repeat_bf rep pb o).
Proof. by move=> ol; rewrite /expand_members nth_mkseq. Qed.

Lemma size_chol_expand rep pb (ms : seq (op F)) : size (chol_expand_batch rep pb ms) = prodn (repeat_obs rep pb).
Proof. by rewrite size_map size_mkseq. Qed.

(* the expanded batch consists of the SAME operators (class, orientation flag, data), tiled *)
Lemma chol_expand_nth rep pb (ms : seq (op F)) o : o < prodn (repeat_obs rep pb) ->
  nth (Ident 0) (chol_expand_batch rep pb ms) o = nth (Ident 0) ms (repeat_bf rep pb o).
Proof.
move=> ol; rewrite /chol_expand_batch (nth_map (Ident 0)) ?size_mkseq // expand_members_nth //.
by case: (nth _ ms _).
Qed.

Lemma chol_expand_dense rep pb (ms : seq (op F)) o : o < prodn (repeat_obs rep pb) ->
  dense_of A (nth (Ident 0) (chol_expand_batch rep pb ms) o) = dense_of A (nth (Ident 0) ms (repeat_bf rep pb o)).
Proof. by move=> ol; rewrite chol_expand_nth. Qed.

(* the base member index is a valid one *)
Lemma chol_expand_member_lt rep pb o : size rep = size pb -> o < prodn (repeat_obs rep pb) ->
  repeat_bf rep pb o < prodn pb.
Proof. by move=> e ol; have [] := repeat_member_rf_bf e ol. Qed.
End ExpandAny.

Section ExpandR.
Variable F : rcfType.
Variable ln : F -> F.
Import GRing.Theory Num.Theory.
Local Open Scope ring_scope.
Notation ArR := (ArR ln).

(* an upper factor R = [[1, 1], [0, 1]] expanded to a batch of three: RootLinearOperator._expand_batch (no upper keyword)
   denotes R R^T (entry (0,0) = 2) where the operator was R^T R (entry (0,0) = 1) *)
Definition Rex : mat F := [:: [:: 1; 1]; [:: 0; 1]].
Lemma root_expand_refuted :
  mget ArR (dense_of ArR (nth (Ident 0) (root_expand_batch [:: 3%N] [:: 1%N] [:: Chol true 2 Rex]) 1)) 0 0
  != mget ArR (dense_of ArR (nth (Ident 0) (chol_expand_batch [:: 3%N] [:: 1%N] [:: Chol true 2 Rex]) 1)) 0 0.
Proof.
rewrite /root_expand_batch /chol_expand_batch /expand_members /=.
rewrite /ModelBase.mget /= /ModelBase.mget /= !mulr1 mul0r !add0r addr0.
by rewrite -[1 + 1]/(2%:R) -[1]/(1%:R) eqr_nat.
Qed.
End ExpandR.
