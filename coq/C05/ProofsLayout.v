From mathcomp Require Import ssreflect ssrfun ssrbool eqtype ssrnat seq div.
From mathcomp Require Import zify.
Require Import C05.ModelBase C05.ModelCG C05.Model C05.ModelLayout.
Set Implicit Arguments. Unset Strict Implicit. Unset Printing Implicit Defensive.

(* ------------------------------------------------------------------ row-major flat <-> multi-index *)
Lemma prodn_cat s1 s2 : prodn (s1 ++ s2) = prodn s1 * prodn s2.
Proof. by elim: s1 => [|d r IH] /=; rewrite ?mul1n // IH mulnA. Qed.

Lemma valid_size sh idx : valid sh idx -> size idx = size sh.
Proof. by elim: sh idx => [|d r IH] [|x xs] //= /andP[_ /IH ->]. Qed.

Lemma valid_cat s1 s2 i1 i2 : size i1 = size s1 -> valid (s1 ++ s2) (i1 ++ i2) = valid s1 i1 && valid s2 i2.
Proof.
elim: s1 i1 => [|d r IH] [|x xs] //= [e]; rewrite IH // andbA //.
Qed.

Lemma flat_lt sh idx : valid sh idx -> flat sh idx < prodn sh.
Proof.
elim: sh idx => [|d r IH] [|x xs] //= /andP[xd /IH h].
apply: (@leq_trans (x.+1 * prodn r)); last by rewrite leq_mul2r xd orbT.
by rewrite mulSn addnC ltn_add2r.
Qed.

Lemma flat_cat s1 s2 i1 i2 : size i1 = size s1 ->
  flat (s1 ++ s2) (i1 ++ i2) = flat s1 i1 * prodn s2 + flat s2 i2.
Proof.
elim: s1 i1 => [|d r IH] [|x xs] //= [e]; rewrite IH // prodn_cat mulnDl addnA mulnA //.
Qed.

Lemma unflat_shift r a f : unflat r (a * prodn r + f) = unflat r f.
Proof.
elim: r a f => [|d r IH] a f //=.
rewrite mulnA IH; congr (_ :: _).
case: (posnP (prodn r)) => [->|P0]; first by rewrite !divn0.
by rewrite divnMDl // modnMDl.
Qed.

Lemma unflat_flat sh idx : valid sh idx -> unflat sh (flat sh idx) = idx.
Proof.
elim: sh idx => [|d r IH] [|x xs] //= /andP[xd v].
rewrite unflat_shift IH //; congr (_ :: _).
have fl := flat_lt v.
have P0 : 0 < prodn r by apply: leq_ltn_trans fl.
by rewrite divnMDl // divn_small // addn0 modn_small.
Qed.

Lemma flat_unflat sh i : i < prodn sh -> flat sh (unflat sh i) = i.
Proof.
elim: sh i => [|d r IH] i /=; first by rewrite ltnS leqn0 => /eqP.
move=> h.
have P0 : 0 < prodn r by case: (posnP (prodn r)) h => // ->; rewrite muln0.
rewrite modn_small; last by rewrite ltn_divLR // mulnC.
rewrite [in unflat r i](divn_eq i (prodn r)) unflat_shift IH ?ltn_pmod //.
by rewrite -divn_eq.
Qed.

Lemma valid_unflat sh i : 0 < prodn sh -> valid sh (unflat sh i).
Proof.
elim: sh i => [|d r IH] i //=; rewrite muln_gt0 => /andP[d0 p0].
by rewrite ltn_pmod // IH.
Qed.

Lemma size_unflat sh i : size (unflat sh i) = size sh.
Proof. by elim: sh i => [|d r IH] i //=; rewrite IH. Qed.

(* ------------------------------------------------------------------ permute *)
Section Perm.
Variable T : Type.
Variable x0 : T.

Lemma tpermute_nth perm sh (x : seq T) idx' : valid (perm_shape perm sh) idx' ->
  nth x0 (tpermute x0 perm sh x) (flat (perm_shape perm sh) idx') = nth x0 x (flat sh (perm_src perm idx')).
Proof. by move=> v; rewrite /tpermute nth_mkseq ?flat_lt // unflat_flat. Qed.

Lemma size_tpermute perm sh (x : seq T) : size (tpermute x0 perm sh x) = prodn (perm_shape perm sh).
Proof. by rewrite size_mkseq. Qed.
End Perm.

(* ------------------------------------------------------------------ interleave *)
Lemma interleave_cons a0 a b0 b : interleave (a0 :: a) (b0 :: b) = a0 :: b0 :: interleave a b.
Proof. by []. Qed.

Lemma size_interleave a b : size a = size b -> size (interleave a b) = (size a).*2.
Proof. by elim: a b => [|x a IH] [|y b] // [e]; rewrite interleave_cons /= IH. Qed.

Lemma nth_interleave a b s i : size a = size b -> i < size a ->
  nth 0 (interleave a b ++ s) i.*2 = nth 0 a i /\ nth 0 (interleave a b ++ s) i.*2.+1 = nth 0 b i.
Proof.
elim: a b i => [|x a IH] [|y b] // [|i] // [e]; rewrite interleave_cons //= ltnS => h.
exact: IH.
Qed.

Lemma nth_interleave_tail a b s c : size a = size b ->
  nth 0 (interleave a b ++ s) ((size a).*2 + c) = nth 0 s c.
Proof. by move=> e; rewrite nth_cat size_interleave // ltnNge leq_addr /= addKn. Qed.

(* index in an interleaved list of two disjoint duplicate-free lists *)
Lemma index_interleave (a b : seq nat) s i : size a = size b -> uniq a -> uniq b ->
  (forall z, z \in a -> z \notin b) -> i < size a ->
  index (nth 0 a i) (interleave a b ++ s) = i.*2 /\ index (nth 0 b i) (interleave a b ++ s) = i.*2.+1.
Proof.
elim: a b i => [|x a IH] [|y b] // i [e]; rewrite interleave_cons => /= /andP[xa ua] /andP[yb ub] dis.
have := dis x (mem_head _ _); rewrite inE negb_or => /andP[xy xb].
have ya : y \notin a.
  by apply/negP => ya; have := dis y; rewrite inE ya orbT inE eqxx => /(_ isT).
have dis' : forall z, z \in a -> z \notin b.
  by move=> z za; have := dis z; rewrite inE za orbT inE negb_or => /(_ isT) /andP[].
case: i => [|i] /=; first by rewrite !eqxx (negbTE xy).
rewrite ltnS => h.
have ai : nth 0 a i \in a by rewrite mem_nth.
have bi : nth 0 b i \in b by rewrite mem_nth // -e.
have [-> ->] := IH b i e ua ub dis' h.
rewrite (negbTE (_ : x != nth 0 a i)); last by apply: contra xa => /eqP->.
rewrite (negbTE (_ : y != nth 0 a i)); last by apply: contra ya => /eqP->.
rewrite (negbTE (_ : x != nth 0 b i)); last by apply: contra xb => /eqP->.
by rewrite (negbTE (_ : y != nth 0 b i)) //; apply: contra yb => /eqP->.
Qed.

(* ------------------------------------------------------------------ the two permutations of the code *)
Lemma index_mkseq (f : nat -> nat) k i : injective f -> i < k -> index (f i) (mkseq f k) = i.
Proof. by move=> inj ik; rewrite -{1}(nth_mkseq 0 f ik) index_uniq ?size_mkseq ?mkseq_uniq. Qed.

Lemma notin_mkseq (f : nat -> nat) k q : (forall i, i < k -> f i != q) -> q \notin mkseq f k.
Proof. by move=> h; apply/negP => /mapP[i]; rewrite mem_iota add0n => /andP[_ ik] e; have := h i ik; rewrite e eqxx. Qed.

Lemma double_inj : injective double.
Proof. by move=> a b /eqP; rewrite -!muln2 eqn_pmul2r // => /eqP. Qed.
Lemma doubleS_inj : injective (fun i => i.*2.+1).
Proof. by move=> a b [] /double_inj. Qed.

Lemma odd_neq_even i q : i.*2.+1 != q.*2.
Proof. by apply/eqP => /(congr1 odd); rewrite /= !odd_double. Qed.

Lemma tcp_odd k i : i < k -> index i.*2.+1 (to_columns_perm k) = i.
Proof.
move=> ik; rewrite /to_columns_perm index_cat.
have -> : i.*2.+1 \in mkseq (fun i => i.*2.+1) k by apply/mapP; exists i => //; rewrite mem_iota.
exact: index_mkseq doubleS_inj ik.
Qed.

Lemma tcp_notin_odd k q : q.*2 \notin mkseq (fun i => i.*2.+1) k.
Proof. by apply: notin_mkseq => i _; exact: odd_neq_even. Qed.

Lemma tcp_2k k : index k.*2 (to_columns_perm k) = k.
Proof. by rewrite /to_columns_perm index_cat (negbTE (tcp_notin_odd k k)) size_mkseq /= eqxx addn0. Qed.

Lemma tcp_2k1 k : index k.*2.+1 (to_columns_perm k) = k.+1.
Proof.
rewrite /to_columns_perm index_cat.
have /negbTE-> : k.*2.+1 \notin mkseq (fun i => i.*2.+1) k.
  by apply: notin_mkseq => i ik; apply/eqP => /doubleS_inj e; rewrite e ltnn in ik.
by rewrite size_mkseq /= eqxx (negbTE (_ : k.*2 != k.*2.+1)) ?addn1 // neq_ltn leqnn.
Qed.

Lemma tcp_even k i : i < k -> index i.*2 (to_columns_perm k) = k.+2 + i.
Proof.
move=> ik; rewrite /to_columns_perm index_cat (negbTE (tcp_notin_odd k i)) size_mkseq /=.
have /negbTE-> : k.*2 != i.*2 by apply/eqP => /double_inj e; rewrite e ltnn in ik.
have /negbTE-> : k.*2.+1 != i.*2 by exact: odd_neq_even.
by rewrite (index_mkseq double_inj ik) !addnS addSn.
Qed.

Lemma perm_src_to_columns k (r b : seq nat) row j : size r = k -> size b = k ->
  perm_src (to_columns_perm k) (b ++ [:: row; j] ++ r) = interleave r b ++ [:: row; j].
Proof.
move=> sr sb; have srb : size r = size b by rewrite sr sb.
apply: (@eq_from_nth _ 0).
  rewrite /perm_src size_mkseq /to_columns_perm !size_cat !size_mkseq /= size_interleave // sr.
  by rewrite -addnn !addnS addn0.
move=> q; rewrite /perm_src size_mkseq => qlt; rewrite nth_mkseq //.
move: qlt; rewrite {1}/to_columns_perm !size_cat !size_mkseq /= !addnS addnn !ltnS.
rewrite leq_eqVlt => /orP[/eqP->|].
  by rewrite tcp_2k1 nth_cat sb ltnNge leqnSn /= subSn // subnn -sr -[(size r).*2.+1]addn1 nth_interleave_tail.
rewrite ltnS leq_eqVlt => /orP[/eqP->|qk].
  by rewrite tcp_2k nth_cat sb ltnn subnn /= -sr -[(size r).*2]addn0 nth_interleave_tail.
have ik : q./2 < k by rewrite -ltn_double (leq_ltn_trans _ qk) // -{2}(odd_double_half q) leq_addl.
have ik' : q./2 < size r by rewrite sr.
rewrite -(odd_double_half q); case: (odd q); rewrite ?add1n ?add0n.
  rewrite tcp_odd // nth_cat sb ik.
  by have [_ ->] := @nth_interleave r b [:: row; j] q./2 srb ik'.
rewrite tcp_even // !addSnnS nth_cat sb ltnNge leq_addr /= addKn /=.
by have [-> _] := @nth_interleave r b [:: row; j] q./2 srb ik'.
Qed.

Lemma perm_shape_to_columns k (rep pb : seq nat) n t : size rep = k -> size pb = k ->
  perm_shape (to_columns_perm k) (interleave rep pb ++ [:: n; t]) = pb ++ [:: n; t] ++ rep.
Proof.
move=> sr sb; have srb : size rep = size pb by rewrite sr sb.
rewrite /perm_shape /to_columns_perm !map_cat /= -!map_comp.
congr (_ ++ _); last congr (_ :: _ :: _).
- apply: (@eq_from_nth _ 0); first by rewrite size_map size_iota sb.
  move=> i; rewrite size_map size_iota => ik; rewrite (nth_map 0) ?size_iota // nth_iota //= add0n.
  by rewrite -sr in ik; have [_ ->] := @nth_interleave rep pb [:: n; t] i srb ik.
- by rewrite -sr -[(size rep).*2]addn0 nth_interleave_tail.
- by rewrite -sr -addn1 nth_interleave_tail.
- apply: (@eq_from_nth _ 0); first by rewrite size_map size_iota sr.
  move=> i; rewrite size_map size_iota => ik; rewrite (nth_map 0) ?size_iota // nth_iota //= add0n.
  by rewrite -sr in ik; have [-> _] := @nth_interleave rep pb [:: n; t] i srb ik.
Qed.

(* ------------------------------------------------------------------ splitting a batch dimension r_i * p_i into (r_i, p_i) *)
Definition merged (r b pb : seq nat) : seq nat := [seq x.1.1 * x.2 + x.1.2 | x <- zip (zip r b) pb].

Lemma prodn_interleave a b s : size a = size b -> prodn (interleave a b ++ s) = prodn (repeat_obs a b ++ s).
Proof. by elim: a b => [|x a IH] [|y b] // [e]; rewrite interleave_cons /= IH // mulnA. Qed.

Lemma flat_interleave rep pb r b s2 i2 : size rep = size pb -> valid rep r -> valid pb b ->
  flat (interleave rep pb ++ s2) (interleave r b ++ i2) = flat (repeat_obs rep pb ++ s2) (merged r b pb ++ i2).
Proof.
elim: rep pb r b => [|R rep IH] [|P pb] [|x r] [|y b] // [e]; rewrite !interleave_cons /= => /andP[_ vr] /andP[_ vb].
rewrite IH // prodn_interleave //.
by rewrite /merged /= mulnDl addnA mulnA.
Qed.

Lemma valid_merged rep pb r b : size rep = size pb -> valid rep r -> valid pb b ->
  valid (repeat_obs rep pb) (merged r b pb).
Proof.
elim: rep pb r b => [|R rep IH] [|P pb] [|x r] [|y b] //= [e] /andP[xR vr] /andP[yP vb].
rewrite IH // andbT.
by apply: (@leq_trans (x.+1 * P)); [rewrite mulSn addnC ltn_add2r | rewrite leq_mul2r xR orbT].
Qed.

(* ------------------------------------------------------------------ the permutation of _move_repeat_batches_back *)
Lemma map_interleave (f : nat -> nat) a b : map f (interleave a b) = interleave (map f a) (map f b).
Proof. by elim: a b => [|x a IH] [|y b] //; rewrite /= !interleave_cons /= IH. Qed.

Lemma mem_interleave q a b : q \in interleave a b -> (q \in a) || (q \in b).
Proof.
elim: a b => [|x a IH] [|y b] //; rewrite interleave_cons !inE => /or3P[->|->|/IH/orP[->|->]] //; rewrite ?orbT //.
Qed.

Lemma move_back_perm_eq k :
  move_back_perm k = interleave (mkseq (fun i => i + k.+2) k) (iota 0 k) ++ [:: k; k.+1].
Proof.
rewrite /move_back_perm /interleave /mkseq; congr (_ ++ _); congr flatten.
by rewrite -{3}(map_id (iota 0 k)) zip_map -map_comp.
Qed.

Lemma mbp_facts k : let a := mkseq (fun i => i + k.+2) k in
  [/\ size a = size (iota 0 k), uniq a, uniq (iota 0 k) & forall z, z \in a -> z \notin iota 0 k].
Proof.
split; rewrite ?size_mkseq ?size_iota ?iota_uniq //.
- by apply: mkseq_uniq => x y /addIn.
- by move=> z /mapP[i _ ->]; rewrite mem_iota add0n /=; lia.
Qed.

Lemma mbp_base k i : i < k -> index i (move_back_perm k) = i.*2.+1.
Proof.
move=> ik; have [e ua ub dis] := mbp_facts k.
have ik' : i < size (mkseq (fun i => i + k.+2) k) by rewrite size_mkseq.
have [_] := @index_interleave _ _ [:: k; k.+1] i e ua ub dis ik'.
by rewrite nth_iota // add0n move_back_perm_eq.
Qed.

Lemma mbp_rep k i : i < k -> index (i + k.+2) (move_back_perm k) = i.*2.
Proof.
move=> ik; have [e ua ub dis] := mbp_facts k.
have ik' : i < size (mkseq (fun i => i + k.+2) k) by rewrite size_mkseq.
have [+ _] := @index_interleave _ _ [:: k; k.+1] i e ua ub dis ik'.
by rewrite nth_mkseq // move_back_perm_eq.
Qed.

Lemma mbp_notin k q : k <= q -> q < k.+2 -> q \notin interleave (mkseq (fun i => i + k.+2) k) (iota 0 k).
Proof.
move=> kq qk; apply/negP => /mem_interleave /orP[/mapP[i _ e]|].
  by move: qk; rewrite e; lia.
by rewrite mem_iota add0n /=; lia.
Qed.

Lemma mbp_n k : index k (move_back_perm k) = k.*2.
Proof.
have [e _ _ _] := mbp_facts k.
by rewrite move_back_perm_eq index_cat (negbTE (mbp_notin _ _)) // size_interleave // size_mkseq /= eqxx addn0.
Qed.

Lemma mbp_t k : index k.+1 (move_back_perm k) = k.*2.+1.
Proof.
have [e _ _ _] := mbp_facts k.
rewrite move_back_perm_eq index_cat (negbTE (mbp_notin _ _)) // size_interleave // size_mkseq /= eqxx.
by rewrite (negbTE (_ : k != k.+1)) ?addn1 // neq_ltn leqnn.
Qed.

Lemma size_move_back_perm k : size (move_back_perm k) = k.*2.+2.
Proof.
have [e _ _ _] := mbp_facts k.
by rewrite move_back_perm_eq size_cat size_interleave // size_mkseq /= !addnS addn0.
Qed.

Lemma perm_src_move_back k (r b : seq nat) row j : size r = k -> size b = k ->
  perm_src (move_back_perm k) (interleave r b ++ [:: row; j]) = b ++ [:: row; j] ++ r.
Proof.
move=> sr sb; have srb : size r = size b by rewrite sr sb.
apply: (@eq_from_nth _ 0).
  by rewrite /perm_src size_mkseq size_move_back_perm !size_cat /= sr sb -addnn !addnS.
move=> q; rewrite /perm_src size_mkseq size_move_back_perm => qlt; rewrite nth_mkseq ?size_move_back_perm //.
case: (ltnP q k) => [qk|kq].
  rewrite mbp_base // [RHS]nth_cat sb qk.
  by rewrite -sr in qk; have [_ ->] := @nth_interleave r b [:: row; j] q srb qk.
rewrite [RHS]nth_cat sb ltnNge kq /=.
move: kq; rewrite leq_eqVlt => /orP[/eqP<-|]; first by rewrite subnn mbp_n /= -sr -[(size r).*2]addn0 nth_interleave_tail.
rewrite leq_eqVlt => /orP[/eqP<-|kq]; first by rewrite subSn // subnn mbp_t /= -sr -[(size r).*2.+1]addn1 nth_interleave_tail.
have -> : q = (q - k.+2) + k.+2 by rewrite subnK.
have ik : q - k.+2 < k by move: qlt; rewrite -addnn; lia.
rewrite mbp_rep //; have -> : q - k.+2 + k.+2 - k = (q - k.+2).+2 by lia.
rewrite /=.
by rewrite -sr in ik *; have [-> _] := @nth_interleave r b [:: row; j] _ srb ik.
Qed.

Lemma perm_shape_move_back k (rep pb : seq nat) n t : size rep = k -> size pb = k ->
  perm_shape (move_back_perm k) (pb ++ [:: n; t] ++ rep) = interleave rep pb ++ [:: n; t].
Proof.
move=> sr sb; rewrite /perm_shape move_back_perm_eq map_cat map_interleave /=.
congr (_ ++ _); last first.
  by rewrite !nth_cat sb ltnn subnn ltnNge leqnSn /= subSn // subnn.
congr interleave.
- apply: (@eq_from_nth _ 0); first by rewrite size_map size_mkseq sr.
  move=> i; rewrite size_map size_mkseq => ik; rewrite (nth_map 0) ?size_mkseq // nth_mkseq //.
  rewrite nth_cat sb; have -> : (i + k.+2 < k) = false by lia.
  by have -> : i + k.+2 - k = i.+2 by lia.
- apply: (@eq_from_nth _ 0); first by rewrite size_map size_iota sb.
  move=> i; rewrite size_map size_iota => ik; rewrite (nth_map 0) ?size_iota // nth_iota // add0n.
  by rewrite nth_cat sb ik.
Qed.

Lemma valid_interleave rep pb r b s i : size rep = size pb -> valid rep r -> valid pb b ->
  valid (interleave rep pb ++ s) (interleave r b ++ i) = valid s i.
Proof.
elim: rep pb r b => [|R rep IH] [|P pb] [|x r] [|y b] // [e]; rewrite !interleave_cons /= => /andP[-> vr] /andP[-> vb] /=.
exact: IH.
Qed.

(* the inverse of [merged]: o_i = (o_i / p_i) * p_i + o_i % p_i *)
Definition split_r (idx pb : seq nat) : seq nat := [seq x.1 %/ x.2 | x <- zip idx pb].
Definition split_b (idx pb : seq nat) : seq nat := [seq x.1 %% x.2 | x <- zip idx pb].

Lemma split_valid rep pb s idx : size rep = size pb -> valid (repeat_obs rep pb ++ s) idx ->
  [/\ idx = merged (split_r idx pb) (split_b idx pb) pb ++ drop (size pb) idx,
      valid rep (split_r idx pb), valid pb (split_b idx pb) & valid s (drop (size pb) idx)].
Proof.
elim: rep pb idx => [|R rep IH] [|P pb] // idx; first by move=> _ /= v; rewrite drop0; case: idx v.
case=> e; case: idx => [|o idx] //= /andP[oRP v].
have [e1 vr vb vs] := IH pb idx e v.
have P0 : 0 < P by case: (posnP P) oRP => // ->; rewrite muln0.
split=> //.
- by rewrite /merged /= -divn_eq -/(merged _ _ _) -e1.
- by rewrite -/(split_r idx pb) vr andbT ltn_divLR.
- by rewrite -/(split_b idx pb) vb andbT ltn_pmod.
Qed.

Lemma nth_flatten_mkseq (U : Type) (u0 : U) (f : nat -> nat -> U) m t j r : j < t -> r < m ->
  nth u0 (flatten (mkseq (fun j => mkseq (f j) m) t)) (j * m + r) = f j r.
Proof.
have sz t' : size (flatten (mkseq (fun j => mkseq (f j) m) t')) = t' * m.
  by elim: t' => // t' IH; rewrite mkseqS flatten_rcons size_cat IH size_mkseq mulSn addnC.
elim: t => // t IH; rewrite ltnS leq_eqVlt mkseqS flatten_rcons nth_cat sz => /orP[/eqP->|jt] rm.
  by rewrite ltnNge leq_addr /= addKn nth_mkseq.
have -> : j * m + r < t * m by apply: (@leq_trans (j.+1 * m)); [rewrite mulSn addnC ltn_add2r | rewrite leq_mul2r jt orbT].
exact: IH.
Qed.

Section Moves.
Variable T : Type.
Variable x0 : T.

(* _move_repeat_batches_to_columns, multi-index reading, any number of batch dimensions:
   entry (b_1..b_k, row, j, r_1..r_k) of the result (shape pb ++ [n; t] ++ rep, viewed by the code as
   base.batch_shape ++ [n; t * nrep]) is entry (r_1 p_1 + b_1, .., r_k p_k + b_k, row, j) of the input *)
Lemma move_to_columns_nth rep pb n t (x : seq T) r b row j :
  size rep = size pb -> valid rep r -> valid pb b -> row < n -> j < t ->
  nth x0 (move_to_columns x0 rep pb n t x) (flat (pb ++ [:: n; t] ++ rep) (b ++ [:: row; j] ++ r))
  = nth x0 x (flat (repeat_obs rep pb ++ [:: n; t]) (merged r b pb ++ [:: row; j])).
Proof.
move=> e vr vb rn jt; rewrite /move_to_columns.
have sp : size pb = size rep by [].
have sr := valid_size vr; have sb := valid_size vb.
rewrite -(perm_shape_to_columns n t (erefl (size rep)) sp) tpermute_nth; last first.
  rewrite perm_shape_to_columns // valid_cat // vb /= rn jt /=.
  by move: vr; rewrite -[rep in valid rep r]cats0 -[r in valid _ r]cats0.
by rewrite (@perm_src_to_columns (size rep)) ?sb // flat_interleave.
Qed.

(* _move_repeat_batches_back: entry (r_1 p_1 + b_1, .., r_k p_k + b_k, row, j) of the result (shape output_shape) is entry
   (b_1..b_k, row, j, r_1..r_k) of the input (viewed as pb ++ [n; t] ++ rep) *)
Lemma move_back_nth rep pb n t (y : seq T) r b row j :
  size rep = size pb -> valid rep r -> valid pb b -> row < n -> j < t ->
  nth x0 (move_back x0 rep pb n t y) (flat (repeat_obs rep pb ++ [:: n; t]) (merged r b pb ++ [:: row; j]))
  = nth x0 y (flat (pb ++ [:: n; t] ++ rep) (b ++ [:: row; j] ++ r)).
Proof.
move=> e vr vb rn jt; rewrite /move_back -flat_interleave //.
have sp : size pb = size rep by [].
have sr := valid_size vr; have sb := valid_size vb.
rewrite -(perm_shape_move_back n t (erefl (size rep)) sp) tpermute_nth; last first.
  by rewrite perm_shape_move_back // valid_interleave //= rn jt.
by rewrite (@perm_src_move_back (size rep)) ?sb.
Qed.

(* round trip, any number of batch dimensions, any sizes (including empty tensors) *)
Theorem move_back_to_columns rep pb n t (x : seq T) : size rep = size pb ->
  size x = prodn (repeat_obs rep pb ++ [:: n; t]) ->
  move_back x0 rep pb n t (move_to_columns x0 rep pb n t x) = x.
Proof.
move=> e sx; have sp : size pb = size rep by [].
have sz : size (move_back x0 rep pb n t (move_to_columns x0 rep pb n t x)) = size x.
  by rewrite size_tpermute perm_shape_move_back // prodn_interleave.
apply: (@eq_from_nth _ x0) => // i; rewrite sz sx => ilt.
have p0 : 0 < prodn (repeat_obs rep pb ++ [:: n; t]) by apply: leq_ltn_trans ilt.
have [eidx vr vb vs] := split_valid e (valid_unflat i p0).
move: eidx vs; case: (drop _ _) => [|row [|j [|? ?]]] /=; rewrite ?andbF // => eidx /and3P[rn jt _].
by rewrite -(flat_unflat ilt) eidx move_back_nth // move_to_columns_nth.
Qed.

(* ---- flat-index forms: exactly the index expressions of the executable model (Model.v, balg / BRepeat) *)
Theorem move_to_columns_flat rep pb n t (x : seq T) rf bf row j :
  size rep = size pb -> rf < prodn rep -> bf < prodn pb -> row < n -> j < t ->
  nth x0 (move_to_columns x0 rep pb n t x) ((bf * n + row) * (t * prodn rep) + (j * prodn rep + rf))
  = nth x0 x ((repeat_member rep pb rf bf * n + row) * t + j).
Proof.
move=> e rfl bfl rn jt.
have pr : 0 < prodn rep by apply: leq_ltn_trans rfl.
have pp : 0 < prodn pb by apply: leq_ltn_trans bfl.
have := @move_to_columns_nth rep pb n t x _ _ row j e (valid_unflat rf pr) (valid_unflat bf pp) rn jt.
rewrite !flat_cat ?size_unflat //; last exact: (valid_size (valid_merged e (valid_unflat rf pr) (valid_unflat bf pp))).
rewrite /= !flat_unflat // -/(repeat_member rep pb rf bf) !muln1 !addn0.
set u := nth _ _ _; set v := nth _ _ _; move=> uv.
have -> : (bf * n + row) * (t * prodn rep) + (j * prodn rep + rf) = bf * (n * (t * prodn rep)) + ((row * t + j) * prodn rep + rf) by ring.
by rewrite -/u uv /v; congr (nth _ _ _); ring.
Qed.

Theorem move_back_flat rep pb t (d : seq T) of_ j :
  size rep = size pb -> of_ < prodn (repeat_obs rep pb) -> j < t ->
  nth x0 (move_back x0 rep pb 1 t d) (of_ * t + j)
  = nth x0 d (repeat_bf rep pb of_ * (t * prodn rep) + j * prodn rep + repeat_rf rep pb of_).
Proof.
move=> e ol jt.
have p0 : 0 < prodn (repeat_obs rep pb ++ [::]) by rewrite cats0; apply: leq_ltn_trans ol.
have := valid_unflat of_ p0; rewrite cats0 => v0.
have [] := @split_valid rep pb [::] (unflat (repeat_obs rep pb) of_) e; first by rewrite cats0.
move=> eidx vr vb _.
have dr0 : drop (size pb) (unflat (repeat_obs rep pb) of_) = [::].
  by rewrite drop_oversize // size_unflat /repeat_obs size_map size_zip -e minnn.
rewrite dr0 cats0 in eidx.
have := @move_back_nth rep pb 1 t d _ _ 0 j e vr vb isT jt.
rewrite !flat_cat ?(valid_size vb) //; last by rewrite -eidx size_unflat.
rewrite -eidx /= flat_unflat // !muln1 !addn0 mul0n add0n mul1n => ->.
by rewrite /repeat_bf /repeat_rf -/(split_b _ _) -/(split_r _ _); congr (nth _ _ _); ring.
Qed.

End Moves.

(* the three index maps of the model are mutually consistent: (repeat_rf, repeat_bf) inverts repeat_member *)
Theorem repeat_member_rf_bf rep pb of_ : size rep = size pb -> of_ < prodn (repeat_obs rep pb) ->
  [/\ repeat_member rep pb (repeat_rf rep pb of_) (repeat_bf rep pb of_) = of_,
      repeat_rf rep pb of_ < prodn rep & repeat_bf rep pb of_ < prodn pb].
Proof.
move=> e ol.
have p0 : 0 < prodn (repeat_obs rep pb) by apply: leq_ltn_trans ol.
have [] := @split_valid rep pb [::] (unflat (repeat_obs rep pb) of_) e; first by rewrite cats0 valid_unflat.
rewrite drop_oversize ?cats0; last by rewrite size_unflat /repeat_obs size_map size_zip -e minnn.
move=> eidx vr vb _; split; rewrite /repeat_rf /repeat_bf -/(split_r _ _) -/(split_b _ _) ?flat_lt //.
by rewrite /repeat_member !unflat_flat // -/(merged _ _ _) -eidx flat_unflat.
Qed.

Theorem repeat_member_lt rep pb rf bf : size rep = size pb -> rf < prodn rep -> bf < prodn pb ->
  repeat_member rep pb rf bf < prodn (repeat_obs rep pb).
Proof.
move=> e rl bl; apply: flat_lt; apply: valid_merged => //; apply: valid_unflat.
  exact: leq_ltn_trans rl.
exact: leq_ltn_trans bl.
Qed.

(* ------------------------------------------------------------------ what the wrappers of the executable model denote *)
Section ModelDenote.
Variable F : Type.
Variable A : Arith F.
Notation a0 := (a0 A).

Lemma eq_sumn_ (f g : nat -> F) k : (forall i, i < k -> f i = g i) -> sumn_ A f k = sumn_ A g k.
Proof. by elim: k => //= k IH h; rewrite IH ?h // => i ik; apply: h; apply: ltnW. Qed.

Lemma repeat_rhs_nth rep pb t (Rs : seq (cols F)) bf j rf : bf < prodn pb -> j < t -> rf < prodn rep ->
  nth [::] (nth [::] (repeat_rhs rep pb t Rs) bf) (j * prodn rep + rf)
  = nth [::] (nth [::] Rs (repeat_member rep pb rf bf)) j.
Proof. by move=> bl jt rl; rewrite /repeat_rhs nth_mkseq // (nth_flatten_mkseq [::]). Qed.

(* the BatchRepeat right-hand side of the model IS _move_repeat_batches_to_columns of the rhs tensor:
   for any flat row-major tensor x (shape obs ++ [n; t]) holding the entries of Rs *)
Theorem repeat_rhs_is_move_to_columns rep pb n t (Rs : seq (cols F)) (x : seq F) :
  size rep = size pb ->
  (forall o row j, o < prodn (repeat_obs rep pb) -> row < n -> j < t ->
     nth a0 x ((o * n + row) * t + j) = vget A (nth [::] (nth [::] Rs o) j) row) ->
  forall bf row c, bf < prodn pb -> row < n -> c < t * prodn rep ->
  nth a0 (move_to_columns a0 rep pb n t x) ((bf * n + row) * (t * prodn rep) + c)
  = vget A (nth [::] (nth [::] (repeat_rhs rep pb t Rs) bf) c) row.
Proof.
move=> e hx bf row c bl rn cl.
have pr : 0 < prodn rep by case: (posnP (prodn rep)) cl => // ->; rewrite muln0.
have jt : c %/ prodn rep < t by rewrite ltn_divLR.
have rl : c %% prodn rep < prodn rep by rewrite ltn_pmod.
rewrite [in LHS](divn_eq c (prodn rep)) [in RHS](divn_eq c (prodn rep)).
by rewrite move_to_columns_flat // repeat_rhs_nth // hx // repeat_member_lt.
Qed.

(* ... and its inv_quad values ARE _move_repeat_batches_back of the base result viewed as (.., t, 1, nrep), squeezed *)
Theorem repeat_iq_vals_is_move_back rep pb t (d : seq F) of_ j :
  size rep = size pb -> of_ < prodn (repeat_obs rep pb) -> j < t ->
  nth a0 (nth [::] (repeat_iq_vals A rep pb t d) of_) j = nth a0 (move_back a0 rep pb 1 t d) (of_ * t + j).
Proof. by move=> e ol jt; rewrite move_back_flat // /repeat_iq_vals nth_mkseq // nth_mkseq. Qed.

(* DENOTATION of the BatchRepeat fold / unfold, any number of batch dimensions: if the base operator returns for its
   member bf and each right-hand-side column a value q bf column (diag(R^T A_bf^-1 R): one value per column, depending
   on that member and that column only), then entry (of_, j) of the wrapper's result is q on the TILED member
   repeat_bf of_ (multi-index of_ mod base batch shape, torch's .repeat semantics) and on column j of output member
   of_'s own right-hand side. *)
Theorem brepeat_inv_quad_denotation (q : nat -> vec F -> F) rep pb t (Rs : seq (cols F)) (d : seq F) :
  size rep = size pb ->
  (forall bf c, bf < prodn pb -> c < t * prodn rep ->
     nth a0 d (bf * (t * prodn rep) + c) = q bf (nth [::] (nth [::] (repeat_rhs rep pb t Rs) bf) c)) ->
  forall of_ j, of_ < prodn (repeat_obs rep pb) -> j < t ->
  nth a0 (nth [::] (repeat_iq_vals A rep pb t d) of_) j = q (repeat_bf rep pb of_) (nth [::] (nth [::] Rs of_) j).
Proof.
move=> e hd of_ j ol jt.
have [em rl bl] := repeat_member_rf_bf e ol.
rewrite /repeat_iq_vals nth_mkseq // nth_mkseq // -addnA hd //; last first.
  by apply: (@leq_trans (j.+1 * prodn rep)); [rewrite mulSn addnC ltn_add2r | rewrite leq_mul2r jt orbT].
by rewrite repeat_rhs_nth // em.
Qed.

(* the logdet of the wrapper: logdet_term.repeat( *batch_repeat) reads the tiled member as well *)
Lemma repeat_bf_lt rep pb of_ : size rep = size pb -> of_ < prodn (repeat_obs rep pb) -> repeat_bf rep pb of_ < prodn pb.
Proof. by move=> e ol; have [] := repeat_member_rf_bf e ol. Qed.

(* Block wrappers: member g of the wrapper <-> base members g*k .. g*k+k-1 *)
Lemma block_rhs_nth il k m (Rs : seq (cols F)) g i : g < size Rs -> i < k ->
  nth [::] (block_rhs A il k m Rs) (g * k + i)
  = [seq (if il then rows_inter A else rows_block A) k m i r | r <- nth [::] Rs g].
Proof.
move=> gl ik; rewrite /block_rhs.
have -> : [seq mkseq (fun i => [seq (if il then rows_inter A else rows_block A) k m i r | r <- Rb]) k | Rb <- Rs]
        = mkseq (fun g => mkseq (fun i => [seq (if il then rows_inter A else rows_block A) k m i r | r <- nth [::] Rs g]) k) (size Rs).
  by rewrite -{1}(mkseq_nth [::] Rs) /mkseq -map_comp.
exact: (nth_flatten_mkseq [::]).
Qed.

(* DENOTATION of the Block* reshape + sum over the block dimension (reduce_inv_quad = False): entry (g, j) of the wrapper's
   result is the sum over the k blocks i of the base value on base member g*k+i and on the rows of column j of member g's
   right-hand side that belong to block i (rows i*m .. i*m+m-1 for BlockDiag, rows i, i+k, i+2k, .. for BlockInterleaved) *)
Theorem bblock_inv_quad_denotation (q : nat -> vec F -> F) il k m t (Rs : seq (cols F)) (d : seq F) :
  (forall g, g < size Rs -> size (nth [::] Rs g) = t) ->
  (forall b j, b < size Rs * k -> j < t ->
     nth a0 d (b * t + j) = q b (nth [::] (nth [::] (block_rhs A il k m Rs) b) j)) ->
  forall g j, g < size Rs -> j < t ->
  nth a0 (block_iq_vals A k t (size Rs) d) (g * t + j)
  = sumn_ A (fun i => q (g * k + i) ((if il then rows_inter A else rows_block A) k m i (nth [::] (nth [::] Rs g) j))) k.
Proof.
move=> hs hd g j gl jt; rewrite /block_iq_vals (nth_flatten_mkseq a0) //.
apply: eq_sumn_ => i ik; rewrite hd //; last first.
  by apply: (@leq_trans (g.+1 * k)); [rewrite mulSn addnC ltn_add2r | rewrite leq_mul2r gl orbT].
by rewrite block_rhs_nth // (nth_map [::]) ?hs.
Qed.

(* ... and with reduce_inv_quad = True / for the log-determinant: sum of k consecutive base values *)
Theorem sum_groups_nth k (v : seq F) g : g < size v %/ k ->
  nth a0 (sum_groups A k v) g = sumn_ A (fun i => nth a0 v (g * k + i)) k.
Proof. by move=> gl; rewrite /sum_groups nth_mkseq. Qed.

End ModelDenote.

(* ------------------------------------------------------------------ the seeded regression C05/1 in this model *)
(* "all repeat dimensions first" coincides with the code's interleaving for ONE batch dimension (all the repo's tests) ... *)
Theorem move_back_blocked_one_dim (T : Type) (x0 : T) rep pb n t (y : seq T) : size rep = 1 ->
  move_back_blocked x0 rep pb n t y = move_back x0 rep pb n t y.
Proof. by move=> e; rewrite /move_back_blocked /move_back e. Qed.

(* ... and differs from it with two: base batch (2, 1), repeat (1, 3), one column *)
Theorem move_back_blocked_refuted :
  move_back_blocked 0 [:: 1; 3] [:: 2; 1] 1 1 (iota 0 6) <> move_back 0 [:: 1; 3] [:: 2; 1] 1 1 (iota 0 6).
Proof. by vm_compute. Qed.
