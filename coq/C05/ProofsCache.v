(* C05 — the cached-triangular-root shortcut of LinearOperator.inv_quad_logdet (lines 1695-1715): which cache entry is
   used, and that a VALID transplanted root gives the dense values.  Validity (L lower triangular, non-zero diagonal,
   L L^T = M) is a HYPOTHESIS: the code never checks it; the harness discharges it numerically for every case. *)
From mathcomp Require Import all_ssreflect all_fingroup all_algebra.
Require Import C05.ModelBase C05.ModelCG C05.Model C05.ProofsBridge C05.ProofsConv.
Set Implicit Arguments. Unset Strict Implicit. Unset Printing Implicit Defensive.
Import GRing.Theory Num.Theory.
Local Open Scope ring_scope.

Section CacheAny.
Variable F : Type.
Variable A : Arith F.

Lemma shortcut_root_cached n (g : gmember F) L : g_root g = Some L -> shortcut_root A n g = L.
Proof. by rewrite /shortcut_root => ->. Qed.
Lemma shortcut_root_fresh n (g : gmember F) : g_root g = None -> shortcut_root A n g = cholesky A n (g_M g).
Proof. by rewrite /shortcut_root => ->. Qed.
End CacheAny.

Section Cache.
Variable F : rcfType.
Variable ln : F -> F.
Notation ArR := (ArR ln).

Definition root_valid (n : nat) (M L : mat F) : Prop :=
  [/\ lower ln n L, diag_nz ln n L & mx_of ln n n L *m (mx_of ln n n L)^T = mx_of ln n n M].

Lemma cached_root_iq n t M L (R : cols F) (j : 'I_t) : root_valid n M L ->
  chol_iq_col ArR false n L (nth [::] R j)
  = ((cols_mx ln n t R)^T *m invmx (mx_of ln n n M) *m cols_mx ln n t R) j j.
Proof. by case=> lo nz E; rewrite chol_iq_col_correct // E. Qed.

Lemma cached_root_logdet n M L :
  (forall x y, 0 < x -> 0 < y -> ln (x * y) = ln x + ln y) -> root_valid n M L ->
  chol_logdet ArR n L = ln (\det (mx_of ln n n M)).
Proof. by move=> ln_mul [lo nz E]; rewrite chol_logdet_correct // E. Qed.

(* end to end on the model: a batch of operators that all arrive with a valid cached triangular root, Cholesky route,
   logdet() : the result is the batch of dense log-determinants, whatever the settings, probes and the matrix's own
   Cholesky factor are *)
Lemma cached_leaf_logdet (eigh : nat -> mat F -> vec F * mat F) (S : settings F) bs n (M0 L0 : mat F)
    (mls : seq (mat F * mat F)) reduce probes :
  (forall x y, 0 < x -> 0 < y -> ln (x * y) = ln x + ln y) ->
  (~~ s_log_prob S || (n <= s_max_cholesky_size S)%N) ->
  (forall ML, ML \in (M0, L0) :: mls -> root_valid n ML.1 ML.2) ->
  leaf_iql ArR eigh S bs [seq Cached n ML.1 ML.2 | ML <- (M0, L0) :: mls] None true reduce probes
  = ROk (ONone, OVal bs [seq ln (\det (mx_of ln n n ML.1)) | ML <- (M0, L0) :: mls]).
Proof.
move=> ln_mul route hv; rewrite /leaf_iql /= cholesky_route // /chol_iql /=.
congr (ROk (_, OVal _ (_ :: _))); first by rewrite (cached_root_logdet ln_mul (hv _ (mem_head _ _))).
rewrite -!map_comp; apply/eq_in_map => ML MLin /=.
by rewrite (@cached_root_logdet n ML.1 ML.2 ln_mul) //; apply: hv; rewrite inE MLin orbT.
Qed.

End Cache.
