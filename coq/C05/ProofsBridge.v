(* C05 — refinement of the executable list model (ModelBase.v / Model.v) to MathComp matrices over a real closed
   field: the kernels the deterministic paths run (forward substitution, the Cholesky-form inverse quadratic,
   the summed logs, the Kronecker product of eigenvalue vectors, the StochasticLQ accumulation) compute the
   matrix expressions of ProofsAlg.v, for all sizes. *)
From mathcomp Require Import all_ssreflect all_fingroup all_algebra.
Require Import C05.ModelBase C05.ModelCG C05.Model C05.ProofsAlg C05.ProofsLog.
Set Implicit Arguments. Unset Strict Implicit. Unset Printing Implicit Defensive.
Import Order.TTheory GRing.Theory Num.Theory.
Local Open Scope ring_scope.

Section Bridge.
Variable F : rcfType.
Variable ln : F -> F.

(* the exact-arithmetic instance of the arithmetic record *)
Definition ArR : Arith F :=
  MkArith 0 1 +%R (fun x y => x - y) *%R (fun x y => x / y) -%R Num.sqrt Num.norm ln
          (fun x y => x < y) (fun x y => x <= y) (fun x y => x == y) 0.

Notation vget := (vget ArR).
Notation mget := (mget ArR).

Definition mx_of (m n : nat) (M : mat F) : 'M[F]_(m, n) := \matrix_(i, j) mget M i j.
Definition cv_of (n : nat) (v : vec F) : 'cV[F]_n := \col_i vget v i.

Lemma sumn_big (f : nat -> F) k : sumn_ ArR f k = \sum_(i < k) f i.
Proof. by elim: k => [|k IH] /=; rewrite ?big_ord0 // big_ord_recr /= IH. Qed.

Lemma prodn_big (f : nat -> F) k : prodn_ ArR f k = \prod_(i < k) f i.
Proof. by elim: k => [|k IH] /=; rewrite ?big_ord0 // big_ord_recr /= IH. Qed.

(* ------------------------------------------------------------------ forward substitution *)
Lemma size_fsubf l r k : size (fsubf ArR l r k) = k.
Proof. by elim: k => //= k IH; rewrite size_rcons IH. Qed.

Lemma fsubf_prefix l r k i : (i < k)%N -> vget (fsubf ArR l r k.+1) i = vget (fsubf ArR l r k) i.
Proof. by move=> ik; rewrite /vget /ModelBase.vget /= nth_rcons size_fsubf ik. Qed.

Lemma fsubf_stable l r k k' i : (i < k)%N -> (k <= k')%N -> vget (fsubf ArR l r k') i = vget (fsubf ArR l r k) i.
Proof.
move=> ik; elim: k' => [|k' IH]; first by rewrite leqn0 => /eqP E; rewrite E in ik.
rewrite leq_eqVlt => /orP[/eqP -> //|]; rewrite ltnS => kk'.
by rewrite fsubf_prefix ?IH //; apply: leq_trans kk'.
Qed.

(* the computed vector solves the lower-triangular system row by row *)
Lemma fsubf_spec (l : nat -> nat -> F) (r : nat -> F) k :
  (forall i, (i < k)%N -> l i i != 0) ->
  forall i, (i < k)%N -> \sum_(j < i.+1) l i j * vget (fsubf ArR l r k) j = r i.
Proof.
elim: k => // k IH nz i; rewrite ltnS leq_eqVlt => /orP[/eqP -> {i}|ik]; last first.
  rewrite -[RHS](IH _ i ik); last by move=> j jk; apply: nz; apply: ltnW.
  by apply: eq_bigr => j _; rewrite fsubf_prefix //; apply: leq_trans ik; rewrite ltnS; case: j => j /=; rewrite ltnS.
rewrite big_ord_recr /=.
have -> : \sum_(j < k) l k j * vget (fsubf ArR l r k.+1) j = \sum_(j < k) l k j * vget (fsubf ArR l r k) j.
  by apply: eq_bigr => j _; rewrite fsubf_prefix.
rewrite {2}/vget /ModelBase.vget /= nth_rcons size_fsubf ltnn eqxx /= sumn_big.
rewrite mulrC divfK ?nz // addrC subrK.
by [].
Qed.

(* matrix form: for a lower-triangular accessor with non-zero diagonal, forward substitution returns L^-1 r *)
Definition lowerf (n : nat) (l : nat -> nat -> F) : Prop := forall i j, (i < j)%N -> (j < n)%N -> l i j = 0.
Definition diagf_nz (n : nat) (l : nat -> nat -> F) : Prop := forall i, (i < n)%N -> l i i != 0.
Definition mxf (n : nat) (l : nat -> nat -> F) : 'M[F]_n := \matrix_(i, j) l i j.

Lemma lowerf_trig n l : lowerf n l -> is_trig_mx (mxf n l).
Proof. by move=> lo; apply/is_trig_mxP => i j ij; rewrite mxE; exact: lo. Qed.

Lemma lowerf_unit n l : lowerf n l -> diagf_nz n l -> mxf n l \in unitmx.
Proof.
move=> lo nz; rewrite unitmxE (det_trig (lowerf_trig lo)) unitfE.
by apply/prodf_neq0 => i _; rewrite mxE nz.
Qed.

Lemma fsubf_mx n l (r : vec F) : lowerf n l -> diagf_nz n l ->
  mxf n l *m cv_of n (fsubf ArR l (vget r) n) = cv_of n r.
Proof.
move=> lo nz; apply/matrixP => i j; rewrite !mxE.
rewrite -(@fsubf_spec l (vget r) n nz i (ltn_ord i)).
rewrite (big_ord_widen n (fun j => l i j * vget (fsubf ArR l (vget r) n) j)) //.
rewrite [RHS]big_mkcond /=; apply: eq_bigr => k _; rewrite !mxE.
by case: ifP => // /negbT; rewrite -leqNgt => ik; rewrite lo ?mul0r.
Qed.

Lemma fsubf_inv n l (r : vec F) : lowerf n l -> diagf_nz n l ->
  cv_of n (fsubf ArR l (vget r) n) = invmx (mxf n l) *m cv_of n r.
Proof. by move=> lo nz; rewrite -(fsubf_mx r lo nz) mulKmx // lowerf_unit. Qed.

(* list matrices *)
Definition lower (n : nat) (T : mat F) : Prop := lowerf n (mget T).
Definition upper (n : nat) (T : mat F) : Prop := lowerf n (fun i j => mget T j i).
Definition diag_nz (n : nat) (T : mat F) : Prop := diagf_nz n (mget T).

Lemma mxf_mget n T : mxf n (mget T) = mx_of n n T.
Proof. by apply/matrixP => i j; rewrite !mxE. Qed.
Lemma mxf_mget_tr n T : mxf n (fun i j => mget T j i) = (mx_of n n T)^T.
Proof. by apply/matrixP => i j; rewrite !mxE. Qed.

(* ------------------------------------------------------------------ CholLinearOperator *)
(* rhs matrix from its list of columns *)
Definition cols_mx (n t : nat) (R : cols F) : 'M[F]_(n, t) := \matrix_(i, j) vget (nth [::] R j) i.

Lemma col_cols_mx n t (R : cols F) (j : 'I_t) : col j (cols_mx n t R) = cv_of n (nth [::] R j).
Proof. by apply/matrixP => i k; rewrite !mxE. Qed.

(* sum of squares of  L^-1 r_j  =  (R^T (L L^T)^-1 R)_jj *)
Lemma sumsq_fsubf n t l (R : cols F) (j : 'I_t) : lowerf n l -> diagf_nz n l ->
  sumn_ ArR (fun i => sq ArR (vget (fsubf ArR l (vget (nth [::] R j)) n) i)) n =
  ((cols_mx n t R)^T *m invmx (mxf n l *m (mxf n l)^T) *m cols_mx n t R) j j.
Proof.
move=> lo nz; rewrite chol_inv_quad ?lowerf_unit // sumn_big.
apply: eq_bigr => i _.
have := fsubf_inv (nth [::] R j) lo nz => /matrixP /(_ i 0); rewrite mxE => ->.
by rewrite -col_cols_mx colE mulmxA -colE mxE /sq /= expr2.
Qed.

(* lower factor (the Cholesky shortcut and CholLinearOperator(upper=False)):
   the model's inverse quadratic of column j  =  (R^T (L L^T)^-1 R)_jj *)
Lemma chol_iq_col_correct n t T (R : cols F) (j : 'I_t) : lower n T -> diag_nz n T ->
  chol_iq_col ArR false n T (nth [::] R j) =
  ((cols_mx n t R)^T *m invmx (mx_of n n T *m (mx_of n n T)^T) *m cols_mx n t R) j j.
Proof. by move=> lo nz; rewrite -mxf_mget -sumsq_fsubf. Qed.

(* upper factor U (CholLinearOperator(upper=True), A = U^T U) *)
Lemma chol_iq_col_upper_correct n t T (R : cols F) (j : 'I_t) : upper n T -> diag_nz n T ->
  chol_iq_col ArR true n T (nth [::] R j) =
  ((cols_mx n t R)^T *m invmx ((mx_of n n T)^T *m mx_of n n T) *m cols_mx n t R) j j.
Proof.
move=> up nz; rewrite -{2}[mx_of n n T]trmxK -mxf_mget_tr -sumsq_fsubf //.
Qed.

(* the model's log-determinant of a Cholesky factor is the sum of  ln l_ii^2 ; with ln_mul: ln det (L L^T) *)
Lemma chol_logdet_sum n T : chol_logdet ArR n T = \sum_(i < n) ln ((mx_of n n T) i i ^+ 2).
Proof. by rewrite /chol_logdet sumn_big; apply: eq_bigr => i _; rewrite mxE /sq /= expr2. Qed.

Lemma chol_logdet_correct n T :
  (forall x y, 0 < x -> 0 < y -> ln (x * y) = ln x + ln y) ->
  lower n T -> diag_nz n T ->
  chol_logdet ArR n T = ln (\det (mx_of n n T *m (mx_of n n T)^T)).
Proof.
move=> ln_mul lo nz; rewrite chol_logdet_sum (logdet_chol ln_mul) -?mxf_mget ?lowerf_trig //.
by move=> i; rewrite mxE nz.
Qed.

(* TriangularLinearOperator (lower): sum_i r_i (L^-1 r)_i = (R^T L^-1 R)_jj *)
Lemma tri_iq_col_lower_correct n t T (R : cols F) (j : 'I_t) : lower n T -> diag_nz n T ->
  tri_iq_col ArR false n T (nth [::] R j) =
  ((cols_mx n t R)^T *m invmx (mx_of n n T) *m cols_mx n t R) j j.
Proof.
move=> lo nz; rewrite /tri_iq_col /tri_solve sumn_big -mulmxA [RHS]mxE.
apply: eq_bigr => i _; rewrite !mxE; congr (_ * _).
have := fsubf_inv (nth [::] R j) lo nz => /matrixP /(_ i 0); rewrite mxE mxf_mget => ->.
rewrite -col_cols_mx colE mulmxA -colE.
by rewrite !mxE.
Qed.

(* ------------------------------------------------------------------ Diag / Identity closed forms *)
Lemma diag_iq_col_correct (d r : vec F) : (forall i, (i < size d)%N -> vget d i != 0) ->
  diag_iq_col ArR d r =
  ((cv_of (size d) r)^T *m invmx (diag_mx (cv_of (size d) d)^T) *m cv_of (size d) r) 0 0.
Proof.
move=> nz; set n := size d.
have ud : diag_mx (cv_of n d)^T \in unitmx.
  rewrite unitmxE det_diag unitfE; apply/prodf_neq0 => i _; by rewrite !mxE nz.
have -> : invmx (diag_mx (cv_of n d)^T) = diag_mx (\row_i (vget d i)^-1).
  rewrite -[RHS]mul1mx -(mulVmx ud) -mulmxA mulmx_diag.
  have -> : diag_mx (\row_i ((cv_of n d)^T 0 i * (\row_i0 (vget d i0)^-1) 0 i)) = 1%:M.
    apply/matrixP => i k; rewrite !mxE; case: (i == k) => //; rewrite ?mulr0n // mulr1n.
    by rewrite mulfV // nz.
  by rewrite mulmx1.
rewrite /diag_iq_col sumn_big -mulmxA mxE; apply: eq_bigr => i _.
rewrite mul_diag_mx !mxE /=.
by rewrite mulrA.
Qed.

Lemma ident_iq_col_correct n (r : vec F) :
  ident_iq_col ArR n r = ((cv_of n r)^T *m cv_of n r) 0 0.
Proof. by rewrite /ident_iq_col sumn_big mxE; apply: eq_bigr => i _; rewrite !mxE. Qed.

Lemma diag_logdet_sum (d : vec F) : diag_logdet ArR d = \sum_(i < size d) ln (vget d i).
Proof. by rewrite /diag_logdet sumn_big. Qed.

(* ------------------------------------------------------------------ Kronecker product of eigenvalue vectors *)
(* _kron_diag / kron_vecs, any number of factors: the product of all entries *)
Lemma size_kron_vec (x y : vec F) : size (kron_vec ArR x y) = (size x * size y)%N.
Proof.
rewrite /kron_vec size_flatten /shape -map_comp sumnE big_map.
rewrite (eq_bigr (fun _ => size y)); last by move=> a _; rewrite /= size_map.
by rewrite big_const_seq count_predT iter_addn_0 mulnC.
Qed.

Lemma prod_kron_vec (x y : vec F) :
  \prod_(z <- kron_vec ArR x y) z = (\prod_(a <- x) a) ^+ size y * (\prod_(b <- y) b) ^+ size x.
Proof.
rewrite /kron_vec big_flatten /= big_map.
rewrite (eq_bigr (fun a => a ^+ size y * \prod_(b <- y) b)); last first.
  move=> a _; rewrite big_map /= big_split /=; congr (_ * _).
  by rewrite big_const_seq count_predT; elim: (size y) => [|k IHk]; rewrite ?expr0 //= IHk exprS.
rewrite big_split /=; congr (_ * _).
  by elim: x => [|a x IH]; rewrite ?big_nil ?expr1n // !big_cons exprMn IH.
by rewrite big_const_seq count_predT; elim: (size x) => [|k IHk]; rewrite ?expr0 //= IHk exprS.
Qed.

(* recursive form of  prod_f (prod evals_f)^(N / n_f)  *)
Fixpoint kron_prod (xs : seq (vec F)) : F :=
  match xs with
  | [::] => 1
  | [:: x] => \prod_(a <- x) a
  | x :: r => (\prod_(a <- x) a) ^+ size (kron_vecs ArR r) * (kron_prod r) ^+ size x
  end.

Lemma prod_kron_vecs (xs : seq (vec F)) : \prod_(z <- kron_vecs ArR xs) z = kron_prod xs.
Proof.
elim: xs => [|x [|y r] IH]; first by rewrite /= big_seq1.
- by [].
- by rewrite [kron_vecs _ _]/= prod_kron_vec IH.
Qed.

(* KroneckerProductLinearOperator._logdet: with ln_mul and eigenvalues above the clamp, the summed logs are
   ln of the product of all Kronecker eigenvalues *)
Lemma sum_ln_seq (v : vec F) :
  (forall x y, 0 < x -> 0 < y -> ln (x * y) = ln x + ln y) -> all (fun x => 0 < x) v ->
  sumn_ ArR (fun i => ln (vget v i)) (size v) = ln (\prod_(x <- v) x).
Proof.
move=> ln_mul pos; rewrite sumn_big (big_nth 0) big_mkord (ln_prod ln_mul) //.
by move=> i _; apply: (allP pos); apply: mem_nth.
Qed.

Lemma kron_logdet_correct (S : settings F) (eigh : nat -> mat F -> vec F * mat F) (fs : seq (nat * mat F)) :
  (forall x y, 0 < x -> 0 < y -> ln (x * y) = ln x + ln y) ->
  0 < k_clamp S -> all (fun x => k_clamp S <= x) (kron_evals ArR eigh fs) ->
  kron_logdet ArR eigh S fs = ln (kron_prod [seq factor_evals ArR eigh f | f <- fs]).
Proof.
move=> ln_mul cpos big; rewrite /kron_logdet -prod_kron_vecs -/(kron_evals ArR eigh fs).
rewrite -sum_ln_seq //; last first.
  by apply/allP => x /(allP big); apply: lt_le_trans.
rewrite !sumn_big; apply: eq_bigr => i _; congr (ln _).
have /(allP big) : vget (kron_evals ArR eigh fs) i \in kron_evals ArR eigh fs by apply: mem_nth.
by rewrite /amax /= ltNge => ->.
Qed.

(* ------------------------------------------------------------------ StochasticLQ.to_dense *)
Lemma ofnat_natr n : ofnat ArR n = n%:R.
Proof. by elim: n => //= n ->; rewrite -[n.+1]addn1 natrD. Qed.

Lemma slq_to_dense_sum n (evs : seq (vec F * mat F)) :
  slq_to_dense ArR n evs = \sum_(ev <- evs) n%:R / (size evs)%:R * slq_probe ArR ev.
Proof.
rewrite /slq_to_dense !ofnat_natr; have -> : adiv ArR n%:R (size evs)%:R = n%:R / (size evs)%:R by [].
move: (_ / _) => c.
have gen (l : seq (vec F * mat F)) z :
    foldl (fun acc ev => aadd ArR acc (amul ArR c (slq_probe ArR ev))) z l = z + \sum_(ev <- l) c * slq_probe ArR ev.
  by elim: l z => [|ev l IH] z /=; rewrite ?big_nil ?addr0 // IH big_cons addrA.
by rewrite [LHS]gen add0r.
Qed.

(* one probe:  sum_k V[0,k]^2 ln(lambda_k)  =  e_1^T (V ln(Lambda) V^T) e_1 *)
Lemma slq_probe_spectral k (w : vec F) (V : mat F) : size w = k.+1 ->
  slq_probe ArR (w, V) =
  (mx_of k.+1 k.+1 V *m diag_mx (map_mx ln (cv_of k.+1 w)^T) *m (mx_of k.+1 k.+1 V)^T) 0 0.
Proof.
move=> sw; rewrite spectral_e1 /slq_probe /= sw sumn_big; apply: eq_bigr => j _.
by rewrite !mxE /sq /= expr2.
Qed.

(* lanczos_tridiag_to_diag: the mask is the identity on non-negative spectra *)
Lemma tridiag_to_diag_nonneg (eigh : nat -> mat F -> vec F * mat F) k T :
  all (fun x => 0 <= x) (eigh k T).1 -> size (eigh k T).1 = k ->
  (tridiag_to_diag ArR eigh k T).1 = (eigh k T).1 /\
  forall i j, (i < k)%N -> (j < k)%N -> mget (tridiag_to_diag ArR eigh k T).2 i j = mget (eigh k T).2 i j.
Proof.
rewrite /tridiag_to_diag; case: (eigh k T) => w V /= pos sw; split.
  by rewrite -[RHS]map_id; apply/eq_in_map => x /(allP pos) /= ->.
move=> i j ik jk; rewrite /mget /ModelBase.mget /mtab (nth_mkseq _ _ ik) (nth_mkseq _ _ jk).
rewrite (nth_map 0) ?sw //.
have /(allP pos) /= -> // : nth 0 w j \in w by apply: mem_nth; rewrite sw.
Qed.

(* ------------------------------------------------------------------ InvQuadLogdet.forward: the stochastic log-determinant *)
(* Whenever the model's forward pass succeeds (logdet forward not skipped), the returned log-determinant of batch member b is
     log|P_b|  +  sum over the m tridiagonal matrices T of that member of  (n/m) * sum_k V_T[0,k]^2 ln(lambda_T[k])
   where (lambda_T, V_T) = lanczos_tridiag_to_diag(T), T the matrices linear_cg returned, log|P_b| the preconditioner
   correction (0 without a preconditioner). *)
Lemma iql_forward_logdet (S : settings F) (eigh : nat -> mat F -> vec F * mat F) bs n gs R reduce probes iq ld :
  ~~ s_skip_logdet_forward S ->
  iql_forward ArR eigh S bs n gs R reduce probes = ROk (iq, ld) ->
  exists o : cg_output F,
    let m := s_num_trace_samples S in
    let tm := odflt [::] (o_tmat o) in
    let ldp := [seq if P is Some L then chol_logdet ArR n L else 0 | P <- [seq member_precond ArR S g | g <- gs]] in
    ld = OVal bs (mkseq (fun b =>
           let Ts := take m (drop (b * m) tm) in
           \sum_(T <- Ts) n%:R / (size Ts)%:R * slq_probe ArR (tridiag_to_diag ArR eigh (size T) T) + nth 0 ldp b)
         (size gs)).
Proof.
move=> /negbTE nskip; rewrite /iql_forward; case: ifP => // _.
case: (run_cg _ _ _ _ _ _ _) => // o [_ <-]; exists o => /=.
rewrite nskip.
have -> : has (fun T : mat F => has (has (is_nanb ArR)) T) (odflt [::] (o_tmat o)) = false.
  have e1 : is_nanb ArR =1 pred0 by move=> x; rewrite /is_nanb /= eqxx.
  have e2 : has (is_nanb ArR) =1 pred0 by move=> r; rewrite (eq_has e1) has_pred0.
  have e3 : (fun T : mat F => has (has (is_nanb ArR)) T) =1 pred0 by move=> T; rewrite (eq_has e2) has_pred0.
  by rewrite (eq_has e3) has_pred0.
congr (OVal _ _); apply: eq_mkseq => b.
by rewrite slq_to_dense_sum size_map big_map.
Qed.

(* ------------------------------------------------------------------ the Cholesky shortcut, end to end for one member *)
(* hypothesis on the torch.linalg.cholesky primitive: the factor the model computes is a Cholesky factor of M *)
Definition chol_ok (n : nat) (M : mat F) : Prop :=
  let L := cholesky ArR n M in
  [/\ lower n L, diag_nz n L & mx_of n n L *m (mx_of n n L)^T = mx_of n n M].

(* inverse quadratic form and log-determinant of the dense route = the dense values *)
Lemma dense_iq_col_correct n t M (R : cols F) (j : 'I_t) : chol_ok n M ->
  dense_iq_col ArR n M (nth [::] R j) = ((cols_mx n t R)^T *m invmx (mx_of n n M) *m cols_mx n t R) j j.
Proof. by case=> lo nz E; rewrite /dense_iq_col chol_iq_col_correct // E. Qed.

Lemma dense_chol_logdet_correct n M :
  (forall x y, 0 < x -> 0 < y -> ln (x * y) = ln x + ln y) -> chol_ok n M ->
  dense_chol_logdet ArR n M = ln (\det (mx_of n n M)).
Proof. by move=> ln_mul [lo nz E]; rewrite /dense_chol_logdet chol_logdet_correct // E. Qed.

(* ------------------------------------------------------------------ TriangularLinearOperator: the sign rule *)
Lemma asign_sgr (x : F) : asign ArR x = Num.sg x.
Proof.
rewrite /asign /=; case: (ltrgt0P x) => [x0|x0|->]; rewrite ?sgr0 ?ltxx //.
- by rewrite gtr0_sg.
- by rewrite ltr0_sg.
Qed.

(* with a positive determinant the model returns  sum_i ln|t_ii| = ln det T  (and never the NaN of the sign rule);
   with a negative determinant it returns the NaN placeholder *)
Lemma tri_logdet_correct n T :
  (forall x y, 0 < x -> 0 < y -> ln (x * y) = ln x + ln y) ->
  lower n T -> diag_nz n T -> 0 < \det (mx_of n n T) ->
  tri_logdet ArR n T = ln (\det (mx_of n n T)).
Proof.
move=> ln_mul lo nz dpos; rewrite /tri_logdet prodn_big sumn_big.
have dE : \det (mx_of n n T) = \prod_(i < n) mget T i i.
  by rewrite -mxf_mget (det_trig (lowerf_trig lo)); apply: eq_bigr => i _; rewrite mxE.
have -> : \prod_(i < n) asign ArR (mget T i i) = Num.sg (\det (mx_of n n T)).
  by rewrite dE (big_morph _ (@sgrM F) (@sgr1 F)); apply: eq_bigr => i _; rewrite asign_sgr.
rewrite gtr0_sg //= ltr10 /=.
rewrite -(ln_prod ln_mul); last by move=> i _; rewrite normr_gt0 nz.
by rewrite -(big_morph _ (@normrM F) (@normr1 F)) -dE gtr0_norm.
Qed.

Lemma tri_logdet_negative n T : lower n T -> \det (mx_of n n T) < 0 -> tri_logdet ArR n T = 0.
Proof.
move=> lo dneg; rewrite /tri_logdet prodn_big.
have dE : \det (mx_of n n T) = \prod_(i < n) mget T i i.
  by rewrite -mxf_mget (det_trig (lowerf_trig lo)); apply: eq_bigr => i _; rewrite mxE.
have -> : \prod_(i < n) asign ArR (mget T i i) = Num.sg (\det (mx_of n n T)).
  by rewrite dE (big_morph _ (@sgrM F) (@sgr1 F)); apply: eq_bigr => i _; rewrite asign_sgr.
by rewrite ltr0_sg //= ltrN10.
Qed.

End Bridge.
