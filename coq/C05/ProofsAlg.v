(* C05 — matrix-algebra identities behind the deterministic log-determinant / inverse-quadratic paths and the
   stochastic-Lanczos-quadrature formula (MathComp; any field, all sizes, axiom-free). *)
From mathcomp Require Import all_ssreflect all_fingroup all_algebra.
From mathcomp Require Import mxtens.
Set Implicit Arguments. Unset Strict Implicit. Unset Printing Implicit Defensive.
Import GRing.Theory Num.Theory.
Local Open Scope ring_scope.

(* ---------------------------------------------------------------------------------------------- *)
(* Cholesky form: det (L L^T) = prod l_ii^2                                                        *)
Section DetChol.
Variable F : fieldType.
Variable n : nat.
Variable L : 'M[F]_n.
Hypothesis Ltrig : is_trig_mx L.

Lemma det_LLt : \det (L *m L^T) = \prod_i (L i i) ^+ 2.
Proof.
rewrite det_mulmx det_tr (det_trig Ltrig) -big_split /=.
by apply: eq_bigr => i _; rewrite expr2.
Qed.
End DetChol.

(* ---------------------------------------------------------------------------------------------- *)
(* Sylvester's identity, the matrix determinant lemma, Woodbury                                    *)
Section Sylvester.
Variable F : fieldType.
Variables n k : nat.

Lemma sylvester (A : 'M[F]_(n,k)) (B : 'M[F]_(k,n)) :
  \det (1%:M + A *m B) = \det (1%:M + B *m A).
Proof.
pose P : 'M[F]_(n + k) := block_mx 1%:M (- A) B 1%:M.
pose Q : 'M[F]_(n + k) := block_mx 1%:M A 0 1%:M.
have dQ : \det Q = 1 by rewrite det_ublock !det1 mulr1.
have e1 : P *m Q = block_mx 1%:M 0 B (1%:M + B *m A).
  rewrite mulmx_block !mul1mx !mulmx1 !mulmx0 !addr0.
  by rewrite subrr [B *m A + _]addrC.
have e2 : Q *m P = block_mx (1%:M + A *m B) 0 B 1%:M.
  rewrite mulmx_block !mul1mx !mulmx1 !mul0mx !add0r ?addr0.
  by rewrite [- A + A]addrC subrr.
have := congr1 determinant e1; have := congr1 determinant e2.
rewrite !det_mulmx dQ mul1r mulr1 !det_lblock !det1 mulr1 mul1r.
by move=> <- ->.
Qed.

Lemma det_lemma (D : 'M[F]_n) (U : 'M[F]_(n,k)) : D \in unitmx ->
  \det (D + U *m U^T) = \det D * \det (1%:M + U^T *m invmx D *m U).
Proof.
move=> uD.
have -> : D + U *m U^T = D *m (1%:M + (invmx D *m U) *m U^T).
  by rewrite mulmxDr mulmx1 !mulmxA mulmxV // mul1mx.
by rewrite det_mulmx sylvester mulmxA.
Qed.

(* Woodbury: the solve LowRankRootAddedDiagLinearOperator._solve computes *)
Lemma woodbury (D : 'M[F]_n) (U : 'M[F]_(n,k)) :
  D \in unitmx -> (1%:M + U^T *m invmx D *m U) \in unitmx ->
  (D + U *m U^T) *m (invmx D - invmx D *m U *m invmx (1%:M + U^T *m invmx D *m U) *m U^T *m invmx D) = 1%:M.
Proof.
move=> uD uC; set C := 1%:M + _ in uC *.
set Di := invmx D. pose W := U^T *m Di.
have CE : C = 1%:M + W *m U by [].
have -> : Di - Di *m U *m invmx C *m U^T *m Di = Di - Di *m (U *m invmx C *m W).
  by rewrite /W !mulmxA.
rewrite mulmxBr mulmxDl [D *m Di]mulmxV // mulmxDl !mulmxA mulmxV // mul1mx.
have -> : U *m U^T *m Di = U *m W by rewrite /W mulmxA.
have -> : U *m invmx C *m U^T *m Di + U *m W *m U *m invmx C *m U^T *m Di = U *m (C *m invmx C) *m W.
  by rewrite {1}CE mulmxDl mul1mx mulmxDr mulmxDl /W !mulmxA.
by rewrite mulmxV // mulmx1 addrK.
Qed.
End Sylvester.

(* ---------------------------------------------------------------------------------------------- *)
(* eigenvalue forms: determinant from an eigendecomposition, constant-diagonal shift, symmetrisation *)
Section Spectral.
Variable F : fieldType.
Variable n : nat.

(* eigendecomposition hypothesis: A V = V diag(a), V invertible *)
Lemma det_eig (A V : 'M[F]_n) (a : 'rV[F]_n) :
  V \in unitmx -> A *m V = V *m diag_mx a -> \det A = \prod_i a 0 i.
Proof.
move=> uV E; have := congr1 determinant E.
rewrite !det_mulmx det_diag mulrC => /(mulfI _) -> //.
by rewrite -unitfE -unitmxE.
Qed.

Lemma det_shift (A V : 'M[F]_n) (a : 'rV[F]_n) (s : F) :
  V \in unitmx -> A *m V = V *m diag_mx a -> \det (A + s%:M) = \prod_i (a 0 i + s).
Proof.
move=> uV E.
have E' : (A + s%:M) *m V = V *m diag_mx (a + const_mx s).
  rewrite mulmxDl E mul_scalar_mx -mul_mx_scalar -mulmxDr; congr (_ *m _).
  by apply/matrixP => i j; rewrite !mxE; case: (i == j); rewrite ?mulr1n ?mulr0n ?addr0.
by rewrite (det_eig uV E'); apply: eq_bigr => i _; rewrite !mxE.
Qed.

(* symmetrised form used by KroneckerProductAddedDiagLinearOperator: K + D = S^-1 (S K S + I) S^-1 with D = S^-1 S^-1 *)
Lemma det_symmetrize (K S : 'M[F]_n) : S \in unitmx ->
  \det (K + invmx S *m invmx S) = \det (invmx S *m invmx S) * \det (S *m K *m S + 1%:M).
Proof.
move=> uS.
have -> : K + invmx S *m invmx S = invmx S *m (S *m K *m S + 1%:M) *m invmx S.
  rewrite mulmxDr mulmxDl mulmx1 !mulmxA mulVmx // mul1mx -mulmxA mulmxV // mulmx1.
  by [].
by rewrite !det_mulmx mulrAC.
Qed.
End Spectral.

Section InvQuad.
Variable F : fieldType.
Variables n t : nat.

Lemma invmx_mulmx (X Y : 'M[F]_n) : X \in unitmx -> Y \in unitmx ->
  invmx (X *m Y) = invmx Y *m invmx X.
Proof.
move=> uX uY; have uXY : X *m Y \in unitmx by rewrite unitmx_mul uX.
rewrite -[LHS]mulmx1 -[1%:M](mulmxV uX) -[X in _ *m (X *m _)]mulmx1 -(mulmxV uY).
by rewrite !mulmxA -[_ *m X *m Y]mulmxA mulVmx // mul1mx.
Qed.

Lemma colsum_hadamard (Ai : 'M[F]_n) (R : 'M[F]_(n,t)) j :
  \sum_i R i j * (Ai *m R) i j = (R^T *m Ai *m R) j j.
Proof.
rewrite -mulmxA [RHS]mxE; apply: eq_bigr => i _; by rewrite !mxE.
Qed.

Lemma reduce_is_trace (Ai : 'M[F]_n) (R : 'M[F]_(n,t)) :
  \sum_j \sum_i R i j * (Ai *m R) i j = \tr (R^T *m Ai *m R).
Proof. by rewrite /mxtrace; apply: eq_bigr => j _; rewrite colsum_hadamard. Qed.

Lemma chol_inv_quad (L : 'M[F]_n) (R : 'M[F]_(n,t)) j : L \in unitmx ->
  (R^T *m invmx (L *m L^T) *m R) j j = \sum_i ((invmx L *m R) i j) ^+ 2.
Proof.
move=> uL.
have uLt : L^T \in unitmx by rewrite unitmx_tr.
rewrite invmx_mulmx // -trmx_inv -!mulmxA [invmx L *m R as X in _ *m (_ *m X)]lock.
rewrite mulmxA -trmx_mul -lock mxE; apply: eq_bigr => i _; by rewrite !mxE expr2.
Qed.
End InvQuad.

(* ---------------------------------------------------------------------------------------------- *)
(* Kronecker products (mathcomp.real_closed.mxtens)                                                *)
Section Kron.
Variable F : fieldType.

(* the Kronecker product of two diagonal matrices is the diagonal matrix of the products *)
Definition kron_row m p (a : 'rV[F]_m) (b : 'rV[F]_p) : 'rV[F]_(m * p) :=
  \row_k (a 0 (mxtens_unindex k).1 * b 0 (mxtens_unindex k).2).

Lemma tens_diag m p (a : 'rV[F]_m) (b : 'rV[F]_p) :
  diag_mx a *t diag_mx b = diag_mx (kron_row a b).
Proof.
apply/matrixP => i j.
case: (mxtens_indexP i) => i1 i2; case: (mxtens_indexP j) => j1 j2.
rewrite tensmxE !mxE !mxtens_indexK /=.
rewrite (can_eq (@mxtens_indexK m p)) xpair_eqE.
by case: (i1 == j1); case: (i2 == j2); rewrite ?mulr1n ?mulr0n ?mul0r ?mulr0.
Qed.

Lemma prod_kron_row m p (a : 'rV[F]_m) (b : 'rV[F]_p) :
  \prod_k kron_row a b 0 k = \prod_i \prod_j (a 0 i * b 0 j).
Proof.
rewrite pair_big /=.
rewrite (reindex (@mxtens_index m p)) /=; last first.
  by exists (@mxtens_unindex m p) => k _; rewrite ?mxtens_indexK ?mxtens_unindexK.
by apply: eq_bigr => -[i j] _; rewrite !mxE mxtens_indexK.
Qed.

(* eigenvalues of A (x) B are the products of the eigenvalues of the factors; determinant = product of all of them *)
Lemma kron_eig m p (A VA : 'M[F]_m) (B VB : 'M[F]_p) (a : 'rV[F]_m) (b : 'rV[F]_p) :
  A *m VA = VA *m diag_mx a -> B *m VB = VB *m diag_mx b ->
  (A *t B) *m (VA *t VB) = (VA *t VB) *m diag_mx (kron_row a b).
Proof. by move=> EA EB; rewrite tensmx_mul EA EB -tensmx_mul tens_diag. Qed.

Lemma det_size0 n (M : 'M[F]_n) : n = 0%N -> \det M = 1.
Proof. by move=> E; move: M; rewrite E => M; exact: det_mx00. Qed.

Lemma det_kron m p (A VA : 'M[F]_m) (B VB : 'M[F]_p) (a : 'rV[F]_m) (b : 'rV[F]_p) :
  VA \in unitmx -> VB \in unitmx ->
  A *m VA = VA *m diag_mx a -> B *m VB = VB *m diag_mx b ->
  \det (A *t B) = \prod_i \prod_j (a 0 i * b 0 j).
Proof.
case: m A VA a => [|m] A VA a.
  by move=> _ _ _ _; rewrite big_ord0 det_mx00.
case: p B VB b => [|p] B VB b uA uB EA EB.
  rewrite big1; last by move=> i _; rewrite big_ord0.
  by apply: det_size0; rewrite muln0.
have uV : VA *t VB \in unitmx by apply: tensmx_unit.
have := congr1 determinant (kron_eig EA EB).
rewrite !det_mulmx det_diag mulrC => /(mulfI _) -> //; first exact: prod_kron_row.
by rewrite -unitfE -unitmxE.
Qed.
End Kron.

(* ---------------------------------------------------------------------------------------------- *)
(* block-diagonal operators                                                                        *)
Section BlockDiag.
Variable F : fieldType.

(* block-diagonal matrix of a list of square blocks of arbitrary (possibly different) orders *)
Definition blk := {n : nat & 'M[F]_n}.
Fixpoint bdim (l : seq blk) : nat := if l is B :: r then (projT1 B + bdim r)%N else 0%N.
Fixpoint bdiag (l : seq blk) : 'M[F]_(bdim l) :=
  if l is B :: r then block_mx (projT2 B) 0 0 (bdiag r) else 0.

Lemma det_bdiag (l : seq blk) : \det (bdiag l) = \prod_(B <- l) \det (projT2 B).
Proof.
elim: l => [|B r IH] /=; first by rewrite big_nil det_mx00.
by rewrite big_cons det_ublock IH.
Qed.

(* interleaved layout = block-diagonal layout conjugated by a permutation: same determinant *)
Lemma det_perm_conj n (s : {perm 'I_n}) (M : 'M[F]_n) : \det (perm_mx s *m M *m (perm_mx s)^T) = \det M.
Proof.
rewrite !det_mulmx det_tr det_perm mulrAC -signr_addb addbb mul1r.
by [].
Qed.
End BlockDiag.

(* ---------------------------------------------------------------------------------------------- *)
(* spectral calculus used by StochasticLQ                                                          *)
Section SLQ.
Variable F : fieldType.
Variable k : nat.

(* e_1^T (V f(Lambda) V^T) e_1 = sum_j V_{1j}^2 f(lambda_j) *)
Lemma spectral_e1 (V : 'M[F]_k.+1) (lam : 'rV[F]_k.+1) (f : F -> F) :
  (V *m diag_mx (map_mx f lam) *m V^T) 0 0 = \sum_j (V 0 j) ^+ 2 * f (lam 0 j).
Proof.
rewrite mxE; apply: eq_bigr => j _.
by rewrite mul_mx_diag !mxE expr2 mulrAC.
Qed.

(* for polynomial f the matrix function does not depend on the eigendecomposition: p(V Lambda V^-1) = V p(Lambda) V^-1 *)
Lemma horner_eig (V T : 'M[F]_k.+1) (lam : 'rV[F]_k.+1) (p : {poly F}) :
  V \in unitmx -> T = V *m diag_mx lam *m invmx V ->
  horner_mx T p = V *m diag_mx (map_mx (horner p) lam) *m invmx V.
Proof. by move=> uV ->; rewrite horner_mx_uconj // horner_mx_diag. Qed.

(* full-dimension form for polynomial f: if T = Q^T At Q with Q orthogonal, then
   e_1^T p(T) e_1 = u^T p(At) u  with  u = Q e_1 (the first column of Q) *)
Lemma poly_full_dimension (Q At : 'M[F]_k.+1) (p : {poly F}) :
  Q^T *m Q = 1%:M ->
  (horner_mx (Q^T *m At *m Q) p) 0 0 = ((col 0 Q)^T *m horner_mx At p *m col 0 Q) 0 0.
Proof.
move=> QtQ.
have uQ : Q \in unitmx by case: (mulmx1_unit QtQ).
have Qi : invmx Q = Q^T by rewrite -[LHS]mul1mx -QtQ mulmxK.
rewrite -Qi horner_mx_uconjC // Qi.
rewrite -!mulmxA !mxE; apply: eq_bigr => i _; rewrite !mxE; congr (_ * _).
by apply: eq_bigr => j _; rewrite !mxE.
Qed.
End SLQ.
