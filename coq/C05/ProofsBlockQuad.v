(* C05 — inverse quadratic form of a block-diagonal operator = sum of the blocks' inverse quadratic forms
   (the identity behind BlockDiagLinearOperator.inv_quad_logdet's ".sum over the block dimension"), any number of blocks
   of any sizes; conjugation by a permutation (BlockInterleaved layout). *)
From mathcomp Require Import all_ssreflect all_fingroup all_algebra.
Require Import C05.ProofsAlg.
Set Implicit Arguments. Unset Strict Implicit. Unset Printing Implicit Defensive.
Import GRing.Theory.
Local Open Scope ring_scope.

Section BlockQuad.
Variable F : fieldType.

(* sum over the blocks of v_B^T B^-1 v_B, v split conformally *)
Fixpoint bquad (l : seq (blk F)) : 'cV[F]_(bdim l) -> F :=
  match l return 'cV[F]_(bdim l) -> F with
  | B :: r => fun v => ((usubmx v)^T *m invmx (projT2 B) *m usubmx v) 0 0 + bquad (dsubmx v)
  | [::] => fun _ => 0
  end.

Lemma bdiag_unit (l : seq (blk F)) : (forall B, B \in l -> projT2 B \in unitmx) -> bdiag l \in unitmx.
Proof.
move=> h; rewrite unitmxE det_bdiag unitfE prodf_seq_neq0; apply/allP => B Bl /=.
by rewrite -unitfE -unitmxE; exact: h.
Qed.

Lemma invmx_block_diag m n (X : 'M[F]_m) (Y : 'M[F]_n) : X \in unitmx -> Y \in unitmx ->
  invmx (block_mx X 0 0 Y) = block_mx (invmx X) 0 0 (invmx Y).
Proof.
move=> uX uY.
have e : block_mx X 0 0 Y *m block_mx (invmx X) 0 0 (invmx Y) = 1%:M.
  by rewrite mulmx_block !mulmx0 !mul0mx !addr0 !add0r !mulmxV // -scalar_mx_block.
have u : block_mx X 0 0 Y \in unitmx by case: (mulmx1_unit e).
by rewrite -[RHS]mul1mx -(mulVmx u) -mulmxA e mulmx1.
Qed.

Theorem inv_quad_bdiag (l : seq (blk F)) (v : 'cV[F]_(bdim l)) :
  (forall B, B \in l -> projT2 B \in unitmx) ->
  (v^T *m invmx (bdiag l) *m v) 0 0 = bquad v.
Proof.
elim: l v => [|B r IH] v h /=.
  by rewrite mxE big_ord0.
have uB : projT2 B \in unitmx by apply: h; rewrite mem_head.
have hr : forall B', B' \in r -> projT2 B' \in unitmx by move=> B' B'r; apply: h; rewrite inE B'r orbT.
rewrite invmx_block_diag ?bdiag_unit // -{1 2}(vsubmxK v) tr_col_mx mul_row_block !mulmx0 addr0 add0r mul_row_col.
by rewrite mxE IH.
Qed.

(* the interleaved layout is a permutation conjugate P M P^T: r^T (P M P^T)^-1 r = (P^T r)^T M^-1 (P^T r) *)
Theorem inv_quad_perm_conj n (s : {perm 'I_n}) (M : 'M[F]_n) (v : 'cV[F]_n) : M \in unitmx ->
  (v^T *m invmx (perm_mx s *m M *m (perm_mx s)^T) *m v) 0 0
  = (((perm_mx s)^T *m v)^T *m invmx M *m ((perm_mx s)^T *m v)) 0 0.
Proof.
move=> uM.
pose P : 'M[F]_n := perm_mx s.
have PtP : P^T *m P = 1%:M by rewrite /P tr_perm_mx -perm_mxM mulVg perm_mx1.
have PPt : P *m P^T = 1%:M by rewrite /P tr_perm_mx -perm_mxM mulgV perm_mx1.
rewrite -/P.
have -> : invmx (P *m M *m P^T) = P *m invmx M *m P^T.
  have e : (P *m M *m P^T) *m (P *m invmx M *m P^T) = 1%:M.
    by rewrite !mulmxA -[_ *m P^T *m P]mulmxA PtP mulmx1 mulmxK // PPt.
  have u : P *m M *m P^T \in unitmx by case: (mulmx1_unit e).
  by rewrite -[LHS]mulmx1 -e mulKmx.
by rewrite trmx_mul trmxK !mulmxA.
Qed.
End BlockQuad.
