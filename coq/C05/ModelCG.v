(* C05 — executable Gallina transcription of linear_operator/utils/linear_cg.py
   (linear_cg, _jit_linear_cg_updates, _jit_linear_cg_updates_no_precond, _default_preconditioner),
   the solver behind LinearOperator._solve and hence behind InvQuadLogdet.forward.

   This file is a copy (snapshot, adapted to C05.ModelBase's arithmetic record) of the line-by-line
   transcription written for property C08 (coq/C08/Model.v); C05 does not depend on C08's development
   and validates the copy by its own correspondence (probes fixed, whole forward pass compared).

   Data layout.  A torch tensor of shape ( *batch, n, c ) is a list of C = |batch|*c COLUMNS
   (flat column index  b*c + j ), each column a list of n scalars.  Quantities of shape
   ( *batch, 1, c ) are lists of C scalars / booleans.  Reductions of the code that run over the whole
   batch ( .mean(), .all(), .max() ) run over all C flat columns, exactly as in the code.
   Line numbers refer to linear_cg.py. *)
From mathcomp Require Import ssreflect ssrfun ssrbool eqtype ssrnat seq div.
Require Import C05.ModelBase.
Set Implicit Arguments.
Unset Strict Implicit.
Unset Printing Implicit Defensive.

Inductive cg_err := ErrTridiagLimit | ErrNotCallable | ErrNaN.
Inductive res (T : Type) := Ok (x : T) | Err (e : cg_err).
Arguments Err {T} e.

Section Model.
Variable F : Type.
Variable A : Arith F.
Notation vec := (vec F).
Notation cols := (cols F).
Notation mat := (mat F).
Notation vget := (vget A).
Notation cget := (@cget F).
Notation mget := (mget A).
Notation mtab := (@mtab F).
Notation sumn_ := (sumn_ A).
Notation ofnat := (ofnat A).
Notation amax := (amax A).
Definition sget (s : seq F) (j : nat) : F := nth (a0 A) s j.
Definition bget (s : seq bool) (j : nat) : bool := nth false s j.

Definition ctab (C n : nat) (f : nat -> nat -> F) : cols := mkseq (fun j => mkseq (f j) n) C.

Definition dot (n : nat) (x y : vec) : F := sumn_ (fun i => amul A (vget x i) (vget y i)) n.
Definition norm2 (n : nat) (x : vec) : F := asqrt A (dot n x x).          (* t.norm(2, dim=-2) *)
Definition mean (C : nat) (s : seq F) : F := adiv A (sumn_ (sget s) C) (ofnat C).   (* t.mean() *)
Definition maxl (s : seq F) : F := if s is x :: r then foldl amax x r else a0 A.  (* t.max() *)
Definition no_nan (X : cols) : bool := all (all (fun x => aeqb A x x)) X.       (* torch.equal(t, t) *)

(* the "safe division" idiom (lines 39-42, 68-71, 254-257):
     torch.lt(den, eps, out=is_zero); den.masked_fill_(is_zero, 1);
     torch.div(num, den, out=den);    den.masked_fill_(is_zero, 0)                       *)
Definition safe_div (eps num den : F) : F :=
  let is_zero := altb A den eps in
  let den1 := if is_zero then a1 A else den in
  let q := adiv A num den1 in
  if is_zero then a0 A else q.

(* dense matmul used when matmul_closure is a tensor (line 164: matmul_closure.matmul):
   one n x n matrix per batch member, nc columns per batch member *)
Definition rowdot (row x : vec) : F :=
  foldl (fun acc rx => aadd A acc (amul A rx.1 rx.2)) (a0 A) (zip row x).
Definition rmatvec (M : mat) (x : vec) : vec := map (fun row => rowdot row x) M.
Definition tensor_mm (nc : nat) (Ms : seq mat) (X : cols) : cols :=
  mkseq (fun j => rmatvec (nth [::] Ms (j %/ nc)) (cget X j)) (size X).

(* ---------------------------------------------------------------------------------------- *)
(* per-iteration numeric state (the tensors the loop keeps)                                  *)
Record cg_num := MkNum {
  x_ : cols;            (* result *)
  r_ : cols;            (* residual *)
  z_ : cols;            (* precond_residual *)
  p_ : cols;            (* curr_conjugate_vec *)
  rz_ : seq F;          (* residual_inner_prod *)
  alpha_ : seq F;
  beta_ : seq F;
  rnorm_ : seq F;       (* residual_norm *)
  conv_ : seq bool      (* has_converged *)
}.

(* tridiagonal bookkeeping; one entry per tridiagonalised flat column (see tri_cols) *)
Record cg_tri := MkTri {
  tmat_ : seq mat;      (* t_mat[:, :, b, q]  as a matrix per (b, q) *)
  par_ : seq F;         (* prev_alpha_reciprocal *)
  pbeta_ : seq F;       (* prev_beta *)
  upd_ : bool;          (* update_tridiag *)
  last_ : nat           (* last_tridiag_iter *)
}.

Record cg_state := MkSt {
  num_ : cg_num;
  tri_ : cg_tri;
  tolr_ : bool;         (* tolerance_reached *)
  iters_ : nat          (* number of loop bodies executed (k + 1 of the warning message) *)
}.

Section Loop.
Variables (n C nc : nat).                 (* rows, flat columns, columns per batch member *)
Variables (mm pre : cols -> cols).        (* matmul_closure, preconditioner *)
Variable precond : bool.
Variables (eps stop_after tolerance tri_thresh : F).
Variable rhs_is_zero : seq bool.
Variables (n_tridiag max_iter nti : nat). (* nti = n_tridiag_iter *)

(* _jit_linear_cg_updates (lines 17-46), given the already updated alpha, residual, precond_residual *)
Definition jit_linear_cg_updates (s : cg_num) (alpha : seq F) (r' z' : cols)
  : cols * seq F * seq F * cols :=
  (* 31: result = torch.addcmul(result, alpha, curr_conjugate_vec, out=result) *)
  let x' := ctab C n (fun j i => aadd A (vget (cget (x_ s) j) i) (amul A (sget alpha j) (vget (cget (p_ s) j) i))) in
  (* 34: beta <- residual_inner_prod (old) *)
  let beta0 := rz_ s in
  (* 35-36: residual_inner_prod = sum(residual * precond_residual, -2) *)
  let rz' := mkseq (fun j => dot n (cget r' j) (cget z' j)) C in
  (* 39-42: safe division beta = residual_inner_prod / beta *)
  let beta' := mkseq (fun j => safe_div eps (sget rz' j) (sget beta0 j)) C in
  (* 46: curr_conjugate_vec.mul_(beta).add_(precond_residual) *)
  let p' := ctab C n (fun j i => aadd A (amul A (vget (cget (p_ s) j) i) (sget beta' j)) (vget (cget z' j) i)) in
  (x', rz', beta', p').

(* alpha of lines 64-74 / 250-260 (identical text in both branches) *)
Definition next_alpha (s : cg_num) (mvms : cols) : seq F :=
  mkseq (fun j =>
    let araw := dot n (cget (p_ s) j) (cget mvms j) in
    let a := safe_div eps (sget (rz_ s) j) araw in
    (* 74/260: alpha.masked_fill_(has_converged, 0) *)
    if bget (conv_ s) j then a0 A else a) C.

(* lines 298-300 *)
Definition norms_masked (r' : cols) : seq F :=
  mkseq (fun j => if bget rhs_is_zero j then a0 A else norm2 n (cget r' j)) C.
Definition lt_all (s : seq F) (t : F) : seq bool := mkseq (fun j => altb A (sget s j) t) C.

(* _jit_linear_cg_updates_no_precond (lines 50-95) followed by lines 298-300 *)
Definition step_no_precond (s : cg_num) (mvms : cols) : cg_num :=
  let alpha := next_alpha s mvms in
  (* 78: torch.addcmul(residual, -alpha, mvms, out=residual) *)
  let r' := ctab C n (fun j i => aadd A (vget (cget (r_ s) j) i) (amul A (aopp A (sget alpha j)) (vget (cget mvms j) i))) in
  (* 82: precond_residual = residual.clone() *)
  let z' := r' in
  let '(x', rz', beta', p') := jit_linear_cg_updates s alpha r' z' in
  let rn := norms_masked r' in
  MkNum x' r' z' p' rz' alpha beta' rn (lt_all rn stop_after).

(* lines 249-281 followed by lines 298-300 *)
Definition step_precond (s : cg_num) (mvms : cols) : cg_num :=
  let alpha := next_alpha s mvms in
  (* 264: residual = torch.addcmul(residual, alpha, mvms, value=-1, out=residual) *)
  let r' := ctab C n (fun j i => aadd A (vget (cget (r_ s) j) i) (amul A (aopp A (a1 A)) (amul A (sget alpha j) (vget (cget mvms j) i)))) in
  (* 268: precond_residual = preconditioner(residual) *)
  let z' := pre r' in
  let '(x', rz', beta', p') := jit_linear_cg_updates s alpha r' z' in
  let rn := norms_masked r' in
  MkNum x' r' z' p' rz' alpha beta' rn (lt_all rn stop_after).

(* lines 248-300: one loop body up to the convergence test; does not depend on k *)
Definition num_step (s : cg_num) : cg_num :=
  let mvms := mm (p_ s) in
  if precond then step_precond s mvms else step_no_precond s mvms.

(* lines 302-306 *)
Definition stop_rule (k : nat) (s : cg_num) : bool :=
  [&& minn 10 max_iter.-1 <= k,
      altb A (mean C (rnorm_ s)) tolerance
    & ~~ ((0 < n_tridiag) && (k < minn nti max_iter.-1))].

(* flat columns that are tridiagonalised: narrow(-1, 0, n_tridiag) in every batch member *)
Definition tri_cols : seq nat := [seq j <- iota 0 C | j %% nc < n_tridiag].

Definition mset (M : mat) (a b : nat) (v : F) : mat :=
  mtab nti nti (fun i j => if (i == a) && (j == b) then v else mget M i j).

(* lines 311-332 *)
Definition tri_step (k : nat) (s : cg_num) (t : cg_tri) : cg_tri :=
  if [&& 0 < n_tridiag, k < nti & upd_ t] then
    let Q := size tri_cols in
    (* 312-317: alpha_reciprocal = 1 / (alpha with exact zeros replaced by 1) *)
    let ar := mkseq (fun q => let a := sget (alpha_ s) (nth 0 tri_cols q) in
                              adiv A (a1 A) (if aeqb A a (a0 A) then a1 A else a)) Q in
    let bt := mkseq (fun q => sget (beta_ s) (nth 0 tri_cols q)) Q in
    if k is k'.+1 then
      (* 322: t_mat[k, k] = alpha_reciprocal + prev_beta * prev_alpha_reciprocal *)
      (* 323: t_mat[k, k-1] = sqrt(prev_beta) * prev_alpha_reciprocal ; 324: t_mat[k-1, k] = same *)
      let off := mkseq (fun q => amul A (asqrt A (sget (pbeta_ t) q)) (sget (par_ t) q)) Q in
      let T' := mkseq (fun q =>
                  let M := nth [::] (tmat_ t) q in
                  let M1 := mset M k k (aadd A (sget ar q) (amul A (sget (pbeta_ t) q) (sget (par_ t) q))) in
                  let M2 := mset M1 k k' (sget off q) in
                  mset M2 k' k (mget M2 k k')) Q in
      (* 326: if t_mat[k-1, k].max() < 1e-6: update_tridiag = False *)
      let offs := mkseq (fun q => mget (nth [::] T' q) k' k) Q in
      MkTri T' ar bt (if altb A (maxl offs) tri_thresh then false else upd_ t) k
    else
      (* 320: t_mat[0, 0] = alpha_reciprocal *)
      let T' := mkseq (fun q => mset (nth [::] (tmat_ t) q) 0 0 (sget ar q)) Q in
      MkTri T' ar bt (upd_ t) k
  else t.

(* lines 245-332: the for loop; fuel = n_iter - k (a bounded `for`, never data dependent).
   Returns the list of states after each executed loop body. *)
Fixpoint cg_trace (fuel k : nat) (s : cg_state) : seq cg_state :=
  if fuel is f.+1 then
    let s1 := num_step (num_ s) in
    if stop_rule k s1 then [:: MkSt s1 (tri_ s) true k.+1]                (* 307-308: break *)
    else let s2 := MkSt s1 (tri_step k s1 (tri_ s)) false k.+1 in
         s2 :: cg_trace f k.+1 s2
  else [::].

Definition cg_loop (n_iter : nat) (s0 : cg_state) : cg_state := last s0 (cg_trace n_iter 0 s0).

End Loop.

(* ---------------------------------------------------------------------------------------- *)
(* the arguments                                                                            *)
Record cg_settings := MkSettings {
  s_max_cg_iterations : nat;                     (* settings.max_cg_iterations.value() *)
  s_max_lanczos_quadrature_iterations : nat;     (* settings.max_lanczos_quadrature_iterations.value() *)
  s_cg_tolerance : F;                            (* settings.cg_tolerance.value() *)
  s_terminate_cg_by_size : bool;                 (* settings.terminate_cg_by_size.on() *)
  s_tri_thresh : F                               (* the literal 1e-6 of line 326 *)
}.

Inductive closure :=
  | ClTensor (Ms : seq mat)          (* torch.is_tensor(matmul_closure): one matrix per batch member *)
  | ClCallable (f : cols -> cols)
  | ClOther.                         (* neither a tensor nor callable *)

Record cg_args := MkArgs {
  g_mc : closure;
  g_n : nat;                         (* rhs.size(-2) *)
  g_nc : nat;                        (* rhs.size(-1) (after the unsqueeze of a 1-D rhs) *)
  g_rhs_is_vec : bool;               (* rhs.ndimension() == 1 *)
  g_rhs : cols;                      (* C flat columns, broadcast to the batch shape of the residual *)
  g_n_tridiag : nat;
  g_tolerance : option F;
  g_eps : F;
  g_stop_after : F;
  g_max_iter : option nat;
  g_max_tridiag_iter : option nat;
  g_x0 : option (bool * cols);       (* initial_guess: (ndimension() == 1, columns broadcast like rhs) *)
  g_pre : option (cols -> cols)
}.

(* everything linear_cg computes before the loop (lines 134-242) *)
Record cg_setup := MkSetup {
  u_mm : cols -> cols;
  u_pre : cols -> cols;
  u_precond : bool;
  u_is_vector : bool;
  u_max_iter : nat;
  u_tolerance : F;
  u_n_iter : nat;                    (* after the early-convergence shortcut *)
  u_nti : nat;
  u_rhs_norm : seq F;                (* after masked_fill_(rhs_is_zero, 1) *)
  u_rhs_is_zero : seq bool;
  u_rhs : cols;                      (* normalised rhs *)
  u_x0 : cols;                       (* normalised initial guess *)
  u_skip : bool;                     (* has_converged.all() and not n_tridiag *)
  u_s0 : cg_state
}.

Definition cg_prepare (S : cg_settings) (g : cg_args) : res cg_setup :=
  let n := g_n g in
  let C := size (g_rhs g) in
  (* 134-136 *)
  let is_vector := g_rhs_is_vec g in
  (* 139-142 *)
  let max_iter := odflt (s_max_cg_iterations S) (g_max_iter g) in
  let max_tridiag_iter := odflt (s_max_lanczos_quadrature_iterations S) (g_max_tridiag_iter g) in
  (* 143-149 *)
  let initial_guess := if g_x0 g is Some (_, X) then X else ctab C n (fun _ _ => a0 A) in
  let is_vector := if g_x0 g is Some (v, _) then v else is_vector in
  (* 150-156 *)
  let tolerance := odflt (s_cg_tolerance S) (g_tolerance g) in
  let pre := if g_pre g is Some f then f else (fun X : cols => X) (* x.clone() *) in
  let precond := if g_pre g is Some _ then true else false in
  (* 159-160 *)
  if max_iter < max_tridiag_iter then Err ErrTridiagLimit else
  (* 163-166 *)
  match (match g_mc g with
         | ClTensor Ms => Some (tensor_mm (g_nc g) Ms)
         | ClCallable f => Some f
         | ClOther => None end) with
  | None => Err ErrNotCallable
  | Some mm =>
    (* 169-172 *)
    let num_rows := n in
    let n_iter := if s_terminate_cg_by_size S then minn max_iter num_rows else max_iter in
    let nti := minn max_tridiag_iter num_rows in
    let eps := g_eps g in
    (* 177-179 *)
    let rhs_norm0 := mkseq (fun j => norm2 n (cget (g_rhs g) j)) C in
    let rhs_is_zero := mkseq (fun j => altb A (sget rhs_norm0 j) eps) C in
    let rhs_norm := mkseq (fun j => if bget rhs_is_zero j then a1 A else sget rhs_norm0 j) C in
    (* 182-183 *)
    let rhs := ctab C n (fun j i => adiv A (vget (cget (g_rhs g) j) i) (sget rhs_norm j)) in
    let x0 := ctab C n (fun j i => adiv A (vget (cget initial_guess j) i) (sget rhs_norm j)) in
    (* 186 *)
    let mx0 := mm x0 in
    let residual := ctab C n (fun j i => asub A (vget (cget rhs j) i) (vget (cget mx0 j) i)) in
    (* 190 *)
    let result := x0 in
    (* 199-200 *)
    if ~~ no_nan residual then Err ErrNaN else
    (* 204-205 *)
    let residual_norm := mkseq (fun j => norm2 n (cget residual j)) C in
    let has_converged := mkseq (fun j => altb A (sget residual_norm j) (g_stop_after g)) C in
    (* 207-208 *)
    let skip := all id has_converged && (g_n_tridiag g == 0) in
    let n_iter := if skip then 0 else n_iter in
    (* 213-215 (not executed when skipped: the fields are then never read) *)
    let precond_residual := if skip then residual else pre residual in
    let curr_conjugate_vec := precond_residual in
    let residual_inner_prod := mkseq (fun j => dot n (cget precond_residual j) (cget residual j)) C in
    (* 219-221: torch.empty *)
    let zerosC := mkseq (fun _ => a0 A) C in
    (* 225-239 *)
    let Q := size (tri_cols C (g_nc g) (g_n_tridiag g)) in
    let t_mat := mkseq (fun _ => mtab nti nti (fun _ _ => a0 A)) Q in
    let zerosQ := mkseq (fun _ => a0 A) Q in
    let s0 := MkSt (MkNum result residual precond_residual curr_conjugate_vec residual_inner_prod
                          zerosC zerosC residual_norm has_converged)
                   (MkTri t_mat zerosQ zerosQ true 0) false 0 in
    Ok (MkSetup mm pre precond is_vector max_iter tolerance n_iter nti rhs_norm rhs_is_zero rhs x0 skip s0)
  end.

Record cg_output := MkOut {
  o_res : cols;                      (* result, un-normalised, flat columns *)
  o_squeeze : bool;                  (* result.squeeze(-1) was applied (is_vector) *)
  o_tmat : option (seq mat);         (* per tridiagonalised flat column (batch-major) *)
  o_warn : bool;                     (* NumericalWarning issued *)
  o_iters : nat;                     (* loop bodies executed *)
  o_mean : F                         (* residual_norm.mean() at exit (text of the warning) *)
}.

Definition cg_final (S : cg_settings) (g : cg_args) (u : cg_setup) : cg_state :=
  cg_loop (g_n g) (size (g_rhs g)) (g_nc g) (u_mm u) (u_pre u) (u_precond u) (g_eps g) (g_stop_after g)
          (u_tolerance u) (s_tri_thresh S) (u_rhs_is_zero u) (g_n_tridiag g) (u_max_iter u) (u_nti u)
          (u_n_iter u) (u_s0 u).

(* lines 334-359 *)
Definition cg_finish (g : cg_args) (u : cg_setup) (s : cg_state) : cg_output :=
  let n := g_n g in
  let C := size (g_rhs g) in
  (* 335: result = result.mul(rhs_norm) *)
  let result := ctab C n (fun j i => amul A (vget (cget (x_ (num_ s)) j) i) (sget (u_rhs_norm u) j)) in
  (* 337: if not tolerance_reached and n_iter > 0: warn *)
  let warn := ~~ tolr_ s && (0 < u_n_iter u) in
  (* 352-357: t_mat[: last_tridiag_iter + 1, : last_tridiag_iter + 1] *)
  let m := minn (last_ (tri_ s)).+1 (u_nti u) in
  let tm := if 0 < g_n_tridiag g
            then Some [seq mtab m m (fun i j => mget M i j) | M <- tmat_ (tri_ s)] else None in
  MkOut result (u_is_vector u) tm warn (iters_ s) (mean C (rnorm_ (num_ s))).

Definition linear_cg (S : cg_settings) (g : cg_args) : res cg_output :=
  match cg_prepare S g with
  | Err e => Err e
  | Ok u => Ok (cg_finish g u (cg_final S g u))
  end.

End Model.
