(* C05 — the Kronecker eigenvalue path of the model, end to end for two factors (bridge to mathcomp's tensor product). *)
From mathcomp Require Import all_ssreflect all_fingroup all_algebra.
From mathcomp Require Import mxtens.
Require Import C05.ModelBase C05.ModelCG C05.Model C05.ProofsAlg C05.ProofsLog C05.ProofsBridge C05.ProofsLRRAD.
Set Implicit Arguments. Unset Strict Implicit. Unset Printing Implicit Defensive.
Import Order.TTheory GRing.Theory Num.Theory.
Local Open Scope ring_scope.

Section KronBridge.
Variable F : rcfType.
Variable ln : F -> F.
Notation ArR := (ArR ln).
Notation mx_of := (mx_of ln).

(* the dense Kronecker product of the model is mathcomp's tensor product of matrices *)
Lemma kron2_tens m p X Y : mx_of (m * p) (m * p) (kron2 ArR m p X Y) = mx_of m m X *t mx_of p p Y.
Proof.
apply/matrixP => i j; rewrite mxE mget_mtab // [RHS]mxE !mxE /=.
by [].
Qed.

Definition rv_of (n : nat) (v : vec F) : 'rV[F]_n := \row_i vget ArR v i.

Lemma prod_rv n (v : vec F) : size v = n -> \prod_(i < n) rv_of n v 0 i = \prod_(x <- v) x.
Proof.
move=> sv; rewrite (big_nth 0) sv big_mkord; apply: eq_bigr => i _; by rewrite mxE.
Qed.

(* eigh contract for one factor: eigenvalues w, eigenvector matrix V invertible, M V = V diag(w) *)
Definition eigh_ok (eigh : nat -> mat F -> vec F * mat F) (f : nat * mat F) : Prop :=
  let '(w, V) := eigh f.1 f.2 in
  [/\ size w = f.1, mx_of f.1 f.1 V \in unitmx,
      mx_of f.1 f.1 f.2 *m mx_of f.1 f.1 V = mx_of f.1 f.1 V *m diag_mx (rv_of f.1 w) & all (fun x => 0 < x) w].

Lemma factor_evals_pos eigh f : eigh_ok eigh f -> factor_evals ArR eigh f = (eigh f.1 f.2).1.
Proof.
rewrite /eigh_ok /factor_evals; case: (eigh f.1 f.2) => w V /= [_ _ _ pos].
rewrite -[RHS]map_id; apply/eq_in_map => x /(allP pos) x0.
by rewrite /amax /= ltNge ltW.
Qed.

(* Kronecker eigenvalue path, two factors, end to end: the model's _logdet equals ln det of the dense Kronecker
   product it denotes, provided eigh returns eigendecompositions and no eigenvalue product is below the clamp *)
Theorem kron2_logdet_end_to_end (S : settings F) (eigh : nat -> mat F -> vec F * mat F) m p X Y :
  (forall x y, 0 < x -> 0 < y -> ln (x * y) = ln x + ln y) ->
  0 < k_clamp S ->
  eigh_ok eigh (m, X) -> eigh_ok eigh (p, Y) ->
  all (fun x => k_clamp S <= x) (kron_evals ArR eigh [:: (m, X); (p, Y)]) ->
  kron_logdet ArR eigh S [:: (m, X); (p, Y)] =
  ln (\det (mx_of (m * p) (m * p) (kron_dense ArR [:: (m, X); (p, Y)]))).
Proof.
move=> ln_mul cpos ok1 ok2 big.
rewrite (kron_logdet_correct ln_mul cpos big) /= !factor_evals_pos //.
rewrite /kron_dense /= kron2_tens.
move: ok1 ok2; rewrite /eigh_ok /=.
case: (eigh m X) => w1 V1; case: (eigh p Y) => w2 V2 /= [s1 u1 E1 _] [s2 u2 E2 _].
rewrite (det_kron u1 u2 E1 E2) s1 s2; congr (ln _).
rewrite (eq_bigr (fun i => rv_of m w1 0 i ^+ p * \prod_(j < p) rv_of p w2 0 j)); last first.
  by move=> i _; rewrite big_split /= prodr_const card_ord.
rewrite big_split /= prodr_const card_ord.
by rewrite prodrXl !prod_rv.
Qed.
End KronBridge.
