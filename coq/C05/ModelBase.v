(* C05 — executable kernels shared by the model of inv_quad / logdet / inv_quad_logdet.

   Definitions only.  Everything is polymorphic in an arithmetic record [Arith F]:
   instantiated on PrimFloat (binary64) in Check.v for execution against the implementation and on
   an arbitrary real closed field (MathComp [rcfType]) in Proofs*.v for the theorems.

   Representation.  A (non-batch) matrix is the list of its rows ([mat]); a right-hand side
   (n x t) is the list of its t COLUMNS ([cols]), each a list of n scalars; a batched tensor is the
   row-major list of its members.

   torch primitives modelled by their mathematical meaning (not verified here):
     torch.linalg.cholesky          -> [cholesky]   (Cholesky-Banachiewicz, row by row)
     torch.linalg.solve_triangular  -> [fsubf] / [bsubf]  (forward / backward substitution)
     torch.cholesky_solve           -> [chol_solve]
     sum(-1), sum(-2)               -> sequential sums [sumn_]
     elementwise mul/div/pow/log/abs/sign, diagonal(), clamp(min=..) *)
From mathcomp Require Import ssreflect ssrfun ssrbool eqtype ssrnat seq div.
Set Implicit Arguments.
Unset Strict Implicit.
Unset Printing Implicit Defensive.

Record Arith (F : Type) := MkArith {
  a0 : F; a1 : F;
  aadd : F -> F -> F; asub : F -> F -> F; amul : F -> F -> F; adiv : F -> F -> F;
  aopp : F -> F; asqrt : F -> F; aabs : F -> F;
  aln : F -> F;                                   (* torch.log *)
  altb : F -> F -> bool; aleb : F -> F -> bool; aeqb : F -> F -> bool;
  anan : F                                        (* float("nan") *)
}.

Section Base.
Variable F : Type.
Variable A : Arith F.

Definition vec := seq F.
Definition cols := seq vec.          (* list of columns *)
Definition mat := seq (seq F).       (* list of rows *)

Definition vget (v : vec) (i : nat) : F := nth (a0 A) v i.
Definition cget (X : cols) (j : nat) : vec := nth [::] X j.
Definition mget (M : mat) (i j : nat) : F := nth (a0 A) (nth [::] M i) j.

Definition vtab (n : nat) (f : nat -> F) : vec := mkseq f n.
Definition mtab (m n : nat) (f : nat -> nat -> F) : mat := mkseq (fun i => mkseq (f i) n) m.

(* sequential sum  ((0 + f 0) + f 1) + ...  *)
Fixpoint sumn_ (f : nat -> F) (k : nat) : F :=
  if k is k'.+1 then aadd A (sumn_ f k') (f k') else a0 A.
(* sequential product  ((1 * f 0) * f 1) * ...  *)
Fixpoint prodn_ (f : nat -> F) (k : nat) : F :=
  if k is k'.+1 then amul A (prodn_ f k') (f k') else a1 A.
Fixpoint ofnat (k : nat) : F := if k is k'.+1 then aadd A (ofnat k') (a1 A) else a0 A.
Definition sq (x : F) : F := amul A x x.
Definition sumv (v : vec) : F := sumn_ (vget v) (size v).
Definition amax (x y : F) : F := if altb A x y then y else x.    (* clamp(min=y) of x:  amax x y *)

Definition mtr (n : nat) (M : mat) : mat := mtab n n (fun i j => mget M j i).
Definition mdiag (n : nat) (M : mat) : vec := vtab n (fun i => mget M i i).
Definition matvec (n : nat) (M : mat) (x : vec) : vec :=
  vtab n (fun i => sumn_ (fun j => amul A (mget M i j) (vget x j)) n).
Definition mmul (m k n : nat) (X Y : mat) : mat :=
  mtab m n (fun i j => sumn_ (fun l => amul A (mget X i l) (mget Y l j)) k).
Definition madd (m n : nat) (X Y : mat) : mat := mtab m n (fun i j => aadd A (mget X i j) (mget Y i j)).
Definition diag_mat (n : nat) (d : vec) : mat := mtab n n (fun i j => if i == j then vget d i else a0 A).
Definition eye (n : nat) : mat := mtab n n (fun i j => if i == j then a1 A else a0 A).

(* ------------------------------------------------------------------ triangular solves *)
(* forward substitution with a lower-triangular matrix given by its accessor l:
     x_i = (r_i - sum_{j<i} l i j * x_j) / l i i ,  i = 0 .. k-1                        *)
Fixpoint fsubf (l : nat -> nat -> F) (r : nat -> F) (k : nat) : vec :=
  if k is k'.+1 then
    let xs := fsubf l r k' in
    rcons xs (adiv A (asub A (r k') (sumn_ (fun j => amul A (l k' j) (vget xs j)) k')) (l k' k'))
  else [::].
(* backward substitution with an upper-triangular accessor u (order n): reversed forward substitution *)
Definition bsubf (n : nat) (u : nat -> nat -> F) (r : nat -> F) : vec :=
  rev (fsubf (fun i j => u (n - i.+1) (n - j.+1)) (fun i => r (n - i.+1)) n).

(* TriangularLinearOperator(T, upper).solve(r)  and  ._transpose_nonbatch().solve(r) *)
Definition tri_solve (n : nat) (up : bool) (T : mat) (r : vec) : vec :=
  if up then bsubf n (mget T) (vget r) else fsubf (mget T) (vget r) n.
Definition tri_solve_t (n : nat) (up : bool) (T : mat) (r : vec) : vec :=
  if up then fsubf (fun i j => mget T j i) (vget r) n else bsubf n (fun i j => mget T j i) (vget r).

(* ------------------------------------------------------------------ Cholesky *)
(* first j entries of row i of the factor, given the rows Ls above it *)
Fixpoint chol_row (M Ls : mat) (i j : nat) : vec :=
  if j is j'.+1 then
    let row := chol_row M Ls i j' in
    let s := sumn_ (fun k => amul A (vget row k) (mget Ls j' k)) j' in
    rcons row (adiv A (asub A (mget M i j') s) (mget Ls j' j'))
  else [::].
Definition chol_next (M Ls : mat) (n i : nat) : vec :=
  let row := chol_row M Ls i i in
  let d := asqrt A (asub A (mget M i i) (sumn_ (fun k => sq (vget row k)) i)) in
  row ++ d :: nseq (n - i.+1) (a0 A).
Fixpoint chol_rows (M : mat) (n i : nat) : mat :=
  if i is i'.+1 then let Ls := chol_rows M n i' in rcons Ls (chol_next M Ls n i') else [::].
Definition cholesky (n : nat) (M : mat) : mat := chol_rows M n n.      (* lower factor *)

(* torch.cholesky_solve(r, L):  (L L^T)^{-1} r *)
Definition chol_solve (n : nat) (L : mat) (r : vec) : vec :=
  let y := fsubf (mget L) (vget r) n in
  bsubf n (fun i j => mget L j i) (vget y).

(* ------------------------------------------------------------------ Kronecker helpers *)
(* dense Kronecker product of two square matrices of orders m and p *)
Definition kron2 (m p : nat) (X Y : mat) : mat :=
  mtab (m * p) (m * p) (fun i j => amul A (mget X (i %/ p) (j %/ p)) (mget Y (i %% p) (j %% p))).
(* _kron_diag: lead (x) trail, flattened lead-major *)
Definition kron_vec (x y : vec) : vec := flatten [seq [seq amul A a b | b <- y] | a <- x].
Fixpoint kron_vecs (xs : seq vec) : vec :=
  match xs with
  | [::] => [:: a1 A]
  | [:: x] => x
  | x :: r => kron_vec x (kron_vecs r)
  end.
Fixpoint kron_mats (fs : seq (nat * mat)) : nat * mat :=
  match fs with
  | [::] => (1, [:: [:: a1 A]])
  | [:: f] => f
  | (m, X) :: r => let '(p, Y) := kron_mats r in (m * p, kron2 m p X Y)
  end.

End Base.
