(* C05 — the summed-log forms the code computes, from the product forms of ProofsAlg.v, for an arbitrary
   function [ln] satisfying  ln (x y) = ln x + ln y  on positive arguments (section hypothesis, so the closed
   theorems are universally quantified over ln: no axiom, no real-number library). *)
From mathcomp Require Import all_ssreflect all_fingroup all_algebra.
From mathcomp Require Import mxtens.
Require Import C05.ProofsAlg.
Set Implicit Arguments. Unset Strict Implicit. Unset Printing Implicit Defensive.
Import GRing.Theory Num.Theory.
Local Open Scope ring_scope.

Section LogForm.
Variable F : realFieldType.
Variable ln : F -> F.
Hypothesis ln_mul : forall x y, 0 < x -> 0 < y -> ln (x * y) = ln x + ln y.

Lemma ln1 : ln 1 = 0.
Proof.
have := ln_mul (@ltr01 F) (@ltr01 F); rewrite mulr1 => /(congr1 (fun z => z - ln 1)).
by rewrite subrr addrK.
Qed.

Lemma ln_prod (I : Type) (r : seq I) (P : pred I) (f : I -> F) :
  (forall i, P i -> 0 < f i) ->
  ln (\prod_(i <- r | P i) f i) = \sum_(i <- r | P i) ln (f i).
Proof.
move=> fpos; elim: r => [|x r IH]; first by rewrite !big_nil ln1.
rewrite !big_cons; case: ifP => // Px.
by rewrite ln_mul ?IH ?fpos // prodr_gt0.
Qed.

(* CholLinearOperator:  sum_i log l_ii^2 = log det (L L^T) *)
Lemma logdet_chol n (L : 'M[F]_n) : is_trig_mx L -> (forall i, L i i != 0) ->
  \sum_i ln ((L i i) ^+ 2) = ln (\det (L *m L^T)).
Proof.
move=> Lt Ld; rewrite det_LLt // ln_prod // => i _.
by rewrite exprn_even_gt0 //=.
Qed.

(* Diag:  sum_i log d_i = log det diag(d) *)
Lemma logdet_diag n (d : 'rV[F]_n) : (forall i, 0 < d 0 i) ->
  \sum_i ln (d 0 i) = ln (\det (diag_mx d)).
Proof. by move=> dpos; rewrite det_diag ln_prod. Qed.

(* constant-diagonal shift (KroneckerProductAddedDiag, constant branch): sum_i log (lambda_i + s) *)
Lemma logdet_shift n (A V : 'M[F]_n) (a : 'rV[F]_n) (s : F) :
  V \in unitmx -> A *m V = V *m diag_mx a -> (forall i, 0 < a 0 i + s) ->
  \sum_i ln (a 0 i + s) = ln (\det (A + s%:M)).
Proof. by move=> uV E pos; rewrite (det_shift s uV E) ln_prod. Qed.

(* Kronecker eigenvalue form: sum over the Kronecker product of the eigenvalue vectors *)
Lemma logdet_kron m p (A VA : 'M[F]_m) (B VB : 'M[F]_p) (a : 'rV[F]_m) (b : 'rV[F]_p) :
  VA \in unitmx -> VB \in unitmx ->
  A *m VA = VA *m diag_mx a -> B *m VB = VB *m diag_mx b ->
  (forall i, 0 < a 0 i) -> (forall j, 0 < b 0 j) ->
  \sum_k ln (kron_row a b 0 k) = ln (\det (A *t B)).
Proof.
move=> uA uB EA EB apos bpos.
rewrite (det_kron uA uB EA EB) -prod_kron_row ln_prod // => k _.
by rewrite !mxE mulr_gt0.
Qed.

(* matrix determinant lemma (LowRankRootAddedDiag):  log|D + U U^T| = log|I + U^T D^-1 U| + log|D| *)
Lemma logdet_lemma n k (D : 'M[F]_n) (U : 'M[F]_(n,k)) :
  D \in unitmx -> 0 < \det D -> 0 < \det (1%:M + U^T *m invmx D *m U) ->
  ln (\det (D + U *m U^T)) = ln (\det (1%:M + U^T *m invmx D *m U)) + ln (\det D).
Proof. by move=> uD dD dC; rewrite det_lemma // ln_mul // addrC. Qed.

(* block-diagonal operators: the sum over the blocks *)
Lemma logdet_blocks (l : seq (blk F)) : (forall B, B \in l -> 0 < \det (projT2 B)) ->
  ln (\det (bdiag l)) = \sum_(B <- l) ln (\det (projT2 B)).
Proof.
move=> pos; rewrite det_bdiag.
elim: l pos => [|B r IH] pos; first by rewrite !big_nil ln1.
rewrite !big_cons ln_mul ?IH //.
- by move=> C Cr; apply: pos; rewrite inE Cr orbT.
- by apply: pos; rewrite inE eqxx.
rewrite big_seq_cond prodr_gt0 // => C; rewrite andbT => Cr.
by apply: pos; rewrite inE Cr orbT.
Qed.
End LogForm.
