(* C05 — tensor layout model: row-major contiguous tensors as (shape, flat data), torch's view / permute(..).contiguous(),
   and the line-by-line transcription of
     BatchRepeatLinearOperator._move_repeat_batches_to_columns / _move_repeat_batches_back
   for ANY number k of batch dimensions (batch_repeat.py lines 140-196).

   Definitions only.  ProofsLayout.v proves that these view / permute / view pipelines are exactly the closed-form index
   maps [repeat_member] / [repeat_rf] / [repeat_bf] that the executable model (Model.v, [balg]) runs in the case shards,
   that the two moves are mutually inverse, and what the BatchRepeat / Block* wrappers of the model denote. *)
From mathcomp Require Import ssreflect ssrfun ssrbool eqtype ssrnat seq div.
Require Import C05.ModelBase C05.ModelCG C05.Model.
Set Implicit Arguments.
Unset Strict Implicit.
Unset Printing Implicit Defensive.

(* a multi-index is valid for a shape: same length, every component below its dimension *)
Fixpoint valid (sh idx : seq nat) : bool :=
  match sh, idx with
  | d :: r, x :: xs => (x < d) && valid r xs
  | [::], [::] => true
  | _, _ => false
  end.

(* (r_1, b_1, ..., r_k, b_k) *)
Definition interleave (a b : seq nat) : seq nat := flatten [seq [:: x.1; x.2] | x <- zip a b].

Section Layout.
Variable T : Type.
Variable x0 : T.

(* x.view( *sh'): the flat row-major data is unchanged (so a view is the identity on [seq T]); the new shape only changes
   how a flat index is read.

   x.permute( *perm).contiguous() for x of shape sh:  out.shape[a] = sh[perm[a]],  out[idx'] = x[idx] with
   idx[perm[a]] = idx'[a], i.e. idx[q] = idx'[index q perm]. *)
Definition perm_src (perm idx' : seq nat) : seq nat := mkseq (fun q => nth 0 idx' (index q perm)) (size perm).
Definition perm_shape (perm sh : seq nat) : seq nat := [seq nth 0 sh p | p <- perm].
Definition tpermute (perm sh : seq nat) (x : seq T) : seq T :=
  mkseq (fun i => nth x0 x (flat sh (perm_src perm (unflat (perm_shape perm sh) i)))) (prodn (perm_shape perm sh)).

(* _move_repeat_batches_to_columns(batch_matrix, output_shape), output_shape = (r_1 b_1, ..., r_k b_k, n, t):
     split_shape = chain([repeat, size] for repeat, size in zip(batch_repeat, padded_base_batch_shape)) + output_shape[-2:]
     batch_matrix = batch_matrix.view( *split_shape)
     repeat_dims = range(0, 2k, 2);  batch_dims = range(1, 2k, 2)
     batch_matrix = batch_matrix.permute( *batch_dims, -2, -1, *repeat_dims).contiguous()
     batch_matrix = batch_matrix.view( *base.batch_shape, output_shape[-2], -1)                      *)
Definition to_columns_perm (k : nat) : seq nat :=
  mkseq (fun i => i.*2.+1) k ++ [:: k.*2; k.*2.+1] ++ mkseq (fun i => i.*2) k.
Definition move_to_columns (rep pb : seq nat) (n t : nat) (x : seq T) : seq T :=
  tpermute (to_columns_perm (size rep)) (interleave rep pb ++ [:: n; t]) x.

(* _move_repeat_batches_back(batch_matrix, output_shape):
     batch_matrix = batch_matrix.view( *padded_base_batch_shape, output_shape[-2], -1, *batch_repeat)
     output_dims = len(output_shape)                                              (= k + 2)
     dims = chain([i + output_dims, i] for i in range(k)) + (output_dims - 2, output_dims - 1)
     batch_matrix = batch_matrix.permute( *dims).contiguous()
     batch_matrix = batch_matrix.view( *output_shape)                                                *)
Definition move_back_perm (k : nat) : seq nat :=
  flatten (mkseq (fun i => [:: i + k.+2; i]) k) ++ [:: k; k.+1].
Definition move_back (rep pb : seq nat) (n t : nat) (y : seq T) : seq T :=
  tpermute (move_back_perm (size rep)) (pb ++ [:: n; t] ++ rep) y.

(* the regression seeded as C05/1 in this layout model (for the refutation example): all repeat dimensions in front of
   all base batch dimensions, (r_1..r_k, b_1..b_k, t), instead of interleaving them *)
Definition move_back_perm_blocked (k : nat) : seq nat :=
  mkseq (fun i => i + k.+2) k ++ iota 0 k ++ [:: k; k.+1].
Definition move_back_blocked (rep pb : seq nat) (n t : nat) (y : seq T) : seq T :=
  tpermute (move_back_perm_blocked (size rep)) (pb ++ [:: n; t] ++ rep) y.

End Layout.
