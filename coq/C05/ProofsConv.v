(* C05 — routing and output conventions of the model (Model.v): statements about the executable definitions for
   an ARBITRARY arithmetic record (shapes and routing do not depend on the arithmetic). *)
From mathcomp Require Import ssreflect ssrfun ssrbool eqtype ssrnat seq div.
Require Import C05.ModelBase C05.ModelCG C05.Model.
Set Implicit Arguments. Unset Strict Implicit. Unset Printing Implicit Defensive.

Section Conv.
Variable F : Type.
Variable A : Arith F.
Variable eigh : nat -> mat F -> vec F * mat F.
Hypothesis eq_refl_A : forall x, aeqb A x x.    (* no NaN: exact arithmetic, or floats without NaN *)

Lemma cholesky_route (S : settings F) bs n gs R logdet reduce probes :
  (~~ s_log_prob S || (n <= s_max_cholesky_size S)) ->
  generic_iql A eigh S bs n gs R logdet reduce probes =
  ROk (chol_iql A bs [seq (false, n, shortcut_root A n g) | g <- gs] R logdet reduce).
Proof. by rewrite /generic_iql /chol_route => ->. Qed.

(* InvQuad's own path selector: Cholesky solve iff solves off, or log_prob off, or n <= max_cholesky_size; the values are
   then independent of every CG setting *)
Lemma invquad_route (S : settings F) n gs Rs :
  [|| ~~ s_solves S, ~~ s_log_prob S | n <= s_max_cholesky_size S] ->
  invquad_forward A S n gs Rs = ROk [seq [seq dense_iq_col A n (g_M gr.1) r | r <- gr.2] | gr <- zip gs Rs].
Proof. by rewrite /invquad_forward /invquad_chol_solve => ->. Qed.

Lemma invquad_selector_vs_solve (S : settings F) n :
  invquad_chol_solve S n = solve_chol_solve S n || ~~ s_log_prob S.
Proof. by rewrite /invquad_chol_solve /solve_chol_solve; case: (s_solves S); case: (s_log_prob S); rewrite ?orbT ?orbF. Qed.

(* documented shapes *)
Definition iq_shape_spec (bs : seq nat) (R : rhs_in F) (reduce : bool) : seq nat :=
  if reduce then bs else bs ++ [:: rhs_ncols R].

(* inverse-quadratic output: with a rhs a tensor of the documented shape (a 1-D rhs may also give the batch
   shape: diag(r^T A^-1 r) of a single column); without a rhs anything is a placeholder *)
Definition ok_iq (bs : seq nat) (R : rhs_in F) (reduce : bool) (iq : out F) : Prop :=
  match R, iq with
  | Some (isv, _), OVal sh _ => sh = iq_shape_spec bs R reduce \/ (isv /\ sh = bs)
  | Some _, _ => False
  | None, _ => True
  end.
Definition ok_ld (bs : seq nat) (logdet : bool) (ld : out F) : Prop :=
  match logdet, ld with
  | true, OVal sh _ => sh = bs
  | true, _ => False
  | false, _ => True
  end.

Lemma mk_iq_ok bs R reduce vals : R <> None -> ok_iq bs R reduce (mk_iq A bs (rhs_ncols R) reduce vals).
Proof.
case: R => [[isv Rs]|] // _; rewrite /mk_iq /ok_iq /iq_shape_spec.
by case: reduce; left.
Qed.

Lemma chol_iql_ok bs fs R logdet reduce :
  let r := chol_iql A bs fs R logdet reduce in ok_iq bs R reduce r.1 /\ ok_ld bs logdet r.2.
Proof.
rewrite /chol_iql /=; split.
  by case: R => [[isv Rs]|] //; apply: (@mk_iq_ok bs (Some (isv, Rs))).
by case: logdet.
Qed.

Lemma no_nan_tm (tm : seq (mat F)) : has (fun T : mat F => has (has (is_nanb A)) T) tm = false.
Proof.
have e1 : is_nanb A =1 pred0 by move=> x; rewrite /is_nanb eq_refl_A.
have e2 : has (is_nanb A) =1 pred0 by move=> r; rewrite (eq_has e1) has_pred0.
have e3 : (fun T : mat F => has (has (is_nanb A)) T) =1 pred0 by move=> T; rewrite (eq_has e2) has_pred0.
by rewrite (eq_has e3) has_pred0.
Qed.

Lemma iql_forward_ok S bs n gs R reduce probes iq ld :
  iql_forward A eigh S bs n gs R reduce probes = ROk (iq, ld) ->
  ok_iq bs R reduce iq /\ ok_ld bs true ld.
Proof.
rewrite /iql_forward; case: ifP => // _.
case: (run_cg _ _ _ _ _ _ _) => // o [<- <-]; split.
  by case: R => [[isv Rs]|] //; apply: (@mk_iq_ok bs (Some (isv, Rs))).
by case: (s_skip_logdet_forward S) => //; rewrite no_nan_tm.
Qed.

Lemma generic_iql_ok S bs n gs R logdet reduce probes iq ld :
  generic_iql A eigh S bs n gs R logdet reduce probes = ROk (iq, ld) ->
  ok_iq bs R reduce iq /\ ok_ld bs logdet ld.
Proof.
rewrite /generic_iql; case: ifP => _; first by case=> <- <-; exact: chol_iql_ok.
case: logdet => /=; first exact: iql_forward_ok.
case: R => [[isv Rs]|] //; case: (invquad_forward _ _ _ _ _) => // vals [<- _]; split => //.
exact: (@mk_iq_ok bs (Some (isv, Rs))).
Qed.

Lemma empty_conv_ok bs ms R logdet reduce vs iqf ldf :
  let r := empty_conv A bs ms R logdet reduce vs iqf ldf in
  ok_iq bs R reduce r.1 /\ ok_ld bs logdet r.2.
Proof.
rewrite /empty_conv /=; split; last by case: logdet.
case: R => [[isv Rs]|] //=; case: ifP => [/andP[iv _]|_]; first by right; rewrite iv.
exact: (@mk_iq_ok bs (Some (isv, Rs))).
Qed.

Lemma kpad_iq_ok S bs n gs dk0 R reduce iq0 :
  kpad_iq A S bs n gs dk0 R reduce = ROk iq0 -> ok_iq bs R reduce iq0.
Proof.
rewrite /kpad_iq; case: R => [[isv Rs]|]; last by case=> <-.
case: ifP => _; first by case=> <-; apply: (@mk_iq_ok bs (Some (isv, Rs))).
by case: (invquad_forward _ _ _ _ _) => // vals [<-]; apply: (@mk_iq_ok bs (Some (isv, Rs))).
Qed.

Lemma kpad_finish_ok S bs n ms gs fs0 dk0 R logdet reduce probes iq0 iq ld :
  ok_iq bs R reduce iq0 ->
  kpad_finish A eigh S bs n ms gs fs0 dk0 logdet probes iq0 = ROk (iq, ld) ->
  ok_iq bs R reduce iq /\ ok_ld bs logdet ld.
Proof.
move=> ok0; rewrite /kpad_finish; case: logdet => /=; last by case=> <- _.
case: (kpad_logdet_closed _ _ _ _ _) => [c|]; first by case=> <- <-.
case E2: (generic_iql _ _ _ _ _ _ _ _ _ _) => [[iq1 ld1]|] // [<- <-]; split => //.
by case: (generic_iql_ok E2).
Qed.

Theorem leaf_shape_conventions S bs ms R logdet reduce probes iq ld :
  leaf_iql A eigh S bs ms R logdet reduce probes = ROk (iq, ld) ->
  ok_iq bs R reduce iq /\ ok_ld bs logdet ld.
Proof.
rewrite /leaf_iql; case: (head _ ms) => [n M pc|d|n|up n T|up n T|fs|fs dk|n k U d|n M|n M L].
- exact: generic_iql_ok.
- by case=> <- <-; apply: empty_conv_ok.
- by case=> <- <-; apply: empty_conv_ok.
- by case=> <- <-; apply: empty_conv_ok.
- by case=> <- <-; exact: chol_iql_ok.
- (* Kron *)
  case: R => [[isv Rs]|].
    case E: (generic_iql _ _ _ _ _ _ _ _ _ _) => [[iq0 ld0]|] // [<- <-]; split; last by case: logdet.
    by case: (generic_iql_ok E).
  by case=> <- <-; split => //; case: logdet.
- (* KPAD *)
  case E: (kpad_iq _ _ _ _ _ _ _ _) => [iq0|] // E2.
  exact: (kpad_finish_ok (kpad_iq_ok E) E2).
- (* LRRAD *)
  case=> <- <-; split; last by case: logdet.
  by case: R => [[isv Rs]|] //; apply: (@mk_iq_ok bs (Some (isv, Rs))).
- (* Exact *)
  case=> <- <-; split; last by case: logdet.
  by case: R => [[isv Rs]|] //; apply: (@mk_iq_ok bs (Some (isv, Rs))).
- (* Cached *)
  exact: generic_iql_ok.
Qed.

(* ------------------------------------------------------------------ wrappers: BlockDiag / BlockInterleaved / BatchRepeat *)
(* as ok_iq / ok_ld, but a tensor without elements (numel() == 0) is passed on unchanged by the wrappers *)
Definition ok_iq' (bs : seq nat) (R : rhs_in F) (reduce : bool) (iq : out F) : Prop :=
  match R, iq with
  | Some (isv, _), OVal sh d => d = [::] \/ sh = iq_shape_spec bs R reduce \/ (isv /\ sh = bs)
  | Some _, _ => False
  | None, _ => True
  end.
Definition ok_ld' (bs : seq nat) (logdet : bool) (ld : out F) : Prop :=
  match logdet, ld with
  | true, OVal sh d => d = [::] \/ sh = bs
  | true, _ => False
  | false, _ => True
  end.

Lemma ok_iq_weaken bs R reduce iq : ok_iq bs R reduce iq -> ok_iq' bs R reduce iq.
Proof. by case: R => [[isv Rs]|] //; case: iq => // sh d H; right. Qed.
Lemma ok_ld_weaken bs logdet ld : ok_ld bs logdet ld -> ok_ld' bs logdet ld.
Proof. by case: logdet => //; case: ld => // sh d H; right. Qed.

Theorem shape_conventions S o R logdet reduce probes iq ld :
  balg A eigh S o R logdet reduce probes = ROk (iq, ld) ->
  ok_iq' (bshape o) R reduce iq /\ ok_ld' (bshape o) logdet ld.
Proof.
elim: o R logdet reduce iq ld => [bs ms|il base IH|base IH rep] R logdet reduce iq ld /=.
- by move=> /leaf_shape_conventions [h1 h2]; split; [apply: ok_iq_weaken | apply: ok_ld_weaken].
- (* BlockDiag / BlockInterleaved *)
  case E: (balg _ _ _ _ _ _ _ _) => [[iq0 ld0]|] //.
  have [h1 h2] := IH _ _ _ _ _ E; case=> <- <-; split.
    move: h1; case: R {E} => [[isv Rs]|] //=.
    case: iq0 => // sh [|x d] //=; first by move=> _; left.
    by move=> _; rewrite /iq_shape_spec /=; case: reduce; right; left.
  move: h2; case: logdet {E} => //; case: ld0 => // sh [|x d] //=; first by move=> _; left.
  case=> // ->; case: (bshape base) => [|b0 bb] /=; first by right.
  by right.
- (* BatchRepeat *)
  case E: (balg _ _ _ _ _ _ _ _) => [[iq0 ld0]|] //.
  have [h1 h2] := IH _ _ _ _ _ E; case=> <- <-; split.
    move: h1; case: R {E} => [[isv Rs]|] //=.
    case: iq0 => // sh [|x d] //=; first by move=> _; left.
    by move=> _; rewrite /mk_iq /iq_shape_spec /=; case: reduce; right; left.
  move: h2; case: logdet {E} => //; case: ld0 => // sh [|x d] //=; first by move=> _; left.
  by case=> // ->; right.
Qed.

End Conv.
