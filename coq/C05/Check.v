(* C05 — the binary64 instance of the model, executable stand-ins for the two transcendental / LAPACK
   primitives (log, symmetric eigendecomposition) and the Gallina comparators used by the generated
   correspondence shards (gen/cases_*.v): model output vs what the implementation returned / raised. *)
From Coq Require Import PrimFloat Uint63.
From mathcomp Require Import ssreflect ssrfun ssrbool eqtype ssrnat seq div.
Require Import C05.ModelBase C05.ModelCG C05.Model.
Set Implicit Arguments.
Unset Strict Implicit.
Unset Printing Implicit Defensive.

(* ------------------------------------------------------------------------------------------ *)
(* natural logarithm on binary64: x = m * 2^e with m in [sqrt(1/2), sqrt 2);
   log m = 2 atanh s, s = (m-1)/(m+1), |s| <= 0.172: 14 odd terms (truncation < 1e-19).
   Accuracy ~1e-15 relative, far below the 1e-9 comparison tolerance; not a verified libm. *)
Definition f2 : float := (one + one)%float.
Definition ln2 : float := 0x1.62e42fefa39efp-1%float.
Definition sqrt_half : float := 0x1.6a09e667f3bcdp-1%float.
Definition ofn (k : nat) : float := Nat.iter k (fun x => x + one)%float zero.
Definition atanh_series (s : float) : float :=
  let z := (s * s)%float in
  (* Horner: sum_{k=0}^{13} z^k / (2k+1) *)
  let p := foldl (fun acc k => (acc * z + one / ofn k)%float) zero
                 [:: 27; 25; 23; 21; 19; 17; 15; 13; 11; 9; 7; 5; 3; 1] in
  (f2 * s * p)%float.
Definition fln (x : float) : float :=
  if ~~ PrimFloat.eqb x x then nan
  else if PrimFloat.ltb x zero then nan
  else if PrimFloat.eqb x zero then neg_infinity
  else if PrimFloat.eqb x infinity then infinity
  else
    let '(m, e) := PrimFloat.frshiftexp x in
    let ef := (PrimFloat.of_uint63 e - PrimFloat.of_uint63 2101%uint63)%float in
    let '(m, ef) := if PrimFloat.ltb m sqrt_half then ((m * f2)%float, (ef - one)%float) else (m, ef) in
    let s := ((m - one) / (m + one))%float in
    (ef * ln2 + atanh_series s)%float.

Definition ArFloat : Arith float :=
  MkArith zero one PrimFloat.add PrimFloat.sub PrimFloat.mul PrimFloat.div
          PrimFloat.opp PrimFloat.sqrt PrimFloat.abs fln
          PrimFloat.ltb PrimFloat.leb PrimFloat.eqb nan.

(* ------------------------------------------------------------------------------------------ *)
(* symmetric eigendecomposition by cyclic Jacobi rotations (stand-in for torch.linalg.eigh):
   returns (eigenvalues, V) with the eigenvectors in the COLUMNS of V.  Eigenvalue order is not
   LAPACK's (ascending); the model only uses order-independent functions of (w, V). *)
Fixpoint mapi_ (T U : Type) (f : nat -> T -> U) (i : nat) (l : seq T) : seq U :=
  if l is x :: r then f i x :: mapi_ f i.+1 r else [::].
Definition fnth (v : seq float) (i : nat) : float := nth zero v i.

Definition jrot (MV : seq (seq float) * seq (seq float)) (pq : nat * nat) : seq (seq float) * seq (seq float) :=
  let '(M, V) := MV in
  let '(p, q) := pq in
  let rp := nth [::] M p in
  let rq := nth [::] M q in
  let app := fnth rp p in
  let aqq := fnth rq q in
  let apq := fnth rp q in
  if PrimFloat.eqb apq zero then MV else
  let theta := ((aqq - app) / (f2 * apq))%float in
  let t := ((if PrimFloat.ltb theta zero then - one else one) / (PrimFloat.abs theta + PrimFloat.sqrt (theta * theta + one)))%float in
  let c := (one / PrimFloat.sqrt (t * t + one))%float in
  let s := (t * c)%float in
  let newp := mapi_ (fun j xy => if j == p then (app - t * apq)%float else if j == q then zero
                                 else (c * xy.1 - s * xy.2)%float) 0 (zip rp rq) in
  let newq := mapi_ (fun j xy => if j == p then zero else if j == q then (aqq + t * apq)%float
                                 else (s * xy.1 + c * xy.2)%float) 0 (zip rp rq) in
  let M' := mapi_ (fun i row => if i == p then newp else if i == q then newq
                                else mapi_ (fun j x => if j == p then fnth newp i else if j == q then fnth newq i else x) 0 row)
                  0 M in
  let V' := [seq (let vp := fnth row p in let vq := fnth row q in
                  mapi_ (fun j x => if j == p then (c * vp - s * vq)%float else if j == q then (s * vp + c * vq)%float else x) 0 row)
            | row <- V] in
  (M', V').

Definition jpairs (n : nat) : seq (nat * nat) :=
  flatten (mkseq (fun p => mkseq (fun d => (p, p + d.+1)) (n - p.+1)) n).
Definition jacobi_sweeps : nat := 12.
Definition jacobi_eigh (n : nat) (M : seq (seq float)) : seq float * seq (seq float) :=
  let V0 := mkseq (fun i => mkseq (fun j => if i == j then one else zero) n) n in
  let M0 := mkseq (fun i => mkseq (fun j => nth zero (nth [::] M i) j) n) n in
  let '(M', V') := Nat.iter jacobi_sweeps (fun MV => foldl jrot MV (jpairs n)) (M0, V0) in
  (mkseq (fun i => nth zero (nth [::] M' i) i) n, V').

(* ------------------------------------------------------------------------------------------ *)
(* comparators *)
Definition fmax (x y : float) : float := if PrimFloat.ltb x y then y else x.
Definition fis_nan (x : float) : bool := ~~ PrimFloat.eqb x x.
(* |a - b| <= tol * max(1, |a|, |b|); NaN only matches NaN; equal infinities match *)
Definition close (tol a b : float) : bool :=
  if fis_nan a || fis_nan b then fis_nan a && fis_nan b
  else PrimFloat.eqb a b || PrimFloat.leb (PrimFloat.abs (a - b)) (tol * fmax one (fmax (PrimFloat.abs a) (PrimFloat.abs b)))%float.
Fixpoint all2 (T : Type) (f : T -> T -> bool) (a b : seq T) : bool :=
  match a, b with
  | [::], [::] => true
  | x :: r, y :: s => f x y && all2 f r s
  | _, _ => false
  end.
Definition out_close (tol : float) (a b : out float) : bool :=
  match a, b with
  | ONone, ONone => true
  | OEmpty, OEmpty => true
  | OVal sa da, OVal sb db => (sa == sb) && all2 (close tol) da db
  | _, _ => false
  end.

Inductive observed :=
  | ObsOk (iq ld : out float)
  | ObsRaise.

Record case := MkCase {
  c_api : nat;                     (* 0: inv_quad_logdet, 1: logdet / torch.logdet, 2: inv_quad *)
  c_S : settings float;
  c_op : bop float;
  c_R : rhs_in float;
  c_logdet : bool;
  c_reduce : bool;
  c_probes : seq (seq float);
  c_tol_iq : float;
  c_tol_ld : float;
  c_obs : observed
}.

Definition run_case (c : case) : result (out float * out float) :=
  match c_api c with
  | 0 => inv_quad_logdet ArFloat jacobi_eigh (c_S c) (c_op c) (c_R c) (c_logdet c) (c_reduce c) (c_probes c)
  | 1 => match logdet ArFloat jacobi_eigh (c_S c) (c_op c) (c_probes c) with
         | ROk ld => ROk (ONone, ld)
         | RErr e => RErr e
         end
  | _ => match c_R c with
         | Some R => match inv_quad ArFloat (c_S c) (c_op c) R (c_reduce c) with
                     | ROk iq => ROk (iq, ONone)
                     | RErr e => RErr e
                     end
         | None => RErr ENoRhsNoLogdet
         end
  end.

Definition check_case (c : case) : bool :=
  match run_case c, c_obs c with
  | ROk (iq, ld), ObsOk iq' ld' => out_close (c_tol_iq c) iq iq' && out_close (c_tol_ld c) ld ld'
  | RErr _, ObsRaise => true
  | _, _ => false
  end.

Fixpoint bad_cases (cs : seq case) (i : nat) : seq nat :=
  match cs with
  | [::] => [::]
  | c :: r => if check_case c then bad_cases r i.+1 else i :: bad_cases r i.+1
  end.
