(* C07 — gradients through operators equal gradients through the dense computation: proof obligations.
   Statements only; every proof is `exact <lemma of Proofs*.v>`.  K is an arbitrary commutative ring
   (`RingLaws K` = Coq's ring_theory), so the identities hold over the reals and are exact over Z, where the
   correspondence shards evaluate them. *)
From Coq Require Import List Arith Bool ZArith Lia.
Import ListNotations.
Require Import C07.Model C07.ProofsBase C07.ProofsRouting C07.ProofsSizes C07.ProofsW C07.ProofsLeaf C07.ProofsToeplitz
  C07.ProofsComposite C07.ProofsMain C07.ProofsInduct.

Section Statements.
Context {K : RingOps} {Kth : RingLaws K}.

(* ---- the positional contract every autograd Function relies on: `_bilinear_derivative` returns one slot per tensor of
   representation(), for any nesting.  (The pinned IdentityLinearOperator violates it — refuted below — hence the guard.) *)
Theorem bilinear_alignment_length fx (e : OpExpr K) :
  (fx_identity fx = true \/ no_identity e = true) ->
  forall U V, length (alg_bd K fx e U V) = length (representation K e).
Proof. exact (@alg_bd_length K fx e). Qed.

(* slot k belongs to leaf k: index tensors get None or zeros, masks get None; in the default path a floating tensor that does
   not require grad gets None (so every requires_grad subset keeps the alignment) *)
Theorem bilinear_alignment_kinds fx (e : OpExpr K) :
  (fx_identity fx = true \/ no_identity e = true) ->
  forall U V, Forall2 slot_kind_ok (representation K e) (alg_bd K fx e U V).
Proof. exact (@alg_bd_kinds K fx e). Qed.

Theorem alignment_identity_refuted (U V : tensor K) :
  exists e, length (alg_bd K pinned e U V) <> length (representation K e).
Proof. exact (@ProofsRouting.alignment_identity_refuted K U V). Qed.

(* ---- representation_tree()( *representation()) rebuilds the operator (what Matmul.backward & co. differentiate, with
   memory_efficient on or off), for any nesting — unless a CholLinearOperator(upper=True) occurs on the pinned tree *)
Theorem rebuild_roundtrip fx (e : OpExpr K) :
  (fx_chol fx = true \/ no_chol_upper e = true) -> rebuild K fx e (representation K e) = e.
Proof. exact (@ProofsRouting.rebuild_roundtrip K fx e). Qed.

Theorem rebuild_chol_upper_refuted (x : OpExpr K) :
  rebuild K pinned (Chol K x true) (representation K (Chol K x true)) <> Chol K x true.
Proof. exact (@ProofsRouting.rebuild_chol_upper_refuted K x). Qed.

(* ---- the coefficient identity.  For an operator whose matrix is affine in leaf k,
        sum_b sum_d u_d^T A(theta_k + delta) v_d  -  sum_b sum_d u_d^T A(theta) v_d  =  < slot k , delta >
   for ALL delta characterises slot k as the gradient with respect to leaf k (no limit is needed).
   B: batch shape of the vectors (the operator's batch shape expands to it), D: number of vectors. *)
Definition coefficient_identity (fx : fixes) (e : OpExpr K) : Prop :=
  forall B D U V k t rg delta g,
    tshape K U = D :: nrows K e :: B -> tshape K V = D :: ncols K e :: B ->
    expandable (bshape K e) B = true -> csafe fx e B ->
    nth_error (representation K e) k = Some (LF K t rg) -> tshape K delta = tshape K t ->
    nth_error (alg_bd K fx e U V) k = Some (Some g) ->
    rsub K (bil K (perturb K e k delta) B D U V) (bil K e B D U V) = pair K g delta.

Theorem coefficient_Dense fx t rg : wf (Dense K t rg) -> coefficient_identity fx (Dense K t rg).
Proof. exact (coeff_Dense fx t rg). Qed.
Theorem coefficient_Diag fx t rg : wf (Diag K t rg) -> coefficient_identity fx (Diag K t rg).
Proof. exact (coeff_Diag fx t rg). Qed.
Theorem coefficient_ConstantDiag fx t rg n : wf (ConstantDiag K t rg n) -> coefficient_identity fx (ConstantDiag K t rg n).
Proof. exact (coeff_CDiag fx t rg n). Qed.
(* csafe: on the pinned tree the collapse `res.view(-1, *column.shape).sum(0)` is the reduction to the column's shape only
   when collapse_safe holds (no broadcast size-1 batch dimension of the column below extra leading dimensions) *)
Theorem coefficient_Toeplitz fx t rg : wf (Toeplitz K t rg) -> coefficient_identity fx (Toeplitz K t rg).
Proof. exact (coeff_Toeplitz fx t rg). Qed.

(* the composite classes hand the transported weight to their children and add their own slots *)
Theorem coefficient_Sum fx ops :
  wf (Sum K ops) -> Forall (id_ok fx) ops -> Forall (coefficient_identity fx) ops -> coefficient_identity fx (Sum K ops).
Proof. exact (coeff_Sum fx ops). Qed.
Theorem coefficient_Matmul fx l r :
  wf (Matmul K l r) -> id_ok fx l -> id_ok fx r -> coefficient_identity fx l -> coefficient_identity fx r ->
  coefficient_identity fx (Matmul K l r).
Proof. exact (coeff_Matmul fx l r). Qed.
Theorem coefficient_ConstantMul fx b c rg :
  wf (ConstantMul K b c rg) -> id_ok fx b -> coefficient_identity fx b -> coefficient_identity fx (ConstantMul K b c rg).
Proof. exact (coeff_CMul fx b c rg). Qed.

(* ---- main theorem: every nesting (any depth) of Dense, Diag, ConstantDiag, Identity, Toeplitz, Sum (AddedDiag, PsdSum,
   SumKronecker-of-those ...), Matmul, ConstantMul — `lin` — satisfies the coefficient identity at every leaf, for every
   requires_grad pattern.  wf: the shape side conditions the constructors establish; id_ok: no Identity node on the pinned
   tree (its spurious slot shifts the tuple). *)
Theorem coefficient_linear_fragment fx (e : OpExpr K) :
  wf e -> lin e = true -> id_ok fx e -> coefficient_identity fx e.
Proof. exact (coeff_lin fx e). Qed.

End Statements.

(* ---- the hypotheses are satisfiable *)
Example wf_dense_ex : wf (Dense ZK (of_flat ZK [2; 2; 3] [1; 2; 3; 4; 5; 6; 7; 8; 9; 10; 11; 12]%Z) true).
Proof. simpl. auto. Qed.
Example wf_toeplitz_ex : wf (Toeplitz ZK (of_flat ZK [3; 2] [1; 2; 3; 4; 5; 6]%Z) true).
Proof. simpl. split; [auto | repeat constructor]. Qed.
Example csafe_toeplitz_ex : csafe pinned (Toeplitz ZK (of_flat ZK [3; 2] [1; 2; 3; 4; 5; 6]%Z) true) [2].
Proof. simpl. unfold collapse_safe. simpl. auto. Qed.
Definition nested_ex : OpExpr ZK :=
  ConstantMul ZK (Matmul ZK (Sum ZK [Dense ZK (of_flat ZK [2; 2; 3] [1; 2; 3; 4; 5; 6; 7; 8; 9; 10; 11; 12]%Z) true;
                                    Toeplitz ZK (of_flat ZK [2; 3] [1; 2; 3; 4; 5; 6]%Z) false])
                            (Diag ZK (of_flat ZK [2; 3] [1; 2; 3; 4; 5; 6]%Z) true))
                 (of_flat ZK [3] [2; 3; 4]%Z) true.
Example nested_ex_wf : wf nested_ex.
Proof. cbn. repeat split; auto; try lia. all: destruct H as [<-|[<-|[]]]; reflexivity. Qed.
Example nested_ex_lin : lin nested_ex = true. Proof. reflexivity. Qed.
Example nested_ex_id : id_ok pinned nested_ex. Proof. right. reflexivity. Qed.
Example nested_ex_csafe : csafe pinned nested_ex [3].
Proof. cbn. repeat split; auto. unfold collapse_safe. cbn. right. left. lia. Qed.
Example no_identity_ex : no_identity (Sum ZK [Dense ZK (of_flat ZK [2; 2] [1; 2; 3; 4]%Z) true; Diag ZK (of_flat ZK [2] [1; 2]%Z) false]) = true.
Proof. reflexivity. Qed.
