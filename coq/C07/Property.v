(* C07 — proof obligations (statements only; every proof is `exact <lemma>`). *)
From Coq Require Import List Arith Bool ZArith.
Import ListNotations.
Require Import C07.Model C07.ProofsBase C07.ProofsRouting C07.ProofsSizes C07.ProofsW C07.ProofsLeaf C07.ProofsToeplitz
  C07.ProofsComposite C07.ProofsMain.

(* positional contract: one slot per tensor of representation(), for any nesting *)
Theorem bilinear_alignment_length (K : RingOps) fx (e : OpExpr K) :
  (fx_identity fx = true \/ no_identity e = true) ->
  forall U V, length (alg_bd K fx e U V) = length (representation K e).
Proof. exact (@alg_bd_length K fx e). Qed.
