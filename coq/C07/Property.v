(* C07 — gradients through operators equal gradients through the dense computation: proof obligations.
   Statements only; every proof is `exact <lemma of Proofs*.v>`.  K is an arbitrary commutative ring
   (`RingLaws K` = Coq's ring_theory), so the identities hold over the reals and are exact over Z, where the
   correspondence shards evaluate them. *)
From Coq Require Import List Arith Bool ZArith Lia.
Import ListNotations.
Require Import C07.Model C07.ProofsBase C07.ProofsRouting C07.ProofsSizes C07.ProofsW C07.ProofsLeaf C07.ProofsToeplitz
  C07.ProofsComposite C07.ProofsMain C07.ProofsBlocks C07.ProofsMasked C07.ProofsInterpAlg C07.ProofsInterp
  C07.ProofsInduct C07.ProofsBackward C07.ProofsSolve
  C07.ProofsRebuild.

Section Statements.
Context {K : RingOps} {Kth : RingLaws K}.

(* ---- the positional contract every autograd Function relies on: `_bilinear_derivative` returns one slot per tensor of
   representation(), for any nesting.  (The pinned IdentityLinearOperator violates it — refuted below — hence the guard.) *)
Theorem bilinear_alignment_length fx (e : OpExpr K) :
  (fx_identity fx = true \/ no_identity e = true) ->
  forall U V, length (alg_bd K fx e U V) = length (representation K e).
Proof. exact (@alg_bd_length K fx e). Qed.

(* slot k belongs to leaf k: index tensors get None or zeros, masks get None; in the default path a floating tensor that does
   not require grad gets None (so every requires_grad subset keeps the alignment) *)
Theorem bilinear_alignment_kinds fx (e : OpExpr K) :
  (fx_identity fx = true \/ no_identity e = true) ->
  forall U V, Forall2 slot_kind_ok (representation K e) (alg_bd K fx e U V).
Proof. exact (@alg_bd_kinds K fx e). Qed.

Theorem alignment_identity_refuted (U V : tensor K) :
  exists e, length (alg_bd K pinned e U V) <> length (representation K e).
Proof. exact (@ProofsRouting.alignment_identity_refuted K U V). Qed.

(* ---- representation_tree()( *representation()) rebuilds the operator (what Matmul.backward & co. differentiate, with
   memory_efficient on or off), for any nesting — unless a CholLinearOperator(upper=True) occurs on the pinned tree *)
Theorem rebuild_roundtrip fx (e : OpExpr K) :
  (fx_chol fx = true \/ no_chol_upper e = true) -> rebuild K fx e (representation K e) = e.
Proof. exact (@ProofsRouting.rebuild_roundtrip K fx e). Qed.

(* memory_efficient off: backward uses the operator saved by forward, itself `representation_tree( *saved tensors)`;
   memory_efficient on: it is rebuilt again from the same tensors.  Rebuilding is idempotent for EVERY expression (also on
   the pinned tree), so both settings differentiate the same operator. *)
Theorem memory_efficient_independent fx (e : OpExpr K) :
  let e1 := rebuild K fx e (representation K e) in rebuild K fx e1 (representation K e1) = e1.
Proof. exact (@rebuild_idempotent K fx e). Qed.

Theorem rebuild_chol_upper_refuted (x : OpExpr K) :
  rebuild K pinned (Chol K x true) (representation K (Chol K x true)) <> Chol K x true.
Proof. exact (@ProofsRouting.rebuild_chol_upper_refuted K x). Qed.

(* ---- the coefficient identity.  For an operator whose matrix is affine in leaf k,
        sum_b sum_d u_d^T A(theta_k + delta) v_d  -  sum_b sum_d u_d^T A(theta) v_d  =  < slot k , delta >
   for ALL delta characterises slot k as the gradient with respect to leaf k (no limit is needed).
   B: batch shape of the vectors (the operator's batch shape expands to it), D: number of vectors. *)
Definition coefficient_identity (fx : fixes) (e : OpExpr K) : Prop :=
  forall B D U V k t rg delta g,
    tshape K U = D :: nrows K e :: B -> tshape K V = D :: ncols K e :: B ->
    expandable (bshape K e) B = true -> csafe fx e B ->
    nth_error (representation K e) k = Some (LF K t rg) -> tshape K delta = tshape K t ->
    nth_error (alg_bd K fx e U V) k = Some (Some g) ->
    rsub K (bil K (perturb K e k delta) B D U V) (bil K e B D U V) = pair K g delta.

Theorem coefficient_Dense fx t rg : wf (Dense K t rg) -> coefficient_identity fx (Dense K t rg).
Proof. exact (coeff_Dense fx t rg). Qed.
Theorem coefficient_Diag fx t rg : wf (Diag K t rg) -> coefficient_identity fx (Diag K t rg).
Proof. exact (coeff_Diag fx t rg). Qed.
Theorem coefficient_ConstantDiag fx t rg n : wf (ConstantDiag K t rg n) -> coefficient_identity fx (ConstantDiag K t rg n).
Proof. exact (coeff_CDiag fx t rg n). Qed.
(* csafe: on the pinned tree the collapse `res.view(-1, *column.shape).sum(0)` is the reduction to the column's shape only
   when collapse_safe holds (no broadcast size-1 batch dimension of the column below extra leading dimensions) *)
Theorem coefficient_Toeplitz fx t rg : wf (Toeplitz K t rg) -> coefficient_identity fx (Toeplitz K t rg).
Proof. exact (coeff_Toeplitz fx t rg). Qed.

(* the composite classes hand the transported weight to their children and add their own slots *)
Theorem coefficient_Sum fx ops :
  wf (Sum K ops) -> Forall (id_ok fx) ops -> Forall (coefficient_identity fx) ops -> coefficient_identity fx (Sum K ops).
Proof. exact (coeff_Sum fx ops). Qed.
Theorem coefficient_Matmul fx l r :
  wf (Matmul K l r) -> id_ok fx l -> id_ok fx r -> coefficient_identity fx l -> coefficient_identity fx r ->
  coefficient_identity fx (Matmul K l r).
Proof. exact (coeff_Matmul fx l r). Qed.
Theorem coefficient_ConstantMul fx b c rg :
  wf (ConstantMul K b c rg) -> id_ok fx b -> coefficient_identity fx b -> coefficient_identity fx (ConstantMul K b c rg).
Proof. exact (coeff_CMul fx b c rg). Qed.

(* InterpolatedLinearOperator: the base gets (W_l^T U, W_r^T V); the index tensors get zeros; the left values get the rows of
   base @ (W_r^T V) selected by the left indices times U (and symmetrically), duplicates in the index tensors adding up *)
Theorem coefficient_Interpolated fx b li lv lrg ri rv rrg :
  wf (Interpolated K b li lv lrg ri rv rrg) -> id_ok fx b -> coefficient_identity fx b ->
  coefficient_identity fx (Interpolated K b li lv lrg ri rv rrg).
Proof. exact (coeff_Interpolated fx b li lv lrg ri rv rrg). Qed.

(* MaskedLinearOperator: `_expand` fills the masked rows of zero blocks; Block*: `_add_batch_dim` moves the block index
   into the batch of the base operator (block diagonal: i = blk * m + i', interleaved: i = i' * k + blk, sum: broadcast) *)
Theorem coefficient_Masked fx b rm cm :
  wf (Masked K b rm cm) -> id_ok fx b -> coefficient_identity fx b -> coefficient_identity fx (Masked K b rm cm).
Proof. exact (coeff_Masked fx b rm cm). Qed.
Theorem coefficient_BlockDiag fx b : wf (BlockDiag K b) -> coefficient_identity fx b -> coefficient_identity fx (BlockDiag K b).
Proof. exact (coeff_BlockDiag fx b). Qed.
Theorem coefficient_BlockInterleaved fx b :
  wf (BlockInterleaved K b) -> coefficient_identity fx b -> coefficient_identity fx (BlockInterleaved K b).
Proof. exact (coeff_BlockInterleaved fx b). Qed.
Theorem coefficient_SumBatch fx b : wf (SumBatch K b) -> coefficient_identity fx b -> coefficient_identity fx (SumBatch K b).
Proof. exact (coeff_SumBatch fx b). Qed.

(* ---- main theorem: every nesting (any depth) of Dense, Diag, ConstantDiag, Identity, Toeplitz, Sum (AddedDiag, PsdSum,
   SumKronecker-of-those ...), Matmul, ConstantMul, Interpolated, Masked, BlockDiag, BlockInterleaved, SumBatch — `lin` —
   satisfies the
   coefficient identity at every leaf, for every requires_grad pattern.  wf: the shape side conditions the constructors establish; id_ok: no Identity node on the pinned
   tree (its spurious slot shifts the tuple). *)
Theorem coefficient_linear_fragment fx (e : OpExpr K) :
  wf e -> lin e = true -> id_ok fx e -> coefficient_identity fx e.
Proof. exact (coeff_lin fx e). Qed.

(* ---- functions/_matmul.py, Matmul.backward (matrix right-hand side).  out_pair e B C G X = < G , A X > with X broadcast
   to the batch shape of G.  The right-hand-side gradient is A^T G, reduced to the right-hand side's shape:
   < G, A (rhs + delta) > - < G, A rhs > = < rhs_grad, delta > for all delta (rhs enters linearly, so this is the gradient).
   collapse_safe: on the pinned tree `rhs_grad.reshape(-1, *rhs_shape).sum(0)` is that reduction only when the extra
   dimensions are leading ones (known finding C07-matmul-rhs-grad-collapse otherwise). *)
Theorem matmul_backward_rhs_correct fx (e : OpExpr K) (rhs G : tensor K) B C (delta : tensor K) need_args g :
  chol_ok fx e ->
  tshape K G = C :: nrows K e :: B -> expandable (bshape K e) B = true ->
  expandable (tshape K rhs) (C :: ncols K e :: B) = true -> 0 < numel (tshape K rhs) ->
  collapse_safe fx (tshape K rhs) (C :: ncols K e :: B) ->
  tshape K delta = tshape K rhs ->
  fst (matmul_backward K fx e rhs G need_args true) = Some g ->
  rsub K (out_pair e B C G (tadd K rhs delta)) (out_pair e B C G rhs) = pair K g delta.
Proof. exact (matmul_backward_rhs fx e rhs G B C delta need_args g). Qed.

(* the operator gradients are `_bilinear_derivative(grad_output, rhs)` of the operator itself (the rebuild is the identity,
   with memory_efficient on or off), hence the coefficient identity at (G, rhs) for the linear fragment *)
Theorem matmul_backward_args_correct fx (e : OpExpr K) (rhs G : tensor K) need_rhs :
  chol_ok fx e -> snd (matmul_backward K fx e rhs G true need_rhs) = alg_bd K fx e G rhs.
Proof. exact (matmul_backward_args fx e rhs G need_rhs). Qed.

Theorem matmul_backward_args_coefficient fx (e : OpExpr K) :
  wf e -> lin e = true -> id_ok fx e -> chol_ok fx e ->
  forall B D (G rhs : tensor K) k t rg (delta g : tensor K) need_rhs,
    tshape K G = D :: nrows K e :: B -> tshape K rhs = D :: ncols K e :: B -> expandable (bshape K e) B = true ->
    csafe fx e B ->
    nth_error (representation K e) k = Some (LF K t rg) -> tshape K delta = tshape K t ->
    nth_error (snd (matmul_backward K fx e rhs G true need_rhs)) k = Some (Some g) ->
    rsub K (bil K (perturb K e k delta) B D G rhs) (bil K e B D G rhs) = pair K g delta.
Proof. exact (matmul_backward_args_coeff fx e). Qed.

(* ---- Solve / InvQuad / InvQuadLogdet: only the exact algebra is proved.  For solutions A x = b, (A+E) y = b, A^T w = u:
   u^T y - u^T x = -w^T E y, and the difference to < -(w x^T), E > (the gradient Solve.backward hands to
   _bilinear_derivative, with w = A^-T u, x = A^-1 b) is -w^T E (y - x), of second order in E.
   PARTIAL: that y -> x as E -> 0 (so that -(w x^T) is the derivative) is not formalised; the derivative of logdet and of
   the eigen / Lanczos / pivoted-Cholesky based functions is not treated at all. *)
Theorem solve_resolvent_identity n (A E : nat -> nat -> car K) (x y b u w : nat -> car K) :
  (forall i, i < n -> rsum K n (fun j => rmul K (A i j) (x j)) = b i) ->
  (forall i, i < n -> rsum K n (fun j => rmul K (radd K (A i j) (E i j)) (y j)) = b i) ->
  (forall j, j < n -> rsum K n (fun i => rmul K (A i j) (w i)) = u j) ->
  rsub K (rsum K n (fun j => rmul K (u j) (y j))) (rsum K n (fun j => rmul K (u j) (x j)))
  = ropp K (rsum K n (fun i => rmul K (w i) (rsum K n (fun j => rmul K (E i j) (y j))))).
Proof. exact (resolvent_identity n A E x y b u w). Qed.

Theorem solve_gradient_remainder_partial n (A E : nat -> nat -> car K) (x y b u w : nat -> car K) :
  (forall i, i < n -> rsum K n (fun j => rmul K (A i j) (x j)) = b i) ->
  (forall i, i < n -> rsum K n (fun j => rmul K (radd K (A i j) (E i j)) (y j)) = b i) ->
  (forall j, j < n -> rsum K n (fun i => rmul K (A i j) (w i)) = u j) ->
  rsub K (rsub K (rsum K n (fun j => rmul K (u j) (y j))) (rsum K n (fun j => rmul K (u j) (x j))))
         (rsum K n (fun i => rsum K n (fun j => rmul K (ropp K (rmul K (w i) (x j))) (E i j))))
  = ropp K (rsum K n (fun i => rmul K (w i) (rsum K n (fun j => rmul K (E i j) (rsub K (y j) (x j)))))).
Proof. exact (solve_gradient_remainder n A E x y b u w). Qed.

End Statements.

(* ---- the hypotheses are satisfiable *)
Example wf_dense_ex : wf (Dense ZK (of_flat ZK [2; 2; 3] [1; 2; 3; 4; 5; 6; 7; 8; 9; 10; 11; 12]%Z) true).
Proof. simpl. auto. Qed.
Example wf_toeplitz_ex : wf (Toeplitz ZK (of_flat ZK [3; 2] [1; 2; 3; 4; 5; 6]%Z) true).
Proof. simpl. split; [auto | repeat constructor]. Qed.
Example csafe_toeplitz_ex : csafe pinned (Toeplitz ZK (of_flat ZK [3; 2] [1; 2; 3; 4; 5; 6]%Z) true) [2].
Proof. simpl. unfold collapse_safe. simpl. auto. Qed.
Definition nested_ex : OpExpr ZK :=
  ConstantMul ZK (Matmul ZK (Sum ZK [Dense ZK (of_flat ZK [2; 2; 3] [1; 2; 3; 4; 5; 6; 7; 8; 9; 10; 11; 12]%Z) true;
                                    Toeplitz ZK (of_flat ZK [2; 3] [1; 2; 3; 4; 5; 6]%Z) false])
                            (Diag ZK (of_flat ZK [2; 3] [1; 2; 3; 4; 5; 6]%Z) true))
                 (of_flat ZK [3] [2; 3; 4]%Z) true.
Example nested_ex_wf : wf nested_ex.
Proof. cbn. repeat split; auto; try lia. all: destruct H as [<-|[<-|[]]]; reflexivity. Qed.
Example nested_ex_lin : lin nested_ex = true. Proof. reflexivity. Qed.
Example nested_ex_id : id_ok pinned nested_ex. Proof. right. reflexivity. Qed.
Example nested_ex_csafe : csafe pinned nested_ex [3].
Proof. cbn. repeat split; auto. unfold collapse_safe. cbn. right. left. lia. Qed.
(* 1 x 1 instance of the hypotheses of the resolvent identity over Z: A = 2, E = 1, b = 6, x = 3, y = 2, u = 2, w = 1 *)
Example resolvent_hyps_ex :
  (forall i, i < 1 -> rsum ZK 1 (fun j => rmul ZK 2%Z 3%Z) = 6%Z) /\
  (forall i, i < 1 -> rsum ZK 1 (fun j => rmul ZK (radd ZK 2%Z 1%Z) 2%Z) = 6%Z) /\
  (forall j, j < 1 -> rsum ZK 1 (fun i => rmul ZK 2%Z 1%Z) = 2%Z).
Proof. repeat split; intros; reflexivity. Qed.
Example matmul_backward_hyps_ex :
  let e := Dense ZK (of_flat ZK [2; 2; 3] [1; 2; 3; 4; 5; 6; 7; 8; 9; 10; 11; 12]%Z) true in
  let rhs := of_flat ZK [1; 2] [1; 2]%Z in
  chol_ok pinned e /\ expandable (bshape ZK e) [3] = true /\ expandable (tshape ZK rhs) [1; ncols ZK e; 3] = true
  /\ 0 < numel (tshape ZK rhs) /\ collapse_safe pinned (tshape ZK rhs) [1; ncols ZK e; 3].
Proof. cbn. repeat split; auto. right. reflexivity. unfold collapse_safe. right. right. exists [3]. reflexivity. Qed.
Example no_identity_ex : no_identity (Sum ZK [Dense ZK (of_flat ZK [2; 2] [1; 2; 3; 4]%Z) true; Diag ZK (of_flat ZK [2] [1; 2]%Z) false]) = true.
Proof. reflexivity. Qed.
