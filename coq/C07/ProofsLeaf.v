(* C07 — coefficient identities for the leaf classes with hand-written derivatives:
   Dense (U V^T), Diag, ConstantDiag, Toeplitz. *)
From Coq Require Import List Arith Bool Lia ZArith Ring.
Import ListNotations.
Require Import C07.Model C07.ProofsBase C07.ProofsRouting C07.ProofsSizes C07.ProofsW.

Section Leaf.
Context {K : RingOps} {Kth : RingLaws K}.
Add Ring Kring : (@ring_laws K Kth).
Notation T := (car K).
Notation zero := (r0 K).
Notation one := (r1 K).
Infix "+!" := (radd K) (at level 50, left associativity).
Infix "*!" := (rmul K) (at level 40, left associativity).
Infix "-!" := (rsub K) (at level 50, left associativity).
Notation rsum := (rsum K).
Notation bsum := (bsum K).
Notation OpExpr := (OpExpr K).
Notation tensor := (tensor K).
Notation bget := (bget K).
Notation tat := (tat K).
Notation tshape := (tshape K).

Lemma bget_tadd_sub (t delta : tensor) ix : tshape delta = tshape t ->
  bget (tadd K t delta) ix -! bget t ix = bget delta ix.
Proof. intros H. rewrite bget_tadd by auto. ring. Qed.

(* ---- DenseLinearOperator: the gradient is U V^T *)
Lemma dense_coeff t rg n m bt B D U V delta :
  tshape t = n :: m :: bt ->
  tshape U = D :: m :: B -> tshape V = D :: n :: B -> tshape delta = tshape t ->
  bil K (Dense K (tadd K t delta) rg) B D U V -! bil K (Dense K t rg) B D U V = pair K (dense_bd K U V) delta.
Proof.
  intros Ht HU HV Hd.
  rewrite bil_diff by reflexivity. cbn [nrows ncols den]. rewrite Ht. cbn [dim0 dim1 nth].
  rewrite (bilW_ext B m n _ (Wt U V D) _ (fun b i j => bget delta (j :: i :: b)));
    [|reflexivity|intros; apply bget_tadd_sub; auto].
  unfold pair, dense_bd. cbn [Model.tshape Model.tat]. unfold batch2. rewrite HU, HV. cbn [dim0 dim1 nth skipn].
  rewrite bcs_refl. cbn [Model.bsum].
  rewrite sum3_swap. unfold bilW, Wt. reflexivity.
Qed.

(* ---- DiagLinearOperator *)
Lemma diag_coeff dg rg m bt B D U V delta :
  tshape dg = m :: bt -> length bt <= length B ->
  tshape U = D :: m :: B -> tshape V = D :: m :: B -> tshape delta = tshape dg ->
  bil K (Diag K (tadd K dg delta) rg) B D U V -! bil K (Diag K dg rg) B D U V = pair K (diag_bd K dg U V) delta.
Proof.
  intros Ht Hlen HU HV Hd.
  rewrite bil_diff by reflexivity. cbn [nrows ncols den]. rewrite Ht. cbn [dim0 nth].
  rewrite (bilW_ext B m m _ (Wt U V D) _ (fun b i j => if i =? j then bget delta (i :: b) else zero));
    [|reflexivity|intros b i j _ _ _; destruct (i =? j); [apply bget_tadd_sub; auto|ring]].
  unfold pair, diag_bd. rewrite HU, HV, Ht, bcs_refl.
  replace (length (m :: bt) <? length (D :: m :: B)) with true
    by (symmetry; apply Nat.ltb_lt; simpl; lia).
  cbn [Model.tshape Model.tat tl dim0 nth Model.bsum].
  rewrite sum2_swap. unfold bilW. apply bsum_ext. intros b Hb. apply rsum_ext. intros i Hi.
  rewrite (rsum_single m _ i); [|auto|intros k _ Hk; destruct (Nat.eqb_spec i k); [congruence|ring]].
  rewrite Nat.eqb_refl. unfold Wt. reflexivity.
Qed.

(* ---- ConstantDiagLinearOperator *)
Lemma cdiag_coeff c rg n bt B D U V delta :
  tshape c = 1 :: bt ->
  tshape U = D :: n :: B -> tshape V = D :: n :: B -> tshape delta = tshape c ->
  bil K (ConstantDiag K (tadd K c delta) rg n) B D U V -! bil K (ConstantDiag K c rg n) B D U V
  = pair K (cdiag_bd K U V) delta.
Proof.
  intros Ht HU HV Hd.
  rewrite bil_diff by reflexivity. cbn [nrows ncols den].
  rewrite (bilW_ext B n n _ (Wt U V D) _ (fun b i j => if i =? j then bget delta (0 :: b) else zero));
    [|reflexivity|intros b i j _ _ _; destruct (i =? j); [apply bget_tadd_sub; auto|ring]].
  unfold pair, cdiag_bd. rewrite HU, HV, bcs_refl.
  cbn [Model.tshape Model.tat skipn dim0 dim1 nth Model.bsum Model.rsum].
  unfold bilW. rewrite (bsum_ext _ (fun b => rsum n (fun i => rsum n (fun j =>
      Wt U V D b i j *! (if i =? j then bget delta (0 :: b) else zero)))) (fun b =>
      rsum n (fun i => rsum D (fun d => bget U (d :: i :: b) *! bget V (d :: i :: b))) *! bget delta (0 :: b))).
  - ring.
  - intros b Hb. rewrite <- rsum_mul_r. apply rsum_ext. intros i Hi.
    rewrite (rsum_single n _ i); [|auto|intros k _ Hk; destruct (Nat.eqb_spec i k); [congruence|ring]].
    rewrite Nat.eqb_refl. unfold Wt. reflexivity.
Qed.

End Leaf.
