(* C07 — BlockLinearOperator._bilinear_derivative (SumBatch, BlockDiag, BlockInterleaved): `_add_batch_dim` of both vector
   blocks transports the weight U V^T to the base operator's extra batch dimension. *)
From Coq Require Import List Arith Bool Lia ZArith Ring.
Import ListNotations.
Require Import C07.Model C07.ProofsBase C07.ProofsRouting C07.ProofsSizes C07.ProofsW C07.ProofsLeaf C07.ProofsToeplitz
  C07.ProofsComposite C07.ProofsMain.

Section Blocks.
Context {K : RingOps} {Kth : RingLaws K}.
Add Ring Kring : (@ring_laws K Kth).
Notation T := (car K).
Notation zero := (r0 K).
Notation one := (r1 K).
Infix "+!" := (radd K) (at level 50, left associativity).
Infix "*!" := (rmul K) (at level 40, left associativity).
Infix "-!" := (rsub K) (at level 50, left associativity).
Notation rsum := (rsum K).
Notation bsum := (bsum K).
Notation OpExpr := (OpExpr K).
Notation tensor := (tensor K).
Notation bget := (bget K).
Notation tat := (tat K).
Notation tshape := (tshape K).
Notation nrows := (nrows K).
Notation ncols := (ncols K).
Notation bshape := (bshape K).
Notation nleaves := (nleaves K).
Notation representation := (representation K).
Notation perturb := (perturb K).
Notation alg_bd := (alg_bd K).
Notation bil := (bil K).
Notation den := (den K).
Notation nblocks := (nblocks K).

(* the batch shape of the base is (nblocks :: batch shape of the block operator) *)
Lemma bshape_blocks (base : OpExpr) B :
  bshape base <> [] -> expandable (tl (bshape base)) B = true -> expandable (bshape base) (nblocks base :: B) = true.
Proof.
  unfold Model.nblocks. destruct (bshape base) as [|k r]; [congruence|]. intros _ H. simpl in *.
  rewrite Nat.eqb_refl. simpl. exact H.
Qed.

(* ------------------------------------------------------------------------------------------ *)
(* SumBatchLinearOperator *)

Lemma add_bd_sum_shape k X D M B : tshape X = D :: M :: B -> tshape (add_bd_sum K k X) = D :: M :: k :: B.
Proof. intros H. unfold add_bd_sum, batch2. rewrite H. reflexivity. Qed.

Lemma add_bd_sum_at k X D M B d i t b : tshape X = D :: M :: B -> d < D -> i < M -> t < k -> valid b B ->
  bget (add_bd_sum K k X) (d :: i :: t :: b) = bget X (d :: i :: b).
Proof.
  intros H Hd Hi Ht Hb. rewrite bget_valid by (rewrite (add_bd_sum_shape k X D M B H); simpl; auto). reflexivity.
Qed.

Lemma sumbatch_W k B D M N U V (F : list nat -> nat -> nat -> T) :
  tshape U = D :: M :: B -> tshape V = D :: N :: B ->
  bilW B M N (Wt U V D) (fun b i j => rsum k (fun t => F (t :: b) i j))
  = bilW (k :: B) M N (Wt (add_bd_sum K k U) (add_bd_sum K k V) D) F.
Proof.
  intros HU HV. unfold bilW. cbn [Model.bsum].
  rewrite (sum2_swap k B (fun t b => rsum M (fun i => rsum N (fun j =>
             Wt (add_bd_sum K k U) (add_bd_sum K k V) D (t :: b) i j *! F (t :: b) i j)))).
  apply bsum_ext. intros b Hb. rewrite (rsum_swap k M). apply rsum_ext. intros i Hi.
  rewrite (rsum_swap k N). apply rsum_ext. intros j Hj. rewrite <- rsum_mul_l. apply rsum_ext. intros t Ht.
  f_equal. unfold Wt. apply rsum_ext. intros d Hd.
  rewrite (add_bd_sum_at k U D M B) by auto. rewrite (add_bd_sum_at k V D N B) by auto. reflexivity.
Qed.

Lemma coeff_SumBatch fx base : wf (SumBatch K base) -> coeff_ok fx base -> coeff_ok fx (SumBatch K base).
Proof.
  intros Hwf IHb B D U V k t rg delta g HU HV He Hs Hrep Hd Hslot.
  cbn [wf] in Hwf. destruct Hwf as [Hwb Hne].
  cbn [Model.nrows Model.ncols] in HU, HV. cbn [Model.bshape] in He. cbn [csafe] in Hs.
  cbn [Model.representation] in Hrep. cbn [Model.alg_bd] in Hslot. cbn [Model.perturb].
  rewrite bil_diff by (cbn [Model.nrows Model.ncols]; rewrite ?nrows_perturb, ?ncols_perturb; reflexivity).
  cbn [Model.nrows Model.ncols Model.den]. rewrite nblocks_perturb.
  rewrite (bilW_ext B (nrows base) (ncols base) _ (Wt U V D) _
             (fun b i j => rsum (nblocks base) (fun q => den (perturb base k delta) (q :: b) i j -! den base (q :: b) i j)));
    [|reflexivity|intros; rewrite <- rsum_sub; reflexivity].
  rewrite (sumbatch_W (nblocks base) B D (nrows base) (ncols base) U V
             (fun b i j => den (perturb base k delta) b i j -! den base b i j)) by auto.
  rewrite <- (bil_diff base (perturb base k delta) (nblocks base :: B) D) by (apply nrows_perturb || apply ncols_perturb).
  eapply IHb; eauto using add_bd_sum_shape, bshape_blocks.
Qed.

(* ------------------------------------------------------------------------------------------ *)
(* BlockDiagLinearOperator *)

Lemma add_bd_diag_shape k m X D B : 0 < k -> tshape X = D :: k * m :: B -> tshape (add_bd_diag K k X) = D :: m :: k :: B.
Proof.
  intros Hk H. unfold add_bd_diag, batch2. rewrite H. cbn [dim0 dim1 nth skipn Model.tshape].
  assert (E : k * m / k = m) by (rewrite Nat.mul_comm; apply Nat.div_mul; lia). rewrite E. reflexivity.
Qed.

Lemma add_bd_diag_at k m X D B d i t b : 0 < k -> tshape X = D :: k * m :: B -> d < D -> i < m -> t < k -> valid b B ->
  bget (add_bd_diag K k X) (d :: i :: t :: b) = bget X (d :: (t * m + i) :: b).
Proof.
  intros Hk H Hd Hi Ht Hb. rewrite bget_valid by (rewrite (add_bd_diag_shape k m X D B Hk H); simpl; auto).
  unfold add_bd_diag. cbn [Model.tat]. rewrite H. cbn [dim1 nth].
  assert (E : k * m / k = m) by (rewrite Nat.mul_comm; apply Nat.div_mul; lia). rewrite E. reflexivity.
Qed.

Lemma divmod_block q r m : r < m -> (q * m + r) / m = q /\ (q * m + r) mod m = r.
Proof.
  intros Hr. split.
  - rewrite Nat.add_comm, Nat.div_add by lia. rewrite Nat.div_small by lia. reflexivity.
  - rewrite Nat.add_comm, Nat.mod_add by lia. apply Nat.mod_small. lia.
Qed.

Lemma blockdiag_W k m n B D U V (F : list nat -> nat -> nat -> T) :
  0 < k -> 0 < m -> 0 < n -> tshape U = D :: k * m :: B -> tshape V = D :: k * n :: B ->
  bilW B (k * m) (k * n) (Wt U V D)
       (fun b i j => if i / m =? j / n then F ((i / m) :: b) (i mod m) (j mod n) else zero)
  = bilW (k :: B) m n (Wt (add_bd_diag K k U) (add_bd_diag K k V) D) F.
Proof.
  intros Hk Hm Hn HU HV. unfold bilW. cbn [Model.bsum].
  rewrite (sum2_swap k B (fun t b => rsum m (fun i => rsum n (fun j =>
             Wt (add_bd_diag K k U) (add_bd_diag K k V) D (t :: b) i j *! F (t :: b) i j)))).
  apply bsum_ext. intros b Hb. rewrite rsum_prod. apply rsum_ext. intros q Hq. apply rsum_ext. intros r Hr.
  destruct (divmod_block q r m Hr) as [E1 E2]. rewrite E1, E2.
  rewrite rsum_prod.
  rewrite (rsum_single k _ q Hq).
  - apply rsum_ext. intros r' Hr'. destruct (divmod_block q r' n Hr') as [E3 E4]. rewrite E3, E4, Nat.eqb_refl.
    f_equal. unfold Wt. apply rsum_ext. intros d Hd.
    rewrite (add_bd_diag_at k m U D B) by auto. rewrite (add_bd_diag_at k n V D B) by auto. reflexivity.
  - intros q' Hq' Hne. apply rsum_zero. intros r' Hr'. destruct (divmod_block q' r' n Hr') as [E3 E4]. rewrite E3.
    destruct (Nat.eqb_spec q q'); [congruence|ring].
Qed.

Lemma coeff_BlockDiag fx base :
  wf (BlockDiag K base) -> coeff_ok fx base -> coeff_ok fx (BlockDiag K base).
Proof.
  intros Hwf IHb B D U V k t rg delta g HU HV He Hs Hrep Hd Hslot.
  cbn [wf] in Hwf. destruct Hwf as (Hwb & Hne & Hm & Hn & Hk).
  cbn [Model.nrows Model.ncols] in HU, HV. cbn [Model.bshape] in He. cbn [csafe] in Hs.
  cbn [Model.representation] in Hrep. cbn [Model.alg_bd] in Hslot. cbn [Model.perturb].
  rewrite bil_diff by (cbn [Model.nrows Model.ncols]; rewrite ?nrows_perturb, ?ncols_perturb, ?nblocks_perturb; reflexivity).
  cbn [Model.nrows Model.ncols Model.den]. cbv zeta. rewrite nrows_perturb, ncols_perturb.
  rewrite (bilW_ext B (nblocks base * nrows base) (nblocks base * ncols base) _ (Wt U V D) _
             (fun b i j => if i / nrows base =? j / ncols base
                           then (fun b' i' j' => den (perturb base k delta) b' i' j' -! den base b' i' j')
                                  ((i / nrows base) :: b) (i mod nrows base) (j mod ncols base)
                           else zero));
    [|reflexivity|intros; destruct (_ =? _); [reflexivity|ring]].
  rewrite (blockdiag_W (nblocks base) (nrows base) (ncols base) B D U V
             (fun b i j => den (perturb base k delta) b i j -! den base b i j)) by auto.
  rewrite <- (bil_diff base (perturb base k delta) (nblocks base :: B) D) by (apply nrows_perturb || apply ncols_perturb).
  eapply IHb; eauto using add_bd_diag_shape, bshape_blocks.
Qed.

(* ------------------------------------------------------------------------------------------ *)
(* BlockInterleavedLinearOperator *)

Lemma add_bd_inter_shape k m X D B : 0 < k -> tshape X = D :: k * m :: B -> tshape (add_bd_inter K k X) = D :: m :: k :: B.
Proof.
  intros Hk H. unfold add_bd_inter, batch2. rewrite H. cbn [dim0 dim1 nth skipn Model.tshape].
  assert (E : k * m / k = m) by (rewrite Nat.mul_comm; apply Nat.div_mul; lia). rewrite E. reflexivity.
Qed.

Lemma add_bd_inter_at k m X D B d i t b : 0 < k -> tshape X = D :: k * m :: B -> d < D -> i < m -> t < k -> valid b B ->
  bget (add_bd_inter K k X) (d :: i :: t :: b) = bget X (d :: (i * k + t) :: b).
Proof.
  intros Hk H Hd Hi Ht Hb. rewrite bget_valid by (rewrite (add_bd_inter_shape k m X D B Hk H); simpl; auto). reflexivity.
Qed.

Lemma divmod_inter q r k : r < k -> (r + k * q) mod k = r /\ (r + k * q) / k = q.
Proof.
  intros Hr. split.
  - rewrite (Nat.mul_comm k q), Nat.mod_add by lia. apply Nat.mod_small. lia.
  - rewrite (Nat.mul_comm k q), Nat.div_add by lia. rewrite Nat.div_small by lia. reflexivity.
Qed.

Lemma blockinter_W k m n B D U V (F : list nat -> nat -> nat -> T) :
  0 < k -> tshape U = D :: k * m :: B -> tshape V = D :: k * n :: B ->
  bilW B (k * m) (k * n) (Wt U V D)
       (fun b i j => if i mod k =? j mod k then F ((i mod k) :: b) (i / k) (j / k) else zero)
  = bilW (k :: B) m n (Wt (add_bd_inter K k U) (add_bd_inter K k V) D) F.
Proof.
  intros Hk HU HV. unfold bilW. cbn [Model.bsum].
  rewrite (sum2_swap k B (fun t b => rsum m (fun i => rsum n (fun j =>
             Wt (add_bd_inter K k U) (add_bd_inter K k V) D (t :: b) i j *! F (t :: b) i j)))).
  apply bsum_ext. intros b Hb. rewrite rsum_prod'. rewrite rsum_swap. apply rsum_ext. intros r Hr.
  apply rsum_ext. intros q Hq.
  destruct (divmod_inter q r k Hr) as [E1 E2]. rewrite E1, E2.
  rewrite rsum_prod'. rewrite rsum_swap.
  rewrite (rsum_single k _ r Hr).
  - apply rsum_ext. intros q' Hq'. destruct (divmod_inter q' r k Hr) as [E3 E4]. rewrite E3, E4, Nat.eqb_refl.
    f_equal. unfold Wt. apply rsum_ext. intros d Hd.
    rewrite (add_bd_inter_at k m U D B) by auto. rewrite (add_bd_inter_at k n V D B) by auto.
    replace (q * k + r) with (r + k * q) by lia. replace (q' * k + r) with (r + k * q') by lia. reflexivity.
  - intros r' Hr' Hne. apply rsum_zero. intros q' Hq'. destruct (divmod_inter q' r' k Hr') as [E3 E4]. rewrite E3.
    destruct (Nat.eqb_spec r r'); [congruence|ring].
Qed.

Lemma coeff_BlockInterleaved fx base :
  wf (BlockInterleaved K base) -> coeff_ok fx base -> coeff_ok fx (BlockInterleaved K base).
Proof.
  intros Hwf IHb B D U V k t rg delta g HU HV He Hs Hrep Hd Hslot.
  cbn [wf] in Hwf. destruct Hwf as (Hwb & Hne & Hk).
  cbn [Model.nrows Model.ncols] in HU, HV. cbn [Model.bshape] in He. cbn [csafe] in Hs.
  cbn [Model.representation] in Hrep. cbn [Model.alg_bd] in Hslot. cbn [Model.perturb].
  rewrite bil_diff by (cbn [Model.nrows Model.ncols]; rewrite ?nrows_perturb, ?ncols_perturb, ?nblocks_perturb; reflexivity).
  cbn [Model.nrows Model.ncols Model.den]. cbv zeta. rewrite nblocks_perturb.
  rewrite (bilW_ext B (nblocks base * nrows base) (nblocks base * ncols base) _ (Wt U V D) _
             (fun b i j => if i mod nblocks base =? j mod nblocks base
                           then (fun b' i' j' => den (perturb base k delta) b' i' j' -! den base b' i' j')
                                  ((i mod nblocks base) :: b) (i / nblocks base) (j / nblocks base)
                           else zero));
    [|reflexivity|intros; destruct (_ =? _); [reflexivity|ring]].
  rewrite (blockinter_W (nblocks base) (nrows base) (ncols base) B D U V
             (fun b i j => den (perturb base k delta) b i j -! den base b i j)) by auto.
  rewrite <- (bil_diff base (perturb base k delta) (nblocks base :: B) D) by (apply nrows_perturb || apply ncols_perturb).
  eapply IHb; eauto using add_bd_inter_shape, bshape_blocks.
Qed.

End Blocks.
