(* C07 — the coefficient identity for the composite classes Sum, Matmul, ConstantMul and, by induction over expressions,
   for every nesting of the (multi)linear fragment `lin`. *)
From Coq Require Import List Arith Bool Lia ZArith Ring.
Import ListNotations.
Require Import C07.Model C07.ProofsBase C07.ProofsRouting C07.ProofsSizes C07.ProofsW C07.ProofsLeaf C07.ProofsToeplitz
  C07.ProofsComposite C07.ProofsMain C07.ProofsBlocks C07.ProofsMasked C07.ProofsInterpAlg C07.ProofsInterp.

Section Induct.
Context {K : RingOps} {Kth : RingLaws K}.
Add Ring Kring : (@ring_laws K Kth).
Notation T := (car K).
Notation zero := (r0 K).
Notation one := (r1 K).
Infix "+!" := (radd K) (at level 50, left associativity).
Infix "*!" := (rmul K) (at level 40, left associativity).
Infix "-!" := (rsub K) (at level 50, left associativity).
Notation rsum := (rsum K).
Notation bsum := (bsum K).
Notation OpExpr := (OpExpr K).
Notation tensor := (tensor K).
Notation bget := (bget K).
Notation tat := (tat K).
Notation tshape := (tshape K).
Notation nrows := (nrows K).
Notation ncols := (ncols K).
Notation bshape := (bshape K).
Notation nleaves := (nleaves K).
Notation representation := (representation K).
Notation perturb := (perturb K).
Notation alg_bd := (alg_bd K).
Notation bil := (bil K).
Notation den := (den K).

Lemma expandable_trans a : forall b c, expandable a b = true -> expandable b c = true -> expandable a c = true.
Proof.
  induction a as [|x a IH]; intros b c Hab Hbc; [reflexivity|].
  destruct b as [|y b]; [discriminate|]. destruct c as [|z c]; [discriminate|].
  simpl in *. apply andb_true_iff in Hab. apply andb_true_iff in Hbc. destruct Hab as [H1 H2]. destruct Hbc as [H3 H4].
  apply andb_true_iff. split; [|eapply IH; eauto].
  apply orb_true_iff in H1. apply orb_true_iff in H3. apply orb_true_iff.
  destruct H1 as [H1|H1]; [|right; exact H1].
  apply Nat.eqb_eq in H1. subst y. exact H3.
Qed.

(* ------------------------------------------------------------------------------------------ *)
(* MatmulLinearOperator *)

Lemma coeff_Matmul fx l r :
  wf (Matmul K l r) -> id_ok fx l -> id_ok fx r -> coeff_ok fx l -> coeff_ok fx r -> coeff_ok fx (Matmul K l r).
Proof.
  intros Hwf Hil Hir IHl IHr B D U V k t rg delta g HU HV He Hs Hrep Hd Hslot.
  cbn [wf] in Hwf. destruct Hwf as (Hwl & Hwr & Hlr & Hbs).
  cbn [Model.nrows Model.ncols] in HU, HV. cbn [Model.bshape] in He. cbn [csafe] in Hs. destruct Hs as [Hsl Hsr].
  cbn [Model.representation] in Hrep. cbn [Model.alg_bd] in Hslot.
  assert (Her : expandable (bshape r) B = true) by (rewrite Hbs; exact He).
  pose proof (alg_matmul_shape r V D B HV Her) as HRV.
  pose proof (alg_t_matmul_shape l U D B HU He) as HLU.
  destruct (Nat.ltb_spec k (nleaves l)) as [Hk|Hk].
  - (* the leaf belongs to the left factor *)
    rewrite nth_error_app1 in Hrep by exact Hk.
    rewrite nth_error_app1 in Hslot by (rewrite alg_bd_length by exact Hil; exact Hk).
    cbn [Model.perturb]. replace (k <? nleaves l) with true by (symmetry; apply Nat.ltb_lt; exact Hk).
    rewrite bil_diff by (cbn [Model.nrows Model.ncols]; rewrite ?nrows_perturb; reflexivity).
    cbn [Model.nrows Model.ncols Model.den]. rewrite ncols_perturb.
    rewrite (bilW_ext B (nrows l) (ncols r) _ (Wt U V D) _
               (fun b i j => rsum (ncols l) (fun q => (den (perturb l k delta) b i q -! den l b i q) *! den r b q j)));
      [|reflexivity|intros; rewrite <- rsum_sub; apply rsum_ext; intros; ring].
    rewrite (matmul_W_l r B D (nrows l) (ncols l) U V
               (fun b i q => den (perturb l k delta) b i q -! den l b i q)) by (auto; symmetry; exact Hlr).
    rewrite <- (bil_diff l (perturb l k delta) B D U (alg_matmul K r V)) by (apply nrows_perturb || apply ncols_perturb).
    rewrite <- Hlr in HRV.
    eapply IHl; eauto.
  - (* the leaf belongs to the right factor *)
    rewrite nth_error_app2 in Hrep by exact Hk.
    rewrite nth_error_app2 in Hslot by (rewrite alg_bd_length by exact Hil; exact Hk).
    rewrite alg_bd_length in Hslot by exact Hil.
    cbn [Model.perturb]. replace (k <? nleaves l) with false by (symmetry; apply Nat.ltb_ge; exact Hk).
    rewrite bil_diff by (cbn [Model.nrows Model.ncols]; rewrite ?ncols_perturb; reflexivity).
    cbn [Model.nrows Model.ncols Model.den].
    rewrite (bilW_ext B (nrows l) (ncols r) _ (Wt U V D) _
               (fun b i j => rsum (nrows r) (fun q => den l b i q *!
                                  (den (perturb r (k - nleaves l) delta) b q j -! den r b q j))));
      [|reflexivity|intros; rewrite <- Hlr; rewrite <- rsum_sub; apply rsum_ext; intros; ring].
    rewrite (matmul_W_r l B D (ncols r) (nrows r) U V
               (fun b q j => den (perturb r (k - nleaves l) delta) b q j -! den r b q j)) by auto.
    rewrite <- (bil_diff r (perturb r (k - nleaves l) delta) B D (alg_t_matmul K l U) V)
      by (apply nrows_perturb || apply ncols_perturb).
    rewrite Hlr in HLU.
    eapply IHr; eauto.
Qed.

(* ------------------------------------------------------------------------------------------ *)
(* SumLinearOperator (also AddedDiag, PsdSum, SumKronecker, KroneckerProductAddedDiag, LowRankRootAddedDiag) *)

Definition sumden (ops : list OpExpr) (b : list nat) (i j : nat) : T :=
  fold_right (fun x acc => den x b i j +! acc) zero ops.

Lemma perturb_list_cons d x r k :
  perturb_list d (x :: r) k = if k <? nleaves x then perturb x k d :: r else x :: perturb_list d r (k - nleaves x).
Proof. reflexivity. Qed.

Lemma coeff_Sum_list fx M N bs ops :
  Forall (coeff_ok fx) ops -> Forall (id_ok fx) ops ->
  (forall x, In x ops -> nrows x = M /\ ncols x = N /\ bshape x = bs) ->
  forall B D U V k t rg delta g,
    tshape U = D :: M :: B -> tshape V = D :: N :: B -> expandable bs B = true ->
    Forall (fun x => csafe fx x B) ops ->
    nth_error (flat_map representation ops) k = Some (LF K t rg) -> tshape delta = tshape t ->
    nth_error (flat_map (fun x => alg_bd fx x U V) ops) k = Some (Some g) ->
    bilW B M N (Wt U V D) (fun b i j => sumden (perturb_list delta ops k) b i j -! sumden ops b i j) = pair K g delta.
Proof.
  induction ops as [|x r IH]; intros Hc Hi Hsz B D U V k t rg delta g HU HV He Hs Hrep Hd Hslot.
  - destruct k; discriminate.
  - inversion Hc as [|? ? Hcx Hcr]; subst. inversion Hi as [|? ? Hix Hir]; subst. inversion Hs as [|? ? Hsx Hsr]; subst.
    destruct (Hsz x (or_introl eq_refl)) as (Hm & Hn & Hb).
    cbn [flat_map] in Hrep, Hslot. rewrite perturb_list_cons.
    destruct (Nat.ltb_spec k (nleaves x)) as [Hk|Hk].
    + rewrite nth_error_app1 in Hrep by exact Hk.
      rewrite nth_error_app1 in Hslot by (rewrite alg_bd_length by exact Hix; exact Hk).
      rewrite (bilW_ext B M N _ (Wt U V D) _ (fun b i j => den (perturb x k delta) b i j -! den x b i j));
        [|reflexivity|intros; unfold sumden; cbn [fold_right]; ring].
      subst M N bs.
      rewrite <- (bil_diff x (perturb x k delta) B D U V) by (apply nrows_perturb || apply ncols_perturb).
      eapply Hcx; eauto.
    + rewrite nth_error_app2 in Hrep by exact Hk.
      rewrite nth_error_app2 in Hslot by (rewrite alg_bd_length by exact Hix; exact Hk).
      rewrite alg_bd_length in Hslot by exact Hix.
      rewrite (bilW_ext B M N _ (Wt U V D) _
                 (fun b i j => sumden (perturb_list delta r (k - nleaves x)) b i j -! sumden r b i j));
        [|reflexivity|intros; unfold sumden; cbn [fold_right]; ring].
      eapply IH; eauto. intros y Hy. apply Hsz. right. exact Hy.
Qed.

Lemma csafe_Sum_Forall fx ops B : csafe fx (Sum K ops) B -> Forall (fun x => csafe fx x B) ops.
Proof.
  cbn [csafe]. induction ops as [|x r IH]; intros H; constructor; [exact (proj1 H)|apply IH; exact (proj2 H)].
Qed.

Lemma coeff_Sum fx ops :
  wf (Sum K ops) -> Forall (id_ok fx) ops -> Forall (coeff_ok fx) ops -> coeff_ok fx (Sum K ops).
Proof.
  intros Hwf Hi Hc B D U V k t rg delta g HU HV He Hs Hrep Hd Hslot.
  cbn [wf] in Hwf. destruct Hwf as [_ Hsz].
  rewrite bil_diff by (apply nrows_perturb || apply ncols_perturb).
  rewrite perturb_Sum.
  cbn [Model.representation] in Hrep. cbn [Model.alg_bd] in Hslot.
  apply (coeff_Sum_list fx (nrows (Sum K ops)) (ncols (Sum K ops)) (bshape (Sum K ops)) ops Hc Hi Hsz
           B D U V k t rg delta g HU HV He (csafe_Sum_Forall fx ops B Hs) Hrep Hd Hslot).
Qed.

(* ------------------------------------------------------------------------------------------ *)
(* ConstantMulLinearOperator *)

Lemma cmul_const_coeff base c U V D B (delta : tensor) :
  tshape U = D :: nrows base :: B -> tshape V = D :: ncols base :: B ->
  expandable (bshape base) B = true -> expandable (tshape c) B = true -> tshape delta = tshape c ->
  bilW B (nrows base) (ncols base) (Wt U V D) (fun b i j => den base b i j *! bget delta b)
  = pair K (cmul_const_bd K base c U V) delta.
Proof.
  intros HU HV He Hc Hd.
  pose proof (alg_matmul_shape base V D B HV He) as HBV.
  unfold cmul_const_bd. rewrite pair_sum_to.
  - cbn [Model.tshape Model.tat]. unfold batch2. rewrite HU, HBV. cbn [skipn dim0 dim1 nth]. rewrite bcs_refl.
    unfold bilW. apply bsum_ext. intros b Hb.
    rewrite <- rsum_mul_r. apply rsum_ext. intros i Hi.
    transitivity (rsum D (fun d => rsum (ncols base) (fun j =>
                    bget U (d :: i :: b) *! bget V (d :: j :: b) *! (den base b i j *! bget delta b)))).
    + rewrite rsum_swap. apply rsum_ext. intros j _. unfold Wt. rewrite <- rsum_mul_r. reflexivity.
    + rewrite <- rsum_mul_r. apply rsum_ext. intros d Hdd.
      rewrite (alg_matmul_at base V D B) by auto.
      rewrite <- rsum_mul_l. rewrite <- rsum_mul_r. apply rsum_ext. intros j _. ring.
  - cbn [Model.tshape]. unfold batch2. rewrite HU, HBV. cbn [skipn]. rewrite bcs_refl. exact Hc.
  - exact Hd.
Qed.

Lemma coeff_CMul fx b c rg :
  wf (ConstantMul K b c rg) -> id_ok fx b -> coeff_ok fx b -> coeff_ok fx (ConstantMul K b c rg).
Proof.
  intros Hwf Hib IHb B D U V k t rg' delta g HU HV He Hs Hrep Hd Hslot.
  cbn [wf] in Hwf. destruct Hwf as [Hwb Hce].
  cbn [Model.nrows Model.ncols] in HU, HV. cbn [Model.bshape] in He. cbn [csafe] in Hs.
  cbn [Model.representation] in Hrep. cbn [Model.alg_bd] in Hslot.
  assert (HcB : expandable (tshape c) B = true) by (eapply expandable_trans; eauto).
  destruct (Nat.ltb_spec k (nleaves b)) as [Hk|Hk].
  - rewrite nth_error_app1 in Hrep by exact Hk.
    rewrite nth_error_app1 in Hslot by (rewrite alg_bd_length by exact Hib; exact Hk).
    cbn [Model.perturb]. replace (k <? nleaves b) with true by (symmetry; apply Nat.ltb_lt; exact Hk).
    rewrite bil_diff by (cbn [Model.nrows Model.ncols]; rewrite ?nrows_perturb, ?ncols_perturb; reflexivity).
    cbn [Model.nrows Model.ncols Model.den].
    rewrite (bilW_ext B (nrows b) (ncols b) _ (Wt U V D) _
               (fun bb i j => (den (perturb b k delta) bb i j -! den b bb i j) *! bget c bb));
      [|reflexivity|intros; ring].
    rewrite (cmul_W_base c B D (nrows b) (ncols b) U V
               (fun bb i j => den (perturb b k delta) bb i j -! den b bb i j)) by auto.
    rewrite <- (bil_diff b (perturb b k delta) B D (cmul_left K c U) V) by (apply nrows_perturb || apply ncols_perturb).
    eapply IHb; eauto. apply cmul_left_shape; auto.
  - rewrite nth_error_app2 in Hrep by exact Hk.
    rewrite nth_error_app2 in Hslot by (rewrite alg_bd_length by exact Hib; exact Hk).
    rewrite alg_bd_length in Hslot by exact Hib.
    fold (nleaves b) in Hrep.
    destruct (k - nleaves b) as [|q] eqn:Ek; [|destruct q; discriminate].
    assert (Hkb : k = nleaves b) by lia. subst k.
    simpl in Hrep, Hslot. inversion Hrep; subst t rg'. inversion Hslot; subst g.
    cbn [Model.perturb]. rewrite Nat.ltb_irrefl, Nat.eqb_refl.
    rewrite bil_diff by reflexivity.
    cbn [Model.nrows Model.ncols Model.den].
    rewrite (bilW_ext B (nrows b) (ncols b) _ (Wt U V D) _ (fun bb i j => den b bb i j *! bget delta bb));
      [|reflexivity|intros; rewrite bget_tadd by exact Hd; ring].
    apply cmul_const_coeff; auto.
Qed.

(* ------------------------------------------------------------------------------------------ *)
(* every nesting of the fragment *)

Lemma id_ok_Sum fx ops : id_ok fx (Sum K ops) -> Forall (id_ok fx) ops.
Proof.
  intros [H|H]; apply Forall_forall; intros x Hx; [left; exact H|right].
  cbn [no_identity] in H. rewrite forallb_forall in H. auto.
Qed.

Lemma wf_Sum_Forall ops : wf (Sum K ops) -> Forall wf ops.
Proof. cbn [wf]. intros [H _]. apply wf_all_Forall. exact H. Qed.

Theorem coeff_lin fx (e : OpExpr) : wf e -> lin e = true -> id_ok fx e -> coeff_ok fx e.
Proof.
  induction e using OpExpr_ind'; intros Hwf Hlin Hid; try discriminate.
  - apply coeff_Dense; exact Hwf.
  - apply coeff_Diag; exact Hwf.
  - apply coeff_CDiag; exact Hwf.
  - apply coeff_Identity.
  - apply coeff_Toeplitz; exact Hwf.
  - (* Sum *)
    pose proof (id_ok_Sum fx ops Hid) as Hids. pose proof (wf_Sum_Forall ops Hwf) as Hwfs.
    cbn [lin] in Hlin. rewrite forallb_forall in Hlin.
    apply coeff_Sum; auto.
    rewrite Forall_forall in *. intros x Hx. apply H; auto.
  - (* Matmul *)
    cbn [lin] in Hlin. apply andb_true_iff in Hlin. destruct Hlin as [Hl1 Hl2].
    destruct (id_ok_pair fx e1 e2 Hid) as [Hi1 Hi2].
    pose proof Hwf as Hwf'. cbn [wf] in Hwf'. destruct Hwf' as (Hw1 & Hw2 & _).
    apply coeff_Matmul; auto.
  - (* ConstantMul *)
    cbn [lin] in Hlin. pose proof Hwf as Hwf'. cbn [wf] in Hwf'. destruct Hwf' as [Hwb _].
    apply coeff_CMul; auto.
  - (* Interpolated *)
    cbn [lin] in Hlin. pose proof Hwf as Hwf'. cbn [wf] in Hwf'. destruct Hwf' as [Hwb _].
    apply coeff_Interpolated; auto.
  - (* Masked *)
    cbn [lin] in Hlin. pose proof Hwf as Hwf'. cbn [wf] in Hwf'. destruct Hwf' as [Hwb _].
    apply coeff_Masked; auto.
  - (* BlockDiag *)
    cbn [lin] in Hlin. pose proof Hwf as Hwf'. cbn [wf] in Hwf'. destruct Hwf' as [Hwb _].
    apply coeff_BlockDiag; auto.
  - (* BlockInterleaved *)
    cbn [lin] in Hlin. pose proof Hwf as Hwf'. cbn [wf] in Hwf'. destruct Hwf' as [Hwb _].
    apply coeff_BlockInterleaved; auto.
  - (* SumBatch *)
    cbn [lin] in Hlin. pose proof Hwf as Hwf'. cbn [wf] in Hwf'. destruct Hwf' as [Hwb _].
    apply coeff_SumBatch; auto.
Qed.

End Induct.
