(* C07 — ToeplitzLinearOperator: the derivative quadratic form summed against delta is the bilinear form of the
   Toeplitz matrix of delta; the `view(-1, *shape).sum(0)` collapse. *)
From Coq Require Import List Arith Bool Lia ZArith Ring.
Import ListNotations.
Require Import C07.Model C07.ProofsBase C07.ProofsRouting C07.ProofsSizes C07.ProofsW C07.ProofsLeaf.

Section Toep.
Context {K : RingOps} {Kth : RingLaws K}.
Add Ring Kring : (@ring_laws K Kth).
Notation T := (car K).
Notation zero := (r0 K).
Notation one := (r1 K).
Infix "+!" := (radd K) (at level 50, left associativity).
Infix "*!" := (rmul K) (at level 40, left associativity).
Infix "-!" := (rsub K) (at level 50, left associativity).
Notation rsum := (rsum K).
Notation bsum := (bsum K).
Notation OpExpr := (OpExpr K).
Notation tensor := (tensor K).
Notation bget := (bget K).
Notation tat := (tat K).
Notation tshape := (tshape K).

Definition absd (i j : nat) : nat := if j <=? i then i - j else j - i.
(* sum of W over the d-th sub- and super-diagonal *)
Definition Dg (W : nat -> nat -> T) (m d : nat) : T :=
  if d =? 0 then rsum m (fun i => W i i) else rsum (m - d) (fun a => W a (a + d) +! W (a + d) a).

Lemma rsum_S n f : rsum (S n) f = rsum n f +! f n.
Proof. reflexivity. Qed.

Lemma rsum_S_front m (g : nat -> T) : rsum (S m) g = g 0 +! rsum m (fun a => g (S a)).
Proof.
  induction m as [|m IHm]; [simpl; ring|]. rewrite (rsum_S (S m) g), IHm, (rsum_S m (fun a => g (S a))). ring.
Qed.

Lemma rsum_rev n (f : nat -> T) : rsum n f = rsum n (fun a => f (n - 1 - a)).
Proof.
  induction n as [|n IH]; [reflexivity|].
  rewrite (rsum_S n f), IH, (rsum_S_front n (fun a => f (S n - 1 - a))).
  replace (S n - 1 - 0) with n by lia.
  assert (E : rsum n (fun a => f (n - 1 - a)) = rsum n (fun a => f (S n - 1 - S a))).
  { apply rsum_ext. intros a Ha. f_equal. lia. }
  rewrite E. ring.
Qed.

Lemma Dg_step W m d : d < m ->
  Dg W (S m) d = Dg W m d +! (if d =? 0 then W m m else W (m - d) m +! W m (m - d)).
Proof.
  intros Hd. unfold Dg. destruct (Nat.eqb_spec d 0) as [->|Hne]; [reflexivity|].
  replace (S m - d) with (S (m - d)) by lia. rewrite rsum_S.
  replace (m - d + d) with m by lia. reflexivity.
Qed.

Lemma Dg_top W m : Dg W (S m) m = if m =? 0 then W 0 0 else W 0 m +! W m 0.
Proof.
  unfold Dg. destruct (Nat.eqb_spec m 0) as [->|Hne]; [simpl; ring|].
  replace (S m - m) with 1 by lia. simpl. ring.
Qed.

Lemma front_back m' (f h : nat -> T) : (forall a, f (S a) = h (S a)) ->
  rsum (S m') f +! h (S m') = f 0 +! rsum (S m') (fun a => h (S a)).
Proof.
  intros H. rewrite rsum_S_front. rewrite (rsum_S m' (fun a => h (S a))).
  rewrite (rsum_ext m' (fun a => f (S a)) (fun a => h (S a))) by (intros; apply H). ring.
Qed.

Lemma toep_sum (W : nat -> nat -> T) (c : nat -> T) m :
  rsum m (fun i => rsum m (fun j => W i j *! c (absd i j))) = rsum m (fun d => c d *! Dg W m d).
Proof.
  induction m as [|m IH]; [reflexivity|].
  (* left side *)
  assert (L : rsum (S m) (fun i => rsum (S m) (fun j => W i j *! c (absd i j))) =
              rsum m (fun i => rsum m (fun j => W i j *! c (absd i j)))
              +! rsum m (fun i => W i m *! c (m - i)) +! rsum m (fun j => W m j *! c (m - j)) +! W m m *! c 0).
  { assert (A0 : absd m m = 0) by (unfold absd; rewrite Nat.leb_refl; lia).
    assert (A1 : forall j, j < m -> absd m j = m - j) by (intros j Hj; unfold absd; destruct (Nat.leb_spec j m); [reflexivity|lia]).
    assert (A2 : forall i, i < m -> absd i m = m - i) by (intros i Hi; unfold absd; destruct (Nat.leb_spec m i); [lia|reflexivity]).
    rewrite rsum_S. rewrite (rsum_ext m _ (fun i => rsum m (fun j => W i j *! c (absd i j)) +! W i m *! c (m - i))).
    - rewrite rsum_add. rewrite (rsum_S m (fun j => W m j *! c (absd m j))). rewrite A0.
      rewrite (rsum_ext m (fun j => W m j *! c (absd m j)) (fun j => W m j *! c (m - j))).
      + ring.
      + intros j Hj. rewrite A1; auto.
    - intros i Hi. rewrite rsum_S. rewrite A2; auto. }
  rewrite L, IH. clear L IH.
  (* right side *)
  rewrite (rsum_S m (fun d => c d *! Dg W (S m) d)).
  rewrite (rsum_ext m (fun d => c d *! Dg W (S m) d)
             (fun d => c d *! Dg W m d +! c d *! (if d =? 0 then W m m else W (m - d) m +! W m (m - d)))).
  2:{ intros d Hd. rewrite Dg_step by auto. ring. }
  rewrite rsum_add, Dg_top.
  destruct m as [|m'].
  - simpl. ring.
  - remember (S m') as m eqn:Em.
    assert (Hm : (m =? 0) = false) by (subst m; reflexivity). rewrite Hm.
    (* both remaining parts are sum_{a<m} c(a+1) (W (m-(a+1)) m + W m (m-(a+1))) *)
    set (h := fun d => c d *! (W (m - d) m +! W m (m - d))).
    assert (R : rsum m (fun d => c d *! (if d =? 0 then W m m else W (m - d) m +! W m (m - d))) +! c m *! (W 0 m +! W m 0)
                = c 0 *! W m m +! rsum m (fun a => h (S a))).
    { pose proof (front_back m' (fun d => c d *! (if d =? 0 then W m m else W (m - d) m +! W m (m - d))) h
                    (fun a => eq_refl)) as FB.
      rewrite <- Em in FB. cbn [Nat.eqb] in FB. rewrite <- FB.
      unfold h. rewrite Nat.sub_diag. reflexivity. }
    assert (Lh : rsum m (fun i => W i m *! c (m - i)) +! rsum m (fun j => W m j *! c (m - j)) = rsum m (fun a => h (S a))).
    { rewrite <- rsum_add. rewrite rsum_rev. apply rsum_ext. intros a Ha. unfold h.
      replace (m - (m - 1 - a)) with (S a) by lia. replace (m - S a) with (m - 1 - a) by lia. ring. }
    transitivity (rsum m (fun d => c d *! Dg W m d) +! (rsum m (fun i => W i m *! c (m - i)) +! rsum m (fun j => W m j *! c (m - j))) +! W m m *! c 0); [ring|].
    rewrite Lh.
    transitivity (rsum m (fun d => c d *! Dg W m d) +! (rsum m (fun d => c d *! (if d =? 0 then W m m else W (m - d) m +! W m (m - d))) +! c m *! (W 0 m +! W m 0))); [|ring].
    rewrite R. ring.
Qed.

(* the derivative quadratic form is the diagonal sums of W = U V^T *)
Lemma dqf_Dg U V D m B b d : tshape U = D :: m :: B -> tshape V = D :: m :: B -> valid b B -> d < m ->
  tat (dqf K U V) (d :: b) = Dg (Wt U V D b) m d.
Proof.
  intros HU HV Hb Hd. unfold dqf. rewrite HU. cbn [Model.tat dim0 dim1 nth]. unfold Dg, Wt.
  destruct (d =? 0).
  - apply rsum_swap.
  - rewrite rsum_swap. apply rsum_ext. intros a _. rewrite rsum_add. reflexivity.
Qed.

Lemma toeplitz_core U V D m B (delta : tensor) :
  tshape U = D :: m :: B -> tshape V = D :: m :: B ->
  bsum (m :: B) (fun ix => tat (dqf K U V) ix *! bget delta ix) =
  bilW B m m (Wt U V D) (fun b i j => bget delta (absd i j :: b)).
Proof.
  intros HU HV. cbn [Model.bsum]. rewrite sum2_swap. unfold bilW. apply bsum_ext. intros b Hb.
  rewrite (toep_sum (Wt U V D b) (fun d => bget delta (d :: b)) m).
  apply rsum_ext. intros d Hd. rewrite (dqf_Dg U V D m B) by auto. ring.
Qed.

Lemma dqf_shape U V D m B : tshape U = D :: m :: B -> tshape V = D :: m :: B -> tshape (dqf K U V) = m :: B.
Proof. intros HU HV. unfold dqf, batch2. rewrite HU, HV. cbn. rewrite bcs_refl. reflexivity. Qed.

(* ---- flat sums and the row-major regrouping of `view(-1, *s).sum(0)` *)
Lemma rsum_unravel sh (f : list nat -> T) : rsum (numel sh) (fun q => f (unravel sh q)) = bsum sh f.
Proof.
  revert f; induction sh as [|d sh IH]; intros f.
  - simpl. ring.
  - cbn [numel unravel Model.bsum]. rewrite rsum_prod'.
    rewrite rsum_swap. apply rsum_ext. intros r Hr.
    rewrite <- (IH (fun ix => f (r :: ix))). apply rsum_ext. intros q _.
    assert (d <> 0) by lia.
    replace (r + d * q) with (r + q * d) by lia.
    rewrite Nat.mod_add, Nat.div_add by auto. rewrite Nat.mod_small, Nat.div_small by auto.
    reflexivity.
Qed.

Lemma numel_app a b : numel (a ++ b) = numel a * numel b.
Proof. induction a; simpl; [lia|]. rewrite IHa. lia. Qed.

Lemma ravel_lt s ix : valid ix s -> ravel s ix < numel s.
Proof.
  revert ix; induction s as [|d s IH]; intros [|i ix]; simpl; try tauto; try lia.
  intros [Hi H]. specialize (IH _ H). nia.
Qed.

Lemma unravel_app_ravel s extra ix q : valid ix s ->
  unravel (s ++ extra) (ravel s ix + numel s * q) = ix ++ unravel extra q.
Proof.
  revert ix q; induction s as [|d s IH]; intros [|i ix] q; simpl; try tauto.
  - intros _. f_equal. lia.
  - intros [Hi Hv]. assert (d <> 0) by lia.
    replace (i + d * ravel s ix + d * numel s * q) with (i + (ravel s ix + numel s * q) * d) by lia.
    rewrite Nat.mod_add, Nat.div_add by auto. rewrite Nat.mod_small, Nat.div_small by auto. simpl.
    f_equal. apply IH. auto.
Qed.

Lemma pair_collapse_view (t delta : tensor) s extra :
  tshape t = s ++ extra -> tshape delta = s -> 0 < numel s ->
  pair K (collapse_view K t s) delta = bsum (tshape t) (fun ix => tat t ix *! bget delta ix).
Proof.
  intros Ht Hd Hs. unfold pair, collapse_view. cbn [Model.tshape Model.tat]. rewrite Ht, bsum_app.
  apply bsum_ext. intros ix Hv. rewrite numel_app.
  replace (numel s * numel extra / numel s) with (numel extra) by (rewrite Nat.mul_comm, Nat.div_mul by lia; reflexivity).
  rewrite <- rsum_mul_r. rewrite <- rsum_unravel. apply rsum_ext. intros q _.
  rewrite unravel_app_ravel by auto.
  f_equal. unfold Model.bget. rewrite Hd.
  assert (E : forall a b, valid a s -> bcast_ix s (a ++ b) = bcast_ix s a).
  { clear. induction s as [|d s IH]; intros [|i a] b; simpl; try tauto. intros [_ H]. rewrite IH; auto. }
  rewrite E by auto. reflexivity.
Qed.

(* where the pinned collapse is right: the extra batch dimensions of the vectors are LEADING dimensions *)
Definition collapse_safe (fx : fixes) (s big : list nat) : Prop :=
  fx_collapse fx = true \/ length big <= length s \/ exists extra, big = s ++ extra.

Lemma pair_collapse fx (t delta : tensor) s :
  expandable s (tshape t) = true -> tshape delta = s -> 0 < numel s -> collapse_safe fx s (tshape t) ->
  pair K (collapse K fx t s) delta = bsum (tshape t) (fun ix => tat t ix *! bget delta ix).
Proof.
  intros He Hd Hs Hsafe. unfold collapse.
  destruct (Nat.ltb_spec (length s) (length (tshape t))) as [Hlt|Hge].
  - destruct (fx_collapse fx) eqn:Efx.
    + apply pair_sum_to; auto.
    + destruct Hsafe as [Hf|[Hl|[extra Hx]]]; [congruence|lia|]. eapply pair_collapse_view; eauto.
  - reflexivity.
Qed.

Lemma toeplitz_coeff fx col rg m bt B D U V delta :
  tshape col = m :: bt -> expandable bt B = true -> 0 < numel (m :: bt) ->
  collapse_safe fx (m :: bt) (m :: B) ->
  tshape U = D :: m :: B -> tshape V = D :: m :: B -> tshape delta = tshape col ->
  bil K (Toeplitz K (tadd K col delta) rg) B D U V -! bil K (Toeplitz K col rg) B D U V
  = pair K (toeplitz_bd K fx col U V) delta.
Proof.
  intros Ht He Hn Hsafe HU HV Hd.
  rewrite bil_diff by reflexivity. cbn [nrows ncols den]. rewrite Ht. cbn [dim0 nth].
  rewrite (bilW_ext B m m _ (Wt U V D) _ (fun b i j => bget delta (absd i j :: b)));
    [|reflexivity|intros b i j _ _ _; apply bget_tadd_sub; auto].
  unfold toeplitz_bd. rewrite Ht.
  rewrite pair_collapse.
  - rewrite (dqf_shape U V D m B) by auto. symmetry. apply toeplitz_core; auto.
  - rewrite (dqf_shape U V D m B) by auto. simpl. rewrite Nat.eqb_refl. simpl. exact He.
  - rewrite Hd. exact Ht.
  - exact Hn.
  - rewrite (dqf_shape U V D m B) by auto. exact Hsafe.
Qed.

End Toep.
