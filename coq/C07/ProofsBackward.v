(* C07 — functions/_matmul.py, Matmul.backward (matrix right-hand side):
   * the right-hand-side gradient is A^T G, reduced to the right-hand side's shape when that was broadcast;
   * the operator gradients are the bilinear derivative at (G, rhs) of the REBUILT operator, which is the operator itself. *)
From Coq Require Import List Arith Bool Lia ZArith Ring.
Import ListNotations.
Require Import C07.Model C07.ProofsBase C07.ProofsRouting C07.ProofsSizes C07.ProofsW C07.ProofsLeaf C07.ProofsToeplitz
  C07.ProofsComposite C07.ProofsMain C07.ProofsInduct.

Section Backward.
Context {K : RingOps} {Kth : RingLaws K}.
Add Ring Kring : (@ring_laws K Kth).
Notation T := (car K).
Notation zero := (r0 K).
Infix "+!" := (radd K) (at level 50, left associativity).
Infix "*!" := (rmul K) (at level 40, left associativity).
Infix "-!" := (rsub K) (at level 50, left associativity).
Notation rsum := (rsum K).
Notation bsum := (bsum K).
Notation OpExpr := (OpExpr K).
Notation tensor := (tensor K).
Notation bget := (bget K).
Notation tat := (tat K).
Notation tshape := (tshape K).
Notation nrows := (nrows K).
Notation ncols := (ncols K).
Notation bshape := (bshape K).
Notation den := (den K).

(* the scalar  < G , A X >  = sum_b sum_c sum_i G[b,i,c] (A_b X_b)[i,c]  with X broadcast to the batch shape B of G *)
Definition out_pair (e : OpExpr) (B : list nat) (C : nat) (G X : tensor) : T :=
  bsum B (fun b => rsum C (fun c => rsum (nrows e) (fun i =>
    bget G (c :: i :: b) *! rsum (ncols e) (fun k => den e b i k *! bget X (c :: k :: b))))).

Lemma out_pair_diff e B C G X delta : tshape delta = tshape X ->
  out_pair e B C G (tadd K X delta) -! out_pair e B C G X
  = bsum B (fun b => rsum C (fun c => rsum (nrows e) (fun i =>
      bget G (c :: i :: b) *! rsum (ncols e) (fun k => den e b i k *! bget delta (c :: k :: b))))).
Proof.
  intros Hd. unfold out_pair. rewrite <- bsum_sub. apply bsum_ext. intros b _.
  rewrite <- rsum_sub. apply rsum_ext. intros c _. rewrite <- rsum_sub. apply rsum_ext. intros i _.
  transitivity (bget G (c :: i :: b) *! (rsum (ncols e) (fun k => den e b i k *! bget (tadd K X delta) (c :: k :: b))
                                         -! rsum (ncols e) (fun k => den e b i k *! bget X (c :: k :: b)))); [ring|].
  f_equal. rewrite <- rsum_sub. apply rsum_ext. intros k _. rewrite bget_tadd by exact Hd. ring.
Qed.

(* A^T G paired with delta (broadcast) is the same scalar *)
Lemma t_matmul_pair e B C G (delta : tensor) :
  tshape G = C :: nrows e :: B -> expandable (bshape e) B = true ->
  bsum (C :: ncols e :: B) (fun ix => tat (alg_t_matmul K e G) ix *! bget delta ix)
  = bsum B (fun b => rsum C (fun c => rsum (nrows e) (fun i =>
      bget G (c :: i :: b) *! rsum (ncols e) (fun k => den e b i k *! bget delta (c :: k :: b))))).
Proof.
  intros HG He. cbn [Model.bsum].
  rewrite (sum3_swap C (ncols e) B (fun c k b => tat (alg_t_matmul K e G) (c :: k :: b) *! bget delta (c :: k :: b))).
  apply bsum_ext. intros b Hb. rewrite rsum_swap. apply rsum_ext. intros c Hc.
  transitivity (rsum (ncols e) (fun k => rsum (nrows e) (fun i =>
                  bget G (c :: i :: b) *! (den e b i k *! bget delta (c :: k :: b))))).
  - apply rsum_ext. intros k Hk. cbn [Model.tat alg_t_matmul]. rewrite <- rsum_mul_r. apply rsum_ext. intros i _. ring.
  - rewrite rsum_swap. apply rsum_ext. intros i _. rewrite rsum_mul_l. reflexivity.
Qed.

Theorem matmul_backward_rhs fx (e : OpExpr) (rhs G : tensor) B C (delta : tensor) need_args g :
  chol_ok fx e ->
  tshape G = C :: nrows e :: B -> expandable (bshape e) B = true ->
  expandable (tshape rhs) (C :: ncols e :: B) = true -> 0 < numel (tshape rhs) ->
  collapse_safe fx (tshape rhs) (C :: ncols e :: B) ->
  tshape delta = tshape rhs ->
  fst (matmul_backward K fx e rhs G need_args true) = Some g ->
  out_pair e B C G (tadd K rhs delta) -! out_pair e B C G rhs = pair K g delta.
Proof.
  intros Hc HG He Hex Hn Hs Hd Hg.
  unfold matmul_backward in Hg. rewrite rebuild_roundtrip in Hg by exact Hc. cbn [fst] in Hg.
  change (Some (collapse K fx (alg_t_matmul K e G) (tshape rhs)) = Some g) in Hg.
  injection Hg as Hg'. subst g.
  pose proof (alg_t_matmul_shape e G C B HG He) as Hsh.
  rewrite pair_collapse by (rewrite ?Hsh; auto).
  rewrite Hsh. rewrite out_pair_diff by exact Hd. symmetry. apply t_matmul_pair; auto.
Qed.

(* the operator gradients: Matmul.backward calls _bilinear_derivative(grad_output, rhs) on the rebuilt operator *)
Theorem matmul_backward_args fx (e : OpExpr) (rhs G : tensor) need_rhs :
  chol_ok fx e -> snd (matmul_backward K fx e rhs G true need_rhs) = alg_bd K fx e G rhs.
Proof. intros Hc. unfold matmul_backward. rewrite rebuild_roundtrip by exact Hc. reflexivity. Qed.

Corollary matmul_backward_args_coeff fx (e : OpExpr) :
  wf e -> lin e = true -> id_ok fx e -> chol_ok fx e ->
  forall B D (G rhs : tensor) k t rg (delta g : tensor) need_rhs,
    tshape G = D :: nrows e :: B -> tshape rhs = D :: ncols e :: B -> expandable (bshape e) B = true -> csafe fx e B ->
    nth_error (representation K e) k = Some (LF K t rg) -> tshape delta = tshape t ->
    nth_error (snd (matmul_backward K fx e rhs G true need_rhs)) k = Some (Some g) ->
    bil K (perturb K e k delta) B D G rhs -! bil K e B D G rhs = pair K g delta.
Proof.
  intros Hwf Hlin Hid Hc B D G rhs k t rg delta g need_rhs HG Hr He Hs Hrep Hd Hslot.
  rewrite matmul_backward_args in Hslot by exact Hc.
  eapply (coeff_lin fx e Hwf Hlin Hid); eauto.
Qed.

Theorem matmul_backward_no_args fx (e : OpExpr) (rhs G : tensor) need_rhs :
  length (snd (matmul_backward K fx e rhs G false need_rhs)) = length (representation K e)
  /\ Forall (fun s => s = None) (snd (matmul_backward K fx e rhs G false need_rhs)).
Proof.
  unfold matmul_backward. cbn [snd]. split; [apply map_length|].
  induction (representation K e); simpl; constructor; auto.
Qed.

End Backward.
