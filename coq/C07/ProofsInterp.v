(* C07 — InterpolatedLinearOperator._bilinear_derivative: base slots at (W_l^T U, W_r^T V), zero slots for the index
   tensors, and the two value gradients (rows of base @ W_r^T V selected by the left indices, times U; and symmetrically). *)
From Coq Require Import List Arith Bool Lia ZArith Ring.
Import ListNotations.
Require Import C07.Model C07.ProofsBase C07.ProofsRouting C07.ProofsSizes C07.ProofsW C07.ProofsLeaf C07.ProofsToeplitz
  C07.ProofsComposite C07.ProofsMain C07.ProofsInterpAlg.

Section Interp.
Context {K : RingOps} {Kth : RingLaws K}.
Add Ring Kring : (@ring_laws K Kth).
Notation T := (car K).
Notation zero := (r0 K).
Infix "+!" := (radd K) (at level 50, left associativity).
Infix "*!" := (rmul K) (at level 40, left associativity).
Infix "-!" := (rsub K) (at level 50, left associativity).
Notation rsum := (rsum K).
Notation bsum := (bsum K).
Notation OpExpr := (OpExpr K).
Notation tensor := (tensor K).
Notation bget := (bget K).
Notation tat := (tat K).
Notation tshape := (tshape K).
Notation nrows := (nrows K).
Notation ncols := (ncols K).
Notation bshape := (bshape K).
Notation nleaves := (nleaves K).
Notation perturb := (perturb K).
Notation den := (den K).

(* ---- reading the interpolation tensors at a batch index of the (possibly larger) batch shape of the vectors *)
Lemma ibget_lt (idx : itensor) k M bs B nb p i b :
  ishape idx = k :: M :: bs -> expandable bs B = true ->
  (forall ix, valid ix (ishape idx) -> iat idx ix < nb) ->
  p < k -> i < M -> valid b B -> ibget idx (p :: i :: b) < nb.
Proof.
  intros Hs He Hb Hp Hi Hv. unfold ibget. apply Hb. rewrite Hs.
  apply (bcast_ix_valid (k :: M :: bs) (k :: M :: B)); [simpl; rewrite !Nat.eqb_refl; simpl; exact He|simpl; auto].
Qed.

Lemma interp_t_shape idx val nb X k M bs D B :
  ishape idx = k :: M :: bs -> tshape X = D :: M :: B -> expandable bs B = true ->
  tshape (interp_t K idx val nb X) = D :: nb :: B.
Proof.
  intros Hs HX He. unfold interp_t, batch2. rewrite Hs, HX. cbn [skipn dim0 nth Model.tshape].
  rewrite bcs_expandable_l by exact He. reflexivity.
Qed.

Lemma interp_t_at idx val nb X k M bs D B d r b :
  ishape idx = k :: M :: bs -> tshape X = D :: M :: B -> expandable bs B = true ->
  d < D -> r < nb -> valid b B ->
  bget (interp_t K idx val nb X) (d :: r :: b)
  = WT nb M k (fun p i => ibget idx (p :: i :: b)) (fun p i => bget val (p :: i :: b)) (fun i => bget X (d :: i :: b)) r.
Proof.
  intros Hs HX He Hd Hr Hb.
  rewrite bget_valid by (rewrite (interp_t_shape idx val nb X k M bs D B Hs HX He); simpl; auto).
  unfold interp_t, WT. cbn [Model.tat]. rewrite Hs. cbn [dim0 dim1 nth]. reflexivity.
Qed.

(* ---- the weight handed to the base operator *)
Lemma interp_W li lv ri rv nb mb kl kr M N bs B D U V (F : list nat -> nat -> nat -> T) :
  ishape li = kl :: M :: bs -> ishape ri = kr :: N :: bs -> expandable bs B = true ->
  (forall ix, valid ix (ishape li) -> iat li ix < nb) -> (forall ix, valid ix (ishape ri) -> iat ri ix < mb) ->
  tshape U = D :: M :: B -> tshape V = D :: N :: B ->
  bilW B M N (Wt U V D)
       (fun b i j => rsum kl (fun p => rsum kr (fun q =>
          bget lv (p :: i :: b) *! F b (ibget li (p :: i :: b)) (ibget ri (q :: j :: b)) *! bget rv (q :: j :: b))))
  = bilW B nb mb (Wt (interp_t K li lv nb U) (interp_t K ri rv mb V) D) F.
Proof.
  intros Hli Hri He Hlb Hrb HU HV. unfold bilW. apply bsum_ext. intros b Hb. symmetry.
  assert (HL : forall p i, p < kl -> i < M -> ibget li (p :: i :: b) < nb) by (intros; eapply ibget_lt; eauto).
  assert (HR : forall q j, q < kr -> j < N -> ibget ri (q :: j :: b) < mb) by (intros; eapply ibget_lt; eauto).
  etransitivity;
    [|exact (WT_two_sided nb mb M N kl kr D
                (fun p i => ibget li (p :: i :: b)) (fun p i => bget lv (p :: i :: b))
                (fun q j => ibget ri (q :: j :: b)) (fun q j => bget rv (q :: j :: b))
                (fun d i => bget U (d :: i :: b)) (fun d j => bget V (d :: j :: b)) (F b) HL HR)].
  apply rsum_ext. intros r Hr. apply rsum_ext. intros s Hs. f_equal. unfold Wt. apply rsum_ext. intros d Hd.
  rewrite (interp_t_at li lv nb U kl M bs D B) by auto. rewrite (interp_t_at ri rv mb V kr N bs D B) by auto. reflexivity.
Qed.

(* ---- the gradient of the left interpolation values *)
Lemma interp_left_values base li ri rv kl kr M N B D U V (delta : tensor) :
  ishape li = kl :: M :: bshape base -> ishape ri = kr :: N :: bshape base -> expandable (bshape base) B = true ->
  (forall ix, valid ix (ishape li) -> iat li ix < nrows base) -> (forall ix, valid ix (ishape ri) -> iat ri ix < ncols base) ->
  tshape U = D :: M :: B -> tshape V = D :: N :: B -> tshape delta = ishape li ->
  bilW B M N (Wt U V D)
       (fun b i j => rsum kl (fun p => rsum kr (fun q =>
          bget delta (p :: i :: b) *! den base b (ibget li (p :: i :: b)) (ibget ri (q :: j :: b)) *! bget rv (q :: j :: b))))
  = pair K (interp_vals_bd K li (alg_matmul K base (interp_t K ri rv (ncols base) V)) U) delta.
Proof.
  intros Hli Hri He Hlb Hrb HU HV Hd.
  pose proof (interp_t_shape ri rv (ncols base) V kr N (bshape base) D B Hri HV He) as HR.
  pose proof (alg_matmul_shape base _ D B HR He) as HBR.
  unfold pair, interp_vals_bd. cbn [Model.tshape Model.tat]. unfold batch2. rewrite Hli, HBR, HU.
  cbn [skipn dim0 dim1 nth]. rewrite bcs_refl. cbn [Model.bsum].
  rewrite (sum3_swap kl M B (fun p i b =>
             rsum D (fun d => bget (alg_matmul K base (interp_t K ri rv (ncols base) V)) (d :: ibget li (p :: i :: b) :: b)
                              *! bget U (d :: i :: b)) *! bget delta (p :: i :: b))).
  unfold bilW. apply bsum_ext. intros b Hb. apply rsum_ext. intros i Hi.
  assert (HRb : forall q j, q < kr -> j < N -> ibget ri (q :: j :: b) < ncols base) by (intros; eapply ibget_lt; eauto).
  etransitivity;
    [exact (WT_values (ncols base) N kl kr D (fun q j => ibget ri (q :: j :: b)) (fun q j => bget rv (q :: j :: b))
              (fun d => bget U (d :: i :: b)) (fun d j => bget V (d :: j :: b))
              (fun p => bget delta (p :: i :: b))
              (fun p s => den base b (ibget li (p :: i :: b)) s) HRb)|].
  apply rsum_ext. intros p Hp. f_equal. apply rsum_ext. intros d Hdd. f_equal.
  assert (Hlt : ibget li (p :: i :: b) < nrows base) by (eapply ibget_lt; eauto).
  rewrite (alg_matmul_at base _ D B d (ibget li (p :: i :: b)) b HR He Hdd Hlt Hb).
  apply rsum_ext. intros s Hs. f_equal. symmetry.
  apply (interp_t_at ri rv (ncols base) V kr N (bshape base) D B); auto.
Qed.

(* ---- the gradient of the right interpolation values *)
Lemma interp_right_values base li lv ri kl kr M N B D U V (delta : tensor) :
  ishape li = kl :: M :: bshape base -> ishape ri = kr :: N :: bshape base -> expandable (bshape base) B = true ->
  (forall ix, valid ix (ishape li) -> iat li ix < nrows base) -> (forall ix, valid ix (ishape ri) -> iat ri ix < ncols base) ->
  tshape U = D :: M :: B -> tshape V = D :: N :: B -> tshape delta = ishape ri ->
  bilW B M N (Wt U V D)
       (fun b i j => rsum kl (fun p => rsum kr (fun q =>
          bget lv (p :: i :: b) *! den base b (ibget li (p :: i :: b)) (ibget ri (q :: j :: b)) *! bget delta (q :: j :: b))))
  = pair K (interp_vals_bd K ri (alg_t_matmul K base (interp_t K li lv (nrows base) U)) V) delta.
Proof.
  intros Hli Hri He Hlb Hrb HU HV Hd.
  pose proof (interp_t_shape li lv (nrows base) U kl M (bshape base) D B Hli HU He) as HL.
  pose proof (alg_t_matmul_shape base _ D B HL He) as HBL.
  unfold pair, interp_vals_bd. cbn [Model.tshape Model.tat]. unfold batch2. rewrite Hri, HBL, HV.
  cbn [skipn dim0 dim1 nth]. rewrite bcs_refl. cbn [Model.bsum].
  rewrite (sum3_swap kr N B (fun q j b =>
             rsum D (fun d => bget (alg_t_matmul K base (interp_t K li lv (nrows base) U)) (d :: ibget ri (q :: j :: b) :: b)
                              *! bget V (d :: j :: b)) *! bget delta (q :: j :: b))).
  unfold bilW. apply bsum_ext. intros b Hb. rewrite (rsum_swap M N). apply rsum_ext. intros j Hj.
  assert (HLb : forall p i, p < kl -> i < M -> ibget li (p :: i :: b) < nrows base) by (intros; eapply ibget_lt; eauto).
  transitivity (rsum M (fun i => rsum D (fun d => bget V (d :: j :: b) *! bget U (d :: i :: b)) *!
                  rsum kr (fun q => rsum kl (fun p =>
                    bget delta (q :: j :: b) *! den base b (ibget li (p :: i :: b)) (ibget ri (q :: j :: b)) *! bget lv (p :: i :: b))))).
  - apply rsum_ext. intros i _. unfold Wt. f_equal.
    + apply rsum_ext. intros d _. ring.
    + rewrite rsum_swap. apply rsum_ext. intros q _. apply rsum_ext. intros p _. ring.
  - etransitivity;
      [exact (WT_values (nrows base) M kr kl D (fun p i => ibget li (p :: i :: b)) (fun p i => bget lv (p :: i :: b))
                (fun d => bget V (d :: j :: b)) (fun d i => bget U (d :: i :: b))
                (fun q => bget delta (q :: j :: b))
                (fun q r => den base b r (ibget ri (q :: j :: b))) HLb)|].
    apply rsum_ext. intros q Hq. f_equal. apply rsum_ext. intros d Hdd. f_equal.
    assert (Hlt : ibget ri (q :: j :: b) < ncols base) by (eapply ibget_lt; eauto).
    rewrite (alg_t_matmul_at base _ D B d (ibget ri (q :: j :: b)) b HL He Hdd Hlt Hb).
    apply rsum_ext. intros r Hr. f_equal. symmetry.
    apply (interp_t_at li lv (nrows base) U kl M (bshape base) D B); auto.
Qed.

(* ---- InterpolatedLinearOperator *)
Lemma coeff_Interpolated fx base li lv lrg ri rv rrg :
  wf (Interpolated K base li lv lrg ri rv rrg) -> id_ok fx base -> coeff_ok fx base ->
  coeff_ok fx (Interpolated K base li lv lrg ri rv rrg).
Proof.
  intros Hwf Hib IHb B D U V k t rg delta g HU HV He Hs Hrep Hd Hslot.
  cbn [wf] in Hwf. destruct Hwf as (Hwb & Hlv & Hrv & (kl & M & Hli) & (kr & N & Hri) & Hlb & Hrb).
  cbn [Model.nrows Model.ncols] in HU, HV. rewrite Hli in HU. rewrite Hri in HV. cbn [dim1 nth] in HU, HV.
  cbn [Model.bshape] in He. cbn [csafe] in Hs.
  cbn [Model.representation] in Hrep. cbn [Model.alg_bd] in Hslot.
  pose proof (interp_t_shape li lv (nrows base) U kl M (bshape base) D B Hli HU He) as HL.
  pose proof (interp_t_shape ri rv (ncols base) V kr N (bshape base) D B Hri HV He) as HR.
  destruct (Nat.ltb_spec k (nleaves base)) as [Hk|Hk].
  - (* a leaf of the base operator *)
    rewrite nth_error_app1 in Hrep by exact Hk.
    rewrite nth_error_app1 in Hslot by (rewrite alg_bd_length by exact Hib; exact Hk).
    cbn [Model.perturb]. cbv zeta. replace (k <? nleaves base) with true by (symmetry; apply Nat.ltb_lt; exact Hk).
    rewrite bil_diff by reflexivity.
    cbn [Model.nrows Model.ncols Model.den]. rewrite Hli, Hri. cbn [dim0 dim1 nth].
    rewrite (bilW_ext B M N _ (Wt U V D) _
               (fun b i j => rsum kl (fun p => rsum kr (fun q =>
                  bget lv (p :: i :: b) *!
                  (fun b' r s => den (perturb base k delta) b' r s -! den base b' r s) b
                     (ibget li (p :: i :: b)) (ibget ri (q :: j :: b)) *! bget rv (q :: j :: b)))));
      [|reflexivity|intros; rewrite <- rsum_sub; apply rsum_ext; intros; rewrite <- rsum_sub; apply rsum_ext; intros; ring].
    rewrite (interp_W li lv ri rv (nrows base) (ncols base) kl kr M N (bshape base) B D U V
               (fun b r s => den (perturb base k delta) b r s -! den base b r s)) by auto.
    rewrite <- (bil_diff base (perturb base k delta) B D) by (apply nrows_perturb || apply ncols_perturb).
    eapply IHb; eauto.
  - rewrite nth_error_app2 in Hrep by exact Hk.
    rewrite nth_error_app2 in Hslot by (rewrite alg_bd_length by exact Hib; exact Hk).
    rewrite alg_bd_length in Hslot by exact Hib. fold (nleaves base) in Hrep.
    destruct (k - nleaves base) as [|[|[|[|q]]]] eqn:Ek; simpl in Hrep; try discriminate.
    + (* left interpolation values *)
      assert (Hkb : k = nleaves base + 1) by lia. subst k.
      simpl in Hslot. inversion Hrep; subst t rg. inversion Hslot; subst g.
      cbn [Model.perturb]. cbv zeta.
      replace (nleaves base + 1 <? nleaves base) with false by (symmetry; apply Nat.ltb_ge; lia).
      rewrite Nat.eqb_refl.
      rewrite bil_diff by reflexivity.
      cbn [Model.nrows Model.ncols Model.den]. rewrite Hli, Hri. cbn [dim0 dim1 nth].
      rewrite (bilW_ext B M N _ (Wt U V D) _
                 (fun b i j => rsum kl (fun p => rsum kr (fun q =>
                    bget delta (p :: i :: b) *! den base b (ibget li (p :: i :: b)) (ibget ri (q :: j :: b)) *!
                    bget rv (q :: j :: b)))));
        [|reflexivity|intros; rewrite <- rsum_sub; apply rsum_ext; intros; rewrite <- rsum_sub; apply rsum_ext; intros;
                      rewrite bget_tadd by exact Hd; ring].
      apply interp_left_values; auto. rewrite Hd. exact Hlv.
    + (* right interpolation values *)
      assert (Hkb : k = nleaves base + 3) by lia. subst k.
      simpl in Hslot. inversion Hrep; subst t rg. inversion Hslot; subst g.
      cbn [Model.perturb]. cbv zeta.
      replace (nleaves base + 3 <? nleaves base) with false by (symmetry; apply Nat.ltb_ge; lia).
      replace (nleaves base + 3 =? nleaves base + 1) with false by (symmetry; apply Nat.eqb_neq; lia).
      rewrite Nat.eqb_refl.
      rewrite bil_diff by reflexivity.
      cbn [Model.nrows Model.ncols Model.den]. rewrite Hli, Hri. cbn [dim0 dim1 nth].
      rewrite (bilW_ext B M N _ (Wt U V D) _
                 (fun b i j => rsum kl (fun p => rsum kr (fun q =>
                    bget lv (p :: i :: b) *! den base b (ibget li (p :: i :: b)) (ibget ri (q :: j :: b)) *!
                    bget delta (q :: j :: b)))));
        [|reflexivity|intros; rewrite <- rsum_sub; apply rsum_ext; intros; rewrite <- rsum_sub; apply rsum_ext; intros;
                      rewrite bget_tadd by exact Hd; ring].
      apply interp_right_values; auto. rewrite Hd. exact Hrv.
    + destruct q; discriminate.
Qed.

End Interp.
