(* C07 — the exact algebraic identities behind Solve.backward / InvQuad.backward (no limits, no analysis):
   for solutions  A x = b,  (A + E) y = b,  A^T w = u  over any commutative ring,
        u^T y - u^T x = - w^T E y                              (resolvent identity)
        u^T y - u^T x - < -(w x^T), E > = - w^T E (y - x)       (the remainder is of second order in E)
   The step from the second identity to "the gradient of u^T A^{-1} b with respect to A is -(A^{-T} u)(A^{-1} b)^T"
   (what Solve.backward hands to _bilinear_derivative) needs  y -> x  as  E -> 0  and is NOT formalised. *)
From Coq Require Import List Arith Bool Lia ZArith Ring.
Import ListNotations.
Require Import C07.Model C07.ProofsBase.

Section Resolvent.
Context {K : RingOps} {Kth : RingLaws K}.
Add Ring Kring : (@ring_laws K Kth).
Notation T := (car K).
Notation zero := (r0 K).
Infix "+!" := (radd K) (at level 50, left associativity).
Infix "*!" := (rmul K) (at level 40, left associativity).
Infix "-!" := (rsub K) (at level 50, left associativity).
Notation rsum := (rsum K).

Lemma rsum_opp m (f : nat -> T) : rsum m (fun i => ropp K (f i)) = ropp K (rsum m f).
Proof. induction m as [|m IH]; simpl; [ring|]. rewrite IH. ring. Qed.

Variable n : nat.
Variables A E : nat -> nat -> T.
Variables x y b u w : nat -> T.
Hypothesis HAx : forall i, i < n -> rsum n (fun j => A i j *! x j) = b i.
Hypothesis HAEy : forall i, i < n -> rsum n (fun j => (A i j +! E i j) *! y j) = b i.
Hypothesis HATw : forall j, j < n -> rsum n (fun i => A i j *! w i) = u j.

Lemma resolvent_core :
  rsum n (fun j => u j *! (y j -! x j)) = rsum n (fun i => w i *! (rsum n (fun j => A i j *! y j) -! b i)).
Proof.
  transitivity (rsum n (fun j => rsum n (fun i => w i *! (A i j *! (y j -! x j))))).
  - apply rsum_ext. intros j Hj. rewrite <- HATw by exact Hj. rewrite <- rsum_mul_r. apply rsum_ext. intros i _. ring.
  - rewrite rsum_swap. apply rsum_ext. intros i Hi. rewrite rsum_mul_l. f_equal.
    rewrite <- HAx by exact Hi. rewrite <- rsum_sub. apply rsum_ext. intros j _. ring.
Qed.

Lemma Ay_minus_b i : i < n -> rsum n (fun j => A i j *! y j) -! b i = ropp K (rsum n (fun j => E i j *! y j)).
Proof.
  intros Hi. rewrite <- (HAEy i Hi).
  replace (rsum n (fun j => (A i j +! E i j) *! y j)) with (rsum n (fun j => A i j *! y j) +! rsum n (fun j => E i j *! y j)).
  - ring.
  - rewrite <- rsum_add. apply rsum_ext. intros j _. ring.
Qed.

Theorem resolvent_identity :
  rsum n (fun j => u j *! y j) -! rsum n (fun j => u j *! x j)
  = ropp K (rsum n (fun i => w i *! rsum n (fun j => E i j *! y j))).
Proof.
  rewrite <- rsum_sub.
  transitivity (rsum n (fun j => u j *! (y j -! x j))); [apply rsum_ext; intros; ring|].
  rewrite resolvent_core.
  transitivity (rsum n (fun i => ropp K (w i *! rsum n (fun j => E i j *! y j)))).
  - apply rsum_ext. intros i Hi. rewrite Ay_minus_b by exact Hi. ring.
  - apply rsum_opp.
Qed.

(* the candidate gradient  G = -(w x^T)  paired with E, and the exact remainder *)
Theorem solve_gradient_remainder :
  (rsum n (fun j => u j *! y j) -! rsum n (fun j => u j *! x j))
  -! rsum n (fun i => rsum n (fun j => ropp K (w i *! x j) *! E i j))
  = ropp K (rsum n (fun i => w i *! rsum n (fun j => E i j *! (y j -! x j)))).
Proof.
  rewrite resolvent_identity.
  transitivity (ropp K (rsum n (fun i => w i *! rsum n (fun j => E i j *! y j))
                        -! rsum n (fun i => w i *! rsum n (fun j => E i j *! x j)))).
  - replace (rsum n (fun i => rsum n (fun j => ropp K (w i *! x j) *! E i j)))
      with (ropp K (rsum n (fun i => w i *! rsum n (fun j => E i j *! x j)))); [ring|].
    rewrite <- rsum_opp. apply rsum_ext. intros i _.
    rewrite <- rsum_mul_l. rewrite <- rsum_opp. apply rsum_ext. intros j _. ring.
  - f_equal. rewrite <- rsum_sub. apply rsum_ext. intros i _.
    transitivity (w i *! (rsum n (fun j => E i j *! y j) -! rsum n (fun j => E i j *! x j))); [ring|].
    f_equal. rewrite <- rsum_sub. apply rsum_ext. intros j _. ring.
Qed.

End Resolvent.
