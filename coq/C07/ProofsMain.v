(* C07 — the coefficient identity for every expression of the (multi)linear fragment, by induction on the expression:
   slot k of `_bilinear_derivative(U, V)` is the coefficient of leaf k in  sum_i u_i^T A(theta) v_i. *)
From Coq Require Import List Arith Bool Lia ZArith Ring.
Import ListNotations.
Require Import C07.Model C07.ProofsBase C07.ProofsRouting C07.ProofsSizes C07.ProofsW C07.ProofsLeaf C07.ProofsToeplitz
  C07.ProofsComposite.

Section Main.
Context {K : RingOps} {Kth : RingLaws K}.
Add Ring Kring : (@ring_laws K Kth).
Notation T := (car K).
Notation zero := (r0 K).
Notation one := (r1 K).
Infix "+!" := (radd K) (at level 50, left associativity).
Infix "*!" := (rmul K) (at level 40, left associativity).
Infix "-!" := (rsub K) (at level 50, left associativity).
Notation rsum := (rsum K).
Notation bsum := (bsum K).
Notation OpExpr := (OpExpr K).
Notation tensor := (tensor K).
Notation bget := (bget K).
Notation tat := (tat K).
Notation tshape := (tshape K).
Notation nrows := (nrows K).
Notation ncols := (ncols K).
Notation bshape := (bshape K).
Notation nleaves := (nleaves K).
Notation representation := (representation K).
Notation perturb := (perturb K).
Notation alg_bd := (alg_bd K).
Notation bil := (bil K).
Notation den := (den K).

(* ---- well-formed expressions: what the library's constructors establish / require *)
Fixpoint wf (e : OpExpr) : Prop :=
  match e with
  | Dense _ t _ => 2 <= length (tshape t)
  | Diag _ d _ => 1 <= length (tshape d)
  | ConstantDiag _ c _ _ => exists bt, tshape c = 1 :: bt
  | Identity _ _ _ => True
  | Toeplitz _ c _ => 1 <= length (tshape c) /\ 0 < numel (tshape c)
  | Triangular _ x _ => wf x
  | Sum _ ops =>
      (fix all (l : list OpExpr) : Prop := match l with [] => True | x :: r => wf x /\ all r end) ops
      /\ (forall x, In x ops -> nrows x = nrows e /\ ncols x = ncols e /\ bshape x = bshape e)
  | Matmul _ l r => wf l /\ wf r /\ ncols l = nrows r /\ bshape r = bshape l
  | ConstantMul _ b c _ => wf b /\ expandable (tshape c) (bshape b) = true
  | Interpolated _ b li lv _ ri rv _ =>
      wf b /\ tshape lv = ishape li /\ tshape rv = ishape ri
      /\ (exists kl M, ishape li = kl :: M :: bshape b) /\ (exists kr N, ishape ri = kr :: N :: bshape b)
      /\ (forall ix, valid ix (ishape li) -> iat li ix < nrows b)
      /\ (forall ix, valid ix (ishape ri) -> iat ri ix < ncols b)
  | Masked _ b rm cm => wf b /\ length rm = nrows b /\ length cm = ncols b
  | BlockDiag _ b => wf b /\ bshape b <> [] /\ 0 < nrows b /\ 0 < ncols b /\ 0 < nblocks K b
  | BlockInterleaved _ b => wf b /\ bshape b <> [] /\ 0 < nblocks K b
  | SumBatch _ b => wf b /\ bshape b <> []
  | BatchRepeat _ b rep => wf b /\ length rep = length (bshape b)
  | Mul _ l r => wf l /\ wf r /\ nrows r = nrows l /\ ncols r = ncols l /\ nrows l = ncols l /\ bshape r = bshape l
  | Kron _ ops =>
      (fix all (l : list OpExpr) : Prop := match l with [] => True | x :: r => wf x /\ all r end) ops
      /\ (forall x, In x ops -> bshape x = bshape e)
  | Root _ x => wf x
  | Chol _ x _ => wf x
  | Opaque _ _ _ => True
  | Leaf _ _ => True
  end.

Definition wf_all := fix all (l : list OpExpr) : Prop := match l with [] => True | x :: r => wf x /\ all r end.
Lemma wf_all_Forall l : wf_all l <-> Forall wf l.
Proof. induction l; simpl; split; intros H; auto; [destruct H; constructor; tauto|inversion H; tauto]. Qed.

(* ---- the fragment covered by the value theorem (grows with the development) *)
Fixpoint lin (e : OpExpr) : bool :=
  match e with
  | Dense _ _ _ | Diag _ _ _ | ConstantDiag _ _ _ _ | Identity _ _ _ | Toeplitz _ _ _ => true
  | Sum _ ops => forallb lin ops
  | Matmul _ l r => lin l && lin r
  | ConstantMul _ b _ _ => lin b
  | Interpolated _ b _ _ _ _ _ _ | Masked _ b _ _ | BlockDiag _ b | BlockInterleaved _ b | SumBatch _ b => lin b
  | _ => false
  end.

(* ---- where the pinned `view(-1, *shape).sum(0)` collapse of ToeplitzLinearOperator is right (see collapse_safe);
   B is the batch shape of the vectors at that node *)
Fixpoint csafe (fx : fixes) (e : OpExpr) (B : list nat) : Prop :=
  match e with
  | Toeplitz _ c _ => collapse_safe fx (tshape c) (dim0 (tshape c) :: B)
  | Sum _ ops => (fix all (l : list OpExpr) : Prop := match l with [] => True | x :: r => csafe fx x B /\ all r end) ops
  | Matmul _ l r | Mul _ l r => csafe fx l B /\ csafe fx r B
  | ConstantMul _ b _ _ | Interpolated _ b _ _ _ _ _ _ | Masked _ b _ _ => csafe fx b B
  | BlockDiag _ b | BlockInterleaved _ b | SumBatch _ b => csafe fx b (nblocks K b :: B)
  | BatchRepeat _ b _ => csafe fx b (bshape b)
  | _ => True
  end.

Definition coeff_ok (fx : fixes) (e : OpExpr) : Prop :=
  forall B D U V k t rg delta g,
    tshape U = D :: nrows e :: B -> tshape V = D :: ncols e :: B ->
    expandable (bshape e) B = true -> csafe fx e B ->
    nth_error (representation e) k = Some (LF K t rg) -> tshape delta = tshape t ->
    nth_error (alg_bd fx e U V) k = Some (Some g) ->
    bil (perturb e k delta) B D U V -! bil e B D U V = pair K g delta.

Definition id_ok (fx : fixes) (e : OpExpr) : Prop := fx_identity fx = true \/ no_identity e = true.

Lemma id_ok_pair fx a b : (fx_identity fx = true \/ no_identity a && no_identity b = true) -> id_ok fx a /\ id_ok fx b.
Proof. intros [H|H]; [split; left; auto|]. apply andb_true_iff in H. split; right; tauto. Qed.

(* nth_error in an append, with the known length of the first part *)
Lemma nth_error_app_l {A} (a b : list A) k : k < length a -> nth_error (a ++ b) k = nth_error a k.
Proof. apply nth_error_app1. Qed.
Lemma nth_error_app_r {A} (a b : list A) k : length a <= k -> nth_error (a ++ b) k = nth_error b (k - length a).
Proof. apply nth_error_app2. Qed.

Lemma nth_error_single {A} (x y : A) k : nth_error [x] k = Some y -> k = 0 /\ x = y.
Proof. destruct k; simpl; [intros E; inversion E; auto|]. destruct k; discriminate. Qed.

Lemma skipn_shape2 {A} (s : list A) : 2 <= length s -> exists n m bt, s = n :: m :: bt.
Proof. destruct s as [|n [|m bt]]; simpl; try lia. eauto. Qed.
Lemma skipn_shape1 {A} (s : list A) : 1 <= length s -> exists m bt, s = m :: bt.
Proof. destruct s as [|m bt]; simpl; try lia. eauto. Qed.

(* ---- leaf classes *)
Lemma coeff_Dense fx t rg : wf (Dense K t rg) -> coeff_ok fx (Dense K t rg).
Proof.
  intros Hwf B D U V k t' rg' delta g HU HV He Hs Hrep Hd Hslot.
  simpl in Hwf. destruct (skipn_shape2 _ Hwf) as [n [m [bt Ht]]].
  cbn [representation] in Hrep. apply nth_error_single in Hrep. destruct Hrep as [-> E]. inversion E; subst t' rg'.
  cbn [alg_bd] in Hslot. simpl in Hslot. inversion Hslot; subst g. cbn [perturb Nat.eqb].
  cbn [nrows ncols] in HU, HV. rewrite Ht in HU, HV. cbn in HU, HV.
  eapply dense_coeff; eauto.
Qed.

Lemma coeff_Diag fx t rg : wf (Diag K t rg) -> coeff_ok fx (Diag K t rg).
Proof.
  intros Hwf B D U V k t' rg' delta g HU HV He Hs Hrep Hd Hslot.
  simpl in Hwf. destruct (skipn_shape1 _ Hwf) as [m [bt Ht]].
  cbn [representation] in Hrep. apply nth_error_single in Hrep. destruct Hrep as [-> E]. inversion E; subst t' rg'.
  cbn [alg_bd] in Hslot. destruct rg; simpl in Hslot; inversion Hslot; subst g. cbn [perturb Nat.eqb].
  cbn [nrows ncols] in HU, HV. rewrite Ht in HU, HV. cbn in HU, HV.
  cbn [bshape] in He. rewrite Ht in He. cbn in He. apply expandable_length in He.
  eapply diag_coeff; eauto.
Qed.

Lemma coeff_CDiag fx t rg n : wf (ConstantDiag K t rg n) -> coeff_ok fx (ConstantDiag K t rg n).
Proof.
  intros Hwf B D U V k t' rg' delta g HU HV He Hs Hrep Hd Hslot.
  simpl in Hwf. destruct Hwf as [bt Ht].
  cbn [representation] in Hrep. apply nth_error_single in Hrep. destruct Hrep as [-> E]. inversion E; subst t' rg'.
  cbn [alg_bd] in Hslot. destruct rg; simpl in Hslot; inversion Hslot; subst g. cbn [perturb Nat.eqb].
  cbn [nrows ncols] in HU, HV.
  eapply cdiag_coeff; eauto.
Qed.

Lemma coeff_Toeplitz fx t rg : wf (Toeplitz K t rg) -> coeff_ok fx (Toeplitz K t rg).
Proof.
  intros Hwf B D U V k t' rg' delta g HU HV He Hs Hrep Hd Hslot.
  simpl in Hwf. destruct Hwf as [Hl Hn]. destruct (skipn_shape1 _ Hl) as [m [bt Ht]].
  cbn [representation] in Hrep. apply nth_error_single in Hrep. destruct Hrep as [-> E]. inversion E; subst t' rg'.
  cbn [alg_bd] in Hslot. simpl in Hslot. inversion Hslot; subst g. cbn [perturb Nat.eqb].
  cbn [nrows ncols] in HU, HV. rewrite Ht in HU, HV. cbn in HU, HV.
  cbn [bshape] in He. rewrite Ht in He. cbn in He.
  cbn [csafe] in Hs. rewrite Ht in Hs. cbn in Hs. rewrite Ht in Hn.
  eapply toeplitz_coeff; eauto.
Qed.

Lemma coeff_Identity fx n b : coeff_ok fx (Identity K n b).
Proof.
  intros B D U V k t' rg' delta g HU HV He Hs Hrep Hd Hslot.
  cbn [representation] in Hrep. destruct k; discriminate.
Qed.

End Main.
