(* C07 — the algebra of sparse interpolation matrices: W is (M x nb) with W[i, idx p i] += val p i (duplicates add);
   (W^T x)_r = sum_i sum_p [idx p i = r] val p i * x i. *)
From Coq Require Import List Arith Bool Lia ZArith Ring.
Import ListNotations.
Require Import C07.Model C07.ProofsBase.

Section InterpAlg.
Context {K : RingOps} {Kth : RingLaws K}.
Add Ring Kring : (@ring_laws K Kth).
Notation T := (car K).
Notation zero := (r0 K).
Infix "+!" := (radd K) (at level 50, left associativity).
Infix "*!" := (rmul K) (at level 40, left associativity).
Infix "-!" := (rsub K) (at level 50, left associativity).
Notation rsum := (rsum K).

Definition WT (nb M kl : nat) (idx : nat -> nat -> nat) (val : nat -> nat -> T) (x : nat -> T) (r : nat) : T :=
  rsum M (fun i => rsum kl (fun p => if idx p i =? r then val p i *! x i else zero)).

(* sum_r (W^T x)_r G_r = sum_i sum_p val_{p,i} x_i G_{idx p i} *)
Lemma WT_transport nb M kl idx val x (G : nat -> T) :
  (forall p i, p < kl -> i < M -> idx p i < nb) ->
  rsum nb (fun r => WT nb M kl idx val x r *! G r)
  = rsum M (fun i => rsum kl (fun p => val p i *! x i *! G (idx p i))).
Proof.
  intros Hlt. unfold WT.
  transitivity (rsum nb (fun r => rsum M (fun i => rsum kl (fun p =>
                  if idx p i =? r then val p i *! x i *! G r else zero)))).
  - apply rsum_ext. intros r _. rewrite <- rsum_mul_r. apply rsum_ext. intros i _. rewrite <- rsum_mul_r.
    apply rsum_ext. intros p _. destruct (idx p i =? r); ring.
  - rewrite rsum_swap. apply rsum_ext. intros i Hi.
    rewrite rsum_swap. apply rsum_ext. intros p Hp.
    rewrite (rsum_single nb _ (idx p i)); [rewrite Nat.eqb_refl; reflexivity|apply Hlt; auto|].
    intros r _ Hne. destruct (Nat.eqb_spec (idx p i) r); [congruence|reflexivity].
Qed.

(* the two-sided version: sum_r sum_s (sum_d (W_l^T u_d)_r (W_r^T v_d)_s) F r s
   = sum_i sum_j (sum_d u_{d,i} v_{d,j}) sum_p sum_q lv_{p,i} F (li p i) (ri q j) rv_{q,j} *)
Lemma WT_two_sided nb mb M N kl kr D li lv ri rv (u v : nat -> nat -> T) (F : nat -> nat -> T) :
  (forall p i, p < kl -> i < M -> li p i < nb) -> (forall q j, q < kr -> j < N -> ri q j < mb) ->
  rsum nb (fun r => rsum mb (fun s =>
    rsum D (fun d => WT nb M kl li lv (u d) r *! WT mb N kr ri rv (v d) s) *! F r s))
  = rsum M (fun i => rsum N (fun j =>
      rsum D (fun d => u d i *! v d j) *!
      rsum kl (fun p => rsum kr (fun q => lv p i *! F (li p i) (ri q j) *! rv q j)))).
Proof.
  intros Hl Hr.
  (* left side: bring d outside, transport r then s *)
  transitivity (rsum D (fun d => rsum M (fun i => rsum kl (fun p =>
                  lv p i *! u d i *! rsum N (fun j => rsum kr (fun q => rv q j *! v d j *! F (li p i) (ri q j))))))).
  - transitivity (rsum D (fun d => rsum nb (fun r => WT nb M kl li lv (u d) r *!
                    rsum mb (fun s => WT mb N kr ri rv (v d) s *! F r s)))).
    + transitivity (rsum nb (fun r => rsum D (fun d => WT nb M kl li lv (u d) r *!
                      rsum mb (fun s => WT mb N kr ri rv (v d) s *! F r s)))).
      * apply rsum_ext. intros r _.
        transitivity (rsum mb (fun s => rsum D (fun d =>
                        WT nb M kl li lv (u d) r *! (WT mb N kr ri rv (v d) s *! F r s)))).
        -- apply rsum_ext. intros s _. rewrite <- rsum_mul_r. apply rsum_ext. intros d _. ring.
        -- rewrite rsum_swap. apply rsum_ext. intros d _. rewrite rsum_mul_l. reflexivity.
      * apply rsum_swap.
    + apply rsum_ext. intros d _.
      rewrite (WT_transport nb M kl li lv (u d)
                 (fun r => rsum mb (fun s => WT mb N kr ri rv (v d) s *! F r s)) Hl).
      apply rsum_ext. intros i _. apply rsum_ext. intros p _. f_equal.
      apply (WT_transport mb N kr ri rv (v d) (fun s => F (li p i) s) Hr).
  - (* right side to the same normal form *)
    symmetry.
    transitivity (rsum M (fun i => rsum N (fun j => rsum D (fun d =>
                    rsum kl (fun p => rsum kr (fun q => (lv p i *! u d i) *! (rv q j *! v d j *! F (li p i) (ri q j)))))))).
    + apply rsum_ext. intros i _. apply rsum_ext. intros j _. rewrite <- rsum_mul_r. apply rsum_ext. intros d _.
      rewrite <- rsum_mul_l. apply rsum_ext. intros p _. rewrite <- rsum_mul_l. apply rsum_ext. intros q _. ring.
    + transitivity (rsum M (fun i => rsum D (fun d => rsum N (fun j =>
                      rsum kl (fun p => rsum kr (fun q => (lv p i *! u d i) *! (rv q j *! v d j *! F (li p i) (ri q j)))))))).
      * apply rsum_ext. intros i _. apply rsum_swap.
      * rewrite rsum_swap. apply rsum_ext. intros d _. apply rsum_ext. intros i _.
        rewrite rsum_swap. apply rsum_ext. intros p _.
        rewrite <- rsum_mul_l. apply rsum_ext. intros j _. rewrite <- rsum_mul_l. reflexivity.
Qed.

(* the gradient of the interpolation values: for a fixed row i of the left interpolation matrix,
   sum_j (sum_d u_d v_{d,j}) sum_p sum_q dl_p Fp_p(ri q j) rv_{q,j} = sum_p (sum_d (sum_s Fp_p(s) (W_r^T v_d)_s) u_d) dl_p *)
Lemma WT_values mb N kl kr D ri rv (u : nat -> T) (v : nat -> nat -> T) (dl : nat -> T) (Fp : nat -> nat -> T) :
  (forall q j, q < kr -> j < N -> ri q j < mb) ->
  rsum N (fun j => rsum D (fun d => u d *! v d j) *!
                   rsum kl (fun p => rsum kr (fun q => dl p *! Fp p (ri q j) *! rv q j)))
  = rsum kl (fun p => rsum D (fun d => rsum mb (fun s => Fp p s *! WT mb N kr ri rv (v d) s) *! u d) *! dl p).
Proof.
  intros Hr.
  transitivity (rsum kl (fun p => rsum N (fun j => rsum D (fun d => u d *! v d j) *!
                                                   rsum kr (fun q => dl p *! Fp p (ri q j) *! rv q j)))).
  - rewrite rsum_swap. apply rsum_ext. intros j _. rewrite rsum_mul_l. reflexivity.
  - apply rsum_ext. intros p _.
    transitivity (rsum D (fun d => rsum N (fun j => rsum kr (fun q => rv q j *! v d j *! Fp p (ri q j))) *! u d) *! dl p).
    + rewrite <- rsum_mul_r.
      transitivity (rsum N (fun j => rsum D (fun d => rsum kr (fun q => rv q j *! v d j *! Fp p (ri q j)) *! u d *! dl p))).
      * apply rsum_ext. intros j _. rewrite <- rsum_mul_r. apply rsum_ext. intros d _.
        rewrite <- rsum_mul_l. rewrite <- !rsum_mul_r. apply rsum_ext. intros q _. ring.
      * rewrite rsum_swap. apply rsum_ext. intros d _. rewrite <- !rsum_mul_r. reflexivity.
    + f_equal. apply rsum_ext. intros d _. f_equal. symmetry.
      transitivity (rsum mb (fun s => WT mb N kr ri rv (v d) s *! Fp p s)); [apply rsum_ext; intros; ring|].
      apply (WT_transport mb N kr ri rv (v d) (fun s => Fp p s) Hr).
Qed.

End InterpAlg.
