(* C07 — the bilinear form  sum_b sum_d u_d^T A_b v_d  in "weight" form  sum_b <W_b, A_b>  with W_b = U_b V_b^T,
   and the generic sum manipulations every class lemma uses. *)
From Coq Require Import List Arith Bool Lia ZArith Ring.
Import ListNotations.
Require Import C07.Model C07.ProofsBase C07.ProofsRouting C07.ProofsSizes.

Section W.
Context {K : RingOps} {Kth : RingLaws K}.
Add Ring Kring : (@ring_laws K Kth).
Notation T := (car K).
Notation zero := (r0 K).
Notation one := (r1 K).
Infix "+!" := (radd K) (at level 50, left associativity).
Infix "*!" := (rmul K) (at level 40, left associativity).
Infix "-!" := (rsub K) (at level 50, left associativity).
Notation rsum := (rsum K).
Notation bsum := (bsum K).
Notation OpExpr := (OpExpr K).
Notation tensor := (tensor K).
Notation bget := (bget K).
Notation tat := (tat K).
Notation tshape := (tshape K).

(* W_b[i,j] = sum_d U[b,i,d] V[b,j,d] *)
Definition Wt (U V : tensor) (D : nat) (b : list nat) (i j : nat) : T :=
  rsum D (fun d => bget U (d :: i :: b) *! bget V (d :: j :: b)).
Definition bilW (B : list nat) (M N : nat) (W F : list nat -> nat -> nat -> T) : T :=
  bsum B (fun b => rsum M (fun i => rsum N (fun j => W b i j *! F b i j))).

Lemma bil_W e B D U V : bil K e B D U V = bilW B (nrows K e) (ncols K e) (Wt U V D) (den K e).
Proof.
  unfold bil, bilW, Wt. apply bsum_ext. intros b _.
  rewrite rsum_swap. apply rsum_ext. intros i _.
  rewrite rsum_swap. apply rsum_ext. intros j _.
  rewrite <- rsum_mul_r. apply rsum_ext. intros d _. ring.
Qed.

Lemma bilW_ext B M N W W' F F' :
  (forall b i j, valid b B -> i < M -> j < N -> W b i j = W' b i j) ->
  (forall b i j, valid b B -> i < M -> j < N -> F b i j = F' b i j) ->
  bilW B M N W F = bilW B M N W' F'.
Proof.
  intros HW HF. unfold bilW. apply bsum_ext. intros b Hb. apply rsum_ext. intros i Hi. apply rsum_ext. intros j Hj.
  rewrite HW, HF; auto.
Qed.

Lemma bilW_sub B M N W F G :
  bilW B M N W F -! bilW B M N W G = bilW B M N W (fun b i j => F b i j -! G b i j).
Proof.
  unfold bilW. rewrite <- bsum_sub. apply bsum_ext. intros b _.
  rewrite <- rsum_sub. apply rsum_ext. intros i _.
  rewrite <- rsum_sub. apply rsum_ext. intros j _. ring.
Qed.

Lemma bilW_zero B M N W F :
  (forall b i j, valid b B -> i < M -> j < N -> F b i j = zero) -> bilW B M N W F = zero.
Proof.
  intros H. unfold bilW. apply bsum_zero. intros b Hb. apply rsum_zero. intros i Hi. apply rsum_zero. intros j Hj.
  rewrite H; auto. ring.
Qed.

(* difference of the bilinear form under a perturbation that keeps the sizes *)
Lemma bil_diff e e' B D U V :
  nrows K e' = nrows K e -> ncols K e' = ncols K e ->
  bil K e' B D U V -! bil K e B D U V =
  bilW B (nrows K e) (ncols K e) (Wt U V D) (fun b i j => den K e' b i j -! den K e b i j).
Proof. intros Hr Hc. rewrite !bil_W, Hr, Hc. apply bilW_sub. Qed.

(* three-level exchange: sum_j sum_i sum_b  =  sum_b sum_i sum_j *)
Lemma sum3_swap n m B (f : nat -> nat -> list nat -> T) :
  rsum n (fun j => rsum m (fun i => bsum B (fun b => f j i b))) =
  bsum B (fun b => rsum m (fun i => rsum n (fun j => f j i b))).
Proof.
  rewrite rsum_swap.
  transitivity (rsum m (fun i => bsum B (fun b => rsum n (fun j => f j i b)))).
  - apply rsum_ext. intros i _. symmetry. apply bsum_rsum_swap.
  - symmetry. apply bsum_rsum_swap.
Qed.

Lemma sum2_swap m B (f : nat -> list nat -> T) :
  rsum m (fun i => bsum B (fun b => f i b)) = bsum B (fun b => rsum m (fun i => f i b)).
Proof. symmetry. apply bsum_rsum_swap. Qed.

(* reading a constructed tensor at a valid index *)
Lemma bget_mk sh f ix : valid ix sh -> bget (mkT K sh f) ix = f ix.
Proof. intros H. rewrite bget_valid by exact H. reflexivity. Qed.

Lemma valid3 d i b D M B : d < D -> i < M -> valid b B -> valid (d :: i :: b) (D :: M :: B).
Proof. simpl. auto. Qed.

End W.
