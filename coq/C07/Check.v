(* C07 — comparators used by the generated case shards: the model's `alg_bd` (the positional tuple that
   `op._bilinear_derivative(U, V)` returns) evaluated over Z against what the implementation returned on the same
   integer data.  Shapes are LAST DIMENSION FIRST, data is the row-major flattening (see Model.v).

   Result code of one case (0 = agreement):
     1 tuple length differs            2 None / tensor pattern differs (None and an all-zero tensor are the same gradient)
     3 shape of a slot differs         4 value of a slot differs
     5 raises / does not raise differs
   A case agrees when the observation equals the model under SOME setting of the three repair flags of Model.fixes
   (so that the check passes on the pinned tree and on a tree in which a listed defect has been repaired). *)
From Coq Require Import List Arith Bool ZArith.
Import ListNotations.
Require Import C07.Model C07.ProofsBase C07.ProofsRouting C07.ProofsSizes C07.ProofsW C07.ProofsLeaf C07.ProofsToeplitz
  C07.ProofsComposite C07.ProofsMain.

Definition TZ (sh : list nat) (data : list Z) : tensor ZK := of_flat ZK sh data.
Definition TI (sh : list nat) (data : list nat) : itensor := iof_flat sh data.

Definition obs_slot := option (list nat * list Z).

Fixpoint list_Z_eqb (a b : list Z) : bool :=
  match a, b with [], [] => true | x :: r, y :: s => Z.eqb x y && list_Z_eqb r s | _, _ => false end.
Definition all_zero (d : list Z) : bool := forallb (Z.eqb 0%Z) d.

(* mode 2: length, None pattern, shapes and values are compared.
   mode 1: the expression contains a node whose matrix is not affine in its leaves (Root, Chol, Mul): the unit-step
           coefficient of the model's default path is not the derivative there (it may vanish where the derivative does
           not and vice versa); tuple length and shapes only.
   mode 0: the expression contains a class that is modelled for routing only (Opaque: no sizes, so also the
           square / non-square branch of BatchRepeat is unknown): tuple length, and a None of the model must be a None *)
Definition cmp_slot (mode : nat) (m : option (tensor ZK)) (o : obs_slot) : nat :=
  match m, o with
  | None, None => 0
  | None, Some (_, d) => if all_zero d then 0 else 2
  | Some t, None => if mode <? 2 then 0 else if all_zero (to_flat ZK t) then 0 else 2
  | Some t, Some (sh, d) =>                      (* nested ifs: vm_compute must not evaluate the values in modes 0, 1 *)
      if mode =? 0 then 0
      else if negb (list_nat_eqb (tshape ZK t) sh) then 3
      else if mode =? 1 then 0
      else if list_Z_eqb (to_flat ZK t) d then 0 else 4
  end.

(* what the implementation returns for a tensor that does not require grad (or is not floating) is dropped by autograd:
   such slots only have to exist (alignment), their content is not compared *)
Definition wants_grad (v : leafval ZK) : bool := match v with LF _ _ true => true | _ => false end.

Fixpoint cmp_slots (full : nat) (rep : list (leafval ZK)) (ms : list (option (tensor ZK))) (os : list obs_slot) : nat :=
  match ms, os with
  | [], [] => 0
  | m :: ms', o :: os' =>
      let here := match rep with v :: _ => if wants_grad v then cmp_slot full m o else 0 | [] => cmp_slot full m o end in
      match here with 0 => cmp_slots full (tl rep) ms' os' | c => c end
  | _, _ => 1
  end.

Record case := mkCase {
  c_e : OpExpr ZK; c_U : tensor ZK; c_V : tensor ZK; c_full : nat;
  c_obs : option (list obs_slot) }.           (* None: the implementation raised *)

(* ir = true: the tree's InterpolatedLinearOperator no longer raises for a non-square base (repaired): compare values *)
Definition check_with (fx : fixes) (ir : bool) (c : case) : nat :=
  let raises := negb ir && negb (c_full c =? 0) && bd_raises ZK (c_e c) in      (* mode 0: opaque nodes have no sizes *)
  match c_obs c with
  | None => if c_full c =? 0 then 0 else if bd_raises ZK (c_e c) then 0 else 5
  | Some os => if raises then 5
               else cmp_slots (c_full c) (representation ZK (c_e c)) (alg_bd ZK fx (c_e c) (c_U c) (c_V c)) os
  end.

Definition all_fixes : list fixes :=
  [mkFx false false false; mkFx true false false; mkFx false true false; mkFx true true false;
   mkFx false false true; mkFx true false true; mkFx false true true; mkFx true true true].

Definition check_case (c : case) : nat :=
  let r0 := check_with pinned false c in
  if r0 =? 0 then 0
  else if existsb (fun fx => (check_with fx false c =? 0) || (check_with fx true c =? 0)) all_fixes then 0 else r0.

(* which cases need a repair flag to agree (reported as information: the tree has been repaired there) *)
Definition needs_fix (c : case) : bool := negb (check_with pinned false c =? 0) && (check_case c =? 0).

Fixpoint bad_cases (cs : list case) (i : nat) : list nat :=
  match cs with
  | [] => []
  | c :: r => match check_case c with 0 => bad_cases r (S i) | code => (i * 10 + code) :: bad_cases r (S i) end
  end.
Fixpoint fixed_cases (cs : list case) (i : nat) : list nat :=
  match cs with [] => [] | c :: r => if needs_fix c then i :: fixed_cases r (S i) else fixed_cases r (S i) end.

(* how many cases lie inside the fragment of the coefficient theorem (ProofsMain.lin) *)
Definition count_lin (cs : list case) : nat := length (filter (fun c => lin (c_e c)) cs).

(* short names for the literals written by harness/c07.py *)
Definition eDense := Dense ZK.
Definition eDiag := Diag ZK.
Definition eCDiag := ConstantDiag ZK.
Definition eId := Identity ZK.
Definition eToep := Toeplitz ZK.
Definition eTri := Triangular ZK.
Definition eSum := Sum ZK.
Definition eMatmul := Matmul ZK.
Definition eCMul := ConstantMul ZK.
Definition eInterp := Interpolated ZK.
Definition eMasked := Masked ZK.
Definition eBD := BlockDiag ZK.
Definition eBI := BlockInterleaved ZK.
Definition eSB := SumBatch ZK.
Definition eBR := BatchRepeat ZK.
Definition eMul := Mul ZK.
Definition eKron := Kron ZK.
Definition eRoot := Root ZK.
Definition eChol := Chol ZK.
Definition eOpaque := Opaque ZK.
Definition eLeaf := Leaf ZK.
Definition lF := LF ZK.
Definition lI := LI ZK.
Definition lB := LB ZK.

(* ------------------------------------------------------------------------------------------ *)
(* functions/_matmul.py, Matmul.backward: the right-hand-side gradient.  The observation is what torch.autograd.grad
   delivers for rhs (i.e. after autograd's own reduction of an expanded gradient to the shape of rhs), so the model's
   result is reduced with sum_to before the comparison (the identity when the shapes already agree). *)
Record bcase := mkBCase {
  b_e : OpExpr ZK; b_rhs : tensor ZK; b_G : tensor ZK; b_obs : list nat * list Z }.

Definition bcheck_with (fx : fixes) (c : bcase) : nat :=
  match fst (matmul_backward ZK fx (b_e c) (b_rhs c) (b_G c) false true) with
  | Some g =>
      let r := sum_to ZK g (tshape ZK (b_rhs c)) in
      if negb (list_nat_eqb (tshape ZK r) (fst (b_obs c))) then 3
      else if list_Z_eqb (to_flat ZK r) (snd (b_obs c)) then 0 else 4
  | None => 5
  end.

Definition bcheck_case (c : bcase) : nat :=
  let r0 := bcheck_with pinned c in
  if r0 =? 0 then 0 else if existsb (fun fx => bcheck_with fx c =? 0) all_fixes then 0 else r0.

Fixpoint bad_bcases (cs : list bcase) (i : nat) : list nat :=
  match cs with
  | [] => []
  | c :: r => match bcheck_case c with 0 => bad_bcases r (S i) | code => (i * 10 + code) :: bad_bcases r (S i) end
  end.
