(* C07 — basic facts: finite sums over a commutative ring, multi-index sums, broadcasting. *)
From Coq Require Import List Arith Bool Lia ZArith Ring.
Import ListNotations.
Require Import C07.Model.

Class RingLaws (K : RingOps) :=
  ring_laws : ring_theory (r0 K) (r1 K) (radd K) (rmul K) (rsub K) (ropp K) (@eq (car K)).

Lemma ZK_laws : RingLaws ZK.
Proof. exact InitialRing.Zth. Qed.
#[export] Existing Instance ZK_laws.

(* ------------------------------------------------------------------------------------------ *)
(* shapes, indices *)

Lemma list_nat_eqb_eq a b : list_nat_eqb a b = true <-> a = b.
Proof.
  revert b; induction a as [|x a IH]; intros [|y b]; simpl; split; try discriminate; try reflexivity.
  - rewrite andb_true_iff, Nat.eqb_eq, IH. intros [-> ->]; reflexivity.
  - intros E; inversion E; subst. rewrite Nat.eqb_refl. simpl. apply IH. reflexivity.
Qed.
Lemma list_nat_eqb_refl a : list_nat_eqb a a = true.
Proof. apply list_nat_eqb_eq; reflexivity. Qed.
Lemma list_nat_eqb_neq a b : a <> b -> list_nat_eqb a b = false.
Proof. intros H. destruct (list_nat_eqb a b) eqn:E; auto. apply list_nat_eqb_eq in E. contradiction. Qed.

Lemma valid_length ix s : valid ix s -> length ix = length s.
Proof. revert s; induction ix; intros [|d s]; simpl; try tauto. intros [_ H]. f_equal; auto. Qed.

Lemma valid_app a sa b sb : valid a sa -> valid b sb -> valid (a ++ b) (sa ++ sb).
Proof.
  revert sa; induction a as [|x a IH]; intros [|d sa]; simpl; try tauto.
  intros [Hx Ha] Hb. split; auto.
Qed.

Lemma bcast_ix_same s ix : valid ix s -> bcast_ix s ix = ix.
Proof.
  revert ix; induction s as [|d s IH]; intros [|i ix]; simpl; try tauto.
  intros [Hi H]. rewrite IH by auto. destruct (Nat.eqb_spec d 1); [f_equal; lia|reflexivity].
Qed.

Lemma bcast_ix_valid from to ix :
  expandable from to = true -> valid ix to -> valid (bcast_ix from ix) from.
Proof.
  revert to ix; induction from as [|x f IH]; intros [|y t] [|i ix]; simpl; try tauto; try discriminate.
  rewrite andb_true_iff, orb_true_iff, !Nat.eqb_eq. intros [Hx He] [Hi Hv].
  split.
  - destruct (Nat.eqb_spec x 1); lia.
  - apply (IH t); auto.
Qed.

Lemma expandable_refl a : expandable a a = true.
Proof. induction a; simpl; auto. rewrite Nat.eqb_refl. simpl. auto. Qed.

Lemma expandable_length a b : expandable a b = true -> length a <= length b.
Proof.
  revert b; induction a as [|x a IH]; intros [|y b]; simpl; try lia; try discriminate.
  rewrite andb_true_iff. intros [_ H]. apply IH in H. lia.
Qed.

Lemma broadcast_shapes_expandable_l a B : expandable a B = true -> broadcast_shapes a B = Some B.
Proof.
  revert B; induction a as [|x a IH]; intros B; [reflexivity|].
  destruct B as [|y B]; simpl; [discriminate|].
  rewrite andb_true_iff, orb_true_iff, !Nat.eqb_eq. intros [Hx He]. rewrite (IH _ He).
  destruct (Nat.eqb_spec x y) as [->|Hxy]; [reflexivity|].
  destruct Hx as [->| ->]; [congruence|]. simpl. reflexivity.
Qed.

Lemma broadcast_shapes_expandable_r a B : expandable a B = true -> broadcast_shapes B a = Some B.
Proof.
  revert B; induction a as [|x a IH]; intros B.
  - intros _. destruct B; reflexivity.
  - destruct B as [|y B]; simpl; [discriminate|].
    rewrite andb_true_iff, orb_true_iff, !Nat.eqb_eq. intros [Hx He]. rewrite (IH _ He).
    destruct (Nat.eqb_spec y x) as [->|Hxy]; [reflexivity|].
    destruct Hx as [->| ->]; [congruence|].
    destruct (Nat.eqb_spec y 1) as [->|Hy]; [congruence|]. reflexivity.
Qed.

Lemma bcs_expandable_l a B : expandable a B = true -> bcs a B = B.
Proof. intros H. unfold bcs. rewrite broadcast_shapes_expandable_l; auto. Qed.
Lemma bcs_expandable_r a B : expandable a B = true -> bcs B a = B.
Proof. intros H. unfold bcs. rewrite broadcast_shapes_expandable_r; auto. Qed.
Lemma bcs_refl B : bcs B B = B.
Proof. apply bcs_expandable_l, expandable_refl. Qed.

Lemma expandable_cons_tail x a y b : expandable (x :: a) (y :: b) = true -> expandable a b = true.
Proof. simpl. rewrite andb_true_iff. tauto. Qed.

Lemma expandable_skipn n a b : expandable a b = true -> expandable (skipn n a) (skipn n b) = true.
Proof.
  revert a b; induction n; intros a b H; [exact H|].
  destruct a as [|x a]; [reflexivity|]. destruct b as [|y b]; [discriminate|].
  simpl. apply IHn. eapply expandable_cons_tail; eauto.
Qed.

(* ------------------------------------------------------------------------------------------ *)
Section Sums.
Context {K : RingOps} {Kth : RingLaws K}.
Add Ring Kring : (@ring_laws K Kth).
Notation T := (car K).
Notation zero := (r0 K).
Notation one := (r1 K).
Infix "+!" := (radd K) (at level 50, left associativity).
Infix "*!" := (rmul K) (at level 40, left associativity).
Infix "-!" := (rsub K) (at level 50, left associativity).
Notation rsum := (rsum K).
Notation bsum := (bsum K).

Lemma rsum_ext n f g : (forall k, k < n -> f k = g k) -> rsum n f = rsum n g.
Proof. induction n; simpl; intros H; [reflexivity|]. rewrite IHn, H; auto. Qed.

Lemma rsum_zero n f : (forall k, k < n -> f k = zero) -> rsum n f = zero.
Proof. induction n; simpl; intros H; [reflexivity|]. rewrite IHn, H; auto. ring. Qed.

Lemma rsum_0 n : rsum n (fun _ => zero) = zero.
Proof. apply rsum_zero; auto. Qed.

Lemma rsum_add n f g : rsum n (fun k => f k +! g k) = rsum n f +! rsum n g.
Proof. induction n; simpl; [ring|]. rewrite IHn. ring. Qed.

Lemma rsum_sub n f g : rsum n (fun k => f k -! g k) = rsum n f -! rsum n g.
Proof. induction n; simpl; [ring|]. rewrite IHn. ring. Qed.

Lemma rsum_mul_l n c f : rsum n (fun k => c *! f k) = c *! rsum n f.
Proof. induction n; simpl; [ring|]. rewrite IHn. ring. Qed.

Lemma rsum_mul_r n c f : rsum n (fun k => f k *! c) = rsum n f *! c.
Proof. induction n; simpl; [ring|]. rewrite IHn. ring. Qed.

Lemma rsum_app n m f : rsum (n + m) f = rsum n f +! rsum m (fun k => f (n + k)).
Proof.
  induction m; simpl.
  - rewrite Nat.add_0_r. ring.
  - rewrite Nat.add_succ_r. simpl. rewrite IHm. ring.
Qed.

Lemma rsum_single n f a : a < n -> (forall k, k < n -> k <> a -> f k = zero) -> rsum n f = f a.
Proof.
  induction n; intros Ha H; [lia|]. simpl.
  destruct (Nat.eq_dec a n) as [->|Hne].
  - rewrite rsum_zero; [ring|]. intros k Hk. apply H; lia.
  - rewrite IHn; [|lia|intros; apply H; lia]. rewrite (H n); [ring|lia|lia].
Qed.

Lemma rsum_swap n m (f : nat -> nat -> T) :
  rsum n (fun i => rsum m (fun j => f i j)) = rsum m (fun j => rsum n (fun i => f i j)).
Proof.
  induction n; simpl.
  - symmetry. apply rsum_zero. reflexivity.
  - rewrite IHn. rewrite <- rsum_add. reflexivity.
Qed.

(* sum over k < a * b, split as k = q * b + r *)
Lemma rsum_prod a b f : rsum (a * b) f = rsum a (fun q => rsum b (fun r => f (q * b + r))).
Proof.
  induction a; simpl; [reflexivity|].
  rewrite <- IHa. rewrite Nat.add_comm. rewrite rsum_app. reflexivity.
Qed.

(* k = r + b * q *)
Lemma rsum_prod' a b f : rsum (b * a) f = rsum a (fun q => rsum b (fun r => f (r + b * q))).
Proof.
  rewrite Nat.mul_comm, rsum_prod. apply rsum_ext; intros q _. apply rsum_ext; intros r _. f_equal; lia.
Qed.

Lemma rsum_if_eq n a (v : T) : a < n -> rsum n (fun k => if k =? a then v else zero) = v.
Proof.
  intros Ha. rewrite (rsum_single n _ a Ha).
  - rewrite Nat.eqb_refl. reflexivity.
  - intros k _ Hk. destruct (Nat.eqb_spec k a); [contradiction|reflexivity].
Qed.

Lemma rsum_onehot n a (x : nat -> T) : a < n -> rsum n (fun k => if a =? k then x k else zero) = x a.
Proof.
  intros Ha. rewrite (rsum_single n _ a Ha).
  - rewrite Nat.eqb_refl. reflexivity.
  - intros k _ Hk. destruct (Nat.eqb_spec a k); [congruence|reflexivity].
Qed.

(* ---- sums over multi-indices *)
Lemma bsum_ext sh f g : (forall ix, valid ix sh -> f ix = g ix) -> bsum sh f = bsum sh g.
Proof.
  revert f g; induction sh as [|d sh IH]; intros f g H; simpl.
  - apply H. exact I.
  - apply rsum_ext. intros i Hi. apply IH. intros ix Hv. apply H. split; auto.
Qed.

Lemma bsum_zero sh f : (forall ix, valid ix sh -> f ix = zero) -> bsum sh f = zero.
Proof.
  revert f; induction sh as [|d sh IH]; intros f H; simpl.
  - apply H. exact I.
  - apply rsum_zero. intros i Hi. apply IH. intros ix Hv. apply H. split; auto.
Qed.

Lemma bsum_add sh f g : bsum sh (fun ix => f ix +! g ix) = bsum sh f +! bsum sh g.
Proof.
  revert f g; induction sh as [|d sh IH]; intros f g; simpl; [reflexivity|].
  rewrite <- rsum_add. apply rsum_ext. intros i _. apply IH.
Qed.

Lemma bsum_sub sh f g : bsum sh (fun ix => f ix -! g ix) = bsum sh f -! bsum sh g.
Proof.
  revert f g; induction sh as [|d sh IH]; intros f g; simpl; [reflexivity|].
  rewrite <- rsum_sub. apply rsum_ext. intros i _. apply IH.
Qed.

Lemma bsum_mul_l sh c f : bsum sh (fun ix => c *! f ix) = c *! bsum sh f.
Proof.
  revert f; induction sh as [|d sh IH]; intros f; simpl; [reflexivity|].
  rewrite <- rsum_mul_l. apply rsum_ext. intros i _. apply IH.
Qed.

Lemma bsum_mul_r sh c f : bsum sh (fun ix => f ix *! c) = bsum sh f *! c.
Proof.
  revert f; induction sh as [|d sh IH]; intros f; simpl; [reflexivity|].
  rewrite <- rsum_mul_r. apply rsum_ext. intros i _. apply IH.
Qed.

Lemma bsum_rsum_swap sh n (f : list nat -> nat -> T) :
  bsum sh (fun ix => rsum n (fun k => f ix k)) = rsum n (fun k => bsum sh (fun ix => f ix k)).
Proof.
  revert f; induction sh as [|d sh IH]; intros f; simpl; [reflexivity|].
  transitivity (rsum d (fun i => rsum n (fun k => bsum sh (fun ix => f (i :: ix) k)))).
  - apply rsum_ext. intros i _. apply IH.
  - apply rsum_swap.
Qed.

Lemma bsum_bsum_swap sa sb (f : list nat -> list nat -> T) :
  bsum sa (fun a => bsum sb (fun b => f a b)) = bsum sb (fun b => bsum sa (fun a => f a b)).
Proof.
  revert f; induction sa as [|d sa IH]; intros f; simpl; [reflexivity|].
  rewrite (bsum_rsum_swap sb d (fun b i => bsum sa (fun ix => f (i :: ix) b))).
  apply rsum_ext. intros i _. apply IH.
Qed.

Lemma bsum_app sa sb f : bsum (sa ++ sb) f = bsum sa (fun a => bsum sb (fun b => f (a ++ b))).
Proof.
  revert f; induction sa as [|d sa IH]; intros f; simpl; [reflexivity|].
  apply rsum_ext. intros i _. rewrite IH. reflexivity.
Qed.

Lemma bsum_cons d sh f : bsum (d :: sh) f = rsum d (fun i => bsum sh (fun ix => f (i :: ix))).
Proof. reflexivity. Qed.

(* only the term at ix0 contributes *)
Lemma bsum_single sh f ix0 : valid ix0 sh -> (forall ix, valid ix sh -> ix <> ix0 -> f ix = zero) -> bsum sh f = f ix0.
Proof.
  revert f ix0; induction sh as [|d sh IH]; intros f ix0 Hv H.
  - destruct ix0; [reflexivity|destruct Hv].
  - destruct ix0 as [|i0 ix0]; [destruct Hv|]. destruct Hv as [Hi Hv]. simpl.
    rewrite (rsum_single d _ i0 Hi).
    + apply (IH (fun ix => f (i0 :: ix)) ix0 Hv). intros ix Hx Hne. apply H; [split; auto|congruence].
    + intros k Hk Hne. apply bsum_zero. intros ix Hx. apply H; [split; auto|congruence].
Qed.

Lemma bsum_onehot sh (x : list nat -> T) ix0 : valid ix0 sh ->
  bsum sh (fun ix => if list_nat_eqb ix0 ix then x ix else zero) = x ix0.
Proof.
  intros Hv. rewrite (bsum_single sh _ ix0 Hv).
  - rewrite list_nat_eqb_refl. reflexivity.
  - intros ix _ Hne. rewrite list_nat_eqb_neq; auto.
Qed.

(* ---- tensors *)
Lemma bget_valid (t : tensor K) ix : valid ix (tshape K t) -> bget K t ix = tat K t ix.
Proof. intros H. unfold bget. rewrite bcast_ix_same; auto. Qed.

Lemma bget_tadd (a b : tensor K) ix : tshape K b = tshape K a -> bget K (tadd K a b) ix = bget K a ix +! bget K b ix.
Proof. intros H. unfold bget, tadd. simpl. rewrite H. reflexivity. Qed.

(* the adjoint of broadcasting: pairing the reduced tensor with delta = pairing the tensor with delta broadcast *)
Lemma pair_sum_to (t delta : tensor K) s :
  expandable s (tshape K t) = true -> tshape K delta = s ->
  pair K (sum_to K t s) delta = bsum (tshape K t) (fun ix => tat K t ix *! bget K delta ix).
Proof.
  intros He Hs. unfold pair, sum_to. simpl.
  transitivity (bsum s (fun ix => bsum (tshape K t) (fun ix' =>
     if list_nat_eqb (bcast_ix s ix') ix then tat K t ix' *! tat K delta ix else zero))).
  - apply bsum_ext. intros ix Hv. rewrite bget_valid by (rewrite Hs; auto).
    rewrite <- bsum_mul_r. apply bsum_ext. intros ix' _.
    destruct (list_nat_eqb (bcast_ix s ix') ix); ring.
  - rewrite bsum_bsum_swap. apply bsum_ext. intros ix' Hv'.
    rewrite (bsum_single s _ (bcast_ix s ix')).
    + rewrite list_nat_eqb_refl. unfold bget. rewrite Hs. reflexivity.
    + eapply bcast_ix_valid; eauto.
    + intros ix _ Hne. rewrite list_nat_eqb_neq; auto.
Qed.

End Sums.
