(* C07 — perturbing a leaf changes no size; well-formedness; the (multi)linear fragment. *)
From Coq Require Import List Arith Bool Lia ZArith.
Import ListNotations.
Require Import C07.Model C07.ProofsBase C07.ProofsRouting.

Section Sizes.
Context {K : RingOps}.
Notation OpExpr := (OpExpr K).
Notation tensor := (tensor K).

(* the list walker of `perturb` *)
Definition perturb_list (delta : tensor) :=
  fix go (l : list OpExpr) (k : nat) : list OpExpr :=
    match l with
    | [] => []
    | x :: r => if k <? nleaves K x then perturb K x k delta :: r else x :: go r (k - nleaves K x)
    end.

Lemma perturb_Sum ops k d : perturb K (Sum K ops) k d = Sum K (perturb_list d ops k).
Proof. reflexivity. Qed.
Lemma perturb_Kron ops k d : perturb K (Kron K ops) k d = Kron K (perturb_list d ops k).
Proof. reflexivity. Qed.
Lemma perturb_Opaque c ops k d : perturb K (Opaque K c ops) k d = Opaque K c (perturb_list d ops k).
Proof. reflexivity. Qed.

Lemma perturb_list_map {A} (f : OpExpr -> A) d ops :
  Forall (fun x => forall k, f (perturb K x k d) = f x) ops ->
  forall k, map f (perturb_list d ops k) = map f ops.
Proof.
  induction 1 as [|x r Hx Hr IH]; intros k; simpl; [reflexivity|].
  destruct (k <? nleaves K x); simpl; [rewrite Hx; reflexivity|rewrite IH; reflexivity].
Qed.

Lemma perturb_list_hd {A} (f : OpExpr -> A) (dflt : A) d ops :
  Forall (fun x => forall k, f (perturb K x k d) = f x) ops ->
  forall k, match perturb_list d ops k with [] => dflt | x :: _ => f x end = match ops with [] => dflt | x :: _ => f x end.
Proof.
  intros H k. destruct H as [|x r Hx Hr]; simpl; [reflexivity|].
  destruct (k <? nleaves K x); simpl; auto.
Qed.

Lemma bshape_perturb e d : forall k, bshape K (perturb K e k d) = bshape K e.
Proof.
  induction e using OpExpr_ind'; intros k; cbn [perturb]; fold (perturb_list d);
    try reflexivity;
    try (destruct (k =? 0); reflexivity);
    try (cbn [bshape]; rewrite ?IHe; reflexivity).
  - (* Sum *) cbn [bshape]. apply (perturb_list_hd (bshape K) [] d ops H k).
  - (* Matmul *) destruct (k <? _); cbn [bshape]; rewrite ?IHe1; reflexivity.
  - (* ConstantMul *) destruct (k <? _); [cbn [bshape]; apply IHe|]. destruct (k =? _); reflexivity.
  - (* Interpolated *) cbv zeta. destruct (k <? _); [cbn [bshape]; apply IHe|].
    destruct (k =? _); [reflexivity|]. destruct (k =? _); reflexivity.
  - (* Masked *) destruct (k <? _); [cbn [bshape]; apply IHe|reflexivity].
  - (* Mul *) destruct (k <? _); cbn [bshape]; rewrite ?IHe1; reflexivity.
  - (* Kron *) cbn [bshape]. apply (perturb_list_hd (bshape K) [] d ops H k).
Qed.

Lemma nblocks_perturb e d k : nblocks K (perturb K e k d) = nblocks K e.
Proof. unfold nblocks. rewrite bshape_perturb. reflexivity. Qed.

Lemma nrows_perturb e d : forall k, nrows K (perturb K e k d) = nrows K e.
Proof.
  induction e using OpExpr_ind'; intros k; cbn [perturb]; fold (perturb_list d);
    try reflexivity;
    try (destruct (k =? 0); reflexivity);
    try (cbn [nrows]; rewrite ?IHe, ?nblocks_perturb; reflexivity).
  - cbn [nrows]. apply (perturb_list_hd (nrows K) 0 d ops H k).
  - destruct (k <? _); cbn [nrows]; rewrite ?IHe1; reflexivity.
  - destruct (k <? _); [cbn [nrows]; apply IHe|]. destruct (k =? _); reflexivity.
  - cbv zeta. destruct (k <? _); [reflexivity|].
    destruct (k =? _); [reflexivity|]. destruct (k =? _); reflexivity.
  - destruct (k <? _); reflexivity.
  - destruct (k <? _); cbn [nrows]; rewrite ?IHe1; reflexivity.
  - cbn [nrows]. f_equal. apply perturb_list_map. exact H.
Qed.

Lemma ncols_perturb e d : forall k, ncols K (perturb K e k d) = ncols K e.
Proof.
  induction e using OpExpr_ind'; intros k; cbn [perturb]; fold (perturb_list d);
    try reflexivity;
    try (destruct (k =? 0); reflexivity);
    try (cbn [ncols]; rewrite ?IHe, ?nblocks_perturb, ?nrows_perturb; reflexivity).
  - cbn [ncols]. apply (perturb_list_hd (ncols K) 0 d ops H k).
  - destruct (k <? _); cbn [ncols]; rewrite ?IHe2; reflexivity.
  - destruct (k <? _); [cbn [ncols]; apply IHe|]. destruct (k =? _); reflexivity.
  - cbv zeta. destruct (k <? _); [reflexivity|].
    destruct (k =? _); [reflexivity|]. destruct (k =? _); reflexivity.
  - destruct (k <? _); reflexivity.
  - destruct (k <? _); cbn [ncols]; rewrite ?IHe1; reflexivity.
  - cbn [ncols]. f_equal. apply perturb_list_map. exact H.
Qed.

End Sizes.
