(* C07 — routing: the positional tuple of `_bilinear_derivative` is aligned with representation() for any nesting;
   the representation tree round trip; perturbing leaf k of the flat tuple = the structural `perturb`. *)
From Coq Require Import List Arith Bool Lia ZArith.
Import ListNotations.
Require Import C07.Model C07.ProofsBase.

Section Routing.
Context {K : RingOps}.
Notation OpExpr := (OpExpr K).
Notation tensor := (tensor K).
Notation leafval := (leafval K).

(* nested induction principle (Sum / Kron / Opaque carry lists of sub-expressions) *)
Section Ind.
Variable P : OpExpr -> Prop.
Hypothesis HDense : forall t rg, P (Dense K t rg).
Hypothesis HDiag : forall t rg, P (Diag K t rg).
Hypothesis HCDiag : forall t rg n, P (ConstantDiag K t rg n).
Hypothesis HId : forall n b, P (Identity K n b).
Hypothesis HToep : forall t rg, P (Toeplitz K t rg).
Hypothesis HTri : forall x u, P x -> P (Triangular K x u).
Hypothesis HSum : forall ops, Forall P ops -> P (Sum K ops).
Hypothesis HMatmul : forall l r, P l -> P r -> P (Matmul K l r).
Hypothesis HCMul : forall b c rg, P b -> P (ConstantMul K b c rg).
Hypothesis HInterp : forall b li lv lrg ri rv rrg, P b -> P (Interpolated K b li lv lrg ri rv rrg).
Hypothesis HMasked : forall b rm cm, P b -> P (Masked K b rm cm).
Hypothesis HBD : forall b, P b -> P (BlockDiag K b).
Hypothesis HBI : forall b, P b -> P (BlockInterleaved K b).
Hypothesis HSB : forall b, P b -> P (SumBatch K b).
Hypothesis HBR : forall b rep, P b -> P (BatchRepeat K b rep).
Hypothesis HMul : forall l r, P l -> P r -> P (Mul K l r).
Hypothesis HKron : forall ops, Forall P ops -> P (Kron K ops).
Hypothesis HRoot : forall x, P x -> P (Root K x).
Hypothesis HChol : forall x u, P x -> P (Chol K x u).
Hypothesis HOpaque : forall cls args, Forall P args -> P (Opaque K cls args).
Hypothesis HLeaf : forall v, P (Leaf K v).

Fixpoint OpExpr_ind' (e : OpExpr) : P e :=
  let go := (fix go (l : list OpExpr) : Forall P l :=
               match l with [] => Forall_nil _ | x :: r => Forall_cons _ (OpExpr_ind' x) (go r) end) in
  match e with
  | Dense _ t rg => HDense t rg
  | Diag _ t rg => HDiag t rg
  | ConstantDiag _ t rg n => HCDiag t rg n
  | Identity _ n b => HId n b
  | Toeplitz _ t rg => HToep t rg
  | Triangular _ x u => HTri x u (OpExpr_ind' x)
  | Sum _ ops => HSum ops (go ops)
  | Matmul _ l r => HMatmul l r (OpExpr_ind' l) (OpExpr_ind' r)
  | ConstantMul _ b c rg => HCMul b c rg (OpExpr_ind' b)
  | Interpolated _ b li lv lrg ri rv rrg => HInterp b li lv lrg ri rv rrg (OpExpr_ind' b)
  | Masked _ b rm cm => HMasked b rm cm (OpExpr_ind' b)
  | BlockDiag _ b => HBD b (OpExpr_ind' b)
  | BlockInterleaved _ b => HBI b (OpExpr_ind' b)
  | SumBatch _ b => HSB b (OpExpr_ind' b)
  | BatchRepeat _ b rep => HBR b rep (OpExpr_ind' b)
  | Mul _ l r => HMul l r (OpExpr_ind' l) (OpExpr_ind' r)
  | Kron _ ops => HKron ops (go ops)
  | Root _ x => HRoot x (OpExpr_ind' x)
  | Chol _ x u => HChol x u (OpExpr_ind' x)
  | Opaque _ cls args => HOpaque cls args (go args)
  | Leaf _ v => HLeaf v
  end.
End Ind.

(* ---- no IdentityLinearOperator anywhere in the tree / no CholLinearOperator(upper=True) *)
Fixpoint no_identity (e : OpExpr) : bool :=
  match e with
  | Identity _ _ _ => false
  | Triangular _ x _ | Root _ x | Chol _ x _ => no_identity x
  | Sum _ ops | Kron _ ops | Opaque _ _ ops => forallb no_identity ops
  | Matmul _ l r | Mul _ l r => no_identity l && no_identity r
  | ConstantMul _ b _ _ | Interpolated _ b _ _ _ _ _ _ | Masked _ b _ _
  | BlockDiag _ b | BlockInterleaved _ b | SumBatch _ b | BatchRepeat _ b _ => no_identity b
  | _ => true
  end.
Fixpoint no_chol_upper (e : OpExpr) : bool :=
  match e with
  | Chol _ x u => negb u && no_chol_upper x
  | Triangular _ x _ | Root _ x => no_chol_upper x
  | Sum _ ops | Kron _ ops | Opaque _ _ ops => forallb no_chol_upper ops
  | Matmul _ l r | Mul _ l r => no_chol_upper l && no_chol_upper r
  | ConstantMul _ b _ _ | Interpolated _ b _ _ _ _ _ _ | Masked _ b _ _
  | BlockDiag _ b | BlockInterleaved _ b | SumBatch _ b | BatchRepeat _ b _ => no_chol_upper b
  | _ => true
  end.

(* ------------------------------------------------------------------------------------------ *)
(* alignment: one slot per leaf *)

Lemma mapi_from_length {A B} (f : nat -> A -> B) k l : length (mapi_from f k l) = length l.
Proof. revert k; induction l; simpl; intros; auto. Qed.

Lemma default_bd_length fx e U V : length (default_bd K fx e U V) = nleaves K e.
Proof.
  unfold default_bd, nleaves. destruct (negb _).
  - apply map_length.
  - apply mapi_from_length.
Qed.

Lemma flat_map_length_eq {A B C} (f : A -> list B) (g : A -> list C) l :
  Forall (fun x => length (f x) = length (g x)) l -> length (flat_map f l) = length (flat_map g l).
Proof. induction 1; simpl; auto. rewrite !app_length. congruence. Qed.

Lemma alg_bd_length fx e : (fx_identity fx = true \/ no_identity e = true) ->
  forall U V, length (alg_bd K fx e U V) = nleaves K e.
Proof.
  induction e using OpExpr_ind'; intros Hid U V; try (apply default_bd_length); try reflexivity.
  - simpl. destruct rg; reflexivity.
  - simpl. destruct rg; reflexivity.
  - simpl. destruct Hid as [-> | Hf]; [reflexivity|discriminate].
  - (* Sum *) simpl. unfold nleaves. simpl. apply flat_map_length_eq.
    rewrite Forall_forall in *. intros x Hx. apply H; auto.
    destruct Hid as [Hid|Hid]; [auto|right]. simpl in Hid. rewrite forallb_forall in Hid. auto.
  - (* Matmul *) simpl. unfold nleaves. simpl. rewrite !app_length.
    assert (H1 : fx_identity fx = true \/ no_identity e1 = true)
      by (destruct Hid as [?|Hid]; [auto|right; simpl in Hid; apply andb_true_iff in Hid; tauto]).
    assert (H2 : fx_identity fx = true \/ no_identity e2 = true)
      by (destruct Hid as [?|Hid]; [auto|right; simpl in Hid; apply andb_true_iff in Hid; tauto]).
    rewrite IHe1, IHe2 by auto. reflexivity.
  - (* ConstantMul *) simpl. unfold nleaves. simpl. rewrite !app_length. rewrite IHe by auto. reflexivity.
  - (* Interpolated *) simpl. unfold nleaves. simpl. rewrite !app_length. rewrite IHe by auto. reflexivity.
  - (* Masked *) simpl. unfold nleaves. simpl. rewrite !app_length. rewrite IHe by auto. reflexivity.
  - simpl. rewrite IHe by auto. reflexivity.
  - simpl. rewrite IHe by auto. reflexivity.
  - simpl. rewrite IHe by auto. reflexivity.
  - (* BatchRepeat *) simpl alg_bd. destruct (_ =? _).
    + rewrite IHe by auto. reflexivity.
    + apply default_bd_length.
  - (* Mul *) simpl. destruct (mul_factors K e2 U V) as [lf rf]. destruct (mul_factors K e1 U V) as [lf2 rf2].
    unfold nleaves. simpl. rewrite !app_length.
    assert (H1 : fx_identity fx = true \/ no_identity e1 = true)
      by (destruct Hid as [?|Hid]; [auto|right; simpl in Hid; apply andb_true_iff in Hid; tauto]).
    assert (H2 : fx_identity fx = true \/ no_identity e2 = true)
      by (destruct Hid as [?|Hid]; [auto|right; simpl in Hid; apply andb_true_iff in Hid; tauto]).
    rewrite IHe1, IHe2 by auto. reflexivity.
Qed.

(* the pinned Identity breaks the alignment: its tuple has a slot although representation() is empty *)
Lemma alignment_identity_refuted U V :
  exists e, length (alg_bd K pinned e U V) <> nleaves K e.
Proof. exists (Identity K 2 []). simpl. discriminate. Qed.

(* ---- slot k belongs to leaf k: kinds.  A non-floating leaf (indices, masks) never receives a gradient: its slot is None
   or a zero tensor; in the default path a floating leaf that does not require grad gets None. *)
Definition slot_kind_ok (v : leafval) (s : option tensor) : Prop :=
  match v with
  | LF _ _ _ => True
  | LI _ t => s = None \/ s = Some (izeros K t)
  | LB _ _ => s = None
  end.

Lemma Forall2_app_inv {A B} (R : A -> B -> Prop) l1 l2 l1' l2' :
  Forall2 R l1 l1' -> Forall2 R l2 l2' -> Forall2 R (l1 ++ l2) (l1' ++ l2').
Proof. intros. apply Forall2_app; auto. Qed.

Lemma Forall2_flat_map {A B C} (R : B -> C -> Prop) (f : A -> list B) (g : A -> list C) l :
  Forall (fun x => Forall2 R (f x) (g x)) l -> Forall2 R (flat_map f l) (flat_map g l).
Proof. induction 1; simpl; [constructor|]. apply Forall2_app; auto. Qed.

Lemma mapi_from_Forall2 {A B} (R : A -> B -> Prop) (f : nat -> A -> B) k l :
  (forall k x, R x (f k x)) -> Forall2 R l (mapi_from f k l).
Proof. intros H. revert k; induction l; simpl; intros; constructor; auto. Qed.

Lemma default_bd_kinds fx e U V : Forall2 slot_kind_ok (representation K e) (default_bd K fx e U V).
Proof.
  unfold default_bd. destruct (negb _).
  - induction (representation K e) as [|v r IH]; simpl; constructor; auto.
    destruct v; simpl; auto.
  - apply mapi_from_Forall2. intros k [t [|]|t|m]; simpl; auto.
Qed.

Lemma alg_bd_kinds fx e : (fx_identity fx = true \/ no_identity e = true) ->
  forall U V, Forall2 slot_kind_ok (representation K e) (alg_bd K fx e U V).
Proof.
  induction e using OpExpr_ind'; intros Hid U V; try (apply default_bd_kinds).
  - simpl. repeat (constructor; simpl; auto).
  - simpl. destruct rg; repeat (constructor; simpl; auto).
  - simpl. destruct rg; repeat (constructor; simpl; auto).
  - simpl. destruct Hid as [-> | Hf]; [constructor|discriminate].
  - simpl. repeat (constructor; simpl; auto).
  - simpl. apply Forall2_flat_map. rewrite Forall_forall in *. intros x Hx. apply H; auto.
    destruct Hid as [Hid|Hid]; [auto|right]. simpl in Hid. rewrite forallb_forall in Hid. auto.
  - simpl.
    assert (H1 : fx_identity fx = true \/ no_identity e1 = true)
      by (destruct Hid as [?|Hid]; [auto|right; simpl in Hid; apply andb_true_iff in Hid; tauto]).
    assert (H2 : fx_identity fx = true \/ no_identity e2 = true)
      by (destruct Hid as [?|Hid]; [auto|right; simpl in Hid; apply andb_true_iff in Hid; tauto]).
    apply Forall2_app; auto.
  - simpl. apply Forall2_app; auto. repeat (constructor; simpl; auto).
  - simpl. apply Forall2_app; auto. repeat (constructor; simpl; auto).
  - simpl. apply Forall2_app; auto. repeat (constructor; simpl; auto).
  - simpl. auto.
  - simpl. auto.
  - simpl. auto.
  - simpl alg_bd. destruct (_ =? _); [simpl; auto|apply default_bd_kinds].
  - simpl. destruct (mul_factors K e2 U V) as [lf rf]. destruct (mul_factors K e1 U V) as [lf2 rf2].
    assert (H1 : fx_identity fx = true \/ no_identity e1 = true)
      by (destruct Hid as [?|Hid]; [auto|right; simpl in Hid; apply andb_true_iff in Hid; tauto]).
    assert (H2 : fx_identity fx = true \/ no_identity e2 = true)
      by (destruct Hid as [?|Hid]; [auto|right; simpl in Hid; apply andb_true_iff in Hid; tauto]).
    apply Forall2_app; auto.
Qed.

(* ------------------------------------------------------------------------------------------ *)
(* representation tree round trip *)

Lemma slice_app_l {A} (a b : list A) : slice (a ++ b) 0 (length a) = a.
Proof. unfold slice. simpl. rewrite firstn_app, firstn_all, Nat.sub_diag. simpl. apply app_nil_r. Qed.

Lemma slice_app_r {A} (a b c : list A) : slice (a ++ b ++ c) (length a) (length b) = b.
Proof.
  unfold slice. rewrite skipn_app, skipn_all, Nat.sub_diag. simpl.
  rewrite firstn_app, firstn_all, Nat.sub_diag. simpl. apply app_nil_r.
Qed.

Lemma slice_app_r0 {A} (a b : list A) : slice (a ++ b) (length a) (length b) = b.
Proof. rewrite <- (app_nil_r b) at 1. apply slice_app_r. Qed.

Lemma slice_all {A} (a : list A) : slice a 0 (length a) = a.
Proof. unfold slice. simpl. apply firstn_all. Qed.

Lemma nth_error_app_at {A} (a b : list A) x : nth_error (a ++ x :: b) (length a) = Some x.
Proof. rewrite nth_error_app2 by lia. rewrite Nat.sub_diag. reflexivity. Qed.

Definition chol_ok (fx : fixes) (e : OpExpr) : Prop := fx_chol fx = true \/ no_chol_upper e = true.

Lemma chol_ok_list fx ops : (fx_chol fx = true \/ forallb no_chol_upper ops = true) ->
  forall x, In x ops -> chol_ok fx x.
Proof. intros [H|H] x Hx; [left; auto|right]. rewrite forallb_forall in H. auto. Qed.

Lemma chol_ok_pair fx a b : (fx_chol fx = true \/ no_chol_upper a && no_chol_upper b = true) -> chol_ok fx a /\ chol_ok fx b.
Proof. intros [H|H]; [split; left; auto|]. apply andb_true_iff in H. split; right; tauto. Qed.

(* the list walker of `rebuild`, on a flat tuple in which the representations of the list sit at offset |pre| *)
Lemma rebuild_list_roundtrip fx (ops : list OpExpr) :
  Forall (fun x => chol_ok fx x -> rebuild K fx x (representation K x) = x) ops ->
  (forall x, In x ops -> chol_ok fx x) ->
  forall pre post,
  (fix go (l : list OpExpr) (counter : nat) : list OpExpr :=
     match l with
     | [] => []
     | x :: r => rebuild K fx x (slice (pre ++ flat_map (representation K) ops ++ post) counter (nleaves K x))
                 :: go r (counter + nleaves K x)
     end) ops (length pre) = ops.
Proof.
  induction ops as [|x r IH]; intros HF Hok pre post; [reflexivity|].
  inversion HF as [|? ? Hx Hr]; subst.
  cbn [flat_map]. f_equal.
  - rewrite <- app_assoc. unfold nleaves. rewrite slice_app_r. apply Hx. apply Hok. left; auto.
  - specialize (IH Hr (fun y Hy => Hok y (or_intror Hy)) (pre ++ representation K x) post).
    rewrite app_length in IH. rewrite <- !app_assoc in IH. rewrite <- app_assoc. exact IH.
Qed.

Lemma rebuild_roundtrip fx e : chol_ok fx e -> rebuild K fx e (representation K e) = e.
Proof.
  induction e using OpExpr_ind'; intros Hc; cbn [rebuild representation]; unfold nleaves;
    try reflexivity.
  - (* Triangular *) rewrite slice_all. rewrite IHe; auto.
  - (* Sum *) f_equal.
    pose proof (rebuild_list_roundtrip fx ops H (chol_ok_list fx ops Hc) [] []) as R.
    simpl in R. rewrite app_nil_r in R. exact R.
  - (* Matmul *) destruct (chol_ok_pair _ _ _ Hc). rewrite slice_app_l, slice_app_r0. rewrite IHe1, IHe2; auto.
  - (* ConstantMul *) rewrite nth_error_app_at. simpl. rewrite slice_app_l, IHe; auto.
  - (* Interpolated *)
    rewrite slice_app_l.
    replace (nth_error (representation K e ++ [LI K li; LF K lv lrg; LI K ri; LF K rv rrg]) (length (representation K e)))
      with (Some (LI K li)) by (symmetry; apply nth_error_app_at).
    replace (nth_error (representation K e ++ [LI K li; LF K lv lrg; LI K ri; LF K rv rrg]) (length (representation K e) + 1))
      with (Some (LF K lv lrg)) by (rewrite nth_error_app2 by lia; replace (_ + 1 - _) with 1 by lia; reflexivity).
    replace (nth_error (representation K e ++ [LI K li; LF K lv lrg; LI K ri; LF K rv rrg]) (length (representation K e) + 2))
      with (Some (LI K ri)) by (rewrite nth_error_app2 by lia; replace (_ + 2 - _) with 2 by lia; reflexivity).
    replace (nth_error (representation K e ++ [LI K li; LF K lv lrg; LI K ri; LF K rv rrg]) (length (representation K e) + 3))
      with (Some (LF K rv rrg)) by (rewrite nth_error_app2 by lia; replace (_ + 3 - _) with 3 by lia; reflexivity).
    simpl. rewrite IHe; auto.
  - (* Masked *)
    rewrite slice_app_l.
    replace (nth_error (representation K e ++ [LB K rm; LB K cm]) (length (representation K e)))
      with (Some (LB K rm)) by (symmetry; apply nth_error_app_at).
    replace (nth_error (representation K e ++ [LB K rm; LB K cm]) (length (representation K e) + 1))
      with (Some (LB K cm)) by (rewrite nth_error_app2 by lia; replace (_ + 1 - _) with 1 by lia; reflexivity).
    simpl. rewrite IHe; auto.
  - rewrite slice_all, IHe; auto.
  - rewrite slice_all, IHe; auto.
  - rewrite slice_all, IHe; auto.
  - rewrite slice_all, IHe; auto.
  - (* Mul *) destruct (chol_ok_pair _ _ _ Hc). rewrite slice_app_l, slice_app_r0. rewrite IHe1, IHe2; auto.
  - (* Kron *) f_equal.
    pose proof (rebuild_list_roundtrip fx ops H (chol_ok_list fx ops Hc) [] []) as R.
    simpl in R. rewrite app_nil_r in R. exact R.
  - (* Root *) rewrite slice_all, IHe; auto.
  - (* Chol *) rewrite slice_all.
    assert (Hx : chol_ok fx e) by (destruct Hc as [?|Hc]; [left; auto|right; simpl in Hc; apply andb_true_iff in Hc; tauto]).
    rewrite IHe by auto. f_equal.
    destruct Hc as [->|Hc]; [reflexivity|]. simpl in Hc. apply andb_true_iff in Hc. destruct Hc as [Hu _].
    destruct u; [discriminate|]. destruct (fx_chol fx); reflexivity.
  - (* Opaque *) f_equal.
    pose proof (rebuild_list_roundtrip fx args H (chol_ok_list fx args Hc) [] []) as R.
    simpl in R. rewrite app_nil_r in R. exact R.
Qed.

(* the pinned CholLinearOperator(upper=True) does not survive the round trip *)
Lemma rebuild_chol_upper_refuted (x : OpExpr) :
  rebuild K pinned (Chol K x true) (representation K (Chol K x true)) <> Chol K x true.
Proof. cbn [rebuild]. simpl. intros E. inversion E. Qed.

End Routing.
