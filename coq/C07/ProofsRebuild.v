(* C07 — rebuilding twice is rebuilding once: the operator that Matmul.backward & co. differentiate is the same whether it
   was saved by forward (memory_efficient off: itself a rebuild from the saved tensors) or rebuilt again in backward
   (memory_efficient on) — on the pinned tree too, where the first rebuild already dropped every `upper` flag. *)
From Coq Require Import List Arith Bool Lia ZArith.
Import ListNotations.
Require Import C07.Model C07.ProofsBase C07.ProofsRouting.

Section Rebuild.
Context {K : RingOps}.
Notation OpExpr := (OpExpr K).

Lemma rebuild_list_ncu fx flat (ops : list OpExpr) :
  Forall (fun x => forall fl, no_chol_upper (rebuild K fx x fl) = true) ops ->
  forall counter,
  forallb no_chol_upper
    ((fix go (l : list OpExpr) (counter : nat) : list OpExpr :=
        match l with
        | [] => []
        | x :: r => rebuild K fx x (slice flat counter (nleaves K x)) :: go r (counter + nleaves K x)
        end) ops counter) = true.
Proof. induction 1 as [|x r Hx Hr IH]; intros c; simpl; [reflexivity|]. rewrite Hx, IH. reflexivity. Qed.

Lemma rebuild_no_chol_upper fx (e : OpExpr) : fx_chol fx = false -> forall flat, no_chol_upper (rebuild K fx e flat) = true.
Proof.
  intros Hf. induction e using OpExpr_ind'; intros flat; cbn [rebuild]; cbv zeta.
  all: repeat match goal with |- context [leaf_f K ?a ?b ?c] => destruct (leaf_f K a b c) end.
  all: cbn [no_chol_upper].
  all: try reflexivity.
  all: try (apply rebuild_list_ncu; assumption).
  all: try (rewrite ?IHe1, ?IHe2; reflexivity).
  all: try (apply IHe).
  all: try (rewrite Hf; simpl; apply IHe).
  all: try (destruct (nth_error flat 0); reflexivity).
Qed.

Theorem rebuild_idempotent fx (e : OpExpr) :
  let e1 := rebuild K fx e (representation K e) in rebuild K fx e1 (representation K e1) = e1.
Proof.
  intros e1. apply rebuild_roundtrip. unfold chol_ok.
  destruct (fx_chol fx) eqn:E; [left; reflexivity|right; apply rebuild_no_chol_upper; exact E].
Qed.

End Rebuild.
