(* C07 — gradients through operators: executable Gallina model (definitions only).

   CONVENTIONS
   * Arithmetic: an arbitrary structure `RingOps` (carrier + 0 1 + * - opp); the theorems assume the
     commutative-ring laws (`ring_theory`), the correspondence shards instantiate it with Z (`ZK`).
   * A tensor is a shape and an index function.  Shapes and multi-indices are stored LAST DIMENSION
     FIRST: a torch tensor of shape (b1, b2, m, n) has `tshape = [n; m; b2; b1]` and its entry
     [x1, x2, i, j] is `tat t [j; i; x2; x1]`.  torch aligns broadcasting / matmul / negative dims from
     the last dimension, so dim -1 is position 0 and a batch index is the tail of the list.
     `bget t ix` reads `t` at a multi-index of a shape `t` broadcasts to (size-1 dims are read at 0,
     missing leading dims are ignored): this is torch's implicit expand.
   * torch primitives are modelled by their mathematical meaning as index maps (matmul, elementwise ops,
     sum, expand, view / reshape (row-major), permute, index_select / gather, masked assignment, sparse
     `bdsmm` with the interpolation matrices, `torch.autograd.grad` of a polynomial = its coefficient).
   * `_matmul` / `_t_matmul` / `to_dense` of sub-operators are modelled by the dense matrix the sub-operator
     denotes (`den`): that they agree with it is property C01, not re-proved here.
   * `left_vecs` / `right_vecs` are matrices (>= 2 dims, columns = the D vectors): every caller in
     linear_operator/functions unsqueezes vectors before calling `_bilinear_derivative`. *)
From Coq Require Import List Arith Bool Lia ZArith.
Import ListNotations.

(* ------------------------------------------------------------------------------------------ *)
(* shapes and multi-indices *)

Fixpoint numel (s : list nat) : nat := match s with [] => 1 | d :: r => d * numel r end.
(* row-major flat position of a multi-index (last dimension first = least significant first) *)
Fixpoint ravel (s : list nat) (ix : list nat) : nat :=
  match s, ix with d :: s', i :: ix' => i + d * ravel s' ix' | _, _ => 0 end.
Fixpoint unravel (s : list nat) (k : nat) : list nat :=
  match s with [] => [] | d :: s' => (k mod d) :: unravel s' (k / d) end.
Fixpoint valid (ix : list nat) (s : list nat) : Prop :=
  match ix, s with [], [] => True | i :: ix', d :: s' => i < d /\ valid ix' s' | _, _ => False end.
Fixpoint list_nat_eqb (a b : list nat) : bool :=
  match a, b with [], [] => true | x :: r, y :: s => Nat.eqb x y && list_nat_eqb r s | _, _ => false end.

(* torch broadcasting: right-aligned (= head-aligned here); size-1 dimensions are read at index 0 *)
Fixpoint bcast_ix (s : list nat) (ix : list nat) : list nat :=
  match s, ix with d :: s', i :: ix' => (if d =? 1 then 0 else i) :: bcast_ix s' ix' | _, _ => [] end.
Fixpoint broadcast_shapes (a b : list nat) : option (list nat) :=
  match a, b with
  | [], _ => Some b
  | _, [] => Some a
  | x :: a', y :: b' =>
      match broadcast_shapes a' b' with
      | None => None
      | Some r => if x =? y then Some (x :: r) else if x =? 1 then Some (y :: r)
                  else if y =? 1 then Some (x :: r) else None
      end
  end.
(* the shape torch computes for an op on two broadcastable operands ([] stands for "raises") *)
Definition bcs (a b : list nat) : list nat := match broadcast_shapes a b with Some s => s | None => [] end.
(* t.expand(s) is legal iff the dims of t, right-aligned, are equal to those of s or 1 *)
Fixpoint expandable (from to : list nat) : bool :=
  match from, to with
  | [], _ => true
  | _ :: _, [] => false
  | x :: f', y :: t' => ((x =? y) || (x =? 1)) && expandable f' t'
  end.
(* batch index of the base of a BatchRepeatLinearOperator: position-wise  i mod size *)
Fixpoint modix (b sh : list nat) : list nat :=
  match b, sh with i :: b', s :: sh' => (i mod s) :: modix b' sh' | _, _ => [] end.
(* boolean masks: position of the i-th True; number of Trues before position r *)
Fixpoint sel (mask : list bool) (i : nat) : nat :=
  match mask with
  | [] => 0
  | true :: r => match i with 0 => 0 | S i' => S (sel r i') end
  | false :: r => S (sel r i)
  end.
Fixpoint rank_of (mask : list bool) (r : nat) : nat :=
  match mask, r with
  | _, 0 => 0
  | [], _ => 0
  | m :: mask', S r' => (if m then 1 else 0) + rank_of mask' r'
  end.
Definition count_true (mask : list bool) : nat := length (filter (fun x => x) mask).
Definition dim0 (s : list nat) : nat := nth 0 s 0.      (* size(-1) *)
Definition dim1 (s : list nat) : nat := nth 1 s 0.      (* size(-2) *)
Definition dim2 (s : list nat) : nat := nth 2 s 0.      (* size(-3) *)
Definition prodl (l : list nat) : nat := fold_right Nat.mul 1 l.
Fixpoint map2_mul (a b : list nat) : list nat :=
  match a, b with x :: a', y :: b' => x * y :: map2_mul a' b' | _, _ => [] end.
Fixpoint mapi_from {A B} (f : nat -> A -> B) (k : nat) (l : list A) : list B :=
  match l with [] => [] | x :: r => f k x :: mapi_from f (S k) r end.

Record RingOps := mkRing {
  car : Type; r0 : car; r1 : car;
  radd : car -> car -> car; rmul : car -> car -> car; rsub : car -> car -> car; ropp : car -> car }.

Definition ZK : RingOps := mkRing Z 0%Z 1%Z Z.add Z.mul Z.sub Z.opp.

(* which repairs of the pinned tree's defects are switched on (all false = the pinned code) *)
Record fixes := mkFx {
  fx_identity : bool;     (* IdentityLinearOperator._bilinear_derivative returns () instead of (None,) *)
  fx_collapse : bool;     (* `x.view(-1, *shape).sum(0)` collapses replaced by sum_to_size *)
  fx_chol : bool }.       (* CholLinearOperator forwards `upper` to LinearOperator.__init__ *)
Definition pinned : fixes := mkFx false false false.
Definition repaired : fixes := mkFx true true true.

Section Model.
Variable K : RingOps.
Notation T := (car K).
Notation zero := (r0 K).
Notation one := (r1 K).
Infix "+!" := (radd K) (at level 50, left associativity).
Infix "*!" := (rmul K) (at level 40, left associativity).
Infix "-!" := (rsub K) (at level 50, left associativity).

(* sum_{k<n} f k ;  sum over all multi-indices of a shape *)
Fixpoint rsum (n : nat) (f : nat -> T) : T :=
  match n with O => zero | S k => rsum k f +! f k end.
Fixpoint bsum (sh : list nat) (f : list nat -> T) : T :=
  match sh with [] => f [] | d :: sh' => rsum d (fun i => bsum sh' (fun ix => f (i :: ix))) end.

Record tensor := mkT { tshape : list nat; tat : list nat -> T }.
Record itensor := mkIT { ishape : list nat; iat : list nat -> nat }.       (* LongTensor of indices *)

Definition bget (t : tensor) (ix : list nat) : T := tat t (bcast_ix (tshape t) ix).
Definition ibget (t : itensor) (ix : list nat) : nat := iat t (bcast_ix (ishape t) ix).
Definition of_flat (s : list nat) (data : list T) : tensor := mkT s (fun ix => nth (ravel s ix) data zero).
Definition iof_flat (s : list nat) (data : list nat) : itensor := mkIT s (fun ix => nth (ravel s ix) data 0).
Definition to_flat (t : tensor) : list T :=
  map (fun k => tat t (unravel (tshape t) k)) (seq 0 (numel (tshape t))).
Definition tzeros (s : list nat) : tensor := mkT s (fun _ => zero).
Definition tadd (a b : tensor) : tensor := mkT (tshape a) (fun ix => tat a ix +! tat b ix).
Definition unit_t (s idx : list nat) : tensor := mkT s (fun ix => if list_nat_eqb ix idx then one else zero).
Definition batch2 (t : tensor) : list nat := skipn 2 (tshape t).
(* what autograd does with a gradient whose shape is an expansion of the input's shape (at::sum_to);
   also torch's  x.sum_to_size(s) *)
Definition sum_to (t : tensor) (s : list nat) : tensor :=
  mkT s (fun ix => bsum (tshape t) (fun ix' => if list_nat_eqb (bcast_ix s ix') ix then tat t ix' else zero)).
(* x.view(-1, *s).sum(0)  (row-major regrouping of the leading dimensions) *)
Definition collapse_view (t : tensor) (s : list nat) : tensor :=
  mkT s (fun ix => rsum (numel (tshape t) / numel s)
                        (fun q => tat t (unravel (tshape t) (ravel s ix + numel s * q)))).
(* the pairing <g, delta> with delta broadcast to the shape of g *)
Definition pair (g delta : tensor) : T := bsum (tshape g) (fun ix => tat g ix *! bget delta ix).

(* ------------------------------------------------------------------------------------------ *)
(* operator expressions: one constructor per `_bilinear_derivative` routine / default-path class *)

Inductive leafval :=
| LF (t : tensor) (rg : bool)        (* floating tensor, requires_grad flag *)
| LI (t : itensor)                   (* LongTensor (interpolation indices, permutations) *)
| LB (m : list bool).                (* BoolTensor (masks) *)

Inductive OpExpr :=
| Dense (t : tensor) (rg : bool)
| Diag (d : tensor) (rg : bool)
| ConstantDiag (c : tensor) (rg : bool) (n : nat)
| Identity (n : nat) (batch : list nat)
| Toeplitz (c : tensor) (rg : bool)
| Triangular (x : OpExpr) (upper : bool)                (* default path; same matrix as x *)
| Sum (ops : list OpExpr)                               (* also AddedDiag, PsdSum, SumKronecker, ... *)
| Matmul (l r : OpExpr)
| ConstantMul (base : OpExpr) (c : tensor) (rg : bool)
| Interpolated (base : OpExpr) (li : itensor) (lv : tensor) (lrg : bool) (ri : itensor) (rv : tensor) (rrg : bool)
| Masked (base : OpExpr) (rm cm : list bool)
| BlockDiag (base : OpExpr)
| BlockInterleaved (base : OpExpr)
| SumBatch (base : OpExpr)
| BatchRepeat (base : OpExpr) (rep : list nat)          (* rep: last batch dimension first *)
| Mul (l r : OpExpr)
| Kron (ops : list OpExpr)                              (* default path *)
| Root (x : OpExpr)                                     (* default path; x x^T *)
| Chol (x : OpExpr) (upper : bool)                      (* default path; x x^T or x^T x *)
| Opaque (cls : nat) (args : list OpExpr)               (* any other default-path class: routing only *)
| Leaf (v : leafval).                                   (* a tensor argument of an Opaque operator *)

(* ---- sizes (batch shape last dimension first) *)
Fixpoint bshape (e : OpExpr) : list nat :=
  match e with
  | Dense t _ => skipn 2 (tshape t)
  | Diag d _ => skipn 1 (tshape d)
  | ConstantDiag c _ _ => skipn 1 (tshape c)
  | Identity _ batch => batch
  | Toeplitz c _ => skipn 1 (tshape c)
  | Triangular x _ => bshape x
  | Sum ops => match ops with [] => [] | x :: _ => bshape x end     (* the constructor expands all summands *)
  | Matmul l _ => bshape l                                          (* the constructor expands both factors *)
  | ConstantMul b _ _ => bshape b
  | Interpolated b _ _ _ _ _ _ => bshape b
  | Masked b _ _ => bshape b
  | BlockDiag b => tl (bshape b)
  | BlockInterleaved b => tl (bshape b)
  | SumBatch b => tl (bshape b)
  | BatchRepeat b rep => map2_mul (bshape b) rep
  | Mul l _ => bshape l
  | Kron ops => match ops with [] => [] | x :: _ => bshape x end    (* the constructor expands all factors *)
  | Root x => bshape x
  | Chol x _ => bshape x
  | Opaque _ _ => []
  | Leaf _ => []
  end.
Definition nblocks (b : OpExpr) : nat := hd 0 (bshape b).           (* base_linear_op.size(-3) *)

Fixpoint nrows (e : OpExpr) : nat :=
  match e with
  | Dense t _ => dim1 (tshape t)
  | Diag d _ => dim0 (tshape d)
  | ConstantDiag _ _ n => n
  | Identity n _ => n
  | Toeplitz c _ => dim0 (tshape c)
  | Triangular x _ => nrows x
  | Sum ops => match ops with [] => 0 | x :: _ => nrows x end
  | Matmul l _ => nrows l
  | ConstantMul b _ _ => nrows b
  | Interpolated _ li _ _ _ _ _ => dim1 (ishape li)
  | Masked _ rm _ => count_true rm
  | BlockDiag b => nblocks b * nrows b
  | BlockInterleaved b => nblocks b * nrows b
  | SumBatch b => nrows b
  | BatchRepeat b _ => nrows b
  | Mul l _ => nrows l
  | Kron ops => prodl (map nrows ops)
  | Root x => nrows x
  | Chol x _ => nrows x
  | Opaque _ _ => 0
  | Leaf _ => 0
  end.
Fixpoint ncols (e : OpExpr) : nat :=
  match e with
  | Dense t _ => dim0 (tshape t)
  | Diag d _ => dim0 (tshape d)
  | ConstantDiag _ _ n => n
  | Identity n _ => n
  | Toeplitz c _ => dim0 (tshape c)
  | Triangular x _ => ncols x
  | Sum ops => match ops with [] => 0 | x :: _ => ncols x end
  | Matmul _ r => ncols r
  | ConstantMul b _ _ => ncols b
  | Interpolated _ _ _ _ ri _ _ => dim1 (ishape ri)
  | Masked _ _ cm => count_true cm
  | BlockDiag b => nblocks b * ncols b
  | BlockInterleaved b => nblocks b * ncols b
  | SumBatch b => ncols b
  | BatchRepeat b _ => ncols b
  | Mul l _ => ncols l
  | Kron ops => prodl (map ncols ops)
  | Root x => nrows x
  | Chol x _ => nrows x
  | Opaque _ _ => 0
  | Leaf _ => 0
  end.

(* ---- the dense matrix an expression denotes: entry (i, j) of batch member b.
   b may be an index into any shape the operator's batch shape broadcasts to. *)
Fixpoint den (e : OpExpr) (b : list nat) (i j : nat) : T :=
  match e with
  | Dense t _ => bget t (j :: i :: b)
  | Diag d _ => if i =? j then bget d (i :: b) else zero
  | ConstantDiag c _ _ => if i =? j then bget c (0 :: b) else zero
  | Identity _ _ => if i =? j then one else zero
  | Toeplitz c _ => bget c ((if j <=? i then i - j else j - i) :: b)
  | Triangular x _ => den x b i j
  | Sum ops => fold_right (fun x acc => den x b i j +! acc) zero ops
  | Matmul l r => rsum (ncols l) (fun k => den l b i k *! den r b k j)
  | ConstantMul base c _ => den base b i j *! bget c b
  | Interpolated base li lv _ ri rv _ =>
      rsum (dim0 (ishape li)) (fun p => rsum (dim0 (ishape ri)) (fun q =>
        bget lv (p :: i :: b) *! den base b (ibget li (p :: i :: b)) (ibget ri (q :: j :: b)) *! bget rv (q :: j :: b)))
  | Masked base rm cm => den base b (sel rm i) (sel cm j)
  | BlockDiag base =>
      let m := nrows base in let n := ncols base in
      if i / m =? j / n then den base ((i / m) :: b) (i mod m) (j mod n) else zero
  | BlockInterleaved base =>
      let k := nblocks base in
      if i mod k =? j mod k then den base ((i mod k) :: b) (i / k) (j / k) else zero
  | SumBatch base => rsum (nblocks base) (fun t => den base (t :: b) i j)
  | BatchRepeat base _ => den base (modix b (bshape base)) i j
  | Mul l r => den l b i j *! den r b i j
  | Kron ops =>
      (fix kd (l : list OpExpr) (i j : nat) : T :=
         match l with
         | [] => one
         | x :: r => let mr := prodl (map nrows r) in let nr := prodl (map ncols r) in
                     den x b (i / mr) (j / nr) *! kd r (i mod mr) (j mod nr)
         end) ops i j
  | Root x => rsum (ncols x) (fun k => den x b i k *! den x b j k)
  | Chol x upper =>
      if upper then rsum (nrows x) (fun k => den x b k i *! den x b k j)
      else rsum (ncols x) (fun k => den x b i k *! den x b j k)
  | Opaque _ _ => zero
  | Leaf _ => zero
  end.

(* sum_i u_i^T A v_i summed over the batch B:  U is (B, M, D), V is (B, N, D) *)
Definition bil (e : OpExpr) (B : list nat) (D : nat) (U V : tensor) : T :=
  bsum B (fun b => rsum D (fun d => rsum (nrows e) (fun i => rsum (ncols e) (fun j =>
    bget U (d :: i :: b) *! den e b i j *! bget V (d :: j :: b))))).
Definition bilm (e : OpExpr) (U V : tensor) : T :=
  bil e (bcs (batch2 U) (batch2 V)) (dim0 (tshape U)) U V.

(* ---- representation(): the flat tuple of tensors *)
Fixpoint representation (e : OpExpr) : list leafval :=
  match e with
  | Dense t rg => [LF t rg]
  | Diag d rg => [LF d rg]
  | ConstantDiag c rg _ => [LF c rg]
  | Identity _ _ => []
  | Toeplitz c rg => [LF c rg]
  | Triangular x _ => representation x
  | Sum ops => flat_map representation ops
  | Matmul l r => representation l ++ representation r
  | ConstantMul b c rg => representation b ++ [LF c rg]
  | Interpolated b li lv lrg ri rv rrg => representation b ++ [LI li; LF lv lrg; LI ri; LF rv rrg]
  | Masked b rm cm => representation b ++ [LB rm; LB cm]
  | BlockDiag b => representation b
  | BlockInterleaved b => representation b
  | SumBatch b => representation b
  | BatchRepeat b _ => representation b
  | Mul l r => representation l ++ representation r
  | Kron ops => flat_map representation ops
  | Root x => representation x
  | Chol x _ => representation x
  | Opaque _ args => flat_map representation args
  | Leaf v => [v]
  end.
Definition nleaves (e : OpExpr) : nat := length (representation e).

(* ---- representation_tree() applied to the flat tuple: LinearOperatorRepresentationTree.__call__.  Every child gets the slice
   flat[counter : counter + len(child.representation())]; non-tensor kwargs are kept verbatim, except that the pinned
   CholLinearOperator never registered `upper`, so the rebuilt object has upper=False. *)
Definition slice {A} (l : list A) (start len : nat) : list A := firstn len (skipn start l).
Definition leaf_f (v : option leafval) (t : tensor) (rg : bool) : tensor * bool :=
  match v with Some (LF t' rg') => (t', rg') | _ => (t, rg) end.
Definition leaf_i (v : option leafval) (t : itensor) : itensor := match v with Some (LI t') => t' | _ => t end.
Definition leaf_b (v : option leafval) (m : list bool) : list bool := match v with Some (LB m') => m' | _ => m end.

Fixpoint rebuild (fx : fixes) (e : OpExpr) (flat : list leafval) : OpExpr :=
  let rebuild_list :=
    (fix go (l : list OpExpr) (counter : nat) : list OpExpr :=
       match l with
       | [] => []
       | x :: r => rebuild fx x (slice flat counter (nleaves x)) :: go r (counter + nleaves x)
       end) in
  match e with
  | Dense t rg => let '(t', rg') := leaf_f (nth_error flat 0) t rg in Dense t' rg'
  | Diag t rg => let '(t', rg') := leaf_f (nth_error flat 0) t rg in Diag t' rg'
  | ConstantDiag t rg n => let '(t', rg') := leaf_f (nth_error flat 0) t rg in ConstantDiag t' rg' n
  | Identity n batch => Identity n batch
  | Toeplitz t rg => let '(t', rg') := leaf_f (nth_error flat 0) t rg in Toeplitz t' rg'
  | Triangular x upper => Triangular (rebuild fx x (slice flat 0 (nleaves x))) upper
  | Sum ops => Sum (rebuild_list ops 0)
  | Matmul l r => Matmul (rebuild fx l (slice flat 0 (nleaves l))) (rebuild fx r (slice flat (nleaves l) (nleaves r)))
  | ConstantMul b c rg =>
      let '(c', rg') := leaf_f (nth_error flat (nleaves b)) c rg in
      ConstantMul (rebuild fx b (slice flat 0 (nleaves b))) c' rg'
  | Interpolated b li lv lrg ri rv rrg =>
      let nb := nleaves b in
      let '(lv', lrg') := leaf_f (nth_error flat (nb + 1)) lv lrg in
      let '(rv', rrg') := leaf_f (nth_error flat (nb + 3)) rv rrg in
      Interpolated (rebuild fx b (slice flat 0 nb)) (leaf_i (nth_error flat nb) li) lv' lrg'
                   (leaf_i (nth_error flat (nb + 2)) ri) rv' rrg'
  | Masked b rm cm =>
      let nb := nleaves b in
      Masked (rebuild fx b (slice flat 0 nb)) (leaf_b (nth_error flat nb) rm) (leaf_b (nth_error flat (nb + 1)) cm)
  | BlockDiag b => BlockDiag (rebuild fx b (slice flat 0 (nleaves b)))
  | BlockInterleaved b => BlockInterleaved (rebuild fx b (slice flat 0 (nleaves b)))
  | SumBatch b => SumBatch (rebuild fx b (slice flat 0 (nleaves b)))
  | BatchRepeat b rep => BatchRepeat (rebuild fx b (slice flat 0 (nleaves b))) rep
  | Mul l r => Mul (rebuild fx l (slice flat 0 (nleaves l))) (rebuild fx r (slice flat (nleaves l) (nleaves r)))
  | Kron ops => Kron (rebuild_list ops 0)
  | Root x => Root (rebuild fx x (slice flat 0 (nleaves x)))
  | Chol x upper => Chol (rebuild fx x (slice flat 0 (nleaves x))) (if fx_chol fx then upper else false)
  | Opaque cls args => Opaque cls (rebuild_list args 0)
  | Leaf v => match nth_error flat 0 with Some v' => Leaf v' | None => Leaf v end
  end.

(* ---- leaf k of the flat tuple moved by delta (theta_k + delta), all other leaves fixed *)
Definition bump (delta : tensor) (v : leafval) : leafval :=
  match v with LF t rg => LF (tadd t delta) rg | _ => v end.
Fixpoint perturb (e : OpExpr) (k : nat) (delta : tensor) : OpExpr :=
  let perturb_list :=
    (fix go (l : list OpExpr) (k : nat) : list OpExpr :=
       match l with
       | [] => []
       | x :: r => if k <? nleaves x then perturb x k delta :: r else x :: go r (k - nleaves x)
       end) in
  match e with
  | Dense t rg => if k =? 0 then Dense (tadd t delta) rg else e
  | Diag t rg => if k =? 0 then Diag (tadd t delta) rg else e
  | ConstantDiag t rg n => if k =? 0 then ConstantDiag (tadd t delta) rg n else e
  | Identity _ _ => e
  | Toeplitz t rg => if k =? 0 then Toeplitz (tadd t delta) rg else e
  | Triangular x upper => Triangular (perturb x k delta) upper
  | Sum ops => Sum (perturb_list ops k)
  | Matmul l r => if k <? nleaves l then Matmul (perturb l k delta) r else Matmul l (perturb r (k - nleaves l) delta)
  | ConstantMul b c rg =>
      if k <? nleaves b then ConstantMul (perturb b k delta) c rg
      else if k =? nleaves b then ConstantMul b (tadd c delta) rg else e
  | Interpolated b li lv lrg ri rv rrg =>
      let nb := nleaves b in
      if k <? nb then Interpolated (perturb b k delta) li lv lrg ri rv rrg
      else if k =? nb + 1 then Interpolated b li (tadd lv delta) lrg ri rv rrg
      else if k =? nb + 3 then Interpolated b li lv lrg ri (tadd rv delta) rrg
      else e
  | Masked b rm cm => if k <? nleaves b then Masked (perturb b k delta) rm cm else e
  | BlockDiag b => BlockDiag (perturb b k delta)
  | BlockInterleaved b => BlockInterleaved (perturb b k delta)
  | SumBatch b => SumBatch (perturb b k delta)
  | BatchRepeat b rep => BatchRepeat (perturb b k delta) rep
  | Mul l r => if k <? nleaves l then Mul (perturb l k delta) r else Mul l (perturb r (k - nleaves l) delta)
  | Kron ops => Kron (perturb_list ops k)
  | Root x => Root (perturb x k delta)
  | Chol x upper => Chol (perturb x k delta) upper
  | Opaque cls args => Opaque cls (perturb_list args k)
  | Leaf v => if k =? 0 then Leaf (bump delta v) else e
  end.

(* ------------------------------------------------------------------------------------------ *)
(* `_bilinear_derivative` *)

(* e._matmul(X) and e._t_matmul(X) for a matrix X of shape (batch, n, C) : by meaning (property C01) *)
Definition alg_matmul (e : OpExpr) (X : tensor) : tensor :=
  mkT (dim0 (tshape X) :: nrows e :: bcs (bshape e) (batch2 X))
      (fun ix => match ix with
                 | c :: i :: b => rsum (ncols e) (fun k => den e b i k *! bget X (c :: k :: b))
                 | _ => zero end).
Definition alg_t_matmul (e : OpExpr) (X : tensor) : tensor :=
  mkT (dim0 (tshape X) :: ncols e :: bcs (bshape e) (batch2 X))
      (fun ix => match ix with
                 | c :: j :: b => rsum (nrows e) (fun i => den e b i j *! bget X (c :: i :: b))
                 | _ => zero end).

(* DenseLinearOperator:  left_vecs.matmul(right_vecs.mT) *)
Definition dense_bd (U V : tensor) : tensor :=
  mkT (dim1 (tshape V) :: dim1 (tshape U) :: bcs (batch2 U) (batch2 V))
      (fun ix => match ix with
                 | j :: i :: b => rsum (dim0 (tshape U)) (fun d => bget U (d :: i :: b) *! bget V (d :: j :: b))
                 | _ => zero end).

(* DiagLinearOperator:  res = left_vecs * right_vecs ; if res.ndimension() > diag.ndimension(): res = res.sum(-1) *)
Definition diag_bd (dg U V : tensor) : tensor :=
  let sh := bcs (tshape U) (tshape V) in
  if length (tshape dg) <? length sh
  then mkT (tl sh) (fun ix => rsum (dim0 sh) (fun d => bget U (d :: ix) *! bget V (d :: ix)))
  else mkT sh (fun ix => bget U ix *! bget V ix).

(* ConstantDiagLinearOperator:  (left_vecs * right_vecs).sum(dim=[-1, -2]).unsqueeze(-1) *)
Definition cdiag_bd (U V : tensor) : tensor :=
  let sh := bcs (tshape U) (tshape V) in
  mkT (1 :: skipn 2 sh)
      (fun ix => match ix with
                 | _ :: b => rsum (dim1 sh) (fun i => rsum (dim0 sh) (fun d => bget U (d :: i :: b) *! bget V (d :: i :: b)))
                 | [] => zero end).

(* utils.toeplitz.sym_toeplitz_derivative_quadratic_form(left, right), by its meaning (C20 proves the library routine —
   two toeplitz_matmul calls on flipped vectors and the res[..., 0] correction — equal to it):
   entry d = sum_s u_s^T (dT/dc_d) v_s, dT/dc_d = ones on the d-th sub- and super-diagonal (d = 0: the identity) *)
Definition dqf (U V : tensor) : tensor :=
  let D := dim0 (tshape U) in let M := dim1 (tshape U) in
  mkT (M :: bcs (batch2 U) (batch2 V))
      (fun ix => match ix with
                 | d :: b =>
                     rsum D (fun s =>
                       if d =? 0 then rsum M (fun i => bget U (s :: i :: b) *! bget V (s :: i :: b))
                       else rsum (M - d) (fun a => bget U (s :: a :: b) *! bget V (s :: (a + d) :: b)
                                                   +! bget U (s :: (a + d) :: b) *! bget V (s :: a :: b)))
                 | [] => zero end).
(* ToeplitzLinearOperator:  if res.dim() > self.column.dim(): res = res.view(-1, *self.column.shape).sum(0) *)
Definition collapse (fx : fixes) (res : tensor) (s : list nat) : tensor :=
  if length s <? length (tshape res)
  then (if fx_collapse fx then sum_to res s else collapse_view res s)
  else res.
Definition toeplitz_bd (fx : fixes) (col U V : tensor) : tensor := collapse fx (dqf U V) (tshape col).

(* ConstantMulLinearOperator *)
Definition cmul_const_bd (base : OpExpr) (c U V : tensor) : tensor :=
  let BV := alg_matmul base V in
  let cd := mkT (bcs (batch2 U) (batch2 BV))                                    (* (left_vecs * base @ right_vecs).sum(-2).sum(-1) *)
                (fun b => rsum (dim1 (tshape U)) (fun i => rsum (dim0 (tshape U)) (fun d =>
                            bget U (d :: i :: b) *! bget BV (d :: i :: b)))) in
  sum_to cd (tshape c).         (* while dim() > c.dim(): sum(0) ; for size-1 dims of c: sum(i, keepdim=True) *)
Definition cmul_left (c U : tensor) : tensor :=                                (* left_vecs * self.expanded_constant *)
  mkT (bcs (tshape U) (1 :: 1 :: tshape c)) (fun ix => bget U ix *! bget c (skipn 2 ix)).

(* InterpolatedLinearOperator: bdsmm(W^T, X) with W the (rows x nbase) interpolation matrix (duplicates add) *)
Definition interp_t (idx : itensor) (val : tensor) (nbase : nat) (X : tensor) : tensor :=
  mkT (dim0 (tshape X) :: nbase :: bcs (skipn 2 (ishape idx)) (batch2 X))
      (fun ix => match ix with
                 | d :: r :: b =>
                     rsum (dim1 (ishape idx)) (fun i => rsum (dim0 (ishape idx)) (fun p =>
                       if ibget idx (p :: i :: b) =? r then bget val (p :: i :: b) *! bget X (d :: i :: b) else zero))
                 | _ => zero end).
(* values gradient: rows of (base @ other_res) selected by the indices (index_select on the batch-flattened matrix
   with batch offsets = a per-batch-member row gather), times the vectors, summed over the vectors *)
Definition interp_vals_bd (idx : itensor) (BR X : tensor) : tensor :=
  mkT (dim0 (ishape idx) :: dim1 (ishape idx) :: bcs (batch2 BR) (batch2 X))
      (fun ix => match ix with
                 | p :: i :: b => rsum (dim0 (tshape X)) (fun d => bget BR (d :: ibget idx (p :: i :: b) :: b) *! bget X (d :: i :: b))
                 | _ => zero end).
Definition izeros (t : itensor) : tensor := tzeros (ishape t).                 (* torch.zeros_like(indices) *)

(* MaskedLinearOperator._expand(tensor, mask): zeros with the masked rows filled *)
Definition expand_mask (X : tensor) (mask : list bool) : tensor :=
  mkT (dim0 (tshape X) :: length mask :: batch2 X)
      (fun ix => match ix with
                 | d :: r :: b => if nth r mask false then bget X (d :: rank_of mask r :: b) else zero
                 | _ => zero end).

(* Block*LinearOperator._add_batch_dim *)
Definition add_bd_diag (k : nat) (X : tensor) : tensor :=          (* view( *batch, k, rows // k, cols) *)
  let m := dim1 (tshape X) / k in
  mkT (dim0 (tshape X) :: m :: k :: batch2 X)
      (fun ix => match ix with d :: i :: blk :: b => bget X (d :: (blk * m + i) :: b) | _ => zero end).
Definition add_bd_inter (k : nat) (X : tensor) : tensor :=         (* view( *batch, rows // k, k, cols).transpose(-2, -3) *)
  let m := dim1 (tshape X) / k in
  mkT (dim0 (tshape X) :: m :: k :: batch2 X)
      (fun ix => match ix with d :: i :: blk :: b => bget X (d :: (i * k + blk) :: b) | _ => zero end).
Definition add_bd_sum (k : nat) (X : tensor) : tensor :=           (* reshape(.., 1, rows, cols).expand(.., k, rows, cols) *)
  mkT (dim0 (tshape X) :: dim1 (tshape X) :: k :: batch2 X)
      (fun ix => match ix with d :: i :: blk :: b => bget X (d :: i :: b) | _ => zero end).

(* BatchRepeatLinearOperator._move_repeat_batches_to_columns(X.expand(out), out) *)
Fixpoint pad_to (n : nat) (s : list nat) : list nat :=             (* base batch shape padded with leading 1s (= trailing here) *)
  match n with 0 => [] | S n' => match s with [] => 1 :: pad_to n' [] | x :: s' => x :: pad_to n' s' end end.
Fixpoint map2_div (a b : list nat) : list nat :=
  match a, b with x :: a', y :: b' => x / y :: map2_div a' b' | _, _ => [] end.
Fixpoint combine_rs (rho s sigma : list nat) : list nat :=         (* beta_m = rho_m * s_m + sigma_m *)
  match rho, s with
  | r :: rho', x :: s' => (r * x + hd 0 sigma) :: combine_rs rho' s' (tl sigma)
  | _, _ => []
  end.
Definition move_repeat (e base : OpExpr) (X : tensor) : tensor :=
  let out := bcs (bshape e) (batch2 X) in
  let s := pad_to (length out) (bshape base) in
  let rep := map2_div out s in
  let D := dim0 (tshape X) in
  mkT (D * prodl rep :: dim1 (tshape X) :: bshape base)
      (fun ix => match ix with
                 | d' :: i :: sigma =>
                     let dec := unravel (rep ++ [D]) d' in
                     bget X (nth (length rep) dec 0 :: i :: combine_rs (firstn (length rep) dec) s sigma)
                 | _ => zero end).

(* MulLinearOperator: the factor handed to one operand, built from the OTHER operand *)
Definition is_root (e : OpExpr) : option OpExpr := match e with Root x => Some x | Chol x _ => Some x | _ => None end.
Definition mul_factors (other : OpExpr) (U V : tensor) : tensor * tensor :=
  let D := dim0 (tshape U) in let n := dim1 (tshape U) in
  match is_root other with
  | Some x =>           (* isinstance(other, RootLinearOperator): vecs.unsqueeze(-2) * root.unsqueeze(-1), view(.., n, D * rank) *)
      let rk := ncols x in
      (mkT (D * rk :: n :: bcs (batch2 U) (bshape x))
           (fun ix => match ix with d' :: i :: b => bget U ((d' mod D) :: i :: b) *! den x b i (d' / D) | _ => zero end),
       mkT (D * rk :: n :: bcs (batch2 V) (bshape x))
           (fun ix => match ix with d' :: j :: b => bget V ((d' mod D) :: j :: b) *! den x b j (d' / D) | _ => zero end))
  | None =>             (* left_vecs.unsqueeze(-2) * other.to_dense().unsqueeze(-1) ; right_vecs.unsqueeze(-2) * eye.unsqueeze(-1) *)
      (mkT (D * n :: n :: bcs (batch2 U) (bshape other))
           (fun ix => match ix with d' :: i :: b => bget U ((d' mod D) :: i :: b) *! den other b i (d' / D) | _ => zero end),
       mkT (D * n :: n :: batch2 V)
           (fun ix => match ix with d' :: j :: b => if j =? d' / D then bget V ((d' mod D) :: j :: b) else zero | _ => zero end))
  end.

(* LinearOperator._bilinear_derivative (the default): torch.autograd.grad of (left_vecs * op._matmul(right_vecs)).sum()
   with respect to detached copies of representation(), on the operator REBUILT from them.  autograd is modelled by what
   it computes for a function that is affine in the leaf: the coefficient, read off with unit steps.  (For leaves in which
   the matrix is not affine — Root, Chol — the entry is only used for its None-pattern and shape.) *)
Definition is_rg (v : leafval) : bool := match v with LF _ true => true | _ => false end.
Definition default_bd (fx : fixes) (e : OpExpr) (U V : tensor) : list (option tensor) :=
  let rep := representation e in
  if negb (existsb is_rg rep) then map (fun _ => None) rep
  else
    let e0 := rebuild fx e rep in
    let base := bilm e0 U V in
    mapi_from (fun k v => match v with
                          | LF t true => Some (mkT (tshape t) (fun idx => bilm (perturb e0 k (unit_t (tshape t) idx)) U V -! base))
                          | _ => None end) 0 rep.

Fixpoint alg_bd (fx : fixes) (e : OpExpr) (U V : tensor) : list (option tensor) :=
  match e with
  | Dense _ _ => [Some (dense_bd U V)]
  | Diag d rg => if rg then [Some (diag_bd d U V)] else [None]
  | ConstantDiag _ rg _ => if rg then [Some (cdiag_bd U V)] else [None]
  | Identity _ _ => if fx_identity fx then [] else [None]      (* inherited from ConstantDiag; representation() is () *)
  | Toeplitz c _ => [Some (toeplitz_bd fx c U V)]
  | Sum ops => flat_map (fun x => alg_bd fx x U V) ops
  | Matmul l r => alg_bd fx l U (alg_matmul r V) ++ alg_bd fx r (alg_t_matmul l U) V
  | ConstantMul base c _ => alg_bd fx base (cmul_left c U) V ++ [Some (cmul_const_bd base c U V)]
  | Interpolated base li lv _ ri rv _ =>
      let left_res := interp_t li lv (nrows base) U in
      let right_res := interp_t ri rv (ncols base) V in
      alg_bd fx base left_res right_res
      ++ [Some (izeros li); Some (interp_vals_bd li (alg_matmul base right_res) U);
          Some (izeros ri); Some (interp_vals_bd ri (alg_t_matmul base left_res) V)]
  | Masked base rm cm => alg_bd fx base (expand_mask U rm) (expand_mask V cm) ++ [None; None]
  | BlockDiag base => alg_bd fx base (add_bd_diag (nblocks base) U) (add_bd_diag (nblocks base) V)
  | BlockInterleaved base => alg_bd fx base (add_bd_inter (nblocks base) U) (add_bd_inter (nblocks base) V)
  | SumBatch base => alg_bd fx base (add_bd_sum (nblocks base) U) (add_bd_sum (nblocks base) V)
  | BatchRepeat base _ =>
      if nrows e =? ncols e then alg_bd fx base (move_repeat e base U) (move_repeat e base V)
      else default_bd fx e U V
  | Mul l r =>
      let '(lf, rf) := mul_factors r U V in
      let '(lf2, rf2) := mul_factors l U V in
      alg_bd fx l lf rf ++ alg_bd fx r lf2 rf2
  | Triangular _ _ | Kron _ | Root _ | Chol _ _ | Opaque _ _ | Leaf _ => default_bd fx e U V
  end.

(* the interpolated operator's left-values gradient flattens (base @ right_res) as (batch * n_inducing, n_vecs) with
   n_inducing = right_res.size(-2) = the number of base COLUMNS: for a non-square base that view raises *)
Fixpoint bd_raises (e : OpExpr) : bool :=
  match e with
  | Interpolated base _ _ _ _ _ _ => negb (nrows base =? ncols base) || bd_raises base
  | Sum ops => existsb bd_raises ops
  | Matmul l r | Mul l r => bd_raises l || bd_raises r
  | ConstantMul b _ _ | Masked b _ _ | BlockDiag b | BlockInterleaved b | SumBatch b => bd_raises b
  | BatchRepeat b _ => if nrows e =? ncols e then bd_raises b else false
  | _ => false
  end.

(* ------------------------------------------------------------------------------------------ *)
(* functions/_matmul.py : Matmul.backward for a matrix right-hand side.
   me = settings.memory_efficient: off -> the operator saved by forward (itself a rebuild) ; on -> rebuilt again *)
Definition matmul_backward (fx : fixes) (e : OpExpr) (rhs G : tensor) (need_args need_rhs : bool)
  : option tensor * list (option tensor) :=
  let op := rebuild fx e (representation e) in
  let arg_grads := if need_args then alg_bd fx op G rhs else map (fun _ => None) (representation e) in
  let rhs_grad :=
    if need_rhs then
      let g := alg_t_matmul op G in
      Some (if length (tshape rhs) <? length (tshape g)            (* rhs_grad.reshape(-1, *rhs_shape).sum(0) *)
            then (if fx_collapse fx then sum_to g (tshape rhs) else collapse_view g (tshape rhs))
            else g)
    else None in
  (rhs_grad, arg_grads).

End Model.
