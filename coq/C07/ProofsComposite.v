(* C07 — how the weight W = U V^T is transported through the composite classes (Sum, Matmul, ConstantMul, ...):
   the hand-written overrides hand exactly the transported weight to their children. *)
From Coq Require Import List Arith Bool Lia ZArith Ring.
Import ListNotations.
Require Import C07.Model C07.ProofsBase C07.ProofsRouting C07.ProofsSizes C07.ProofsW.

Section Comp.
Context {K : RingOps} {Kth : RingLaws K}.
Add Ring Kring : (@ring_laws K Kth).
Notation T := (car K).
Notation zero := (r0 K).
Notation one := (r1 K).
Infix "+!" := (radd K) (at level 50, left associativity).
Infix "*!" := (rmul K) (at level 40, left associativity).
Infix "-!" := (rsub K) (at level 50, left associativity).
Notation rsum := (rsum K).
Notation bsum := (bsum K).
Notation OpExpr := (OpExpr K).
Notation tensor := (tensor K).
Notation bget := (bget K).
Notation tat := (tat K).
Notation tshape := (tshape K).

Lemma bilW_add B M N W F G :
  bilW B M N W (fun b i j => F b i j +! G b i j) = bilW B M N W F +! bilW B M N W G.
Proof.
  unfold bilW. rewrite <- bsum_add. apply bsum_ext. intros b _.
  rewrite <- rsum_add. apply rsum_ext. intros i _.
  rewrite <- rsum_add. apply rsum_ext. intros j _. ring.
Qed.

Lemma rsum3_rot a b c (g : nat -> nat -> nat -> T) :
  rsum a (fun i => rsum b (fun j => rsum c (fun k => g i j k))) =
  rsum c (fun k => rsum b (fun j => rsum a (fun i => g i j k))).
Proof.
  transitivity (rsum a (fun i => rsum c (fun k => rsum b (fun j => g i j k)))).
  - apply rsum_ext. intros i _. apply rsum_swap.
  - rewrite rsum_swap. apply rsum_ext. intros k _. apply rsum_swap.
Qed.

(* ---- shapes of the tensors handed to the children *)
Lemma alg_matmul_shape e X C B : tshape X = C :: ncols K e :: B -> expandable (bshape K e) B = true ->
  tshape (alg_matmul K e X) = C :: nrows K e :: B.
Proof. intros HX He. unfold alg_matmul, batch2. rewrite HX. cbn. rewrite bcs_expandable_l by auto. reflexivity. Qed.

Lemma alg_t_matmul_shape e X C B : tshape X = C :: nrows K e :: B -> expandable (bshape K e) B = true ->
  tshape (alg_t_matmul K e X) = C :: ncols K e :: B.
Proof. intros HX He. unfold alg_t_matmul, batch2. rewrite HX. cbn. rewrite bcs_expandable_l by auto. reflexivity. Qed.

Lemma alg_matmul_at e X C B c i b : tshape X = C :: ncols K e :: B -> expandable (bshape K e) B = true ->
  c < C -> i < nrows K e -> valid b B ->
  bget (alg_matmul K e X) (c :: i :: b) = rsum (ncols K e) (fun k => den K e b i k *! bget X (c :: k :: b)).
Proof.
  intros HX He Hc Hi Hb. rewrite bget_valid.
  - reflexivity.
  - rewrite (alg_matmul_shape e X C B) by auto. simpl. auto.
Qed.

Lemma alg_t_matmul_at e X C B c j b : tshape X = C :: nrows K e :: B -> expandable (bshape K e) B = true ->
  c < C -> j < ncols K e -> valid b B ->
  bget (alg_t_matmul K e X) (c :: j :: b) = rsum (nrows K e) (fun i => den K e b i j *! bget X (c :: i :: b)).
Proof.
  intros HX He Hc Hj Hb. rewrite bget_valid.
  - reflexivity.
  - rewrite (alg_t_matmul_shape e X C B) by auto. simpl. auto.
Qed.

(* ---- MatmulLinearOperator: left factor gets (U, R V), right factor gets (L^T U, V) *)
Lemma matmul_W_l (r : OpExpr) B D M Kc U V (F : list nat -> nat -> nat -> T) :
  tshape V = D :: ncols K r :: B -> expandable (bshape K r) B = true -> nrows K r = Kc ->
  bilW B M (ncols K r) (Wt U V D) (fun b i j => rsum Kc (fun k => F b i k *! den K r b k j))
  = bilW B M Kc (Wt U (alg_matmul K r V) D) F.
Proof.
  intros HV He HK. unfold bilW. apply bsum_ext. intros b Hb. apply rsum_ext. intros i Hi.
  transitivity (rsum Kc (fun k => rsum (ncols K r) (fun j => Wt U V D b i j *! (F b i k *! den K r b k j)))).
  - rewrite rsum_swap. apply rsum_ext. intros j _. rewrite <- rsum_mul_l. reflexivity.
  - apply rsum_ext. intros k Hk. unfold Wt.
    transitivity (rsum D (fun d => rsum (ncols K r) (fun j => bget U (d :: i :: b) *! bget V (d :: j :: b) *! (F b i k *! den K r b k j)))).
    + rewrite rsum_swap. apply rsum_ext. intros j _. rewrite <- rsum_mul_r. reflexivity.
    + rewrite <- rsum_mul_r. apply rsum_ext. intros d Hd.
      rewrite (alg_matmul_at r V D B) by (auto; lia).
      transitivity (rsum (ncols K r) (fun j => (bget U (d :: i :: b) *! F b i k) *! (den K r b k j *! bget V (d :: j :: b)))).
      * apply rsum_ext. intros j _. ring.
      * rewrite rsum_mul_l. ring.
Qed.

Lemma matmul_W_r (l : OpExpr) B D N Kc U V (F : list nat -> nat -> nat -> T) :
  tshape U = D :: nrows K l :: B -> expandable (bshape K l) B = true -> ncols K l = Kc ->
  bilW B (nrows K l) N (Wt U V D) (fun b i j => rsum Kc (fun k => den K l b i k *! F b k j))
  = bilW B Kc N (Wt (alg_t_matmul K l U) V D) F.
Proof.
  intros HU He HK. unfold bilW. apply bsum_ext. intros b Hb.
  transitivity (rsum Kc (fun k => rsum N (fun j => rsum (nrows K l) (fun i => Wt U V D b i j *! (den K l b i k *! F b k j))))).
  - rewrite <- rsum3_rot. apply rsum_ext. intros i _. apply rsum_ext. intros j _. rewrite <- rsum_mul_l. reflexivity.
  - apply rsum_ext. intros k Hk. apply rsum_ext. intros j Hj. unfold Wt.
    transitivity (rsum D (fun d => rsum (nrows K l) (fun i => bget U (d :: i :: b) *! bget V (d :: j :: b) *! (den K l b i k *! F b k j)))).
    + rewrite rsum_swap. apply rsum_ext. intros i _. rewrite <- rsum_mul_r. reflexivity.
    + rewrite <- rsum_mul_r. apply rsum_ext. intros d Hd.
      rewrite (alg_t_matmul_at l U D B) by (auto; lia).
      transitivity (rsum (nrows K l) (fun i => (den K l b i k *! bget U (d :: i :: b)) *! (bget V (d :: j :: b) *! F b k j))).
      * apply rsum_ext. intros i _. ring.
      * rewrite rsum_mul_r. ring.
Qed.

(* ---- ConstantMulLinearOperator *)
Lemma bcs_cons_11 D M B cs : expandable cs B = true -> bcs (D :: M :: B) (1 :: 1 :: cs) = D :: M :: B.
Proof.
  intros He. unfold bcs. cbn [broadcast_shapes]. rewrite broadcast_shapes_expandable_r by auto.
  destruct (Nat.eqb_spec M 1) as [->|HM]; destruct (Nat.eqb_spec D 1) as [->|HD]; reflexivity.
Qed.

Lemma cmul_left_shape c U D M B : tshape U = D :: M :: B -> expandable (tshape c) B = true ->
  tshape (cmul_left K c U) = D :: M :: B.
Proof. intros HU He. unfold cmul_left. cbn. rewrite HU. apply bcs_cons_11; auto. Qed.

Lemma cmul_W_base c B D M N U V (F : list nat -> nat -> nat -> T) :
  tshape U = D :: M :: B -> expandable (tshape c) B = true ->
  bilW B M N (Wt U V D) (fun b i j => F b i j *! bget c b) = bilW B M N (Wt (cmul_left K c U) V D) F.
Proof.
  intros HU He. unfold bilW. apply bsum_ext. intros b Hb. apply rsum_ext. intros i Hi. apply rsum_ext. intros j Hj.
  unfold Wt. rewrite <- !rsum_mul_r. apply rsum_ext. intros d Hd.
  rewrite (bget_valid (cmul_left K c U)) by (rewrite (cmul_left_shape c U D M B) by auto; simpl; auto).
  unfold cmul_left. cbn [Model.tat skipn]. ring.
Qed.

End Comp.
