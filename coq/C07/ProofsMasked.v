(* C07 — MaskedLinearOperator._bilinear_derivative: `_expand` of both vector blocks (zeros with the masked rows filled)
   transports the weight to the base operator; the two masks get None. *)
From Coq Require Import List Arith Bool Lia ZArith Ring.
Import ListNotations.
Require Import C07.Model C07.ProofsBase C07.ProofsRouting C07.ProofsSizes C07.ProofsW C07.ProofsLeaf C07.ProofsToeplitz
  C07.ProofsComposite C07.ProofsMain.

Section Masked.
Context {K : RingOps} {Kth : RingLaws K}.
Add Ring Kring : (@ring_laws K Kth).
Notation T := (car K).
Notation zero := (r0 K).
Infix "+!" := (radd K) (at level 50, left associativity).
Infix "*!" := (rmul K) (at level 40, left associativity).
Infix "-!" := (rsub K) (at level 50, left associativity).
Notation rsum := (rsum K).
Notation bsum := (bsum K).
Notation OpExpr := (OpExpr K).
Notation tensor := (tensor K).
Notation bget := (bget K).
Notation tat := (tat K).
Notation tshape := (tshape K).
Notation nrows := (nrows K).
Notation ncols := (ncols K).
Notation bshape := (bshape K).
Notation nleaves := (nleaves K).
Notation perturb := (perturb K).
Notation den := (den K).

(* summing over the positions of a mask = summing over the selected elements *)
Lemma mask_reindex (mask : list bool) : forall (g : nat -> nat -> T),
  rsum (length mask) (fun r => if nth r mask false then g (rank_of mask r) r else zero)
  = rsum (count_true mask) (fun i => g i (sel mask i)).
Proof.
  induction mask as [|hd tl IH]; intros g; [reflexivity|].
  cbn [length]. rewrite rsum_S_front.
  destruct hd.
  - change (count_true (true :: tl)) with (S (count_true tl)). rewrite rsum_S_front.
    cbn [nth rank_of sel]. f_equal.
    rewrite <- (IH (fun i r => g (S i) (S r))). apply rsum_ext. intros r _. reflexivity.
  - change (count_true (false :: tl)) with (count_true tl).
    cbn [nth rank_of sel].
    rewrite <- (IH (fun i r => g i (S r))).
    transitivity (zero +! rsum (length tl) (fun r => if nth r tl false then g (rank_of tl r) (S r) else zero)); [|ring].
    f_equal.
Qed.

Lemma expand_mask_shape X mask D M B : tshape X = D :: M :: B -> tshape (expand_mask K X mask) = D :: length mask :: B.
Proof. intros H. unfold expand_mask, batch2. rewrite H. reflexivity. Qed.

Lemma expand_mask_at X mask D M B d r b : tshape X = D :: M :: B -> d < D -> r < length mask -> valid b B ->
  bget (expand_mask K X mask) (d :: r :: b) = if nth r mask false then bget X (d :: rank_of mask r :: b) else zero.
Proof.
  intros H Hd Hr Hb. rewrite bget_valid by (rewrite (expand_mask_shape X mask D M B H); simpl; auto). reflexivity.
Qed.

Lemma masked_W rm cm B D U V (F : list nat -> nat -> nat -> T) :
  tshape U = D :: count_true rm :: B -> tshape V = D :: count_true cm :: B ->
  bilW B (count_true rm) (count_true cm) (Wt U V D) (fun b i j => F b (sel rm i) (sel cm j))
  = bilW B (length rm) (length cm) (Wt (expand_mask K U rm) (expand_mask K V cm) D) F.
Proof.
  intros HU HV. unfold bilW. apply bsum_ext. intros b Hb.
  rewrite <- (mask_reindex rm (fun i r => rsum (count_true cm) (fun j => Wt U V D b i j *! F b r (sel cm j)))).
  apply rsum_ext. intros r Hr.
  destruct (nth r rm false) eqn:Er.
  - rewrite <- (mask_reindex cm (fun j s => Wt U V D b (rank_of rm r) j *! F b r s)).
    apply rsum_ext. intros s Hs. unfold Wt.
    destruct (nth s cm false) eqn:Es.
    + f_equal. apply rsum_ext. intros d Hd.
      rewrite (expand_mask_at U rm D _ B d r b HU Hd Hr Hb). rewrite (expand_mask_at V cm D _ B d s b HV Hd Hs Hb).
      rewrite Er, Es. reflexivity.
    + rewrite rsum_zero; [ring|]. intros d Hd. rewrite (expand_mask_at V cm D _ B d s b HV Hd Hs Hb). rewrite Es. ring.
  - symmetry. apply rsum_zero. intros s Hs. unfold Wt. rewrite rsum_zero; [ring|]. intros d Hd.
    rewrite (expand_mask_at U rm D _ B d r b HU Hd Hr Hb). rewrite Er. ring.
Qed.

Lemma coeff_Masked fx base rm cm :
  wf (Masked K base rm cm) -> id_ok fx base -> coeff_ok fx base -> coeff_ok fx (Masked K base rm cm).
Proof.
  intros Hwf Hib IHb B D U V k t rg delta g HU HV He Hs Hrep Hd Hslot.
  cbn [wf] in Hwf. destruct Hwf as (Hwb & Hrm & Hcm).
  cbn [Model.nrows Model.ncols] in HU, HV. cbn [Model.bshape] in He. cbn [csafe] in Hs.
  cbn [Model.representation] in Hrep. cbn [Model.alg_bd] in Hslot.
  destruct (Nat.ltb_spec k (nleaves base)) as [Hk|Hk].
  - rewrite nth_error_app1 in Hrep by exact Hk.
    rewrite nth_error_app1 in Hslot by (rewrite alg_bd_length by exact Hib; exact Hk).
    cbn [Model.perturb]. replace (k <? nleaves base) with true by (symmetry; apply Nat.ltb_lt; exact Hk).
    rewrite bil_diff by reflexivity.
    cbn [Model.nrows Model.ncols Model.den].
    rewrite (masked_W rm cm B D U V (fun b i j => den (perturb base k delta) b i j -! den base b i j)) by auto.
    rewrite Hrm, Hcm.
    rewrite <- (bil_diff base (perturb base k delta) B D) by (apply nrows_perturb || apply ncols_perturb).
    eapply IHb; eauto.
    + rewrite <- Hrm. eapply expand_mask_shape; eauto.
    + rewrite <- Hcm. eapply expand_mask_shape; eauto.
  - rewrite nth_error_app2 in Hrep by exact Hk. fold (nleaves base) in Hrep.
    destruct (k - nleaves base) as [|[|q]]; simpl in Hrep; try discriminate. destruct q; discriminate.
Qed.

End Masked.
