(* C09 — what survives a breakdown: the prefix of a column that was computed before its first vanishing beta.
   In a batch (or with several start vectors) the loop only stops when ALL betas are small, so one column may
   exhaust its Krylov space at step w while the others keep the loop going.  The vectors q_0 .. q_{w-1} of that
   column and the leading w x w block of its T are then exactly what a stand-alone run would have produced:
   orthonormal, T_w = Q_w^T A Q_w, three-term relation; and when beta_{w-1} = 0 the space they span is
   A-invariant: A Q_w = Q_w T_w, i.e. Q_w T_w Q_w^T reproduces A on the Krylov space. *)
From mathcomp Require Import all_ssreflect all_algebra.
From mathcomp Require Import zify.
Require Import C09.Model C09.ProofsGen C09.ProofsAlg.
Set Implicit Arguments.
Unset Strict Implicit.
Unset Printing Implicit Defensive.
Import Order.Theory GRing.Theory Num.Theory.
Local Open Scope ring_scope.

Section Prefix.
Variable F : rcfType.
Notation ArR := (ArR F).

Section Column.
Variables (n C num_iter : nat) (mm : cols F -> cols F) (tol : F -> bool) (brk : F) (n_extra : nat).
Variable c : nat.
Hypothesis hc : (c < C)%N.
Variable Am : 'M[F]_n.
Hypothesis mm_lin : forall X, cv n (mm X) c = Am *m cv n X c.
Hypothesis Am_sym : Am^T = Am.

Notation body := (lz_body ArR n C num_iter mm tol brk n_extra).
Notation loop := (lz_loop ArR n C num_iter mm tol brk n_extra).
Notation qv := (qv n c).
Notation al := (al c).
Notation be := (be c).
Notation ON := (ON n c).
Notation G := (G c).
Notation AR := (@AR F n c Am).

(* the three-term relation of vector j when beta_j vanished: A q_j = beta_{j-1} q_{j-1} + alpha_j q_j *)
Definition AR0 (j : nat) (st : lz_state F) :=
  Am *m qv st j = (if j is j'.+1 then be st j' *: qv st j' else 0) + al st j *: qv st j.

(* state at the entry of iteration k: everything about the first w <= k+1 vectors, guarded by their betas *)
Definition INV (k : nat) (st : lz_state F) :=
  forall w, (0 < w)%N -> (w <= k.+1)%N -> G w st ->
    [/\ ON w st, AR w st,
        (forall j, (j < w)%N -> (j < k)%N -> al st j = dotv (qv st j) (Am *m qv st j)) &
        ((w <= k)%N -> be st w.-1 = 0 -> AR0 w.-1 st)].

(* state after the body of iteration k (alpha_k written as well) *)
Definition FIN (k : nat) (st : lz_state F) :=
  forall w, (0 < w)%N -> (w <= k.+1)%N -> G w st ->
    [/\ ON w st, AR w st,
        (forall j, (j < w)%N -> al st j = dotv (qv st j) (Am *m qv st j)) &
        ((w <= k)%N -> be st w.-1 = 0 -> AR0 w.-1 st)].

Lemma AR0_frame k st j : (j < k)%N -> AR0 j st -> AR0 j (body k st).1.
Proof.
move=> hj; rewrite /AR0.
have h1 : (j <= k)%N by lia.
rewrite (qv_frame n num_iter mm tol brk n_extra hc st h1) (al_frame n num_iter mm tol brk n_extra hc st hj) => ->.
congr (_ + _).
case: j hj h1 => [|j'] hj h1 //.
have h2 : (j' < k)%N by lia.
have h3 : (j' <= k)%N by lia.
by rewrite (be_frame n num_iter mm tol brk n_extra hc st h2) (qv_frame n num_iter mm tol brk n_extra hc st h3).
Qed.

Lemma G_frame k st w : (w <= k.+1)%N -> G w (body k st).1 -> G w st.
Proof.
move=> hw HG j hj.
have hjk : (j < k)%N by lia.
by rewrite -(be_frame n num_iter mm tol brk n_extra hc st hjk); exact: HG.
Qed.

Lemma sb0_r1 k st : (0 < k)%N -> t_sym ArR st.2 -> ON k.+1 st -> AR k.+1 st ->
  s_b n mm c k st = 0 -> s_r1 n mm c k st = 0.
Proof.
move=> k0 Hs Hon Har /eqP.
rewrite /s_b sqrtr_eq0 => Hle.
have /eqP H0 : dotv (s_r2 n mm c k st) (s_r2 n mm c k st) == 0.
  by rewrite eq_le Hle dotv_ge0.
move/eqP: H0; rewrite dotv_eq0 => /eqP.
by rewrite (s_r2_r1 hc mm_lin Am_sym k0 Hs Hon Har).
Qed.

(* the relation written by the body of iteration k when its beta vanishes *)
Lemma body_AR0 k st : (0 < k)%N -> (k.+1 < num_iter)%N -> t_sym ArR st.2 -> ON k.+1 st -> AR k.+1 st ->
  be (body k st).1 k = 0 -> AR0 k (body k st).1.
Proof.
move=> k0 hk Hs Hon Har.
rewrite (body_beta n mm tol brk n_extra hc st hk) => Hb.
have H1 := sb0_r1 k0 Hs Hon Har Hb.
rewrite /AR0 (qv_frame n num_iter mm tol brk n_extra hc st (leqnn k)) (body_alpha n num_iter mm tol brk n_extra hc k st).
move: H1; rewrite /s_r1 /s_r (s_wE mm_lin).
case: k k0 {hk Hon Har Hb} => [//|k'] _ /=.
have h2 : (k' < k'.+1)%N by [].
have h3 : (k' <= k'.+1)%N by [].
rewrite (be_frame n num_iter mm tol brk n_extra hc st h2) (qv_frame n num_iter mm tol brk n_extra hc st h3).
rewrite Hs -/(be st k') => /eqP; rewrite subr_eq0 subr_eq => /eqP ->.
by rewrite addrC.
Qed.

Lemma body_FIN k st : (0 < k)%N -> t_sym ArR st.2 -> INV k st -> FIN k (body k st).1.
Proof.
move=> k0 Hs HI w w0 hw HG.
have [Hon Har Hal H0] := HI w w0 hw (G_frame hw HG).
split.
- exact: (ON_frame num_iter mm tol brk n_extra hc hw Hon).
- exact: (AR_frame num_iter mm tol brk n_extra hc hw Har).
- move=> j hj.
  have hjk : (j <= k)%N by lia.
  rewrite (qv_frame n num_iter mm tol brk n_extra hc st hjk).
  have [Ej|Nj] := eqVneq j k.
    have Ew : w = k.+1 by lia.
    rewrite Ej (body_alpha n num_iter mm tol brk n_extra hc k st).
    by rewrite (s_aE hc mm_lin k0 Hs) // -Ew.
  have hjk' : (j < k)%N by lia.
  by rewrite (al_frame n num_iter mm tol brk n_extra hc st hjk') Hal.
- move=> hwk.
  have hwk' : (w.-1 < k)%N by lia.
  rewrite (be_frame n num_iter mm tol brk n_extra hc st hwk') => Hb.
  exact: (AR0_frame hwk' (H0 hwk Hb)).
Qed.

Lemma body_INV k st : (0 < k)%N -> (k.+1 < num_iter)%N -> t_sym ArR st.2 -> INV k st -> INV k.+1 (body k st).1.
Proof.
move=> k0 hk Hs HI w w0 hw HG.
have HF := body_FIN k0 Hs HI.
have [Ew|Nw] := eqVneq w k.+2.
  (* the new vector *)
  have HG1 : G k.+1 (body k st).1 by move=> j hj; apply: HG; lia.
  have [Hon1 Har1 _ _] := HI k.+1 (ltn0Sn k) (leqnn _) (G_frame (leqnn _) HG1).
  have [_ _ H3] := body_AR_inv num_iter tol brk n_extra hc mm_lin Am_sym k0 Hs (fun _ => conj Hon1 Har1).
  have [Hon2 Har2] : ON k.+2 (body k st).1 /\ AR k.+2 (body k st).1 by apply: H3 => //; rewrite -Ew.
  have [_ _ Hal _] := HF k.+1 (ltn0Sn k) (leqnn _) HG1.
  rewrite Ew; split=> //.
  - by move=> j _ hj; exact: Hal.
  - by rewrite ltnn.
have hw' : (w <= k.+1)%N by lia.
have [Hon Har Hal H0] := HF w w0 hw' HG.
split=> //.
- by move=> j hj _; exact: Hal.
- move=> _.
  have [Ew|Nw'] := eqVneq w k.+1; last by apply: H0; lia.
  rewrite Ew /= => Hb.
  have [Hon1 Har1 _ _] := HI k.+1 (ltn0Sn k) (leqnn _) (G_frame (leqnn _) (eq_ind _ (fun w => G w _) HG _ Ew)).
  exact: body_AR0.
Qed.

Lemma loop_FIN fuel k st :
  (0 < fuel)%N -> (k + fuel = num_iter)%N -> (0 < k)%N -> t_sym ArR st.2 -> INV k st ->
  let r := loop fuel k st in FIN r.2 r.1.
Proof.
move=> f0 Hk k0 Hs HI.
have := @lz_loop_rule _ ArR n C num_iter mm tol brk n_extra
          (fun k st => [/\ (0 < k)%N, t_sym ArR st.2 & INV k st]) (fun k st _ => FIN k st)
          _ fuel k st f0 Hk k0 (And3 k0 Hs HI).
case; last by move=> b [].
move=> k' st' _ kn' [k0' Hs' HI']; split; first exact: body_FIN.
move=> hk; split=> //; first exact: body_sym.
exact: body_INV.
Qed.

Notation st0 := (lz_init ArR n C num_iter mm).

Lemma init_INV init : cv n init c != 0 -> INV 1 (st0 init).
Proof.
move=> Hv w w0 hw HG.
have Hvv : dotv (i_v n c init) (i_v n c init) != 0 by rewrite dotv_eq0.
have H00 : dotv (i_q0 n c init) (i_q0 n c init) = 1 by exact: normalize_unit.
have Ew : w = 1%N \/ w = 2%N by lia.
have Hw0 : Am *m i_q0 n c init = i_w n C mm c init.
  by rewrite /i_w mm_lin (Ecdiv n hc) (Ecnorm n hc).
have Hal0 : al (st0 init) 0 = dotv (qv (st0 init) 0) (Am *m qv (st0 init) 0).
  by rewrite (init_alpha n num_iter mm hc) (init_q0 n num_iter mm hc) Hw0.
case: Ew => Ew; rewrite Ew in HG *.
  split.
  - by move=> [|i] [|j] // _ _; rewrite (init_q0 n num_iter mm hc) H00.
  - by [].
  - by move=> [|j].
  - move=> _ /=; rewrite (init_beta n num_iter mm hc) /AR0 => /eqP.
    rewrite /i_b sqrtr_eq0 => Hle.
    have /eqP : dotv (i_r1 n C mm c init) (i_r1 n C mm c init) == 0 by rewrite eq_le Hle dotv_ge0.
    move/eqP; rewrite dotv_eq0 /i_r1 subr_eq0 => /eqP E.
    by rewrite (init_q0 n num_iter mm hc) (init_alpha n num_iter mm hc) add0r Hw0.
split.
- exact: (init_ON hc Hv HG).
- exact: (init_AR hc mm_lin Hv HG).
- by move=> [|j].
- by [].
Qed.


(* ---------------------------------------------------------------------------------------------- *)
(* Per-member independence.  The REFERENCE recurrence: Lanczos for ONE symmetric matrix Am and ONE start vector v, on
   MathComp column vectors -- a function of (Am, v) and nothing else.  State after k steps: (q_k, q_{k-1}, beta_{k-1}). *)
Section Reference.
Variable v : 'cV[F]_n.

Fixpoint rstate (k : nat) : 'cV[F]_n * 'cV[F]_n * F :=
  if k is k'.+1 then
    let: (qk, qp, bp) := rstate k' in
    let r := Am *m qk - bp *: qp in
    let a := dotv qk r in
    let r1 := r - a *: qk in
    let b := Num.sqrt (dotv r1 r1) in
    (b^-1 *: r1, qk, b)
  else ((Num.sqrt (dotv v v))^-1 *: v, 0, 0).
Definition rq (k : nat) : 'cV[F]_n := (rstate k).1.1.
Definition rqp (k : nat) : 'cV[F]_n := (rstate k).1.2.
Definition rbp (k : nat) : F := (rstate k).2.
Definition ra (k : nat) : F := dotv (rq k) (Am *m rq k - rbp k *: rqp k).        (* alpha_k *)
Definition rr1 (k : nat) : 'cV[F]_n := Am *m rq k - rbp k *: rqp k - ra k *: rq k.
Definition rb (k : nat) : F := Num.sqrt (dotv (rr1 k) (rr1 k)).                    (* beta_k *)

Lemma rstateS k : rstate k.+1 = ((rb k)^-1 *: rr1 k, rq k, rb k).
Proof. by rewrite /rb /rr1 /ra /rq /rqp /rbp /=; case: (rstate k) => [[qk qp] bp]. Qed.
Lemma rqS k : rq k.+1 = (rb k)^-1 *: rr1 k. Proof. by rewrite /rq rstateS. Qed.
Lemma rqpS k : rqp k.+1 = rq k. Proof. by rewrite /rqp rstateS. Qed.
Lemma rbpS k : rbp k.+1 = rb k. Proof. by rewrite /rbp rstateS. Qed.

(* column c of a state agrees with the reference on its first w vectors *)
Definition RINV (k : nat) (st : lz_state F) :=
  forall w, (0 < w)%N -> (w <= k.+1)%N -> G w st ->
    forall j, (j < w)%N ->
      [/\ qv st j = rq j, ((j < k)%N -> al st j = ra j) & ((j.+1 < w)%N -> be st j = rb j)].
Definition RFIN (k : nat) (st : lz_state F) :=
  forall w, (0 < w)%N -> (w <= k.+1)%N -> G w st ->
    forall j, (j < w)%N ->
      [/\ qv st j = rq j, al st j = ra j & ((j.+1 < w)%N -> be st j = rb j)].

(* the quantities of the body of iteration k in terms of the reference *)
Lemma body_ref k st : (0 < k)%N -> t_sym ArR st.2 -> INV k st -> RINV k st -> G k.+1 st ->
  [/\ s_a n mm c k st = ra k, s_r1 n mm c k st = rr1 k & s_r2 n mm c k st = rr1 k].
Proof.
case: k => [//|k'] k0 Hs HI HR HG.
have [Hon Har _ _] := HI k'.+2 (ltn0Sn _) (leqnn _) HG.
have [Ek _ _] := HR k'.+2 (ltn0Sn _) (leqnn _) HG k'.+1 (leqnn _).
have hk1 : (k' < k'.+2)%N by lia.
have [Ek1 _ Eb1] := HR k'.+2 (ltn0Sn _) (leqnn _) HG k' hk1.
have Ebp : tget ArR st.2 k'.+1 k' c = rbp k'.+1 by rewrite Hs -/(be st k') rbpS; apply: Eb1.
have Eqp : qv st k' = rqp k'.+1 by rewrite Ek1 rqpS.
have Ea : s_a n mm c k'.+1 st = ra k'.+1.
  by rewrite /s_a /s_r (s_wE mm_lin) /= Ebp Eqp Ek.
have E1 : s_r1 n mm c k'.+1 st = rr1 k'.+1.
  by rewrite /s_r1 Ea /s_r (s_wE mm_lin) /= Ebp Eqp Ek.
by split=> //; rewrite (s_r2_r1 hc mm_lin Am_sym k0 Hs Hon Har).
Qed.

Lemma body_RFIN k st : (0 < k)%N -> t_sym ArR st.2 -> INV k st -> RINV k st -> RFIN k (body k st).1.
Proof.
move=> k0 Hs HI HR w w0 hw HG j hj.
have HGs := G_frame hw HG.
have [E1 E2 E3] := HR w w0 hw HGs j hj.
have hjk : (j <= k)%N by lia.
split.
- by rewrite (qv_frame n num_iter mm tol brk n_extra hc st hjk).
- have [Ej|Nj] := eqVneq j k.
    have Ew : w = k.+1 by lia.
    rewrite Ej (body_alpha n num_iter mm tol brk n_extra hc k st).
    by have [-> _ _] := body_ref k0 Hs HI HR (eq_ind _ (fun w => G w st) HGs _ Ew).
  have hjk' : (j < k)%N by lia.
  by rewrite (al_frame n num_iter mm tol brk n_extra hc st hjk') E2.
- move=> hj1.
  have hjk' : (j < k)%N by lia.
  by rewrite (be_frame n num_iter mm tol brk n_extra hc st hjk') E3.
Qed.

Lemma body_RINV k st : (0 < k)%N -> (k.+1 < num_iter)%N -> t_sym ArR st.2 -> INV k st -> RINV k st ->
  RINV k.+1 (body k st).1.
Proof.
move=> k0 hk Hs HI HR w w0 hw HG j hj.
have HF := body_RFIN k0 Hs HI HR.
have [Ew|Nw] := eqVneq w k.+2; last first.
  have hw' : (w <= k.+1)%N by lia.
  have [E1 E2 E3] := HF w w0 hw' HG j hj.
  by split.
have HG1 : G k.+1 (body k st).1 by move=> i hi; apply: HG; lia.
have HGs := G_frame (leqnn _) HG1.
have [Hon _ _ _] := HI k.+1 (ltn0Sn k) (leqnn _) HGs.
have [Ea E1 E2] := body_ref k0 Hs HI HR HGs.
have Eb : be (body k st).1 k = rb k.
  by rewrite (body_beta n mm tol brk n_extra hc st hk) /s_b E2.
have Hb : s_b n mm c k st != 0.
  by rewrite -(body_beta n mm tol brk n_extra hc st hk); apply: HG; lia.
have [Ej|Nj] := eqVneq j k.+1.
  rewrite Ej; split.
  - by rewrite (body_newq tol brk n_extra hc hk Hon Hb) /s_r3 /s_b E2 rqS.
  - by rewrite ltnn.
  - by lia.
have hj' : (j < k.+1)%N by lia.
have [F1 F2 F3] := HF k.+1 (ltn0Sn k) (leqnn _) HG1 j hj'.
split=> //.
move=> _; have [Ejk|Njk] := eqVneq j k; first by rewrite Ejk.
by apply: F3; lia.
Qed.

Lemma loop_RFIN fuel k st :
  (0 < fuel)%N -> (k + fuel = num_iter)%N -> (0 < k)%N -> t_sym ArR st.2 -> INV k st -> RINV k st ->
  let r := loop fuel k st in RFIN r.2 r.1.
Proof.
move=> f0 Hk k0 Hs HI HR.
have := @lz_loop_rule _ ArR n C num_iter mm tol brk n_extra
          (fun k st => [/\ (0 < k)%N, t_sym ArR st.2, INV k st & RINV k st]) (fun k st _ => RFIN k st)
          _ fuel k st f0 Hk k0 (And4 k0 Hs HI HR).
case; last by move=> b [].
move=> k' st' _ kn' [k0' Hs' HI' HR']; split; first exact: body_RFIN.
move=> hk; split=> //; [exact: body_sym | exact: body_INV | exact: body_RINV].
Qed.

End Reference.

Lemma stop_RFIN init : cv n init c != 0 -> RFIN (cv n init c) 0 (lz_init_stop ArR n C num_iter mm init).
Proof.
move=> Hv w w0 hw HG j hj.
have Ej : j = 0%N by lia.
have Hw0 : Am *m i_q0 n c init = i_w n C mm c init by rewrite /i_w mm_lin (Ecdiv n hc) (Ecnorm n hc).
rewrite Ej; split.
- by rewrite stop_q0.
- by rewrite stop_alpha // /ra /rq /rqp /rbp /= scale0r subr0 -/(i_q0 n c init) Hw0.
- by lia.
Qed.

Lemma init_RINV init : cv n init c != 0 -> RINV (cv n init c) 1 (lz_init ArR n C num_iter mm init).
Proof.
move=> Hv w w0 hw HG j hj.
have Hw0 : Am *m i_q0 n c init = i_w n C mm c init by rewrite /i_w mm_lin (Ecdiv n hc) (Ecnorm n hc).
have Eq0 : qv (lz_init ArR n C num_iter mm init) 0 = rq (cv n init c) 0 by rewrite (init_q0 n num_iter mm hc).
have Ea0 : i_a n C mm c init = ra (cv n init c) 0.
  by rewrite /ra /rq /rqp /rbp /= scale0r subr0 -/(i_q0 n c init) Hw0.
have Er0 : i_r1 n C mm c init = rr1 (cv n init c) 0.
  by rewrite /rr1 -Ea0 /rq /rqp /rbp /= scale0r subr0 -/(i_q0 n c init) Hw0.
have Ew : w = 1%N \/ w = 2%N by lia.
case: j hj => [|[|j]] hj; last by lia.
  split=> //.
  - by move=> _; rewrite (init_alpha n num_iter mm hc).
  - by move=> _; rewrite (init_beta n num_iter mm hc) /i_b Er0.
split.
- by rewrite (init_q1 n num_iter mm hc) rqS /i_b Er0.
- by [].
- by lia.
Qed.

End Column.

(* ---------------------------------------------------------------------------------------------- *)
(* the returned matrices: the first w columns of Q and the leading w x w block of T *)
Section Final.
Variable g : lz_args F.
Variable o : lz_out F.
Variables (nvec : nat) (init : cols F).
Hypothesis Hrun : lanczos_tridiag ArR g = Ok o.
Hypothesis Hstart : lz_start g = Ok (nvec, init).

Let n := g_n g.
Let B := prodn (g_batch g).
Let C := (B * nvec)%N.
Let num_iter := minn (g_max_iter g) n.
Let r := lz_final ArR g nvec init.
Let m := r.2.+1.

Variable idx : nat.
Hypothesis hidx : (idx < nvec * B)%N.
Let c := col_of B nvec idx.
Variable Am : 'M[F]_n.
Hypothesis mm_lin : forall X, cv n (g_mm g X) c = Am *m cv n X c.
Hypothesis Am_sym : Am^T = Am.
Hypothesis Hv : cv n init c != 0.

Variable w : nat.
Hypothesis w0 : (0 < w)%N.
Hypothesis hw : (w <= m)%N.
Hypothesis HG : forall j, (j.+1 < w)%N -> mget ArR (nth [::] (o_T o) idx) j j.+1 != 0.

Let q (i : nat) := qv n c r.1 i.
Let alf (j : nat) := al c r.1 j.
Let bet (j : nat) := be c r.1 j.
Let Qw := mx_of n w (nth [::] (o_Q o) idx).
Let Tw := mx_of w w (nth [::] (o_T o) idx).

Lemma prefix_facts :
  [/\ ON n c w r.1, @AR F n c Am w r.1,
      (forall j, (j < w)%N -> alf j = dotv (q j) (Am *m q j)) &
      ((w < m)%N -> bet w.-1 = 0 -> AR0 c Am w.-1 r.1)].
Proof.
have hc := col_of_lt hidx.
move: hw HG (fun i j => @final_mxT F g o nvec init Hrun Hstart idx i j hidx); rewrite /alf /q /bet /m /r.
case: (final_cases Hrun Hstart) => [[_ ->]|[_ Hn ->]] /= hw' HG' HT.
  (* stopped after the first step: w = 1 *)
  have Ew : w = 1%N by lia.
  rewrite Ew; split.
  - exact: stop_ON.
  - by [].
  - by move=> [|j] // _; exact: (stop_al num_iter hc mm_lin).
  - by [].
have f0 : (0 < num_iter.-1)%N by lia.
have Hk : (1 + num_iter.-1 = num_iter)%N by lia.
have [Hs _] := init_tm_inv ArR n C num_iter (g_mm g) init.
have HF := @loop_FIN n C num_iter (g_mm g) (lz_gt ArR g) (g_brk g) (g_extra g) c hc Am mm_lin Am_sym
             num_iter.-1 1 _ f0 Hk (ltn0Sn 0) Hs (init_INV hc mm_lin Hv).
set rr := lz_loop _ _ _ _ _ _ _ _ _ _ _ in hw' HG' HT HF *.
have HGw : G c w rr.1.
  move=> j hj; rewrite /be -HT; first exact: HG'.
  - by lia.
  - by lia.
have [H1 H2 H3 H4] := HF w w0 hw' HGw.
by split=> // hwm; apply: H4; lia.
Qed.

(* column c of the final state agrees with the reference recurrence of (Am, start vector of the column) *)
Lemma prefix_ref j : (j < w)%N ->
  [/\ q j = rq Am (cv n init c) j, alf j = ra Am (cv n init c) j &
      ((j.+1 < w)%N -> bet j = rb Am (cv n init c) j)].
Proof.
move=> hj.
have hc := col_of_lt hidx.
move: hw HG (fun i j => @final_mxT F g o nvec init Hrun Hstart idx i j hidx); rewrite /alf /q /bet /m /r.
case: (final_cases Hrun Hstart) => [[_ ->]|[_ Hn ->]] /= hw' HG' HT.
  have HGw : G c w (lz_init_stop ArR n C num_iter (g_mm g) init) by move=> i hi; lia.
  have HS := @stop_RFIN n C num_iter (g_mm g) c hc Am mm_lin init Hv w w0 hw' HGw j hj.
  exact: HS.
have f0 : (0 < num_iter.-1)%N by lia.
have Hk : (1 + num_iter.-1 = num_iter)%N by lia.
have [Hs _] := init_tm_inv ArR n C num_iter (g_mm g) init.
have HF := @loop_RFIN n C num_iter (g_mm g) (lz_gt ArR g) (g_brk g) (g_extra g) c hc Am mm_lin Am_sym (cv n init c)
             num_iter.-1 1 _ f0 Hk (ltn0Sn 0) Hs (init_INV hc mm_lin Hv) (init_RINV hc mm_lin Hv).
set rr := lz_loop _ _ _ _ _ _ _ _ _ _ _ in hw' HG' HT HF *.
have HGw : G c w rr.1.
  move=> i hi; rewrite /be -HT; first exact: HG'.
  - by lia.
  - by lia.
exact: (HF w w0 hw' HGw j hj).
Qed.

Lemma prefix_mxQ (x : 'I_n) (i : 'I_w) : Qw x i = q i x ord0.
Proof.
have [_ _ EQ _] := final_facts Hrun Hstart.
have hi : (i < m)%N by have := ltn_ord i; lia.
by rewrite /Qw EQ nth_mkseq // !mxE mget_mtab.
Qed.

Lemma prefix_colQ (j : 'I_w) : col j Qw = q j.
Proof. by apply/colP => x; rewrite mxE prefix_mxQ. Qed.

Lemma prefix_Tentry (i j : nat) : (i < w)%N -> (j < w)%N ->
  mget ArR (nth [::] (o_T o) idx) i j
  = (if i.+1 == j then bet i else 0) + (if i == j then alf j else 0) + (if i == j.+1 then bet j else 0).
Proof.
move=> hi hj; apply: (final_Tentry Hrun Hstart hidx).
- by rewrite -/r -/m; lia.
- by rewrite -/r -/m; lia.
Qed.

Lemma prefix_orthonormal : Qw^T *m Qw = 1%:M.
Proof.
have [Hon _ _ _] := prefix_facts.
apply/matrixP => i j; rewrite !mxE.
under eq_bigr => x _ do rewrite mxE !prefix_mxQ.
by rewrite -dotvE Hon.
Qed.

Lemma prefix_projection : Qw^T *m Am *m Qw = Tw.
Proof.
have [Hon Har Hal _] := prefix_facts.
have hc := col_of_lt hidx.
apply/matrixP => i j.
rewrite mulmx_entry_dotv !prefix_colQ [RHS]mxE prefix_Tentry //.
have hi := ltn_ord i; have hj := ltn_ord j.
have [hj1|hj1] := ltnP j.+1 w.
  rewrite Har // !dotvDr !dotvZr !Hon //.
  congr (_ + _ + _).
  - case: (nat_of_ord j) hj1 {hj} => [|j'] hj1; first by rewrite dotv0r.
    have hj' : (j' < w)%N by lia.
    rewrite dotvZr Hon // eqSS.
    by case: eqP => [->|_]; rewrite ?mulr1 ?mulr0.
  - by case: eqP => _; rewrite ?mulr1 ?mulr0.
  - by case: eqP => _; rewrite ?mulr1 ?mulr0.
have Ej : nat_of_ord j = w.-1 by lia.
have -> : (i == j.+1 :> nat) = false by lia.
rewrite addr0.
have [Ei|Ni] := eqVneq (nat_of_ord i) (nat_of_ord j).
  have -> : (i.+1 == j :> nat) = false by lia.
  by rewrite add0r Ei Hal.
rewrite addr0 -dotv_mulmx_sym // dotvC Ej.
have hi' : (i < w.-1)%N by lia.
have k0 : (0 < w.-1)%N by lia.
have Ew : w = w.-1.+1 by lia.
have Hon' : ON n c w.-1.+1 r.1 by rewrite -Ew.
have Har' : @AR F n c Am w.-1.+1 r.1 by rewrite -Ew.
by rewrite (AR_dot hc k0 Hon' Har' hi').
Qed.

Lemma prefix_QT_col (j : 'I_w) :
  Qw *m col j Tw
  = (if nat_of_ord j is j'.+1 then bet j' *: q j' else 0) + alf j *: q j
    + (if (j.+1 < w)%N then bet j *: q j.+1 else 0).
Proof.
have hj := ltn_ord j.
apply/colP => x; rewrite [LHS]mxE [RHS]mxE [X in _ = X + _]mxE.
under eq_bigr => i _.
  rewrite [col _ _ _ _]mxE [Tw _ _]mxE prefix_mxQ prefix_Tentry // !mulrDr.
  over.
rewrite !big_split /=.
have P1 : \sum_(i < w) q i x ord0 * (if i.+1 == j :> nat then bet i else 0)
          = (if nat_of_ord j is j'.+1 then bet j' *: q j' else 0) x ord0.
  case: (nat_of_ord j) hj => [|j'] hj.
    by rewrite big1 ?mxE // => i _; rewrite mulr0.
  under eq_bigr => i _ do [rewrite eqSS (fun_if (fun z => q i x ord0 * z)) mulr0].
  have hj' : (j' < w)%N by lia.
  by rewrite (sum_pick w j' (fun i => q i x ord0 * bet i)) hj' [RHS]mxE mulrC.
have P2 : \sum_(i < w) q i x ord0 * (if i == j :> nat then alf j else 0) = (alf j *: q j) x ord0.
  under eq_bigr => i _ do [rewrite (fun_if (fun z => q i x ord0 * z)) mulr0].
  by rewrite (sum_pick w j (fun i => q i x ord0 * alf j)) hj [RHS]mxE mulrC.
have P3 : \sum_(i < w) q i x ord0 * (if i == j.+1 :> nat then bet j else 0)
          = (if (j.+1 < w)%N then bet j *: q j.+1 else 0) x ord0.
  under eq_bigr => i _ do [rewrite (fun_if (fun z => q i x ord0 * z)) mulr0].
  rewrite (sum_pick w j.+1 (fun i => q i x ord0 * bet j)).
  by case: ifP => _; rewrite [RHS]mxE // mulrC.
by rewrite P1 P2 P3.
Qed.

Lemma prefix_arnoldi (j : 'I_w) : (j.+1 < w)%N -> col j (Am *m Qw - Qw *m Tw) = 0.
Proof.
move=> hj1.
have [_ Har _ _] := prefix_facts.
by rewrite linearB /= !col_mul prefix_QT_col hj1 prefix_colQ Har // subrr.
Qed.

(* the Krylov space of the column is exhausted at w: span Q_w is A-invariant *)
Lemma prefix_invariant : (w < m)%N -> mget ArR (nth [::] (o_T o) idx) w.-1 w = 0 -> Am *m Qw = Qw *m Tw.
Proof.
move=> hwm Hb0.
have [_ _ _ H0] := prefix_facts.
have Eb : bet w.-1 = 0.
  rewrite /bet /be -(final_mxT Hrun Hstart hidx); first by rewrite prednK.
  - by rewrite -/r -/m; lia.
  - by rewrite -/r -/m; lia.
have HA := H0 hwm Eb.
apply/eqP; rewrite -subr_eq0; apply/eqP/matrixP => x j; rewrite [RHS]mxE.
have [hj1|hj1] := ltnP j.+1 w.
  by have /colP /(_ x) := prefix_arnoldi hj1; rewrite !mxE.
have Ej : nat_of_ord j = w.-1 by have := ltn_ord j; lia.
have : col j (Am *m Qw - Qw *m Tw) = 0.
  rewrite linearB /= !col_mul prefix_QT_col prefix_colQ.
  have -> : (j.+1 < w)%N = false by lia.
  by rewrite addr0 Ej /q HA subrr.
by move=> /colP /(_ x); rewrite !mxE.
Qed.

End Final.
End Prefix.

(* Theorem (prefix of a column, breakdown inside a batch).  Exact arithmetic; the closure acts on the column as a
   symmetric matrix Am; w <= m vectors of the column whose betas beta_0 .. beta_{w-2} are non-zero.  Then the
   first w columns Q_w of Q are orthonormal, the leading block T_w of T is Q_w^T A Q_w, all columns of
   A Q_w - Q_w T_w but the last vanish; and if beta_{w-1} = 0 (the column's Krylov space is exhausted while
   other columns kept the loop going) then A Q_w = Q_w T_w: Q_w T_w Q_w^T acts as A on span Q_w. *)
Theorem lanczos_breakdown_prefix_rcf (F : rcfType) (g : lz_args F) o nvec init :
  lanczos_tridiag (ArR F) g = Ok o -> lz_start g = Ok (nvec, init) ->
  forall idx, (idx < size (o_Q o))%N ->
    let n := g_n g in let m := o_m o in
    let c := col_of (prodn (g_batch g)) nvec idx in
    let Q := nth [::] (o_Q o) idx in let T := nth [::] (o_T o) idx in
    forall Am : 'M[F]_n,
    (forall X, cv n (g_mm g X) c = Am *m cv n X c) -> Am^T = Am ->
    cv n init c != 0 ->
    forall w, (0 < w <= m)%N ->
    (forall j, (j.+1 < w)%N -> mget (ArR F) T j j.+1 != 0) ->
    let Qw := mx_of n w Q in let Tw := mx_of w w T in
    [/\ Qw^T *m Qw = 1%:M, Qw^T *m Am *m Qw = Tw,
        (forall j : 'I_w, (j.+1 < w)%N -> col j (Am *m Qw - Qw *m Tw) = 0) &
        (w < m)%N -> mget (ArR F) T w.-1 w = 0 ->
          Am *m Qw = Qw *m Tw /\ forall y : 'cV[F]_w, (Qw *m Tw *m Qw^T) *m (Qw *m y) = Am *m (Qw *m y)].
Proof.
move=> Hrun Hstart idx; rewrite (final_size Hrun Hstart).1 => hidx /= Am Hlin Hsym Hv w.
have [_ Em _ _] := final_facts Hrun Hstart.
rewrite Em => /andP[w0 hw] HG.
have H1 := prefix_orthonormal Hrun Hstart hidx Hlin Hsym Hv w0 hw HG.
split=> //.
- exact: (prefix_projection Hrun Hstart hidx Hlin Hsym Hv w0 hw HG).
- by move=> j hj; exact: (prefix_arnoldi Hrun Hstart hidx Hlin Hsym Hv w0 hw HG).
- move=> hwm Hb0.
  have H4 := prefix_invariant Hrun Hstart hidx Hlin Hsym Hv w0 hw HG hwm Hb0.
  by split=> // y; exact: invariant_mx.
Qed.

(* Theorem (per-member independence).  Exact arithmetic; the closure acts on the column as a symmetric matrix Am.
   The first w Lanczos vectors of the column (w <= m, betas beta_0 .. beta_{w-2} non-zero) and the leading w x w block
   of its T ARE the reference recurrence [rq / ra / rb] of (Am, start vector of that column): they do not depend on
   the other members of the batch, the other start vectors, the batch shape, the budget or the tolerances. *)
Theorem lanczos_member_independence_rcf (F : rcfType) (g : lz_args F) o nvec init :
  lanczos_tridiag (ArR F) g = Ok o -> lz_start g = Ok (nvec, init) ->
  forall idx, (idx < size (o_Q o))%N ->
    let n := g_n g in let m := o_m o in
    let c := col_of (prodn (g_batch g)) nvec idx in
    let Q := nth [::] (o_Q o) idx in let T := nth [::] (o_T o) idx in
    forall Am : 'M[F]_n,
    (forall X, cv n (g_mm g X) c = Am *m cv n X c) -> Am^T = Am ->
    cv n init c != 0 ->
    forall w, (0 < w <= m)%N ->
    (forall j, (j.+1 < w)%N -> mget (ArR F) T j j.+1 != 0) ->
    let v := cv n init c in
    (forall (x : 'I_n) (j : 'I_w), mx_of n w Q x j = rq Am v j x ord0) /\
    (forall i j : 'I_w, mx_of w w T i j
       = (if i.+1 == j :> nat then rb Am v i else 0) + (if i == j :> nat then ra Am v j else 0)
         + (if i == j.+1 :> nat then rb Am v j else 0)).
Proof.
move=> Hrun Hstart idx; rewrite (final_size Hrun Hstart).1 => hidx /= Am Hlin Hsym Hv w.
have [_ Em _ _] := final_facts Hrun Hstart.
rewrite Em => /andP[w0 hw] HG.
have Href := prefix_ref Hrun Hstart hidx Hlin Hsym Hv w0 hw HG.
split.
  move=> x j; rewrite (prefix_mxQ Hrun Hstart hidx Hv w0 hw).
  by have [-> _ _] := Href j (ltn_ord j).
move=> i j; rewrite mxE (prefix_Tentry Hrun Hstart hidx Hv w0 hw) //.
have hi := ltn_ord i; have hj := ltn_ord j.
have [_ -> _] := Href j hj.
congr (_ + _ + _).
- case: eqP => // E; have [_ _ ->] := Href i hi => //; lia.
- case: eqP => // E; have [_ _ ->] := Href j hj => //; lia.
Qed.

(* ---------------------------------------------------------------------------------------------- *)
(* The classical form of the Lanczos relation:  A Q - Q T = beta_k q_{k+1} e_k^T  with q_{k+1} a unit vector
   orthogonal to the columns of Q (beta_k = the norm of the last column of A Q - Q T, q_{k+1} that column
   normalised; when the loop left through the `break`, they are the beta_curr / r_vec the last body computed and
   the trimming dropped).  Pure matrix algebra on top of the projection theorem. *)
Section Residual.
Variable F : rcfType.

Lemma arnoldi_residual_mx (n m : nat) (Q : 'M[F]_(n, m)) (T : 'M[F]_m) (A : 'M[F]_n) (jl : 'I_m) :
  jl.+1 = m -> Q^T *m Q = 1%:M -> Q^T *m A *m Q = T ->
  (forall j : 'I_m, (j.+1 < m)%N -> col j (A *m Q - Q *m T) = 0) ->
  let r := col jl (A *m Q - Q *m T) in
  let beta := Num.sqrt (dotv r r) in
  let qn := beta^-1 *: r in
  [/\ A *m Q - Q *m T = beta *: (qn *m delta_mx ord0 jl),
      Q^T *m qn = 0 /\ (beta != 0 -> dotv qn qn = 1),
      0 <= beta &
      r = (1%:M - Q *m Q^T) *m A *m col jl Q].
Proof.
move=> Ejl HQ HT Hcols r beta qn.
have Hr0 : Q^T *m r = 0.
  by rewrite /r -col_mul mulmxBr !mulmxA HT HQ mul1mx subrr col0.
have Hbr : beta *: qn = r.
  rewrite /qn scalerA.
  have [/eqP E0|N0] := boolP (beta == 0); last by rewrite divff // scale1r.
  rewrite E0 mul0r scale0r.
  move/eqP: E0; rewrite /beta sqrtr_eq0 => Hle.
  have : dotv r r == 0 by rewrite eq_le Hle dotv_ge0.
  by rewrite dotv_eq0 => /eqP ->.
split.
- rewrite scalemxAl Hbr.
  apply/matrixP => x j; rewrite [RHS]mxE big_ord1 [delta_mx _ _ _ _]mxE eqxx /=.
  have [Ej|Nj] := eqVneq j jl; first by rewrite Ej /= mulr1 /r [RHS]mxE.
  rewrite /= mulr0.
  have hj : (j.+1 < m)%N.
    have := ltn_ord j; have : nat_of_ord j != nat_of_ord jl by apply: contraNneq Nj => E; apply/eqP; exact: val_inj.
    lia.
  by have /colP /(_ x) := Hcols j hj; rewrite !mxE.
- split; first by rewrite /qn -scalemxAr Hr0 scaler0.
  move=> N0; rewrite /qn /beta; apply: normalize_unit.
  by move: N0; rewrite /beta sqrt_dotv_neq0.
- exact: sqrtr_ge0.
- by rewrite /r linearB /= !col_mul -HT col_mul !mulmxBl mul1mx !mulmxA.
Qed.

End Residual.

Theorem lanczos_arnoldi_residual_rcf (F : rcfType) (g : lz_args F) o nvec init :
  lanczos_tridiag (ArR F) g = Ok o -> lz_start g = Ok (nvec, init) ->
  forall idx, (idx < size (o_Q o))%N ->
    let n := g_n g in let m := o_m o in
    let c := col_of (prodn (g_batch g)) nvec idx in
    let Q := nth [::] (o_Q o) idx in let T := nth [::] (o_T o) idx in
    forall Am : 'M[F]_n,
    (forall X, cv n (g_mm g X) c = Am *m cv n X c) -> Am^T = Am ->
    cv n init c != 0 ->
    (forall j, (j.+1 < m)%N -> mget (ArR F) T j j.+1 != 0) ->
    let Qm := mx_of n m Q in let Tm := mx_of m m T in
    forall jl : 'I_m, jl.+1 = m ->
    let r := col jl (Am *m Qm - Qm *m Tm) in
    let beta := Num.sqrt (dotv r r) in
    let qn := beta^-1 *: r in
    [/\ Am *m Qm - Qm *m Tm = beta *: (qn *m delta_mx ord0 jl),
        Qm^T *m qn = 0 /\ (beta != 0 -> dotv qn qn = 1),
        0 <= beta &
        r = (1%:M - Qm *m Qm^T) *m Am *m col jl Qm].
Proof.
move=> Hrun Hstart idx hidx /= Am Hlin Hsym Hv HG jl Ejl.
have [H1 H2 _] := lanczos_projection_rcf Hrun Hstart hidx Hlin Hsym Hv HG.
have HQ := lanczos_orthonormal_rcf Hrun Hstart hidx Hv HG.
exact: arnoldi_residual_mx.
Qed.

(* at an early exit the beta of the classical form is at most the threshold *)
Lemma sqrt_le_norm (F : rcfType) (x b : F) : x <= b ^+ 2 -> Num.sqrt x <= `|b|.
Proof. by move=> H; rewrite -sqrtr_sqr; exact: ler_wsqrtr. Qed.

Theorem lanczos_early_exit_beta_rcf (F : rcfType) (g : lz_args F) o nvec init :
  lanczos_tridiag (ArR F) g = Ok o -> lz_start g = Ok (nvec, init) ->
  let n := g_n g in let C := (prodn (g_batch g) * nvec)%N in let m := o_m o in
  forall Am : nat -> 'M[F]_n,
  (forall c X, (c < C)%N -> cv n (g_mm g X) c = Am c *m cv n X c) ->
  (forall c, (c < C)%N -> (Am c)^T = Am c) ->
  0 <= g_tol g -> (0 < g_extra g)%N ->
  (forall c, (c < C)%N -> cv n init c != 0) ->
  (forall idx, (idx < size (o_T o))%N -> forall j, (j.+1 < m)%N -> mget (ArR F) (nth [::] (o_T o) idx) j j.+1 != 0) ->
  (m < minn (g_max_iter g) n)%N ->
  forall idx, (idx < size (o_Q o))%N -> forall j : 'I_m, j.+1 = m ->
    let c := col_of (prodn (g_batch g)) nvec idx in
    let Qm := mx_of n m (nth [::] (o_Q o) idx) in let Tm := mx_of m m (nth [::] (o_T o) idx) in
    let rho_ := col j (Am c *m Qm - Qm *m Tm) in
    Num.sqrt (dotv rho_ rho_) <= `|g_brk g|.
Proof.
move=> Hrun Hstart /= Am Hlin Hsym Htol Hex Hv HG Hearly idx hidx j Ej.
apply: sqrt_le_norm.
exact: (lanczos_early_exit_rcf Hrun Hstart Hlin Hsym Htol Hex Hv HG Hearly hidx Ej).
Qed.
