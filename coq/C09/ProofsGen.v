(* C09 — lemmas that hold over ANY arithmetic record (in particular over PrimFloat): storage
   (get-after-set), the loop rule for lz_loop, and the structure of the returned T / the shapes. *)
From mathcomp Require Import ssreflect ssrfun ssrbool eqtype ssrnat seq div.
From mathcomp Require Import zify.
Require Import C09.Model.
Set Implicit Arguments.
Unset Strict Implicit.
Unset Printing Implicit Defensive.

Section Gen.
Variable F : Type.
Variable A : Arith F.

(* ------------------------------------------------------------------ storage *)
Lemma trow_tset (tm : tmat F) a b v i j :
  trow (tset tm a b v) i j = if (i == a) && (j == b) then v else trow tm i j.
Proof.
rewrite /trow /tset nth_set_nth /=.
case: (i =P a) => [->|_] //=.
by rewrite nth_set_nth /=; case: (j == b).
Qed.

Lemma tget_tset (tm : tmat F) a b v i j c :
  tget A (tset tm a b v) i j c = if (i == a) && (j == b) then vget A v c else tget A tm i j c.
Proof. by rewrite /tget trow_tset; case: ifP. Qed.

Lemma qrow_qset (qm : seq (cols F)) a X i :
  qrow (qset qm a X) i = if i == a then X else qrow qm i.
Proof. by rewrite /qrow /qset nth_set_nth. Qed.

Lemma tget_tzero num_iter C i j c : tget A (tzero A C num_iter) i j c = a0 A.
Proof.
rewrite /tget /trow /tzero /vget !nth_nseq.
case: (i < num_iter); last by rewrite nth_nil nth_nil.
rewrite nth_nseq; case: (j < num_iter); last by rewrite nth_nil.
by rewrite nth_nseq; case: ifP.
Qed.

Lemma vget_mkseq (f : nat -> F) n i : i < n -> vget A (mkseq f n) i = f i.
Proof. by move=> hi; rewrite /vget nth_mkseq. Qed.

Lemma cget_ctab C n (f : nat -> nat -> F) c : c < C -> cget (ctab C n f) c = mkseq (f c) n.
Proof. by move=> hc; rewrite /cget /ctab nth_mkseq. Qed.

Lemma vget_ctab C n (f : nat -> nat -> F) c i : c < C -> i < n -> vget A (cget (ctab C n f) c) i = f c i.
Proof. by move=> hc hi; rewrite cget_ctab // vget_mkseq. Qed.

Lemma mget_mtab m n (f : nat -> nat -> F) i j : i < m -> j < n -> mget A (mtab m n f) i j = f i j.
Proof. by move=> hi hj; rewrite /mget /mtab nth_mkseq // nth_mkseq. Qed.

Lemma mget_mtab_out m n (f : nat -> nat -> F) i j : ~~ ((i < m) && (j < n)) -> mget A (mtab m n f) i j = a0 A.
Proof.
rewrite /mget /mtab negb_and -!leqNgt => /orP[hi|hj].
  by rewrite (nth_default _ (s := mkseq _ _)) ?size_mkseq // nth_nil.
case: (ltnP i m) => hi; last by rewrite (nth_default _ (s := mkseq _ _)) ?size_mkseq // nth_nil.
by rewrite nth_mkseq // nth_default // size_mkseq.
Qed.

(* ------------------------------------------------------------------ the loop *)
Section Loop.
Variables (n C num_iter : nat) (mm : cols F -> cols F) (tol : F -> bool) (brk : F) (n_extra : nat).

Notation body := (lz_body A n C num_iter mm tol brk n_extra).
Notation loop := (lz_loop A n C num_iter mm tol brk n_extra).

(* Invariant rule.  P k st: st is the state at the entry of iteration k.  Post k st b: the loop is left after
   the body of iteration k, in state st, b = the `break` of line 147 was taken. *)
Lemma lz_loop_rule (P : nat -> lz_state F -> Prop) (Post : nat -> lz_state F -> bool -> Prop) :
  (forall k st, 0 < k -> k < num_iter -> P k st ->
     Post k (body k st).1 (body k st).2 /\ (k.+1 < num_iter -> P k.+1 (body k st).1)) ->
  forall fuel k st, 0 < fuel -> k + fuel = num_iter -> 0 < k -> P k st ->
    let r := loop fuel k st in
    exists b, [/\ Post r.2 r.1 b, b || (r.2.+1 == num_iter) & k <= r.2 < num_iter].
Proof.
move=> Hbody; elim=> [//|f IH] k st _ Hk k0 HP /=.
have kn : k < num_iter by lia.
have [Hpost Hnext] := Hbody k st k0 kn HP.
case Eb: (body k st) Hpost Hnext => [st' b] /= Hpost Hnext.
case: ifP => [Hex|Hne].
  exists b; split=> //=; last by rewrite leqnn kn.
  case/orP: Hex => [->//|/eqP f0]; apply/orP; right; apply/eqP; lia.
move/negbT: Hne; rewrite negb_or => /andP[_ fn0].
have f0 : 0 < f by rewrite lt0n.
have Hk' : k.+1 + f = num_iter by lia.
have kn' : k.+1 < num_iter by lia.
have [b' [H1 H2 /andP[H3 H4]]] := IH k.+1 st' f0 Hk' (ltn0Sn k) (Hnext kn').
by exists b'; split=> //; apply/andP; split; lia.
Qed.

(* symmetric, banded: the two invariants of t_mat that need no arithmetic law *)
Definition t_sym (tm : tmat F) := forall i j c, tget A tm i j c = tget A tm j i c.
Definition t_band (tm : tmat F) := forall i j c, (i.+1 < j) || (j.+1 < i) -> tget A tm i j c = a0 A.

Lemma t_sym_set_diag tm k v : t_sym tm -> t_sym (tset tm k k v).
Proof.
move=> H i j c; rewrite !tget_tset (andbC (j == k)).
by case: ((i == k) && (j == k)).
Qed.

Lemma t_sym_set_pair tm a b v : t_sym tm -> t_sym (tset (tset tm a b v) b a v).
Proof.
move=> H i j c; rewrite !tget_tset (andbC (j == b)) (andbC (j == a)).
by case: ((i == b) && (j == a)); case: ((i == a) && (j == b)).
Qed.

Lemma t_band_set tm a b v : (a <= b.+1) && (b <= a.+1) -> t_band tm -> t_band (tset tm a b v).
Proof.
move=> /andP[ab ba] H i j c hij; rewrite tget_tset.
case: (i =P a) => [ia|_]; case: (j =P b) => [jb|_] //=; try exact: H.
move: hij; rewrite ia jb => /orP[h|h].
  by move: (leq_trans h ba); rewrite ltnn.
by move: (leq_trans h ab); rewrite ltnn.
Qed.

Lemma body_sym k st : t_sym st.2 -> t_sym (body k st).1.2.
Proof.
case: st => qm tm /= Hs; rewrite /lz_body.
set alpha := lz_alpha _ _ _ _ _ _.
have S1 := t_sym_set_diag k alpha Hs.
case: ifP => _ /=; last by [].
case: (extra_passes _ _ _ _ _ _ _ _ _) => r4 could /=.
exact: t_sym_set_pair.
Qed.

Lemma body_band k st : t_band st.2 -> t_band (body k st).1.2.
Proof.
case: st => qm tm /= Hb; rewrite /lz_body.
set alpha := lz_alpha _ _ _ _ _ _.
have B1 : t_band (tset tm k k alpha) by apply: t_band_set => //; lia.
case: ifP => _ /=; last by [].
case: (extra_passes _ _ _ _ _ _ _ _ _) => r4 could /=.
apply: t_band_set; first by lia.
by apply: t_band_set => //; lia.
Qed.

Lemma body_tm_inv k st :
  t_sym st.2 /\ t_band st.2 -> t_sym (body k st).1.2 /\ t_band (body k st).1.2.
Proof. by case=> Hs Hb; split; [exact: body_sym | exact: body_band]. Qed.

Lemma init_tm_inv init :
  t_sym (lz_init A n C num_iter mm init).2 /\ t_band (lz_init A n C num_iter mm init).2.
Proof.
rewrite /lz_init /=; split.
  apply: t_sym_set_pair; apply: t_sym_set_diag => i j c; by rewrite !tget_tzero.
apply: t_band_set => //; apply: t_band_set => //; apply: t_band_set => // i j c _.
by rewrite tget_tzero.
Qed.

Lemma loop_tm_inv fuel k st :
  0 < fuel -> k + fuel = num_iter -> 0 < k ->
  t_sym st.2 /\ t_band st.2 -> t_sym (loop fuel k st).1.2 /\ t_band (loop fuel k st).1.2.
Proof.
move=> f0 Hk k0 H.
have := @lz_loop_rule (fun _ st => t_sym st.2 /\ t_band st.2) (fun _ st _ => t_sym st.2 /\ t_band st.2) _ fuel k st f0 Hk k0 H.
case; last by move=> b [].
move=> k' st' _ _ H'; split; first exact: body_tm_inv.
by move=> _; exact: body_tm_inv.
Qed.

Lemma loop_range fuel k st :
  0 < fuel -> k + fuel = num_iter -> 0 < k -> k <= (loop fuel k st).2 < num_iter.
Proof.
move=> f0 Hk k0.
have := @lz_loop_rule (fun _ _ => True) (fun _ _ _ => True) _ fuel k st f0 Hk k0 I.
by case=> [//|b []].
Qed.

End Loop.

(* ------------------------------------------------------------------ the result of lanczos_tridiag *)

(* the state after the first step when the repaired source stops there *)
Lemma init_stop_tm_inv n C num_iter mm init :
  t_sym (lz_init_stop A n C num_iter mm init).2 /\ t_band (lz_init_stop A n C num_iter mm init).2.
Proof.
rewrite /lz_init_stop /=; split.
  by apply: t_sym_set_diag => i j c; rewrite !tget_tzero.
by apply: t_band_set => // i j c _; rewrite tget_tzero.
Qed.

(* [lz_stop g nvec init]: the repaired source ends the decomposition after the first step *)
Definition lz_stop (g : lz_args F) (nvec : nat) (init : cols F) : bool :=
  let n := g_n g in let C := prodn (g_batch g) * nvec in let num_iter := minn (g_max_iter g) n in
  g_first_guard g && ((num_iter < 2) || ~~ has (fun b => altb A (g_brk g) (aabs A b)) (lz_beta0 A n C (g_mm g) init)).

(* final state and last loop index *)
Definition lz_final (g : lz_args F) (nvec : nat) (init : cols F) : lz_state F * nat :=
  let n := g_n g in let C := prodn (g_batch g) * nvec in let num_iter := minn (g_max_iter g) n in
  if lz_stop g nvec init then (lz_init_stop A n C num_iter (g_mm g) init, 0)
  else lz_loop A n C num_iter (g_mm g) (lz_gt A g) (g_brk g) (g_extra g) num_iter.-1 1
               (lz_init A n C num_iter (g_mm g) init).

(* everything the successful path of lanczos_tridiag computes, exposed for the proofs *)
Lemma lanczos_tridiag_ok (g : lz_args F) o :
  lanczos_tridiag A g = Ok o ->
  exists nvec init,
    let n := g_n g in let B := prodn (g_batch g) in
    let num_iter := minn (g_max_iter g) n in
    let r := lz_final g nvec init in
    let m := r.2.+1 in
    let col_of o := (o %% B) * nvec + o %/ B in
    let lead := if nvec == 1 then [::] else [:: nvec] in
    [/\ lz_start g = Ok (nvec, init), (if g_first_guard g then 0 else 1) < num_iter &
        o = MkOut m (lead ++ g_batch g ++ [:: n; m]) (lead ++ g_batch g ++ [:: m; m])
              (mkseq (fun o => mtab n m (fun x i => vget A (qget r.1.1 i (col_of o)) x)) (nvec * B))
              (mkseq (fun o => mtab m m (fun i j => tget A r.1.2 i j (col_of o))) (nvec * B))].
Proof.
rewrite /lanczos_tridiag; case: (g_callable g) => //=.
case Es: (lz_start g) => [[nvec init]|e] //.
case: ltnP => // Hn.
rewrite -/(lz_stop g nvec init).
case El: (if lz_stop g nvec init then _ else _) => [[qm tm] kl] /= [<-].
exists nvec, init; rewrite /= /lz_final El; split=> //.
by case: (g_first_guard g) Hn.
Qed.

(* the two ways the final state comes about *)
Lemma lz_final_cases (g : lz_args F) nvec init :
  let n := g_n g in let C := prodn (g_batch g) * nvec in let num_iter := minn (g_max_iter g) n in
  (if g_first_guard g then 0 else 1) < num_iter ->
  (lz_stop g nvec init /\ lz_final g nvec init = (lz_init_stop A n C num_iter (g_mm g) init, 0))
  \/ [/\ ~~ lz_stop g nvec init, 1 < num_iter &
         lz_final g nvec init = lz_loop A n C num_iter (g_mm g) (lz_gt A g) (g_brk g) (g_extra g) num_iter.-1 1
                                        (lz_init A n C num_iter (g_mm g) init)].
Proof.
move=> /= Hn; rewrite /lz_final; case Est: (lz_stop g nvec init); [by left | right; split=> //].
move: Est Hn; rewrite /lz_stop; case: (g_first_guard g) => //=.
by move=> /negbT; rewrite negb_or -leqNgt => /andP[].
Qed.

Lemma final_tm_inv_gen (g : lz_args F) nvec init :
  (if g_first_guard g then 0 else 1) < minn (g_max_iter g) (g_n g) ->
  t_sym (lz_final g nvec init).1.2 /\ t_band (lz_final g nvec init).1.2.
Proof.
move=> Hn; case: (lz_final_cases nvec init Hn) => [[_ ->]|[_ Hn1 ->]] /=.
  exact: init_stop_tm_inv.
set num_iter := minn _ _ in Hn1 *.
have f0 : 0 < num_iter.-1 by lia.
have Hk : 1 + num_iter.-1 = num_iter by lia.
by apply: loop_tm_inv => //; exact: init_tm_inv.
Qed.

Lemma final_range_gen (g : lz_args F) nvec init :
  (if g_first_guard g then 0 else 1) < minn (g_max_iter g) (g_n g) ->
  (if g_first_guard g then 0 else 1) <= (lz_final g nvec init).2 < minn (g_max_iter g) (g_n g).
Proof.
move=> Hn; case: (lz_final_cases nvec init Hn) => [[Hst ->]|[_ Hn1 ->]] /=.
  by move: Hst Hn; rewrite /lz_stop; case: (g_first_guard g) => //= _ ->.
set num_iter := minn _ _ in Hn1 *.
have f0 : 0 < num_iter.-1 by lia.
have Hk : 1 + num_iter.-1 = num_iter by lia.
have /andP[H1 H2] := @loop_range (g_n g) (prodn (g_batch g) * nvec) num_iter (g_mm g) (lz_gt A g) (g_brk g) (g_extra g)
   num_iter.-1 1 (lz_init A (g_n g) (prodn (g_batch g) * nvec) num_iter (g_mm g) init) f0 Hk (ltn0Sn 0).
by rewrite H2 andbT; case: (g_first_guard g).
Qed.

(* T: symmetric, tridiagonal, m x m -- for every input, over every arithmetic (floats included) *)
Theorem lanczos_T_symmetric_tridiagonal_gen (g : lz_args F) o :
  lanczos_tridiag A g = Ok o ->
  forall idx, idx < size (o_T o) ->
    let T := nth [::] (o_T o) idx in
    [/\ size T = o_m o, (forall i, i < o_m o -> size (nth [::] T i) = o_m o),
        (forall i j, mget A T i j = mget A T j i) &
        (forall i j, (i.+1 < j) || (j.+1 < i) -> mget A T i j = a0 A)].
Proof.
move=> /lanczos_tridiag_ok [nvec [init /= [_ Hn ->]]] idx /=; rewrite size_mkseq => Hidx.
rewrite nth_mkseq //.
have [Hs Hb] := final_tm_inv_gen nvec init Hn.
set r := lz_final g nvec init in Hs Hb *.
set c := _ + _; set m := r.2.+1.
split.
- by rewrite size_mkseq.
- by move=> i hi; rewrite nth_mkseq // size_mkseq.
- move=> i j; case: (boolP ((i < m) && (j < m))) => [/andP[hi hj]|hn].
    by rewrite !mget_mtab.
  by rewrite !mget_mtab_out // andbC.
- move=> i j hij; case: (boolP ((i < m) && (j < m))) => [/andP[hi hj]|hn].
    by rewrite mget_mtab //; exact: Hb.
  by rewrite mget_mtab_out.
Qed.

(* trimming: the shapes, the number of returned matrices and the range of the final iteration count
   (at least 2 Lanczos vectors on the pinned source, at least 1 on the repaired one) *)
Theorem lanczos_trim_shapes_gen (g : lz_args F) o :
  lanczos_tridiag A g = Ok o ->
  exists nvec init, lz_start g = Ok (nvec, init) /\
    let n := g_n g in let m := o_m o in
    let lead := if nvec == 1 then [::] else [:: nvec] in
    [/\ (if g_first_guard g then 1 else 2) <= m <= minn (g_max_iter g) n,
        o_qshape o = lead ++ g_batch g ++ [:: n; m] /\ o_tshape o = lead ++ g_batch g ++ [:: m; m],
        size (o_Q o) = nvec * prodn (g_batch g) /\ size (o_T o) = nvec * prodn (g_batch g),
        (forall idx, idx < size (o_Q o) -> let Q := nth [::] (o_Q o) idx in
             size Q = n /\ forall i, i < n -> size (nth [::] Q i) = m) &
        (forall idx, idx < size (o_T o) -> let T := nth [::] (o_T o) idx in
             size T = m /\ forall i, i < m -> size (nth [::] T i) = m)].
Proof.
move=> /lanczos_tridiag_ok [nvec [init /= [Hs Hn ->]]]; exists nvec, init; split=> //=.
have /andP[H1 H2] := final_range_gen nvec init Hn.
split=> //.
- by apply/andP; split=> //; case: (g_first_guard g) H1.
- by rewrite !size_mkseq.
- rewrite size_mkseq => idx hidx; rewrite nth_mkseq // size_mkseq; split=> // i hi.
  by rewrite nth_mkseq // size_mkseq.
- rewrite size_mkseq => idx hidx; rewrite nth_mkseq // size_mkseq; split=> // i hi.
  by rewrite nth_mkseq // size_mkseq.
Qed.

(* error paths: the guards of lines 23, 36-51 and the IndexError for num_iter < 2 (pinned) / < 1 (repaired) *)
Theorem lanczos_guards_gen (g : lz_args F) :
  [/\ ~~ g_callable g -> lanczos_tridiag A g = Err ErrNotCallable,
      (forall iv, g_callable g -> g_init g = Some iv -> g_debug g -> ~~ i_dtype_ok iv ->
         lanczos_tridiag A g = Err ErrDtype),
      (forall iv, g_callable g -> g_init g = Some iv -> g_debug g -> i_dtype_ok iv -> g_batch g != i_batch iv ->
         lanczos_tridiag A g = Err ErrBatchShape),
      (forall iv, g_callable g -> g_init g = Some iv -> g_debug g -> i_dtype_ok iv -> g_batch g = i_batch iv ->
         ~~ i_onedim iv -> g_n g != i_n iv -> lanczos_tridiag A g = Err ErrMatrixShape) &
      (forall nvec init, g_callable g -> lz_start g = Ok (nvec, init) ->
         minn (g_max_iter g) (g_n g) < (if g_first_guard g then 1 else 2) ->
         lanczos_tridiag A g = Err ErrIndex)].
Proof.
rewrite /lanczos_tridiag /lz_start; split.
- by move=> /negbTE->.
- by move=> iv -> -> -> /negbTE->.
- by move=> iv -> -> -> -> /negbTE-> /=.
- by move=> iv -> -> -> -> -> /=; rewrite eqxx /= => /negbTE-> /negbTE->.
- by move=> nvec init -> /= -> ->.
Qed.

(* the repaired source serves a budget of one iteration and start vectors that span an invariant subspace:
   it returns after the first step with a single Lanczos vector (Q = q_0, T = [alpha_0]) *)
Theorem lanczos_first_step_stop_gen (g : lz_args F) nvec init :
  g_callable g -> lz_start g = Ok (nvec, init) -> g_first_guard g -> 0 < minn (g_max_iter g) (g_n g) ->
  (minn (g_max_iter g) (g_n g) < 2)
  || ~~ has (fun b => altb A (g_brk g) (aabs A b))
            (lz_beta0 A (g_n g) (prodn (g_batch g) * nvec) (g_mm g) init) ->
  exists2 o, lanczos_tridiag A g = Ok o & o_m o = 1.
Proof.
rewrite /lanczos_tridiag => -> -> Hg Hn Hst /=.
rewrite Hg ltnNge Hn /= Hst /=.
by eexists; first by reflexivity.
Qed.

(* a 1-D init_vecs (which root_inv_decomposition lets through): IndexError, from init_vecs.size(-2) in debug mode and
   from torch.norm(init_vecs, 2, dim=-2) otherwise (known finding C09-initial-vector-1d at the operator level) *)
Theorem lanczos_onedim_gen (g : lz_args F) iv :
  g_callable g -> g_init g = Some iv -> i_onedim iv ->
  (g_debug g -> i_dtype_ok iv /\ g_batch g = i_batch iv) -> lanczos_tridiag A g = Err ErrIndex.
Proof.
rewrite /lanczos_tridiag /lz_start => -> -> -> /=; case: (g_debug g) => [H|_] //.
by have [-> ->] := H isT; rewrite eqxx.
Qed.

End Gen.
