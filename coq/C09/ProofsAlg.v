(* C09 — the model over a real closed field: bridge from the list model to MathComp column vectors,
   the re-orthogonalisation step, and the per-column loop invariants (orthonormality; for a symmetric
   linear closure the three-term / Arnoldi relation). *)
From mathcomp Require Import all_ssreflect all_algebra.
From mathcomp Require Import zify.
Require Import C09.Model C09.ProofsGen.
Set Implicit Arguments.
Unset Strict Implicit.
Unset Printing Implicit Defensive.
Import Order.Theory GRing.Theory Num.Theory.
Local Open Scope ring_scope.

Arguments qset : simpl never.
Arguments tset : simpl never.
Arguments qrow : simpl never.
Arguments trow : simpl never.
Arguments tget : simpl never.
Arguments reorth : simpl never.
Arguments inner_products : simpl never.
Arguments lz_r : simpl never.
Arguments lz_alpha : simpl never.
Arguments lz_r2 : simpl never.
Arguments cnorm : simpl never.
Arguments cdiv : simpl never.
Arguments cdot : simpl never.
Arguments csub : simpl never.

Section Alg.
Variable F : rcfType.

(* the exact-arithmetic instance of the arithmetic record *)
Definition ArR : Arith F :=
  MkArith 0 1 +%R (fun x y => x - y) *%R (fun x y => x / y) Num.sqrt Num.norm
          (fun x y => x < y) (fun x y => x <= y).

Lemma sumn_big (f : nat -> F) k : sumn_ ArR f k = \sum_(l < k) f l.
Proof. by elim: k => [|k IH] /=; [rewrite big_ord0 | rewrite big_ord_recr /= IH]. Qed.

Section Vec.
Variable n : nat.

(* dot product of column vectors *)
Definition dotv (u v : 'cV[F]_n) : F := (u^T *m v) ord0 ord0.

Lemma dotvE u v : dotv u v = \sum_i u i ord0 * v i ord0.
Proof. by rewrite /dotv mxE; apply: eq_bigr => i _; rewrite !mxE. Qed.
Lemma dotvC u v : dotv u v = dotv v u.
Proof. by rewrite !dotvE; apply: eq_bigr => i _; rewrite mulrC. Qed.
Lemma dotvDl u w v : dotv (u + w) v = dotv u v + dotv w v.
Proof. by rewrite /dotv linearD /= mulmxDl mxE. Qed.
Lemma dotvNl u v : dotv (- u) v = - dotv u v.
Proof. by rewrite /dotv linearN /= mulNmx mxE. Qed.
Lemma dotvBl u w v : dotv (u - w) v = dotv u v - dotv w v.
Proof. by rewrite dotvDl dotvNl. Qed.
Lemma dotvZl a u v : dotv (a *: u) v = a * dotv u v.
Proof. by rewrite /dotv linearZ /= -scalemxAl mxE. Qed.
Lemma dotv0l v : dotv 0 v = 0.
Proof. by rewrite /dotv trmx0 mul0mx mxE. Qed.
Lemma dotvDr u v w : dotv u (v + w) = dotv u v + dotv u w.
Proof. by rewrite dotvC dotvDl !(dotvC u). Qed.
Lemma dotvNr u v : dotv u (- v) = - dotv u v.
Proof. by rewrite dotvC dotvNl dotvC. Qed.
Lemma dotvBr u v w : dotv u (v - w) = dotv u v - dotv u w.
Proof. by rewrite dotvDr dotvNr. Qed.
Lemma dotvZr a u v : dotv u (a *: v) = a * dotv u v.
Proof. by rewrite dotvC dotvZl dotvC. Qed.
Lemma dotv0r u : dotv u 0 = 0.
Proof. by rewrite dotvC dotv0l. Qed.
Lemma dotv_suml I (r : seq I) (P : pred I) (f : I -> 'cV[F]_n) v :
  dotv (\sum_(i <- r | P i) f i) v = \sum_(i <- r | P i) dotv (f i) v.
Proof. by elim/big_rec2: _ => [|i y x _ <-]; rewrite ?dotv0l ?dotvDl. Qed.
Lemma dotv_sumr I (r : seq I) (P : pred I) (f : I -> 'cV[F]_n) u :
  dotv u (\sum_(i <- r | P i) f i) = \sum_(i <- r | P i) dotv u (f i).
Proof. by rewrite dotvC dotv_suml; apply: eq_bigr => i _; rewrite dotvC. Qed.
Lemma dotv_ge0 u : 0 <= dotv u u.
Proof. by rewrite dotvE; apply: sumr_ge0 => i _; rewrite -expr2 sqr_ge0. Qed.
Lemma dotv_mulmx_sym (M : 'M[F]_n) u v : M^T = M -> dotv (M *m u) v = dotv u (M *m v).
Proof. by move=> HM; rewrite /dotv trmx_mul HM mulmxA. Qed.
Lemma dotv_eq0 u : (dotv u u == 0) = (u == 0).
Proof.
apply/idP/idP => [|/eqP->]; last by rewrite dotv0l.
rewrite dotvE psumr_eq0 => [/allP H|i _]; last by rewrite -expr2 sqr_ge0.
apply/eqP/colP => i; rewrite mxE; apply/eqP.
by have := H i (mem_index_enum i); rewrite /= -expr2 sqrf_eq0.
Qed.

(* ---------------- one full re-orthogonalisation against an orthonormal family q_0 .. q_k *)
Section Step.
Variables (k : nat) (q : nat -> 'cV[F]_n).
Hypothesis ON : forall i j, (i <= k)%N -> (j <= k)%N -> dotv (q i) (q j) = (i == j)%:R.

Definition proj (r : 'cV[F]_n) : 'cV[F]_n := r - \sum_(i < k.+1) dotv r (q i) *: q i.

Lemma proj_orth r j : (j <= k)%N -> dotv (q j) (proj r) = 0.
Proof.
move=> hj; rewrite /proj dotvBr dotv_sumr.
have hj' : (j < k.+1)%N by [].
rewrite (bigD1 (Ordinal hj')) //= big1 => [|i ij].
  by rewrite addr0 dotvZr ON // eqxx mulr1 (dotvC r) subrr.
rewrite dotvZr ON //; last by rewrite -ltnS.
have /negbTE-> : (j != i :> nat) by apply: contraNneq ij => E; apply/eqP/val_inj.
by rewrite mulr0.
Qed.

(* a vector that is already orthogonal to the family is left unchanged *)
Lemma proj_id r : (forall j, (j <= k)%N -> dotv (q j) r = 0) -> proj r = r.
Proof.
move=> H; rewrite /proj big1 ?subr0 // => i _.
by rewrite dotvC H ?scale0r // -ltnS.
Qed.

Lemma normalize_unit (r : 'cV[F]_n) :
  dotv r r != 0 -> dotv ((Num.sqrt (dotv r r))^-1 *: r) ((Num.sqrt (dotv r r))^-1 *: r) = 1.
Proof.
move=> H; rewrite dotvZl dotvZr mulrA -invfM -expr2 sqr_sqrtr ?dotv_ge0 //.
by rewrite mulVf.
Qed.

Lemma sqrt_dotv_neq0 (r : 'cV[F]_n) : (Num.sqrt (dotv r r) != 0) = (dotv r r != 0).
Proof.
by rewrite sqrtr_eq0 -ltNge lt_neqAle dotv_ge0 andbT eq_sym.
Qed.

End Step.
End Vec.

(* ---------------------------------------------------------------------------------------------- *)
(* bridge: the column-wise tensor operations of the model on column vectors *)
Section Bridge.
Variables (n C : nat).

Definition cv (X : cols F) (c : nat) : 'cV[F]_n := \col_i vget ArR (cget X c) i.

Lemma cv_csub X Y c : (c < C)%N -> cv (csub ArR n C X Y) c = cv X c - cv Y c.
Proof. by move=> hc; apply/colP => i; rewrite !mxE vget_ctab. Qed.

Lemma cv_cscale_l s X c : (c < C)%N -> cv (cscale_l ArR n C s X) c = vget ArR s c *: cv X c.
Proof. by move=> hc; apply/colP => i; rewrite !mxE vget_ctab. Qed.

Lemma cv_cscale_r s X c : (c < C)%N -> cv (cscale_r ArR n C X s) c = vget ArR s c *: cv X c.
Proof. by move=> hc; apply/colP => i; rewrite !mxE vget_ctab //= mulrC. Qed.

Lemma cv_cdiv s X c : (c < C)%N -> cv (cdiv ArR n C X s) c = (vget ArR s c)^-1 *: cv X c.
Proof. by move=> hc; apply/colP => i; rewrite !mxE vget_ctab //= mulrC. Qed.

Lemma dot_dotv (x y : vec F) :
  dot ArR n x y = dotv (\col_(i < n) vget ArR x i) (\col_(i < n) vget ArR y i).
Proof. by rewrite /dot sumn_big dotvE; apply: eq_bigr => i _; rewrite !mxE. Qed.

Lemma vget_cdot X Y c : (c < C)%N -> vget ArR (cdot ArR n C X Y) c = dotv (cv X c) (cv Y c).
Proof. by move=> hc; rewrite /cdot vget_mkseq // dot_dotv. Qed.

Lemma vget_cnorm X c : (c < C)%N -> vget ArR (cnorm ArR n C X) c = Num.sqrt (dotv (cv X c) (cv X c)).
Proof. by move=> hc; rewrite /cnorm vget_mkseq // /norm2 dot_dotv. Qed.

Lemma cv_reorth qm k R c : (c < C)%N ->
  cv (reorth ArR n C qm k R) c = proj k (fun i => cv (qrow qm i) c) (cv R c).
Proof.
move=> hc; rewrite /reorth cv_csub // /proj; congr (_ - _).
apply/colP => x; rewrite mxE vget_ctab // sumn_big summxE.
apply: eq_bigr => i _; rewrite /reorth_coef nth_mkseq // vget_mkseq // dot_dotv !mxE /= mulrC.
by congr (_ * _).
Qed.

Lemma vget_inner qm k R i c : (i <= k)%N -> (c < C)%N ->
  vget ArR (nth [::] (inner_products ArR n C qm k R) i) c = dotv (cv (qrow qm i) c) (cv R c).
Proof. by move=> hi hc; rewrite /inner_products nth_mkseq // vget_cdot. Qed.

Lemma cv_lz_r (mm : cols F -> cols F) qm tm k c : (c < C)%N ->
  cv (lz_r ArR n C mm qm tm k) c = cv (mm (qrow qm k)) c - tget ArR tm k k.-1 c *: cv (qrow qm k.-1) c.
Proof. by move=> hc; rewrite /lz_r cv_csub // cv_cscale_r. Qed.

Lemma vget_lz_alpha qm k r c : (c < C)%N ->
  vget ArR (lz_alpha ArR n C qm k r) c = dotv (cv (qrow qm k) c) (cv r c).
Proof. by move=> hc; rewrite /lz_alpha vget_cdot. Qed.

Lemma cv_lz_r2 qm k r alpha c : (c < C)%N ->
  cv (lz_r2 ArR n C qm k r alpha) c
  = proj k (fun i => cv (qrow qm i) c) (cv r c - vget ArR alpha c *: cv (qrow qm k) c).
Proof. by move=> hc; rewrite /lz_r2 cv_reorth // cv_csub // cv_cscale_l. Qed.

End Bridge.

(* ---------------------------------------------------------------------------------------------- *)
(* one column c of the state through the loop *)
Section Column.
Variables (n C num_iter : nat) (mm : cols F -> cols F) (tol brk : F) (n_extra : nat).
Variable c : nat.
Hypothesis hc : (c < C)%N.

(* the bridge lemmas specialised to column c (no side conditions left) *)
Lemma Ecsub X Y : cv n (csub ArR n C X Y) c = cv n X c - cv n Y c.
Proof. exact: cv_csub. Qed.
Lemma Ecscale_l s X : cv n (cscale_l ArR n C s X) c = vget ArR s c *: cv n X c.
Proof. exact: cv_cscale_l. Qed.
Lemma Ecscale_r s X : cv n (cscale_r ArR n C X s) c = vget ArR s c *: cv n X c.
Proof. exact: cv_cscale_r. Qed.
Lemma Ecdiv s X : cv n (cdiv ArR n C X s) c = (vget ArR s c)^-1 *: cv n X c.
Proof. exact: cv_cdiv. Qed.
Lemma Ecdot X Y : vget ArR (cdot ArR n C X Y) c = dotv (cv n X c) (cv n Y c).
Proof. exact: vget_cdot. Qed.
Lemma Ecnorm X : vget ArR (cnorm ArR n C X) c = Num.sqrt (dotv (cv n X c) (cv n X c)).
Proof. exact: vget_cnorm. Qed.
Lemma Ereorth qm k R : cv n (reorth ArR n C qm k R) c = proj k (fun i => cv n (qrow qm i) c) (cv n R c).
Proof. exact: cv_reorth. Qed.
Lemma Einner qm k R i : (i <= k)%N ->
  vget ArR (nth [::] (inner_products ArR n C qm k R) i) c = dotv (cv n (qrow qm i) c) (cv n R c).
Proof. by move=> hi; exact: vget_inner. Qed.
Lemma Elz_r qm tm k :
  cv n (lz_r ArR n C mm qm tm k) c = cv n (mm (qrow qm k)) c - tget ArR tm k k.-1 c *: cv n (qrow qm k.-1) c.
Proof. exact: cv_lz_r. Qed.
Lemma Elz_alpha qm k r : vget ArR (lz_alpha ArR n C qm k r) c = dotv (cv n (qrow qm k) c) (cv n r c).
Proof. exact: vget_lz_alpha. Qed.
Lemma Elz_r2 qm k r alpha :
  cv n (lz_r2 ArR n C qm k r alpha) c
  = proj k (fun i => cv n (qrow qm i) c) (cv n r c - vget ArR alpha c *: cv n (qrow qm k) c).
Proof. exact: cv_lz_r2. Qed.

Notation body := (lz_body ArR n C num_iter mm tol brk n_extra).
Notation loop := (lz_loop ArR n C num_iter mm tol brk n_extra).

Definition qv (st : lz_state F) (i : nat) : 'cV[F]_n := cv n (qrow st.1 i) c.
Definition al (st : lz_state F) (j : nat) : F := tget ArR st.2 j j c.
Definition be (st : lz_state F) (j : nat) : F := tget ArR st.2 j j.+1 c.

(* the first w Lanczos vectors of column c are orthonormal *)
Definition ON (w : nat) (st : lz_state F) :=
  forall i j, (i < w)%N -> (j < w)%N -> dotv (qv st i) (qv st j) = (i == j)%:R.
(* no breakdown before vector w: the betas that were divided by are non-zero *)
Definition G (w : nat) (st : lz_state F) := forall j, (j.+1 < w)%N -> be st j != 0.

(* the extra re-orthogonalisation passes leave a column that is already a unit vector orthogonal to
   q_0 .. q_k unchanged, however many passes the other columns trigger *)
Lemma extra_passes_col fuel qm k R ip (r : 'cV[F]_n) :
  (forall i j, (i <= k)%N -> (j <= k)%N ->
     dotv (cv n (qrow qm i) c) (cv n (qrow qm j) c) = (i == j)%:R) ->
  cv n R c = r -> dotv r r = 1 -> (forall j, (j <= k)%N -> dotv (cv n (qrow qm j) c) r = 0) ->
  cv n (extra_passes ArR n C tol fuel qm k R ip).1 c = r.
Proof.
move=> Hon; elim: fuel R ip => [|f IH] R ip HR H1 H0 //=.
case: ifP => _ //=.
apply: IH => //.
by rewrite Ecdiv Ecnorm Ereorth HR proj_id // H1 sqrtr1 invr1 scale1r.
Qed.

(* the quantities of one loop body for column c (lines 107-121) *)
Definition s_w (k : nat) (st : lz_state F) : 'cV[F]_n := cv n (mm (qrow st.1 k)) c.   (* matmul_closure(q_curr) *)
Definition s_r k st : 'cV[F]_n := s_w k st - tget ArR st.2 k k.-1 c *: qv st k.-1.        (* 107 *)
Definition s_a k st : F := dotv (qv st k) (s_r k st).                                      (* 108 *)
Definition s_r1 k st : 'cV[F]_n := s_r k st - s_a k st *: qv st k.                         (* 115 *)
Definition s_r2 k st : 'cV[F]_n := proj k (qv st) (s_r1 k st).                             (* 117-119 *)
Definition s_b k st : F := Num.sqrt (dotv (s_r2 k st) (s_r2 k st)).                        (* 120 *)
Definition s_r3 k st : 'cV[F]_n := (s_b k st)^-1 *: s_r2 k st.                             (* 121 *)

Lemma body_frame_q k st i : i != k.+1 -> qrow (body k st).1.1 i = qrow st.1 i.
Proof.
case: st => qm tm /= hi; rewrite /lz_body.
case: ifP => _ //=.
case: (extra_passes _ _ _ _ _ _ _ _ _) => r4 could /=.
by rewrite qrow_qset (negbTE hi).
Qed.

Lemma body_frame_t k st i j c' :
  ~~ [|| (i == k) && (j == k), (i == k) && (j == k.+1) | (i == k.+1) && (j == k)] ->
  tget ArR (body k st).1.2 i j c' = tget ArR st.2 i j c'.
Proof.
case: st => qm tm /=; rewrite !negb_or => /and3P[/negbTE h1 /negbTE h2 /negbTE h3]; rewrite /lz_body.
case: ifP => _ /=; last by rewrite tget_tset h1.
case: (extra_passes _ _ _ _ _ _ _ _ _) => r4 could /=.
by rewrite !tget_tset h1 h2 h3.
Qed.

Lemma kSk k : (k == k.+1) = false.
Proof. by apply/negbTE; rewrite neq_ltn leqnn. Qed.
Lemma Skk k : (k.+1 == k) = false.
Proof. by rewrite eq_sym kSk. Qed.

Lemma body_alpha k st : al (body k st).1 k = s_a k st.
Proof.
case: st => qm tm; rewrite /al /s_a /s_r /s_w /qv /lz_body /=.
case: ifP => _ /=.
  case: (extra_passes _ _ _ _ _ _ _ _ _) => r4 could /=.
  by rewrite !tget_tset !eqxx ?Skk ?kSk /= Elz_alpha Elz_r.
by rewrite tget_tset !eqxx /= Elz_alpha Elz_r.
Qed.

Lemma body_beta k st : (k.+1 < num_iter)%N -> be (body k st).1 k = s_b k st.
Proof.
case: st => qm tm hk; rewrite /be /s_b /s_r2 /s_r1 /s_a /s_r /s_w /qv /lz_body /= hk.
case: (extra_passes _ _ _ _ _ _ _ _ _) => r4 could /=.
rewrite !tget_tset !eqxx ?Skk ?kSk /=.
by rewrite Ecnorm Elz_r2 Elz_alpha Elz_r.
Qed.

Lemma body_newq k st :
  (k.+1 < num_iter)%N -> ON k.+1 st -> s_b k st != 0 -> qv (body k st).1 k.+1 = s_r3 k st.
Proof.
case: st => qm tm hk Hon Hb.
rewrite /qv /lz_body /= hk.
set r := lz_r _ _ _ _ _ _ _.
set alpha := lz_alpha _ _ _ _ _ _.
set r2 := lz_r2 _ _ _ _ _ _ _.
set r3 := cdiv _ _ _ r2 _.
have HR3 : cv n r3 c = s_r3 k (qm, tm).
  rewrite /s_r3 /s_b /s_r2 /s_r1 /s_a /s_r /s_w /qv /= /r3 Ecdiv Ecnorm.
  by rewrite /r2 Elz_r2 /alpha Elz_alpha /r Elz_r.
have Hon' : forall i j, (i <= k)%N -> (j <= k)%N ->
     dotv (cv n (qrow qm i) c) (cv n (qrow qm j) c) = (i == j)%:R.
  by move=> i j hi hj; apply: Hon.
have Hb' : dotv (s_r2 k (qm, tm)) (s_r2 k (qm, tm)) != 0 by rewrite -sqrt_dotv_neq0.
have := @extra_passes_col n_extra qm k r3 (inner_products ArR n C qm k r3) (s_r3 k (qm, tm)) Hon' HR3.
case: (extra_passes _ _ _ _ _ _ _ _ _) => r4 could /= H.
rewrite qrow_qset eqxx; apply: H.
- by rewrite /s_r3 /s_b; exact: normalize_unit.
- by move=> j hj; rewrite /s_r3 dotvZr (proj_orth Hon') ?mulr0.
Qed.

(* orthonormality is carried from w = k+1 to w = k+2 vectors *)
Lemma ON_step k st :
  (k.+1 < num_iter)%N -> ON k.+1 st -> s_b k st != 0 -> ON k.+2 (body k st).1.
Proof.
move=> hk Hon Hb.
have Hon' : forall i j, (i <= k)%N -> (j <= k)%N -> dotv (qv st i) (qv st j) = (i == j)%:R.
  by move=> i j hi hj; apply: Hon.
have Hb' : dotv (s_r2 k st) (s_r2 k st) != 0 by rewrite -sqrt_dotv_neq0.
have Hold i : (i <= k)%N -> qv (body k st).1 i = qv st i.
  by move=> hi; rewrite /qv body_frame_q //; lia.
have Hnew := body_newq hk Hon Hb.
have Hunit : dotv (s_r3 k st) (s_r3 k st) = 1 by rewrite /s_r3 /s_b; exact: normalize_unit.
have Horth j : (j <= k)%N -> dotv (qv st j) (s_r3 k st) = 0.
  by move=> hj; rewrite /s_r3 dotvZr /s_r2 (proj_orth Hon') ?mulr0.
move=> i j; rewrite !ltnS !leq_eqVlt => /orP[/eqP->|hi] /orP[/eqP->|hj].
- by rewrite Hnew Hunit eqxx.
- rewrite Hnew Hold // dotvC Horth //.
  by have /negbTE-> : k.+1 != j by lia.
- rewrite Hnew Hold // Horth //.
  by have /negbTE-> : i != k.+1 by lia.
- by rewrite !Hold //; apply: Hon.
Qed.

Lemma ON_frame k st w : (w <= k.+1)%N -> ON w st -> ON w (body k st).1.
Proof.
move=> hw Hon i j hi hj.
have -> : qv (body k st).1 i = qv st i by rewrite /qv body_frame_q //; lia.
have -> : qv (body k st).1 j = qv st j by rewrite /qv body_frame_q //; lia.
exact: Hon.
Qed.

Lemma be_frame k st j : (j < k)%N -> be (body k st).1 j = be st j.
Proof. by move=> hj; rewrite /be body_frame_t //; lia. Qed.

(* the loop invariant for orthonormality and its consequence at the exit *)
Lemma loop_ON fuel k st :
  (0 < fuel)%N -> (k + fuel = num_iter)%N -> (0 < k)%N ->
  (G k.+1 st -> ON k.+1 st) ->
  let r := loop fuel k st in G r.2.+1 r.1 -> ON r.2.+1 r.1.
Proof.
move=> f0 Hk k0 H.
have := @lz_loop_rule _ ArR n C num_iter mm tol brk n_extra
          (fun k st => G k.+1 st -> ON k.+1 st) (fun k st _ => G k.+1 st -> ON k.+1 st) _ fuel k st f0 Hk k0 H.
case; last by move=> b [].
move=> k' st' k0' kn' HP; split.
  move=> HG; apply: ON_frame => //; apply: HP => j hj.
  by rewrite -(be_frame st') //; exact: HG.
move=> hk HG.
have HG' : G k'.+1 st' by move=> j hj; rewrite -(be_frame st') //; apply: HG; lia.
apply: ON_step => //; first exact: HP.
by rewrite -(body_beta st' hk); apply: HG.
Qed.

(* lines 80-97 for column c *)
Definition i_v (init : cols F) : 'cV[F]_n := cv n init c.
Definition i_q0 init : 'cV[F]_n := (Num.sqrt (dotv (i_v init) (i_v init)))^-1 *: i_v init.
Definition i_w init : 'cV[F]_n := cv n (mm (cdiv ArR n C init (cnorm ArR n C init))) c.
Definition i_a init : F := dotv (i_q0 init) (i_w init).
Definition i_r1 init : 'cV[F]_n := i_w init - i_a init *: i_q0 init.
Definition i_b init : F := Num.sqrt (dotv (i_r1 init) (i_r1 init)).

Notation st0 := (lz_init ArR n C num_iter mm).

Lemma init_q0 init : qv (st0 init) 0 = i_q0 init.
Proof. by rewrite /qv /lz_init /= !qrow_qset /= Ecdiv Ecnorm. Qed.

Lemma init_alpha init : al (st0 init) 0 = i_a init.
Proof.
rewrite /al /lz_init /= !tget_tset /= Ecdot /i_a /i_w /i_q0 /i_v.
by rewrite Ecdiv Ecnorm.
Qed.

Lemma init_beta init : be (st0 init) 0 = i_b init.
Proof.
rewrite /be /lz_init /= !tget_tset /= Ecnorm Ecsub Ecscale_l.
by rewrite Ecdot /i_b /i_r1 /i_a /i_w /i_q0 /i_v Ecdiv Ecnorm.
Qed.

Lemma init_q1 init : qv (st0 init) 1 = (i_b init)^-1 *: i_r1 init.
Proof.
rewrite /qv /lz_init /= !qrow_qset /= Ecdiv Ecnorm Ecsub Ecscale_l.
by rewrite Ecdot /i_b /i_r1 /i_a /i_w /i_q0 /i_v Ecdiv Ecnorm.
Qed.

Lemma init_ON init : i_v init != 0 -> G 2 (st0 init) -> ON 2 (st0 init).
Proof.
move=> Hv HG.
have Hb : i_b init != 0 by rewrite -init_beta; exact: HG.
have Hvv : dotv (i_v init) (i_v init) != 0 by rewrite dotv_eq0.
have H00 : dotv (i_q0 init) (i_q0 init) = 1 by exact: normalize_unit.
have Hr1 : dotv (i_q0 init) (i_r1 init) = 0.
  by rewrite /i_r1 dotvBr dotvZr H00 mulr1 /i_a subrr.
have Hb' : dotv (i_r1 init) (i_r1 init) != 0 by rewrite -sqrt_dotv_neq0.
have H11 : dotv ((i_b init)^-1 *: i_r1 init) ((i_b init)^-1 *: i_r1 init) = 1 by exact: normalize_unit.
have H01 : dotv (i_q0 init) ((i_b init)^-1 *: i_r1 init) = 0 by rewrite dotvZr Hr1 mulr0.
move=> i j; rewrite !ltnS !leq_eqVlt !ltnS !leqn0 => /orP[/eqP->|/eqP->] /orP[/eqP->|/eqP->].
- by rewrite init_q1 H11.
- by rewrite init_q1 init_q0 dotvC H01.
- by rewrite init_q1 init_q0 H01.
- by rewrite init_q0 H00.
Qed.

End Column.

(* ---------------------------------------------------------------------------------------------- *)
(* the returned matrices *)
Definition mx_of (m n : nat) (M : mat F) : 'M[F]_(m, n) := \matrix_(i, j) mget ArR M i j.

(* flat column of the leading index idx = j * B + b of the result (line 153 / 155: permute) *)
Definition col_of (B nvec idx : nat) : nat := ((idx %% B) * nvec + idx %/ B)%N.

Lemma col_of_lt B nvec idx : (idx < nvec * B)%N -> (col_of B nvec idx < B * nvec)%N.
Proof.
move=> h; rewrite /col_of.
have B0 : (0 < B)%N by case: B h => //; rewrite muln0.
have h1 : (idx %% B < B)%N by rewrite ltn_pmod.
have h2 : (idx %/ B < nvec)%N by rewrite ltn_divLR.
nia.
Qed.

Section Final.
Variable g : lz_args F.
Variable o : lz_out F.
Variables (nvec : nat) (init : cols F).
Hypothesis Hrun : lanczos_tridiag ArR g = Ok o.
Hypothesis Hstart : lz_start g = Ok (nvec, init).

Let n := g_n g.
Let B := prodn (g_batch g).
Let C := (B * nvec)%N.
Let num_iter := minn (g_max_iter g) n.
Let r := lz_loop ArR n C num_iter (g_mm g) (g_tol g) (g_brk g) (g_extra g) num_iter.-1 1
                 (lz_init ArR n C num_iter (g_mm g) init).
Let m := r.2.+1.

Lemma final_facts :
  [/\ (1 < num_iter)%N, o_m o = m,
      o_Q o = mkseq (fun idx => mtab n m (fun x i => vget ArR (qget r.1.1 i (col_of B nvec idx)) x)) (nvec * B) &
      o_T o = mkseq (fun idx => mtab m m (fun i j => tget ArR r.1.2 i j (col_of B nvec idx))) (nvec * B)].
Proof.
have [nvec' [init' /= [Hs Hn Ho]]] := lanczos_tridiag_ok Hrun.
move: Hs; rewrite Hstart => -[E1 E2]; rewrite -E1 -E2 in Hn Ho.
by rewrite Ho.
Qed.

Lemma final_mxQ idx (x : 'I_n) (i : 'I_m) : (idx < nvec * B)%N ->
  mx_of n m (nth [::] (o_Q o) idx) x i = qv n (col_of B nvec idx) r.1 i x ord0.
Proof.
move=> hidx; have [_ _ -> _] := final_facts.
by rewrite nth_mkseq // !mxE mget_mtab.
Qed.

Lemma final_mxT idx (i j : nat) : (idx < nvec * B)%N -> (i < m)%N -> (j < m)%N ->
  mget ArR (nth [::] (o_T o) idx) i j = tget ArR r.1.2 i j (col_of B nvec idx).
Proof.
move=> hidx hi hj; have [_ _ _ ->] := final_facts.
by rewrite nth_mkseq // mget_mtab.
Qed.

Lemma final_size : size (o_Q o) = (nvec * B)%N /\ size (o_T o) = (nvec * B)%N.
Proof. by have [_ _ -> ->] := final_facts; rewrite !size_mkseq. Qed.

(* orthonormal columns, for every budget and size, per returned matrix *)
Lemma final_ON idx : (idx < nvec * B)%N ->
  cv n init (col_of B nvec idx) != 0 ->
  (forall j, (j.+1 < m)%N -> mget ArR (nth [::] (o_T o) idx) j j.+1 != 0) ->
  ON n (col_of B nvec idx) m r.1.
Proof.
move=> hidx Hv HG.
have [Hn _ _ _] := final_facts.
have hc := col_of_lt hidx.
have f0 : (0 < num_iter.-1)%N by lia.
have Hk : (1 + num_iter.-1 = num_iter)%N by lia.
apply: (@loop_ON n C num_iter (g_mm g) (g_tol g) (g_brk g) (g_extra g) _ hc num_iter.-1 1 _ f0 Hk (ltn0Sn 0)).
  exact: init_ON.
move=> j hj; rewrite /be -final_mxT //; first exact: HG.
by rewrite -/r -/m; lia.
Qed.

End Final.

(* Theorem (orthonormality).  Exact arithmetic, any closure, any sizes / batch / number of start vectors / budget:
   if the start vector of a column is non-zero and no beta of that column that was divided by vanishes
   (the off-diagonal entries of the returned T), the returned Q has orthonormal columns. *)
Theorem lanczos_orthonormal_rcf (g : lz_args F) o nvec init :
  lanczos_tridiag ArR g = Ok o -> lz_start g = Ok (nvec, init) ->
  forall idx, (idx < size (o_Q o))%N ->
    let n := g_n g in let m := o_m o in
    let Q := nth [::] (o_Q o) idx in let T := nth [::] (o_T o) idx in
    cv n init (col_of (prodn (g_batch g)) nvec idx) != 0 ->
    (forall j, (j.+1 < m)%N -> mget ArR T j j.+1 != 0) ->
    (mx_of n m Q)^T *m mx_of n m Q = 1%:M.
Proof.
move=> Hrun Hstart idx; rewrite (final_size Hrun Hstart).1 => hidx /=.
have [_ Em _ _] := final_facts Hrun Hstart.
rewrite Em => Hv HG.
have Hon := final_ON Hrun Hstart hidx Hv HG.
apply/matrixP => i j; rewrite !mxE.
under eq_bigr => x _ do rewrite mxE !(final_mxQ Hrun Hstart _ _ hidx).
by rewrite -dotvE Hon.
Qed.

End Alg.
